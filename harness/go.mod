module layeh.com/radius/verifharness

go 1.12

require (
	golang.org/x/crypto v0.13.0
	golang.org/x/text v0.13.0
	layeh.com/radius v0.0.0
)

replace layeh.com/radius => /repo
