// regen re-runs the repository's own generator (dictionarygen, as driven by
// cmd/radius-dict-gen) for every package that has a go:generate directive and
// either writes generated.go (-write) or reports which packages differ.
// It replays cmd/radius-dict-gen/main.go in-process: parse the dictionary with
// IgnoreIdenticalAttributes, Generate with the -package/-ref/-ignore options.
package main

import (
	"bytes"
	"flag"
	"fmt"
	"os"
	"path/filepath"
	"sort"
	"strings"

	"layeh.com/radius/dictionary"
	"layeh.com/radius/dictionarygen"
)

type genSpec struct {
	Dir, Package, Output, Dict string
	Refs                       map[string]string
	Ignore                     []string
}

func findSpecs(repo string) []genSpec {
	var specs []genSpec
	globs := []string{"*/generate.go", "vendors/*/generate.go", "internal/*/generate.go"}
	for _, g := range globs {
		ms, _ := filepath.Glob(filepath.Join(repo, g))
		sort.Strings(ms)
		for _, m := range ms {
			b, err := os.ReadFile(m)
			if err != nil {
				continue
			}
			for _, line := range strings.Split(string(b), "\n") {
				if !strings.HasPrefix(line, "//go:generate") || !strings.Contains(line, "radius-dict-gen") {
					continue
				}
				f := strings.Fields(line)
				s := genSpec{Dir: filepath.Dir(m), Refs: map[string]string{}}
				for i := 0; i < len(f); i++ {
					switch f[i] {
					case "-package":
						s.Package = f[i+1]
						i++
					case "-output":
						s.Output = f[i+1]
						i++
					case "-ref":
						kv := strings.SplitN(f[i+1], ":", 2)
						s.Refs[kv[0]] = kv[1]
						i++
					case "-ignore":
						s.Ignore = append(s.Ignore, f[i+1])
						i++
					default:
						if strings.HasPrefix(f[i], "dictionary.") {
							s.Dict = f[i]
						}
					}
				}
				sort.Strings(s.Ignore)
				specs = append(specs, s)
			}
		}
	}
	return specs
}

func generate(s genSpec) ([]byte, error) {
	parser := dictionary.Parser{Opener: &dictionary.FileSystemOpener{Root: s.Dir}, IgnoreIdenticalAttributes: true}
	dict, err := parser.ParseFile(s.Dict)
	if err != nil {
		return nil, err
	}
	g := dictionarygen.Generator{Package: s.Package, IgnoredAttributes: s.Ignore, ExternalAttributes: s.Refs}
	return g.Generate(dict)
}

func main() {
	write := flag.Bool("write", false, "write generated.go files")
	repo := flag.String("repo", "/repo", "repository root")
	flag.Parse()
	diff := 0
	for _, s := range findSpecs(*repo) {
		out, err := generate(s)
		if err != nil {
			fmt.Printf("%s: generate failed: %v\n", s.Dir, err)
			diff++
			continue
		}
		path := filepath.Join(s.Dir, s.Output)
		old, _ := os.ReadFile(path)
		if !bytes.Equal(old, out) {
			diff++
			if *write {
				os.WriteFile(path, out, 0644)
				fmt.Printf("%s: rewritten\n", path)
			} else {
				fmt.Printf("%s: differs from the generator's output\n", path)
			}
		}
	}
	fmt.Printf("%d package(s) differ\n", diff)
}
