package main

// Memory-effect summaries of the read-only API (property C13), derived from the
// working tree with go/ast: for every reader function, the statements that write
// through memory reachable from a parameter, the calls whose effect on such
// memory is not known to be read-only, and whether a result may alias it.
//
// The analysis is flow-insensitive and, apart from the helper summaries, intra-procedural:
//   shared(e): e may denote memory visible to the caller
//     - a parameter that is not a scalar (and not the io.Writer being written to)
//     - x.f, x[i], x[i:j], *x, (T)(x) of a shared x (T not string)
//     - a call of an alias-returning function/method with a shared argument or receiver
//     - append(x, ...) with shared x
//     - a local variable assigned or ranged from a shared expression
//   write: assignment/inc-dec whose target is x[i], x.f, *x, x[i:j] with shared x; copy(x, _) with
//     shared x; append(x, ...) with shared x (may write into spare capacity)
//   unknown call: any call with a shared argument or receiver whose callee is neither in the
//     read-only list below nor itself a reader of this table
//   a call of an unexported function of the analysed package that is not itself listed is resolved through that
//     function's per-parameter summary (helperSummary below), recursively; recursion among helpers stays unknown

import (
	"bytes"
	"fmt"
	"go/ast"
	"go/parser"
	"go/token"
	"os"
	"path/filepath"
	"sort"
	"strings"
)

type effect struct {
	name    string // pkg.Func
	role    string // parse encode predicate list decoder getter vendorwalk dump stringer
	writes  []string
	unknown []string
	alias   bool
}

var coreReaders = map[string]string{
	"Parse": "parse", "ParseAttributes": "parse",
	"Packet_MarshalBinary": "encode", "Packet_Encode": "encode", "Attributes_encodeTo": "encode", "AttributesEncodedLen": "encode",
	"IsAuthenticRequest": "predicate", "IsAuthenticResponse": "predicate",
	"Attributes_Get": "list", "Attributes_Lookup": "list",
	"Integer": "decoder", "Short": "decoder", "Integer64": "decoder", "String": "decoder", "Bytes": "decoder",
	"IPAddr": "decoder", "IPv6Addr": "decoder", "IFID": "decoder", "UserPassword": "decoder", "Date": "decoder",
	"VendorSpecific": "decoder", "TLV": "decoder", "IPv6Prefix": "decoder", "TunnelPassword": "decoder",
}
var debugReaders = map[string]string{"Dump": "dump", "DumpString": "dump", "DumpRequest": "dump", "DumpRequestString": "dump", "dumpAttrs": "dump"}

// callees that only read the memory of their arguments / receiver
var readOnlyCallee = map[string]bool{
	"len": true, "cap": true, "string": true, "make": true, "new": true, "panic": true, "int": true, "uint32": true, "uint64": true, "byte": true, "uint16": true, "int64": true, "uint8": true,
	"errors.New": true, "bytes.Equal": true, "hex.EncodeToString": true, "io.WriteString": true,
	"binary.BigEndian.Uint16": true, "binary.BigEndian.Uint32": true, "binary.BigEndian.Uint64": true,
	"strconv.Itoa": true, "strconv.FormatUint": true, "strconv.Quote": true, "strconv.FormatInt": true,
	"time.Unix": true, "net.CIDRMask": true, "md5.New": true, "md5.Sum": true,
	".Write": true, ".Reset": true, ".Sum": true, ".String": true, ".Equal": true, ".Len": true, ".Truncate": true, ".Unix": true, ".Size": true,
	"dictionary.AttributeByOID": true, "dictionary.ValuesByAttribute": true, "dictionary.VendorByNumber": true, "dictionary.AttributeByName": true,
	"sort.Stable": false, "strings.Join": true, "fmt.Sprintf": true, "fmt.Fprintf": true,
	"subtle.ConstantTimeCompare": true,
	"Type":                       true, "Code": true, "radius.Type": true, "radius.Code": true, "OID": true, "dictionary.OID": true,
}

// functions whose result aliases their argument by design (the list accessors and the vendor walkers)
func aliasByDesign(callee string) bool {
	switch {
	case strings.HasSuffix(callee, ".Lookup"), strings.HasSuffix(callee, ".Get"):
		return true
	case strings.HasSuffix(callee, "_LookupVendor"), strings.HasSuffix(callee, "_GetsVendor"):
		return true
	case callee == ".To4", callee == ".To16", callee == ".Mask":
		return true
	}
	return false
}

func calleeName(e ast.Expr) string {
	switch f := e.(type) {
	case *ast.Ident:
		return f.Name
	case *ast.SelectorExpr:
		if x, ok := f.X.(*ast.Ident); ok {
			if x.Obj == nil { // package qualifier
				return x.Name + "." + f.Sel.Name
			}
			return "." + f.Sel.Name
		}
		if x, ok := f.X.(*ast.SelectorExpr); ok {
			if xx, ok := x.X.(*ast.Ident); ok && xx.Obj == nil {
				return xx.Name + "." + x.Sel.Name + "." + f.Sel.Name
			}
		}
		return "." + f.Sel.Name
	case *ast.ParenExpr:
		return calleeName(f.X)
	case *ast.ArrayType:
		return "[]conv"
	case *ast.IndexExpr:
		return calleeName(f.X)
	}
	return "?"
}

type fnAnalysis struct {
	shared       map[string]bool
	writer       map[string]bool // io.Writer / bytes.Buffer style sinks
	readers      map[string]bool // names of functions that are themselves in the table
	eff          *effect
	fset         *token.FileSet
	resultScalar []bool
	helpers      *helperTable
}

func isScalarType(t ast.Expr) bool {
	switch x := t.(type) {
	case *ast.Ident:
		switch x.Name {
		case "int", "int64", "uint32", "uint64", "uint16", "byte", "uint8", "bool", "string", "Type", "Code", "error":
			return true
		}
		// named integer types of generated packages (TunnelType etc.) are scalars; Attribute/Attributes are not
		return x.Name != "Attribute" && x.Name != "Attributes" && x.Obj != nil && isNamedScalar(x)
	case *ast.SelectorExpr:
		n := x.Sel.Name
		return n == "Type" || n == "Code" || n == "Time"
	}
	return false
}

func isNamedScalar(id *ast.Ident) bool {
	if ts, ok := id.Obj.Decl.(*ast.TypeSpec); ok {
		if b, ok := ts.Type.(*ast.Ident); ok {
			switch b.Name {
			case "uint32", "uint64", "uint16", "uint8", "byte", "int", "string":
				return true
			}
		}
	}
	return false
}

// ---- unexported helper functions of the package under analysis ----
// A reader may delegate to an unexported helper of its own package (extracted during a refactoring). Such a helper
// is not listed as a reader; it is summarised per parameter - analysed once with only that parameter (or the
// receiver, index -1) caller-visible: does it write through it, may its result alias it, does it pass it to a call
// of unknown effect - and the summary is applied at each call site to the arguments that are caller-visible there.
type helperSummary struct {
	writes  map[int]bool
	alias   map[int]bool
	unknown map[int][]string
}

type helperTable struct {
	fset    *token.FileSet
	pkg     string
	decls   map[string]*ast.FuncDecl // unexported functions and methods by bare name (ambiguous names are left out)
	readers map[string]bool
	memo    map[string]*helperSummary
	busy    map[string]bool
}

func newHelperTable(fset *token.FileSet, pkg string, files []*ast.File, readers map[string]bool, listed map[string]string) *helperTable {
	h := &helperTable{fset: fset, pkg: pkg, decls: map[string]*ast.FuncDecl{}, readers: readers, memo: map[string]*helperSummary{}, busy: map[string]bool{}}
	dup := map[string]bool{}
	for _, f := range files {
		for _, d := range f.Decls {
			fd, ok := d.(*ast.FuncDecl)
			if !ok || fd.Body == nil || ast.IsExported(fd.Name.Name) {
				continue
			}
			if _, isListed := listed[funcName(fd)]; isListed {
				continue
			}
			if _, seen := h.decls[fd.Name.Name]; seen {
				dup[fd.Name.Name] = true
			}
			h.decls[fd.Name.Name] = fd
		}
	}
	for n := range dup {
		delete(h.decls, n)
	}
	return h
}

// paramIndex lists the non-scalar parameters of fd: receiver first (index -1), then the parameters by position
func helperParams(fd *ast.FuncDecl) []int {
	var out []int
	if fd.Recv != nil && len(fd.Recv.List) == 1 && !isScalarType(fd.Recv.List[0].Type) {
		out = append(out, -1)
	}
	i := 0
	for _, f := range fd.Type.Params.List {
		k := len(f.Names)
		if k == 0 {
			k = 1
		}
		for j := 0; j < k; j++ {
			if !isScalarType(f.Type) {
				out = append(out, i)
			}
			i++
		}
	}
	return out
}

func (h *helperTable) summary(short string) *helperSummary {
	if h == nil {
		return nil
	}
	fd, ok := h.decls[short]
	if !ok {
		return nil
	}
	if s, ok := h.memo[short]; ok {
		return s
	}
	if h.busy[short] {
		return nil // recursion among helpers: the call stays unknown
	}
	h.busy[short] = true
	defer delete(h.busy, short)
	sum := &helperSummary{writes: map[int]bool{}, alias: map[int]bool{}, unknown: map[int][]string{}}
	for _, idx := range helperParams(fd) {
		idx := idx
		e := analyseFuncFiltered(h.fset, h.pkg, fd, "helper", h.readers, h, func(i int) bool { return i == idx })
		sum.writes[idx] = len(e.writes) > 0
		sum.alias[idx] = e.alias
		sum.unknown[idx] = e.unknown
	}
	h.memo[short] = sum
	return sum
}

// callArgs pairs the caller-visible arguments of a call with the callee's parameter indices (-1 = receiver)
func (a *fnAnalysis) sharedArgIndices(x *ast.CallExpr) []int {
	var out []int
	if sel, ok := x.Fun.(*ast.SelectorExpr); ok && a.sharedExpr(sel.X) {
		out = append(out, -1)
	}
	for i, arg := range x.Args {
		if a.sharedExpr(arg) {
			out = append(out, i)
		}
	}
	return out
}

func shortName(name string) string {
	if i := strings.LastIndex(name, "."); i >= 0 {
		return name[i+1:]
	}
	return name
}

func (a *fnAnalysis) sharedExpr(e ast.Expr) bool {
	switch x := e.(type) {
	case *ast.Ident:
		return a.shared[x.Name]
	case *ast.SelectorExpr:
		return a.sharedExpr(x.X)
	case *ast.IndexExpr:
		return a.sharedExpr(x.X)
	case *ast.SliceExpr:
		return a.sharedExpr(x.X)
	case *ast.StarExpr:
		return a.sharedExpr(x.X)
	case *ast.ParenExpr:
		return a.sharedExpr(x.X)
	case *ast.UnaryExpr:
		if x.Op == token.AND {
			return a.sharedExpr(x.X)
		}
		return false
	case *ast.CallExpr:
		name := calleeName(x.Fun)
		if name == "append" && len(x.Args) > 0 {
			return a.sharedExpr(x.Args[0])
		}
		if name == "string" {
			return false
		}
		anyShared := false
		for _, arg := range x.Args {
			if a.sharedExpr(arg) {
				anyShared = true
			}
		}
		if sel, ok := x.Fun.(*ast.SelectorExpr); ok && a.sharedExpr(sel.X) {
			anyShared = true
		}
		if !anyShared {
			return false
		}
		if aliasByDesign(name) {
			return true
		}
		if sum := a.helpers.summary(shortName(name)); sum != nil {
			for _, i := range a.sharedArgIndices(x) {
				if sum.alias[i] {
					return true
				}
			}
			return false
		}
		// a conversion T(x): Fun is a type (array type, or a capitalised selector/ident that is not a known function)
		if _, ok := x.Fun.(*ast.ArrayType); ok {
			return true
		}
		if len(x.Args) == 1 && isConversionName(name) {
			return true
		}
		return false
	}
	return false
}

func isConversionName(n string) bool {
	switch n {
	case "radius.Attribute", "Attribute", "net.IP", "net.HardwareAddr", "net.IPMask", "Attributes", "radius.Attributes":
		return true
	}
	return false
}

func baseOfTarget(e ast.Expr) (ast.Expr, bool) {
	switch x := e.(type) {
	case *ast.IndexExpr:
		return x.X, true
	case *ast.SliceExpr:
		return x.X, true
	case *ast.StarExpr:
		return x.X, true
	case *ast.SelectorExpr:
		return x.X, true
	case *ast.ParenExpr:
		return baseOfTarget(x.X)
	}
	return nil, false
}

func (a *fnAnalysis) pos(n ast.Node) string {
	p := a.fset.Position(n.Pos())
	return fmt.Sprintf("%s:%d", filepath.Base(p.Filename), p.Line)
}

func (a *fnAnalysis) propagate(body *ast.BlockStmt) {
	for changed := true; changed; {
		changed = false
		mark := func(lhs ast.Expr, rhsShared bool) {
			if id, ok := lhs.(*ast.Ident); ok && rhsShared && id.Name != "_" && !a.shared[id.Name] {
				a.shared[id.Name] = true
				changed = true
			}
		}
		ast.Inspect(body, func(n ast.Node) bool {
			switch s := n.(type) {
			case *ast.AssignStmt:
				if len(s.Lhs) == len(s.Rhs) {
					for i := range s.Lhs {
						mark(s.Lhs[i], a.sharedExpr(s.Rhs[i]))
					}
				} else if len(s.Rhs) == 1 {
					sh := a.sharedExpr(s.Rhs[0])
					for _, l := range s.Lhs {
						mark(l, sh)
					}
				}
			case *ast.RangeStmt:
				if a.sharedExpr(s.X) {
					if s.Value != nil {
						mark(s.Value, true)
					}
				}
			case *ast.ValueSpec:
				for i, nm := range s.Names {
					if i < len(s.Values) {
						mark(nm, a.sharedExpr(s.Values[i]))
					}
				}
			}
			return true
		})
	}
}

func (a *fnAnalysis) scan(body *ast.BlockStmt, results []string) {
	ast.Inspect(body, func(n ast.Node) bool {
		switch s := n.(type) {
		case *ast.AssignStmt:
			for _, l := range s.Lhs {
				if b, ok := baseOfTarget(l); ok && a.sharedExpr(b) {
					a.eff.writes = append(a.eff.writes, a.pos(s)+" "+exprString(l)+" =")
				}
			}
		case *ast.IncDecStmt:
			if b, ok := baseOfTarget(s.X); ok && a.sharedExpr(b) {
				a.eff.writes = append(a.eff.writes, a.pos(s)+" "+exprString(s.X)+"++")
			}
		case *ast.CallExpr:
			name := calleeName(s.Fun)
			switch name {
			case "copy":
				if len(s.Args) > 0 && a.sharedExpr(s.Args[0]) {
					a.eff.writes = append(a.eff.writes, a.pos(s)+" copy("+exprString(s.Args[0])+", ...)")
				}
				return true
			case "append":
				if len(s.Args) > 0 && a.sharedExpr(s.Args[0]) {
					a.eff.writes = append(a.eff.writes, a.pos(s)+" append("+exprString(s.Args[0])+", ...)")
				}
				return true
			case ".Sum":
				// hash.Sum(b) appends the digest to b: a write when b is caller-visible memory
				if len(s.Args) > 0 && a.sharedExpr(s.Args[0]) {
					a.eff.writes = append(a.eff.writes, a.pos(s)+" Sum("+exprString(s.Args[0])+") appends into its argument")
				}
				return true
			}
			anyShared := false
			for _, arg := range s.Args {
				if a.sharedExpr(arg) {
					anyShared = true
				}
			}
			recvShared := false
			if sel, ok := s.Fun.(*ast.SelectorExpr); ok {
				if id, ok := sel.X.(*ast.Ident); ok && a.writer[id.Name] {
					return true // output sink: w.Write(...), b.Truncate(...)
				}
				if a.sharedExpr(sel.X) {
					recvShared = true
				}
			}
			if !anyShared && !recvShared {
				return true
			}
			if readOnlyCallee[name] || aliasByDesign(name) || isConversionName(name) || name == "[]conv" {
				return true
			}
			short := name
			if i := strings.LastIndex(short, "."); i >= 0 {
				short = short[i+1:]
			}
			if a.readers[short] || a.readers[name] {
				return true
			}
			if sum := a.helpers.summary(short); sum != nil {
				for _, i := range a.sharedArgIndices(s) {
					if sum.writes[i] {
						a.eff.writes = append(a.eff.writes, fmt.Sprintf("%s %s writes through its argument %d", a.pos(s), name, i))
					}
					for _, u := range sum.unknown[i] {
						a.eff.unknown = append(a.eff.unknown, a.pos(s)+" "+name+" -> "+u)
					}
				}
				return true
			}
			a.eff.unknown = append(a.eff.unknown, a.pos(s)+" "+name)
		case *ast.ReturnStmt:
			for i, r := range s.Results {
				if i < len(a.resultScalar) && a.resultScalar[i] {
					continue
				}
				if a.sharedExpr(r) {
					a.eff.alias = true
				}
			}
			if len(s.Results) == 0 {
				for i, r := range results {
					if i < len(a.resultScalar) && a.resultScalar[i] {
						continue
					}
					if a.shared[r] {
						a.eff.alias = true
					}
				}
			}
		}
		return true
	})
}

func analyseFunc(fset *token.FileSet, pkg string, fd *ast.FuncDecl, role string, readers map[string]bool, helpers *helperTable) *effect {
	return analyseFuncFiltered(fset, pkg, fd, role, readers, helpers, nil)
}

// only (when not nil) selects the parameters that are caller-visible (-1 = the receiver, then by position)
func analyseFuncFiltered(fset *token.FileSet, pkg string, fd *ast.FuncDecl, role string, readers map[string]bool, helpers *helperTable, only func(int) bool) *effect {
	eff := &effect{name: pkg + "." + funcName(fd), role: role}
	a := &fnAnalysis{shared: map[string]bool{}, writer: map[string]bool{}, readers: readers, eff: eff, fset: fset, helpers: helpers}
	pidx := 0
	addParams := func(fl *ast.FieldList, isRecv bool) {
		if fl == nil {
			return
		}
		for _, f := range fl.List {
			k := len(f.Names)
			if k == 0 {
				k = 1
			}
			first := pidx
			if isRecv {
				first = -1
			} else {
				pidx += k
			}
			if sel, ok := f.Type.(*ast.SelectorExpr); ok && sel.Sel.Name == "Writer" {
				for _, n := range f.Names {
					a.writer[n.Name] = true
				}
				continue
			}
			if isScalarType(f.Type) {
				continue
			}
			for j, n := range f.Names {
				if fd.Name.Name == "encodeTo" && n.Name == "b" {
					continue // the destination buffer handed in by MarshalBinary
				}
				idx := first
				if !isRecv {
					idx = first + j
				}
				if only != nil && !only(idx) {
					continue
				}
				a.shared[n.Name] = true
			}
		}
	}
	addParams(fd.Recv, true)
	addParams(fd.Type.Params, false)
	// local sinks: var b bytes.Buffer
	ast.Inspect(fd.Body, func(n ast.Node) bool {
		if vs, ok := n.(*ast.ValueSpec); ok {
			if sel, ok := vs.Type.(*ast.SelectorExpr); ok && sel.Sel.Name == "Buffer" {
				for _, nm := range vs.Names {
					a.writer[nm.Name] = true
				}
			}
		}
		return true
	})
	var results []string
	if fd.Type.Results != nil {
		for _, f := range fd.Type.Results.List {
			k := len(f.Names)
			if k == 0 {
				k = 1
			}
			for i := 0; i < k; i++ {
				a.resultScalar = append(a.resultScalar, isScalarType(f.Type))
			}
			for _, n := range f.Names {
				results = append(results, n.Name)
			}
		}
	}
	a.propagate(fd.Body)
	a.scan(fd.Body, results)
	return eff
}

func generatedRole(name string) string {
	switch {
	case strings.HasSuffix(name, "_LookupVendor"), strings.HasSuffix(name, "_GetsVendor"):
		return "vendorwalk"
	case strings.HasSuffix(name, "_Get"), strings.HasSuffix(name, "_Gets"), strings.HasSuffix(name, "_Lookup"),
		strings.HasSuffix(name, "_GetString"), strings.HasSuffix(name, "_GetStrings"), strings.HasSuffix(name, "_LookupString"):
		return "getter"
	case strings.HasSuffix(name, "_String"):
		return "stringer"
	}
	return ""
}

func collectEffects(repo string) ([]*effect, error) {
	var out []*effect
	parseDir := func(dir string, only func(string) bool) (*token.FileSet, []*ast.File, error) {
		fset := token.NewFileSet()
		pkgs, err := parser.ParseDir(fset, dir, func(fi os.FileInfo) bool {
			return !strings.HasSuffix(fi.Name(), "_test.go") && (only == nil || only(fi.Name()))
		}, 0)
		if err != nil {
			return nil, nil, err
		}
		var files []*ast.File
		for _, p := range pkgs {
			var names []string
			for n := range p.Files {
				names = append(names, n)
			}
			sort.Strings(names)
			for _, n := range names {
				files = append(files, p.Files[n])
			}
		}
		return fset, files, nil
	}
	// package radius
	fset, files, err := parseDir(repo, func(n string) bool { return n == "attribute.go" || n == "attributes.go" || n == "packet.go" })
	if err != nil {
		return nil, err
	}
	var helpers *helperTable
	readers := map[string]bool{}
	for k := range coreReaders {
		readers[k] = true
		if i := strings.Index(k, "_"); i >= 0 {
			readers[k[i+1:]] = true
		}
	}
	helpers = newHelperTable(fset, "radius", files, readers, coreReaders)
	for _, f := range files {
		for _, d := range f.Decls {
			if fd, ok := d.(*ast.FuncDecl); ok && fd.Body != nil {
				if role, ok := coreReaders[funcName(fd)]; ok {
					out = append(out, analyseFunc(fset, "radius", fd, role, readers, helpers))
				}
			}
		}
	}
	seenCore := 0
	for range out {
		seenCore++
	}
	if seenCore != len(coreReaders) {
		return nil, fmt.Errorf("expected %d core readers, found %d", len(coreReaders), seenCore)
	}
	// debug
	fset, files, err = parseDir(filepath.Join(repo, "debug"), func(n string) bool { return n == "debug.go" })
	if err != nil {
		return nil, err
	}
	dreaders := map[string]bool{}
	for k := range debugReaders {
		dreaders[k] = true
	}
	for k := range readers {
		dreaders[k] = true
	}
	helpers = newHelperTable(fset, "debug", files, dreaders, debugReaders)
	for _, f := range files {
		for _, d := range f.Decls {
			if fd, ok := d.(*ast.FuncDecl); ok && fd.Body != nil {
				if role, ok := debugReaders[funcName(fd)]; ok {
					out = append(out, analyseFunc(fset, "debug", fd, role, dreaders, helpers))
				}
			}
		}
	}
	// generated packages
	var gens []string
	filepath.Walk(repo, func(p string, fi os.FileInfo, err error) error {
		if err == nil && fi.Name() == "generated.go" && !strings.Contains(p, "/debug/") {
			gens = append(gens, p)
		}
		return nil
	})
	sort.Strings(gens)
	for _, g := range gens {
		fset := token.NewFileSet()
		f, err := parser.ParseFile(fset, g, nil, 0)
		if err != nil {
			return nil, err
		}
		greaders := map[string]bool{}
		for k := range readers {
			greaders[k] = true
		}
		for _, d := range f.Decls {
			if fd, ok := d.(*ast.FuncDecl); ok && generatedRole(funcName(fd)) != "" {
				greaders[funcName(fd)] = true
			}
		}
		for _, d := range f.Decls {
			if fd, ok := d.(*ast.FuncDecl); ok && fd.Body != nil {
				if role := generatedRole(funcName(fd)); role != "" {
					out = append(out, analyseFunc(fset, f.Name.Name, fd, role, greaders, nil))
				}
			}
		}
	}
	return out, nil
}

func emitEffects(repo, out string) error {
	effs, err := collectEffects(repo)
	if err != nil {
		return err
	}
	var w bytes.Buffer
	w.WriteString("(* GENERATED by /verif/harness/cmd/srcfacts (effects.go) from the layeh/radius working tree. DO NOT EDIT. *)\n")
	w.WriteString("From Coq Require Import List String.\nImport ListNotations.\nOpen Scope string_scope.\n\n")
	w.WriteString("Inductive role := RParse | REncode | RPredicate | RList | RDecoder | RGetter | RVendorWalk | RDump | RStringer.\n")
	w.WriteString("Record reader := mkreader { r_name : string; r_role : role; r_writes : list string; r_unknown : list string; r_alias : bool }.\n\n")
	roleName := map[string]string{"parse": "RParse", "encode": "REncode", "predicate": "RPredicate", "list": "RList", "decoder": "RDecoder", "getter": "RGetter", "vendorwalk": "RVendorWalk", "dump": "RDump", "stringer": "RStringer"}
	strs := func(l []string) string {
		var q []string
		for _, s := range l {
			q = append(q, coqString(s))
		}
		return "[" + strings.Join(q, "; ") + "]"
	}
	// chunked so that no single Coq term is huge
	const chunk = 200
	n := 0
	for i := 0; i < len(effs); i += chunk {
		fmt.Fprintf(&w, "Definition readers_%d : list reader := [\n", n)
		end := i + chunk
		if end > len(effs) {
			end = len(effs)
		}
		for j := i; j < end; j++ {
			e := effs[j]
			sep := ";"
			if j == end-1 {
				sep = ""
			}
			fmt.Fprintf(&w, "  mkreader %s %s %s %s %v%s\n", coqString(e.name), roleName[e.role], strs(e.writes), strs(e.unknown), e.alias, sep)
		}
		w.WriteString("].\n")
		n++
	}
	w.WriteString("Definition readers : list reader := ")
	for k := 0; k < n; k++ {
		if k > 0 {
			w.WriteString(" ++ ")
		}
		fmt.Fprintf(&w, "readers_%d", k)
	}
	w.WriteString(".\n")
	fmt.Fprintf(&w, "Definition n_readers : nat := %d.\n", len(effs))
	old, _ := os.ReadFile(out)
	if !bytes.Equal(old, w.Bytes()) {
		if err := os.WriteFile(out, w.Bytes(), 0644); err != nil {
			return err
		}
		fmt.Println("srcfacts: wrote", out)
	} else {
		fmt.Println("srcfacts: unchanged", out)
	}
	return nil
}
