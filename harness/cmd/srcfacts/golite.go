// golite.go — translator from a fragment of Go into the GoLite syntax of
// coq/Base/GoLite.v.  Every function of attribute.go, attributes.go and
// packet.go is translated on every run into coq/Gen/Src.v; a function that
// leaves the fragment is emitted as `Refused "reason"`, which breaks the
// theorems about it (Proofs/Src*.v) rather than silently dropping it.
//
// The translation is syntax-directed and uses go/types only for (a) constant
// folding, (b) the integer type of every arithmetic result and conversion (to
// insert EWrap), (c) field positions.  Slices are translated to values; the
// discipline in (*tr).checkAliasing refuses functions where that could be
// observed.
package main

import (
	"bytes"
	"fmt"
	"go/ast"
	"go/build"
	"go/constant"
	"go/importer"
	"go/parser"
	"go/token"
	"go/types"
	"os"
	"path/filepath"
	"sort"
	"strings"
)

var goliteFiles = []string{"attribute.go", "attributes.go", "packet.go"}

type refusal struct{ why string }

type tr struct {
	info    *types.Info
	pkg     *types.Package
	vars    map[types.Object]int
	nvars   int
	nparams int
	fn      *ast.FuncDecl
	recv    types.Object // pointer receiver (or nil)
	mutRecv bool
	named   []types.Object // named results
	hash    map[types.Object]bool
	mut     map[string]bool      // functions that mutate their pointer receiver
	mutPar  map[string][]int     // functions that write into the memory of slice parameters (indexes among the parameters, receiver included)
	cursor  map[types.Object]int // written parameters that are also advanced (p = p[e:]): hidden offset variable
	outPars []types.Object       // written parameters of the current function, in order
	// aliasing discipline
	writes  map[types.Object][]token.Pos // element/field writes per root
	aliases map[types.Object][]token.Pos // reference uses per root
	fresh   map[types.Object]bool        // locals only ever assigned fresh values
	loops   [][2]token.Pos
}

func (t *tr) refuse(n ast.Node, format string, a ...interface{}) {
	pos := ""
	if n != nil {
		p := fset.Position(n.Pos())
		pos = fmt.Sprintf("%s:%d: ", filepath.Base(p.Filename), p.Line)
	}
	panic(refusal{pos + fmt.Sprintf(format, a...)})
}

func (t *tr) newVar(o types.Object) int {
	if o != nil {
		if n, ok := t.vars[o]; ok {
			return n
		}
	}
	n := t.nvars
	t.nvars++
	if o != nil {
		t.vars[o] = n
	}
	return n
}

func (t *tr) obj(id *ast.Ident) types.Object {
	if o := t.info.Defs[id]; o != nil {
		return o
	}
	return t.info.Uses[id]
}

// ---------- types ----------

func isByteSeq(ty types.Type) bool {
	switch u := ty.Underlying().(type) {
	case *types.Slice:
		b, ok := u.Elem().Underlying().(*types.Basic)
		return ok && b.Kind() == types.Uint8
	case *types.Array:
		b, ok := u.Elem().Underlying().(*types.Basic)
		return ok && b.Kind() == types.Uint8
	case *types.Basic:
		return u.Info()&types.IsString != 0
	}
	return false
}

func isListType(ty types.Type) bool {
	if u, ok := ty.Underlying().(*types.Slice); ok {
		return !isByteSeq(ty) && u != nil
	}
	return false
}

func deref(ty types.Type) types.Type {
	if p, ok := ty.Underlying().(*types.Pointer); ok {
		return p.Elem()
	}
	return ty
}

// integer range of a basic type: bits, signed; ok=false for non-integers
func intKind(ty types.Type) (bits int, signed bool, ok bool) {
	b, isb := ty.Underlying().(*types.Basic)
	if !isb || b.Info()&types.IsInteger == 0 {
		return 0, false, false
	}
	switch b.Kind() {
	case types.Int8:
		return 8, true, true
	case types.Int16:
		return 16, true, true
	case types.Int32:
		return 32, true, true
	case types.Int, types.Int64, types.UntypedInt, types.UntypedRune:
		return 64, true, true
	case types.Uint8:
		return 8, false, true
	case types.Uint16:
		return 16, false, true
	case types.Uint32:
		return 32, false, true
	case types.Uint, types.Uint64, types.Uintptr:
		return 64, false, true
	}
	return 0, false, false
}

// wrap an arithmetic result of type ty; int/int64 are left unwrapped (DESIGN A.2)
func wrapFor(ty types.Type, e string) string {
	bits, signed, ok := intKind(ty)
	if !ok || (bits == 64 && signed) {
		return e
	}
	return fmt.Sprintf("(EWrap %d %v %s)", bits, signed, e)
}

// conversion from type `from` to type `to`
func convWrap(from, to types.Type, e string) string {
	fb, fs, ok1 := intKind(from)
	tb, ts, ok2 := intKind(to)
	if !ok1 || !ok2 {
		return e
	}
	// the target holds every value of the source: nothing to do
	if fs == ts && tb >= fb {
		return e
	}
	if !fs && ts && tb > fb {
		return e
	}
	return fmt.Sprintf("(EWrap %d %v %s)", tb, ts, e)
}

func (t *tr) zero(ty types.Type, n ast.Node) string {
	switch u := ty.Underlying().(type) {
	case *types.Basic:
		switch {
		case u.Info()&types.IsInteger != 0:
			return "(EInt 0)"
		case u.Info()&types.IsBoolean != 0:
			return "(EBool false)"
		case u.Info()&types.IsString != 0:
			return "(EStr [])"
		}
	case *types.Slice, *types.Pointer, *types.Interface:
		return "ENil"
	case *types.Array:
		if isByteSeq(ty) {
			return fmt.Sprintf("(EMake (EInt %d))", u.Len())
		}
	case *types.Struct:
		if isTime(ty) {
			return "(EInt (-62135596800))"
		}
		var fs []string
		for i := 0; i < u.NumFields(); i++ {
			fs = append(fs, t.zero(u.Field(i).Type(), n))
		}
		return "(ERec [" + strings.Join(fs, "; ") + "])"
	}
	t.refuse(n, "zero value of %s", ty)
	return ""
}

func isTime(ty types.Type) bool { return ty.String() == "time.Time" }

func isHash(ty types.Type) bool { return ty.String() == "hash.Hash" }

// ---------- expressions ----------

func coqZ(s string) string {
	if strings.HasPrefix(s, "-") {
		return "(" + s + ")"
	}
	return s
}

func coqBytes(b []byte) string {
	var p []string
	for _, c := range b {
		p = append(p, fmt.Sprint(int(c)))
	}
	return "[" + strings.Join(p, "; ") + "]%N"
}

func (t *tr) constant(e ast.Expr) (string, bool) {
	tv, ok := t.info.Types[e]
	if !ok || tv.Value == nil {
		return "", false
	}
	switch tv.Value.Kind() {
	case constant.Int:
		return "(EInt " + coqZ(tv.Value.ExactString()) + ")", true
	case constant.Bool:
		return fmt.Sprintf("(EBool %v)", constant.BoolVal(tv.Value)), true
	case constant.String:
		return "(EStr " + coqBytes([]byte(constant.StringVal(tv.Value))) + ")", true
	}
	return "", false
}

var binops = map[token.Token]string{
	token.ADD: "BAdd", token.SUB: "BSub", token.MUL: "BMul", token.QUO: "BDiv", token.REM: "BMod",
	token.AND: "BAnd", token.OR: "BOr", token.XOR: "BXor", token.AND_NOT: "BAndNot",
	token.SHL: "BShl", token.SHR: "BShr", token.EQL: "BEq", token.NEQ: "BNe",
	token.LSS: "BLt", token.LEQ: "BLe", token.GTR: "BGt", token.GEQ: "BGe",
	token.LAND: "BLAnd", token.LOR: "BLOr",
}

var wrapOps = map[token.Token]bool{token.ADD: true, token.SUB: true, token.MUL: true, token.SHL: true}

func (t *tr) typeOf(e ast.Expr) types.Type {
	if tv, ok := t.info.Types[e]; ok && tv.Type != nil {
		return tv.Type
	}
	if id, ok := e.(*ast.Ident); ok {
		if o := t.obj(id); o != nil {
			return o.Type()
		}
	}
	t.refuse(e, "untyped expression")
	return nil
}

// calleeName gives "pkg.Func", "Type.Method" or "Func" for a call
func (t *tr) calleeName(call *ast.CallExpr) (name string, recv ast.Expr) {
	switch f := call.Fun.(type) {
	case *ast.Ident:
		if o, ok := t.obj(f).(*types.Func); ok && o.Pkg() == t.pkg {
			return f.Name, nil
		}
		return "builtin." + f.Name, nil
	case *ast.SelectorExpr:
		if sel, ok := t.info.Selections[f]; ok && sel.Kind() == types.MethodVal {
			rt := deref(sel.Recv())
			tn := rt.String()
			if n, ok := rt.(*types.Named); ok {
				if n.Obj().Pkg() == t.pkg {
					tn = n.Obj().Name()
				} else if n.Obj().Pkg() != nil {
					tn = n.Obj().Pkg().Name() + "." + n.Obj().Name()
				}
			}
			if tn == "binary.bigEndian" {
				return "binary.BigEndian." + f.Sel.Name, nil
			}
			return tn + "." + f.Sel.Name, f.X
		}
		if id, ok := f.X.(*ast.Ident); ok {
			if pn, ok := t.obj(id).(*types.PkgName); ok {
				return pn.Imported().Name() + "." + f.Sel.Name, nil
			}
		}
		// binary.BigEndian.Uint16
		if inner, ok := f.X.(*ast.SelectorExpr); ok {
			if id, ok := inner.X.(*ast.Ident); ok {
				if pn, ok := t.obj(id).(*types.PkgName); ok {
					return pn.Imported().Name() + "." + inner.Sel.Name + "." + f.Sel.Name, nil
				}
			}
		}
	}
	t.refuse(call, "call of %s", exprString(call.Fun))
	return "", nil
}

// side-effect free and panic free enough to be dropped (error message operands)
func (t *tr) harmless(e ast.Expr) bool {
	ok := true
	ast.Inspect(e, func(n ast.Node) bool {
		switch x := n.(type) {
		case *ast.IndexExpr, *ast.SliceExpr, *ast.StarExpr, *ast.FuncLit:
			ok = false
		case *ast.BinaryExpr:
			if x.Op == token.QUO || x.Op == token.REM {
				ok = false
			}
		case *ast.CallExpr:
			name, _ := t.calleeName(x)
			if name != "strconv.Itoa" && name != "builtin.len" && !t.info.Types[x.Fun].IsType() {
				ok = false
			}
		}
		return ok
	})
	return ok
}

func (t *tr) exprs(es []ast.Expr) string {
	var p []string
	for _, e := range es {
		p = append(p, t.expr(e))
	}
	return "[" + strings.Join(p, "; ") + "]"
}

func (t *tr) optExpr(e ast.Expr) string {
	if e == nil {
		return "None"
	}
	return "(Some " + t.expr(e) + ")"
}

func (t *tr) expr(e ast.Expr) string {
	if c, ok := t.constant(e); ok {
		return c
	}
	switch x := e.(type) {
	case *ast.ParenExpr:
		return t.expr(x.X)
	case *ast.Ident:
		if x.Name == "nil" {
			return "ENil"
		}
		o := t.obj(x)
		if _, ok := t.cursor[o]; ok {
			t.refuse(x, "advanced output parameter %s used other than by index, len, copy or re-slicing", x.Name)
		}
		if n, ok := t.vars[o]; ok {
			return fmt.Sprintf("(EVar %d)", n)
		}
		t.refuse(x, "identifier %s is not a local variable or constant", x.Name)
	case *ast.StarExpr:
		return t.expr(x.X)
	case *ast.UnaryExpr:
		switch x.Op {
		case token.NOT:
			return "(ENot " + t.expr(x.X) + ")"
		case token.SUB:
			return wrapFor(t.typeOf(e), "(EBin BSub (EInt 0) "+t.expr(x.X)+")")
		case token.AND:
			if cl, ok := x.X.(*ast.CompositeLit); ok {
				return t.expr(cl)
			}
		}
		t.refuse(x, "unary %s", x.Op)
	case *ast.BinaryExpr:
		op, ok := binops[x.Op]
		if !ok {
			t.refuse(x, "operator %s", x.Op)
		}
		lt := t.typeOf(x.X)
		if x.Op == token.ADD && isByteSeq(lt) {
			return "(ECat " + t.expr(x.X) + " " + t.expr(x.Y) + ")"
		}
		if (x.Op == token.EQL || x.Op == token.NEQ) && isByteSeq(lt) && !isNilExpr(x.X) && !isNilExpr(x.Y) {
			if _, isslice := lt.Underlying().(*types.Slice); !isslice {
				r := "(EBytesEq " + t.expr(x.X) + " " + t.expr(x.Y) + ")"
				if x.Op == token.NEQ {
					r = "(ENot " + r + ")"
				}
				return r
			}
		}
		r := "(EBin " + op + " " + t.expr(x.X) + " " + t.expr(x.Y) + ")"
		if wrapOps[x.Op] {
			r = wrapFor(t.typeOf(e), r)
		}
		return r
	case *ast.IndexExpr:
		if n, off, ok := t.cursorOf(x.X); ok {
			return fmt.Sprintf("(EIdx (EVar %d) %s)", n, t.cursorIdx(off, x.Index))
		}
		return "(EIdx " + t.expr(x.X) + " " + t.expr(x.Index) + ")"
	case *ast.SliceExpr:
		if n, off, ok := t.cursorOf(x.X); ok && !x.Slice3 {
			lo := fmt.Sprintf("(Some (EVar %d))", off)
			if x.Low != nil {
				lo = "(Some " + t.cursorIdx(off, x.Low) + ")"
			}
			hi := "None"
			if x.High != nil {
				hi = "(Some " + t.cursorIdx(off, x.High) + ")"
			}
			return fmt.Sprintf("(ESlice (EVar %d) %s %s)", n, lo, hi)
		}
		if x.Slice3 {
			t.refuse(x, "three-index slice outside the hash.Sum idiom")
		}
		bt := deref(t.typeOf(x.X))
		if !isByteSeq(bt) && !isListType(bt) {
			t.refuse(x, "slice of %s", bt)
		}
		return "(ESlice " + t.expr(x.X) + " " + t.optExpr(x.Low) + " " + t.optExpr(x.High) + ")"
	case *ast.SelectorExpr:
		sel, ok := t.info.Selections[x]
		if !ok || sel.Kind() != types.FieldVal {
			t.refuse(x, "selector %s", exprString(x))
		}
		r := t.expr(x.X)
		for _, i := range sel.Index() {
			r = fmt.Sprintf("(EField %s %d)", r, i)
		}
		return r
	case *ast.CompositeLit:
		ty := t.typeOf(x)
		if isTime(ty) && len(x.Elts) == 0 {
			return "(EInt (-62135596800))"
		}
		st, ok := ty.Underlying().(*types.Struct)
		if !ok {
			t.refuse(x, "composite literal of %s", ty)
		}
		fields := make([]string, st.NumFields())
		for i, el := range x.Elts {
			if kv, ok := el.(*ast.KeyValueExpr); ok {
				name := kv.Key.(*ast.Ident).Name
				found := false
				for j := 0; j < st.NumFields(); j++ {
					if st.Field(j).Name() == name {
						fields[j] = t.expr(kv.Value)
						found = true
					}
				}
				if !found {
					t.refuse(x, "field %s", name)
				}
			} else {
				fields[i] = t.expr(el)
			}
		}
		for j := range fields {
			if fields[j] == "" {
				fields[j] = t.zero(st.Field(j).Type(), x)
			}
		}
		return "(ERec [" + strings.Join(fields, "; ") + "])"
	case *ast.CallExpr:
		return t.call(x, false)
	}
	t.refuse(e, "expression %T", e)
	return ""
}

func isNilExpr(e ast.Expr) bool {
	id, ok := e.(*ast.Ident)
	return ok && id.Name == "nil"
}

// rootOf gives the variable an expression is a view of (x, x[i:j], x.f, *x), or nil
func (t *tr) rootOf(e ast.Expr) types.Object {
	for {
		switch x := e.(type) {
		case *ast.ParenExpr:
			e = x.X
		case *ast.StarExpr:
			e = x.X
		case *ast.SliceExpr:
			e = x.X
		case *ast.SelectorExpr:
			if sel, ok := t.info.Selections[x]; ok && sel.Kind() == types.FieldVal {
				e = x.X
			} else {
				return nil
			}
		case *ast.IndexExpr:
			e = x.X
		case *ast.Ident:
			o := t.obj(x)
			if _, ok := t.vars[o]; ok {
				return o
			}
			return nil
		default:
			return nil
		}
	}
}

func (t *tr) call(x *ast.CallExpr, stmtCtx bool) string {
	// conversion
	if tv, ok := t.info.Types[x.Fun]; ok && tv.IsType() {
		arg := x.Args[0]
		to := tv.Type
		from := t.typeOf(arg)
		if isNilExpr(arg) {
			return "ENil"
		}
		if _, _, ok := intKind(to); ok {
			if _, _, ok2 := intKind(from); ok2 {
				return convWrap(from, to, t.expr(arg))
			}
		}
		if isByteSeq(to) && isByteSeq(from) {
			if tb, ok := to.Underlying().(*types.Basic); ok && tb.Info()&types.IsString != 0 {
				if fb, ok := from.Underlying().(*types.Basic); !ok || fb.Info()&types.IsString == 0 {
					// string(nil slice) is "", which is not nil
					return "(EAppend (EStr []) " + t.expr(arg) + ")"
				}
			}
			return t.expr(arg)
		}
		t.refuse(x, "conversion %s -> %s", from, to)
	}
	name, recv := t.calleeName(x)
	switch name {
	case "builtin.len":
		if n, off, ok := t.cursorOf(x.Args[0]); ok {
			return fmt.Sprintf("(EBin BSub (ELen (EVar %d)) (EVar %d))", n, off)
		}
		return "(ELen " + t.expr(x.Args[0]) + ")"
	case "builtin.make":
		ty := t.typeOf(x.Args[0])
		if !isByteSeq(ty) {
			t.refuse(x, "make of %s", ty)
		}
		// make([]byte, 0, n) is the empty (non-nil) slice
		return "(EMake " + t.expr(x.Args[1]) + ")"
	case "builtin.append":
		ty := t.typeOf(x.Args[0])
		if x.Ellipsis.IsValid() {
			if isByteSeq(ty) {
				return "(EAppend " + t.expr(x.Args[0]) + " " + t.expr(x.Args[1]) + ")"
			}
			if isListType(ty) {
				return "(ECat " + t.expr(x.Args[0]) + " " + t.expr(x.Args[1]) + ")"
			}
		} else if isListType(ty) && len(x.Args) == 2 {
			return "(ESnoc " + t.expr(x.Args[0]) + " " + t.expr(x.Args[1]) + ")"
		}
		t.refuse(x, "append form")
	case "errors.New", "fmt.Errorf":
		for _, a := range x.Args {
			if !t.harmless(a) {
				t.refuse(x, "error message operand with effects")
			}
		}
		return "EErr"
	case "binary.BigEndian.Uint16":
		return "(EBE 2 " + t.expr(x.Args[0]) + ")"
	case "binary.BigEndian.Uint32":
		return "(EBE 4 " + t.expr(x.Args[0]) + ")"
	case "binary.BigEndian.Uint64":
		return "(EBE 8 " + t.expr(x.Args[0]) + ")"
	case "bytes.Equal":
		return "(EBytesEq " + t.expr(x.Args[0]) + " " + t.expr(x.Args[1]) + ")"
	case "bytes.IndexByte":
		return "(EIndexByte " + t.expr(x.Args[0]) + " " + t.expr(x.Args[1]) + ")"
	case "md5.New":
		return "(EStr [])"
	case "time.Unix":
		if c, ok := t.constant(x.Args[1]); !ok || c != "(EInt 0)" {
			t.refuse(x, "time.Unix with nanoseconds")
		}
		return t.expr(x.Args[0])
	case "time.Time.Unix":
		return t.expr(recv)
	case "net.IP.To4", "net.IP.To16", "net.IPMask.Size":
		return "(ECall \"" + name + "\" [" + t.expr(recv) + "])"
	case "net.CIDRMask":
		return "(ECall \"net.CIDRMask\" " + t.exprs(x.Args) + ")"
	case "hash.Hash.Sum":
		// value of h.Sum(dst): dst's contents followed by the digest
		h := t.expr(recv)
		return "(EAppend " + t.sumPrefix(x.Args[0]) + " (EMD5 " + h + "))"
	}
	if strings.HasPrefix(name, "builtin.") || strings.Contains(name, ".") && recv == nil {
		t.refuse(x, "call of %s", name)
	}
	// a function or method of this package
	if t.mut[name] {
		t.refuse(x, "call of the receiver-mutating method %s in expression position", name)
	}
	args := []string{}
	if recv != nil {
		args = append(args, t.expr(recv))
	}
	for _, a := range x.Args {
		args = append(args, t.expr(a))
	}
	return "(ECall \"" + name + "\" [" + strings.Join(args, "; ") + "])"
}

// the destination prefix of h.Sum(dst) when used as a value
func (t *tr) sumPrefix(dst ast.Expr) string {
	if se, ok := dst.(*ast.SliceExpr); ok && se.Slice3 {
		// b[i:i:j]: empty prefix
		if exprString(se.Low) != exprString(se.High) {
			t.refuse(dst, "hash.Sum destination")
		}
		return "(EStr [])"
	}
	return t.expr(dst)
}

// cursorOf: e names an advanced output parameter; its variable and offset variable
func (t *tr) cursorOf(e ast.Expr) (int, int, bool) {
	for {
		p, ok := e.(*ast.ParenExpr)
		if !ok {
			break
		}
		e = p.X
	}
	id, ok := e.(*ast.Ident)
	if !ok {
		return 0, 0, false
	}
	o := t.obj(id)
	off, ok := t.cursor[o]
	if !ok {
		return 0, 0, false
	}
	return t.vars[o], off, true
}

// an index relative to the cursor; only non-negative constants, so that Go's lower bound check is vacuous
func (t *tr) cursorIdx(off int, idx ast.Expr) string {
	v, ok := t.intConst(idx)
	if !ok || v < 0 {
		t.refuse(idx, "non-constant index into an advanced output parameter")
	}
	return fmt.Sprintf("(EBin BAdd (EVar %d) (EInt %d))", off, v)
}

// ---------- lvalues ----------

func (t *tr) lval(e ast.Expr) string {
	switch x := e.(type) {
	case *ast.ParenExpr:
		return t.lval(x.X)
	case *ast.StarExpr:
		return t.lval(x.X)
	case *ast.Ident:
		o := t.obj(x)
		if n, ok := t.vars[o]; ok {
			return fmt.Sprintf("(LVar %d)", n)
		}
		t.refuse(x, "assignment to %s", x.Name)
	case *ast.SelectorExpr:
		sel, ok := t.info.Selections[x]
		if !ok || sel.Kind() != types.FieldVal {
			t.refuse(x, "assignment to %s", exprString(x))
		}
		r := t.lval(x.X)
		for _, i := range sel.Index() {
			r = fmt.Sprintf("(LField %s %d)", r, i)
		}
		return r
	case *ast.IndexExpr:
		if n, off, ok := t.cursorOf(x.X); ok {
			return fmt.Sprintf("(LIdx (LVar %d) %s)", n, t.cursorIdx(off, x.Index))
		}
		return "(LIdx " + t.lval(x.X) + " " + t.expr(x.Index) + ")"
	}
	t.refuse(e, "assignment target %T", e)
	return ""
}

// a copy/Put destination: lvalue, lo, hi
func (t *tr) window(dst ast.Expr) (lv, lo, hi string) {
	if se, ok := dst.(*ast.SliceExpr); ok && !se.Slice3 {
		if n, off, ok := t.cursorOf(se.X); ok {
			lo = fmt.Sprintf("(EVar %d)", off)
			if se.Low != nil {
				lo = t.cursorIdx(off, se.Low)
			}
			hi = "None"
			if se.High != nil {
				hi = "(Some " + t.cursorIdx(off, se.High) + ")"
			}
			return fmt.Sprintf("(LVar %d)", n), lo, hi
		}
		lo = "(EInt 0)"
		if se.Low != nil {
			lo = t.expr(se.Low)
		}
		return t.lval(se.X), lo, t.optExpr(se.High)
	}
	if n, off, ok := t.cursorOf(dst); ok {
		return fmt.Sprintf("(LVar %d)", n), fmt.Sprintf("(EVar %d)", off), "None"
	}
	return t.lval(dst), "(EInt 0)", "None"
}

// ---------- statements ----------

func seq(ss []string) string {
	var out []string
	for _, s := range ss {
		if s != "SSkip" && s != "" {
			out = append(out, s)
		}
	}
	if len(out) == 0 {
		return "SSkip"
	}
	r := out[len(out)-1]
	for i := len(out) - 2; i >= 0; i-- {
		r = "(SSeq " + out[i] + "\n " + r + ")"
	}
	return r
}

func (t *tr) noteWrite(e ast.Expr, pos token.Pos) {
	if o := t.rootOf(e); o != nil {
		t.writes[o] = append(t.writes[o], pos)
	} else {
		t.refuse(e, "write to memory not rooted at a local variable")
	}
}

func (t *tr) block(b *ast.BlockStmt) string {
	if b == nil {
		return "SSkip"
	}
	var ss []string
	for _, s := range b.List {
		ss = append(ss, t.stmt(s))
	}
	return seq(ss)
}

func (t *tr) retTuple(vals []string) string {
	var pre []string
	if t.mutRecv {
		pre = append(pre, fmt.Sprintf("(EVar %d)", t.vars[t.recv]))
	}
	for _, o := range t.outPars {
		pre = append(pre, fmt.Sprintf("(EVar %d)", t.vars[o]))
	}
	if len(pre) > 0 {
		vals = append(pre, vals...)
	} else if len(vals) == 1 {
		return "(SRet " + vals[0] + ")"
	}
	return "(SRet (ETup [" + strings.Join(vals, "; ") + "]))"
}

func (t *tr) assign1(lhs ast.Expr, rhs string, pos token.Pos) string {
	if id, ok := lhs.(*ast.Ident); ok && id.Name == "_" {
		return "SSkip"
	}
	switch l := lhs.(type) {
	case *ast.IndexExpr:
		t.noteWrite(l.X, pos)
	case *ast.SelectorExpr:
		t.noteWrite(l.X, pos)
	}
	return "(SAssign " + t.lval(lhs) + " " + rhs + ")"
}

func (t *tr) define(lhs ast.Expr) {
	if id, ok := lhs.(*ast.Ident); ok && id.Name != "_" {
		if o := t.info.Defs[id]; o != nil {
			t.newVar(o)
			if isHash(o.Type()) {
				t.hash[o] = true
			}
		}
	}
}

func (t *tr) stmt(s ast.Stmt) string {
	switch x := s.(type) {
	case *ast.BlockStmt:
		return t.block(x)
	case *ast.EmptyStmt:
		return "SSkip"
	case *ast.DeclStmt:
		gd := x.Decl.(*ast.GenDecl)
		if gd.Tok != token.VAR {
			t.refuse(x, "local declaration")
		}
		var ss []string
		for _, sp := range gd.Specs {
			vs := sp.(*ast.ValueSpec)
			for i, name := range vs.Names {
				o := t.info.Defs[name]
				n := t.newVar(o)
				var v string
				if len(vs.Values) > i {
					v = t.expr(vs.Values[i])
				} else {
					v = t.zero(o.Type(), x)
				}
				ss = append(ss, fmt.Sprintf("(SAssign (LVar %d) %s)", n, v))
			}
		}
		return seq(ss)
	case *ast.AssignStmt:
		return t.assign(x)
	case *ast.IncDecStmt:
		op := "BAdd"
		if x.Tok == token.DEC {
			op = "BSub"
		}
		rhs := wrapFor(t.typeOf(x.X), "(EBin "+op+" "+t.expr(x.X)+" (EInt 1))")
		return t.assign1(x.X, rhs, x.Pos())
	case *ast.ExprStmt:
		call, ok := x.X.(*ast.CallExpr)
		if !ok {
			t.refuse(x, "expression statement")
		}
		return t.callStmt(call)
	case *ast.IfStmt:
		var ss []string
		if x.Init != nil {
			ss = append(ss, t.stmt(x.Init))
		}
		c := t.expr(x.Cond)
		a := t.block(x.Body)
		b := "SSkip"
		if x.Else != nil {
			b = t.stmt(x.Else)
		}
		ss = append(ss, "(SIf "+c+"\n "+a+"\n "+b+")")
		return seq(ss)
	case *ast.ForStmt:
		t.loops = append(t.loops, [2]token.Pos{x.Pos(), x.End()})
		var ss []string
		if x.Init != nil {
			ss = append(ss, t.stmt(x.Init))
		}
		c := "(EBool true)"
		if x.Cond != nil {
			c = t.expr(x.Cond)
		}
		post := "SSkip"
		if x.Post != nil {
			post = t.stmt(x.Post)
		}
		ss = append(ss, "(SFor "+c+" "+post+"\n "+t.block(x.Body)+")")
		return seq(ss)
	case *ast.RangeStmt:
		t.loops = append(t.loops, [2]token.Pos{x.Pos(), x.End()})
		xt := deref(t.typeOf(x.X))
		if !isByteSeq(xt) && !isListType(xt) {
			t.refuse(x, "range over %s", xt)
		}
		tmp, idx := t.newVar(nil), t.newVar(nil)
		var pre []string
		if x.Tok == token.DEFINE {
			if x.Key != nil {
				t.define(x.Key)
			}
			if x.Value != nil {
				t.define(x.Value)
			}
		}
		if x.Key != nil {
			pre = append(pre, t.assign1(x.Key, fmt.Sprintf("(EVar %d)", idx), x.Pos()))
		}
		if x.Value != nil {
			pre = append(pre, t.assign1(x.Value, fmt.Sprintf("(EIdx (EVar %d) (EVar %d))", tmp, idx), x.Pos()))
		}
		pre = append(pre, t.block(x.Body))
		return seq([]string{
			fmt.Sprintf("(SAssign (LVar %d) %s)", tmp, t.expr(x.X)),
			fmt.Sprintf("(SAssign (LVar %d) (EInt 0))", idx),
			fmt.Sprintf("(SFor (EBin BLt (EVar %d) (ELen (EVar %d))) (SAssign (LVar %d) (EBin BAdd (EVar %d) (EInt 1)))\n %s)",
				idx, tmp, idx, idx, seq(pre)),
		})
	case *ast.ReturnStmt:
		var vals []string
		if len(x.Results) == 0 {
			for _, o := range t.named {
				vals = append(vals, fmt.Sprintf("(EVar %d)", t.vars[o]))
			}
			if len(vals) == 0 && !t.mutRecv && len(t.outPars) == 0 {
				return "(SRet (ETup []))"
			}
			return t.retTuple(vals)
		}
		nres := t.fn.Type.Results.NumFields()
		if len(x.Results) == 1 && nres > 1 {
			t.refuse(x, "return of a multi-value call")
		}
		for _, r := range x.Results {
			vals = append(vals, t.expr(r))
			if o := t.rootOf(r); o != nil && isRef(t.typeOf(r)) {
				// returning a view of a local is the last use: not an alias for later writes
				_ = o
			}
		}
		return t.retTuple(vals)
	case *ast.BranchStmt:
		if x.Label != nil {
			t.refuse(x, "labelled branch")
		}
		switch x.Tok {
		case token.BREAK:
			return "SBreak"
		case token.CONTINUE:
			return "SContinue"
		}
		t.refuse(x, "branch %s", x.Tok)
	case *ast.SwitchStmt:
		return t.switchStmt(x)
	}
	t.refuse(s, "statement %T", s)
	return ""
}

func isRef(ty types.Type) bool {
	switch ty.Underlying().(type) {
	case *types.Slice, *types.Pointer:
		return true
	}
	return false
}

func (t *tr) switchStmt(x *ast.SwitchStmt) string {
	if x.Tag == nil {
		t.refuse(x, "tagless switch")
	}
	// break inside a switch leaves the switch, not the loop
	bad := false
	for _, cc := range x.Body.List {
		for _, st := range cc.(*ast.CaseClause).Body {
			ast.Inspect(st, func(n ast.Node) bool {
				switch y := n.(type) {
				case *ast.ForStmt, *ast.RangeStmt, *ast.FuncLit:
					return false
				case *ast.BranchStmt:
					if y.Tok == token.BREAK || y.Tok == token.FALLTHROUGH {
						bad = true
					}
				}
				return true
			})
		}
	}
	if bad {
		t.refuse(x, "break/fallthrough inside switch")
	}
	var ss []string
	if x.Init != nil {
		ss = append(ss, t.stmt(x.Init))
	}
	tmp := t.newVar(nil)
	ss = append(ss, fmt.Sprintf("(SAssign (LVar %d) %s)", tmp, t.expr(x.Tag)))
	var def *ast.CaseClause
	type arm struct{ cond, body string }
	var arms []arm
	for _, c := range x.Body.List {
		cc := c.(*ast.CaseClause)
		if cc.List == nil {
			def = cc
			continue
		}
		var cs []string
		for _, e := range cc.List {
			cs = append(cs, fmt.Sprintf("(EBin BEq (EVar %d) %s)", tmp, t.expr(e)))
		}
		cond := cs[len(cs)-1]
		for i := len(cs) - 2; i >= 0; i-- {
			cond = "(EBin BLOr " + cs[i] + " " + cond + ")"
		}
		var body []string
		for _, st := range cc.Body {
			body = append(body, t.stmt(st))
		}
		arms = append(arms, arm{cond, seq(body)})
	}
	tail := "SSkip"
	if def != nil {
		var body []string
		for _, st := range def.Body {
			body = append(body, t.stmt(st))
		}
		tail = seq(body)
	}
	for i := len(arms) - 1; i >= 0; i-- {
		tail = "(SIf " + arms[i].cond + "\n " + arms[i].body + "\n " + tail + ")"
	}
	ss = append(ss, tail)
	return seq(ss)
}

func (t *tr) assign(x *ast.AssignStmt) string {
	if x.Tok == token.DEFINE {
		for _, l := range x.Lhs {
			t.define(l)
		}
	}
	// a, b := f()
	if len(x.Lhs) > 1 && len(x.Rhs) == 1 {
		call, ok := x.Rhs[0].(*ast.CallExpr)
		if !ok {
			t.refuse(x, "multi-assignment from a non-call")
		}
		var ls []string
		for _, l := range x.Lhs {
			if id, ok := l.(*ast.Ident); ok && id.Name == "_" {
				ls = append(ls, "None")
			} else {
				if _, ok := l.(*ast.Ident); !ok {
					t.refuse(x, "multi-assignment target")
				}
				ls = append(ls, "(Some "+t.lval(l)+")")
			}
		}
		return "(SMulti [" + strings.Join(ls, "; ") + "] " + t.call(call, false) + ")"
	}
	if len(x.Lhs) != 1 || len(x.Rhs) != 1 {
		t.refuse(x, "parallel assignment")
	}
	lhs, rhs := x.Lhs[0], x.Rhs[0]
	if x.Tok != token.ASSIGN && x.Tok != token.DEFINE {
		// x op= e
		var op token.Token
		switch x.Tok {
		case token.ADD_ASSIGN:
			op = token.ADD
		case token.SUB_ASSIGN:
			op = token.SUB
		case token.MUL_ASSIGN:
			op = token.MUL
		case token.XOR_ASSIGN:
			op = token.XOR
		case token.AND_ASSIGN:
			op = token.AND
		case token.OR_ASSIGN:
			op = token.OR
		case token.AND_NOT_ASSIGN:
			op = token.AND_NOT
		case token.SHL_ASSIGN:
			op = token.SHL
		case token.SHR_ASSIGN:
			op = token.SHR
		default:
			t.refuse(x, "assignment operator %s", x.Tok)
		}
		r := "(EBin " + binops[op] + " " + t.expr(lhs) + " " + t.expr(rhs) + ")"
		if wrapOps[op] {
			r = wrapFor(t.typeOf(lhs), r)
		}
		return t.assign1(lhs, r, x.Pos())
	}
	if n, off, ok := t.cursorOf(lhs); ok {
		se, isSlice := rhs.(*ast.SliceExpr)
		if !isSlice || se.Slice3 || se.High != nil || se.Low == nil {
			t.refuse(x, "advanced output parameter assigned other than p = p[e:]")
		}
		if m, _, ok := t.cursorOf(se.X); !ok || m != n {
			t.refuse(x, "advanced output parameter assigned other than p = p[e:]")
		}
		e := t.expr(se.Low)
		return seq([]string{
			fmt.Sprintf("(SIf (EBin BLOr (EBin BLt %s (EInt 0)) (EBin BGt (EBin BAdd (EVar %d) %s) (ELen (EVar %d)))) SPanic SSkip)", e, off, e, n),
			fmt.Sprintf("(SAssign (LVar %d) (EBin BAdd (EVar %d) %s))", off, off, e),
		})
	}
	// aliasing discipline for reference-typed right-hand sides
	t.noteAlias(lhs, rhs, x.Pos())
	return t.assign1(lhs, t.expr(rhs), x.Pos())
}

// noteAlias records that after `lhs = rhs` the memory of rhs's root may be reachable through lhs
func (t *tr) noteAlias(lhs, rhs ast.Expr, pos token.Pos) {
	rt := t.typeOf(rhs)
	if !isRef(rt) {
		return
	}
	lroot := t.rootOf(lhs)
	switch r := rhs.(type) {
	case *ast.CallExpr:
		name, recv := "", ast.Expr(nil)
		if tv, ok := t.info.Types[r.Fun]; ok && tv.IsType() {
			if o := t.rootOf(r.Args[0]); o != nil && o != lroot {
				t.aliases[o] = append(t.aliases[o], pos)
			}
			return
		}
		name, recv = t.calleeName(r)
		switch name {
		case "builtin.append":
			first := r.Args[0]
			if tv, ok := t.info.Types[first]; ok && tv.IsNil() {
				return
			}
			if c, ok := first.(*ast.CallExpr); ok && len(c.Args) == 1 && isNilExpr(c.Args[0]) {
				return // append(T(nil), ...): fresh
			}
			if o := t.rootOf(first); o == nil || o != lroot {
				t.refuse(rhs, "append whose result is not stored back into the slice it extends")
			}
			return
		case "hash.Hash.Sum":
			_ = recv
			if o := t.rootOf(r.Args[0]); o == nil || o != lroot {
				if se, ok := r.Args[0].(*ast.SliceExpr); !(ok && se.Slice3) {
					t.refuse(rhs, "hash.Sum whose result is not stored back into its destination")
				}
			}
			return
		}
		return // results of other calls are treated as fresh (DESIGN A.2)
	case *ast.CompositeLit, *ast.UnaryExpr:
		return
	}
	if isNilExpr(rhs) {
		return
	}
	if o := t.rootOf(rhs); o != nil && o != lroot {
		t.aliases[o] = append(t.aliases[o], pos)
		if lroot != nil {
			// and the other way round: writes through lhs's root reach rhs's memory
			t.aliases[lroot] = append(t.aliases[lroot], pos)
			t.fresh[lroot] = false
		}
	}
}

func (t *tr) callStmt(call *ast.CallExpr) string {
	name, recv := t.calleeName(call)
	switch name {
	case "builtin.copy":
		lv, lo, hi := t.window(call.Args[0])
		t.noteWrite(call.Args[0], call.Pos())
		return "(SCopy " + lv + " " + lo + " " + hi + " " + t.expr(call.Args[1]) + ")"
	case "builtin.panic":
		return "SPanic"
	case "binary.BigEndian.PutUint16", "binary.BigEndian.PutUint32", "binary.BigEndian.PutUint64":
		w := map[string]int{"16": 2, "32": 4, "64": 8}[name[len(name)-2:]]
		lv, lo, hi := t.window(call.Args[0])
		t.noteWrite(call.Args[0], call.Pos())
		return seq([]string{
			fmt.Sprintf("(SIf (EBin BLt (ELen %s) (EInt %d)) SPanic SSkip)", t.expr(call.Args[0]), w),
			fmt.Sprintf("(SCopy %s %s %s (EBEnc %d %s))", lv, lo, hi, w, t.expr(call.Args[1])),
		})
	case "hash.Hash.Write":
		h := t.lval(recv)
		return "(SAssign " + h + " (EAppend " + t.expr(recv) + " " + t.expr(call.Args[0]) + "))"
	case "hash.Hash.Reset":
		return "(SAssign " + t.lval(recv) + " (EStr []))"
	case "hash.Hash.Sum":
		// h.Sum(b[i:i:j]) / h.Sum(b[:0]) with the result dropped: the digest lands in b when it fits
		se, ok := call.Args[0].(*ast.SliceExpr)
		if !ok {
			t.refuse(call, "hash.Sum destination")
		}
		lo := int64(0)
		if se.Low != nil {
			v, ok := t.intConst(se.Low)
			if !ok {
				t.refuse(call, "hash.Sum destination bound")
			}
			lo = v
		}
		hiv, ok := t.intConst(se.High)
		if !ok || hiv != lo {
			t.refuse(call, "hash.Sum destination is not empty")
		}
		var max int64
		if se.Slice3 {
			m, ok := t.intConst(se.Max)
			if !ok {
				t.refuse(call, "hash.Sum destination capacity")
			}
			max = m
		} else if arr, ok := deref(t.typeOf(se.X)).Underlying().(*types.Array); ok {
			max = arr.Len()
		} else {
			t.refuse(call, "hash.Sum into a slice of unknown capacity")
		}
		t.noteWrite(se.X, call.Pos())
		if max-lo < 16 {
			// does not fit: Sum allocates, the result is dropped; only the bounds are checked
			return fmt.Sprintf("(SIf (EBin BLt (ELen %s) (EInt %d)) SPanic SSkip)", t.expr(se.X), max)
		}
		return seq([]string{
			fmt.Sprintf("(SIf (EBin BLt (ELen %s) (EInt %d)) SPanic SSkip)", t.expr(se.X), max),
			fmt.Sprintf("(SCopy %s (EInt %d) (Some (EInt %d)) (EMD5 %s))", t.lval(se.X), lo, lo+16, t.expr(recv)),
		})
	}
	if outs := t.mutPar[name]; len(outs) > 0 {
		if t.mut[name] {
			t.refuse(call, "call of %s, which mutates both receiver and parameters", name)
		}
		var all []ast.Expr
		if recv != nil {
			all = append(all, recv)
		}
		all = append(all, call.Args...)
		var args, targets, back []string
		isOut := map[int]bool{}
		for _, i := range outs {
			isOut[i] = true
		}
		for i, a := range all {
			args = append(args, t.expr(a))
			if isOut[i] {
				lv, lo, hi := t.window(a)
				t.noteWrite(a, call.Pos())
				tmp := t.newVar(nil)
				targets = append(targets, fmt.Sprintf("Some (LVar %d)", tmp))
				back = append(back, fmt.Sprintf("(SCopy %s %s %s (EVar %d))", lv, lo, hi, tmp))
			}
		}
		// remaining results are dropped
		nres := 0
		if sig, ok := t.typeOf(call.Fun).(*types.Signature); ok {
			nres = sig.Results().Len()
		}
		for i := 0; i < nres; i++ {
			targets = append(targets, "None")
		}
		return seq(append([]string{"(SMulti [" + strings.Join(targets, "; ") + "] (ECall \"" + name + "\" [" + strings.Join(args, "; ") + "]))"}, back...))
	}
	if t.mut[name] && recv != nil {
		args := []string{t.expr(recv)}
		for _, a := range call.Args {
			args = append(args, t.expr(a))
		}
		t.noteWrite(recv, call.Pos())
		return "(SMulti [Some " + t.lval(recv) + "] (ECall \"" + name + "\" [" + strings.Join(args, "; ") + "]))"
	}
	t.refuse(call, "call statement %s", name)
	return ""
}

func (t *tr) intConst(e ast.Expr) (int64, bool) {
	if e == nil {
		return 0, false
	}
	tv, ok := t.info.Types[e]
	if !ok || tv.Value == nil || tv.Value.Kind() != constant.Int {
		return 0, false
	}
	return constant.Int64Val(tv.Value)
}

// ---------- aliasing discipline ----------

func (t *tr) inSameLoop(a, b token.Pos) bool {
	for _, l := range t.loops {
		if l[0] <= a && a < l[1] && l[0] <= b && b < l[1] {
			return true
		}
	}
	return false
}

func (t *tr) checkAliasing() {
	for o, ws := range t.writes {
		n := t.vars[o]
		isParam := n < t.nparams
		isOut := false
		for _, q := range t.outPars {
			if q == o {
				isOut = true
			}
		}
		if isParam && o != t.recv && !isOut {
			t.refuse(t.fn, "writes into the memory of parameter %s", o.Name())
		}
		for _, w := range ws {
			for _, a := range t.aliases[o] {
				if a < w || t.inSameLoop(a, w) {
					t.refuse(t.fn, "%s is written at %v after it was aliased at %v", o.Name(),
						fset.Position(w).Line, fset.Position(a).Line)
				}
			}
		}
	}
}

// ---------- functions ----------

func mutatesReceiver(fd *ast.FuncDecl) bool {
	if fd.Recv == nil || len(fd.Recv.List) == 0 || len(fd.Recv.List[0].Names) == 0 {
		return false
	}
	if _, ok := fd.Recv.List[0].Type.(*ast.StarExpr); !ok {
		return false
	}
	rn := fd.Recv.List[0].Names[0].Name
	mut := false
	var root func(e ast.Expr) string
	root = func(e ast.Expr) string {
		switch x := e.(type) {
		case *ast.ParenExpr:
			return root(x.X)
		case *ast.StarExpr:
			return root(x.X)
		case *ast.IndexExpr:
			return root(x.X)
		case *ast.SelectorExpr:
			return root(x.X)
		case *ast.SliceExpr:
			return root(x.X)
		case *ast.Ident:
			return x.Name
		}
		return ""
	}
	ast.Inspect(fd.Body, func(n ast.Node) bool {
		switch x := n.(type) {
		case *ast.AssignStmt:
			for _, l := range x.Lhs {
				if _, isIdent := l.(*ast.Ident); !isIdent && root(l) == rn {
					mut = true
				}
			}
		case *ast.IncDecStmt:
			if _, isIdent := x.X.(*ast.Ident); !isIdent && root(x.X) == rn {
				mut = true
			}
		case *ast.CallExpr:
			if id, ok := x.Fun.(*ast.Ident); ok && id.Name == "copy" && len(x.Args) > 0 && root(x.Args[0]) == rn {
				mut = true
			}
		}
		return true
	})
	return mut
}

// slice parameters (not the receiver) whose memory the body writes: indexes among receiver+parameters
func writtenParams(fd *ast.FuncDecl) []int {
	names := map[string]int{}
	k := 0
	if fd.Recv != nil {
		for _, f := range fd.Recv.List {
			if len(f.Names) == 0 {
				k++
			}
			for range f.Names {
				k++
			}
		}
	}
	for _, f := range fd.Type.Params.List {
		_, isSlice := f.Type.(*ast.ArrayType)
		if len(f.Names) == 0 {
			k++
		}
		for _, n := range f.Names {
			if isSlice {
				names[n.Name] = k
			}
			k++
		}
	}
	hit := map[int]bool{}
	var root func(e ast.Expr) string
	root = func(e ast.Expr) string {
		switch x := e.(type) {
		case *ast.ParenExpr:
			return root(x.X)
		case *ast.IndexExpr:
			return root(x.X)
		case *ast.SliceExpr:
			return root(x.X)
		case *ast.Ident:
			return x.Name
		}
		return ""
	}
	if fd.Body == nil {
		return nil
	}
	ast.Inspect(fd.Body, func(n ast.Node) bool {
		mark := func(e ast.Expr) {
			if _, isIdent := e.(*ast.Ident); isIdent {
				return
			}
			if i, ok := names[root(e)]; ok {
				hit[i] = true
			}
		}
		switch x := n.(type) {
		case *ast.AssignStmt:
			for _, l := range x.Lhs {
				mark(l)
			}
		case *ast.IncDecStmt:
			mark(x.X)
		case *ast.CallExpr:
			fn := exprString(x.Fun)
			if (fn == "copy" || strings.HasPrefix(fn, "binary.BigEndian.Put")) && len(x.Args) > 0 {
				if i, ok := names[root(x.Args[0])]; ok {
					hit[i] = true
				}
			}
		}
		return true
	})
	var out []int
	for i := range hit {
		out = append(out, i)
	}
	sort.Ints(out)
	return out
}

func reassigned(fd *ast.FuncDecl, name string) bool {
	r := false
	ast.Inspect(fd.Body, func(n ast.Node) bool {
		if a, ok := n.(*ast.AssignStmt); ok {
			for _, l := range a.Lhs {
				if id, ok := l.(*ast.Ident); ok && id.Name == name {
					r = true
				}
			}
		}
		return true
	})
	return r
}

func (t *tr) function(fd *ast.FuncDecl) (out string, nparams, nlocals int, why string) {
	defer func() {
		if r := recover(); r != nil {
			if rf, ok := r.(refusal); ok {
				why = rf.why
				return
			}
			panic(r)
		}
	}()
	t.fn = fd
	t.vars = map[types.Object]int{}
	t.nvars = 0
	t.hash = map[types.Object]bool{}
	t.writes = map[types.Object][]token.Pos{}
	t.aliases = map[types.Object][]token.Pos{}
	t.fresh = map[types.Object]bool{}
	t.loops = nil
	t.named = nil
	t.recv = nil
	t.mutRecv = false
	if fd.Body == nil {
		t.refuse(fd, "no body")
	}
	if fd.Recv != nil {
		for _, f := range fd.Recv.List {
			for _, n := range f.Names {
				o := t.info.Defs[n]
				t.newVar(o)
				if _, ok := o.Type().Underlying().(*types.Pointer); ok {
					t.recv = o
				}
			}
			if len(f.Names) == 0 {
				t.newVar(nil)
			}
		}
	}
	for _, f := range fd.Type.Params.List {
		if _, ok := f.Type.(*ast.Ellipsis); ok {
			t.refuse(fd, "variadic")
		}
		for _, n := range f.Names {
			t.newVar(t.info.Defs[n])
		}
		if len(f.Names) == 0 {
			t.newVar(nil)
		}
	}
	t.nparams = t.nvars
	t.mutRecv = t.mut[funcKey(fd)]
	t.cursor = map[types.Object]int{}
	t.outPars = nil
	if idxs := t.mutPar[funcKey(fd)]; len(idxs) > 0 {
		byIdx := map[int]types.Object{}
		for o, n := range t.vars {
			byIdx[n] = o
		}
		for _, i := range idxs {
			o := byIdx[i]
			t.outPars = append(t.outPars, o)
			if reassigned(fd, o.Name()) {
				t.cursor[o] = t.newVar(nil)
			}
		}
	}
	var pre []string
	if fd.Type.Results != nil {
		for _, f := range fd.Type.Results.List {
			for _, n := range f.Names {
				o := t.info.Defs[n]
				k := t.newVar(o)
				t.named = append(t.named, o)
				pre = append(pre, fmt.Sprintf("(SAssign (LVar %d) %s)", k, t.zero(o.Type(), fd)))
			}
		}
	}
	for _, o := range t.outPars {
		if off, ok := t.cursor[o]; ok {
			pre = append(pre, fmt.Sprintf("(SAssign (LVar %d) (EInt 0))", off))
		}
	}
	body := t.block(fd.Body)
	// falling off the end of a function without results
	tail := "SSkip"
	if fd.Type.Results == nil || fd.Type.Results.NumFields() == 0 {
		tail = t.retTuple(nil)
		if !t.mutRecv && len(t.outPars) == 0 {
			tail = "(SRet (ETup []))"
		}
	}
	t.checkAliasing()
	return seq(append(pre, body, tail)), t.nparams, t.nvars - t.nparams, ""
}

func funcKey(fd *ast.FuncDecl) string {
	if fd.Recv != nil && len(fd.Recv.List) == 1 {
		ty := fd.Recv.List[0].Type
		if s, ok := ty.(*ast.StarExpr); ok {
			ty = s.X
		}
		if id, ok := ty.(*ast.Ident); ok {
			return id.Name + "." + fd.Name.Name
		}
	}
	return fd.Name.Name
}

func coqIdent(key string) string {
	return "src_" + strings.ReplaceAll(key, ".", "_")
}

// emitSrc type-checks package radius (working tree, build tag verif) and writes Gen/Src.v
func emitSrc(repo, out string) error {
	bctx := build.Default
	bctx.BuildTags = append(bctx.BuildTags, "verif")
	ents, err := os.ReadDir(repo)
	if err != nil {
		return err
	}
	var files []*ast.File
	byName := map[string]*ast.File{}
	for _, e := range ents {
		n := e.Name()
		if e.IsDir() || !strings.HasSuffix(n, ".go") || strings.HasSuffix(n, "_test.go") {
			continue
		}
		if ok, err := bctx.MatchFile(repo, n); err != nil || !ok {
			continue
		}
		f, err := parser.ParseFile(fset, filepath.Join(repo, n), nil, parser.ParseComments)
		if err != nil {
			return err
		}
		files = append(files, f)
		byName[n] = f
	}
	info := &types.Info{
		Types:      map[ast.Expr]types.TypeAndValue{},
		Defs:       map[*ast.Ident]types.Object{},
		Uses:       map[*ast.Ident]types.Object{},
		Selections: map[*ast.SelectorExpr]*types.Selection{},
	}
	var terrs []string
	conf := types.Config{Importer: importer.ForCompiler(fset, "source", nil), Error: func(e error) {
		terrs = append(terrs, e.Error())
	}}
	pkg, _ := conf.Check("layeh.com/radius", fset, files, info)
	if len(terrs) > 0 {
		return fmt.Errorf("type errors in the working tree: %s", strings.Join(terrs[:1], "; "))
	}
	t := &tr{info: info, pkg: pkg, mut: map[string]bool{}, mutPar: map[string][]int{}}
	var fds []*ast.FuncDecl
	for _, fn := range goliteFiles {
		f := byName[fn]
		if f == nil {
			continue
		}
		for _, d := range f.Decls {
			if fd, ok := d.(*ast.FuncDecl); ok {
				fds = append(fds, fd)
				if mutatesReceiver(fd) {
					t.mut[funcKey(fd)] = true
				}
				if w := writtenParams(fd); len(w) > 0 {
					t.mutPar[funcKey(fd)] = w
				}
			}
		}
	}
	// a method that calls a receiver-mutating method on its own receiver mutates it too
	for changed := true; changed; {
		changed = false
		for _, fd := range fds {
			k := funcKey(fd)
			if t.mut[k] || fd.Recv == nil || len(fd.Recv.List[0].Names) == 0 {
				continue
			}
			if _, ok := fd.Recv.List[0].Type.(*ast.StarExpr); !ok {
				continue
			}
			rn := fd.Recv.List[0].Names[0].Name
			ast.Inspect(fd.Body, func(n ast.Node) bool {
				if c, ok := n.(*ast.CallExpr); ok {
					if s, ok := c.Fun.(*ast.SelectorExpr); ok {
						if id, ok := s.X.(*ast.Ident); ok && id.Name == rn {
							if sel, ok := info.Selections[s]; ok && sel.Kind() == types.MethodVal {
								if nm, ok := deref(sel.Recv()).(*types.Named); ok && t.mut[nm.Obj().Name()+"."+s.Sel.Name] {
									t.mut[k] = true
									changed = true
								}
							}
						}
					}
				}
				return true
			})
		}
	}
	var w bytes.Buffer
	w.WriteString("(* GENERATED by /verif/harness/cmd/srcfacts (golite.go) from the layeh/radius working tree. DO NOT EDIT. *)\n")
	w.WriteString("From Coq Require Import ZArith NArith List String.\nFrom Radius Require Import Base.GoLite.\nImport ListNotations.\nOpen Scope string_scope.\nOpen Scope Z_scope.\n\n")
	var keys []string
	for _, fd := range fds {
		key := funcKey(fd)
		body, np, nl, why := t.function(fd)
		p := fset.Position(fd.Pos())
		fmt.Fprintf(&w, "(* %s:%d %s *)\n", filepath.Base(p.Filename), p.Line, key)
		if why != "" {
			fmt.Fprintf(&w, "Definition %s : translated := Refused %s.\n\n", coqIdent(key), coqString(why))
		} else {
			fmt.Fprintf(&w, "Definition %s : translated := Translated (mkfunc %d %d\n %s).\n\n", coqIdent(key), np, nl, body)
		}
		keys = append(keys, key)
	}
	w.WriteString("Definition src_table : list (string * translated) :=\n  [")
	sorted := append([]string{}, keys...)
	sort.Strings(sorted)
	for i, k := range sorted {
		if i > 0 {
			w.WriteString(";\n   ")
		}
		fmt.Fprintf(&w, "(%s, %s)", coqString(k), coqIdent(k))
	}
	w.WriteString("].\n")
	// which methods hand their receiver back as the first result
	var muts []string
	for k := range t.mut {
		muts = append(muts, coqString(k))
	}
	sort.Strings(muts)
	fmt.Fprintf(&w, "\nDefinition src_mutating : list string := [%s].\n", strings.Join(muts, "; "))
	old, _ := os.ReadFile(out)
	if !bytes.Equal(old, w.Bytes()) {
		if err := os.WriteFile(out, w.Bytes(), 0644); err != nil {
			return err
		}
		fmt.Println("srcfacts: wrote", out)
	} else {
		fmt.Println("srcfacts: unchanged", out)
	}
	return nil
}
