// srcfacts regenerates coq/Gen/Consts.v from the working tree of layeh/radius.
//
// It is the translator half of the tie between the Coq models and the Go
// source: every named constant, every comparison against an integer literal
// ("guard"), every switch-case list and every magic byte array that the models
// and theorems mention is read from the Go files on every run, so the theorems
// are re-checked against what the code says now.
package main

import (
	"bytes"
	"fmt"
	"go/ast"
	"go/parser"
	"go/printer"
	"go/token"
	"os"
	"path/filepath"
	"sort"
	"strconv"
	"strings"
)

var fset = token.NewFileSet()

func exprString(e ast.Expr) string {
	var b bytes.Buffer
	printer.Fprint(&b, fset, e)
	return strings.Join(strings.Fields(b.String()), " ")
}

func coqString(s string) string {
	return `"` + strings.ReplaceAll(s, `"`, `""`) + `"`
}

type pkgInfo struct {
	files  []*ast.File
	consts map[string]int64 // integer constants
}

func loadPkg(dir string) *pkgInfo {
	pkgs, err := parser.ParseDir(fset, dir, func(fi os.FileInfo) bool {
		return !strings.HasSuffix(fi.Name(), "_test.go")
	}, parser.ParseComments)
	if err != nil {
		fmt.Fprintln(os.Stderr, "srcfacts:", err)
		os.Exit(2)
	}
	pi := &pkgInfo{consts: map[string]int64{}}
	var names []string
	for n := range pkgs {
		names = append(names, n)
	}
	sort.Strings(names)
	for _, n := range names {
		if n == "main" {
			continue
		}
		var fnames []string
		for fn := range pkgs[n].Files {
			fnames = append(fnames, fn)
		}
		sort.Strings(fnames)
		for _, fn := range fnames {
			pi.files = append(pi.files, pkgs[n].Files[fn])
		}
	}
	// integer constants, incl. iota groups
	for _, f := range pi.files {
		for _, d := range f.Decls {
			gd, ok := d.(*ast.GenDecl)
			if !ok || gd.Tok != token.CONST {
				continue
			}
			var lastExpr ast.Expr
			for iota, sp := range gd.Specs {
				vs := sp.(*ast.ValueSpec)
				for i, name := range vs.Names {
					var e ast.Expr
					if len(vs.Values) > i {
						e = vs.Values[i]
						lastExpr = e
					} else {
						e = lastExpr
					}
					if e == nil {
						continue
					}
					if v, ok := pi.evalInt(e, int64(iota)); ok {
						pi.consts[name.Name] = v
					}
				}
			}
		}
	}
	return pi
}

func (pi *pkgInfo) evalInt(e ast.Expr, iota int64) (int64, bool) {
	switch x := e.(type) {
	case *ast.BasicLit:
		if x.Kind == token.INT {
			v, err := strconv.ParseInt(x.Value, 0, 64)
			return v, err == nil
		}
		if x.Kind == token.CHAR {
			r, _, _, err := strconv.UnquoteChar(x.Value[1:len(x.Value)-1], '\'')
			return int64(r), err == nil
		}
	case *ast.Ident:
		if x.Name == "iota" {
			return iota, true
		}
		v, ok := pi.consts[x.Name]
		return v, ok
	case *ast.ParenExpr:
		return pi.evalInt(x.X, iota)
	case *ast.UnaryExpr:
		if v, ok := pi.evalInt(x.X, iota); ok {
			switch x.Op {
			case token.SUB:
				return -v, true
			case token.ADD:
				return v, true
			}
		}
	case *ast.CallExpr: // conversions such as KeyLength(8)
		if len(x.Args) == 1 {
			if _, ok := x.Fun.(*ast.Ident); ok {
				return pi.evalInt(x.Args[0], iota)
			}
		}
	case *ast.SelectorExpr:
		// net.IPv4len etc.
		switch exprString(x) {
		case "net.IPv4len":
			return 4, true
		case "net.IPv6len":
			return 16, true
		case "md5.Size":
			return 16, true
		case "math.MaxUint32":
			return 4294967295, true
		}
	case *ast.BinaryExpr:
		a, ok1 := pi.evalInt(x.X, iota)
		b, ok2 := pi.evalInt(x.Y, iota)
		if ok1 && ok2 {
			switch x.Op {
			case token.ADD:
				return a + b, true
			case token.SUB:
				return a - b, true
			case token.MUL:
				return a * b, true
			case token.SHL:
				return a << uint(b), true
			}
		}
	}
	return 0, false
}

var opName = map[token.Token]string{
	token.GTR: "OpGT", token.GEQ: "OpGE", token.LSS: "OpLT", token.LEQ: "OpLE", token.EQL: "OpEQ", token.NEQ: "OpNE",
}
var flip = map[token.Token]token.Token{
	token.GTR: token.LSS, token.GEQ: token.LEQ, token.LSS: token.GTR, token.LEQ: token.GEQ, token.EQL: token.EQL, token.NEQ: token.NEQ,
}

type guard struct {
	expr string
	op   string
	lit  int64
}

// canonical text of a guarded expression, insensitive to the names a function gives its parameters and
// single-assignment locals: parameters print as $0, $1, ... (the receiver as $r) and a local variable that is
// assigned exactly once prints as its defining expression (so `length` in Parse prints as
// int(binary.BigEndian.Uint16($0[2:4]))); everything else prints as written
type canon struct {
	params map[string]string
	defs   map[string]ast.Expr
}

func newCanon(fn *ast.FuncDecl) *canon {
	c := &canon{params: map[string]string{}, defs: map[string]ast.Expr{}}
	if fn.Recv != nil {
		for _, f := range fn.Recv.List {
			for _, n := range f.Names {
				c.params[n.Name] = "$r"
			}
		}
	}
	i := 0
	for _, f := range fn.Type.Params.List {
		for _, n := range f.Names {
			c.params[n.Name] = fmt.Sprintf("$%d", i)
			i++
		}
		if len(f.Names) == 0 {
			i++
		}
	}
	count := map[string]int{}
	cand := map[string]ast.Expr{}
	bump := func(e ast.Expr) {
		if id, ok := e.(*ast.Ident); ok {
			count[id.Name]++
		}
	}
	ast.Inspect(fn.Body, func(n ast.Node) bool {
		switch s := n.(type) {
		case *ast.AssignStmt:
			for i, l := range s.Lhs {
				bump(l)
				if id, ok := l.(*ast.Ident); ok && s.Tok == token.DEFINE && len(s.Lhs) == len(s.Rhs) {
					cand[id.Name] = s.Rhs[i]
				}
			}
		case *ast.IncDecStmt:
			bump(s.X)
			bump(s.X)
		case *ast.RangeStmt:
			if s.Key != nil {
				bump(s.Key)
				bump(s.Key)
			}
			if s.Value != nil {
				bump(s.Value)
				bump(s.Value)
			}
		case *ast.ValueSpec:
			for i, nm := range s.Names {
				count[nm.Name]++
				if i < len(s.Values) {
					cand[nm.Name] = s.Values[i]
				}
			}
		}
		return true
	})
	for n, e := range cand {
		if count[n] == 1 {
			if _, isParam := c.params[n]; !isParam {
				c.defs[n] = e
			}
		}
	}
	return c
}

func (c *canon) str(e ast.Expr, depth int) string {
	switch x := e.(type) {
	case *ast.Ident:
		if p, ok := c.params[x.Name]; ok {
			return p
		}
		if d, ok := c.defs[x.Name]; ok && depth < 4 {
			return c.str(d, depth+1)
		}
		return x.Name
	case *ast.BasicLit:
		return x.Value
	case *ast.ParenExpr:
		return "(" + c.str(x.X, depth) + ")"
	case *ast.SelectorExpr:
		return c.str(x.X, depth) + "." + x.Sel.Name
	case *ast.StarExpr:
		return "*" + c.str(x.X, depth)
	case *ast.UnaryExpr:
		return x.Op.String() + c.str(x.X, depth)
	case *ast.BinaryExpr:
		return c.str(x.X, depth) + " " + x.Op.String() + " " + c.str(x.Y, depth)
	case *ast.IndexExpr:
		return c.str(x.X, depth) + "[" + c.str(x.Index, depth) + "]"
	case *ast.SliceExpr:
		p := func(e ast.Expr) string {
			if e == nil {
				return ""
			}
			return c.str(e, depth)
		}
		s := c.str(x.X, depth) + "[" + p(x.Low) + ":" + p(x.High)
		if x.Slice3 {
			s += ":" + p(x.Max)
		}
		return s + "]"
	case *ast.CallExpr:
		var as []string
		for _, a := range x.Args {
			as = append(as, c.str(a, depth))
		}
		return c.str(x.Fun, depth) + "(" + strings.Join(as, ", ") + ")"
	}
	return exprString(e)
}

// guards lists, in source order, every comparison of an expression with an
// integer constant inside fn.
func (pi *pkgInfo) guards(fn *ast.FuncDecl) []guard {
	cn := newCanon(fn)
	exprString := func(e ast.Expr) string { return cn.str(e, 0) }
	var gs []guard
	ast.Inspect(fn.Body, func(n ast.Node) bool {
		be, ok := n.(*ast.BinaryExpr)
		if !ok {
			return true
		}
		if _, isCmp := opName[be.Op]; !isCmp {
			return true
		}
		if v, ok := pi.evalInt(be.Y, 0); ok {
			if _, lok := pi.evalInt(be.X, 0); !lok {
				gs = append(gs, guard{exprString(be.X), opName[be.Op], v})
			}
		} else if v, ok := pi.evalInt(be.X, 0); ok {
			gs = append(gs, guard{exprString(be.Y), opName[flip[be.Op]], v})
		}
		return true
	})
	return gs
}

func (pi *pkgInfo) switches(fn *ast.FuncDecl) [][][]int64 {
	var out [][][]int64
	ast.Inspect(fn.Body, func(n ast.Node) bool {
		sw, ok := n.(*ast.SwitchStmt)
		if !ok || sw.Tag == nil {
			return true
		}
		var clauses [][]int64
		for _, st := range sw.Body.List {
			cc := st.(*ast.CaseClause)
			var vals []int64
			for _, e := range cc.List {
				if v, ok := pi.evalInt(e, 0); ok {
					vals = append(vals, v)
				} else {
					vals = append(vals, -999999)
				}
			}
			clauses = append(clauses, vals)
		}
		out = append(out, clauses)
		return true
	})
	return out
}

func funcName(fd *ast.FuncDecl) string {
	name := fd.Name.Name
	if fd.Recv != nil && len(fd.Recv.List) == 1 {
		t := fd.Recv.List[0].Type
		if st, ok := t.(*ast.StarExpr); ok {
			t = st.X
		}
		if id, ok := t.(*ast.Ident); ok {
			name = id.Name + "_" + name
		}
	}
	return name
}

func zlist(vs []int64) string {
	var s []string
	for _, v := range vs {
		s = append(s, fmt.Sprintf("(%d)", v))
	}
	return "[" + strings.Join(s, "; ") + "]"
}

func emitFuncs(w *bytes.Buffer, prefix string, pi *pkgInfo) {
	type fdn struct {
		name string
		fd   *ast.FuncDecl
	}
	var fds []fdn
	for _, f := range pi.files {
		for _, d := range f.Decls {
			if fd, ok := d.(*ast.FuncDecl); ok && fd.Body != nil {
				fds = append(fds, fdn{funcName(fd), fd})
			}
		}
	}
	sort.SliceStable(fds, func(i, j int) bool { return fds[i].name < fds[j].name })
	for _, f := range fds {
		gs := pi.guards(f.fd)
		if len(gs) > 0 {
			fmt.Fprintf(w, "Definition G_%s%s : list guard := [\n", prefix, f.name)
			for i, g := range gs {
				sep := ";"
				if i == len(gs)-1 {
					sep = ""
				}
				fmt.Fprintf(w, "  {| gexpr := %s; gop := %s; glit := (%d) |}%s\n", coqString(g.expr), g.op, g.lit, sep)
			}
			fmt.Fprintf(w, "].\n")
		}
		sws := pi.switches(f.fd)
		if len(sws) > 0 {
			fmt.Fprintf(w, "Definition SW_%s%s : list (list (list Z)) := [\n", prefix, f.name)
			for i, sw := range sws {
				var cl []string
				for _, c := range sw {
					cl = append(cl, zlist(c))
				}
				sep := ";"
				if i == len(sws)-1 {
					sep = ""
				}
				fmt.Fprintf(w, "  [%s]%s\n", strings.Join(cl, "; "), sep)
			}
			fmt.Fprintf(w, "].\n")
		}
	}
}

func emitConsts(w *bytes.Buffer, prefix string, pi *pkgInfo) {
	var names []string
	for n := range pi.consts {
		names = append(names, n)
	}
	sort.Strings(names)
	for _, n := range names {
		fmt.Fprintf(w, "Definition K_%s%s : Z := (%d).\n", prefix, n, pi.consts[n])
	}
}

// byte-slice variables such as magic1 = []byte{0x4D, ...}
func emitByteVars(w *bytes.Buffer, prefix string, pi *pkgInfo) {
	for _, f := range pi.files {
		for _, d := range f.Decls {
			gd, ok := d.(*ast.GenDecl)
			if !ok || gd.Tok != token.VAR {
				continue
			}
			for _, sp := range gd.Specs {
				vs := sp.(*ast.ValueSpec)
				for i, name := range vs.Names {
					if len(vs.Values) <= i {
						continue
					}
					cl, ok := vs.Values[i].(*ast.CompositeLit)
					if !ok || exprString(cl.Type) != "[]byte" {
						continue
					}
					var vals []string
					good := true
					for _, e := range cl.Elts {
						v, ok := pi.evalInt(e, 0)
						if !ok {
							good = false
							break
						}
						vals = append(vals, strconv.FormatInt(v, 10))
					}
					if good {
						fmt.Fprintf(w, "Definition B_%s%s : list N := [%s]%%N.\n", prefix, name.Name, strings.Join(vals, "; "))
					}
				}
			}
		}
	}
}

// string->value tables:
//
//	map[byte]string / map[string]bool composite literals (dictionarygen/util.go)
func emitStringMaps(w *bytes.Buffer, prefix string, pi *pkgInfo) {
	for _, f := range pi.files {
		for _, d := range f.Decls {
			gd, ok := d.(*ast.GenDecl)
			if !ok || gd.Tok != token.VAR {
				continue
			}
			for _, sp := range gd.Specs {
				vs := sp.(*ast.ValueSpec)
				for i, name := range vs.Names {
					if len(vs.Values) <= i {
						continue
					}
					cl, ok := vs.Values[i].(*ast.CompositeLit)
					if !ok {
						continue
					}
					switch exprString(cl.Type) {
					case "map[string]bool":
						var items []string
						for _, e := range cl.Elts {
							kv := e.(*ast.KeyValueExpr)
							k, _ := strconv.Unquote(kv.Key.(*ast.BasicLit).Value)
							if exprString(kv.Value) == "true" {
								items = append(items, coqString(k))
							}
						}
						fmt.Fprintf(w, "Definition S_%s%s : list string := [%s].\n", prefix, name.Name, strings.Join(items, "; "))
					case "map[byte]string":
						var items []string
						for _, e := range cl.Elts {
							kv := e.(*ast.KeyValueExpr)
							k, _ := pi.evalInt(kv.Key, 0)
							v, _ := strconv.Unquote(kv.Value.(*ast.BasicLit).Value)
							items = append(items, fmt.Sprintf("((%d)%%Z, %s)", k, coqString(v)))
						}
						fmt.Fprintf(w, "Definition M_%s%s : list (Z * string) := [%s].\n", prefix, name.Name, strings.Join(items, "; "))
					}
				}
			}
		}
	}
}

// the parser's type-name table: case strings.EqualFold(f[3], "name"): attr.Type = AttributeX
func emitTypeTable(w *bytes.Buffer, pi *pkgInfo) {
	var items []string
	for _, f := range pi.files {
		for _, d := range f.Decls {
			fd, ok := d.(*ast.FuncDecl)
			if !ok || fd.Name.Name != "parseAttribute" {
				continue
			}
			ast.Inspect(fd.Body, func(n ast.Node) bool {
				cc, ok := n.(*ast.CaseClause)
				if !ok || len(cc.List) != 1 || len(cc.Body) != 1 {
					return true
				}
				call, ok := cc.List[0].(*ast.CallExpr)
				if !ok || exprString(call.Fun) != "strings.EqualFold" || len(call.Args) != 2 {
					return true
				}
				lit, ok := call.Args[1].(*ast.BasicLit)
				if !ok {
					return true
				}
				as, ok := cc.Body[0].(*ast.AssignStmt)
				if !ok || exprString(as.Lhs[0]) != "attr.Type" {
					return true
				}
				name, _ := strconv.Unquote(lit.Value)
				if v, ok := pi.evalInt(as.Rhs[0], 0); ok {
					items = append(items, fmt.Sprintf("(%s, (%d)%%Z)", coqString(name), v))
				}
				return true
			})
		}
	}
	fmt.Fprintf(w, "Definition T_parser_types : list (string * Z) := [%s].\n", strings.Join(items, "; "))
}

func main() {
	if len(os.Args) < 3 {
		fmt.Fprintln(os.Stderr, "usage: srcfacts <repo> <out.v>")
		os.Exit(2)
	}
	repo, out := os.Args[1], os.Args[2]
	var w bytes.Buffer
	w.WriteString("(* GENERATED by /verif/harness/cmd/srcfacts from the layeh/radius working tree. DO NOT EDIT. *)\n")
	w.WriteString("From Coq Require Import ZArith NArith List String.\nFrom Radius Require Import Base.Guard.\nImport ListNotations.\nOpen Scope string_scope.\nOpen Scope Z_scope.\n\n")

	root := loadPkg(repo)
	w.WriteString("(* ---- package radius ---- *)\n")
	emitConsts(&w, "", root)
	emitFuncs(&w, "", root)
	emitSync(&w, root, []string{"PacketServer_Serve", "PacketServer_Shutdown", "PacketServer_activeAdd", "PacketServer_activeDone", "PacketServer_initLocked", "Client_Exchange"})

	for _, sub := range []string{"rfc2759", "rfc3079", "dictionary", "dictionarygen"} {
		pi := loadPkg(filepath.Join(repo, sub))
		fmt.Fprintf(&w, "\n(* ---- package %s ---- *)\n", sub)
		emitConsts(&w, sub+"_", pi)
		emitByteVars(&w, sub+"_", pi)
		emitStringMaps(&w, sub+"_", pi)
		emitFuncs(&w, sub+"_", pi)
		if sub == "dictionary" {
			emitTypeTable(&w, pi)
		}
	}

	old, _ := os.ReadFile(out)
	if !bytes.Equal(old, w.Bytes()) {
		if err := os.WriteFile(out, w.Bytes(), 0644); err != nil {
			fmt.Fprintln(os.Stderr, "srcfacts:", err)
			os.Exit(2)
		}
		fmt.Println("srcfacts: wrote", out)
	} else {
		fmt.Println("srcfacts: unchanged", out)
	}
	if err := emitEffects(repo, filepath.Join(filepath.Dir(out), "Effects.v")); err != nil {
		fmt.Fprintln(os.Stderr, "srcfacts: effects:", err)
		os.Exit(2)
	}
	if err := emitSrc(repo, filepath.Join(filepath.Dir(out), "Src.v")); err != nil {
		fmt.Fprintln(os.Stderr, "srcfacts: golite:", err)
		os.Exit(2)
	}
}
