package main

// The synchronisation skeleton of the packet server, read from server-packet.go in source order: every call, atomic
// operation, channel operation, map update and return statement of Serve, Shutdown, activeAdd and activeDone,
// with the block structure around them (if / for / range / select / go / defer). Model/ShutdownShape.v projects
// these lists onto the operations of the step function of Model/Shutdown.v and Properties/C07.v proves that the
// two sequences are equal — the order of the operations inside the critical sections is part of the model.

import (
	"bytes"
	"fmt"
	"go/ast"
	"go/token"
	"strings"
)

type syncWalker struct {
	c    *canon
	toks []string
}

// localNames gives every local variable that is bound exactly once a name that does not depend on how it is spelled:
// the call or value it is bound to ("(time.NewTicker)", "($r.Dialer.DialContext#0)" for the first result of a call
// with several), "(var sync.Mutex)" for a variable declared without a value and never assigned, "(rangekey X)" for a
// range variable. Parameters and the receiver are $0.. and $r already. Variables assigned more than once keep
// their spelling.
func localNames(fd *ast.FuncDecl, c *canon) {
	assigned := map[string]int{}
	desc := map[string]func() string{}
	bind := func(id *ast.Ident, d func() string) {
		if id == nil || id.Name == "_" {
			return
		}
		if _, isParam := c.params[id.Name]; isParam {
			if c.params[id.Name][0] == '$' {
				return
			}
		}
		assigned[id.Name]++
		desc[id.Name] = d
	}
	callee := func(e ast.Expr) (string, bool) {
		switch x := e.(type) {
		case *ast.CallExpr:
			if _, lit := x.Fun.(*ast.FuncLit); lit {
				return "", false
			}
			return c.str(x.Fun, 9), true
		case *ast.TypeAssertExpr:
			if x.Type != nil {
				return "assert " + exprString(x.Type), true
			}
		}
		return "", false
	}
	ast.Inspect(fd.Body, func(n ast.Node) bool {
		switch x := n.(type) {
		case *ast.AssignStmt:
			if x.Tok != token.DEFINE && x.Tok != token.ASSIGN {
				for _, l := range x.Lhs {
					if id, ok := l.(*ast.Ident); ok {
						assigned[id.Name] += 2
					}
				}
				return true
			}
			for i, l := range x.Lhs {
				id, ok := l.(*ast.Ident)
				if !ok {
					continue
				}
				switch {
				case len(x.Rhs) == 1 && len(x.Lhs) > 1:
					rhs, i := x.Rhs[0], i
					bind(id, func() string {
						if f, ok := callee(rhs); ok {
							return fmt.Sprintf("(%s#%d)", f, i)
						}
						return ""
					})
				case len(x.Rhs) == len(x.Lhs):
					rhs := x.Rhs[i]
					bind(id, func() string {
						if f, ok := callee(rhs); ok {
							return "(" + f + ")"
						}
						if _, isLit := rhs.(*ast.CompositeLit); isLit {
							return "(val " + exprString(rhs) + ")"
						}
						return ""
					})
				}
			}
		case *ast.ValueSpec:
			for i, nm := range x.Names {
				switch {
				case len(x.Values) == 0 && x.Type != nil:
					ty := exprString(x.Type)
					assigned[nm.Name] += 0
					if _, seen := desc[nm.Name]; !seen {
						desc[nm.Name] = func() string { return "(var " + ty + ")" }
					}
				case i < len(x.Values):
					v := x.Values[i]
					bind(nm, func() string {
						if f, ok := callee(v); ok {
							return "(" + f + ")"
						}
						return "(val " + exprString(v) + ")"
					})
				}
			}
		case *ast.RangeStmt:
			xs := x.X
			if id, ok := x.Key.(*ast.Ident); ok && x.Tok == token.DEFINE {
				bind(id, func() string { return "(rangekey " + c.str(xs, 9) + ")" })
			}
			if id, ok := x.Value.(*ast.Ident); ok && x.Tok == token.DEFINE {
				bind(id, func() string { return "(rangeval " + c.str(xs, 9) + ")" })
			}
		case *ast.IncDecStmt:
			if id, ok := x.X.(*ast.Ident); ok {
				// counting does not rebind: the variable keeps the name of its declaration
				_ = id
			}
		}
		return true
	})
	// resolve in two rounds so that a descriptor may mention an already named local
	for round := 0; round < 2; round++ {
		for name, d := range desc {
			if assigned[name] > 1 {
				continue
			}
			if _, isParam := c.params[name]; isParam && round == 0 {
				continue
			}
			if s := d(); s != "" {
				c.params[name] = s
			}
		}
	}
}

// calls that are not part of the skeleton
var syncNoise = map[string]bool{
	"$r.logf": true, "append": true, "len": true, "errors.New": true, "cap": true, "copy": true, "make": true, "new": true,
}

func (w *syncWalker) emit(s string) { w.toks = append(w.toks, s) }

func (w *syncWalker) callName(x *ast.CallExpr) string {
	return w.c.str(x.Fun, 9) // depth 9: no inlining of single-assignment locals
}

// expr emits the operations inside an expression, innermost first (evaluation order of nested calls)
func (w *syncWalker) expr(e ast.Expr) {
	if e == nil {
		return
	}
	switch x := e.(type) {
	case *ast.CallExpr:
		if _, ok := x.Fun.(*ast.FuncLit); ok {
			for _, a := range x.Args {
				w.expr(a)
			}
			w.emit("func{")
			w.block(x.Fun.(*ast.FuncLit).Body)
			w.emit("}")
			return
		}
		if sel, ok := x.Fun.(*ast.SelectorExpr); ok {
			w.expr(sel.X)
		}
		for _, a := range x.Args {
			w.expr(a)
		}
		name := w.callName(x)
		switch {
		case syncNoise[name]:
		case name == "verifPoint" && len(x.Args) == 1:
			w.emit("hook:" + strings.Trim(exprString(x.Args[0]), `"`))
		case strings.HasPrefix(name, "atomic.") && len(x.Args) >= 1:
			var as []string
			for _, a := range x.Args {
				as = append(as, w.c.str(a, 9))
			}
			w.emit(name + "(" + strings.Join(as, ",") + ")")
		case name == "close" || name == "delete":
			w.emit(name + ":" + w.c.str(x.Args[0], 9))
		default:
			w.emit("call:" + name)
		}
	case *ast.UnaryExpr:
		w.expr(x.X)
		if x.Op == token.ARROW {
			w.emit("recv:" + w.c.str(x.X, 9))
		}
	case *ast.BinaryExpr:
		w.expr(x.X)
		w.expr(x.Y)
	case *ast.ParenExpr:
		w.expr(x.X)
	case *ast.SelectorExpr:
		w.expr(x.X)
	case *ast.IndexExpr:
		w.expr(x.X)
		w.expr(x.Index)
		// a read of an element (of a map, for the lockset check; slices and arrays of locals show up too)
		w.emit("index:" + w.c.str(x.X, 9))
	case *ast.SliceExpr:
		w.expr(x.X)
		w.expr(x.Low)
		w.expr(x.High)
		w.expr(x.Max)
	case *ast.StarExpr:
		w.expr(x.X)
	case *ast.TypeAssertExpr:
		w.expr(x.X)
	case *ast.CompositeLit:
		for _, el := range x.Elts {
			if kv, ok := el.(*ast.KeyValueExpr); ok {
				w.expr(kv.Value)
			} else {
				w.expr(el)
			}
		}
	case *ast.FuncLit:
		w.emit("func{")
		w.block(x.Body)
		w.emit("}")
	}
}

func (w *syncWalker) block(b *ast.BlockStmt) {
	if b == nil {
		return
	}
	for _, s := range b.List {
		w.stmt(s)
	}
}

func (w *syncWalker) stmt(s ast.Stmt) {
	switch x := s.(type) {
	case *ast.ExprStmt:
		w.expr(x.X)
	case *ast.AssignStmt:
		for _, r := range x.Rhs {
			w.expr(r)
		}
		for _, l := range x.Lhs {
			if sel, ok := l.(*ast.SelectorExpr); ok {
				w.emit("set:" + w.c.str(sel, 9))
			}
			if ix, ok := l.(*ast.IndexExpr); ok {
				w.emit("set:" + w.c.str(ix.X, 9) + "[]")
			}
		}
	case *ast.IncDecStmt:
		op := "inc:"
		if x.Tok == token.DEC {
			op = "dec:"
		}
		t := x.X
		if ix, ok := t.(*ast.IndexExpr); ok {
			t = ix.X
		}
		w.emit(op + w.c.str(t, 9))
	case *ast.DeclStmt:
		if gd, ok := x.Decl.(*ast.GenDecl); ok {
			for _, sp := range gd.Specs {
				if vs, ok := sp.(*ast.ValueSpec); ok {
					for _, v := range vs.Values {
						w.expr(v)
					}
				}
			}
		}
	case *ast.ReturnStmt:
		var rs []string
		for _, r := range x.Results {
			w.expr(r)
			rs = append(rs, w.c.str(r, 9))
		}
		w.emit("return:" + strings.Join(rs, ","))
	case *ast.IfStmt:
		if x.Init != nil {
			w.stmt(x.Init)
		}
		w.expr(x.Cond)
		w.emit("if:" + w.c.str(x.Cond, 9))
		w.emit("{")
		w.block(x.Body)
		w.emit("}")
		if x.Else != nil {
			w.emit("else{")
			if b, ok := x.Else.(*ast.BlockStmt); ok {
				w.block(b)
			} else {
				w.stmt(x.Else)
			}
			w.emit("}")
		}
	case *ast.ForStmt:
		if x.Init != nil {
			w.stmt(x.Init)
		}
		cond := ""
		if x.Cond != nil {
			cond = w.c.str(x.Cond, 9)
		}
		w.emit("for:" + cond)
		w.emit("{")
		w.expr(x.Cond)
		w.block(x.Body)
		if x.Post != nil {
			w.stmt(x.Post)
		}
		w.emit("}")
	case *ast.RangeStmt:
		w.expr(x.X)
		w.emit("range:" + w.c.str(x.X, 9))
		w.emit("{")
		w.block(x.Body)
		w.emit("}")
	case *ast.GoStmt:
		for _, a := range x.Call.Args {
			w.expr(a)
		}
		if fl, ok := x.Call.Fun.(*ast.FuncLit); ok {
			w.emit("go{")
			w.block(fl.Body)
			w.emit("}")
		} else {
			w.emit("go:" + w.callName(x.Call))
		}
	case *ast.DeferStmt:
		for _, a := range x.Call.Args {
			w.expr(a)
		}
		if fl, ok := x.Call.Fun.(*ast.FuncLit); ok {
			w.emit("defer{")
			w.block(fl.Body)
			w.emit("}")
		} else {
			sub := &syncWalker{c: w.c}
			sub.expr(x.Call)
			for _, t := range sub.toks {
				w.emit("defer:" + t)
			}
		}
	case *ast.SelectStmt:
		w.emit("select{")
		for _, cl := range x.Body.List {
			cc := cl.(*ast.CommClause)
			if cc.Comm == nil {
				w.emit("default:")
			} else {
				sub := &syncWalker{c: w.c}
				sub.stmt(cc.Comm)
				w.emit("case:" + strings.Join(sub.toks, "+"))
			}
			w.emit("{")
			for _, st := range cc.Body {
				w.stmt(st)
			}
			w.emit("}")
		}
		w.emit("}")
	case *ast.SwitchStmt:
		if x.Init != nil {
			w.stmt(x.Init)
		}
		w.expr(x.Tag)
		w.emit("switch{")
		for _, cl := range x.Body.List {
			cc := cl.(*ast.CaseClause)
			w.emit("case{")
			for _, st := range cc.Body {
				w.stmt(st)
			}
			w.emit("}")
		}
		w.emit("}")
	case *ast.BlockStmt:
		w.block(x)
	case *ast.BranchStmt:
		w.emit(x.Tok.String())
	case *ast.SendStmt:
		w.expr(x.Value)
		w.emit("send:" + w.c.str(x.Chan, 9))
	case *ast.LabeledStmt:
		w.stmt(x.Stmt)
	}
}

// emitSync writes Sync_<Recv>_<Method> for the named methods of the root package
func emitSync(out *bytes.Buffer, pi *pkgInfo, names []string) {
	want := map[string]bool{}
	for _, n := range names {
		want[n] = true
	}
	out.WriteString("\n(* ---- synchronisation skeletons (harness/cmd/srcfacts/sync.go) ---- *)\n")
	found := map[string]bool{}
	for _, f := range pi.files {
		for _, d := range f.Decls {
			fd, ok := d.(*ast.FuncDecl)
			if !ok || fd.Body == nil || !want[funcName(fd)] {
				continue
			}
			w := &syncWalker{c: newCanon(fd)}
			w.c.defs = map[string]ast.Expr{}
			localNames(fd, w.c)
			w.block(fd.Body)
			var qs []string
			for _, t := range w.toks {
				qs = append(qs, coqString(t))
			}
			fmt.Fprintf(out, "Definition Sync_%s : list string := [\n  %s\n].\n", funcName(fd), strings.Join(qs, ";\n  "))
			found[funcName(fd)] = true
		}
	}
	for _, n := range names {
		if !found[n] {
			// the method is gone or renamed: an empty skeleton, which no theorem about it accepts
			fmt.Fprintf(out, "Definition Sync_%s : list string := [].\n", n)
		}
	}
}
