package main

import (
	"context"
	"errors"
	"fmt"
	"io"
	"log"
	"net"
	"strings"
	"sync"
	"sync/atomic"
	"time"

	"layeh.com/radius"
)

// ---- fake listener ----
type fakeAddr string

func (a fakeAddr) Network() string { return "fake" }
func (a fakeAddr) String() string  { return string(a) }

type fakePkt struct {
	b    []byte
	from net.Addr
}

type fakeConn struct {
	id      int
	in      chan fakePkt
	closed  chan struct{}
	once    sync.Once
	nclose  int32
	reading chan struct{} // a reader entered ReadFrom
	mu      sync.Mutex
	writes  []fakePkt
}

func newFakeConn(id int) *fakeConn {
	return &fakeConn{id: id, in: make(chan fakePkt, 16), closed: make(chan struct{}), reading: make(chan struct{}, 64)}
}
func (c *fakeConn) ReadFrom(b []byte) (int, net.Addr, error) {
	select {
	case c.reading <- struct{}{}:
	default:
	}
	select {
	case p := <-c.in:
		n := copy(b, p.b)
		return n, p.from, nil
	case <-c.closed:
		return 0, nil, &net.OpError{Op: "read", Net: "fake", Err: net.ErrClosed}
	}
}
func (c *fakeConn) WriteTo(b []byte, addr net.Addr) (int, error) {
	c.mu.Lock()
	c.writes = append(c.writes, fakePkt{append([]byte(nil), b...), addr})
	c.mu.Unlock()
	return len(b), nil
}
func (c *fakeConn) Close() error {
	atomic.AddInt32(&c.nclose, 1)
	c.once.Do(func() { close(c.closed) })
	return nil
}
func (c *fakeConn) LocalAddr() net.Addr                { return fakeAddr(fmt.Sprintf("local-%d", c.id)) }
func (c *fakeConn) SetDeadline(t time.Time) error      { return nil }
func (c *fakeConn) SetReadDeadline(t time.Time) error  { return nil }
func (c *fakeConn) SetWriteDeadline(t time.Time) error { return nil }

// ---- orchestrated server run ----
type hAct struct{ k, a, b int } // kind, arg, flag

type hThread struct {
	kind     int // 1 serve, 2 dgram, 3 shutdown
	status   int
	release  chan struct{}
	conn     *fakeConn
	cancel   context.CancelFunc
	expired  bool
	err      error
	returned int32 // set by the goroutine itself the moment Serve returns (the status field is updated later, through the event loop)
}

type sched struct {
	srv            *radius.PacketServer
	threads        []*hThread
	events         chan func()
	panicked       int32
	conns          []*fakeConn
	nextID         int
	reqCtx         context.Context
	mu             sync.Mutex
	pendingHandler []chan chan struct{}
}

var schedMu sync.Mutex // VerifHook is process-global

func (s *sched) post(f func()) { s.events <- f }

func runSchedule(c *Ctx, acts []hAct, predict func(prefix []hAct) string) (obs []string, detail string) {
	schedMu.Lock()
	defer schedMu.Unlock()
	s := &sched{events: make(chan func(), 256)}
	secret := []byte("sec")
	var curServe, curShut *hThread
	cleaning := false
	handlerStarted := make(chan chan struct{}, 16)
	dgramDone := make(chan struct{}, 64)
	radius.VerifHook = func(point string) {
		switch point {
		case "serve.registered":
			t := curServe
			if t == nil || cleaning {
				return
			}
			ch := make(chan struct{})
			s.post(func() { t.status = 11; t.release = ch })
			<-ch
		case "shutdown.waiting":
			t := curShut
			if t == nil || cleaning || t.status != 39 {
				return
			}
			ch := make(chan struct{})
			s.post(func() { t.status = 31; t.release = ch })
			<-ch
		case "datagram.done":
			dgramDone <- struct{}{}
		}
	}
	defer func() { radius.VerifHook = nil }()
	s.srv = &radius.PacketServer{
		SecretSource: radius.StaticSecretSource(secret),
		Handler: radius.HandlerFunc(func(w radius.ResponseWriter, r *radius.Request) {
			s.mu.Lock()
			s.reqCtx = r.Context()
			s.mu.Unlock()
			ch := make(chan struct{})
			handlerStarted <- ch
			<-ch
		}),
		ErrorLog: log.New(io.Discard, "", 0),
	}
	quiet := &strings.Builder{}
	_ = quiet

	statusVec := func() string {
		t := &Toks{}
		for _, th := range s.threads {
			st := th.status
			if th.kind == 3 && th.expired && (st == 33 || st == 34) {
				st = 35 // select may pick either ready case
			}
			t.I(int64(st))
		}
		if atomic.LoadInt32(&s.panicked) > 0 {
			t.I(2)
		} else {
			t.I(0)
		}
		n := 0
		for _, cn := range s.conns {
			if atomic.LoadInt32(&cn.nclose) > 0 {
				n++
			}
		}
		t.I(int64(n))
		return t.String()
	}
	drain := func(d time.Duration) {
		deadline := time.After(d)
		for {
			select {
			case f := <-s.events:
				f()
			case <-deadline:
				return
			}
		}
	}
	// wait until the observed status vector equals want (or timeout)
	waitFor := func(want string, pend func()) bool {
		deadline := time.Now().Add(3 * time.Second)
		for {
			if pend != nil {
				pend()
			}
			if statusVec() == want {
				drain(2 * time.Millisecond)
				if pend != nil {
					pend()
				}
				return statusVec() == want
			}
			if time.Now().After(deadline) {
				return false
			}
			select {
			case f := <-s.events:
				f()
			case <-time.After(time.Millisecond):
			}
		}
	}

	var dgramThreads []*hThread // goroutines in creation order whose handler release is pending assignment
	pend := func() {
		for {
			select {
			case ch := <-handlerStarted:
				for _, t := range dgramThreads {
					if t.status == 29 {
						t.status = 21
						t.release = ch
						break
					}
				}
			case <-dgramDone:
				// the oldest goroutine that is finishing: one with status 29 (dropped) or whose handler was released
				for _, t := range dgramThreads {
					if t.status == 29 || t.status == 28 {
						t.status = 22
						break
					}
				}
			default:
				// a Serve blocked in ReadFrom
				for _, t := range s.threads {
					if t.kind == 1 && t.status == 18 {
						select {
						case <-t.conn.reading:
							t.status = 12
						default:
						}
					}
				}
				return
			}
		}
	}

	for n, a := range acts {
		switch a.k {
		case 0: // Serve
			cn := newFakeConn(len(s.conns))
			s.conns = append(s.conns, cn)
			t := &hThread{kind: 1, status: 19, conn: cn}
			s.threads = append(s.threads, t)
			curServe = t
			go func() {
				var err error
				func() {
					defer func() {
						if r := recover(); r != nil {
							atomic.AddInt32(&s.panicked, 1)
							err = fmt.Errorf("panic: %v", r)
						}
					}()
					err = s.srv.Serve(cn)
				}()
				atomic.StoreInt32(&t.returned, 1)
				s.post(func() {
					t.err = err
					if err == radius.ErrServerShutdown {
						t.status = 13
					} else {
						t.status = 14
					}
				})
			}()
		case 1: // release a parked Serve
			t := s.threads[a.a]
			if t.release != nil {
				t.status = 18 // running towards ReadFrom
				for len(t.conn.reading) > 0 {
					<-t.conn.reading
				}
				close(t.release)
				t.release = nil
			}
		case 2: // deliver a datagram
			t := s.threads[a.a]
			g := &hThread{kind: 2, status: 29}
			s.threads = append(s.threads, g)
			dgramThreads = append(dgramThreads, g)
			var b []byte
			if a.b == 1 {
				b = []byte{1, 2, 3} // dropped: unparsable
			} else {
				p := &radius.Packet{Code: radius.CodeAccessRequest, Identifier: byte(s.nextID), Secret: secret}
				s.nextID++
				b, _ = p.Encode()
			}
			for len(t.conn.reading) > 0 {
				<-t.conn.reading
			}
			t.status = 18
			t.conn.in <- fakePkt{b, fakeAddr(fmt.Sprintf("peer-%d", s.nextID))}
		case 3: // handler returns
			g := s.threads[a.a]
			if g.release != nil {
				g.status = 28
				close(g.release)
				g.release = nil
			}
		case 4: // Shutdown
			ctx, cancel := context.WithCancel(context.Background())
			t := &hThread{kind: 3, status: 39, cancel: cancel}
			s.threads = append(s.threads, t)
			curShut = t
			go func() {
				var err error
				func() {
					defer func() {
						if r := recover(); r != nil {
							atomic.AddInt32(&s.panicked, 1)
							err = fmt.Errorf("panic: %v", r)
						}
					}()
					err = s.srv.Shutdown(ctx)
				}()
				s.post(func() {
					t.err = err
					if cleaning {
						return
					}
					if err == nil {
						t.status = 33
						// statement: nil only after every Serve has returned and every handler finished
						for i, o := range s.threads {
							late := false
							if o.kind == 1 && (o.status == 11 || o.status == 12 || o.status == 18) {
								// Serve's deferred bookkeeping wakes Shutdown a few instructions before Serve itself returns, and this
								// event may overtake Serve's own: what must hold is that the Serve call is returning without any further
								// stimulus - give it a bounded grace period instead of trusting the (possibly stale) status
								dl := time.Now().Add(2 * time.Second)
								for atomic.LoadInt32(&o.returned) == 0 && time.Now().Before(dl) {
									time.Sleep(time.Millisecond)
								}
								late = atomic.LoadInt32(&o.returned) == 0
							}
							if late || (o.kind == 2 && o.status == 21) {
								c.Fail("spec", "Shutdown", "nil-early", fmt.Sprint(acts[:n+1]), fmt.Sprintf("Shutdown returned nil while thread %d has status %d", i, o.status), "drained", "Shutdown must return nil only after every Serve call has returned and every started handler has finished")
							}
						}
					} else {
						t.status = 34
						if !t.expired {
							c.Fail("spec", "Shutdown", "err-without-ctx", fmt.Sprint(acts[:n+1]), err.Error(), "nil or blocked", "Shutdown may return the context error only if that context ended")
						}
					}
				})
			}()
		case 5: // release Shutdown into its select
			t := s.threads[a.a]
			if t.release != nil {
				t.status = 32
				close(t.release)
				t.release = nil
			}
		case 6: // expire the caller's context
			t := s.threads[a.a]
			t.expired = true
			t.cancel()
		}
		want := predict(acts[:n+1])
		ok := waitFor(want, pend)
		got := statusVec()
		obs = append(obs, got)
		if atomic.LoadInt32(&s.panicked) > 0 {
			c.Fail("spec", "server", "panic", fmt.Sprint(acts[:n+1]), "run-time panic (close of closed channel)", "no panic", "the server must not panic under any interleaving")
		}
		if !ok {
			detail = fmt.Sprintf("after action %d %v: observed [%s], model [%s]", n, a, got, want)
			break
		}
		// Serve after Shutdown must report ErrServerShutdown
		for _, t := range s.threads {
			if t.kind == 1 && t.status == 14 && t.err != nil && !strings.HasPrefix(t.err.Error(), "panic") {
				var oe *net.OpError
				if errors.As(t.err, &oe) {
					c.Fail("spec", "Serve", "serve-err", fmt.Sprint(acts[:n+1]), t.err.Error(), "ErrServerShutdown", "after Shutdown every Serve call returns ErrServerShutdown")
				}
			}
		}
	}
	// clean up: let everything finish
	cleaning = true
	for _, t := range s.threads {
		if t.cancel != nil {
			t.expired = true
			t.cancel()
		}
	}
	done := make(chan struct{})
	go func() {
		ctx, cancel := context.WithTimeout(context.Background(), 2*time.Second)
		defer cancel()
		defer func() { recover() }()
		s.srv.Shutdown(ctx)
		close(done)
	}()
	end := time.Now().Add(3 * time.Second)
	for time.Now().Before(end) {
		for _, t := range s.threads {
			if t.release != nil {
				close(t.release)
				t.release = nil
			}
		}
		select {
		case f := <-s.events:
			f()
		case ch := <-handlerStarted:
			close(ch)
		case <-dgramDone:
		case <-done:
			end = time.Now()
		case <-time.After(time.Millisecond):
		}
	}
	// the hook may still be invoked by the clean-up Shutdown: release it
	go func() {
		for i := 0; i < 4; i++ {
			select {
			case f := <-s.events:
				f()
				for _, t := range s.threads {
					if t.release != nil {
						close(t.release)
						t.release = nil
					}
				}
			case <-time.After(50 * time.Millisecond):
			}
		}
	}()
	time.Sleep(2 * time.Millisecond)
	return obs, detail
}

func actsReq(name string, acts []hAct) Req {
	r := Req{Name: name}
	for _, a := range acts {
		r.Zs = append(r.Zs, Z(int64(a.k)), Z(int64(a.a)), Z(int64(a.b)))
	}
	return r
}

// enabled actions given the model's last status vector
func enabledActs(status []int, nServe, nShut, nDgram int, expired map[int]bool, maxServe, maxShut, maxDgram int) []hAct {
	var out []hAct
	if nServe < maxServe {
		out = append(out, hAct{0, nServe, 0})
	}
	if nShut < maxShut {
		out = append(out, hAct{4, 0, 0})
	}
	for i, st := range status {
		switch st {
		case 11:
			out = append(out, hAct{1, i, 0})
		case 12:
			if nDgram < maxDgram {
				out = append(out, hAct{2, i, 0}, hAct{2, i, 1})
			}
		case 21:
			out = append(out, hAct{3, i, 0})
		case 31:
			out = append(out, hAct{5, i, 0})
			if !expired[i] {
				out = append(out, hAct{6, i, 0})
			}
		case 32:
			if !expired[i] {
				out = append(out, hAct{6, i, 0})
			}
		}
	}
	return out
}

func parseStatuses(line string) [][]int {
	var out [][]int
	var cur []int
	for _, f := range strings.Fields(line) {
		if f == "i-1" {
			if cur != nil {
				out = append(out, cur)
			}
			cur = []int{}
			continue
		}
		var v int64
		fmt.Sscanf(f[1:], "%x", &v)
		cur = append(cur, int(v))
	}
	if cur != nil {
		out = append(out, cur)
	}
	return out
}

func init() {
	props["C07"] = func(c *Ctx) {
		c.Res.Rule = "schedules of the real PacketServer driven through the three verif hooks, a fake PacketConn and blocking handlers: actions = start Serve / release Serve parked after registration / deliver datagram (dispatched or dropped) / handler returns / start Shutdown / release Shutdown into its select / expire its context; after every action the status of every call and goroutine, panics and closed listeners are compared with the Coq step model run on the same schedule; direct checks: no panic, nil-return only when drained, context error only when the context ended, Serve reports ErrServerShutdown. Quick: random valid schedules (1-2 Serve, 0-3 datagrams, 1-2 Shutdown); thorough: exhaustive enumeration to a depth plus random longer ones. plus, in a child process, the schedule 'datagram received, its goroutine not yet started, Shutdown requested' (one P, Shutdown called from inside the listener's ReadFrom). non-trivial = schedule containing a Shutdown"
		d, err := StartDriver(c.Driver)
		if err != nil {
			c.Note("driver: %v", err)
			return
		}
		defer d.Close()
		predictAll := func(acts []hAct) [][]int {
			out, err := d.Calls([]string{actsReq("sched", acts).Line("m.")})
			if err != nil || len(out) != 1 {
				return nil
			}
			return parseStatuses(out[0])
		}
		vecString := func(v []int) string {
			t := &Toks{}
			for _, x := range v {
				t.I(int64(x))
			}
			return t.String()
		}
		runOne := func(acts []hAct, tag string) {
			pred := predictAll(acts)
			if len(pred) != len(acts) {
				c.Note("model returned %d vectors for %d actions", len(pred), len(acts))
				return
			}
			obs, detail := runSchedule(c, acts, func(prefix []hAct) string { return vecString(pred[len(prefix)-1]) })
			t := &Toks{}
			for _, o := range obs {
				t.I(-1)
				t.parts = append(t.parts, strings.Fields(o)...)
			}
			cs := Case{Req: actsReq("sched", acts), Impl: strings.Join(t.parts, " "), Tag: tag, NoSpec: true, Desc: detail}
			if detail != "" {
				// make sure the mismatch is reported even though the run was cut short
				c.Fail("model", "sched", tag, actsReq("sched", acts).Line(""), detail, "", "schedule diverged from the model (a blocked call is reported after 3 s)")
				c.Count(tag, actsReq("sched", acts).Line(""))
				return
			}
			c.Add(cs)
		}
		r := c.Rng.Fork()
		genRandom := func(maxLen int) []hAct {
			var acts []hAct
			expired := map[int]bool{}
			nServe, nShut, nDgram := 0, 0, 0
			var status []int
			for len(acts) < maxLen {
				en := enabledActs(status, nServe, nShut, nDgram, expired, 2, 2, 3)
				if len(en) == 0 {
					break
				}
				a := en[r.Intn(len(en))]
				if a.k == 4 && nServe == 0 && r.Intn(3) != 0 {
					continue
				}
				acts = append(acts, a)
				switch a.k {
				case 0:
					nServe++
				case 2:
					nDgram++
				case 4:
					nShut++
				case 6:
					expired[a.a] = true
				}
				p := predictAll(acts)
				if len(p) != len(acts) {
					break
				}
				last := p[len(p)-1]
				status = last[:len(last)-2]
			}
			return acts
		}
		n := c.N(120, 1500)
		for i := 0; i < n; i++ {
			acts := genRandom(4 + r.Intn(9))
			tag := "no-shutdown"
			for _, a := range acts {
				if a.k == 4 {
					tag = "with-shutdown"
				}
			}
			for _, a := range acts {
				if a.k == 4 {
					break
				}
				if a.k == 0 {
					continue
				}
			}
			// the window named in the statement: Shutdown while a Serve is parked after registering
			parked := false
			for j, a := range acts {
				if a.k == 0 {
					parked = true
				}
				if a.k == 1 {
					parked = false
				}
				if a.k == 4 && parked {
					tag = "shutdown-in-register-window"
				}
				_ = j
			}
			runOne(acts, tag)
		}
		// directed schedules
		directed := [][]hAct{
			{{0, 0, 0}, {4, 0, 0}, {5, 1, 0}, {1, 0, 0}},                                  // the register window
			{{0, 0, 0}, {1, 0, 0}, {2, 0, 0}, {4, 0, 0}, {5, 2, 0}, {3, 1, 0}},            // handler running during Shutdown
			{{0, 0, 0}, {1, 0, 0}, {4, 0, 0}, {4, 0, 0}, {5, 1, 0}, {5, 2, 0}},            // double Shutdown
			{{4, 0, 0}, {5, 0, 0}, {0, 0, 0}},                                             // Serve after Shutdown
			{{0, 0, 0}, {1, 0, 0}, {2, 0, 0}, {4, 0, 0}, {5, 2, 0}, {6, 2, 0}, {3, 1, 0}}, // expiring context
			{{0, 0, 0}, {0, 1, 0}, {1, 0, 0}, {4, 0, 0}, {1, 1, 0}, {5, 2, 0}},            // two Serve calls, one parked
		}
		for _, acts := range directed {
			runOne(acts, "directed")
		}
		if c.Thorough() {
			// exhaustive to depth 6 with 1 Serve / 1 datagram / 1-2 Shutdown
			var rec func(acts []hAct, status []int, nS, nH, nD int, exp map[int]bool)
			count := 0
			rec = func(acts []hAct, status []int, nS, nH, nD int, exp map[int]bool) {
				if len(acts) > 0 {
					runOne(acts, "exhaustive")
					count++
				}
				if len(acts) == 6 || count > 4000 {
					return
				}
				for _, a := range enabledActs(status, nS, nH, nD, exp, 1, 2, 1) {
					na := append(acts[:len(acts):len(acts)], a)
					p := predictAll(na)
					if len(p) != len(na) {
						continue
					}
					last := p[len(p)-1]
					e2 := map[int]bool{}
					for k, v := range exp {
						e2[k] = v
					}
					s2, h2, d2 := nS, nH, nD
					switch a.k {
					case 0:
						s2++
					case 2:
						d2++
					case 4:
						h2++
					case 6:
						e2[a.a] = true
					}
					rec(na, last[:len(last)-2], s2, h2, d2, e2)
				}
			}
			rec(nil, nil, 0, 0, 0, map[int]bool{})
			c.Note("exhaustive enumeration: %d schedules (1 Serve, <=1 datagram, <=2 Shutdown, depth 6)", count)
		}
		// a window no hook reaches: between ReadFrom returning a datagram and that datagram's goroutine starting
		runSubScenario(c, "c07-received-before-shutdown",
			"one P; Serve called synchronously on a listener whose 2nd ReadFrom calls Shutdown(cancelled ctx); then Shutdown(Background)",
			"Shutdown returns nil only after every handler of a datagram received before the request has finished; no double close")
		runSubScenario(c, "c07-shared-listener",
			"two Serve calls on one listener, one ends with a permanent read error, then Shutdown",
			"Shutdown closes every registered listener; every running Serve call returns ErrServerShutdown")
		runSubScenario(c, "c07-plain-close-error",
			"a listener whose ReadFrom fails with a plain (non net.Error) error once Shutdown has closed it",
			"once Shutdown has been requested every running Serve call returns ErrServerShutdown")
		runSubScenario(c, "c07-serve-ended-on-read-error",
			"a handler waits for its request context, the only Serve call ends on a permanent read error, then Shutdown",
			"Shutdown cancels the request contexts and returns nil only after every started handler has finished, also when no listener is registered any more")
		runSubScenario(c, "c07-queued-on-mutex",
			"a Serve call and a Shutdown call queue on the server's mutex (held through the verif hook VerifHoldServer) and get it in either order",
			"once Shutdown has been requested every later Serve call returns ErrServerShutdown; Shutdown returns nil only after every Serve call has returned")
		runSubScenario(c, "c07-close-error",
			"two Serve calls on two listeners, the Close of one of them reports an error; Shutdown(Background), then a second Shutdown",
			"Shutdown closes every registered listener and cancels the request contexts; it returns the caller's context error only if that context ended")
		c.Trivial("no-shutdown")
		c.Flush()
		c.RequireTags("with-shutdown", "directed", "shutdown-in-register-window", "c07-queued-on-mutex", "c07-close-error", "c07-received-before-shutdown", "c07-shared-listener", "c07-plain-close-error", "c07-serve-ended-on-read-error")
	}
}
