package main

import (
	"bytes"
	"fmt"

	"layeh.com/radius/rfc2759"
	"layeh.com/radius/rfc3079"
)

func randUTF8(r *Rng, nchars int) []byte {
	var out []rune
	for i := 0; i < nchars; i++ {
		switch r.Intn(8) {
		case 0:
			out = append(out, rune(0x80+r.Intn(0x700))) // 2-byte
		case 1:
			out = append(out, rune(0x800+r.Intn(0xC000))) // 3-byte (may hit surrogate range -> becomes U+FFFD in string())
		case 2:
			out = append(out, rune(0x10000+r.Intn(0xFFFFF))) // 4-byte
		default:
			out = append(out, rune(0x20+r.Intn(0x5f)))
		}
	}
	// code points an over-helpful decoder treats specially: byte-order marks (leading and inner), NUL, the replacement character
	if nchars > 0 && r.Intn(5) == 0 {
		out[0] = 0xFEFF
	}
	if nchars > 2 && r.Intn(8) == 0 {
		out[1+r.Intn(nchars-1)] = []rune{0xFEFF, 0xFFFE, 0, 0xFFFD, 0x2028}[r.Intn(5)]
	}
	return []byte(string(out))
}

// packViews lays the arguments out back to back in one buffer and returns views of it whose capacity runs to the
// end of the buffer - the way a server hands out pieces of one received attribute. A callee that appends to one of
// its arguments overwrites the next one.
func packViews(args ...[]byte) [][]byte {
	n := 0
	for _, a := range args {
		n += len(a)
	}
	buf := make([]byte, 0, n+64)
	for _, a := range args {
		buf = append(buf, a...)
	}
	buf = buf[:cap(buf)]
	out := make([][]byte, len(args))
	off := 0
	for i, a := range args {
		out[i] = buf[off : off+len(a)]
		off += len(a)
	}
	return out
}

func init() {
	props["C19"] = func(c *Ctx) {
		c.Res.Rule = "random 16-byte challenges (and other lengths for ChallengeHash), user names, passwords of 0..256 characters (ASCII and multi-byte UTF-8 incl. 4-byte code points and 86..256 multi-byte characters = more than 256 bytes, leading and inner byte-order marks, NUL, U+FFFD), all byte arguments passed as adjacent views of one buffer with spare capacity while the requests carry the original values, 24-byte and wrong-sized NT responses, MakeKey called again with the same NT response and another password, 16-byte and wrong-sized master keys, key lengths 8/16/20, both directions; every exported function of rfc2759/rfc3079 compared with the Go-composition model and with the from-the-RFC oracle running on the Gallina SHA-1/MD4/DES/UTF-16 (independent of Go's crypto packages). non-trivial = non-ASCII or multi-block password, or a refused size"
		r := c.Rng.Fork()
		n := c.N(120, 4000)
		// every byte slice a function hands back is kept by the caller (a send key while the receive key is derived):
		// later calls must not change it
		type keptResult struct {
			what string
			ref  []byte
			copy []byte
		}
		var kept []keptResult
		keep := func(what string, b []byte) []byte {
			if len(b) > 0 {
				kept = append(kept, keptResult{what, b, append([]byte(nil), b...)})
			}
			return b
		}
		checkKept := func() {
			for _, k := range kept {
				if !bytes.Equal(k.ref, k.copy) {
					c.Fail("spec", k.what, "result-overwritten", k.what+" returned "+hx(k.copy)+"; the caller kept it while making further calls", hx(k.ref), hx(k.copy), "a returned key or hash is the caller's: later calls do not change it")
				}
			}
			if len(kept) > 40 {
				kept = kept[len(kept)-40:]
			}
			c.TagOnly("results-kept")
		}
		for i := 0; i < n; i++ {
			if i > 0 {
				checkKept()
			}
			auth, peer := r.Bytes(16), r.Bytes(16)
			user := r.Bytes(r.Intn(20))
			switch r.Intn(5) {
			case 0:
				user = []byte(fmt.Sprintf("DOM%d\\user%d", r.Intn(9), r.Intn(99))) // Windows style DOMAIN\user: the whole string is hashed
			case 1:
				user = []byte(fmt.Sprintf("a\\b\\c%d@realm.example", r.Intn(99)))
			case 2:
				user = []byte(fmt.Sprintf("user%d", r.Intn(999)))
			}
			var pw []byte
			tag := "ascii"
			switch i % 4 {
			case 0:
				pw = randUTF8(r, r.Intn(40))
				tag = "utf8"
				if i%16 == 0 {
					// the protocol's limit is 256 characters, not 256 bytes
					pw = randUTF8(r, r.Pick(86, 128, 129, 200, 256))
					tag = "utf8-long"
				}
			case 1:
				nn := r.Pick(0, 1, 13, 14, 27, 28, 55, 56, 64, 128, 256)
				pw = make([]byte, nn)
				for k := range pw {
					pw[k] = byte(0x21 + r.Intn(0x5e))
				}
				if nn > 27 {
					tag = "long"
				}
			default:
				pw = []byte(fmt.Sprintf("pass%dword", r.Intn(100000)))
			}
			// the calls below get views into one shared buffer; the requests carry the original values
			vw := packViews(peer, pw, auth, user)
			vpeer, vpw, vauth, vuser := vw[0], vw[1], vw[2], vw[3]
			if i%3 == 0 {
				// ChallengeHash first, as GenerateNTResponse does internally, but called by the user directly
				c.Add(T(Req{Name: "chash", Bs: [][]byte{peer, auth, user}}, (&Toks{}).B(rfc2759.ChallengeHash(vpeer, vauth, vuser)), "chash"))
			}
			nt, err := rfc2759.GenerateNTResponse(vauth, vpeer, vuser, vpw)
			keep("GenerateNTResponse", nt)
			if err != nil {
				c.Fail("spec", "GenerateNTResponse", tag, hx(pw), err.Error(), "no error", "the UTF-16 encoder never fails")
				continue
			}
			c.Add(T(Req{Name: "ntresp", Bs: [][]byte{auth, peer, user, pw}}, (&Toks{}).B(nt), tag))
			// now as a server holds them: peer challenge and NT response are pieces of one received MS-CHAP2-Response
			attr := packViews([]byte{1, 0}, peer, make([]byte, 8), nt)
			vpeer, nt = attr[1], attr[3]
			ar, err := rfc2759.GenerateAuthenticatorResponse(vauth, vpeer, nt, vuser, vpw)
			if err == nil {
				c.Add(T(Req{Name: "authresp", Bs: [][]byte{auth, peer, nt, user, pw}}, (&Toks{}).B([]byte(ar)), tag))
			}
			if i%3 == 0 {
				p2, a2 := r.Bytes(r.Intn(20)), r.Bytes(r.Intn(20))
				c.Add(T(Req{Name: "chash", Bs: [][]byte{p2, a2, user}}, (&Toks{}).B(rfc2759.ChallengeHash(p2, a2, user)), "chash"))
				u16, _ := rfc2759.ToUTF16(vpw)
				c.Add(T(Req{Name: "utf16", Bs: [][]byte{pw}}, (&Toks{}).B(u16), "utf16"))
				c.Add(T(Req{Name: "nthash", Bs: [][]byte{u16}}, (&Toks{}).B(rfc2759.NTPasswordHash(u16)), "nthash"))
				k7, clear := r.Bytes(7), r.Bytes(8)
				c.Add(T(Req{Name: "descrypt7", Bs: [][]byte{k7, clear}}, (&Toks{}).B(rfc2759.DESCrypt(k7, clear)), "des7"))
			}
			// MPPE
			u16, _ := rfc2759.ToUTF16(vpw)
			hh := rfc2759.NTPasswordHash(rfc2759.NTPasswordHash(u16))
			mk := keep(fmt.Sprintf("GetMasterKey(%x, %x)", hh, nt), rfc3079.GetMasterKey(hh, nt))
			c.Add(T(Req{Name: "masterkey", Bs: [][]byte{hh, nt}}, (&Toks{}).B(mk), "masterkey"))
			for _, send := range []bool{false, true} {
				kl := r.Pick(8, 16, 20, 0)
				m := mk
				mtag := "startkey"
				if r.Intn(5) == 0 {
					m = r.Bytes(r.Pick(0, 15, 17, 32))
					mtag = "startkey-wrong-size"
				}
				t := &Toks{}
				k, err := rfc3079.GetAsymmetricStartKey(m, rfc3079.KeyLength(kl), send)
				keep(fmt.Sprintf("GetAsymmetricStartKey(%x, %d, %v)", m, kl, send), k)
				if err != nil {
					t.E(8)
				} else {
					t.I(0).B(k)
				}
				c.Add(T(Req{Name: "startkey", Bs: [][]byte{m}, Zs: []string{Z(int64(kl)), Z(b2i(send))}}, t, mtag))
				ntr := nt
				ktag := "makekey"
				if r.Intn(5) == 0 {
					ntr = r.Bytes(r.Pick(0, 23, 25))
					ktag = "makekey-wrong-size"
				}
				t2 := &Toks{}
				k2, err := rfc3079.MakeKey(ntr, vpw, send)
				keep(fmt.Sprintf("MakeKey(%x, %x, %v)", ntr, pw, send), k2)
				if err != nil {
					t2.E(8)
				} else {
					t2.I(0).B(k2)
				}
				c.Add(T(Req{Name: "makekey", Bs: [][]byte{ntr, pw}, Zs: []string{Z(b2i(send))}}, t2, ktag))
				if len(ntr) == 24 && i%2 == 0 {
					// the same NT response presented with another password (a second user, a retry): the key depends on both
					pw2 := []byte(fmt.Sprintf("other%dpass", r.Intn(100000)))
					t3 := &Toks{}
					if k3, err := rfc3079.MakeKey(ntr, pw2, send); err != nil {
						t3.E(8)
					} else {
						t3.I(0).B(k3)
					}
					c.Add(T(Req{Name: "makekey", Bs: [][]byte{ntr, pw2}, Zs: []string{Z(b2i(send))}}, t3, "makekey-same-nt"))
				}
			}
		}
		checkKept()
		c.Trivial("ascii")
		c.Flush()
		c.RequireTags("results-kept", "ascii", "utf8", "utf8-long", "makekey-same-nt", "long", "chash", "utf16", "nthash", "des7", "masterkey", "startkey", "startkey-wrong-size", "makekey", "makekey-wrong-size")
	}
}
