package main

import (
	"bufio"
	"bytes"
	"context"
	"encoding/binary"
	"encoding/hex"
	"fmt"
	"io"
	"log"
	"net"
	"os"
	"os/exec"
	"strconv"
	"strings"
	"sync"
	"time"

	"layeh.com/radius"
	"layeh.com/radius/debug"
)

// a datagram whose attributes carry the types the shipped helpers address, with adversarial values
func hostileTyped(r *Rng) []byte {
	b := make([]byte, 20)
	b[0] = byte(r.Pick(1, 2, 3, 4, 11, 40))
	b[1] = byte(r.Intn(256))
	copy(b[4:], r.Bytes(16))
	n := 1 + r.Intn(6)
	for i := 0; i < n; i++ {
		h := pickHelper(r)
		d, why := describe(h)
		if d == nil || why != "" {
			continue
		}
		raw := r.Bytes(r.Pick(0, 1, 2, 3, 4, 5, 6, 8, 15, 16, 17, 18, 19, 20, 34, 50, 253))
		if r.Intn(3) == 0 && len(raw) > 0 {
			raw[0] = byte(r.Pick(0, 1, 0x1f, 0x20, 0x80, 0xff)) // tag byte / salt high bit
		}
		typ := d.typ
		if d.vendor {
			sub := append([]byte{byte(d.typ), byte(len(raw) + 2)}, raw...)
			switch r.Intn(6) {
			case 0:
				sub[1] = byte(r.Pick(0, 1, 2, 255))
			case 1:
				sub = sub[:r.Intn(len(sub)+1)]
			}
			raw = append([]byte{byte(d.vendorID >> 24), byte(d.vendorID >> 16), byte(d.vendorID >> 8), byte(d.vendorID)}, sub...)
			if r.Intn(3) == 0 {
				raw = append(raw, r.Bytes(r.Intn(5))...)
			}
			if r.Intn(8) == 0 {
				raw = raw[:r.Intn(5)]
			}
			typ = 26
		}
		if len(raw) > 253 {
			raw = raw[:253]
		}
		b = append(b, byte(typ), byte(len(raw)+2))
		b = append(b, raw...)
	}
	binary.BigEndian.PutUint16(b[2:4], uint16(len(b)))
	return b
}

// everything the decode surface offers, on one datagram; returns a description of the step it was in
func decodeSurface(c *Ctx, r *Rng, d, sec, req []byte, step *string) (parsed *radius.Packet) {
	*step = "Parse"
	p, err := radius.Parse(d, sec)
	*step = "ParseAttributes"
	if len(d) >= 20 {
		radius.ParseAttributes(d[20:])
	}
	radius.ParseAttributes(d)
	*step = "IsAuthenticRequest"
	radius.IsAuthenticRequest(d, sec)
	radius.IsAuthenticRequest(d, nil)
	*step = "IsAuthenticResponse"
	radius.IsAuthenticResponse(d, req, sec)
	radius.IsAuthenticResponse(req, d, sec)
	radius.IsAuthenticResponse(d, d, nil)
	if err != nil {
		return nil
	}
	q := &radius.Packet{Code: 1, Identifier: p.Identifier, Secret: sec, Authenticator: p.Authenticator}
	for i, a := range p.Attributes {
		v := a.Attribute
		*step = fmt.Sprintf("typed decoders on attribute %d (type %d, %x)", i, a.Type, []byte(v))
		radius.Bytes(v)
		radius.String(v)
		radius.Integer(v)
		radius.Short(v)
		radius.Integer64(v)
		radius.Date(v)
		radius.IPAddr(v)
		radius.IPv6Addr(v)
		radius.IFID(v)
		radius.VendorSpecific(v)
		radius.TLV(v)
		radius.IPv6Prefix(v)
		radius.UserPassword(v, sec, p.Authenticator[:])
		radius.UserPassword(v, nil, p.Authenticator[:])
		radius.UserPassword(v, sec, p.Authenticator[:5])
		radius.TunnelPassword(v, sec, p.Authenticator[:])
		radius.TunnelPassword(v, nil, nil)
	}
	for _, h := range relevantHelpers(r, p) {
		for _, op := range helperReads(h, p, q) {
			*step = op.name
			op.run()
		}
	}
	*step = "debug.Dump"
	debug.DumpString(&debug.Config{Dictionary: debug.IncludedDictionary}, p)
	debug.DumpString(&debug.Config{Dictionary: loadDict(c.Repo + "/vendors/microsoft/dictionary.microsoft")}, p)
	debug.DumpRequestString(&debug.Config{Dictionary: debug.IncludedDictionary}, &radius.Request{Packet: p, RemoteAddr: &net.UDPAddr{}, LocalAddr: &net.UDPAddr{}})
	return p
}

// read-only helper script on a parsed hostile packet, against the model
func hostileHelperCase(c *Ctx, r *Rng, p *radius.Packet, sec []byte) {
	rel := relevantHelpers(r, p)
	h := rel[r.Intn(len(rel))]
	d, why := describe(h)
	if d == nil || why != "" {
		return
	}
	q := &radius.Packet{Code: 1, Identifier: p.Identifier, Secret: sec, Authenticator: p.Authenticator}
	req := Req{Name: "helper"}
	req.Zs = append(d.zs(), Z(int64(p.Code)), Z(int64(p.Identifier)), Z(int64(len(p.Attributes))))
	req.Bs = [][]byte{append([]byte(nil), p.Authenticator[:]...), sec, append([]byte(nil), q.Authenticator[:]...)}
	for _, a := range p.Attributes {
		req.Zs = append(req.Zs, Z(int64(a.Type)))
		req.Bs = append(req.Bs, append([]byte(nil), a.Attribute...))
	}
	t := &Toks{}
	for _, op := range []int{3, 4} {
		if op == 4 && h.Gets == nil {
			op = 3
		}
		req.Zs = append(req.Zs, Z(int64(op)), Z(0), Z(0))
		req.Bs = append(req.Bs, nil, nil, nil)
		if op == 3 {
			tg, v, err := h.Lookup(p, q)
			if err == radius.ErrNoAttribute {
				t.I(1).I(40)
			} else if err != nil {
				t.I(1).I(8)
			} else {
				t.I(0).I(int64(tg))
				tGV(t, d, v)
			}
		} else {
			tags, vs, err := h.Gets(p, q)
			if err != nil {
				t.I(1)
			} else {
				t.I(0).I(int64(len(vs)))
				for k, v := range vs {
					if d.tag && k < len(tags) {
						t.I(int64(tags[k]))
					} else {
						t.I(0)
					}
					tGV(t, d, v)
				}
			}
		}
	}
	c.Add(Case{Req: req, Impl: t.String(), Tag: "hostile-helper/" + kindTag(d)})
}

// a packet server fed arbitrary datagrams keeps serving and never hands its handler a packet the parser rejects
// the server under flood runs in a child process (scenario "c02-server"): a panic in one of its goroutines cannot
// be recovered, and the parent still knows which datagrams it had sent
func scenarioServer() (bool, string) {
	sec := []byte("flood-secret")
	var mu sync.Mutex
	seen := map[string]int{} // authenticator -> times handled
	pc, err := net.ListenPacket("udp", "127.0.0.1:0")
	if err != nil {
		fmt.Println("ADDR none", err)
		return true, ""
	}
	srv := &radius.PacketServer{
		SecretSource: radius.StaticSecretSource(sec),
		Handler: radius.HandlerFunc(func(w radius.ResponseWriter, req *radius.Request) {
			mu.Lock()
			seen[string(req.Authenticator[:])]++
			mu.Unlock()
			w.Write(req.Response(radius.CodeAccessAccept))
		}),
		InsecureSkipVerify: false,
		ErrorLog:           log.New(io.Discard, "", 0),
	}
	go srv.Serve(pc)
	fmt.Println("ADDR", pc.LocalAddr().String())
	io.Copy(io.Discard, os.Stdin) // until the parent closes the pipe
	ctx, cancel := context.WithTimeout(context.Background(), 5*time.Second)
	srv.Shutdown(ctx)
	cancel()
	mu.Lock()
	defer mu.Unlock()
	for a, n := range seen {
		fmt.Printf("SEEN %x %d\n", a, n)
	}
	return true, ""
}

func init() { scenarios["c02-server"] = scenarioServer }

// awaitReply reads until the reply to the request with identifier id arrives (replies to earlier hostile datagrams
// that happened to be well-formed requests may still be on their way and are skipped)
func awaitReply(cl net.Conn, buf []byte, id byte, patience time.Duration) error {
	deadline := time.Now().Add(patience)
	for {
		cl.SetReadDeadline(deadline)
		k, err := cl.Read(buf)
		if err != nil {
			return err
		}
		if k >= 20 && buf[1] == id {
			return nil
		}
	}
}

func serverFlood(c *Ctx, r *Rng, n int) {
	sec := []byte("flood-secret")
	seen := map[string]int{}
	cmd := exec.Command(os.Args[0], "-scenario", "c02-server")
	stdin, _ := cmd.StdinPipe()
	stdout, _ := cmd.StdoutPipe()
	var stderr bytes.Buffer
	cmd.Stderr = &stderr
	if err := cmd.Start(); err != nil {
		c.Note("server flood skipped: %v", err)
		return
	}
	lines := bufio.NewScanner(stdout)
	lines.Buffer(make([]byte, 1<<20), 1<<20)
	addr := ""
	if lines.Scan() {
		f := strings.Fields(lines.Text())
		if len(f) >= 2 && f[0] == "ADDR" && f[1] != "none" {
			addr = f[1]
		}
	}
	if addr == "" {
		stdin.Close()
		cmd.Wait()
		c.Note("server flood skipped: the server process could not listen")
		return
	}
	stopped := false
	var last [][]byte // the datagrams sent most recently
	// stop ends the server process and reads what its handler saw; a crash of the process is reported with its output
	stop := func() (crash string) {
		if stopped {
			return ""
		}
		stopped = true
		stdin.Close()
		for lines.Scan() {
			f := strings.Fields(lines.Text())
			if len(f) == 3 && f[0] == "SEEN" {
				a, _ := hex.DecodeString(f[1])
				k, _ := strconv.Atoi(f[2])
				seen[string(a)] = k
			}
		}
		werr := make(chan error, 1)
		go func() { werr <- cmd.Wait() }()
		select {
		case err := <-werr:
			if err != nil {
				msg := stderr.String()
				if i := strings.Index(msg, "panic:"); i >= 0 {
					msg = msg[i:]
				}
				return fmt.Sprintf("the server process ended with %v: %s", err, trunc(msg, 700))
			}
		case <-time.After(15 * time.Second):
			cmd.Process.Kill()
			return "the server process did not shut down within 15 s"
		}
		return ""
	}
	defer stop()
	cl, err := net.Dial("udp", addr)
	if err != nil {
		c.Note("server flood skipped: %v", err)
		return
	}
	defer cl.Close()
	sent := map[string][][]byte{}
	valid, answered := 0, 0
	buf := make([]byte, 4096)
	for i := 0; i < n; i++ {
		var d []byte
		switch i % 4 {
		case 0:
			d = r.Bytes(r.Intn(80))
		case 1:
			d, _ = genDatagram(r)
		case 2:
			d = hostileTyped(r)
		default:
			// a well-formed, authentic Access-Request: the server must still answer
			p := radius.New(radius.CodeAccessRequest, sec)
			p.Identifier = byte(i)
			copy(p.Authenticator[:], r.Bytes(16))
			p.Add(1, radius.Attribute("u"))
			d, _ = p.Encode()
			valid++
			if i%8 == 3 {
				// a longer request, then the same datagram cut short (its Length field now points past the end): the cut one
				// must be dropped even though the server's buffer still holds the tail of the longer one
				p.Add(18, r.Bytes(40+r.Intn(60)))
				d, _ = p.Encode()
			}
			cl.Write(d)
			sent[string(d[4:20])] = append(sent[string(d[4:20])], d)
			if err := awaitReply(cl, buf, d[1], 3*time.Second); err == nil {
				answered++
			} else {
				var prev []string
				for _, l := range last {
					prev = append(prev, hx(l))
				}
				c.Fail("spec", "PacketServer.Serve", "server-stopped-serving", fmt.Sprintf("after %d datagrams, the last ones being %s, valid request %x", i, strings.Join(prev, " / "), d), fmt.Sprint("no reply: ", err, "; ", stop()), "an Access-Accept", "a packet server fed arbitrary datagrams keeps serving")
				return
			}
			if i%8 == 3 {
				cut := d[:20+r.Intn(len(d)-21)]
				sent[string(cut[4:20])] = append(sent[string(cut[4:20])], cut)
				cl.Write(cut)
				cl.SetReadDeadline(time.Now().Add(20 * time.Millisecond))
				cl.Read(buf)
				c.TagOnly("server-truncated-after-longer")
			}
			continue
		}
		if len(d) >= 20 {
			sent[string(d[4:20])] = append(sent[string(d[4:20])], d)
		}
		cl.Write(d)
		last = append(last, d)
		if len(last) > 3 {
			last = last[1:]
		}
		// drain any reply (hostile datagrams that happen to be valid requests are answered too)
		cl.SetReadDeadline(time.Now().Add(2 * time.Millisecond))
		cl.Read(buf)
	}
	time.Sleep(50 * time.Millisecond)
	if crash := stop(); crash != "" {
		var prev []string
		for _, l := range last {
			prev = append(prev, hx(l))
		}
		c.Fail("spec", "PacketServer.Serve", "server-crashed", fmt.Sprintf("%d datagrams, the last ones being %s", n, strings.Join(prev, " / ")), crash, "a clean shutdown", "a packet server fed arbitrary datagrams keeps serving")
		return
	}
	for auth, times := range seen {
		ds, ok := sent[auth]
		if !ok {
			c.Fail("spec", "PacketServer.Serve", "handler-got-unsent", hx([]byte(auth)), "handler invoked for a packet that was never sent", "", "")
			continue
		}
		parsable := 0
		var bad []byte
		for _, d := range ds {
			if _, err := radius.Parse(d, sec); err == nil {
				parsable++
			} else {
				bad = d
			}
		}
		if times > parsable {
			c.Fail("spec", "PacketServer.Serve", "handler-got-unparsable", hx(bad), fmt.Sprintf("the handler was invoked %d times for this authenticator", times), fmt.Sprintf("%d of the datagrams sent with it parse", parsable), "the server never hands its handler a packet the parser rejects")
		}
		c.Count("server-dispatched", auth)
	}
	c.Res.Extra["server_datagrams"] = n
	c.Res.Extra["server_valid_answered"] = fmt.Sprintf("%d/%d", answered, valid)
	c.Count("server-flood", fmt.Sprint(n))
}

func init() {
	props["C02"] = func(c *Ctx) {
		c.Res.Rule = "datagrams: arbitrary bytes (0..4200), structured header+TLV datagrams with one mutation (C01's generator), and datagrams whose attributes carry the types (and vendor framing) every shipped helper class addresses with adversarial values (wrong sizes, tag bytes, salt bits, sub-attribute lengths 0/1/2/255, truncated Vendor-Specific payloads). Each is run, under a panic guard and a 10 s watchdog, through Parse, ParseAttributes, both authenticity predicates (incl. nil secrets and swapped arguments), and when it parses: all 14 typed decoders and both password decoders on every attribute (incl. nil secret and short authenticator), Get/Gets/Lookup/GetString(s)/LookupString/String of every shipped helper whose attribute or vendor occurs, and debug.Dump with two dictionaries; Parse results and a read-only helper script are compared with the Coq models; valid Tunnel-Password encryptions with every interesting embedded length octet are decoded directly and through the generated getter; a real PacketServer on loopback UDP is flooded with the same three kinds of datagrams interleaved with authentic requests: every authentic request must be answered and the handler must only ever see datagrams Parse accepts; a second server with InsecureSkipVerify (child process) gets every datagram length 0..23 plus the same garbage and must keep answering. non-trivial = datagram that passes the first length test"
		c.Res.Extra = map[string]interface{}{}
		r := c.Rng.Fork()
		sec := []byte("s3cr3t")
		n := c.N(1500, 40000)
		req := append([]byte{1, 7, 0, 20}, r.Bytes(16)...)
		for i := 0; i < n; i++ {
			var d []byte
			tag := ""
			switch i % 3 {
			case 0:
				ln := r.Intn(60)
				if r.Intn(5) == 0 {
					ln = r.Intn(4201)
				}
				d = r.Bytes(ln)
				if ln >= 4 && r.Bool() {
					binary.BigEndian.PutUint16(d[2:4], uint16(r.Pick(ln, ln-1, 20, 21, ln/2+10)))
				}
				tag = "arbitrary"
			case 1:
				d, tag = genDatagram(r)
			default:
				d = hostileTyped(r)
				tag = "hostile-typed"
			}
			keep := append([]byte(nil), d...)
			step := new(string)
			var p *radius.Packet
			done := make(chan bool, 1)
			sub := r.Fork()
			go func() {
				done <- safely(func() { p = decodeSurface(c, sub, d, sec, req, step) })
			}()
			select {
			case panicked := <-done:
				if panicked {
					c.Fail("spec", *step, "c02-panic", hx(keep), "panic", "a value or an error", "no decoding entry point panics")
				}
			case <-time.After(10 * time.Second):
				c.Fail("spec", *step, "c02-hang", hx(keep), "no return within 10 s", "bounded time", "every decoding entry point returns in bounded time")
				c.Flush()
				return
			}
			if !bytes.Equal(d, keep) {
				c.Fail("spec", "decode surface", "c02-input-modified", hx(keep), hx(d), "unchanged", "")
			}
			t := implParse(append([]byte(nil), keep...), sec)
			if p != nil {
				tag += "+parsed"
			}
			c.Add(T(Req{Name: "parse", Bs: [][]byte{keep, sec}}, t, tag))
			if p != nil && len(p.Attributes) > 0 {
				hostileHelperCase(c, r, p, sec)
			}
		}
		// valid Tunnel-Password encryptions whose embedded length octet is set to every interesting value
		// (only reachable with the right secret: random bytes never get there)
		for i := 0; i < c.N(300, 6000); i++ {
			pw := r.Bytes(r.Pick(0, 1, 14, 15, 16, 30, 31, 32, 100, 239))
			salt := []byte{0x80 | byte(r.Intn(128)), byte(r.Intn(256))}
			tsec, ra := r.Bytes(1+r.Intn(8)), r.Bytes(16)
			a, err := radius.NewTunnelPassword(pw, salt, tsec, ra)
			if err != nil {
				continue
			}
			plain := len(a) - 2 // decrypted size, length octet included
			want := r.Pick(plain-2, plain-1, plain, plain+1, 0, 255, r.Intn(256))
			a[2] ^= byte(len(pw)) ^ byte(want)
			keep := append([]byte(nil), a...)
			if safely(func() { radius.TunnelPassword(a, tsec, ra) }) {
				c.Fail("spec", "radius.TunnelPassword", "c02-panic", fmt.Sprintf("attribute %x secret %x authenticator %x (embedded length %d of %d decrypted bytes)", keep, tsec, ra, want&0xff, plain), "panic", "a value or an error", "no decoding entry point panics")
			}
			c.Add(T(Req{Name: "tp", Bs: [][]byte{keep, tsec, ra}}, implTP(keep, tsec, ra), "crafted-tunnel-password"))
			// the same through a parsed packet and the generated getter
			p := &radius.Packet{Code: 2, Identifier: 1, Secret: tsec}
			copy(p.Authenticator[:], ra)
			p.Add(69, append([]byte{1}, keep...))
			q := &radius.Packet{Code: 1, Secret: tsec}
			copy(q.Authenticator[:], ra)
			for _, h := range registry {
				if h.Pkg == "rfc2868" && h.Ident == "TunnelPassword" {
					if safely(func() { h.Lookup(p, q); h.Gets(p, q) }) {
						c.Fail("spec", "rfc2868.TunnelPassword_Lookup", "c02-panic", fmt.Sprintf("attribute %x", keep), "panic", "a value or an error", "no generated getter panics")
					}
				}
			}
		}
		serverFlood(c, r, c.N(400, 6000))
		runSubScenario(c, "c02-flood-skipverify", "PacketServer with InsecureSkipVerify fed datagrams of every length 0..23, garbage and malformed packets, between valid requests",
			"a packet server fed arbitrary datagrams keeps serving (no panic in the serve loop, no hang), also when it does not verify requests")
		c.Flush()
		var need []string
		for _, k := range []string{"arbitrary", "hostile-typed+parsed", "valid+parsed", "server-flood", "server-dispatched", "server-truncated-after-longer", "crafted-tunnel-password"} {
			need = append(need, k)
		}
		hh := false
		for k := range c.Res.Tags {
			if strings.HasPrefix(k, "hostile-helper/") {
				hh = true
			}
		}
		if !hh {
			need = append(need, "hostile-helper/*")
		}
		c.RequireTags(need...)
	}
}

// a server that does not verify requests (InsecureSkipVerify) sees every datagram, however short, in its parser:
// runs in a child process because a panic in the serve loop cannot be recovered
func scenarioFloodSkipVerify() (bool, string) {
	sec := []byte("flood-secret")
	pc, err := net.ListenPacket("udp", "127.0.0.1:0")
	if err != nil {
		return true, "skipped: " + err.Error()
	}
	srv := &radius.PacketServer{
		SecretSource: radius.StaticSecretSource(sec),
		Handler: radius.HandlerFunc(func(w radius.ResponseWriter, req *radius.Request) {
			w.Write(req.Response(radius.CodeAccessAccept))
		}),
		InsecureSkipVerify: true,
		ErrorLog:           log.New(io.Discard, "", 0),
	}
	go srv.Serve(pc)
	cl, err := net.Dial("udp", pc.LocalAddr().String())
	if err != nil {
		return true, "skipped: " + err.Error()
	}
	defer cl.Close()
	r := NewRng(77)
	buf := make([]byte, 4096)
	for i := 0; i < 400; i++ {
		var d []byte
		switch i % 5 {
		case 0:
			d = r.Bytes(i / 5 % 24) // every length 0..23
		case 1:
			d = r.Bytes(r.Intn(80))
		case 2:
			d, _ = genDatagram(r)
		case 3:
			d = hostileTyped(r)
		default:
			p := radius.New(radius.CodeAccessRequest, sec)
			p.Identifier = byte(i)
			p.Add(1, radius.Attribute("u"))
			d, _ = p.Encode()
			cl.Write(d)
			if err := awaitReply(cl, buf, d[1], 3*time.Second); err != nil {
				return false, fmt.Sprintf("after %d datagrams (lengths 0..23, garbage, malformed) the non-verifying server no longer answers a valid request: %v", i, err)
			}
			continue
		}
		cl.Write(d)
		cl.SetReadDeadline(time.Now().Add(2 * time.Millisecond))
		cl.Read(buf)
	}
	ctx, cancel := context.WithTimeout(context.Background(), 5*time.Second)
	defer cancel()
	srv.Shutdown(ctx)
	return true, ""
}

func init() { scenarios["c02-flood-skipverify"] = scenarioFloodSkipVerify }
