package main

import (
	"bytes"
	"context"
	"errors"
	"fmt"
	"net"
	"os"
	"runtime"
	"strings"
	"sync"
	"sync/atomic"
	"syscall"
	"time"

	"layeh.com/radius"
)

// goroutines currently inside Client.Exchange or started by it
func exchangeGoroutines() int {
	buf := make([]byte, 1<<20)
	n := runtime.Stack(buf, true)
	cnt := 0
	for _, g := range strings.Split(string(buf[:n]), "\n\n") {
		if strings.Contains(g, "layeh.com/radius.(*Client).Exchange") {
			cnt++
		}
	}
	return cnt
}

type c08Scenario struct {
	name    string
	peer    string // silent, garbage, late, closed
	retry   time.Duration
	max     int
	cancel  string // none, before, after-first, deadline
	replyAt int    // reply after this many received datagrams (late)
}

func runC08(c *Ctx, r *Rng, sc c08Scenario, idx int) {
	sec := []byte("s8")
	req := &radius.Packet{Code: radius.CodeAccessRequest, Identifier: byte(idx), Secret: sec}
	copy(req.Authenticator[:], r.Bytes(16))
	req.Add(1, []byte("u"))
	wire, _ := req.Encode()
	wireParsed, _ := radius.Parse(wire, sec)

	pc, err := net.ListenPacket("udp", "127.0.0.1:0")
	if err != nil {
		return
	}
	addr := pc.LocalAddr().String()
	if sc.peer == "closed" {
		pc.Close()
	} else {
		defer pc.Close()
	}
	var mu sync.Mutex
	var got [][]byte
	var gotAt []time.Time
	var clientAddr net.Addr
	firstSeen := make(chan struct{})
	stopPeer := make(chan struct{})
	var peerWG sync.WaitGroup
	var sentDatagrams [][]byte // datagrams the peer sent, in order
	peerRng := r.Fork()        // the peer goroutine draws from its own generator
	if sc.peer != "closed" {
		peerWG.Add(1)
		go func() {
			defer peerWG.Done()
			buf := make([]byte, 4096)
			once := false
			for {
				pc.SetReadDeadline(time.Now().Add(20 * time.Millisecond))
				n, a, err := pc.ReadFrom(buf)
				select {
				case <-stopPeer:
					return
				default:
				}
				if err != nil {
					continue
				}
				mu.Lock()
				got = append(got, append([]byte(nil), buf[:n]...))
				gotAt = append(gotAt, time.Now())
				clientAddr = a
				cnt := len(got)
				mu.Unlock()
				if !once {
					once = true
					close(firstSeen)
				}
				switch sc.peer {
				case "stream":
					// from the first request on, a steady stream of well-formed but wrongly signed replies, faster
					// than the retransmission interval
					if cnt == 1 {
						peerWG.Add(1)
						go func() {
							defer peerWG.Done()
							tick := time.NewTicker(sc.retry / 4)
							defer tick.Stop()
							for {
								select {
								case <-stopPeer:
									return
								case <-tick.C:
									pc.WriteTo(mkReply(peerRng, "wrong-secret", wireParsed, wire, sec, 7), a)
								}
							}
						}()
					}
				case "garbage":
					for k := 0; k < 5; k++ {
						d := peerRng.Bytes(1 + peerRng.Intn(40))
						mu.Lock()
						sentDatagrams = append(sentDatagrams, d)
						mu.Unlock()
						pc.WriteTo(d, a)
					}
				case "late":
					if cnt == sc.replyAt {
						d := mkReply(peerRng, "authentic", wireParsed, wire, sec, 1)
						mu.Lock()
						sentDatagrams = append(sentDatagrams, d)
						mu.Unlock()
						pc.WriteTo(d, a)
					}
				}
			}
		}()
	}
	base := exchangeGoroutines()
	ctx := context.Background()
	var cancel context.CancelFunc = func() {}
	switch sc.cancel {
	case "before":
		ctx, cancel = context.WithCancel(ctx)
		cancel()
	case "after-first":
		ctx, cancel = context.WithCancel(ctx)
	case "after-first-cause":
		var cc context.CancelCauseFunc
		ctx, cc = context.WithCancelCause(ctx)
		cancel = func() { cc(errors.New("caller's own reason")) }
	case "deadline-cause":
		ctx, cancel = context.WithTimeoutCause(ctx, 60*time.Millisecond, errors.New("caller's own deadline reason"))
	case "deadline":
		ctx, cancel = context.WithTimeout(ctx, 60*time.Millisecond)
	case "deadline-short":
		ctx, cancel = context.WithTimeout(ctx, time.Duration(15+r.Intn(25))*time.Millisecond)
	case "deadline-long":
		ctx, cancel = context.WithTimeout(ctx, 400*time.Millisecond)
	case "none":
		ctx, cancel = context.WithTimeout(ctx, 5*time.Second) // safety net only
	}
	var cancelAt time.Time
	if sc.cancel == "after-first" || sc.cancel == "after-first-cause" {
		delay := time.Duration(5+r.Intn(30)) * time.Millisecond
		go func() {
			select {
			case <-firstSeen:
				time.Sleep(delay)
			case <-time.After(2 * time.Second):
			}
			cancelAt = time.Now()
			cancel()
		}()
	}
	cl := &radius.Client{Retry: sc.retry, MaxPacketErrors: sc.max}
	start := time.Now()
	var reply *radius.Packet
	var xerr error
	done := make(chan struct{})
	var panicked interface{}
	go func() {
		defer close(done)
		defer func() { panicked = recover() }()
		reply, xerr = cl.Exchange(ctx, req, addr)
	}()
	select {
	case <-done:
		if panicked != nil {
			c.Fail("spec", "Exchange", sc.name, fmt.Sprintf("%s retry=%v max=%d cancel=%s", sc.peer, sc.retry, sc.max, sc.cancel), fmt.Sprint("panic: ", panicked), "returns a packet or an error", "Exchange never panics")
			close(stopPeer)
			return
		}
	case <-time.After(8 * time.Second):
		c.Fail("spec", "Exchange", sc.name, fmt.Sprintf("%s retry=%v max=%d cancel=%s", sc.peer, sc.retry, sc.max, sc.cancel), "did not return within 8 s", "returns", "Exchange always returns: promptly after the context ends")
		close(stopPeer)
		return
	}
	retAt := time.Now()
	if dl, ok := ctx.Deadline(); ok && xerr != nil && !retAt.Before(dl.Add(-2*time.Millisecond)) {
		// returned at the deadline instant: the context's timer may need a moment to close Done
		select {
		case <-ctx.Done():
		case <-time.After(100 * time.Millisecond):
		}
	}
	parentErr := ctx.Err()
	defer cancel()

	// after return: nothing more is sent
	time.Sleep(40 * time.Millisecond)
	mu.Lock()
	nAtReturn := 0
	for _, t := range gotAt {
		if !t.After(retAt.Add(5 * time.Millisecond)) {
			nAtReturn++
		}
	}
	nTotal := len(got)
	gotCopy := append([][]byte(nil), got...)
	ca := clientAddr
	mu.Unlock()
	key := fmt.Sprintf("%s retry=%v max=%d cancel=%s", sc.peer, sc.retry, sc.max, sc.cancel)
	if nTotal > nAtReturn {
		c.Fail("spec", "Exchange", sc.name, key, fmt.Sprintf("%d datagrams arrived after Exchange returned", nTotal-nAtReturn), "0", "after it returns it sends nothing more")
	}
	// retransmissions are byte-identical
	for _, g := range gotCopy {
		if !bytes.Equal(g, wire) {
			c.Fail("spec", "Exchange", sc.name, key, hx(g), hx(wire), "every transmission is the byte-identical request")
			break
		}
	}
	if sc.retry <= 0 && sc.peer != "closed" && len(gotCopy) != 1 && sc.cancel != "before" {
		c.Fail("spec", "Exchange", sc.name, key, fmt.Sprintf("%d datagrams", len(gotCopy)), "1", "no retransmission when the interval is zero or negative")
	}
	if parentErr != nil && xerr != nil && xerr != parentErr && xerr == context.Cause(ctx) {
		c.Fail("spec", "Exchange", sc.name, key, fmt.Sprintf("%T: %v", xerr, xerr), fmt.Sprintf("%T: %v", parentErr, parentErr), "when the context has ended the call returns the context's own error (ctx.Err()), not the cause the caller attached to it")
	}
	if parentErr != nil && xerr != nil && xerr != parentErr && sc.peer != "closed" && reply == nil {
		if _, nonAuth := xerr.(*radius.NonAuthenticResponseError); !nonAuth && (sc.peer == "silent" || sc.peer == "stream") {
			// the peer is reachable and sent nothing acceptable; the only reason to return is the context
			c.Fail("spec", "Exchange", sc.name, key, fmt.Sprintf("%T: %v", xerr, xerr), fmt.Sprintf("%T: %v", parentErr, parentErr), "after the context's deadline has passed the call returns the context's own error, not a socket timeout or any other error that merely coincides with it")
		}
	}
	if sc.name == "silent-interval" || sc.name == "stream-interval" {
		// while it waits it keeps retransmitting at the configured interval: a generous lower bound (a third of the
		// nominal count) separates a steady ticker from one that slows down or stops
		waited := retAt.Sub(start)
		minN := int(waited/sc.retry) / 3
		if len(gotCopy) < minN {
			c.Fail("spec", "Exchange", sc.name, key, fmt.Sprintf("%d datagrams in %v", len(gotCopy), waited), fmt.Sprintf(">= %d (interval %v)", minN, sc.retry), "while it waits it retransmits the request at the configured interval")
		}
	}
	if sc.name == "closed-port-prompt" {
		if xerr == nil || errors.Is(xerr, context.DeadlineExceeded) || retAt.Sub(start) > 2*time.Second {
			c.Fail("spec", "Exchange", sc.name, key, fmt.Sprintf("%v after %v", xerr, retAt.Sub(start)), "the network error, promptly", "Exchange returns with the network error when the peer is unreachable (the loopback interface reports the closed port)")
		}
	}
	if sc.retry > 0 && sc.peer == "silent" && sc.cancel == "after-first" {
		// roughly one per interval while waiting (generous bounds)
		waited := retAt.Sub(start)
		maxN := int(waited/sc.retry) + 2
		if len(gotCopy) > maxN {
			c.Fail("spec", "Exchange", sc.name, key, fmt.Sprintf("%d datagrams in %v", len(gotCopy), waited), fmt.Sprintf("<= %d", maxN), "retransmits at the configured interval")
		}
	}
	// the socket is closed: the client's port no longer accepts datagrams
	if ca != nil && sc.peer != "closed" {
		probe, err := net.Dial("udp", ca.String())
		if err == nil {
			probe.Write([]byte{0})
			probe.SetReadDeadline(time.Now().Add(30 * time.Millisecond))
			_, rerr := probe.Read(make([]byte, 8))
			probe.Close()
			if rerr == nil || !(errors.Is(rerr, syscall.ECONNREFUSED) || os.IsTimeout(rerr)) {
				c.Note("probe of the client port: %v", rerr)
			}
			if rerr != nil && os.IsTimeout(rerr) {
				// no ICMP answer: the port may still be bound; check again through the goroutine profile below
			}
		}
	}
	// no goroutine started by Exchange survives
	deadline := time.Now().Add(2 * time.Second)
	for exchangeGoroutines() > base && time.Now().Before(deadline) {
		time.Sleep(2 * time.Millisecond)
	}
	if n := exchangeGoroutines(); n > base {
		c.Fail("spec", "Exchange", sc.name, key, fmt.Sprintf("%d goroutines of Exchange still alive 2 s after return", n-base), "0", "no goroutine it started survives")
	}
	// result class
	t := &Toks{}
	class := 9
	switch {
	case xerr == nil && reply != nil:
		class = 0
		t.I(0)
		tPacket(t, reply)
	case errors.Is(xerr, context.Canceled) || errors.Is(xerr, context.DeadlineExceeded):
		class = 2
		t.I(2)
		if parentErr == nil {
			c.Fail("spec", "Exchange", sc.name, key, xerr.Error(), "not a context error", "the context's own error only when the context ended")
		} else if xerr != parentErr {
			c.Fail("spec", "Exchange", sc.name, key, fmt.Sprintf("%T: %v", xerr, xerr), fmt.Sprintf("%T: %v", parentErr, parentErr), "when the context has ended the call returns the context's own error, not an error that merely wraps or resembles it")
		}
	default:
		if _, ok := xerr.(*radius.NonAuthenticResponseError); ok {
			class = 1
			t.I(1).I(9)
		} else if ne, ok := xerr.(net.Error); ok || errors.As(xerr, &ne) {
			class = 3
			t.I(3)
		} else {
			class = 1
			t.I(1).I(errClass(xerr))
		}
	}
	// promptness of cancellation (generous)
	if sc.cancel == "after-first" && class == 2 && !cancelAt.IsZero() && retAt.Sub(cancelAt) > 500*time.Millisecond {
		c.Fail("spec", "Exchange", sc.name, key, fmt.Sprintf("returned %v after cancellation", retAt.Sub(cancelAt)), "promptly", "returns the context's error promptly after cancellation")
	}
	if sc.cancel == "deadline" && class == 2 && retAt.Sub(start) > 800*time.Millisecond {
		c.Fail("spec", "Exchange", sc.name, key, fmt.Sprintf("returned after %v with a 60 ms deadline", retAt.Sub(start)), "promptly", "deadline")
	}
	// model events for this run
	var evs []int
	var dbs [][]byte
	evs = append(evs, 0) // encode
	if sc.cancel == "before" {
		evs = append(evs, 5)
	}
	mu.Lock()
	sd := append([][]byte(nil), sentDatagrams...)
	mu.Unlock()
	switch {
	case sc.cancel == "before" && len(gotCopy) == 0:
		evs = append(evs, 1) // dial failed because the context had ended
	default:
		evs = append(evs, 0) // dial ok, first write
		for i := 1; i < len(gotCopy); i++ {
			evs = append(evs, 4)
		}
		consumed := 0
		if class == 0 || class == 1 {
			// datagrams were consumed up to the deciding one; replay all that were sent (the model stops at the return)
			for _, d := range sd {
				evs = append(evs, 2)
				dbs = append(dbs, d)
				consumed++
			}
		} else if sc.max == 0 || sc.peer == "garbage" {
			for _, d := range sd {
				if sc.max > 0 {
					break
				}
				evs = append(evs, 2)
				dbs = append(dbs, d)
			}
		}
		if class == 2 {
			if sc.cancel != "before" {
				evs = append(evs, 5)
			}
			evs = append(evs, 6, 0)
		}
		if class == 3 {
			evs = append(evs, 3)
		}
	}
	rq := Req{Name: "exchange"}
	rq.Zs = []string{Z(int64(sc.retry / time.Millisecond)), Z(int64(sc.max)), Z(0), Z(int64(len(evs)))}
	for _, e := range evs {
		rq.Zs = append(rq.Zs, Z(int64(e)))
	}
	rq.Bs = append(rq.Bs, dbs...)
	m := &mpkt{code: 1, ident: req.Identifier, auth: req.Authenticator, sec: sec, attrs: []aop{{0, 1, []byte("u")}}}
	pr := m.req("x")
	rq.Zs = append(rq.Zs, pr.Zs...)
	rq.Bs = append(rq.Bs, pr.Bs...)
	nsent := len(gotCopy)
	if sc.peer == "closed" {
		nsent = 1 // nobody listens: the model still counts the write
	}
	if sc.cancel == "before" && len(gotCopy) == 0 && class == 2 {
		nsent = 0
	}
	t.I(int64(nsent)).I(1)
	cs := Case{Req: rq, Impl: t.String(), Tag: sc.name, NoSpec: true, Desc: key}
	if (sc.peer == "garbage" && sc.max > 0 && class == 1) || sc.peer == "stream" || strings.HasSuffix(sc.cancel, "-cause") {
		// which garbage datagram tipped the budget depends on arrival timing relative to reads; class only
		c.Count(sc.name, key)
	} else {
		c.Add(cs)
	}
	close(stopPeer)
	peerWG.Wait()
}

// does a write to a closed UDP port on loopback come back as ECONNREFUSED here?
func loopbackRefuses() bool {
	pc, err := net.ListenPacket("udp", "127.0.0.1:0")
	if err != nil {
		return false
	}
	addr := pc.LocalAddr().String()
	pc.Close()
	cn, err := net.Dial("udp", addr)
	if err != nil {
		return false
	}
	defer cn.Close()
	for i := 0; i < 3; i++ {
		cn.Write([]byte{0})
		cn.SetReadDeadline(time.Now().Add(200 * time.Millisecond))
		if _, err := cn.Read(make([]byte, 8)); err != nil && errors.Is(err, syscall.ECONNREFUSED) {
			return true
		}
	}
	return false
}

func init() {
	props["C08"] = func(c *Ctx) {
		c.Res.Rule = "real Client.Exchange over loopback UDP: peer behaviour {silent, garbage flood, steady stream of wrongly signed replies faster than Retry, late authentic reply, closed port} x Retry {-1, 0, 5 ms, 1 h} x MaxPacketErrors {0, 3} x cancellation {none, before the call, after the first datagram, deadline; the last two also with a caller-supplied cause}, plus a burst of 30 (200) exchanges with 15..40 ms deadlines against a silent peer. Checked directly: return class, context error only when the context ended and promptly (generous bounds), byte-identical retransmissions, exactly one transmission for Retry <= 0, nothing sent after return, no goroutine of Exchange alive after return; the run is translated into an event sequence of the lifecycle model and the model's result compared. non-trivial = run with a cancellation or more than one transmission"
		r := c.Rng.Fork()
		retries := []time.Duration{-1, 0, 5 * time.Millisecond, time.Hour}
		var scs []c08Scenario
		for _, rt := range retries {
			scs = append(scs,
				c08Scenario{"silent-cancel", "silent", rt, 0, "after-first", 0},
				c08Scenario{"silent-deadline", "silent", rt, 3, "deadline", 0},
				c08Scenario{"flood-cancel", "garbage", rt, 0, "after-first", 0},
				c08Scenario{"flood-budget", "garbage", rt, 3, "none", 0},
				c08Scenario{"late-reply", "late", rt, 0, "none", 1},
				c08Scenario{"closed-port", "closed", rt, 0, "deadline", 0},
				c08Scenario{"expired-before", "silent", rt, 0, "before", 0},
			)
		}
		scs = append(scs, c08Scenario{"late-reply-after-retries", "late", 5 * time.Millisecond, 0, "none", 3})
		scs = append(scs, c08Scenario{"silent-interval", "silent", 10 * time.Millisecond, 0, "deadline-long", 0})
		scs = append(scs, c08Scenario{"stream-interval", "stream", 12 * time.Millisecond, 0, "deadline-long", 0})
		scs = append(scs, c08Scenario{"cancel-with-cause", "silent", 5 * time.Millisecond, 0, "after-first-cause", 0})
		scs = append(scs, c08Scenario{"deadline-with-cause", "silent", 0, 0, "deadline-cause", 0})
		if loopbackRefuses() {
			scs = append(scs,
				c08Scenario{"closed-port-prompt", "closed", 0, 0, "none", 0},
				c08Scenario{"closed-port-prompt", "closed", 50 * time.Millisecond, 0, "none", 0})
		} else {
			c.Note("loopback does not report closed UDP ports here: the 'network error' clause is not exercised")
		}
		reps := c.N(1, 8)
		idx := 0
		// many short deadlines against a silent peer: every one must end with the context's own error
		for k := 0; k < c.N(30, 200); k++ {
			runC08(c, r, c08Scenario{"deadline-burst", "silent", 0, 0, "deadline-short", 0}, idx)
			idx++
		}
		for rep := 0; rep < reps; rep++ {
			for _, sc := range scs {
				runC08(c, r, sc, idx)
				idx++
			}
		}
		retransmitsUntilDeadline(c, r)
		c.Trivial("closed-port")
		c.Flush()
		c.RequireTags("retransmits-until-deadline", "silent-cancel", "silent-deadline", "flood-cancel", "late-reply", "expired-before", "late-reply-after-retries", "silent-interval", "stream-interval", "cancel-with-cause", "deadline-with-cause", "deadline-burst")
	}
}

// A retry interval together with a context deadline: the peer answers the fourth transmission only, which falls
// into the last interval before the deadline (retry 200 ms, deadline 700 ms: transmissions at 0, 200, 400, 600 ms).
// The exchange succeeds. A loaded machine can delay a tick; three attempts, one success is enough.
func retransmitsUntilDeadline(c *Ctx, r *Rng) {
	sec := []byte("s8")
	var lastCopies int
	var lastErr error
	for attempt := 0; attempt < 3; attempt++ {
		req := &radius.Packet{Code: radius.CodeAccessRequest, Identifier: byte(200 + attempt), Secret: sec}
		copy(req.Authenticator[:], r.Bytes(16))
		req.Add(1, []byte("u"))
		wire, _ := req.Encode()
		wireParsed, _ := radius.Parse(wire, sec)
		pc, err := net.ListenPacket("udp", "127.0.0.1:0")
		if err != nil {
			c.Note("retransmits-until-deadline skipped: %v", err)
			c.TagOnly("retransmits-until-deadline")
			return
		}
		var copies int32
		stop := make(chan struct{})
		peerDone := make(chan struct{})
		peerRng := r.Fork()
		go func() {
			defer close(peerDone)
			buf := make([]byte, 4096)
			for {
				pc.SetReadDeadline(time.Now().Add(20 * time.Millisecond))
				_, a, err := pc.ReadFrom(buf)
				select {
				case <-stop:
					return
				default:
				}
				if err != nil {
					continue
				}
				if atomic.AddInt32(&copies, 1) == 4 {
					pc.WriteTo(mkReply(peerRng, "authentic", wireParsed, wire, sec, 1), a)
				}
			}
		}()
		ctx, cancel := context.WithTimeout(context.Background(), 700*time.Millisecond)
		cl := &radius.Client{Retry: 200 * time.Millisecond}
		reply, xerr := cl.Exchange(ctx, req, pc.LocalAddr().String())
		cancel()
		close(stop)
		<-peerDone
		pc.Close()
		lastCopies, lastErr = int(atomic.LoadInt32(&copies)), xerr
		if xerr == nil && reply != nil {
			c.Count("retransmits-until-deadline", fmt.Sprint(attempt))
			return
		}
	}
	c.Fail("spec", "Exchange", "retransmits-until-deadline", "retry=200ms, context deadline 700ms, the peer answers the 4th transmission only (3 attempts)", fmt.Sprintf("%v after %d transmissions", lastErr, lastCopies), "the reply, after 4 transmissions (0, 200, 400, 600 ms)", "while it waits it retransmits the request at the configured interval - until the context ends, not only while a whole interval remains")
}
