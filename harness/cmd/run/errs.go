package main

import "strings"

// errClass maps an error of the radius package to the model's error enum
// (coq/Base/Res.v). Error text is never compared beyond this mapping.
func errClass(err error) int64 {
	if err == nil {
		return 0
	}
	s := err.Error()
	switch {
	case strings.Contains(s, "not at least 20 bytes"):
		return 1
	case strings.Contains(s, "invalid packet length"):
		return 2
	case s == "short buffer":
		return 3
	case s == "invalid attribute length":
		return 4
	case strings.Contains(s, "attribute too large"):
		return 5
	case strings.Contains(s, "packet is too large"):
		return 6
	case strings.Contains(s, "unknown Packet Code"):
		return 7
	}
	return 8
}
