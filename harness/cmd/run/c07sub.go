package main

import (
	"context"
	"fmt"
	"io"
	"log"
	"net"
	"os"
	"os/exec"
	"runtime"
	"strings"
	"sync/atomic"
	"time"

	"layeh.com/radius"
)

type closedErr struct{}

func (closedErr) Error() string   { return "use of closed network connection" }
func (closedErr) Timeout() bool   { return false }
func (closedErr) Temporary() bool { return false }

// a listener whose 1st ReadFrom delivers one datagram and whose 2nd ReadFrom - in Serve's own goroutine,
// right after the datagram's goroutine was spawned - requests Shutdown with an already cancelled context
type inlineShutdownConn struct {
	reads    int
	datagram []byte
	srv      *radius.PacketServer
	sdErr    error
	closed   int32
}

func (c *inlineShutdownConn) ReadFrom(p []byte) (int, net.Addr, error) {
	c.reads++
	if c.reads == 1 {
		return copy(p, c.datagram), &net.UDPAddr{IP: net.IPv4(10, 0, 0, 1), Port: 1000}, nil
	}
	if c.reads == 2 {
		ctx, cancel := context.WithCancel(context.Background())
		cancel()
		c.sdErr = c.srv.Shutdown(ctx)
	}
	return 0, nil, closedErr{}
}
func (c *inlineShutdownConn) WriteTo(p []byte, addr net.Addr) (int, error) { return len(p), nil }
func (c *inlineShutdownConn) Close() error                                 { atomic.StoreInt32(&c.closed, 1); return nil }
func (c *inlineShutdownConn) LocalAddr() net.Addr {
	return &net.UDPAddr{IP: net.IPv4(127, 0, 0, 1), Port: 1812}
}
func (c *inlineShutdownConn) SetDeadline(time.Time) error      { return nil }
func (c *inlineShutdownConn) SetReadDeadline(time.Time) error  { return nil }
func (c *inlineShutdownConn) SetWriteDeadline(time.Time) error { return nil }

// Schedule: datagram received -> (its goroutine not yet scheduled: one P, Serve called synchronously) -> Shutdown
// requested -> Serve returns -> Shutdown(Background). That call may return nil only after the handler of the
// datagram received before the request has finished.
func scenarioReceivedBeforeShutdown() (bool, string) {
	runtime.GOMAXPROCS(1)
	secret := []byte("s3cr3t")
	var started, finished int32
	srv := &radius.PacketServer{
		ErrorLog:     log.New(io.Discard, "", 0),
		SecretSource: radius.StaticSecretSource(secret),
		Handler: radius.HandlerFunc(func(w radius.ResponseWriter, r *radius.Request) {
			atomic.StoreInt32(&started, 1)
			time.Sleep(20 * time.Millisecond)
			atomic.StoreInt32(&finished, 1)
		}),
	}
	b, _ := radius.New(radius.CodeAccessRequest, secret).Encode()
	conn := &inlineShutdownConn{datagram: b, srv: srv}
	if err := srv.Serve(conn); err != radius.ErrServerShutdown {
		return false, fmt.Sprintf("Serve = %v, want ErrServerShutdown", err)
	}
	if conn.sdErr != context.Canceled {
		return false, fmt.Sprintf("Shutdown with a cancelled context while a received datagram is pending = %v, want context.Canceled", conn.sdErr)
	}
	if atomic.LoadInt32(&conn.closed) != 1 {
		return false, "listener not closed by Shutdown"
	}
	err := srv.Shutdown(context.Background())
	st, fi := atomic.LoadInt32(&started), atomic.LoadInt32(&finished)
	if err != nil {
		return false, fmt.Sprintf("second Shutdown = %v, want nil", err)
	}
	if fi != 1 {
		return false, fmt.Sprintf("Shutdown returned nil but the handler of a datagram received before the request had not finished (started=%d finished=%d)", st, fi)
	}
	time.Sleep(100 * time.Millisecond) // a late double close would panic here
	return true, ""
}

// a listener shared by two Serve calls: ReadFrom hands one permanent error to whoever reads first, then blocks until closed
type sharedConn struct {
	errOnce  chan struct{}
	closed   chan struct{}
	nclose   int32
	plain    bool  // after Close, ReadFrom fails with an error that is not a net.Error
	closeErr error // what Close reports (the listener is closed all the same)
}

func (c *sharedConn) ReadFrom(p []byte) (int, net.Addr, error) {
	select {
	case <-c.errOnce:
		return 0, nil, &net.OpError{Op: "read", Net: "udp", Err: fmt.Errorf("permanent failure")}
	case <-c.closed:
		if c.plain {
			return 0, nil, io.ErrClosedPipe
		}
		return 0, nil, closedErr{}
	}
}
func (c *sharedConn) WriteTo(p []byte, addr net.Addr) (int, error) { return len(p), nil }
func (c *sharedConn) Close() error {
	if atomic.AddInt32(&c.nclose, 1) == 1 {
		close(c.closed)
	}
	return c.closeErr
}
func (c *sharedConn) LocalAddr() net.Addr {
	return &net.UDPAddr{IP: net.IPv4(127, 0, 0, 1), Port: 1812}
}
func (c *sharedConn) SetDeadline(time.Time) error      { return nil }
func (c *sharedConn) SetReadDeadline(time.Time) error  { return nil }
func (c *sharedConn) SetWriteDeadline(time.Time) error { return nil }

// two Serve calls on one listener; one of them ends with a read error; Shutdown must still close the listener
// (it is still registered by the other call) and the other call must return ErrServerShutdown
func scenarioSharedListener() (bool, string) {
	srv := &radius.PacketServer{ErrorLog: log.New(io.Discard, "", 0), SecretSource: radius.StaticSecretSource([]byte("s")),
		Handler: radius.HandlerFunc(func(w radius.ResponseWriter, r *radius.Request) {})}
	conn := &sharedConn{errOnce: make(chan struct{}, 1), closed: make(chan struct{})}
	r1, r2 := make(chan error, 1), make(chan error, 1)
	go func() { r1 <- srv.Serve(conn) }()
	go func() { r2 <- srv.Serve(conn) }()
	time.Sleep(50 * time.Millisecond) // both are reading
	conn.errOnce <- struct{}{}
	var first error
	var other chan error
	select {
	case first = <-r1:
		other = r2
	case first = <-r2:
		other = r1
	case <-time.After(3 * time.Second):
		return false, "no Serve call returned after a permanent read error"
	}
	if first == nil || first == radius.ErrServerShutdown {
		return false, fmt.Sprintf("the Serve call that got the read error returned %v", first)
	}
	ctx, cancel := context.WithTimeout(context.Background(), 3*time.Second)
	defer cancel()
	err := srv.Shutdown(ctx)
	if atomic.LoadInt32(&conn.nclose) == 0 {
		return false, fmt.Sprintf("Shutdown (= %v) did not close a listener that a running Serve call still uses", err)
	}
	select {
	case e := <-other:
		if e != radius.ErrServerShutdown {
			return false, fmt.Sprintf("the remaining Serve call returned %v, want ErrServerShutdown", e)
		}
	case <-time.After(3 * time.Second):
		return false, "the remaining Serve call did not return after Shutdown"
	}
	if err != nil {
		return false, fmt.Sprintf("Shutdown = %v, want nil", err)
	}
	return true, ""
}

// after Shutdown has closed the listener, whatever error ReadFrom then reports, Serve returns ErrServerShutdown
func scenarioPlainCloseError() (bool, string) {
	srv := &radius.PacketServer{ErrorLog: log.New(io.Discard, "", 0), SecretSource: radius.StaticSecretSource([]byte("s")),
		Handler: radius.HandlerFunc(func(w radius.ResponseWriter, r *radius.Request) {})}
	conn := &sharedConn{errOnce: make(chan struct{}, 1), closed: make(chan struct{}), plain: true}
	r1 := make(chan error, 1)
	go func() { r1 <- srv.Serve(conn) }()
	time.Sleep(50 * time.Millisecond)
	ctx, cancel := context.WithTimeout(context.Background(), 3*time.Second)
	defer cancel()
	err := srv.Shutdown(ctx)
	select {
	case e := <-r1:
		if e != radius.ErrServerShutdown {
			return false, fmt.Sprintf("Serve returned %v, want ErrServerShutdown", e)
		}
	case <-time.After(3 * time.Second):
		return false, fmt.Sprintf("Serve did not return after Shutdown (= %v) closed a listener whose read then fails with a plain error", err)
	}
	if err != nil {
		return false, fmt.Sprintf("Shutdown = %v, want nil", err)
	}
	return true, ""
}

func init() {
	scenarios["c07-received-before-shutdown"] = scenarioReceivedBeforeShutdown
	scenarios["c07-shared-listener"] = scenarioSharedListener
	scenarios["c07-plain-close-error"] = scenarioPlainCloseError
}

// runSubScenario runs a scenario in a child process; a crash of the child is a finding, not a crash of the harness
func runSubScenario(c *Ctx, name, what, law string) {
	cmd := exec.Command(os.Args[0], "-scenario", name)
	done := make(chan struct{})
	var out []byte
	var err error
	go func() { out, err = cmd.CombinedOutput(); close(done) }()
	select {
	case <-done:
	case <-time.After(30 * time.Second):
		cmd.Process.Kill()
		<-done
		c.Fail("spec", name, name, what, "no return within 30 s (deadlock)", "returns", law)
		return
	}
	s := string(out)
	if err == nil && strings.Contains(s, "SCENARIO-OK") {
		c.Count(name, name)
		return
	}
	msg := s
	if i := strings.Index(s, "SCENARIO-FAIL:"); i >= 0 {
		msg = s[i:]
	} else if i := strings.Index(s, "panic:"); i >= 0 {
		msg = s[i:]
	}
	c.Fail("spec", name, name, what, trunc(msg, 600), "SCENARIO-OK", law)
}

// a listener that delivers one datagram, waits for a signal and then fails for good (not a shutdown)
type failingConn struct {
	reads    int32
	datagram []byte
	fail     chan struct{}
}

func (c *failingConn) ReadFrom(p []byte) (int, net.Addr, error) {
	if atomic.AddInt32(&c.reads, 1) == 1 {
		return copy(p, c.datagram), &net.UDPAddr{IP: net.IPv4(10, 0, 0, 1), Port: 1000}, nil
	}
	<-c.fail
	return 0, nil, &net.OpError{Op: "read", Net: "udp", Err: fmt.Errorf("permanent failure")}
}
func (c *failingConn) WriteTo(p []byte, addr net.Addr) (int, error) { return len(p), nil }
func (c *failingConn) Close() error                                 { return nil }
func (c *failingConn) LocalAddr() net.Addr {
	return &net.UDPAddr{IP: net.IPv4(127, 0, 0, 1), Port: 1812}
}
func (c *failingConn) SetDeadline(time.Time) error      { return nil }
func (c *failingConn) SetReadDeadline(time.Time) error  { return nil }
func (c *failingConn) SetWriteDeadline(time.Time) error { return nil }

// Schedule: a handler is running and waits for its request context; the only Serve call ends on a permanent read
// error (no listener is registered any more); Shutdown. Shutdown must still cancel the request contexts, wait for
// the handler and return nil.
func scenarioServeEndedOnReadError() (bool, string) {
	secret := []byte("s3cr3t")
	started := make(chan struct{})
	var cancelled, finished int32
	srv := &radius.PacketServer{
		ErrorLog:     log.New(io.Discard, "", 0),
		SecretSource: radius.StaticSecretSource(secret),
		Handler: radius.HandlerFunc(func(w radius.ResponseWriter, r *radius.Request) {
			close(started)
			select {
			case <-r.Context().Done():
				atomic.StoreInt32(&cancelled, 1)
			case <-time.After(3 * time.Second):
			}
			atomic.StoreInt32(&finished, 1)
		}),
	}
	b, _ := radius.New(radius.CodeAccessRequest, secret).Encode()
	conn := &failingConn{datagram: b, fail: make(chan struct{})}
	serveErr := make(chan error, 1)
	go func() { serveErr <- srv.Serve(conn) }()
	select {
	case <-started:
	case <-time.After(3 * time.Second):
		return false, "handler never started"
	}
	close(conn.fail)
	var err error
	select {
	case err = <-serveErr:
	case <-time.After(3 * time.Second):
		return false, "Serve did not return after a permanent read error"
	}
	if err == nil || err == radius.ErrServerShutdown {
		return false, fmt.Sprintf("Serve = %v, want the read error", err)
	}
	ctx, cancel := context.WithTimeout(context.Background(), 1500*time.Millisecond)
	defer cancel()
	sdErr := srv.Shutdown(ctx)
	ca, fi := atomic.LoadInt32(&cancelled), atomic.LoadInt32(&finished)
	if sdErr != nil || ca != 1 || fi != 1 {
		return false, fmt.Sprintf("after the only Serve call ended on a read error with a handler still waiting for its context: Shutdown = %v, request context cancelled = %d, handler finished = %d; want nil, 1, 1", sdErr, ca, fi)
	}
	// a later Serve returns ErrServerShutdown
	if err := srv.Serve(&failingConn{datagram: b, fail: make(chan struct{})}); err != radius.ErrServerShutdown {
		return false, fmt.Sprintf("Serve after Shutdown = %v, want ErrServerShutdown", err)
	}
	return true, ""
}

func init() { scenarios["c07-serve-ended-on-read-error"] = scenarioServeEndedOnReadError }

// Schedules in which a Serve call and a Shutdown call both wait for the server's mutex (held by the harness through
// the verif hook VerifHoldServer) and get it in a chosen order. sync.Mutex wakes its waiters first come, first
// served when nobody else competes. Either way the Serve call returns ErrServerShutdown and Shutdown returns nil
// only once that call is over.
func scenarioQueuedOnMutex() (bool, string) {
	for round := 0; round < 6; round++ {
		shutdownFirst := round%2 == 0
		conn := &sharedConn{errOnce: make(chan struct{}), closed: make(chan struct{})}
		srv := &radius.PacketServer{
			ErrorLog:     log.New(io.Discard, "", 0),
			SecretSource: radius.StaticSecretSource([]byte("s3cr3t")),
			Handler:      radius.HandlerFunc(func(w radius.ResponseWriter, r *radius.Request) {}),
		}
		release := radius.VerifHoldServer(srv)
		serveErr, sdErr := make(chan error, 1), make(chan error, 1)
		serve := func() { serveErr <- srv.Serve(conn) }
		shut := func() { sdErr <- srv.Shutdown(context.Background()) }
		first, second := serve, shut
		if shutdownFirst {
			first, second = shut, serve
		}
		go first()
		time.Sleep(30 * time.Millisecond) // now queued on the mutex
		go second()
		time.Sleep(30 * time.Millisecond)
		release()
		what := fmt.Sprintf("round %d (Shutdown queued on the server's mutex %s a Serve call)", round, map[bool]string{true: "before", false: "after"}[shutdownFirst])
		select {
		case err := <-sdErr:
			if err != nil {
				return false, fmt.Sprintf("%s: Shutdown(Background) = %v, want nil", what, err)
			}
		case <-time.After(5 * time.Second):
			return false, what + ": Shutdown(Background) did not return"
		}
		// Shutdown has returned nil: the Serve call is over (its return value is delivered by another goroutine)
		select {
		case err := <-serveErr:
			if err != radius.ErrServerShutdown {
				return false, fmt.Sprintf("%s: Serve = %v, want ErrServerShutdown", what, err)
			}
		case <-time.After(time.Second):
			return false, fmt.Sprintf("%s: Shutdown returned nil but the Serve call is still running one second later (Close was called %d times on its listener)", what, atomic.LoadInt32(&conn.nclose))
		}
		// (on a loaded machine the two goroutines may reach the mutex in the other order: either order is a legal
		// schedule and both must end as checked above; a listener is closed at most once)
		if n := atomic.LoadInt32(&conn.nclose); n > 1 {
			return false, fmt.Sprintf("%s: the listener was closed %d times, want at most once", what, n)
		}
	}
	return true, ""
}

func init() { scenarios["c07-queued-on-mutex"] = scenarioQueuedOnMutex }

// A listener whose Close reports an error (it is closed all the same, as a net.UDPConn closed twice is): Shutdown
// still closes every other registered listener, cancels the request contexts, waits for the handlers and the Serve
// calls and returns nil - the error of a listener is not the caller's context error.
func scenarioCloseError() (bool, string) {
	for round := 0; round < 4; round++ {
		a := &sharedConn{errOnce: make(chan struct{}), closed: make(chan struct{}), closeErr: fmt.Errorf("close: already closed")}
		b := &sharedConn{errOnce: make(chan struct{}), closed: make(chan struct{})}
		if round%2 == 1 {
			a, b = b, a // map iteration order decides which one Shutdown meets first; try both roles anyway
		}
		registered := make(chan struct{}, 4)
		radius.VerifHook = func(point string) {
			if point == "serve.registered" {
				registered <- struct{}{}
			}
		}
		srv := &radius.PacketServer{
			ErrorLog:     log.New(io.Discard, "", 0),
			SecretSource: radius.StaticSecretSource([]byte("s3cr3t")),
			Handler:      radius.HandlerFunc(func(w radius.ResponseWriter, r *radius.Request) {}),
		}
		errs := make(chan error, 2)
		go func() { errs <- srv.Serve(a) }()
		go func() { errs <- srv.Serve(b) }()
		for i := 0; i < 2; i++ {
			select {
			case <-registered:
			case <-time.After(3 * time.Second):
				return false, "a Serve call did not register its listener"
			}
		}
		sd := make(chan error, 1)
		go func() { sd <- srv.Shutdown(context.Background()) }()
		select {
		case err := <-sd:
			if err != nil {
				return false, fmt.Sprintf("round %d: two listeners, Close of one reports an error: Shutdown(Background) = %v, want nil (its context has not ended)", round, err)
			}
		case <-time.After(3 * time.Second):
			return false, fmt.Sprintf("round %d: two listeners, Close of one reports an error: Shutdown(Background) did not return (listeners closed: %d and %d times)", round, atomic.LoadInt32(&a.nclose), atomic.LoadInt32(&b.nclose))
		}
		for i := 0; i < 2; i++ {
			select {
			case err := <-errs:
				if err != radius.ErrServerShutdown {
					return false, fmt.Sprintf("round %d: Serve = %v, want ErrServerShutdown", round, err)
				}
			case <-time.After(time.Second):
				return false, fmt.Sprintf("round %d: Shutdown returned nil but a Serve call is still running", round)
			}
		}
		if atomic.LoadInt32(&a.nclose) == 0 || atomic.LoadInt32(&b.nclose) == 0 {
			return false, fmt.Sprintf("round %d: listeners closed %d and %d times, want every registered listener closed", round, atomic.LoadInt32(&a.nclose), atomic.LoadInt32(&b.nclose))
		}
		// a second Shutdown returns at once
		ctx, cancel := context.WithTimeout(context.Background(), time.Second)
		err := srv.Shutdown(ctx)
		cancel()
		if err != nil {
			return false, fmt.Sprintf("round %d: second Shutdown = %v, want nil", round, err)
		}
	}
	return true, ""
}

func init() { scenarios["c07-close-error"] = scenarioCloseError }
