package main

import (
	"context"
	"fmt"
	"io"
	"log"
	"net"
	"os"
	"os/exec"
	"runtime"
	"strings"
	"sync/atomic"
	"time"

	"layeh.com/radius"
)

type closedErr struct{}

func (closedErr) Error() string   { return "use of closed network connection" }
func (closedErr) Timeout() bool   { return false }
func (closedErr) Temporary() bool { return false }

// a listener whose 1st ReadFrom delivers one datagram and whose 2nd ReadFrom - in Serve's own goroutine,
// right after the datagram's goroutine was spawned - requests Shutdown with an already cancelled context
type inlineShutdownConn struct {
	reads    int
	datagram []byte
	srv      *radius.PacketServer
	sdErr    error
	closed   int32
}

func (c *inlineShutdownConn) ReadFrom(p []byte) (int, net.Addr, error) {
	c.reads++
	if c.reads == 1 {
		return copy(p, c.datagram), &net.UDPAddr{IP: net.IPv4(10, 0, 0, 1), Port: 1000}, nil
	}
	if c.reads == 2 {
		ctx, cancel := context.WithCancel(context.Background())
		cancel()
		c.sdErr = c.srv.Shutdown(ctx)
	}
	return 0, nil, closedErr{}
}
func (c *inlineShutdownConn) WriteTo(p []byte, addr net.Addr) (int, error) { return len(p), nil }
func (c *inlineShutdownConn) Close() error                                 { atomic.StoreInt32(&c.closed, 1); return nil }
func (c *inlineShutdownConn) LocalAddr() net.Addr                          { return &net.UDPAddr{IP: net.IPv4(127, 0, 0, 1), Port: 1812} }
func (c *inlineShutdownConn) SetDeadline(time.Time) error                  { return nil }
func (c *inlineShutdownConn) SetReadDeadline(time.Time) error              { return nil }
func (c *inlineShutdownConn) SetWriteDeadline(time.Time) error             { return nil }

// Schedule: datagram received -> (its goroutine not yet scheduled: one P, Serve called synchronously) -> Shutdown
// requested -> Serve returns -> Shutdown(Background). That call may return nil only after the handler of the
// datagram received before the request has finished.
func scenarioReceivedBeforeShutdown() (bool, string) {
	runtime.GOMAXPROCS(1)
	secret := []byte("s3cr3t")
	var started, finished int32
	srv := &radius.PacketServer{
		ErrorLog:     log.New(io.Discard, "", 0),
		SecretSource: radius.StaticSecretSource(secret),
		Handler: radius.HandlerFunc(func(w radius.ResponseWriter, r *radius.Request) {
			atomic.StoreInt32(&started, 1)
			time.Sleep(20 * time.Millisecond)
			atomic.StoreInt32(&finished, 1)
		}),
	}
	b, _ := radius.New(radius.CodeAccessRequest, secret).Encode()
	conn := &inlineShutdownConn{datagram: b, srv: srv}
	if err := srv.Serve(conn); err != radius.ErrServerShutdown {
		return false, fmt.Sprintf("Serve = %v, want ErrServerShutdown", err)
	}
	if conn.sdErr != context.Canceled {
		return false, fmt.Sprintf("Shutdown with a cancelled context while a received datagram is pending = %v, want context.Canceled", conn.sdErr)
	}
	if atomic.LoadInt32(&conn.closed) != 1 {
		return false, "listener not closed by Shutdown"
	}
	err := srv.Shutdown(context.Background())
	st, fi := atomic.LoadInt32(&started), atomic.LoadInt32(&finished)
	if err != nil {
		return false, fmt.Sprintf("second Shutdown = %v, want nil", err)
	}
	if fi != 1 {
		return false, fmt.Sprintf("Shutdown returned nil but the handler of a datagram received before the request had not finished (started=%d finished=%d)", st, fi)
	}
	time.Sleep(100 * time.Millisecond) // a late double close would panic here
	return true, ""
}

func init() {
	scenarios["c07-received-before-shutdown"] = scenarioReceivedBeforeShutdown
}

// runSubScenario runs a scenario in a child process; a crash of the child is a finding, not a crash of the harness
func runSubScenario(c *Ctx, name, what, law string) {
	cmd := exec.Command(os.Args[0], "-scenario", name)
	done := make(chan struct{})
	var out []byte
	var err error
	go func() { out, err = cmd.CombinedOutput(); close(done) }()
	select {
	case <-done:
	case <-time.After(30 * time.Second):
		cmd.Process.Kill()
		<-done
		c.Fail("spec", name, name, what, "no return within 30 s (deadlock)", "returns", law)
		return
	}
	s := string(out)
	if err == nil && strings.Contains(s, "SCENARIO-OK") {
		c.Count(name, name)
		return
	}
	msg := s
	if i := strings.Index(s, "SCENARIO-FAIL:"); i >= 0 {
		msg = s[i:]
	} else if i := strings.Index(s, "panic:"); i >= 0 {
		msg = s[i:]
	}
	c.Fail("spec", name, name, what, trunc(msg, 600), "SCENARIO-OK", law)
}
