package main

import (
	"bytes"
	"crypto/sha256"
	"fmt"
	"go/ast"
	"go/build"
	"go/constant"
	"go/parser"
	"go/token"
	"os"
	"os/exec"
	"path/filepath"
	"sort"
	"strings"

	"layeh.com/radius/debug"
	"layeh.com/radius/dictionary"
)

// canonical token stream of a syntax tree: node kinds, identifiers, operators and the VALUES of
// literals (so 0x10 and 16, or two spellings of a string, are the same); comments and layout are not in it
func canon(n ast.Node) string {
	var sb strings.Builder
	ast.Inspect(n, func(x ast.Node) bool {
		switch v := x.(type) {
		case nil:
			sb.WriteString(")")
			return false
		case *ast.CommentGroup, *ast.Comment:
			return false
		case *ast.Ident:
			sb.WriteString("(I:" + v.Name)
		case *ast.BasicLit:
			c := constant.MakeFromLiteral(v.Value, v.Kind, 0)
			sb.WriteString("(L:" + c.ExactString())
		case *ast.BinaryExpr:
			sb.WriteString("(B" + v.Op.String())
		case *ast.UnaryExpr:
			sb.WriteString("(U" + v.Op.String())
		case *ast.AssignStmt:
			sb.WriteString("(A" + v.Tok.String())
		case *ast.IncDecStmt:
			sb.WriteString("(D" + v.Tok.String())
		case *ast.BranchStmt:
			sb.WriteString("(R" + v.Tok.String())
		case *ast.GenDecl:
			sb.WriteString("(G" + v.Tok.String())
		case *ast.RangeStmt:
			sb.WriteString("(N" + v.Tok.String())
		case *ast.ChanType:
			sb.WriteString(fmt.Sprintf("(C%d", v.Dir))
		case *ast.CallExpr:
			sb.WriteString(fmt.Sprintf("(call%v", v.Ellipsis.IsValid()))
		case *ast.SliceExpr:
			sb.WriteString(fmt.Sprintf("(slice%v", v.Slice3))
		default:
			sb.WriteString(fmt.Sprintf("(%T", x))
		}
		return true
	})
	return sb.String()
}

type declEntry struct{ name, canon string }

// every top-level declaration of a file, by name, in order
func declEntries(src []byte, filename string) ([]declEntry, error) {
	fset := token.NewFileSet()
	f, err := parser.ParseFile(fset, filename, src, 0)
	if err != nil {
		return nil, err
	}
	out := []declEntry{{"package", f.Name.Name}, {"build constraints", buildConstraints(src)}}
	for _, d := range f.Decls {
		switch x := d.(type) {
		case *ast.FuncDecl:
			name := x.Name.Name
			if x.Recv != nil && len(x.Recv.List) == 1 {
				name = exprStr(x.Recv.List[0].Type) + "." + name
			}
			out = append(out, declEntry{"func " + name, canon(x)})
		case *ast.GenDecl:
			for _, sp := range x.Specs {
				switch s := sp.(type) {
				case *ast.ImportSpec:
					out = append(out, declEntry{"import " + s.Path.Value, canon(s)})
				case *ast.TypeSpec:
					out = append(out, declEntry{"type " + s.Name.Name, canon(s)})
				case *ast.ValueSpec:
					out = append(out, declEntry{x.Tok.String() + " " + s.Names[0].Name, canon(s)})
				}
			}
		}
	}
	// several init functions may exist: number repeated names
	seen := map[string]int{}
	for i := range out {
		seen[out[i].name]++
		if k := seen[out[i].name]; k > 1 {
			out[i].name = fmt.Sprintf("%s#%d", out[i].name, k)
		}
	}
	// the order of imports inside the block is gofmt's business
	sort.SliceStable(out, func(i, j int) bool {
		return strings.HasPrefix(out[i].name, "import ") && strings.HasPrefix(out[j].name, "import ") && out[i].name < out[j].name
	})
	return out, nil
}

// the //go:build and // +build lines in front of the package clause: comments to the parser, but they decide whether
// the file is part of the package at all
func buildConstraints(src []byte) string {
	var out []string
	for _, line := range strings.Split(string(src), "\n") {
		t := strings.TrimSpace(line)
		if strings.HasPrefix(t, "package ") {
			break
		}
		if strings.HasPrefix(t, "//go:build") || strings.HasPrefix(strings.TrimSpace(strings.TrimPrefix(t, "//")), "+build") && strings.HasPrefix(t, "//") {
			out = append(out, strings.Join(strings.Fields(t), " "))
		}
	}
	return strings.Join(out, "; ")
}

// other Go files compiled into the package next to the generated one (default build context, no tests): each
// declaration they contribute is one the generator did not write
func companionEntries(dir, output string) []declEntry {
	var out []declEntry
	ents, _ := os.ReadDir(dir)
	bctx := build.Default
	for _, e := range ents {
		n := e.Name()
		if e.IsDir() || !strings.HasSuffix(n, ".go") || strings.HasSuffix(n, "_test.go") || n == output {
			continue
		}
		if ok, err := bctx.MatchFile(dir, n); err != nil || !ok {
			continue
		}
		src, err := os.ReadFile(filepath.Join(dir, n))
		if err != nil {
			continue
		}
		es, err := declEntries(src, n)
		if err != nil {
			out = append(out, declEntry{"file " + n, "does not parse"})
			continue
		}
		for _, d := range es {
			if d.name == "package" || d.name == "build constraints" && d.canon == "" {
				continue
			}
			out = append(out, declEntry{"file " + n + ": " + d.name, d.canon})
		}
	}
	return out
}

type shippedPkg struct {
	name            string
	shipped, regen  []declEntry
	shippedErr, err string
}

var debugSources = []string{"rfc2865", "rfc2866", "rfc2867", "rfc2869", "rfc3162", "rfc3576", "rfc5176"}

func dictEntries(d *dictionary.Dictionary) []declEntry {
	var out []declEntry
	attr := func(prefix string, a *dictionary.Attribute) {
		out = append(out, declEntry{prefix + "ATTRIBUTE " + a.Name, fmt.Sprintf("%v %d size=%v enc=%v tag=%v concat=%v", a.OID, a.Type, a.Size, a.FlagEncrypt, a.FlagHasTag, a.FlagConcat)})
	}
	for _, a := range d.Attributes {
		attr("", a)
	}
	for _, v := range d.Values {
		out = append(out, declEntry{"VALUE " + v.Attribute + " " + v.Name, fmt.Sprint(v.Number)})
	}
	for _, v := range d.Vendors {
		out = append(out, declEntry{"VENDOR " + v.Name, fmt.Sprintf("%d %d %d", v.Number, v.GetTypeOctets(), v.GetLengthOctets())})
		for _, a := range v.Attributes {
			attr(v.Name+" ", a)
		}
		for _, x := range v.Values {
			out = append(out, declEntry{v.Name + " VALUE " + x.Attribute + " " + x.Name, fmt.Sprint(x.Number)})
		}
	}
	return out
}

// the shipped packages next to what the generator makes of the shipped dictionaries
func collectShipped(repo string) []shippedPkg {
	var out []shippedPkg
	for _, s := range findSpecs(repo) {
		rel, _ := filepath.Rel(repo, s.Dir)
		p := shippedPkg{name: rel}
		old, err := os.ReadFile(filepath.Join(s.Dir, s.Output))
		if err != nil {
			p.shippedErr = err.Error()
		} else if p.shipped, err = declEntries(old, s.Output); err != nil {
			p.shippedErr = err.Error()
		} else {
			p.shipped = append(p.shipped, companionEntries(s.Dir, s.Output)...)
		}
		d, err := s.parse()
		if err != nil {
			p.err = "dictionary: " + err.Error()
		} else {
			var src []byte
			if safely(func() { src, err = s.generator().Generate(d) }) {
				p.err = "Generate panicked"
			} else if err != nil {
				p.err = "Generate: " + err.Error()
			} else if p.regen, err = declEntries(src, "generated.go"); err != nil {
				p.err = err.Error()
			}
		}
		out = append(out, p)
	}
	// the debug package's built-in dictionary: parse + Merge of the seven dictionaries, as debug/generate_main.go does,
	// from the copies checked in under rfcNNNN/ (the directive names the FreeRADIUS system copies)
	p := shippedPkg{name: "debug"}
	p.shipped = dictEntries(debug.IncludedDictionary)
	merged := &dictionary.Dictionary{}
	for _, n := range debugSources {
		ps := dictionary.Parser{Opener: &dictionary.FileSystemOpener{}}
		d, err := ps.ParseFile(filepath.Join(repo, n, "dictionary."+n))
		if err == nil {
			merged, err = dictionary.Merge(merged, d)
		}
		if err != nil {
			p.err = n + ": " + err.Error()
			break
		}
	}
	if p.err == "" {
		p.regen = dictEntries(merged)
	}
	out = append(out, p)
	return out
}

func digest(s string) string {
	h := sha256.Sum256([]byte(s))
	return fmt.Sprintf("%x", h[:12])
}

// Gen/Shipped.v: per package, (declaration, digest of its canonical syntax) for the checked-in file and for the generator's output
func emitShipped(repo, out string) error {
	pkgs := collectShipped(repo)
	var w bytes.Buffer
	w.WriteString("(* GENERATED by /verif/harness (cmd/run -emit-shipped) from the layeh/radius working tree. DO NOT EDIT. *)\n")
	w.WriteString("From Coq Require Import List String.\nImport ListNotations.\nOpen Scope string_scope.\n\n")
	w.WriteString("Record shipped := mkshipped { sp_name : string; sp_checked_in : list (string * string); sp_generated : list (string * string) }.\n\n")
	q := func(s string) string { return "\"" + strings.ReplaceAll(s, "\"", "\"\"") + "\"" }
	list := func(es []declEntry, errs string) string {
		if errs != "" {
			return "[(\"<error>\", " + q(errs) + ")]"
		}
		var parts []string
		for _, e := range es {
			parts = append(parts, "("+q(e.name)+", "+q(digest(e.canon))+")")
		}
		return "[" + strings.Join(parts, "; ") + "]"
	}
	for i, p := range pkgs {
		fmt.Fprintf(&w, "Definition sp_%d : shipped := mkshipped %s\n  %s\n  %s.\n", i, q(p.name), list(p.shipped, p.shippedErr), list(p.regen, p.err))
	}
	w.WriteString("Definition packages : list shipped := [")
	for i := range pkgs {
		if i > 0 {
			w.WriteString("; ")
		}
		fmt.Fprintf(&w, "sp_%d", i)
	}
	w.WriteString("].\n")
	old, _ := os.ReadFile(out)
	if !bytes.Equal(old, w.Bytes()) {
		return os.WriteFile(out, w.Bytes(), 0644)
	}
	return nil
}

func init() {
	props["C18"] = func(c *Ctx) {
		c.Res.Rule = "the finite set is enumerated completely: every directory with a radius-dict-gen go:generate directive (27 rfc*, 4 vendors, internal/saltencrypttest) plus the debug package. For each package the dictionary checked in next to it is parsed with the directive's options (IgnoreIdenticalAttributes, -package, -ref, -ignore), Generate is run (and, separately, the repository's command cmd/radius-dict-gen is built from the working tree and run in the package directory with the directive's own arguments, output redirected), and every top-level declaration of the result is compared by name and by canonical syntax (node kinds, identifiers, operators, literal VALUES; no comments, no layout) with the checked-in generated.go, together with its build-constraint lines and every declaration contributed by any other non-test Go file the default build context compiles into the same package (there must be none); generated.go files without a directive and directives without output are reported. debug.IncludedDictionary is compared entry by entry with parse+Merge of the seven dictionaries its directive names, read from the copies checked in under rfcNNNN/. non-trivial = declaration compared"
		pkgs := collectShipped(c.Repo)
		c.Res.Exhaustive = true
		have := map[string]bool{}
		for _, p := range pkgs {
			have[p.name] = true
			if p.shippedErr != "" || p.err != "" {
				c.Fail("spec", p.name, "c18-generate", p.name, p.shippedErr+" "+p.err, "both parse", "the checked-in package and the generator's output must both exist")
				continue
			}
			a, b := p.shipped, p.regen
			ma := map[string]string{}
			for _, e := range a {
				ma[e.name] = e.canon
			}
			mb := map[string]string{}
			for _, e := range b {
				mb[e.name] = e.canon
			}
			for _, e := range a {
				c.Count("decl", p.name+" "+e.name)
				if g, ok := mb[e.name]; !ok {
					c.Fail("spec", p.name, "hand-edit-or-stale", p.name+": "+e.name, "present in the checked-in file only", "produced by the generator", "the checked-in file has a declaration the generator does not produce")
				} else if g != e.canon {
					c.Fail("spec", p.name, "hand-edit-or-stale", p.name+": "+e.name, trunc(e.canon, 600), trunc(g, 600), "the checked-in declaration differs from the generator's")
				}
			}
			for _, e := range b {
				if _, ok := ma[e.name]; !ok {
					c.Fail("spec", p.name, "hand-edit-or-stale", p.name+": "+e.name, "missing from the checked-in file", "produced by the generator", "stale output: the generator now produces a declaration the checked-in file lacks")
				}
			}
			if len(a) == len(b) {
				for i := range a {
					if a[i].name != b[i].name {
						c.Fail("spec", p.name, "order", p.name, a[i].name, b[i].name, "declarations come in a different order")
						break
					}
				}
			}
			c.Count("package", p.name)
		}
		// the repository's own command (cmd/radius-dict-gen), built from the working tree and run in each package
		// directory with the arguments of that package's directive, only the output redirected: it must succeed and
		// write what the generator library produced above
		if tmp, err := os.MkdirTemp("", "c18cmd"); err == nil {
			bin := filepath.Join(tmp, "radius-dict-gen")
			bc := exec.Command("go", "build", "-o", bin, "./cmd/radius-dict-gen")
			bc.Dir = c.Repo
			if out, err := bc.CombinedOutput(); err != nil {
				c.Fail("spec", "cmd/radius-dict-gen", "c18-command", "go build ./cmd/radius-dict-gen", trunc(string(out), 1500), "builds", "the repository's generator command must build")
			} else {
				byName := map[string]shippedPkg{}
				for _, p := range pkgs {
					byName[p.name] = p
				}
				for _, s := range findSpecs(c.Repo) {
					rel, _ := filepath.Rel(c.Repo, s.Dir)
					outFile := filepath.Join(tmp, "out.go")
					os.Remove(outFile)
					args := append([]string(nil), s.Args...)
					for i := range args {
						if args[i] == "-output" && i+1 < len(args) {
							args[i+1] = outFile
						}
					}
					gc := exec.Command(bin, args...)
					gc.Dir = s.Dir
					out, err := gc.CombinedOutput()
					what := rel + ": radius-dict-gen " + strings.Join(s.Args, " ")
					c.Count("command", rel)
					if err != nil {
						c.Fail("spec", rel, "c18-command", what, trunc(err.Error()+": "+string(out), 1500), "writes the package", "the checked-in package is what the repository's generator produces with the checked-in go:generate options: the directive must run")
						continue
					}
					src, err := os.ReadFile(outFile)
					if err != nil {
						c.Fail("spec", rel, "c18-command", what, err.Error(), "writes the package", "the directive must write its output")
						continue
					}
					es, err := declEntries(src, "generated.go")
					if err != nil {
						c.Fail("spec", rel, "c18-command", what, err.Error(), "Go source", "")
						continue
					}
					want := byName[rel].shipped
					wm := map[string]string{}
					for _, e := range want {
						wm[e.name] = e.canon
					}
					bad := ""
					for _, e := range es {
						if g, ok := wm[e.name]; !ok {
							bad = e.name + " is produced by the command and missing from the checked-in file"
						} else if g != e.canon {
							bad = e.name + " differs between the command's output and the checked-in file"
						}
						delete(wm, e.name)
					}
					for n := range wm {
						bad = n + " is in the checked-in file and not produced by the command"
					}
					if bad != "" && byName[rel].shippedErr == "" {
						c.Fail("spec", rel, "hand-edit-or-stale", what, bad, "identical declarations", "the checked-in package is what the repository's generator command produces")
					}
				}
			}
			os.RemoveAll(tmp)
		}
		// every generated.go belongs to a directive
		filepath.Walk(c.Repo, func(path string, fi os.FileInfo, err error) error {
			if err == nil && fi.Name() == "generated.go" {
				rel, _ := filepath.Rel(c.Repo, filepath.Dir(path))
				if !have[rel] {
					c.Fail("spec", rel, "no-directive", path, "generated.go without a radius-dict-gen directive", "a directive", "")
				}
			}
			return nil
		})
		c.Res.Extra = map[string]interface{}{"packages": len(pkgs)}
		if len(pkgs) != 33 {
			c.Fail("spec", "packages", "count", fmt.Sprint(len(pkgs)), fmt.Sprint(len(pkgs)), "33 (32 generated packages + debug)", "the set of generated packages changed")
		}
		c.RequireTags("decl", "package", "command")
	}
}
