package main

import (
	"bytes"
	"fmt"
	"net"
	"os"
	"strings"

	"layeh.com/radius"
	"layeh.com/radius/debug"
)

// everything a read must leave alone: the packet's fields and attribute bytes (with their
// spare capacity), the buffer it was parsed from, the secret, the request it is checked against
type memImage struct {
	p      *radius.Packet
	wire   []byte
	secret []byte
	req    []byte
}

func fullCap(b []byte) []byte { return b[:cap(b)] }

func (m *memImage) snap() string {
	var sb strings.Builder
	fmt.Fprintf(&sb, "code=%d id=%d auth=%x secret=%x|", m.p.Code, m.p.Identifier, m.p.Authenticator[:], fullCap(m.p.Secret))
	for _, a := range m.p.Attributes {
		fmt.Fprintf(&sb, "%d:%d:%x;", a.Type, len(a.Attribute), fullCap(a.Attribute))
	}
	fmt.Fprintf(&sb, "|wire=%x|sec=%x|req=%x", fullCap(m.wire), fullCap(m.secret), fullCap(m.req))
	if w, err := m.p.MarshalBinary(); err == nil {
		fmt.Fprintf(&sb, "|image=%x", w)
	} else {
		fmt.Fprintf(&sb, "|image-err")
	}
	return sb.String()
}

// a read: returns a printable result and the byte slices handed to the caller
type readOp struct {
	name    string
	aliasOK bool // Attributes.Get/Lookup return the packet's own slice by design
	run     func() (string, [][]byte)
}

func scribble(bs [][]byte) {
	for _, b := range bs {
		for i := range b {
			b[i] ^= 0xA5
		}
		if cap(b) > len(b) {
			e := b[:cap(b)]
			for i := len(b); i < len(e); i++ {
				e[i] ^= 0x5A
			}
		}
	}
}

func gvSlices(v GV) [][]byte {
	var out [][]byte
	if v.B != nil {
		out = append(out, v.B)
	}
	if v.Net != nil {
		out = append(out, v.Net.IP, v.Net.Mask)
	}
	return out
}

func gvRepr(v GV) string {
	s := fmt.Sprintf("%x/%d/%d", v.B, v.U, v.T.Unix())
	if v.Net != nil {
		s += fmt.Sprintf("/%x/%x", []byte(v.Net.IP), []byte(v.Net.Mask))
	}
	return s
}

func helperReads(h *Helper, p, q *radius.Packet) []readOp {
	var ops []readOp
	nm := h.Pkg + "." + h.Ident
	if h.Get != nil {
		ops = append(ops, readOp{name: nm + "_Get", run: func() (string, [][]byte) {
			t, v := h.Get(p, q)
			return fmt.Sprintf("%d %s", t, gvRepr(v)), gvSlices(v)
		}})
	}
	if h.Lookup != nil {
		ops = append(ops, readOp{name: nm + "_Lookup", run: func() (string, [][]byte) {
			t, v, err := h.Lookup(p, q)
			return fmt.Sprintf("%d %s %v", t, gvRepr(v), err), gvSlices(v)
		}})
	}
	if h.Gets != nil {
		ops = append(ops, readOp{name: nm + "_Gets", run: func() (string, [][]byte) {
			ts, vs, err := h.Gets(p, q)
			var sl [][]byte
			s := fmt.Sprintf("%v %v:", ts, err)
			for _, v := range vs {
				s += gvRepr(v) + ","
				sl = append(sl, gvSlices(v)...)
			}
			if ts != nil {
				sl = append(sl, ts)
			}
			return s, sl
		}})
	}
	if h.GetString != nil {
		ops = append(ops, readOp{name: nm + "_GetString", run: func() (string, [][]byte) {
			t, s := h.GetString(p, q)
			return fmt.Sprintf("%d %q", t, s), nil
		}})
	}
	if h.LookupString != nil {
		ops = append(ops, readOp{name: nm + "_LookupString", run: func() (string, [][]byte) {
			t, s, err := h.LookupString(p, q)
			return fmt.Sprintf("%d %q %v", t, s, err), nil
		}})
	}
	if h.GetStrings != nil {
		ops = append(ops, readOp{name: nm + "_GetStrings", run: func() (string, [][]byte) {
			ts, ss, err := h.GetStrings(p, q)
			var sl [][]byte
			if ts != nil {
				sl = append(sl, ts)
			}
			return fmt.Sprintf("%v %q %v", ts, ss, err), sl
		}})
	}
	if h.String != nil {
		ops = append(ops, readOp{name: nm + ".String", run: func() (string, [][]byte) {
			_, v := h.Get(p, q)
			return h.String(v.U), nil
		}})
	}
	return ops
}

func coreReads(m *memImage, q *radius.Packet) []readOp {
	p := m.p
	ops := []readOp{
		{name: "MarshalBinary", run: func() (string, [][]byte) {
			w, err := p.MarshalBinary()
			return fmt.Sprintf("%x %v", w, err), [][]byte{w}
		}},
		{name: "Encode", run: func() (string, [][]byte) {
			w, err := p.Encode()
			return fmt.Sprintf("%x %v", w, err), [][]byte{w}
		}},
		{name: "IsAuthenticRequest", run: func() (string, [][]byte) {
			return fmt.Sprint(radius.IsAuthenticRequest(m.wire, m.secret)), nil
		}},
		{name: "IsAuthenticResponse", run: func() (string, [][]byte) {
			return fmt.Sprint(radius.IsAuthenticResponse(m.wire, m.req, m.secret)), nil
		}},
		{name: "Parse", run: func() (string, [][]byte) {
			p2, err := radius.Parse(m.wire, m.secret)
			if err != nil {
				return err.Error(), nil
			}
			var sl [][]byte
			s := fmt.Sprintf("%d %d %x:", p2.Code, p2.Identifier, p2.Authenticator[:])
			for _, a := range p2.Attributes {
				s += fmt.Sprintf("%d=%x;", a.Type, []byte(a.Attribute))
				sl = append(sl, a.Attribute)
			}
			return s, sl
		}},
		{name: "ParseAttributes", run: func() (string, [][]byte) {
			if len(m.wire) < 20 {
				return "short", nil
			}
			as, err := radius.ParseAttributes(m.wire[20:])
			var sl [][]byte
			s := fmt.Sprint(err)
			for _, a := range as {
				s += fmt.Sprintf("%d=%x;", a.Type, []byte(a.Attribute))
				sl = append(sl, a.Attribute)
			}
			return s, sl
		}},
		{name: "debug.DumpString", run: func() (string, [][]byte) {
			return debug.DumpString(&debug.Config{Dictionary: debug.IncludedDictionary}, p), nil
		}},
		{name: "debug.DumpRequestString", run: func() (string, [][]byte) {
			return debug.DumpRequestString(&debug.Config{Dictionary: debug.IncludedDictionary}, &radius.Request{Packet: p, RemoteAddr: &net.UDPAddr{IP: net.IPv4(127, 0, 0, 1), Port: 1}, LocalAddr: &net.UDPAddr{IP: net.IPv4(127, 0, 0, 1), Port: 1812}}), nil
		}},
	}
	seen := map[radius.Type]bool{}
	for i, a := range p.Attributes {
		t, val, i := a.Type, a.Attribute, i
		if !seen[t] {
			seen[t] = true
			ops = append(ops,
				readOp{name: fmt.Sprintf("Attributes.Get(%d)", t), aliasOK: true, run: func() (string, [][]byte) {
					return fmt.Sprintf("%x", []byte(p.Get(t))), nil
				}},
				readOp{name: fmt.Sprintf("Attributes.Lookup(%d)", t), aliasOK: true, run: func() (string, [][]byte) {
					v, ok := p.Lookup(t)
					return fmt.Sprintf("%x %v", []byte(v), ok), nil
				}})
		}
		if i > 6 {
			continue
		}
		dec := func(name string, f func() (string, [][]byte)) {
			ops = append(ops, readOp{name: fmt.Sprintf("radius.%s(attr %d)", name, i), run: f})
		}
		dec("Bytes", func() (string, [][]byte) { b := radius.Bytes(val); return hx(b), [][]byte{b} })
		dec("String", func() (string, [][]byte) { return radius.String(val), nil })
		dec("Integer", func() (string, [][]byte) { v, e := radius.Integer(val); return fmt.Sprint(v, e), nil })
		dec("Short", func() (string, [][]byte) { v, e := radius.Short(val); return fmt.Sprint(v, e), nil })
		dec("Integer64", func() (string, [][]byte) { v, e := radius.Integer64(val); return fmt.Sprint(v, e), nil })
		dec("Date", func() (string, [][]byte) { v, e := radius.Date(val); return fmt.Sprint(v.Unix(), e), nil })
		dec("IPAddr", func() (string, [][]byte) {
			v, e := radius.IPAddr(val)
			return fmt.Sprintf("%x %v", []byte(v), e), [][]byte{v}
		})
		dec("IPv6Addr", func() (string, [][]byte) {
			v, e := radius.IPv6Addr(val)
			return fmt.Sprintf("%x %v", []byte(v), e), [][]byte{v}
		})
		dec("IFID", func() (string, [][]byte) {
			v, e := radius.IFID(val)
			return fmt.Sprintf("%x %v", []byte(v), e), [][]byte{v}
		})
		dec("VendorSpecific", func() (string, [][]byte) {
			id, v, e := radius.VendorSpecific(val)
			return fmt.Sprintf("%d %x %v", id, []byte(v), e), [][]byte{v}
		})
		dec("TLV", func() (string, [][]byte) {
			ty, v, e := radius.TLV(val)
			return fmt.Sprintf("%d %x %v", ty, []byte(v), e), [][]byte{v}
		})
		dec("IPv6Prefix", func() (string, [][]byte) {
			v, e := radius.IPv6Prefix(val)
			if v == nil {
				return fmt.Sprint(e), nil
			}
			return fmt.Sprintf("%x %x %v", []byte(v.IP), []byte(v.Mask), e), [][]byte{v.IP, v.Mask}
		})
		dec("UserPassword", func() (string, [][]byte) {
			v, e := radius.UserPassword(val, m.secret, p.Authenticator[:])
			return fmt.Sprintf("%x %v", v, e), [][]byte{v}
		})
		dec("TunnelPassword", func() (string, [][]byte) {
			v, s, e := radius.TunnelPassword(val, m.secret, q.Authenticator[:])
			return fmt.Sprintf("%x %x %v", v, s, e), [][]byte{v, s}
		})
	}
	return ops
}

// helpers whose attribute occurs in the packet, plus a few that do not
func relevantHelpers(r *Rng, p *radius.Packet) []*Helper {
	types := map[int]bool{}
	vendors := map[int]bool{}
	for _, a := range p.Attributes {
		types[int(a.Type)] = true
		if a.Type == 26 && len(a.Attribute) >= 4 {
			vendors[int(a.Attribute[0])<<24|int(a.Attribute[1])<<16|int(a.Attribute[2])<<8|int(a.Attribute[3])] = true
		}
	}
	var out []*Helper
	for _, h := range registry {
		if (h.IsVendor && vendors[h.VendorID]) || (!h.IsVendor && types[h.Type]) {
			out = append(out, h)
		}
	}
	if len(out) > 40 {
		for i := range out {
			j := r.Intn(len(out))
			out[i], out[j] = out[j], out[i]
		}
		out = out[:40]
	}
	for k := 0; k < 3; k++ {
		out = append(out, registry[r.Intn(len(registry))])
	}
	return out
}

func checkReads(c *Ctx, m *memImage, q *radius.Packet, ops []readOp, how string) {
	base := m.snap()
	for _, op := range ops {
		var r1 string
		var out [][]byte
		if safely(func() { r1, out = op.run() }) {
			c.Fail("spec", op.name, "c13-panic", how+" "+base, "panic", "a value or an error", "a read panicked")
			return
		}
		c.Count("read-"+how, op.name+r1)
		if s := m.snap(); s != base {
			c.Fail("spec", op.name, "read-writes", how+" before: "+base, "after: "+s, "unchanged", "a read changed the packet, its wire image or its input bytes")
			return
		}
		if !op.aliasOK && len(out) > 0 {
			scribble(out)
			if s := m.snap(); s != base {
				c.Fail("spec", op.name, "result-aliases", how+" before: "+base, "after writing into the result: "+s, "unchanged", "the returned value shares memory with the packet or the input")
				return
			}
			c.TagOnly("scribbled")
		}
		var r2 string
		if safely(func() { r2, _ = op.run() }) || r2 != r1 {
			c.Fail("spec", op.name, "read-not-repeatable", how+" "+base, "second: "+r2, "first: "+r1, "repeating a read returned a different result")
			return
		}
	}
}

// the same read/overwrite script on the real packet and on the memory model (m.mem)
func memScript(c *Ctx, r *Rng, h *Helper, d *hdesc, p, q *radius.Packet, how string) {
	req := Req{Name: "mem"}
	req.Zs = append(d.zs(), Z(0), Z(int64(p.Code)), Z(int64(p.Identifier)), Z(int64(len(p.Attributes))))
	req.Bs = [][]byte{append([]byte(nil), p.Authenticator[:]...), append([]byte(nil), p.Secret...), append([]byte(nil), q.Authenticator[:]...)}
	for _, a := range p.Attributes {
		req.Zs = append(req.Zs, Z(int64(a.Type)))
		req.Bs = append(req.Bs, append([]byte(nil), a.Attribute...))
	}
	t := &Toks{}
	var last [][]byte
	n := 2 + r.Intn(5)
	for i := 0; i < n; i++ {
		op := r.Pick(0, 1, 2)
		if op == 1 && h.Gets == nil {
			op = 0
		}
		req.Zs = append(req.Zs, Z(int64(op)))
		switch op {
		case 0:
			tg, v, err := h.Lookup(p, q)
			last = nil
			if err == radius.ErrNoAttribute {
				t.I(1).I(40)
			} else if err != nil {
				t.I(1).I(8)
			} else {
				t.I(0).I(int64(tg))
				tGV(t, d, v)
				last = gvSlices(v)
			}
		case 1:
			tags, vs, err := h.Gets(p, q)
			last = nil
			if err != nil {
				t.I(1)
			} else {
				t.I(0).I(int64(len(vs)))
				for k, v := range vs {
					if d.tag && k < len(tags) {
						t.I(int64(tags[k]))
					} else {
						t.I(0)
					}
					tGV(t, d, v)
					last = append(last, gvSlices(v)...)
				}
			}
		case 2:
			for _, b := range last {
				for k := range b {
					b[k] ^= 0xA5
				}
			}
			last = nil
			t.I(9)
		}
		tAttrs(t, p.Attributes)
	}
	c.Add(Case{Req: req, Impl: t.String(), Tag: "mem-" + how})
}

// helpers grouped by descriptor class, so that rare classes (tagged integers, salt-encrypted
// addresses, concat) are as likely as plain strings
var helperClasses [][]*Helper

func pickHelper(r *Rng) *Helper {
	if helperClasses == nil {
		idx := map[string]int{}
		for _, h := range registry {
			d, why := describe(h)
			if d == nil || why != "" {
				continue
			}
			k := kindTag(d)
			i, ok := idx[k]
			if !ok {
				i = len(helperClasses)
				idx[k] = i
				helperClasses = append(helperClasses, nil)
			}
			helperClasses[i] = append(helperClasses[i], h)
		}
	}
	cl := helperClasses[r.Intn(len(helperClasses))]
	return cl[r.Intn(len(cl))]
}

func init() {
	props["C13"] = func(c *Ctx) {
		c.Res.Rule = "packets (a) built through random Set/Add calls of shipped helpers and (b) parsed from their wire image, and (c) parsed from wire images whose attribute values are random bytes of the types the helpers address (wrong sizes, malformed Vendor-Specific payloads, tag bytes); on each: MarshalBinary, Encode, IsAuthenticRequest/Response, Parse, ParseAttributes, Attributes.Get/Lookup for every type present, all 14 typed decoders on the first attributes, debug.DumpString/DumpRequestString, and Get/Gets/Lookup/GetString/LookupString/GetStrings/String of every shipped helper whose attribute (or vendor) occurs in the packet plus three that do not. After every read a deep image (attribute bytes with their spare capacity, secret, authenticator, the buffer parsed from, the request buffer, MarshalBinary) must equal the image before; every byte slice handed back (except Attributes.Get/Lookup, which alias by design) is overwritten, spare capacity included, and the image compared again; the read is repeated and must print the same result; after Parse the source buffer is overwritten and the packet compared. non-trivial = distinct (operation, result) pairs"
		r := c.Rng.Fork()
		// the first reads of the process, each repeated at once: a result that depends on what was called before
		// (state kept between calls) shows here, where nothing was called before
		firstReads := func(when string) {
			sec := []byte("c13-first")
			for _, code := range []radius.Code{4, 40, 43, 1, 5} {
				rq := &radius.Packet{Code: code, Identifier: 9, Secret: sec}
				rq.Add(1, []byte("u"))
				rw, err := rq.Encode()
				if err != nil {
					continue
				}
				rp := &radius.Packet{Code: 5, Identifier: 9, Secret: sec}
				copy(rp.Authenticator[:], rw[4:20])
				pw, _ := rp.Encode()
				for _, rd := range []struct {
					name string
					f    func() string
				}{
					{"IsAuthenticRequest", func() string { return fmt.Sprint(radius.IsAuthenticRequest(rw, sec)) }},
					{"IsAuthenticResponse", func() string { return fmt.Sprint(radius.IsAuthenticResponse(pw, rw, sec)) }},
					{"Parse", func() string { p, err := radius.Parse(rw, sec); return fmt.Sprint(p != nil, err) }},
				} {
					a, b, d := rd.f(), rd.f(), rd.f()
					if a != b || b != d {
						c.Fail("spec", rd.name, "repeat", fmt.Sprintf("%s: code %d, %x (secret %q), three calls in a row", when, code, rw, sec), a+" / "+b+" / "+d, a, "repeating a read returns the same result")
					}
					c.Count("first-reads", when+rd.name+fmt.Sprint(code))
				}
			}
		}
		firstReads("first calls of the process")
		n := c.N(150, 3000)
		for k := 0; k < n; k++ {
			sec := r.Bytes(1 + r.Intn(8))
			var auth [16]byte
			copy(auth[:], r.Bytes(16))
			p := &radius.Packet{Code: radius.Code(r.Pick(1, 2, 3, 4, 5, 11, 40, 43)), Identifier: byte(r.Intn(256)), Secret: append(make([]byte, 0, len(sec)+4), sec...), Authenticator: auth}
			q := &radius.Packet{Code: 1, Identifier: p.Identifier, Secret: sec, Authenticator: auth}
			nh := 1 + r.Intn(6)
			hostile := k%3 == 2
			for i := 0; i < nh; i++ {
				h := pickHelper(r)
				d, why := describe(h)
				if d == nil || why != "" {
					continue
				}
				if hostile {
					// raw bytes under the helper's type / vendor framing
					raw := r.Bytes(r.Pick(0, 1, 2, 3, 4, 5, 6, 8, 16, 17, 18, 19, 34, 50))
					if d.vendor {
						sub := append([]byte{byte(d.typ), byte(len(raw) + 2)}, raw...)
						if r.Intn(5) == 0 {
							sub[1] = byte(r.Pick(0, 2, 255))
						}
						raw = append([]byte{byte(d.vendorID >> 24), byte(d.vendorID >> 16), byte(d.vendorID >> 8), byte(d.vendorID)}, sub...)
						if r.Intn(3) == 0 {
							raw = append(raw, append([]byte{byte(r.Intn(256)), 3}, r.Bytes(1)...)...)
						}
						p.Attributes = append(p.Attributes, &radius.AVP{Type: 26, Attribute: raw})
					} else {
						p.Attributes = append(p.Attributes, &radius.AVP{Type: radius.Type(d.typ), Attribute: raw})
					}
					continue
				}
				v := genValue(r, d)
				tag := byte(r.Pick(0, 1, 5, 0x1f))
				rd := &recReader{src: r.Fork()}
				withRand(rd, func() {
					if h.Add != nil && r.Bool() {
						h.Add(p, tag, v)
					} else {
						h.Set(p, tag, v)
					}
				})
			}
			// (a)/(c) the packet as built
			reqWire := append([]byte{1, p.Identifier, 0, 20}, auth[:]...)
			wire, err := p.MarshalBinary()
			if err != nil {
				continue
			}
			m := &memImage{p: p, wire: append(make([]byte, 0, len(wire)+8), wire...), secret: append([]byte(nil), sec...), req: reqWire}
			how := "built"
			if hostile {
				how = "hostile"
			}
			ops := coreReads(m, q)
			for _, h := range relevantHelpers(r, p) {
				ops = append(ops, helperReads(h, p, q)...)
			}
			checkReads(c, m, q, ops, how)
			if rel := relevantHelpers(r, p); len(rel) > 0 {
				hh := rel[r.Intn(len(rel))]
				if dd, why := describe(hh); dd != nil && why == "" {
					memScript(c, r, hh, dd, p, q, how)
				}
			}
			// (b) the packet parsed back from the wire image
			buf := append(make([]byte, 0, len(wire)+8), wire...)
			p2, err := radius.Parse(buf, m.secret)
			if err != nil {
				c.Fail("spec", "Parse", "c13-parse", hx(wire), err.Error(), "accepted", "MarshalBinary output must parse")
				continue
			}
			m2 := &memImage{p: p2, wire: buf, secret: m.secret, req: reqWire}
			before := snapshot(p2)
			keep := append([]byte(nil), buf...)
			scribble([][]byte{buf})
			if after := snapshot(p2); after != before {
				c.Fail("spec", "Parse", "parse-aliases-buffer", hx(keep), after, before, "a parsed packet must not alias the buffer it was parsed from")
			}
			copy(buf[:cap(buf)], append(keep, make([]byte, cap(buf)-len(keep))...))
			c.TagOnly("parse-buffer-overwritten")
			ops2 := coreReads(m2, q)
			for _, h := range relevantHelpers(r, p2) {
				ops2 = append(ops2, helperReads(h, p2, q)...)
			}
			checkReads(c, m2, q, ops2, "parsed")
			if !bytes.Equal(buf[:len(keep)], keep) {
				c.Fail("spec", "reads on a parsed packet", "read-writes", hx(keep), hx(buf), "unchanged", "the buffer a packet was parsed from changed")
			}
		}
		firstReads("last calls of the run")
		c.Flush()
		if os.Getenv("VERIF_SYNTH_STAGE2") != "" {
			return
		}
		if c.Thorough() {
			runSynthetic(c, r, 12, "C13")
		}
		c.RequireTags("first-reads", "read-built", "read-parsed", "read-hostile", "scribbled", "parse-buffer-overwritten", "mem-built", "mem-hostile")
	}
}
