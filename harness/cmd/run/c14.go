package main

import (
	"fmt"
	"os"
	"time"
)

// structural class of a prior packet for a vendor helper
func classifyPrior(d *hdesc, prior []aop) []string {
	var tags []string
	seen := map[string]bool{}
	add := func(s string) {
		if !seen[s] {
			seen[s] = true
			tags = append(tags, s)
		}
	}
	for _, a := range prior {
		if a.k != 26 {
			add("base-attr")
			continue
		}
		if len(a.v) < 5 {
			add("vsa-too-short")
			continue
		}
		vid := int(a.v[0])<<24 | int(a.v[1])<<16 | int(a.v[2])<<8 | int(a.v[3])
		if vid != d.vendorID {
			add("other-vendor")
			continue
		}
		pl := a.v[4:]
		n, own, foreign := 0, 0, 0
		for len(pl) >= 3 {
			l := int(pl[1])
			if l > len(pl) {
				add("overrun")
				break
			}
			if l < 3 {
				add(fmt.Sprintf("len%d", l))
				break
			}
			if int(pl[0]) == d.typ {
				own++
			} else {
				foreign++
			}
			n++
			pl = pl[l:]
		}
		if len(pl) > 0 && len(pl) < 3 {
			add("trailing")
		}
		if own > 0 && foreign > 0 {
			add("shared-vsa")
		}
		if own > 1 {
			add("repeated-in-vsa")
		}
		if own > 0 && foreign == 0 && len(pl) == 0 {
			add("only-own")
		}
		if n == 0 {
			add("no-wellformed-sub")
		}
	}
	return tags
}

func init() {
	props["C14"] = func(c *Ctx) {
		c.Res.Rule = "every vendor attribute of the shipped vendor packages (aruba, microsoft, mikrotik, wispr) and rfc4679 through the gendriver registry: random sequences of <= 6 Add/Set/Del/Lookup/Gets calls on packets mixing base attributes, Vendor-Specific attributes of the helper's vendor and of other vendors with 0..4 sub-attributes each (well-formed, length 0, length 2, length overrunning the payload, trailing bytes, payload shorter than 5); the whole attribute list after every call compared with the Coq model (Model/Vendor.v under Model/Helpers.v); every call under a watchdog (non-termination is a violation) and a panic guard. non-trivial = sequence on a packet holding at least one Vendor-Specific attribute of the helper's vendor"
		r := c.Rng.Fork()
		reps := c.N(8, 150)
		n := 0
		for _, h := range registry {
			if !h.IsVendor {
				continue
			}
			d, why := describe(h)
			if d == nil || why != "" {
				continue // reported by C12
			}
			n++
			for k := 0; k < reps; k++ {
				h, d := h, d
				done := make(chan struct{})
				sub := r.Fork()
				inflight := new(string)
				go func() {
					defer close(done)
					runHelperSeqAdv(c, sub, h, d, inflight)
				}()
				select {
				case <-done:
				case <-time.After(20 * time.Second):
					c.Fail("spec", h.Pkg+"."+h.Ident, "watchdog", *inflight, "no return within 20 s", "termination", "vendor helpers terminate on every packet")
					c.Flush()
					return
				}
			}
		}
		c.Res.Extra = map[string]interface{}{"vendor_attributes": n}
		stage2 := os.Getenv("VERIF_SYNTH_STAGE2") != ""
		if n < 100 && !stage2 {
			c.Fail("model", "registry", "registry", "", fmt.Sprintf("only %d vendor attributes found", n), ">= 100", "")
		}
		c.Flush()
		if stage2 {
			return
		}
		if c.Thorough() {
			runSynthetic(c, r, 12, "C14")
		}
		c.RequireTags("shared-vsa", "repeated-in-vsa", "only-own", "other-vendor", "overrun", "len0", "len2", "trailing", "base-attr", "vsa-too-short")
	}
}
