package main

import (
	"flag"
	"fmt"
	"os"
	"runtime"
	"time"
)

var props = map[string]func(*Ctx){}

// scenarios that may crash the process (a panic in a goroutine of the library cannot be recovered) run in a child process
var scenarios = map[string]func() (bool, string){}

func main() {
	prop := flag.String("prop", "", "property id")
	tier := flag.String("tier", "quick", "quick|thorough")
	seed := flag.Int64("seed", 1, "PRNG seed")
	driver := flag.String("driver", "/verif/build/model_driver", "extracted model driver")
	out := flag.String("out", "", "result json")
	repo := flag.String("repo", "/repo", "repository root")
	verif := flag.String("verif", "/verif", "verif root")
	replay := flag.String("replay", "", "replay file")
	emit := flag.String("emit-shipped", "", "write coq/Gen/Shipped.v and exit")
	scenario := flag.String("scenario", "", "run one isolated scenario in this process and exit (used by the harness itself)")
	flag.Parse()
	if *scenario != "" {
		f, ok := scenarios[*scenario]
		if !ok {
			fmt.Println("SCENARIO-FAIL: unknown scenario")
			os.Exit(1)
		}
		if ok, msg := f(); !ok {
			fmt.Println("SCENARIO-FAIL:", msg)
			os.Exit(1)
		}
		fmt.Println("SCENARIO-OK")
		return
	}
	if *emit != "" {
		if err := emitShipped(*repo, *emit); err != nil {
			fmt.Fprintln(os.Stderr, "harness:", err)
			os.Exit(3)
		}
		return
	}
	f, ok := props[*prop]
	if !ok {
		fmt.Fprintln(os.Stderr, "harness: unknown property", *prop)
		os.Exit(3)
	}
	c := &Ctx{Prop: *prop, Tier: *tier, Seed: *seed, Driver: *driver, Workers: runtime.NumCPU(), Repo: *repo, Verif: *verif,
		Rng: NewRng(uint64(*seed)), seen: map[string]struct{}{}, trivial: map[string]bool{}, start: time.Now(), Replay: *replay,
		Res: &Result{Property: *prop, Tier: *tier, Seed: *seed, Tags: map[string]int{}, Sizes: map[string]int{}, Mismatches: []Mismatch{}, Samples: []interface{}{}}}
	f(c)
	if c.Replay == "" {
		runSrc(c)
	}
	c.Finish(*out)
}
