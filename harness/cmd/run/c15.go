package main

import (
	"fmt"
	"math/bits"
	"strings"
)

func init() {
	props["C15"] = func(c *Ctx) {
		c.Res.Rule = "include graphs: every graph on 3 files (each ordered pair incl. self-loops an $INCLUDE edge or not; 512 graphs, root = file 0; thorough: 4 files, 65536 graphs) with a distinct ATTRIBUTE per file so that the result shows the traversal; include chains of 2..46 files (optionally closed into a cycle) with plain names, names sharing one base name across directories, and nested directories; plus dictionary texts: arbitrary bytes, grammar-derived texts with injected faults, lines of 65535/65536/65537 bytes, CRLF, missing final newline. The real parser runs on an in-memory Opener that records every OpenFile/Close and caps the nesting depth at 64 (unbounded recursion is reported, not a stack overflow). Result (dictionary or error class, file, line) and the open/close trace are compared with the Coq model; direct checks: never a panic, depth cap never reached, every opened file closed, a cycle reachable from the root reported as RecursiveInclude. non-trivial = graph with at least one edge or text with at least one directive"
		r := c.Rng.Fork()
		nf := 3
		if c.Thorough() {
			nf = 4
		}
		total := 1 << uint(nf*nf)
		for g := 0; g < total; g++ {
			// every other graph goes through ParseFile, with an opener whose files report another name than the one they
			// were asked for (as the stock FileSystemOpener reports absolute paths)
			canon := func(i int) string { return fmt.Sprintf("f%d", i) }
			dc := &dictCase{rootName: "f0"}
			if bits.OnesCount(uint(g))%2 == 1 { // not g%2: bit 0 of g is the root's include of itself
				canon = func(i int) string { return fmt.Sprintf("/abs/f%d", i) }
				dc = &dictCase{rootName: canon(0), rootReq: "f0"}
			}
			edges := 0
			for i := 0; i < nf; i++ {
				var sb strings.Builder
				fmt.Fprintf(&sb, "ATTRIBUTE A%d %d string\n", i, i+1)
				for j := 0; j < nf; j++ {
					if g&(1<<uint(i*nf+j)) != 0 {
						fmt.Fprintf(&sb, "$INCLUDE f%d\n", j)
						edges++
					}
				}
				fmt.Fprintf(&sb, "VALUE A%d v%d %d\n", i, i, i)
				if i == 0 {
					dc.rootText = sb.String()
				}
				dc.files = append(dc.files, struct{ req, canon, text string }{fmt.Sprintf("f%d", i), canon(i), sb.String()})
			}
			dc.ignoreIdentical = true // repeated includes of one file re-declare identical attributes
			t, _, op, pan := runDictParse(dc)
			tag := "graph-acyclic"
			// reachability of a cycle from the root, in document order, is the model's business; classify by result
			if len(t.parts) > 1 && t.parts[0] == "i1" && t.parts[1] == "i11" {
				tag = "graph-cycle"
			}
			if edges == 0 {
				tag = "graph-empty"
			}
			if pan {
				c.Fail("spec", "Parse", tag, fmt.Sprintf("graph %d", g), "panic", "dictionary or error", "parsing never panics")
			}
			if op.maxDepth >= op.limit {
				c.Fail("spec", "Parse", tag, fmt.Sprintf("graph %d", g), fmt.Sprintf("%d nested opens", op.maxDepth), "bounded by the number of files", "an include cycle must be reported, not followed without bound")
			}
			if op.depth != 0 {
				c.Fail("spec", "Parse", tag, fmt.Sprintf("graph %d", g), fmt.Sprintf("%d files left open", op.depth), "0", "every file opened for an include is closed")
			}
			// the statement's own oracle on the graph: a cycle is reachable from the root iff some file
			// reachable from the root can reach itself; then and only then RecursiveInclude is the answer
			reach := func(from int) map[int]bool {
				seen := map[int]bool{}
				var dfs func(i int)
				dfs = func(i int) {
					for j := 0; j < nf; j++ {
						if g&(1<<uint(i*nf+j)) != 0 && !seen[j] {
							seen[j] = true
							dfs(j)
						}
					}
				}
				dfs(from)
				return seen
			}
			fromRoot := reach(0)
			fromRoot[0] = true
			cyclic := false
			for i := range fromRoot {
				if reach(i)[i] {
					cyclic = true
				}
			}
			gotCycle := len(t.parts) > 1 && t.parts[0] == "i1" && t.parts[1] == "i11"
			gotOK := len(t.parts) > 0 && t.parts[0] == "i0"
			// where the cycle is reported: the first $INCLUDE, in document order of the traversal, that names a
			// file on the current include path - file and line of that directive
			if cyclic && gotCycle && len(t.parts) >= 4 {
				var walk func(f int, path map[int]bool) (int, int, bool)
				walk = func(f int, path map[int]bool) (int, int, bool) {
					line := 1
					for j := 0; j < nf; j++ {
						if g&(1<<uint(f*nf+j)) == 0 {
							continue
						}
						line++
						if path[j] {
							return f, line, true
						}
						path[j] = true
						ef, el, found := walk(j, path)
						delete(path, j)
						if found {
							return ef, el, true
						}
					}
					return 0, 0, false
				}
				ef, el, _ := walk(0, map[int]bool{0: true})
				want := fmt.Sprintf("b%x i%x", []byte(canon(ef)), el)
				if got := t.parts[2] + " " + t.parts[3]; got != want {
					c.Fail("spec", "Parse", "graph-oracle-position", dc.rootText+fmt.Sprintf(" (graph %d on %d files)", g, nf), got, want, "the cycle is reported at the file and line of the $INCLUDE that closes it")
				}
			}
			if cyclic && !gotCycle {
				c.Fail("spec", "Parse", "graph-oracle", dc.rootText+fmt.Sprintf(" (graph %d on %d files)", g, nf), t.String(), "RecursiveIncludeError", "an include cycle reachable from the root is reported")
			}
			if !cyclic && !gotOK {
				c.Fail("spec", "Parse", "graph-oracle", dc.rootText+fmt.Sprintf(" (graph %d on %d files)", g, nf), t.String(), "accepted", "an acyclic include graph (diamonds and repeated includes included) is accepted")
			}
			c.Add(Case{Req: dc.req(), Impl: t.String(), Tag: tag, NoSpec: true})
		}
		c.Res.Exhaustive = true
		// long chains (the number of nested includes is bounded by nothing but the number of files) and file names
		// that differ only in their directory
		for k := 0; k < c.N(60, 400); k++ {
			depth := 2 + r.Intn(45)
			back := -1 // index the last file includes again (a cycle), or none
			if r.Intn(3) == 0 {
				back = r.Intn(depth)
			}
			name := func(i int) string {
				switch k % 3 {
				case 0:
					return fmt.Sprintf("c%d", i)
				case 1:
					return fmt.Sprintf("dir%d/dictionary", i) // one base name, many directories
				}
				return fmt.Sprintf("d/%d/dictionary.%d", i%2, i)
			}
			dc := &dictCase{rootName: name(0)}
			for i := 0; i < depth; i++ {
				text := fmt.Sprintf("ATTRIBUTE A%d %d string\n", i, i+1)
				if i+1 < depth {
					text += fmt.Sprintf("$INCLUDE %s\n", name(i+1))
				} else if back >= 0 {
					text += fmt.Sprintf("$INCLUDE %s\n", name(back))
				}
				if k%2 == 1 {
					text = strings.TrimSuffix(text, "\n") // the last line is not terminated
				}
				if i == 0 {
					dc.rootText = text
				}
				dc.files = append(dc.files, struct{ req, canon, text string }{name(i), name(i), text})
			}
			t, dd, op, pan := runDictParse(dc)
			gotCycle := len(t.parts) > 1 && t.parts[0] == "i1" && t.parts[1] == "i11"
			gotOK := len(t.parts) > 0 && t.parts[0] == "i0"
			what := fmt.Sprintf("chain of %d files %s .. %s, last file includes %d", depth, name(0), name(depth-1), back)
			if pan || op.depth != 0 {
				c.Fail("spec", "Parse", "chain", what, fmt.Sprint("panic=", pan, " open=", op.depth), "no panic, all closed", "")
			}
			if k%2 == 1 {
				what += ", no file ends with a line terminator"
			}
			if back < 0 && !gotOK {
				c.Fail("spec", "Parse", "chain-oracle", what, t.String(), "accepted", "an acyclic include chain is accepted whatever its depth and whatever the files are called")
			}
			if back < 0 && gotOK && dd != nil && len(dd.Attributes) != depth {
				c.Fail("spec", "Parse", "chain-oracle", what, fmt.Sprintf("%d attributes", len(dd.Attributes)), fmt.Sprintf("%d attributes, one per file", depth), "every line of every included file is read")
			}
			if back >= 0 {
				want := fmt.Sprintf("b%x i%x", []byte(name(depth-1)), 2)
				if !gotCycle || len(t.parts) < 4 || t.parts[2]+" "+t.parts[3] != want {
					c.Fail("spec", "Parse", "chain-oracle", what, t.String(), "RecursiveIncludeError at "+want, "the cycle is reported at the $INCLUDE that closes it")
				}
			}
			c.Add(Case{Req: dc.req(), Impl: t.String(), Tag: "chain", NoSpec: true})
		}
		// canonical name differs from the requested name; cycle detection uses the file's own name
		for k := 0; k < c.N(50, 500); k++ {
			dc := &dictCase{rootName: "root", rootText: "$INCLUDE a\n$INCLUDE b\n"}
			canonA := r.Pick(0, 1)
			names := []string{"root", "x"}
			dc.files = append(dc.files,
				struct{ req, canon, text string }{"a", names[canonA], "ATTRIBUTE P 1 string\n$INCLUDE b\n"},
				struct{ req, canon, text string }{"b", "bb", "ATTRIBUTE Q 2 string\n" + []string{"", "$INCLUDE a\n", "$INCLUDE missing\n"}[r.Intn(3)]})
			dc.ignoreIdentical = r.Bool()
			t, _, op, pan := runDictParse(dc)
			if pan || op.depth != 0 || op.maxDepth >= op.limit {
				c.Fail("spec", "Parse", "canon", dc.rootText, fmt.Sprint(pan, op.depth, op.maxDepth), "no panic, all closed, bounded", "")
			}
			c.Add(Case{Req: dc.req(), Impl: t.String(), Tag: "canonical-names", NoSpec: true})
		}
		// the file and the 1-based line a ParseError names, decided by the statement itself: blank, comment-only and
		// CRLF lines count, an error inside an included file names that file
		for _, lc := range []struct {
			root, inc string
			file      string
			line      int
		}{
			{"\n# c\nBOGUS\n", "", "root", 3},
			{"ATTRIBUTE A 1 string\n\n\nATTRIBUTE A 2 string\n", "", "root", 4},
			{"# x\r\n\r\nATTRIBUTE A 1 nosuchtype\r\n", "", "root", 3},
			{"\n$INCLUDE inc\n", "# c\n\nBOGUS\n", "inc", 3},
			{"\n\n$INCLUDE root\n", "", "root", 3},
			{"ATTRIBUTE A 1 string\n   \n\t\n#\nVALUE A v notanumber\n", "", "root", 5},
			// a last line without a line terminator is a line like any other
			{"\n# c\nBOGUS", "", "root", 3},
			{"ATTRIBUTE A 1 string\n$INCLUDE inc", "\nBOGUS", "inc", 2},
			{"\n\n$INCLUDE root", "", "root", 3},
			{"$INCLUDE inc\n", "ATTRIBUTE A 1 string\n$INCLUDE root", "inc", 2},
			{"ATTRIBUTE A 1 string\r\nATTRIBUTE A 2 string", "", "root", 2},
		} {
			dc := &dictCase{rootName: "root", rootText: lc.root}
			dc.files = append(dc.files, struct{ req, canon, text string }{"inc", "inc", lc.inc})
			t, _, _, _ := runDictParse(dc)
			want := fmt.Sprintf("b%x i%x", []byte(lc.file), lc.line)
			if len(t.parts) < 4 || t.parts[0] != "i1" || t.parts[2]+" "+t.parts[3] != want {
				c.Fail("spec", "Parse", "error-position", lc.root+"--- inc ---\n"+lc.inc, t.String(), "an error at "+want, "a ParseError names the file and the 1-based line of the offending directive")
			}
			c.Count("error-position", lc.root+lc.inc)
		}
		// texts
		directives := []string{"ATTRIBUTE User-Name 1 string", "ATTRIBUTE Pw 2 octets encrypt=1", "VALUE User-Name a 1", "VENDOR Acme 99", "BEGIN-VENDOR Acme", "END-VENDOR Acme", "$INCLUDE inc", "# comment", "", "   ", "ATTRIBUTE X 300.1 octets[12] has_tag,encrypt=2", "VENDOR V2 100 format=2,1"}
		for k := 0; k < c.N(1500, 40000); k++ {
			var text string
			tag := "text-grammar"
			switch k % 6 {
			case 0:
				text = string(asciiBytes(r, r.Intn(120)))
				tag = "text-arbitrary"
			case 1:
				n := r.Pick(65534, 65535, 65536, 65537)
				text = "ATTRIBUTE A 1 string\n#" + strings.Repeat("x", n-1) + "\nATTRIBUTE B 2 string\n"
				if r.Bool() {
					text = strings.TrimSuffix(text, "\n")
				}
				tag = "text-long-line"
			default:
				nl := r.Intn(8)
				var ls []string
				for i := 0; i < nl; i++ {
					l := directives[r.Intn(len(directives))]
					switch r.Intn(8) {
					case 0: // fault: drop or add a field
						f := strings.Fields(l)
						if len(f) > 1 {
							f = f[:len(f)-1]
						}
						l = strings.Join(f, " ")
					case 1:
						l = l + " extra"
					case 2:
						l = strings.Replace(l, " ", "\t \t", 1)
					case 3:
						l = l + " # trailing comment"
					case 4:
						l = "  " + l
					case 5: // fault: a field replaced by a token that stresses the field's own sub-parser
						f := strings.Fields(l)
						if len(f) > 2 {
							f[len(f)-2] = r.PickS("1.", ".1", "1..2", ".", "", "1.x", "-1", "0x", "99999999999999999999", "1.2.3.4.5.6.7.8.9", "octets[", "octets[]", "octets[x]", "octets[-1]", "format=", "format=,", "format=1", "encrypt=", ",", ",,", "has_tag,")
							l = strings.Join(f, " ")
						}
						if len(f) > 1 && r.Bool() {
							f[len(f)-1] = r.PickS("1.", ".1", "1..2", ".", "1.x", "octets[", "octets[]", "octets[99999999999999999999]", "format=1,", "format=,1", "encrypt=x", "encrypt=", ",", "has_tag,,concat", "=")
							l = strings.Join(f, " ")
						}
					}
					ls = append(ls, l)
				}
				sep := "\n"
				if r.Intn(4) == 0 {
					sep = "\r\n"
				}
				text = strings.Join(ls, sep)
				if r.Bool() {
					text += sep
				}
			}
			dc := &dictCase{rootName: "root", rootText: text}
			dc.files = append(dc.files, struct{ req, canon, text string }{"inc", "inc", "ATTRIBUTE Inc 77 integer\n"})
			dc.ignoreIdentical = r.Intn(3) == 0
			t, _, op, pan := runDictParse(dc)
			if pan {
				c.Fail("spec", "Parse", tag, text, "panic", "dictionary or error", "parsing never panics")
			}
			if op.depth != 0 {
				c.Fail("spec", "Parse", tag, text, fmt.Sprintf("%d files left open", op.depth), "0", "every file opened for an include is closed")
			}
			if len(t.parts) > 0 && t.parts[0] == "i0" {
				tag += "+ok"
			}
			c.Add(Case{Req: dc.req(), Impl: t.String(), Tag: tag, NoSpec: true})
		}
		c.Trivial("graph-empty", "text-arbitrary")
		c.Flush()
		c.RequireTags("chain", "graph-acyclic", "graph-cycle", "graph-empty", "canonical-names", "error-position", "text-grammar", "text-grammar+ok", "text-long-line", "text-arbitrary")
	}
}

// printable ASCII plus the separators the lexer cares about
func asciiBytes(r *Rng, n int) []byte {
	alphabet := []byte("ATRIBUEVLNDOG$#-=,.[]0123456789abcxyz \t\r\n\v\f")
	b := make([]byte, n)
	for i := range b {
		b[i] = alphabet[r.Intn(len(alphabet))]
	}
	return b
}
