package main

import (
	"fmt"
	"strings"

	"layeh.com/radius/dictionary"
)

// ---- abstract dictionaries ----
type aAttr struct {
	name, oid, typ string
	flags          []string
}
type aDecl struct {
	kind string // attr, value, vendor, begin, end
	toks []string
}

var typeNames = []string{"string", "octets", "ipaddr", "date", "integer", "ipv6addr", "ipv6prefix", "ifid", "integer64", "vsa", "ether", "abinary", "byte", "short", "signed", "tlv", "ipv4prefix"}

func randCase(r *Rng, s string) string {
	b := []byte(s)
	for i := range b {
		if b[i] >= 'a' && b[i] <= 'z' && r.Intn(3) == 0 {
			b[i] -= 32
		}
	}
	return string(b)
}

func genDecls(r *Rng) []aDecl {
	var ds []aDecl
	nv := r.Intn(3)
	var vendors []string
	usedNum := map[int]bool{}
	for i := 0; i < nv; i++ {
		name := fmt.Sprintf("Vend%d", i)
		num := 1 + r.Intn(40000)
		for usedNum[num] {
			num++
		}
		usedNum[num] = true
		toks := []string{"VENDOR", name, fmt.Sprint(num)}
		if r.Intn(3) == 0 {
			toks = append(toks, fmt.Sprintf("format=%d,%d", r.Pick(1, 2, 4), r.Pick(0, 1, 2)))
		}
		ds = append(ds, aDecl{"vendor", toks})
		vendors = append(vendors, name)
	}
	attrN := 0
	mkAttr := func(prefix string) aDecl {
		attrN++
		name := fmt.Sprintf("%sAttr-%d", prefix, attrN)
		oid := fmt.Sprint(1 + r.Intn(300))
		for k := r.Intn(3); k > 0 && r.Intn(3) == 0; k-- {
			oid += "." + fmt.Sprint(r.Intn(256))
		}
		typ := typeNames[r.Intn(len(typeNames))]
		if r.Intn(6) == 0 {
			typ = fmt.Sprintf("octets[%d]", r.Intn(254))
		}
		typ = randCase(r, typ)
		toks := []string{"ATTRIBUTE", name, oid, typ}
		var fl []string
		if r.Intn(4) == 0 {
			fl = append(fl, "has_tag")
		}
		if r.Intn(4) == 0 {
			fl = append(fl, fmt.Sprintf("encrypt=%d", r.Pick(1, 2, 3, 0)))
		}
		if r.Intn(8) == 0 {
			fl = append(fl, "concat")
		}
		for i := range fl { // any order
			j := r.Intn(i + 1)
			fl[i], fl[j] = fl[j], fl[i]
		}
		if len(fl) > 0 {
			toks = append(toks, strings.Join(fl, ","))
		}
		return aDecl{"attr", toks}
	}
	mkValue := func() aDecl {
		num := fmt.Sprint(r.Intn(70000))
		if r.Intn(6) == 0 {
			num = "0" + num // leading zeros are decimal, not octal
		}
		if r.Intn(3) == 0 {
			num = fmt.Sprintf("0x%x", r.Intn(1<<20))
			if r.Bool() {
				num = "0x" + strings.ToUpper(num[2:])
			}
		}
		return aDecl{"value", []string{"VALUE", fmt.Sprintf("Attr-%d", 1+r.Intn(attrN+1)), fmt.Sprintf("val%d", r.Intn(50)), num}}
	}
	n := 1 + r.Intn(8)
	for i := 0; i < n; i++ {
		switch {
		case len(vendors) > 0 && r.Intn(4) == 0:
			v := vendors[r.Intn(len(vendors))]
			ds = append(ds, aDecl{"begin", []string{"BEGIN-VENDOR", v}})
			for k := r.Intn(4); k > 0; k-- {
				if r.Intn(3) == 0 {
					ds = append(ds, mkValue())
				} else {
					ds = append(ds, mkAttr(v+"-"))
				}
			}
			ds = append(ds, aDecl{"end", []string{"END-VENDOR", v}})
		case r.Intn(3) == 0:
			ds = append(ds, mkValue())
		default:
			ds = append(ds, mkAttr(""))
		}
	}
	return ds
}

func randWS(r *Rng, min int) string {
	ws := []string{" ", "\t", "  ", " \t ", "\v", "\f", "\t\t"}
	s := ""
	for i := 0; i < min || (r.Intn(3) == 0 && i < 3); i++ {
		s += ws[r.Intn(len(ws))]
	}
	return s
}

// renderDecls lays the declarations out with random spacing, comments, blank lines, line endings
func renderDecls(r *Rng, ds []aDecl, canonical bool) string {
	var sb strings.Builder
	eol := "\n"
	if !canonical && r.Intn(4) == 0 {
		eol = "\r\n"
	}
	for _, d := range ds {
		if !canonical {
			for r.Intn(5) == 0 {
				switch r.Intn(3) {
				case 0:
					sb.WriteString(eol)
				case 1:
					sb.WriteString(randWS(r, 1) + eol)
				default:
					sb.WriteString(randWS(r, 0) + "# a comment ATTRIBUTE x 1 string" + eol)
				}
			}
			sb.WriteString(randWS(r, 0))
		}
		for i, t := range d.toks {
			if i > 0 {
				if canonical {
					sb.WriteString(" ")
				} else {
					sb.WriteString(randWS(r, 1))
				}
			}
			sb.WriteString(t)
		}
		if !canonical {
			sb.WriteString(randWS(r, 0))
			if r.Intn(5) == 0 {
				sb.WriteString("# trailing" + randWS(r, 0))
			}
		}
		sb.WriteString(eol)
	}
	s := sb.String()
	if !canonical && r.Intn(4) == 0 {
		s = strings.TrimSuffix(s, eol)
	}
	return s
}

func parseText(text string, ign bool) (*Toks, *dictionary.Dictionary) {
	dc := &dictCase{rootName: "d", rootText: text, ignoreIdentical: ign}
	t, d, _, _ := runDictParse(dc)
	return t, d
}

func init() {
	props["C16"] = func(c *Ctx) {
		c.Res.Rule = "random abstract dictionaries (vendors with/without format, vendor blocks, attributes of every type incl. octets[n] with random letter case, dotted numbers, every flag combination in any order, decimal and hex values) rendered (a) canonically and (b) with a random layout (indentation, tabs/vertical tabs/form feeds, blank and whitespace-only lines, comment lines, trailing comments, CRLF, missing final newline): both renderings must give the same result on the real parser and both are compared with the Coq model; then every single-fault mutation of the canonical text at every position (drop/duplicate/garble a token, duplicate a declaration, unknown type/flag, repeated flag, non-numeric number, vendor-block misuse): error class and line compared with the model. non-trivial = accepted dictionary with at least one vendor block or a rejected mutation"
		r := c.Rng.Fork()
		n := c.N(400, 8000)
		for i := 0; i < n; i++ {
			ds := genDecls(r)
			canon := renderDecls(r, ds, true)
			t0, _ := parseText(canon, false)
			laid := renderDecls(r, ds, false)
			t1, _ := parseText(laid, false)
			ok := len(t0.parts) > 0 && t0.parts[0] == "i0"
			tag := "dict-rejected"
			if ok {
				tag = "dict-ok"
				if strings.Contains(canon, "BEGIN-VENDOR") {
					tag = "dict-ok-vendorblock"
				}
				// layout must not change the result
				if t0.String() != t1.String() {
					c.Fail("spec", "Parse", "layout", laid, t1.String(), t0.String(), "layout (spacing, comments, blank lines, letter case of type names) never changes the result")
				}
			}
			dc0 := &dictCase{rootName: "d", rootText: canon}
			dc1 := &dictCase{rootName: "d", rootText: laid}
			c.Add(Case{Req: dc0.req(), Impl: t0.String(), Tag: tag, NoSpec: true})
			c.Add(Case{Req: dc1.req(), Impl: t1.String(), Tag: "layout", NoSpec: true})
			if !ok || i%4 != 0 {
				continue
			}
			// single-fault mutations at every position
			lines := strings.Split(strings.TrimSuffix(canon, "\n"), "\n")
			for li := range lines {
				toks := strings.Fields(lines[li])
				var muts []string
				for ti := range toks {
					dropped := append(append([]string{}, toks[:ti]...), toks[ti+1:]...)
					muts = append(muts, strings.Join(dropped, " "))
					garbled := append([]string{}, toks...)
					garbled[ti] = garbled[ti] + "?"
					muts = append(muts, strings.Join(garbled, " "))
				}
				muts = append(muts, lines[li]+" extra", lines[li]+"\n"+lines[li])
				if toks[0] == "ATTRIBUTE" {
					a := append([]string{}, toks...)
					a[3] = "strin"
					muts = append(muts, strings.Join(a, " "))
					b := append([]string{}, toks[:4]...)
					muts = append(muts, strings.Join(b, " ")+" has_tag,has_tag", strings.Join(b, " ")+" encrypt=1,encrypt=2", strings.Join(b, " ")+" bogus", strings.Join(b, " ")+" encrypt=x", strings.Join(b, " ")+" concat,concat")
					o := append([]string{}, toks...)
					o[2] = r.PickS("", ".", "1..2", ".1", "1.", "x", "1.x")
					if o[2] != "" {
						muts = append(muts, strings.Join(o, " "))
					}
				}
				if toks[0] == "VALUE" {
					v := append([]string{}, toks...)
					v[3] = r.PickS("0x", "0xZZ", "-1", "12a", "4294967296", "0x100000000", "+5", "010", "09", "0X1F", "0b101", "0o17", "1_000", "0x1_0", "00", "0x", "1e3", "٣")
					muts = append(muts, strings.Join(v, " "))
				}
				if toks[0] == "VENDOR" {
					v := append([]string{}, toks[:3]...)
					muts = append(muts, strings.Join(v, " ")+" format=3,1", strings.Join(v, " ")+" format=1,3", strings.Join(v, " ")+" format=1,", strings.Join(v, " ")+" fmt=1,1")
					w := append([]string{}, toks...)
					w[2] = r.PickS("x", "", "2147483648", "-3", "1.5")
					if w[2] != "" {
						muts = append(muts, strings.Join(w, " "))
					}
				}
				if toks[0] == "BEGIN-VENDOR" {
					muts = append(muts, "BEGIN-VENDOR Nobody", lines[li]+"\nBEGIN-VENDOR "+toks[1], lines[li]+"\n$INCLUDE x")
				}
				if toks[0] == "END-VENDOR" {
					muts = append(muts, "END-VENDOR Other", lines[li]+"\nEND-VENDOR "+toks[1], "")
				}
				for _, m := range muts {
					ml := append(append(append([]string{}, lines[:li]...), m), lines[li+1:]...)
					text := strings.Join(ml, "\n") + "\n"
					t, _ := parseText(text, false)
					mtag := "mutation-rejected"
					if t.parts[0] == "i0" {
						mtag = "mutation-accepted"
					}
					dcm := &dictCase{rootName: "d", rootText: text}
					c.Add(Case{Req: dcm.req(), Impl: t.String(), Tag: mtag, NoSpec: true})
				}
			}
		}
		// IgnoreIdenticalAttributes
		for i := 0; i < c.N(100, 2000); i++ {
			a := "ATTRIBUTE A 1 string\n"
			b := []string{"ATTRIBUTE A 1 string\n", "ATTRIBUTE A 2 string\n", "ATTRIBUTE A 1 octets\n", "ATTRIBUTE A 1 string has_tag\n", "ATTRIBUTE B 1 string\n"}[r.Intn(5)]
			ign := r.Bool()
			t, _ := parseText(a+b, ign)
			dc := &dictCase{rootName: "d", rootText: a + b, ignoreIdentical: ign}
			c.Add(Case{Req: dc.req(), Impl: t.String(), Tag: "identical-attributes", NoSpec: true})
		}
		c.Trivial("dict-rejected")
		// VALUE numerals, decided by the statement itself (decimal or 0x-hex, 32 bits): a two-line dictionary per numeral
		type numeral struct {
			text string
			ok   bool
			val  uint64
		}
		for _, nm := range []numeral{{"0", true, 0}, {"7", true, 7}, {"010", true, 10}, {"09", true, 9}, {"007", true, 7}, {"4294967295", true, 4294967295},
			{"4294967296", false, 0}, {"0x1f", true, 31}, {"0x1F", true, 31}, {"0xffffffff", true, 4294967295}, {"0x100000000", false, 0}, {"0x", false, 0},
			{"0b101", false, 0}, {"0o17", false, 0}, {"1_000", false, 0}, {"0x1_0", false, 0}, {"1e3", false, 0}, {"-1", false, 0}, {"+5", false, 0}, {"12a", false, 0}, {"", false, 0}} {
			text := "ATTRIBUTE A 1 integer\nVALUE A v " + nm.text + "\n"
			d, err := (&dictionary.Parser{Opener: &memOpener{files: map[string]memEntry{"d": {"d", text}}, limit: 4}}).ParseFile("d")
			switch {
			case nm.ok && (err != nil || len(d.Values) != 1 || d.Values[0].Number != nm.val):
				c.Fail("spec", "Parser.ParseFile", "numeral", text, fmt.Sprintf("%v %v", d, err), fmt.Sprintf("VALUE number %d", nm.val), "VALUE numbers are decimal or 0x-hex")
			case !nm.ok && err == nil && nm.text != "":
				c.Fail("spec", "Parser.ParseFile", "numeral", text, fmt.Sprintf("accepted as %d", d.Values[0].Number), "rejected", "non-numeric numbers are rejected")
			}
			c.Count("numeral", nm.text)
		}
		// attribute numbers: the recorded number is the declared one, or the declaration is rejected - never a wrapped value
		for _, on := range []struct {
			text string
			want []int
		}{{"1", []int{1}}, {"26.9.1", []int{26, 9, 1}}, {"9223372036854775807", []int{9223372036854775807}}, {"9223372036854775808", nil},
			{"99999999999999999999", nil}, {"18446744073709551617", nil}, {"1.99999999999999999999", nil}, {"241.18446744073709551616.3", nil}} {
			text := "ATTRIBUTE A " + on.text + " string\n"
			d, err := (&dictionary.Parser{Opener: &memOpener{files: map[string]memEntry{"d": {"d", text}}, limit: 4}}).ParseFile("d")
			got := "rejected"
			if err == nil {
				got = fmt.Sprint([]int(d.Attributes[0].OID))
			}
			want := "rejected"
			if on.want != nil {
				want = fmt.Sprint(on.want)
			}
			if got != want {
				c.Fail("spec", "Parser.ParseFile", "attribute-number", text, got, want, "the returned Dictionary lists the declared numbers; a number that cannot be represented is rejected, not wrapped")
			}
			c.Count("attribute-number", on.text)
		}
		// spellings of the type: octets[n] takes a decimal n between the brackets and nothing else; no other type takes a size
		for _, ty := range []struct {
			text string
			ok   bool
			size int
		}{{"octets[12]", true, 12}, {"OCTETS[12]", true, 12}, {"Octets[1]", true, 1}, {"octets", true, -1}, {"octets[8", false, 0}, {"OCTETS[12", false, 0},
			{"octets[8]x", false, 0}, {"octets[8]]", false, 0}, {"octets[]", false, 0}, {"octets[x]", false, 0}, {"octets[", false, 0}, {"octets]", false, 0},
			{"string[8]", false, 0}, {"integer[4]", false, 0}, {"octets[8][9]", false, 0}, {"[8]", false, 0}} {
			text := "ATTRIBUTE A 1 " + ty.text + "\n"
			d, err := (&dictionary.Parser{Opener: &memOpener{files: map[string]memEntry{"d": {"d", text}}, limit: 4}}).ParseFile("d")
			got := "rejected"
			if err == nil {
				got = fmt.Sprintf("%v size %v", d.Attributes[0].Type, d.Attributes[0].Size)
			}
			want := "rejected"
			if ty.ok {
				want = fmt.Sprintf("octets size %v", dictionary.IntFlag{Int: ty.size, Valid: true})
				if ty.size < 0 {
					want = fmt.Sprintf("octets size %v", dictionary.IntFlag{})
				}
			}
			if got != want {
				c.Fail("spec", "Parser.ParseFile", "type-spelling", text, got, want, "the types are the listed names and octets[n]; anything else is an unknown type and is rejected")
			}
			c.Count("type-spelling", ty.text)
		}
		// what is recorded for an accepted declaration, decided by the statement itself
		{
			text := "VENDOR V4 9 format=4,0\nVENDOR V2 10 format=2,1\nVENDOR V1 11 format=1,2\nVENDOR V0 12\n" +
				"ATTRIBUTE A 7 octets[12] encrypt=2,has_tag\nATTRIBUTE B 8.9 ipaddr\nATTRIBUTE C 300 string concat\nVALUE A on 0x10\nBEGIN-VENDOR V2\nATTRIBUTE D 1 integer\nVALUE D x 5\nEND-VENDOR V2\n"
			d, err := (&dictionary.Parser{Opener: &memOpener{files: map[string]memEntry{"d": {"d", text}}, limit: 4}}).ParseFile("d")
			got := ""
			if err != nil {
				got = err.Error()
			} else {
				for _, v := range d.Vendors {
					got += fmt.Sprintf("%s %d %d/%d attrs=%d vals=%d;", v.Name, v.Number, v.GetTypeOctets(), v.GetLengthOctets(), len(v.Attributes), len(v.Values))
				}
				for _, a := range d.Attributes {
					got += fmt.Sprintf("%s %v %v size=%v enc=%v tag=%v concat=%v;", a.Name, a.OID, a.Type, a.Size, a.FlagEncrypt, a.FlagHasTag, a.FlagConcat)
				}
				for _, v := range d.Values {
					got += fmt.Sprintf("%s %s %d;", v.Attribute, v.Name, v.Number)
				}
			}
			want := "V4 9 4/0 attrs=0 vals=0;V2 10 2/1 attrs=1 vals=1;V1 11 1/2 attrs=0 vals=0;V0 12 1/1 attrs=0 vals=0;" +
				"A 7 octets size={12 true} enc={2 true} tag={true true} concat={false false};B 8.9 ipaddr size={0 false} enc={0 false} tag={false false} concat={false false};" +
				"C 300 string size={0 false} enc={0 false} tag={false false} concat={true true};A on 16;"
			if got != want {
				c.Fail("spec", "Parser.ParseFile", "recorded", text, got, want, "the returned Dictionary lists precisely the declared names, numbers, types, flags and vendor formats, declarations inside a vendor block attached to that vendor")
			}
			c.Count("recorded", text)
		}
		// where a declaration is recorded does not depend on what else carries the same name, nor on how the text
		// is spread over files
		dump := func(d *dictionary.Dictionary, err error) string {
			if err != nil {
				return "error: " + err.Error()
			}
			got := ""
			for _, a := range d.Attributes {
				got += fmt.Sprintf("%s %v %v;", a.Name, a.OID, a.Type)
			}
			for _, v := range d.Values {
				got += fmt.Sprintf("%s.%s=%d;", v.Attribute, v.Name, v.Number)
			}
			for _, v := range d.Vendors {
				got += fmt.Sprintf("[%s %d:", v.Name, v.Number)
				for _, a := range v.Attributes {
					got += fmt.Sprintf("%s %v %v;", a.Name, a.OID, a.Type)
				}
				for _, x := range v.Values {
					got += fmt.Sprintf("%s.%s=%d;", x.Attribute, x.Name, x.Number)
				}
				got += "]"
			}
			return got
		}
		for _, pl := range []struct {
			files map[string]string
			ign   bool
			want  string
		}{
			// a VALUE inside a vendor block belongs to the vendor, also before its ATTRIBUTE line and also when the
			// top level has an attribute of that name
			{map[string]string{"d": "ATTRIBUTE X 1 integer\nVENDOR V 9\nBEGIN-VENDOR V\nVALUE X on 1\nATTRIBUTE X 2 integer\nEND-VENDOR V\n"}, false,
				"X 1 integer;[V 9:X 2 integer;X.on=1;]"},
			{map[string]string{"d": "ATTRIBUTE X 1 integer\nVENDOR V 9\nBEGIN-VENDOR V\nATTRIBUTE X 2 integer\nVALUE X on 1\nEND-VENDOR V\nVALUE X off 0\n"}, false,
				"X 1 integer;X.off=0;[V 9:X 2 integer;X.on=1;]"},
			{map[string]string{"d": "VENDOR V 9\nBEGIN-VENDOR V\nVALUE Y on 1\nEND-VENDOR V\nATTRIBUTE Y 3 integer\n"}, false,
				"Y 3 integer;[V 9:Y.on=1;]"},
			// one file included twice (a diamond, and twice in a row) is not a cycle
			{map[string]string{"d": "$INCLUDE a\n$INCLUDE b\n", "a": "ATTRIBUTE A 1 string\n$INCLUDE common\n", "b": "ATTRIBUTE B 2 string\n$INCLUDE common\n", "common": "ATTRIBUTE C 3 integer\n"}, true,
				"A 1 string;C 3 integer;B 2 string;"},
			{map[string]string{"d": "$INCLUDE common\n$INCLUDE common\nATTRIBUTE A 1 string\n", "common": "ATTRIBUTE C 3 integer\n"}, true,
				"C 3 integer;A 1 string;"},
			{map[string]string{"d": "$INCLUDE a\n$INCLUDE a\n", "a": "$INCLUDE common\n", "common": "VENDOR V 9\n"}, true, "error"},
		} {
			files := map[string]memEntry{}
			for n, t := range pl.files {
				files[n] = memEntry{n, t}
			}
			got := dump((&dictionary.Parser{Opener: &memOpener{files: files, limit: 8}, IgnoreIdenticalAttributes: pl.ign}).ParseFile("d"))
			if got != pl.want && !(pl.want == "error" && strings.HasPrefix(got, "error: ") && !strings.Contains(got, "recursive")) {
				c.Fail("spec", "Parser.ParseFile", "placement", fmt.Sprint(pl.files), got, pl.want, "declarations inside a vendor block are attached to that vendor; a file included twice without a cycle is read twice, not refused as recursive")
			}
			c.Count("placement", fmt.Sprint(pl.files))
		}
		// duplicate names are per scope (top level, or one vendor), decided by the statement itself
		for _, du := range []struct {
			text string
			ok   bool
		}{
			{"ATTRIBUTE A 1 string\nATTRIBUTE A 2 string\n", false},
			{"ATTRIBUTE A 1 string\nATTRIBUTE B 2 string\n", true},
			{"VENDOR V 9\nBEGIN-VENDOR V\nATTRIBUTE A 1 string\nATTRIBUTE A 2 string\nEND-VENDOR V\n", false},
			{"VENDOR V 9\nATTRIBUTE A 1 string\nBEGIN-VENDOR V\nATTRIBUTE A 1 string\nEND-VENDOR V\n", true},
			{"VENDOR V 9\nVENDOR W 10\nBEGIN-VENDOR V\nATTRIBUTE A 1 string\nEND-VENDOR V\nBEGIN-VENDOR W\nATTRIBUTE A 1 string\nEND-VENDOR W\n", true},
			{"VENDOR V 9\nBEGIN-VENDOR V\nATTRIBUTE A 1 string\nEND-VENDOR V\nATTRIBUTE B 1 string\nATTRIBUTE B 2 string\n", false},
			{"VENDOR V 9\nVENDOR V 10\n", false},
			{"VENDOR V 9\nVENDOR W 9\n", false},
			// vendor blocks: mismatched, nested, unclosed, unopened, unknown
			{"VENDOR V 9\nVENDOR W 10\nBEGIN-VENDOR V\nEND-VENDOR W\n", false},
			{"VENDOR V 9\nVENDOR W 10\nBEGIN-VENDOR V\nBEGIN-VENDOR W\nEND-VENDOR W\nEND-VENDOR V\n", false},
			{"VENDOR V 9\nBEGIN-VENDOR V\nATTRIBUTE A 1 string\n", false},
			{"VENDOR V 9\nEND-VENDOR V\n", false},
			{"BEGIN-VENDOR V\nEND-VENDOR V\n", false},
			{"VENDOR V 9\nBEGIN-VENDOR V\nEND-VENDOR V\nBEGIN-VENDOR V\nATTRIBUTE A 1 string\nEND-VENDOR V\n", true},
		} {
			_, err := (&dictionary.Parser{Opener: &memOpener{files: map[string]memEntry{"d": {"d", du.text}}, limit: 4}}).ParseFile("d")
			if du.ok != (err == nil) {
				c.Fail("spec", "Parser.ParseFile", "duplicates", du.text, fmt.Sprint(err), map[bool]string{true: "accepted", false: "rejected"}[du.ok], "duplicate attribute names are rejected within a scope (top level or one vendor), and only there; duplicate vendor names or numbers and nested/mismatched/unclosed vendor blocks are rejected")
			}
			c.Count("duplicates", du.text)
		}
		// flag lists, decided by the statement itself: any order, no repetition
		for _, fl := range []struct {
			text string
			ok   bool
		}{{"has_tag", true}, {"concat", true}, {"encrypt=1", true}, {"has_tag,concat", true}, {"concat,has_tag", true}, {"encrypt=2,has_tag", true}, {"has_tag,encrypt=2", true},
			{"concat,encrypt=1,has_tag", true}, {"has_tag,has_tag", false}, {"concat,concat", false}, {"encrypt=1,encrypt=1", false}, {"encrypt=1,encrypt=2", false},
			{"has_tag,concat,has_tag", false}, {"concat,has_tag,concat", false}, {"bogus", false}, {"has_tag,bogus", false}, {"encrypt=", false}, {"encrypt=x", false}} {
			text := "ATTRIBUTE A 1 octets " + fl.text + "\n"
			_, err := (&dictionary.Parser{Opener: &memOpener{files: map[string]memEntry{"d": {"d", text}}, limit: 4}}).ParseFile("d")
			if fl.ok != (err == nil) {
				c.Fail("spec", "Parser.ParseFile", "flags", text, fmt.Sprint(err), map[bool]string{true: "accepted", false: "rejected"}[fl.ok], "flags in any order are accepted; unknown and repeated flags are rejected")
			}
			c.Count("flags", fl.text)
		}
		c.Flush()
		c.RequireTags("dict-ok", "dict-ok-vendorblock", "type-spelling", "layout", "mutation-rejected", "mutation-accepted", "identical-attributes")
	}
}

func (r *Rng) PickS(xs ...string) string { return xs[r.Intn(len(xs))] }
