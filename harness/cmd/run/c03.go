package main

import (
	"bytes"
	"crypto/md5"
	"crypto/rand"
	"errors"
	"fmt"
	"io"

	"layeh.com/radius"
)

type recReader struct {
	src   *Rng
	calls int
	n     int
	data  []byte
}

func (r *recReader) Read(p []byte) (int, error) {
	r.calls++
	b := r.src.Bytes(len(p))
	copy(p, b)
	r.n += len(p)
	r.data = append(r.data, b...)
	return len(p), nil
}

func withRand(rd io.Reader, f func()) {
	old := rand.Reader
	rand.Reader = rd
	defer func() { rand.Reader = old }()
	f()
}

// attributes filling a datagram to 4000..4096 bytes
func bigAttrs(r *Rng) []aop {
	var as []aop
	for k := 0; k < 15; k++ {
		as = append(as, aop{0, r.Pick(1, 2, 255), r.Bytes(253)})
	}
	total := 20 + 15*255
	want := 4096 - r.Pick(0, 0, 1, 2, 3, 16, 64, 96)
	for total+2 <= want {
		n := want - total - 2
		if n > 253 {
			n = 253
		}
		as = append(as, aop{0, 5, r.Bytes(n)})
		total += n + 2
	}
	return as
}

func init() {
	props["C03"] = func(c *Ctx) {
		c.Res.Rule = "Encode for every code 0..255, {-1,256,1000} and every defined code +-256, +65536, +2^32 x secrets (incl. empty, 64..66 bytes and up to 465) x attribute lists; IsAuthenticResponse/IsAuthenticRequest on authentic datagrams and on every single-bit flip of the 20 header bytes, sampled body flips, every truncation length, extensions, wrong secret (extended, a proper prefix, last byte changed), datagrams of 4000..4096 bytes with secrets beyond 64 bytes, wrong request, empty secret; New with crypto/rand.Reader replaced by a recording reader (exactly 17 bytes drawn, layout identifier|authenticator); Response field copy. non-trivial = hashed code path or a corrupted authentic datagram"
		r := c.Rng.Fork()
		// Encode: every code
		codes := []int{-1, 256, 1000}
		for k := 0; k < 256; k++ {
			codes = append(codes, k)
		}
		// codes outside 0..255 whose low byte is a defined code: unknown all the same
		for _, d := range []int{1, 2, 3, 4, 5, 11, 12, 13, 40, 41, 42, 43, 44, 45} {
			codes = append(codes, d+256, d-256, d+65536, d+(1<<32))
		}
		rounds := c.N(2, 12)
		for round := 0; round < rounds; round++ {
			for _, code := range codes {
				m := genPacket(r)
				m.code = code
				if round%2 == 0 && len(m.attrs) > 8 {
					m.attrs = m.attrs[:3]
				}
				if r.Intn(5) == 0 {
					m.sec = nil
				}
				if r.Intn(6) == 0 {
					m.sec = r.Bytes(64 + r.Intn(3) + r.Intn(2)*r.Intn(400))
				}
				t, _ := implBytesRes(func() ([]byte, error) { return m.packet().Encode() })
				tag := "encode-unknown"
				switch code {
				case 1, 12:
					tag = "encode-verbatim"
				case 4, 40, 43:
					tag = "encode-zero"
				case 2, 3, 5, 11, 41, 42, 44, 45:
					tag = "encode-reply"
				}
				if t.parts[0] != "i0" && tag != "encode-unknown" {
					tag += "-err"
				}
				c.Add(T(m.req("encode"), t, tag))
				// Encode is a function of the packet: it leaves the packet as it was, so encoding it again gives the same bytes
				if round == 0 {
					p := m.packet()
					authBefore := p.Authenticator
					b1, e1 := p.Encode()
					b2, e2 := p.Encode()
					if (e1 == nil) != (e2 == nil) || !bytes.Equal(b1, b2) || p.Authenticator != authBefore {
						c.Fail("spec", "encode;encode", tag, m.req("encode").Line(""), fmt.Sprintf("second Encode: %x (%v), Authenticator field now %x", b2, e2, p.Authenticator[:]),
							fmt.Sprintf("%x, Authenticator field %x", b1, authBefore[:]), "Encode computes the wire form from the packet and leaves the packet unchanged: a second Encode returns the same datagram")
					}
				}
			}
		}
		// authentic pairs and their corruptions
		n := c.N(60, 1500)
		for i := 0; i < n; i++ {
			sec := r.Bytes(1 + r.Intn(12))
			if i%5 == 4 {
				sec = r.Bytes(64 + r.Intn(3) + r.Intn(2)*r.Intn(400))
			}
			reqp := genPacket(r)
			reqp.code = r.Pick(1, 4, 12, 40, 43)
			reqp.sec = sec
			huge := i%15 == 14 // datagrams of 4000..4096 bytes, with the long secrets too
			if len(reqp.attrs) > 6 && !huge {
				reqp.attrs = reqp.attrs[:4]
			}
			if huge {
				reqp.attrs = bigAttrs(r)
			}
			q, err := reqp.packet().Encode()
			if err != nil {
				continue
			}
			// request predicate on the encoded request and on corruptions
			addReq := func(b, s []byte, tag string) {
				t := &Toks{}
				t.Bool(radius.IsAuthenticRequest(b, s))
				c.Add(T(Req{Name: "isreq", Bs: [][]byte{b, s}}, t, tag))
			}
			addReq(q, sec, fmt.Sprintf("isreq-authentic-%d", reqp.code))
			for bit := 0; bit < 160; bit += 1 + r.Intn(3) {
				if huge && bit%32 != 0 {
					continue
				}
				b := append([]byte(nil), q...)
				b[bit/8] ^= 1 << uint(bit%8)
				addReq(b, sec, "isreq-hdr-flip")
			}
			if len(q) > 20 {
				b := append([]byte(nil), q...)
				b[20+r.Intn(len(q)-20)] ^= byte(1 << uint(r.Intn(8)))
				addReq(b, sec, "isreq-body-flip")
			}
			addReq(q, nil, "isreq-empty-secret")
			addReq(q, append(append([]byte(nil), sec...), 1), "isreq-wrong-secret")
			addReq(q[:r.Intn(len(q))], sec, "isreq-truncated")
			addReq(append(append([]byte(nil), q...), r.Bytes(1+r.Intn(4))...), sec, "isreq-extended")
			for _, code := range []int{0, 2, 3, 5, 11, 13, 41, 44, 255} {
				if huge && code != 2 {
					continue
				}
				b := append([]byte(nil), q...)
				b[0] = byte(code)
				addReq(b, sec, "isreq-other-code")
				// the same code carrying a correct request-style digest (MD5 over the datagram with a zero
				// authenticator field and the secret): still not a request code, so still not authentic
				h := md5.New()
				h.Write(b[:4])
				h.Write(make([]byte, 16))
				h.Write(b[20:])
				h.Write(sec)
				copy(b[4:20], h.Sum(nil))
				addReq(b, sec, "isreq-other-code-digest")
			}

			// a reply
			reqParsed, _ := radius.Parse(q, sec)
			respm := genPacket(r)
			respm.code = r.Pick(2, 3, 5, 11, 41, 42, 44, 45)
			if len(respm.attrs) > 6 {
				respm.attrs = respm.attrs[:4]
			}
			if huge {
				respm.attrs = bigAttrs(r)
			}
			resp := reqParsed.Response(radius.Code(respm.code))
			for _, a := range respm.attrs {
				resp.Add(radius.Type(a.k), a.v)
			}
			w, err := resp.Encode()
			if err != nil {
				continue
			}
			addResp := func(b, qq, s []byte, tag string) {
				t := &Toks{}
				t.Bool(radius.IsAuthenticResponse(b, qq, s))
				c.Add(T(Req{Name: "isresp", Bs: [][]byte{b, qq, s}}, t, tag))
			}
			addResp(w, q, sec, "isresp-authentic")
			if !radius.IsAuthenticResponse(w, q, sec) {
				c.Fail("spec", "encode;isresp", "isresp-authentic", hx(w)+" "+hx(q), "false", "true", "a reply built with Response+Encode must verify against its request")
			}
			for bit := 0; bit < 160; bit++ {
				if huge && bit%40 != 7 {
					continue
				}
				b := append([]byte(nil), w...)
				b[bit/8] ^= 1 << uint(bit%8)
				addResp(b, q, sec, "isresp-hdr-flip")
			}
			for k := 0; k < 6 && len(w) > 20; k++ {
				b := append([]byte(nil), w...)
				b[20+r.Intn(len(w)-20)] ^= byte(1 << uint(r.Intn(8)))
				addResp(b, q, sec, "isresp-body-flip")
			}
			for l := 0; l < len(w); l += 1 + r.Intn(4) {
				if huge {
					l += len(w) / 3
				}
				if l < len(w) {
					addResp(w[:l], q, sec, "isresp-truncated")
				}
			}
			addResp(append(append([]byte(nil), w...), r.Bytes(1+r.Intn(5))...), q, sec, "isresp-extended")
			addResp(w, q, nil, "isresp-empty-secret")
			addResp(w, q, append([]byte{9}, sec...), "isresp-wrong-secret")
			if len(sec) > 1 {
				// a proper prefix of the secret, and the secret with a changed last byte
				addResp(w, q, sec[:len(sec)-1-r.Intn(len(sec)-1)], "isresp-wrong-secret")
				s2 := append([]byte(nil), sec...)
				s2[len(s2)-1] ^= 0x40
				addResp(w, q, s2, "isresp-wrong-secret")
				addReq(q, s2, "isreq-wrong-secret")
			}
			q2 := append([]byte(nil), q...)
			q2[4+r.Intn(16)] ^= 0x10
			addResp(w, q2, sec, "isresp-other-request")
			q3 := append([]byte(nil), q...)
			q3[0] ^= 0xff // bytes outside 4..20 of the request are not covered
			addResp(w, q3, sec, "isresp-request-uncovered-byte")
			addResp(w, q[:r.Intn(20)], sec, "isresp-short-request")
		}
		// New / Response
		nn := c.N(300, 5000)
		for i := 0; i < nn; i++ {
			rd := &recReader{src: r.Fork()}
			sec := r.Bytes(r.Intn(6))
			code := r.Pick(1, 4, 12, 43, 255, 300)
			var p *radius.Packet
			withRand(rd, func() { p = radius.New(radius.Code(code), sec) })
			t := &Toks{}
			if rd.n != 17 {
				// not drawn from the cryptographic source as the statement requires
				c.Fail("spec", "new", "new", fmt.Sprintf("code=%d", code), fmt.Sprintf("%d bytes read from crypto/rand.Reader in %d calls", rd.n, rd.calls), "17 bytes", "New must draw identifier and authenticator fresh from crypto/rand")
				continue
			}
			t.I(0)
			tPacket(t, p)
			c.Add(Case{Req: Req{Name: "new", Bs: [][]byte{sec, rd.data}, Zs: []string{Z(int64(code))}}, Impl: t.String(), Tag: "new", NoSpec: true})
			// a random source that fails (after k < 17 bytes): no packet with predictable fields may come out
			if i%10 == 0 {
				k := r.Intn(17)
				fr := &failingReader{left: k}
				var q *radius.Packet
				panicked := false
				withRand(fr, func() { panicked = safely(func() { q = radius.New(radius.Code(code), sec) }) })
				if !panicked && q != nil {
					c.Fail("spec", "new", "new-failing-source", fmt.Sprintf("crypto/rand.Reader fails after %d bytes", k), fmt.Sprintf("a packet with identifier %d authenticator %x", q.Identifier, q.Authenticator[:]), "no packet (panic)", "New draws identifier and authenticator fresh from the cryptographic source; when the source fails it must not hand out a packet with predictable fields")
				}
				c.Count("new-failing-source", fmt.Sprint(k))
			}
			// Response
			m := genPacket(r)
			rc := r.Pick(2, 3, 5, 11, 41, 300)
			q := m.packet().Response(radius.Code(rc))
			t2 := &Toks{}
			tPacket(t2, q)
			rq := m.req("response")
			rq.Zs = append([]string{Z(int64(rc))}, rq.Zs...)
			c.Add(Case{Req: rq, Impl: t2.String(), Tag: "response", NoSpec: true})
		}
		c.Trivial("encode-unknown", "isreq-other-code")
		c.Flush()
		c.RequireTags("encode-verbatim", "encode-zero", "encode-reply", "encode-unknown", "isreq-authentic-1", "isreq-authentic-4", "isreq-authentic-40", "isreq-authentic-43", "isreq-authentic-12", "isreq-other-code-digest",
			"isreq-hdr-flip", "isreq-body-flip", "isreq-empty-secret", "isresp-authentic", "isresp-hdr-flip", "isresp-body-flip", "isresp-truncated", "isresp-extended", "isresp-empty-secret", "isresp-wrong-secret", "isresp-other-request", "new", "new-failing-source", "response")
	}
}

// a random source that delivers `left` bytes and then fails
type failingReader struct{ left int }

func (f *failingReader) Read(p []byte) (int, error) {
	if f.left <= 0 {
		return 0, errors.New("verif: entropy source failed")
	}
	n := len(p)
	if n > f.left {
		n = f.left
	}
	for i := 0; i < n; i++ {
		p[i] = 0
	}
	f.left -= n
	if n < len(p) {
		return n, errors.New("verif: entropy source failed")
	}
	return n, nil
}
