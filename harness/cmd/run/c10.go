package main

import (
	"bytes"
	"fmt"
	"net"
	"time"

	"layeh.com/radius"
)

func implRes(f func() ([]byte, error)) *Toks {
	t, _ := implBytesRes(func() ([]byte, error) {
		b, err := f()
		if err != nil {
			return nil, errInvalid{}
		}
		return b, nil
	})
	return t
}

type errInvalid struct{}

func (errInvalid) Error() string { return "invalid" }

func init() {
	props["C10"] = func(c *Ctx) {
		c.Res.Rule = "per codec: all uint16 exhaustively, boundary+random uint32/uint64; times from year 1 to 2200 incl. -1, 0, 2^32-1, 2^32; IPs of every length 0..20 incl. v4-mapped; every prefix length 0..128 x random, IPv4-mapped, IPv4-compatible, zero, all-ones addresses, 4-byte, short and non-contiguous masks; strings/octets 0..300; vendor ids x payloads 0..260; TLV values 0..260; every decoder on byte strings of every length 0..40 plus random up to 300; each encoder result is decoded by the implementation itself (round trip) and size-checked. non-trivial = accepted by the encoder or reaching a decoder's content checks"
		r := c.Rng.Fork()
		one := func(name string, bs [][]byte, zs []string, t *Toks, tag string) {
			c.Add(T(Req{Name: name, Bs: bs, Zs: zs}, t, tag))
		}
		// integers
		for i := 0; i < 65536; i++ {
			if !c.Thorough() && i%7 != 0 && i > 600 && i < 65000 {
				continue
			}
			v := uint16(i)
			a := radius.NewShort(v)
			one("new_short", nil, []string{ZU(uint64(v))}, (&Toks{}).B(a), "short")
			back, err := radius.Short(a)
			if err != nil || back != v {
				c.Fail("spec", "short", "short", fmt.Sprint(v), fmt.Sprint(back, err), fmt.Sprint(v), "Short(NewShort(v)) = v")
			}
		}
		u32 := []uint64{0, 1, 255, 256, 65535, 65536, 1<<24 - 1, 1 << 24, 1<<31 - 1, 1 << 31, 1<<32 - 1}
		u64 := []uint64{0, 1, 1<<32 - 1, 1 << 32, 1<<63 - 1, 1 << 63, 1<<64 - 1}
		for i := 0; i < c.N(500, 20000); i++ {
			u32 = append(u32, r.U64()&0xffffffff)
			u64 = append(u64, r.U64())
		}
		for _, v := range u32 {
			a := radius.NewInteger(uint32(v))
			one("new_integer", nil, []string{ZU(v)}, (&Toks{}).B(a), "integer")
			if back, err := radius.Integer(a); err != nil || uint64(back) != v {
				c.Fail("spec", "integer", "integer", fmt.Sprint(v), fmt.Sprint(back, err), fmt.Sprint(v), "Integer(NewInteger(v)) = v")
			}
		}
		for _, v := range u64 {
			a := radius.NewInteger64(v)
			one("new_integer64", nil, []string{ZU(v)}, (&Toks{}).B(a), "integer64")
			if back, err := radius.Integer64(a); err != nil || back != v {
				c.Fail("spec", "integer64", "integer64", fmt.Sprint(v), fmt.Sprint(back, err), fmt.Sprint(v), "Integer64(NewInteger64(v)) = v")
			}
		}
		// decoders on arbitrary byte strings
		decode := func(a []byte, tagp string) {
			mk := func(ok bool) string {
				if ok {
					return tagp + "-accepted"
				}
				return tagp + "-rejected"
			}
			{
				t := &Toks{}
				v, err := radius.Integer(a)
				if err != nil {
					t.E(8)
				} else {
					t.I(0).U(uint64(v))
				}
				one("integer", [][]byte{a}, nil, t, mk(err == nil))
			}
			{
				t := &Toks{}
				v, err := radius.Short(a)
				if err != nil {
					t.E(8)
				} else {
					t.I(0).U(uint64(v))
				}
				one("short", [][]byte{a}, nil, t, mk(err == nil))
			}
			{
				t := &Toks{}
				v, err := radius.Integer64(a)
				if err != nil {
					t.E(8)
				} else {
					t.I(0).U(v)
				}
				one("integer64", [][]byte{a}, nil, t, mk(err == nil))
			}
			{
				ip, err := radius.IPAddr(a)
				one("ipaddr", [][]byte{a}, nil, implRes(func() ([]byte, error) { return ip, err }), mk(err == nil))
				ip6, err := radius.IPv6Addr(a)
				one("ipv6addr", [][]byte{a}, nil, implRes(func() ([]byte, error) { return ip6, err }), mk(err == nil))
				hw, err := radius.IFID(a)
				one("ifid", [][]byte{a}, nil, implRes(func() ([]byte, error) { return hw, err }), mk(err == nil))
			}
			{
				t := &Toks{}
				tm, err := radius.Date(a)
				if err != nil {
					t.E(8)
				} else {
					t.I(0).I(tm.Unix())
				}
				one("date", [][]byte{a}, nil, t, mk(err == nil))
			}
			{
				t := &Toks{}
				id, v, err := radius.VendorSpecific(a)
				if err != nil {
					t.E(8)
				} else {
					t.I(0).U(uint64(id)).B(v)
				}
				one("vsa", [][]byte{a}, nil, t, mk(err == nil))
			}
			{
				t := &Toks{}
				var ty byte
				var v radius.Attribute
				var err error
				if safely(func() { ty, v, err = radius.TLV(a) }) {
					t.I(2)
				} else if err != nil {
					t.E(8)
				} else {
					t.I(0).U(uint64(ty)).B(v)
				}
				one("tlv", [][]byte{a}, nil, t, mk(err == nil))
			}
			{
				t := &Toks{}
				var n *net.IPNet
				var err error
				if safely(func() { n, err = radius.IPv6Prefix(a) }) {
					t.I(2)
				} else if err != nil {
					t.E(8)
				} else {
					t.I(0).B(n.IP).B(n.Mask)
				}
				one("prefix", [][]byte{a}, nil, t, "prefix-"+mk(err == nil))
			}
		}
		for n := 0; n <= 40; n++ {
			for k := 0; k < c.N(3, 60); k++ {
				a := r.Bytes(n)
				if n >= 2 && r.Bool() {
					a[1] = byte(n) // plausible TLV length / prefix length
				}
				decode(a, "dec")
			}
		}
		for k := 0; k < c.N(100, 3000); k++ {
			decode(r.Bytes(r.Intn(301)), "dec")
		}
		// crafted prefix decoder inputs
		for pl := 0; pl <= 140; pl++ {
			for k := 0; k < c.N(2, 20); k++ {
				nb := (pl + 7) / 8
				if nb > 16 {
					nb = 16
				}
				data := r.Bytes(nb)
				if pl%8 != 0 && nb > 0 && pl <= 128 && r.Intn(4) != 0 {
					data[nb-1] &= byte(0xff << uint(8-pl%8))
				}
				switch r.Intn(6) {
				case 0:
					data = append(data, make([]byte, r.Intn(17-nb+1))...) // extra zero bytes
				case 1:
					if nb > 0 {
						data = data[:nb-1] // fewer bytes than the prefix needs
					}
				case 2:
					data = append(data, byte(1+r.Intn(255)))
				}
				a := append([]byte{byte(r.Pick(0, 0, 0, 7)), byte(pl)}, data...)
				decode(a, "crafted")
			}
		}
		// strings / octets
		for n := 0; n <= 300; n++ {
			s := r.Bytes(n)
			one("new_string", [][]byte{s}, nil, implRes(func() ([]byte, error) { return radius.NewString(string(s)) }), lenTag("string", n, 253))
			one("new_bytes", [][]byte{s}, nil, implRes(func() ([]byte, error) { return radius.NewBytes(s) }), lenTag("bytes", n, 253))
			if a, err := radius.NewBytes(s); err == nil {
				if len(a) > 253 || !bytes.Equal(radius.Bytes(a), s) || radius.String(a) != string(s) {
					c.Fail("spec", "bytes", "bytes", hx(s), hx(radius.Bytes(a)), hx(s), "Bytes(NewBytes(b)) = b within 253")
				}
			}
		}
		// IPs
		for n := 0; n <= 20; n++ {
			for k := 0; k < c.N(6, 80); k++ {
				ip := r.Bytes(n)
				if n == 16 && k%2 == 0 {
					copy(ip, []byte{0, 0, 0, 0, 0, 0, 0, 0, 0, 0, 0xff, 0xff})
					if k%4 == 0 {
						ip[r.Intn(12)] ^= byte(1 << uint(r.Intn(8)))
					}
				}
				a4, err4 := radius.NewIPAddr(net.IP(ip))
				one("new_ipaddr", [][]byte{ip}, nil, implRes(func() ([]byte, error) { return a4, err4 }), fmt.Sprintf("ip4-%v", err4 == nil))
				if err4 == nil {
					back, err := radius.IPAddr(a4)
					if err != nil || !back.Equal(net.IP(ip)) || len(a4) > 253 {
						c.Fail("spec", "ipaddr", "ip", hx(ip), fmt.Sprint(back, err), net.IP(ip).String(), "IPAddr(NewIPAddr(ip)) equals ip")
					}
				}
				a6, err6 := radius.NewIPv6Addr(net.IP(ip))
				one("new_ipv6addr", [][]byte{ip}, nil, implRes(func() ([]byte, error) { return a6, err6 }), fmt.Sprintf("ip6-%v", err6 == nil))
				if err6 == nil {
					back, err := radius.IPv6Addr(a6)
					if err != nil || !back.Equal(net.IP(ip)) {
						c.Fail("spec", "ipv6addr", "ip", hx(ip), fmt.Sprint(back, err), net.IP(ip).String(), "IPv6Addr(NewIPv6Addr(ip)) equals ip")
					}
				}
				hw, errh := radius.NewIFID(net.HardwareAddr(ip))
				one("new_ifid", [][]byte{ip}, nil, implRes(func() ([]byte, error) { return hw, errh }), fmt.Sprintf("ifid-%v", errh == nil))
			}
		}
		// dates
		secs := []int64{-62135596800, -2208988800, -86400, -2, -1, 0, 1, 86400, 1<<31 - 1, 1 << 31, 1<<32 - 2, 1<<32 - 1, 1 << 32, 1<<32 + 1, 7258118400, 1 << 40}
		for i := 0; i < c.N(300, 8000); i++ {
			secs = append(secs, int64(r.U64()%(7258118400+62135596800))-62135596800)
		}
		for _, s := range secs {
			tm := time.Unix(s, int64(r.Intn(1000000000)))
			if tm.Unix() != s {
				tm = time.Unix(s, 0)
			}
			a, err := radius.NewDate(tm)
			tag := "date-refused"
			if err == nil {
				tag = "date-ok"
				back, err2 := radius.Date(a)
				if err2 != nil || back.Unix() != s {
					c.Fail("spec", "date", tag, fmt.Sprint(s), fmt.Sprint(back.Unix(), err2), fmt.Sprint(s), "Date(NewDate(t)) = t to the second; unrepresentable times must be refused, not wrapped")
				}
			} else if s < 0 {
				tag = "date-negative"
			}
			one("new_date", nil, []string{Z(s)}, implRes(func() ([]byte, error) { return a, err }), tag)
		}
		// vendor specific / TLV
		for n := 0; n <= 260; n++ {
			v := r.Bytes(n)
			id := uint32(r.U64())
			if n%3 == 0 {
				id = uint32(r.Pick(0, 1, 311, 14122, 1<<24, 1<<32-1))
			}
			a, err := radius.NewVendorSpecific(id, v)
			tag := lenTag("vsa", n, 249)
			if n == 0 {
				tag = "vsa-empty"
			}
			one("new_vsa", [][]byte{v}, []string{ZU(uint64(id))}, implRes(func() ([]byte, error) { return a, err }), tag)
			if err == nil {
				bid, bv, err2 := radius.VendorSpecific(a)
				if err2 != nil || bid != id || !bytes.Equal(bv, v) || len(a) > 253 {
					c.Fail("spec", "vsa", tag, fmt.Sprintf("%d %x", id, v), fmt.Sprint(bid, bv, err2), fmt.Sprintf("%d %x", id, v), "VendorSpecific(NewVendorSpecific(id,v)) = (id,v); an encoding the decoder rejects must not be emitted")
				}
			}
			ty := byte(r.Intn(256))
			ta, terr := radius.NewTLV(ty, v)
			one("new_tlv", [][]byte{v}, []string{ZU(uint64(ty))}, implRes(func() ([]byte, error) { return ta, terr }), lenTag("tlv", n, 253))
			if terr == nil {
				bt, bv, err2 := radius.TLV(ta)
				if err2 != nil || bt != ty || !bytes.Equal(bv, v) || len(ta) > 255 {
					c.Fail("spec", "tlv", "tlv", hx(v), fmt.Sprint(bt, bv, err2), hx(v), "TLV(NewTLV(t,v)) = (t,v)")
				}
			}
		}
		// prefixes
		for ones := 0; ones <= 128; ones++ {
			for k := 0; k < c.N(3, 40); k++ {
				ip := r.Bytes(16)
				// addresses with structure of their own: IPv4-mapped, IPv4-compatible, all zero, all ones, loopback
				switch r.Intn(7) {
				case 0:
					copy(ip, []byte{0, 0, 0, 0, 0, 0, 0, 0, 0, 0, 0xff, 0xff})
				case 1:
					copy(ip, make([]byte, 12))
				case 2:
					ip = [][]byte{make([]byte, 16), bytes.Repeat([]byte{0xff}, 16), append(make([]byte, 15), 1)}[r.Intn(3)]
				}
				mask := []byte(net.CIDRMask(ones, 128))
				tag := "newprefix-ok"
				switch r.Intn(9) {
				case 0:
					mask = []byte(net.CIDRMask(ones%33, 32))
					tag = "newprefix-v4mask"
				case 1:
					mask = append([]byte(nil), mask...)
					i := r.Intn(16)
					mask[i] ^= byte(1 << uint(r.Intn(8)))
					tag = "newprefix-flipped-mask"
				case 2:
					ip = r.Bytes(r.Pick(0, 4, 15, 17))
					tag = "newprefix-bad-ip"
				case 3:
					mask = r.Bytes(r.Pick(0, 8, 15, 17, 16))
					tag = "newprefix-random-mask"
				}
				var a []byte
				var err error
				pan := safely(func() { a, err = radius.NewIPv6Prefix(&net.IPNet{IP: ip, Mask: mask}) })
				t := &Toks{}
				if pan {
					t.I(2)
				} else if err != nil {
					t.E(8)
				} else {
					t.I(0).B(a)
					if tag == "newprefix-flipped-mask" {
						tag = "newprefix-ok"
					}
					back, err2 := radius.IPv6Prefix(a)
					o, _ := net.IPMask(mask).Size()
					want := net.IP(ip).Mask(net.CIDRMask(o, 128))
					if err2 != nil || !back.IP.Equal(want) || !bytes.Equal(back.Mask, net.CIDRMask(o, 128)) || len(a) > 253 {
						c.Fail("spec", "prefix", tag, hx(ip)+"/"+hx(mask), fmt.Sprint(back, err2), want.String(), "IPv6Prefix(NewIPv6Prefix(n)) = n with host bits cleared")
					}
				}
				one("new_prefix", [][]byte{ip, mask}, nil, t, tag)
			}
		}
		c.Trivial("dec-rejected", "crafted-rejected")
		c.Flush()
		c.RequireTags("short", "integer", "integer64", "dec-accepted", "dec-rejected", "prefix-crafted-accepted", "prefix-crafted-rejected",
			"string-ok", "string-max", "string-over", "ip4-true", "ip4-false", "ip6-true", "ip6-false", "ifid-true", "date-ok", "date-refused", "date-negative",
			"vsa-empty", "vsa-ok", "vsa-max", "vsa-over", "tlv-ok", "tlv-over", "newprefix-ok", "newprefix-v4mask", "newprefix-flipped-mask", "newprefix-bad-ip")
	}
}

func lenTag(p string, n, max int) string {
	switch {
	case n == max:
		return p + "-max"
	case n > max:
		return p + "-over"
	}
	return p + "-ok"
}
