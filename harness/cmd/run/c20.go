package main

import (
	"fmt"
	"strings"

	"layeh.com/radius/dictionary"
)

func genMergeDict(r *Rng, k int) string {
	var sb strings.Builder
	// small name/number pools so that every overlap kind occurs
	for i := 0; i < r.Intn(4); i++ {
		oid := fmt.Sprint(1 + r.Intn(6))
		if r.Intn(4) == 0 {
			// dotted numbers: one is a prefix of another, never equal to it
			oid = r.PickS("5", "5.1", "5.1.1", "5.2", "6.1", "241", "241.1", "241.1.2")
		}
		fmt.Fprintf(&sb, "ATTRIBUTE A%d %s %s\n", r.Intn(6), oid, r.PickS("string", "integer", "octets"))
	}
	for i := 0; i < r.Intn(3); i++ {
		fmt.Fprintf(&sb, "VALUE A%d v%d %d\n", r.Intn(6), r.Intn(4), r.Intn(9))
	}
	nv := r.Intn(3)
	for i := 0; i < nv; i++ {
		name := fmt.Sprintf("V%d", r.Intn(3))
		num := 10 + r.Intn(3)
		if r.Intn(3) != 0 {
			num = 10 + int(name[1]-'0') // usually consistent name/number
		}
		format := ""
		if r.Intn(3) == 0 {
			// the same vendor may carry a format on either side, equal or not: Merge's statement does not look at it
			format = r.PickS(" format=1,1", " format=1,1", " format=2,1", " format=1,0", " format=4,0")
		}
		fmt.Fprintf(&sb, "VENDOR %s %d%s\nBEGIN-VENDOR %s\n", name, num, format, name)
		for j := 0; j < r.Intn(3); j++ {
			oid := fmt.Sprint(1 + r.Intn(4))
			if r.Intn(4) == 0 {
				oid = r.PickS("3", "3.1", "3.1.1", "4.1")
			}
			fmt.Fprintf(&sb, "ATTRIBUTE %s-X%d %s string\n", name, r.Intn(4), oid)
		}
		for j := 0; j < r.Intn(3); j++ {
			fmt.Fprintf(&sb, "VALUE %s-X%d w%d%d %d\n", name, r.Intn(4), k, j, r.Intn(5))
		}
		fmt.Fprintf(&sb, "END-VENDOR %s\n", name)
	}
	return sb.String()
}

// the first VENDOR ... END-VENDOR block of text that declares an attribute, with its VENDOR line
func vendorBlockWithAttribute(text string) string {
	lines := strings.SplitAfter(text, "\n")
	for i, l := range lines {
		if !strings.HasPrefix(l, "VENDOR ") {
			continue
		}
		name := strings.Fields(l)[1]
		blk, hasAttr, in := l, false, false
		for _, m := range lines[i+1:] {
			if strings.HasPrefix(m, "BEGIN-VENDOR "+name) {
				in = true
			}
			if !in {
				break
			}
			if strings.HasPrefix(m, "VALUE ") {
				continue // values would clash on their own
			}
			blk += m
			if strings.HasPrefix(m, "ATTRIBUTE ") {
				hasAttr = true
			}
			if strings.HasPrefix(m, "END-VENDOR") {
				if hasAttr {
					return blk
				}
				break
			}
		}
	}
	return ""
}

func dictSnapshot(d *dictionary.Dictionary) string {
	t := &Toks{}
	tDict(t, d)
	return t.String()
}

func init() {
	props["C20"] = func(c *Ctx) {
		c.Res.Rule = "pairs and left-folded chains (2..4) of well-formed dictionaries drawn from small name/number pools (overlapping and disjoint attributes, values, vendors; dotted attribute numbers where one is a proper prefix of another; same-name/different-number vendors; matched vendors with clashing and non-clashing attributes, with a format= on none, one or both sides, equal or different; in a quarter of the chains a vendor block of an earlier input is repeated word for word in a later one); each is parsed by the real parser and merged; result or refusal compared with the heap model; deep snapshots of every input before/after every Merge; the first input is merged a second time with another partner and the first result re-checked (capacity aliasing). non-trivial = chain with at least one matched vendor or a conflict"
		r := c.Rng.Fork()
		n := c.N(1500, 40000)
		for i := 0; i < n; i++ {
			k := 2 + r.Intn(3)
			var texts []string
			var ds []*dictionary.Dictionary
			okParse := true
			for j := 0; j < k; j++ {
				tx := genMergeDict(r, j)
				if j > 0 && i%4 == 3 {
					// a vendor block of an earlier input, repeated word for word (one team's dictionary included in two
					// files): the same vendor with an identically declared attribute on both sides
					if blk := vendorBlockWithAttribute(texts[r.Intn(len(texts))]); blk != "" && !strings.Contains(tx, strings.SplitN(blk, "\n", 2)[0]+"\n") {
						name := strings.Fields(blk)[1]
						if !strings.Contains(tx, "VENDOR "+name+" ") {
							tx += blk
						}
					}
				}
				dc := &dictCase{rootName: "d", rootText: tx}
				_, d, _, _ := runDictParse(dc)
				if d == nil {
					okParse = false
					break
				}
				texts = append(texts, tx)
				ds = append(ds, d)
			}
			if !okParse {
				continue
			}
			// an input whose slices have spare capacity (as append-grown slices do): writes past their length
			// by a later Merge would show up in earlier results
			{
				d := ds[0]
				d.Attributes = append(make([]*dictionary.Attribute, 0, len(d.Attributes)+8), d.Attributes...)
				d.Values = append(make([]*dictionary.Value, 0, len(d.Values)+8), d.Values...)
				d.Vendors = append(make([]*dictionary.Vendor, 0, len(d.Vendors)+8), d.Vendors...)
				for _, v := range d.Vendors {
					v.Attributes = append(make([]*dictionary.Attribute, 0, len(v.Attributes)+8), v.Attributes...)
					v.Values = append(make([]*dictionary.Value, 0, len(v.Values)+8), v.Values...)
				}
			}
			before := make([]string, k)
			for j, d := range ds {
				before[j] = dictSnapshot(d)
			}
			acc := ds[0]
			var err error
			var firstResult *dictionary.Dictionary
			firstSnap := ""
			for j := 1; j < k; j++ {
				var nd *dictionary.Dictionary
				nd, err = dictionary.Merge(acc, ds[j])
				if err != nil {
					break
				}
				if j == 1 {
					firstResult = nd
					firstSnap = dictSnapshot(nd)
				}
				acc = nd
			}
			tag := "merge-ok"
			t := &Toks{}
			if err != nil {
				t.E(1)
				tag = "merge-conflict"
			} else {
				t.I(0)
				tDict(t, acc)
				for _, d := range ds {
					tDict(t, d)
				}
				if strings.Count(strings.Join(texts, ""), "VENDOR V0 ") > 1 || strings.Count(strings.Join(texts, ""), "VENDOR V1 ") > 1 {
					tag = "merge-ok-matched-vendor"
				}
			}
			// inputs unchanged
			for j, d := range ds {
				if s := dictSnapshot(d); s != before[j] {
					c.Fail("spec", "Merge", tag, strings.Join(texts, "---\n"), s, before[j], fmt.Sprintf("Merge modified its input #%d", j))
				}
			}
			// reuse of the first input with another partner must not disturb the first result
			if firstResult != nil {
				other := ds[k-1]
				dictionary.Merge(ds[0], other)
				fresh := func() *dictionary.Dictionary {
					return &dictionary.Dictionary{
						Attributes: []*dictionary.Attribute{{Name: "ZZ", OID: dictionary.OID{250}, Type: dictionary.AttributeInteger}},
						Values:     []*dictionary.Value{{Attribute: "ZZ", Name: "zz1", Number: 1}, {Attribute: "ZZ", Name: "zz2", Number: 2}},
						Vendors: []*dictionary.Vendor{{Name: "ZZV", Number: 64999,
							Attributes: []*dictionary.Attribute{{Name: "ZZVA", OID: dictionary.OID{1}, Type: dictionary.AttributeInteger}},
							Values:     []*dictionary.Value{{Attribute: "ZZVA", Name: "zzv", Number: 3}}}},
					}
				}
				dictionary.Merge(ds[0], fresh())
				dictionary.Merge(firstResult, fresh())
				if s := dictSnapshot(firstResult); s != firstSnap {
					c.Fail("spec", "Merge", tag, strings.Join(texts, "---\n"), s, firstSnap, "a later Merge changed an earlier result (aliasing)")
				}
			}
			rq := Req{Name: "merge"}
			for _, tx := range texts {
				rq.Bs = append(rq.Bs, []byte(tx))
			}
			if err == nil {
				c.Add(Case{Req: rq, Impl: t.String(), Tag: tag})
			} else {
				c.Add(Case{Req: rq, Impl: "i1", Tag: tag})
			}
		}
		c.Flush()
		c.RequireTags("merge-ok", "merge-conflict", "merge-ok-matched-vendor")
	}
}
