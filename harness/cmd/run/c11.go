package main

import (
	"bytes"
	"fmt"

	"layeh.com/radius"
	"layeh.com/radius/rfc2868"
	"layeh.com/radius/vendors/microsoft"
)

func implNTP(pw, salt, sec, ra []byte) *Toks {
	t, _ := implBytesRes(func() ([]byte, error) { return radius.NewTunnelPassword(pw, salt, sec, ra) })
	return t
}

func implTP(a, sec, ra []byte) *Toks {
	t := &Toks{}
	var pw, salt []byte
	var err error
	if safely(func() { pw, salt, err = radius.TunnelPassword(a, sec, ra) }) {
		return t.I(2)
	}
	if err != nil {
		return t.E(8)
	}
	return t.I(0).B(pw).B(salt)
}

func init() {
	props["C11"] = func(c *Ctx) {
		c.Res.Rule = "NewTunnelPassword: every password length 0..260 x random contents x salts with both high-bit values and lengths 0..3 x secrets (incl. empty, 64..66 bytes and up to 465) x salts 8000, 8001, ffff, 7fff x authenticators (incl. wrong sizes); every produced attribute must satisfy 1+len <= 253 and decrypt back; TunnelPassword on every ciphertext length 0..300 with both salt high bits and adversarial embedded lengths, and values that still carry their tag octet (lengths 3+16k); rfc2868.TunnelPassword_* and microsoft.MSMPPESendKey_* with crypto/rand.Reader scripted so the salt is known. non-trivial = accepted input or a decoder input that passes the length tests"
		r := c.Rng.Fork()
		reps := c.N(3, 40)
		for rep := 0; rep < reps; rep++ {
			for n := 0; n <= 260; n++ {
				pw := r.Bytes(n)
				salt := r.Bytes(2)
				salt[0] |= 0x80
				sl, rl := 1+r.Intn(12), 16
				switch r.Intn(14) {
				case 0:
					salt[0] &= 0x7f
				case 1:
					salt = r.Bytes(r.Pick(0, 1, 3))
				case 2:
					sl = 0
				case 3:
					rl = r.Pick(0, 15, 17)
				case 4, 5:
					// the extreme salts on either side of the high-bit rule
					copy(salt, [][]byte{{0x80, 0x00}, {0x80, 0x01}, {0xff, 0xff}, {0x7f, 0xff}, {0x00, 0x00}}[r.Intn(5)])
				case 6, 7:
					// secrets longer than one MD5 block
					sl = 64 + r.Intn(3) + r.Intn(2)*r.Intn(400)
				}
				sec, ra := r.Bytes(sl), r.Bytes(rl)
				t := implNTP(pw, salt, sec, ra)
				tag := "ntp-refused"
				if t.parts[0] == "i0" {
					tag = "ntp-ok"
					if n >= 224 {
						tag = "ntp-ok-15blk"
					}
				} else if n > 239 {
					tag = "ntp-too-long"
				}
				c.Add(T(Req{Name: "ntp", Bs: [][]byte{pw, salt, sec, ra}}, t, tag))
				if a, err := radius.NewTunnelPassword(pw, salt, sec, ra); err == nil {
					if 1+len(a) > 253 {
						c.Fail("spec", "ntp", tag, hx(pw)+" "+hx(salt), fmt.Sprintf("%d-byte attribute value", len(a)), "<= 252 bytes so that a tag byte fits", "NewTunnelPassword must refuse passwords too long to fit one attribute")
					}
					c.Add(T(Req{Name: "tp", Bs: [][]byte{a, sec, ra}}, implTP(a, sec, ra), "tp-of-ntp"))
					back, bsalt, err := radius.TunnelPassword(a, sec, ra)
					if err != nil || !bytes.Equal(back, pw) || !bytes.Equal(bsalt, salt) {
						c.Fail("spec", "ntp;tp", tag, hx(pw)+" "+hx(salt), fmt.Sprintf("%x %x %v", back, bsalt, err), hx(pw)+" "+hx(salt), "TunnelPassword(NewTunnelPassword(p)) must return p and the salt")
					}
				}
			}
		}
		// decoder
		for rep := 0; rep < c.N(3, 40); rep++ {
			for n := 0; n <= 300; n++ {
				tagged := n >= 19 && (n-3)%16 == 0 // the value as it sits in the packet, tag octet still in front
				if (n-2)%16 != 0 && !tagged && r.Intn(3) != 0 {
					continue
				}
				a := r.Bytes(n)
				if n > 0 && r.Intn(4) != 0 {
					a[0] |= 0x80
				}
				if tagged && r.Intn(3) != 0 {
					a[0], a[1] = byte(r.Intn(0x20)), a[1]|0x80 // a plausible tag followed by a valid salt: still not a value of this codec
				}
				sec, ra := r.Bytes(1+r.Intn(8)), r.Bytes(16)
				if r.Intn(20) == 0 {
					sec = nil
				}
				if r.Intn(8) == 0 {
					sec = r.Bytes(64 + r.Intn(3) + r.Intn(2)*r.Intn(400))
				}
				if n >= 2 && r.Intn(6) == 0 {
					copy(a, [][]byte{{0x80, 0x00}, {0x80, 0x01}, {0xff, 0xff}, {0x7f, 0xff}}[r.Intn(4)])
				}
				if r.Intn(20) == 0 {
					ra = r.Bytes(r.Pick(0, 15, 17))
				}
				t := implTP(a, sec, ra)
				tag := "tp-refused"
				if t.parts[0] == "i0" {
					tag = "tp-ok"
				} else if n >= 18 && n <= 252 && (n-2)%16 == 0 && a[0]&0x80 != 0 && len(sec) > 0 && len(ra) == 16 {
					tag = "tp-bad-embedded-length"
				}
				c.Add(T(Req{Name: "tp", Bs: [][]byte{a, sec, ra}}, t, tag))
			}
		}
		// crafted: a valid encryption whose embedded length is altered
		for i := 0; i < c.N(200, 3000); i++ {
			pw := r.Bytes(r.Intn(100))
			salt := []byte{0x80 | byte(r.Intn(128)), byte(r.Intn(256))}
			sec, ra := r.Bytes(1+r.Intn(8)), r.Bytes(16)
			a, _ := radius.NewTunnelPassword(pw, salt, sec, ra)
			a[2] ^= byte(1 + r.Intn(255)) // first ciphertext byte = embedded length
			t := implTP(a, sec, ra)
			tag := "tp-crafted-ok"
			if t.parts[0] != "i0" {
				tag = "tp-bad-embedded-length"
			}
			c.Add(T(Req{Name: "tp", Bs: [][]byte{a, sec, ra}}, t, tag))
		}
		// generated helpers with a scripted salt source
		for i := 0; i < c.N(200, 4000); i++ {
			rd := &recReader{src: r.Fork()}
			sec := r.Bytes(1 + r.Intn(8))
			q := &radius.Packet{Code: 1, Secret: sec}
			copy(q.Authenticator[:], r.Bytes(16))
			p := q.Response(2)
			pw := r.Bytes(r.Pick(0, 1, 15, 16, 17, 100, 238, 239, 240, 249, 250))
			tag := byte(r.Intn(0x20))
			var err error
			which := "rfc2868.TunnelPassword_Set"
			if i%2 == 0 {
				withRand(rd, func() { err = rfc2868.TunnelPassword_Set(p, tag, pw) })
			} else {
				which = "microsoft.MSMPPESendKey_Set"
				withRand(rd, func() { err = microsoft.MSMPPESendKey_Set(p, pw) })
			}
			c.Count("helper-"+which, fmt.Sprintf("%s %x", which, pw))
			if err != nil {
				if len(pw) <= 239 && which == "rfc2868.TunnelPassword_Set" {
					c.Fail("spec", which, "helper", hx(pw), err.Error(), "accepted", "a password that fits must be accepted")
				}
				continue
			}
			if rd.n != 2 {
				c.Fail("spec", which, "helper", hx(pw), fmt.Sprintf("%d salt bytes drawn from crypto/rand", rd.n), "2", "the salt must be drawn from crypto/rand")
				continue
			}
			salt := []byte{rd.data[0] | 0x80, rd.data[1]}
			want, werr := radius.NewTunnelPassword(pw, salt, sec, q.Authenticator[:])
			if werr != nil {
				c.Fail("spec", which, "helper", hx(pw), "stored", "refused", "helper accepted what NewTunnelPassword refuses")
				continue
			}
			var stored []byte
			if which == "rfc2868.TunnelPassword_Set" {
				stored = p.Get(rfc2868.TunnelPassword_Type)
				if len(stored) > 253 {
					c.Fail("spec", which, "helper", hx(pw), fmt.Sprintf("%d-byte value", len(stored)), "<= 253", "tagged Tunnel-Password does not fit one attribute")
				}
				if len(stored) < 1 || stored[0] != tag || !bytes.Equal(stored[1:], want) {
					c.Fail("spec", which, "helper", hx(pw), hx(stored), hx(append([]byte{tag}, want...)), "stored value must be tag | RFC 2868 encoding with the forced-high-bit salt")
				}
				gt, gpw, gerr := rfc2868.TunnelPassword_Lookup(p, q)
				if gerr != nil || gt != tag || !bytes.Equal(gpw, pw) {
					c.Fail("spec", "rfc2868.TunnelPassword_Lookup", "helper", hx(pw), fmt.Sprintf("%d %x %v", gt, gpw, gerr), fmt.Sprintf("%d %x", tag, pw), "read back with the same secret and request authenticator")
				}
			} else {
				gpw, gerr := microsoft.MSMPPESendKey_Lookup(p, q)
				if gerr != nil || !bytes.Equal(gpw, pw) {
					c.Fail("spec", "microsoft.MSMPPESendKey_Lookup", "helper", hx(pw), fmt.Sprintf("%x %v", gpw, gerr), hx(pw), "read back with the same secret and request authenticator")
				}
			}
		}
		c.Trivial("ntp-refused", "tp-refused")
		c.Flush()
		c.RequireTags("ntp-ok", "ntp-ok-15blk", "ntp-too-long", "ntp-refused", "tp-of-ntp", "tp-ok", "tp-refused", "tp-bad-embedded-length")
	}
}
