package main

import (
	"context"
	"fmt"
	"net"
	"sync"
	"time"

	"layeh.com/radius"
)

// datagram kinds a peer can send back
var c05Kinds = []string{"authentic-max", "authentic-other-id", "authentic", "bitflip", "wrong-secret", "other-request", "truncated", "padded", "bad-attr", "random", "empty", "short-valid-hdr", "huge"}

func mkReply(r *Rng, kind string, req *radius.Packet, wire, sec []byte, marker int) []byte {
	resp := req.Response(radius.Code(r.Pick(2, 3, 11)))
	resp.Add(18, []byte(fmt.Sprintf("m%04d", marker))) // Reply-Message: unique marker
	good, _ := resp.Encode()
	switch kind {
	case "authentic-max":
		// an authentic reply that fills the read buffer exactly (4096 bytes), or all but one byte of it
		p2 := *resp
		p2.Attributes = append(radius.Attributes(nil), resp.Attributes...)
		total, want := len(good), 4096-r.Intn(2)
		for total+2 <= want {
			n := want - total - 2
			if n > 253 {
				n = 253
			}
			p2.Add(18, r.Bytes(n))
			total += n + 2
		}
		b, _ := p2.Encode()
		return b
	case "authentic-other-id":
		// valid response authenticator for the request sent, but another identifier octet: the statement makes the
		// authenticator the criterion
		p2 := *resp
		p2.Identifier ^= byte(1 + r.Intn(255))
		b, _ := p2.Encode()
		return b
	case "authentic":
		return good
	case "bitflip":
		b := append([]byte(nil), good...)
		i := r.Intn(len(b))
		if i == 2 || i == 3 { // keep Length so that it still parses
			i = 0
		}
		if i >= 20 { // value bytes only, never an attribute header
			i = 22 + r.Intn(len(b)-22)
		}
		b[i] ^= byte(1 << uint(r.Intn(8)))
		return b
	case "wrong-secret":
		p2 := *resp
		p2.Secret = append([]byte("x"), sec...)
		b, _ := p2.Encode()
		return b
	case "other-request":
		p2 := *resp
		p2.Authenticator[r.Intn(16)] ^= 0x40
		b, _ := p2.Encode()
		return b
	case "truncated":
		return good[:r.Intn(len(good))]
	case "padded":
		return append(append([]byte(nil), good...), r.Bytes(1+r.Intn(8))...)
	case "bad-attr":
		b := append([]byte(nil), good...)
		b[21] = byte(r.Pick(0, 1, 200))
		return b
	case "random":
		return r.Bytes(1 + r.Intn(60))
	case "empty":
		return []byte{}
	case "short-valid-hdr":
		b := append([]byte(nil), good[:20]...)
		b[2], b[3] = 0, 20
		return b // parses (no attributes) but is not authentic
	case "huge":
		b := r.Bytes(4200) // longer than the read buffer
		b[2], b[3] = 0x10, 0x00
		return b
	}
	return nil
}

var c05Clients = map[string]*radius.Client{}

type c05Case struct {
	kinds []string
	max   int
	skip  bool
	code  int
}

func runExchange(c *Ctx, r *Rng, cs c05Case, idx int) {
	sec := []byte("shared-" + fmt.Sprint(idx%7))
	req := &radius.Packet{Code: radius.Code(cs.code), Identifier: byte(idx), Secret: sec}
	copy(req.Authenticator[:], r.Bytes(16))
	req.Add(1, []byte("user"))
	wire, err := req.Encode()
	if err != nil {
		return
	}
	wireParsed, _ := radius.Parse(wire, sec) // request as the peer sees it (authenticator of the wire)
	var ds [][]byte
	for i, k := range cs.kinds {
		ds = append(ds, mkReply(r, k, wireParsed, wire, sec, i))
	}
	// sentinel: an authentic reply, so that every exchange terminates without timing
	ds = append(ds, mkReply(r, "authentic", wireParsed, wire, sec, 9999))

	pc, err := net.ListenPacket("udp", "127.0.0.1:0")
	if err != nil {
		c.Note("listen failed: %v", err)
		return
	}
	defer pc.Close()
	var wg sync.WaitGroup
	wg.Add(1)
	go func() {
		defer wg.Done()
		buf := make([]byte, 4096)
		pc.SetReadDeadline(time.Now().Add(5 * time.Second))
		_, addr, err := pc.ReadFrom(buf)
		if err != nil {
			return
		}
		for _, d := range ds {
			pc.WriteTo(d, addr)
		}
	}()
	// one Client value per configuration serves all its exchanges, as an application would use it: the error budget
	// is per call, so nothing may carry over
	ck := fmt.Sprintf("%d/%v", cs.max, cs.skip)
	cl := c05Clients[ck]
	if cl == nil {
		cl = &radius.Client{Retry: 0, MaxPacketErrors: cs.max, InsecureSkipVerify: cs.skip}
		c05Clients[ck] = cl
	}
	ctx, cancel := context.WithTimeout(context.Background(), 10*time.Second)
	got, gerr := cl.Exchange(ctx, req, pc.LocalAddr().String())
	timedOut := ctx.Err() != nil
	cancel()
	wg.Wait()
	t := &Toks{}
	tag := "returned"
	switch {
	case gerr == nil:
		t.I(0)
		tPacket(t, got)
		// which one came back?
		if m := got.Get(18); string(m) == "m9999" {
			tag = "returned-sentinel"
		} else if len(cs.kinds) > 0 {
			tag = "returned-after-" + fmt.Sprint(len(cs.kinds) > 1)
		}
	default:
		if _, ok := gerr.(*radius.NonAuthenticResponseError); ok {
			t.I(1).I(9)
			tag = "failed-nonauth"
		} else if timedOut || gerr == context.DeadlineExceeded {
			t.I(2)
			tag = "timeout"
		} else {
			t.I(1).I(errClass(gerr))
			tag = "failed-parse"
		}
	}
	skip := int64(0)
	if cs.skip {
		skip = 1
	}
	rq := Req{Name: "client", Bs: append([][]byte{wire, sec}, ds...), Zs: []string{Z(int64(cs.max)), Z(skip)}}
	cse := T(rq, t, tag)
	cse.Desc = fmt.Sprintf("kinds=%v max=%d skip=%v code=%d", cs.kinds, cs.max, cs.skip, cs.code)
	c.Add(cse)
}

func init() {
	props["C05"] = func(c *Ctx) {
		c.Res.Rule = "real Client.Exchange over loopback UDP against a scripted peer that answers the first request with a history of datagrams (kinds: authentic, authentic filling the 4096-byte buffer exactly, authentic with another identifier octet, bitflip, wrong-secret, answer-to-another-request, truncated, padded beyond Length, malformed attribute, random bytes, empty, header-only, longer than the read buffer) followed by an authentic sentinel; one Client value per (MaxPacketErrors, InsecureSkipVerify) pair is reused for all its exchanges; histories 0..8 long x MaxPacketErrors in {-1,0,1,2,3,9} x InsecureSkipVerify x request code {1,4,12,40,43}; thorough adds every history of length <= 3 over the kinds. Outcome (returned packet / error class) compared with the loop model and the verdict specification. non-trivial = history containing at least one bad datagram"
		r := c.Rng.Fork()
		maxes := []int{-1, 0, 1, 2, 3, 9}
		codes := []int{1, 4, 12, 40, 43}
		idx := 0
		n := c.N(350, 4000)
		for i := 0; i < n; i++ {
			var ks []string
			l := r.Intn(9)
			for j := 0; j < l; j++ {
				ks = append(ks, c05Kinds[r.Intn(len(c05Kinds))])
			}
			runExchange(c, r, c05Case{ks, maxes[r.Intn(len(maxes))], r.Intn(4) == 0, codes[r.Intn(len(codes))]}, idx)
			idx++
		}
		if c.Thorough() {
			kinds := []string{"authentic", "bitflip", "wrong-secret", "truncated", "random", "short-valid-hdr"}
			var rec func(prefix []string)
			rec = func(prefix []string) {
				for _, m := range []int{0, 1, 2, 3} {
					for _, sk := range []bool{false, true} {
						runExchange(c, r, c05Case{append([]string(nil), prefix...), m, sk, 1}, idx)
						idx++
					}
				}
				if len(prefix) == 3 {
					return
				}
				for _, k := range kinds {
					rec(append(prefix[:len(prefix):len(prefix)], k))
				}
			}
			rec(nil)
			c.Res.Exhaustive = false
		}
		c.Flush()
		c.RequireTags("returned-sentinel", "failed-nonauth", "failed-parse", "returned-after-true")
		if c.Res.Tags["timeout"] > 0 {
			c.Note("%d exchanges timed out (datagram loss on loopback?)", c.Res.Tags["timeout"])
		}
	}
}
