package main

import (
	"bytes"
	"crypto/rand"
	"encoding/binary"
	"fmt"

	"layeh.com/radius"
)

func tPacket(t *Toks, p *radius.Packet) {
	t.I(int64(p.Code)).I(int64(p.Identifier)).B(p.Authenticator[:]).B(p.Secret)
	tAttrs(t, p.Attributes)
}

func safely(f func()) (panicked bool) {
	defer func() {
		if r := recover(); r != nil {
			panicked = true
		}
	}()
	f()
	return
}

func implParse(b, secret []byte) *Toks {
	t := &Toks{}
	var p *radius.Packet
	var err error
	if safely(func() { p, err = radius.Parse(b, secret) }) {
		return t.I(2)
	}
	if err != nil {
		return t.E(errClass(err))
	}
	t.I(0)
	tPacket(t, p)
	return t
}

func implParseAttrs(b []byte) *Toks {
	t := &Toks{}
	var a radius.Attributes
	var err error
	if safely(func() { a, err = radius.ParseAttributes(b) }) {
		return t.I(2)
	}
	if err != nil {
		return t.E(errClass(err))
	}
	t.I(0)
	tAttrs(t, a)
	return t
}

type mpkt struct {
	code  int
	ident byte
	auth  [16]byte
	sec   []byte
	attrs []aop // c unused
}

func (m *mpkt) packet() *radius.Packet {
	p := &radius.Packet{Code: radius.Code(m.code), Identifier: m.ident, Authenticator: m.auth, Secret: m.sec}
	for _, a := range m.attrs {
		p.Attributes = append(p.Attributes, &radius.AVP{Type: radius.Type(a.k), Attribute: append([]byte(nil), a.v...)})
	}
	return p
}

func (m *mpkt) req(name string) Req {
	r := Req{Name: name}
	r.Zs = []string{Z(int64(m.code)), Z(int64(m.ident)), Z(int64(len(m.attrs)))}
	r.Bs = [][]byte{m.auth[:], m.sec}
	for _, a := range m.attrs {
		r.Zs = append(r.Zs, Z(int64(a.k)))
		r.Bs = append(r.Bs, a.v)
	}
	return r
}

func implBytesRes(f func() ([]byte, error)) (*Toks, []byte) {
	t := &Toks{}
	var b []byte
	var err error
	if safely(func() { b, err = f() }) {
		return t.I(2), nil
	}
	if err != nil {
		return t.E(errClass(err)), nil
	}
	return t.I(0).B(b), b
}

// structured datagram: header + TLVs, then one mutation
func genDatagram(r *Rng) ([]byte, string) {
	var body []byte
	na := r.Intn(6)
	if r.Intn(10) == 0 {
		na = 14 + r.Intn(4)
	}
	for i := 0; i < na; i++ {
		var n int
		switch r.Intn(8) {
		case 0:
			n = 0
		case 1:
			n = r.Pick(252, 253)
		default:
			n = r.Intn(20)
		}
		if na > 10 {
			n = r.Pick(250, 251, 252, 253)
		}
		body = append(body, byte(r.Pick(0, 1, 2, 26, 80, 255)), byte(n+2))
		body = append(body, r.Bytes(n)...)
	}
	if len(body) > 4076 {
		body = body[:4076]
	}
	b := make([]byte, 20, 20+len(body))
	b[0] = byte(r.Pick(1, 2, 3, 4, 5, 11, 12, 40, 43, 255, r.Intn(256)))
	b[1] = byte(r.Intn(256))
	copy(b[4:20], r.Bytes(16))
	b = append(b, body...)
	n := len(b)
	binary.BigEndian.PutUint16(b[2:4], uint16(n))
	tag := "valid"
	switch r.Intn(16) {
	case 0:
		binary.BigEndian.PutUint16(b[2:4], uint16(r.Pick(0, 19, 20, n-1, n+1, 4095, 4096, 4097, 65535)))
		tag = "mut-length"
	case 1:
		if len(body) > 0 { // last TLV length +-1
			// find last TLV
			off := 20
			last := -1
			for off < n {
				last = off
				off += int(b[off+1])
			}
			if last >= 0 {
				b[last+1] += byte(r.Pick(1, 255))
				tag = "mut-tlvlen"
			}
		}
	case 2:
		if len(body) > 0 {
			i := 20 + r.Intn(len(body))
			b[i] = byte(r.Pick(0, 1, 2, 255))
			tag = "mut-byte"
		}
	case 3:
		b = append(b, r.Bytes(1+r.Intn(64))...)
		tag = "padded"
	case 4:
		// attributes continue past Length
		extra := []byte{9, 3, 1}
		b = append(b, extra...)
		tag = "attrs-past-length"
	case 5:
		b = b[:r.Intn(len(b)+1)]
		tag = "truncated"
	case 6:
		if n+1 <= 4096 {
			b = append(b, 7) // one dangling byte inside Length
			binary.BigEndian.PutUint16(b[2:4], uint16(n+1))
			tag = "dangling-byte"
		}
	}
	return b, tag
}

// a packet whose wire size is exactly total (>= 3900): fifteen 255-byte attributes and one that fills the rest
func exactPacket(r *Rng, total int) *mpkt {
	m := &mpkt{code: r.Pick(1, 2, 4), ident: byte(r.Intn(256)), sec: r.Bytes(1 + r.Intn(8))}
	copy(m.auth[:], r.Bytes(16))
	for i := 0; i < 15; i++ {
		m.attrs = append(m.attrs, aop{0, r.Pick(1, 2, 25, 255), r.Bytes(253)})
	}
	rest := total - 20 - 15*255 - 2
	m.attrs = append(m.attrs, aop{0, 5, r.Bytes(rest)})
	return m
}

func genPacket(r *Rng) *mpkt {
	m := &mpkt{code: r.Pick(-1, 0, 1, 2, 3, 4, 5, 11, 12, 13, 40, 41, 42, 43, 44, 45, 255, 256, 1000, r.Intn(256)), ident: byte(r.Intn(256)), sec: r.Bytes(r.Intn(9))}
	copy(m.auth[:], r.Bytes(16))
	na := r.Intn(6)
	big := r.Intn(6) == 0
	if big {
		na = 15 + r.Intn(3)
	}
	for i := 0; i < na; i++ {
		k := r.Pick(-1, 0, 1, 26, 255, 256, 300)
		var v []byte
		switch {
		case big:
			k = r.Pick(1, 2, 255)
			v = r.Bytes(253)
		case r.Intn(6) == 0:
			v = r.Bytes(r.Pick(0, 1, 252, 253, 254, 255))
		default:
			v = r.Bytes(r.Intn(12))
		}
		m.attrs = append(m.attrs, aop{0, k, v})
	}
	if big { // land around 4096
		m.attrs = append(m.attrs, aop{0, 5, r.Bytes(r.Pick(0, 1, 2, 3, 10, 40, 41, 42, 43, 44, 60, 200))})
	}
	return m
}

// extreme counts: what is omitted costs nothing, what is encoded is counted exactly (no narrow integer anywhere)
func extremePacket(r *Rng, i int) *mpkt {
	m := genPacket(r)
	m.attrs = nil
	switch i % 4 {
	case 0: // 258..300 maximal attributes: beyond 65535 bytes, refused (258..273 of them wrap a 16-bit size below 4096)
		n := 258 + (i/4*5)%16
		if i%8 == 4 {
			n = 274 + r.Intn(27)
		}
		for j := 0; j < n; j++ {
			m.attrs = append(m.attrs, aop{0, 1 + r.Intn(3), r.Bytes(253)})
		}
	case 1: // thousands of attributes that are not encoded, around a few that are
		for j, n := 0, 2039+r.Intn(1500); j < n; j++ {
			if r.Intn(40) == 0 {
				m.attrs = append(m.attrs, aop{0, 1 + r.Intn(250), r.Bytes(r.Intn(5))})
			} else {
				m.attrs = append(m.attrs, aop{0, r.Pick(-1, 256, 300, 1000), r.Bytes(r.Intn(2))})
			}
		}
	case 2: // exactly 2038 empty encodable attributes: 4096 bytes, accepted
		for j := 0; j < 2038; j++ {
			m.attrs = append(m.attrs, aop{0, 1 + r.Intn(250), nil})
		}
	case 3: // 2039..2041: refused
		for j, n := 0, 2039+r.Intn(3); j < n; j++ {
			m.attrs = append(m.attrs, aop{0, 1 + r.Intn(250), nil})
		}
	}
	return m
}

func init() {
	props["C01"] = func(c *Ctx) {
		c.Res.Rule = "byte strings: arbitrary 0..4200 bytes, and structured header+TLV datagrams with one mutation (Length in {0,19,20,n-1,n+1,4095,4096,4097,65535}, last TLV length +-1, single byte overwritten, trailing padding, attributes continuing past Length, truncation, dangling byte); Packet values with codes incl. -1/256/1000, types {-1,0,1,26,255,256,300}, value sizes {0,1,252..255}, totals around 4096 built from 253-byte fillers, 258..300 maximal attributes (> 65535 bytes), 2038/2039 empty attributes, thousands of unencodable ones. Parse/ParseAttributes/MarshalBinary/Encode compared with model and spec oracle; every successful marshal is parsed back and every accepted datagram re-marshalled by the implementation itself. non-trivial = not rejected by the first length test"
		r := c.Rng.Fork()
		sec := []byte("s3cr3t")
		n := c.N(4000, 120000)
		for i := 0; i < n; i++ {
			var b []byte
			var tag string
			if i%5 == 0 {
				ln := r.Intn(60)
				if r.Intn(4) == 0 {
					ln = r.Intn(4201)
				}
				b = r.Bytes(ln)
				if ln >= 4 && r.Bool() { // plausible Length so that the TLV walk is reached
					binary.BigEndian.PutUint16(b[2:4], uint16(r.Pick(ln, ln-1, 20, 21, ln/2+10)))
				}
				tag = "arbitrary"
			} else {
				b, tag = genDatagram(r)
			}
			t := implParse(append([]byte(nil), b...), sec)
			if len(t.parts) > 0 && t.parts[0] == "i0" {
				tag += "+ok"
			} else if len(b) < 20 {
				tag = "short"
			}
			c.Add(T(Req{Name: "parse", Bs: [][]byte{b, sec}}, t, tag))
			c.Res.Sizes[sizeBucket(len(b))]++
			// direct statement check on the implementation: accepted => re-marshal = first Length bytes
			if p, err := radius.Parse(b, sec); err == nil {
				out, err2 := p.MarshalBinary()
				l := int(binary.BigEndian.Uint16(b[2:4]))
				if err2 != nil || !bytes.Equal(out, b[:l]) {
					c.Fail("spec", "parse;marshal", tag, hx(b), fmt.Sprintf("%x / %v", out, err2), hx(b[:l]), "re-encoding an accepted datagram must reproduce its first Length bytes")
				}
			}
			if len(b) >= 20 {
				body := b[20:]
				if len(body) > 300 {
					body = body[:300]
				}
				c.Add(T(Req{Name: "parse_attrs", Bs: [][]byte{body}}, implParseAttrs(append([]byte(nil), body...)), "attrs:"+tag))
			}
		}
		// packets
		n = c.N(3000, 80000)
		for i := 0; i < n; i++ {
			m := genPacket(r)
			if i < 25 {
				m = exactPacket(r, 4094+i%5) // the boundary itself: 4094..4098 bytes
			} else if i < 25+c.N(8, 48) {
				m = extremePacket(r, i)
			}
			t, w := implBytesRes(func() ([]byte, error) { return m.packet().MarshalBinary() })
			tag := "marshal-err"
			if w != nil {
				tag = "marshal-ok"
				if len(w) > 4000 {
					tag = "marshal-ok-big"
				}
			} else if t.String() == "i1 i6" {
				tag = "marshal-too-big"
			}
			c.Add(T(m.req("marshal"), t, tag))
			if w != nil {
				// round trip on the implementation itself
				c.Add(T(Req{Name: "parse", Bs: [][]byte{w, m.sec}}, implParse(w, m.sec), "parse-of-marshal"))
				q, err := radius.Parse(w, m.sec)
				if err != nil {
					c.Fail("spec", "marshal;parse", tag, m.req("marshal").Line(""), err.Error(), "accepted", "a marshalled packet must parse")
				} else {
					want := &Toks{}
					wp := m.packet()
					wp.Code = radius.Code(byte(m.code))
					var fl radius.Attributes
					for _, a := range wp.Attributes {
						if a.Type >= 0 && a.Type <= 255 {
							fl = append(fl, a)
						}
					}
					wp.Attributes = fl
					tPacket(want, wp)
					got := &Toks{}
					tPacket(got, q)
					if m.code >= 0 && m.code <= 255 && want.String() != got.String() {
						c.Fail("spec", "marshal;parse", tag, m.req("marshal").Line(""), got.String(), want.String(), "parse(marshal p) must equal p with out-of-range types omitted")
					}
				}
			}
		}
		c.Trivial("short")
		c.Flush()
		c.RequireTags("valid+ok", "padded+ok", "mut-length", "mut-tlvlen", "attrs-past-length+ok", "truncated", "marshal-ok", "marshal-ok-big", "marshal-too-big", "marshal-err", "parse-of-marshal", "short")
	}
}

func sizeBucket(n int) string {
	switch {
	case n < 20:
		return "<20"
	case n < 64:
		return "20-63"
	case n < 512:
		return "64-511"
	case n < 4000:
		return "512-3999"
	case n <= 4096:
		return "4000-4096"
	}
	return ">4096"
}

var _ = rand.Reader
