package main

import (
	"bytes"
	"fmt"

	"layeh.com/radius"
	"layeh.com/radius/rfc2865"
)

func implNUP(pt, sec, ra []byte) *Toks {
	t, _ := implBytesRes(func() ([]byte, error) { return radius.NewUserPassword(pt, sec, ra) })
	return t
}
func implUP(a, sec, ra []byte) *Toks {
	t, _ := implBytesRes(func() ([]byte, error) { return radius.UserPassword(a, sec, ra) })
	return t
}

func init() {
	props["C04"] = func(c *Ctx) {
		c.Res.Rule = "NewUserPassword: every plaintext length 0..140 x random contents (incl. embedded NULs and trailing runs of NULs across block boundaries) x secret lengths 0..64, 64..66 and up to 465 x authenticator lengths 0..32; UserPassword: ciphertexts of every length 0..300 (random) and the decryption of every produced ciphertext (round trip), plaintexts around 256, 1024, 4096, 8192 and 65536 bytes (refused), incl. via rfc2865.UserPassword_Set/Get; model and the from-the-RFC oracle (Gallina MD5) compared byte for byte. non-trivial = accepted input with more than one 16-byte block"
		r := c.Rng.Fork()
		reps := c.N(4, 60)
		for rep := 0; rep < reps; rep++ {
			for n := 0; n <= 140; n++ {
				pt := r.Bytes(n)
				if n > 0 && r.Intn(3) == 0 {
					pt[r.Intn(n)] = 0
				}
				if r.Intn(7) == 0 {
					for i := range pt {
						if pt[i] == 0 {
							pt[i] = 1
						}
					}
				}
				if n > 1 && r.Intn(5) == 0 {
					// a run of NULs at the end (as an already padded password has), possibly across a block boundary
					for i := n - 1 - r.Intn(min(n-1, 20)); i < n; i++ {
						pt[i] = 0
					}
				}
				sl := 1 + r.Intn(20)
				rl := 16
				switch r.Intn(12) {
				case 0:
					sl = 0
				case 1:
					rl = r.Intn(33)
				case 2:
					sl = r.Intn(65)
				case 3, 4:
					// longer than one MD5 block, and much longer
					sl = 64 + r.Intn(3) + r.Intn(2)*r.Intn(400)
				}
				sec, ra := r.Bytes(sl), r.Bytes(rl)
				t := implNUP(pt, sec, ra)
				tag := "nup-refused"
				if t.parts[0] == "i0" {
					tag = fmt.Sprintf("nup-ok-%dblk", (n+15)/16)
					if n == 0 {
						tag = "nup-ok-1blk"
					}
				}
				c.Add(T(Req{Name: "nup", Bs: [][]byte{pt, sec, ra}}, t, tag))
				if a, err := radius.NewUserPassword(pt, sec, ra); err == nil {
					c.Add(T(Req{Name: "up", Bs: [][]byte{a, sec, ra}}, implUP(a, sec, ra), "up-of-nup"))
					// statement-level round trip on the implementation
					back, err := radius.UserPassword(a, sec, ra)
					want := pt
					if i := bytes.IndexByte(pt, 0); i >= 0 {
						want = pt[:i]
					}
					if err != nil || !bytes.Equal(back, want) {
						c.Fail("spec", "nup;up", tag, hx(pt)+" "+hx(sec)+" "+hx(ra), fmt.Sprintf("%x %v", back, err), hx(want), "UserPassword(NewUserPassword(p)) must be p up to its first NUL")
					}
					// through the generated helper
					p := &radius.Packet{Secret: sec}
					copy(p.Authenticator[:], ra)
					if err := rfc2865.UserPassword_Set(p, pt); err != nil || !bytes.Equal(p.Get(rfc2865.UserPassword_Type), a) {
						c.Fail("spec", "rfc2865.UserPassword_Set", tag, hx(pt), fmt.Sprintf("%x %v", p.Get(2), err), hx(a), "generated helper must store the RFC ciphertext")
					}
					if got := rfc2865.UserPassword_Get(p); !bytes.Equal(got, want) {
						c.Fail("spec", "rfc2865.UserPassword_Get", tag, hx(pt), hx(got), hx(want), "generated getter must return the plaintext")
					}
				}
			}
		}
		// far beyond the limit: lengths around every multiple of 16*256 (a chunk count kept in a narrow integer wraps there)
		for _, base := range []int{256, 1024, 4096, 8192, 65536} {
			for _, d := range []int{-16, -15, -1, 0, 1, 16, 128} {
				n := base + d
				pt := r.Bytes(n)
				sec, ra := r.Bytes(1+r.Intn(20)), r.Bytes(16)
				c.Add(T(Req{Name: "nup", Bs: [][]byte{pt, sec, ra}}, implNUP(pt, sec, ra), "nup-huge"))
			}
		}
		// decoder on arbitrary ciphertexts
		for rep := 0; rep < c.N(2, 30); rep++ {
			for n := 0; n <= 300; n++ {
				if n > 150 && n%16 != 0 && r.Intn(4) != 0 {
					continue
				}
				a := r.Bytes(n)
				sl, rl := 1+r.Intn(10), 16
				if r.Intn(15) == 0 {
					sl = 0
				}
				if r.Intn(8) == 0 {
					sl = 64 + r.Intn(3) + r.Intn(2)*r.Intn(400)
				}
				if r.Intn(15) == 0 {
					rl = r.Pick(0, 15, 17, 32)
				}
				sec, ra := r.Bytes(sl), r.Bytes(rl)
				t := implUP(a, sec, ra)
				tag := "up-refused"
				if t.parts[0] == "i0" {
					tag = "up-ok"
				}
				c.Add(T(Req{Name: "up", Bs: [][]byte{a, sec, ra}}, t, tag))
			}
		}
		c.Trivial("nup-refused", "up-refused", "nup-ok-1blk", "nup-huge")
		c.Flush()
		c.RequireTags("nup-ok-1blk", "nup-ok-2blk", "nup-ok-8blk", "nup-refused", "up-of-nup", "up-ok", "up-refused")
	}
}

func min(a, b int) int {
	if a < b {
		return a
	}
	return b
}
