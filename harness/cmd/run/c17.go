package main

import (
	"bytes"
	"fmt"
	"go/ast"
	"go/format"
	"os"
	"os/exec"
	"strconv"
	"strings"

	"layeh.com/radius/dictionary"
	"layeh.com/radius/dictionarygen"
)

// ---- random dictionaries (the generator's input is the parsed structure) ----
var namePool = []string{"Foo-Bar", "Foo_Bar", "Foo.Bar", "Foo-Id", "Foo-ID", "3GPP-Loc", "Acct-Http-Url", "String", "Type", "func", "Größe-Ü", "X+Y", "Tunnel-Type", "User-Name", "Reply", "Session", "A", "B-1", "B-2", "Vendor-Specific", "Class", "Framed-IP", "Zone", "Service-Type"}
var typePool = []dictionary.AttributeType{dictionary.AttributeString, dictionary.AttributeOctets, dictionary.AttributeIPAddr, dictionary.AttributeDate, dictionary.AttributeInteger, dictionary.AttributeIPv6Addr, dictionary.AttributeIPv6Prefix, dictionary.AttributeIFID, dictionary.AttributeInteger64, dictionary.AttributeVSA, dictionary.AttributeByte, dictionary.AttributeShort}
var badTypePool = []dictionary.AttributeType{dictionary.AttributeEther, dictionary.AttributeABinary, dictionary.AttributeSigned, dictionary.AttributeTLV, dictionary.AttributeIPv4Prefix}

type gdict struct {
	d      *dictionary.Dictionary
	ignore []string
	ext    map[string]string
	tags   []string
}

func genAttr(r *Rng, used map[string]bool, wild bool, vendor bool) *dictionary.Attribute {
	name := namePool[r.Intn(len(namePool))]
	if r.Intn(3) > 0 || used[name] {
		name = fmt.Sprintf("%s-%d", name, r.Intn(1000))
	}
	used[name] = true
	a := &dictionary.Attribute{Name: name, OID: dictionary.OID{r.Intn(256)}, Type: typePool[r.Intn(len(typePool))]}
	if vendor && a.Type == dictionary.AttributeVSA {
		a.Type = dictionary.AttributeOctets
	}
	isStr := a.Type == dictionary.AttributeString || a.Type == dictionary.AttributeOctets
	// flags in the combinations the templates implement
	switch r.Intn(10) {
	case 0:
		if isStr || a.Type == dictionary.AttributeInteger {
			a.FlagHasTag = dictionary.BoolFlag{Valid: true, Bool: true}
		}
	case 1:
		if isStr {
			a.FlagEncrypt = dictionary.IntFlag{Valid: true, Int: 1}
		}
	case 2:
		if isStr || a.Type == dictionary.AttributeInteger || a.Type == dictionary.AttributeIPAddr || a.Type == dictionary.AttributeIPv6Addr {
			a.FlagEncrypt = dictionary.IntFlag{Valid: true, Int: 2}
		}
	case 3:
		if isStr && !vendor {
			a.FlagConcat = dictionary.BoolFlag{Valid: true, Bool: true}
		}
	case 4:
		if isStr {
			a.Size = dictionary.IntFlag{Valid: true, Int: 1 + r.Intn(20)}
		}
	case 5:
		if isStr {
			a.FlagHasTag = dictionary.BoolFlag{Valid: true, Bool: true}
			a.FlagEncrypt = dictionary.IntFlag{Valid: true, Int: 2}
		}
	}
	if wild {
		// anything goes: unsupported types, flags on the wrong types, numbers beyond a byte, dotted numbers
		switch r.Intn(9) {
		case 0:
			a.Type = badTypePool[r.Intn(len(badTypePool))]
		case 1:
			a.OID = dictionary.OID{256 + r.Intn(45)}
		case 2:
			a.OID = dictionary.OID{r.Intn(256), r.Intn(10)}
		case 3:
			a.FlagEncrypt = dictionary.IntFlag{Valid: true, Int: r.Pick(1, 2, 3)}
		case 4:
			a.FlagHasTag = dictionary.BoolFlag{Valid: true, Bool: r.Bool()}
		case 5:
			a.FlagConcat = dictionary.BoolFlag{Valid: true, Bool: r.Bool()}
		case 6:
			a.Size = dictionary.IntFlag{Valid: true, Int: r.Intn(300)}
		case 7:
			a.FlagHasTag = dictionary.BoolFlag{Valid: true, Bool: true}
			a.FlagEncrypt = dictionary.IntFlag{Valid: true, Int: 2}
		}
	}
	return a
}

func genValues(r *Rng, attrs []*dictionary.Attribute, wild bool) []*dictionary.Value {
	var vals []*dictionary.Value
	for _, a := range attrs {
		if a.Type != dictionary.AttributeInteger && a.Type != dictionary.AttributeShort && a.Type != dictionary.AttributeInteger64 {
			continue
		}
		n := r.Intn(4)
		for i := 0; i < n; i++ {
			v := &dictionary.Value{Attribute: a.Name, Name: fmt.Sprintf("%s-%d", namePool[r.Intn(len(namePool))], r.Intn(50)), Number: uint64(r.Intn(40))}
			if wild {
				switch r.Intn(8) {
				case 0:
					v.Number = uint64(r.Intn(3)) // duplicate numbers
				case 1:
					v.Name = namePool[r.Intn(4)] // names that collide after normalisation
				case 2:
					v.Number = 1<<32 + uint64(r.Intn(5)) // does not fit a 32-bit attribute
				case 3:
					v.Number = 1 << 63
				}
			}
			vals = append(vals, v)
		}
	}
	return vals
}

func genDict(r *Rng, wild bool) *gdict {
	g := &gdict{d: &dictionary.Dictionary{}, ext: map[string]string{}}
	used := map[string]bool{}
	na := r.Intn(7)
	usedOID := map[int]bool{}
	for i := 0; i < na; i++ {
		a := genAttr(r, used, wild && r.Intn(3) == 0, false)
		if !wild || r.Intn(4) > 0 {
			for usedOID[a.OID[0]] {
				a.OID[0] = r.Intn(256)
			}
		}
		usedOID[a.OID[0]] = true
		g.d.Attributes = append(g.d.Attributes, a)
	}
	g.d.Values = genValues(r, g.d.Attributes, wild)
	nv := r.Pick(0, 0, 1, 1, 2)
	usedNum := map[int]bool{}
	for i := 0; i < nv; i++ {
		v := &dictionary.Vendor{Name: fmt.Sprintf("%s-%d", namePool[r.Intn(len(namePool))], r.Intn(100)), Number: 1 + r.Intn(40000)}
		if wild && r.Intn(5) == 0 {
			v.Number = 9
		}
		for usedNum[v.Number] && (!wild || r.Intn(3) > 0) {
			v.Number = 1 + r.Intn(40000)
		}
		usedNum[v.Number] = true
		if wild && r.Intn(6) == 0 {
			two := 2
			if r.Bool() {
				v.TypeOctets = &two
			} else {
				v.LengthOctets = &two
			}
		}
		n := r.Intn(5)
		vo := map[int]bool{}
		for j := 0; j < n; j++ {
			a := genAttr(r, used, wild && r.Intn(3) == 0, true)
			if !wild || r.Intn(4) > 0 {
				for vo[a.OID[0]] {
					a.OID[0] = r.Intn(256)
				}
			}
			vo[a.OID[0]] = true
			v.Attributes = append(v.Attributes, a)
		}
		v.Values = genValues(r, v.Attributes, wild)
		g.d.Vendors = append(g.d.Vendors, v)
	}
	// ignore list: names of top-level and vendor attributes, and names that do not exist
	var all []*dictionary.Attribute
	all = append(all, g.d.Attributes...)
	for _, v := range g.d.Vendors {
		all = append(all, v.Attributes...)
	}
	for _, a := range all {
		if r.Intn(6) == 0 {
			g.ignore = append(g.ignore, a.Name)
		}
	}
	if r.Intn(5) == 0 {
		g.ignore = append(g.ignore, "No-Such-Attribute")
	}
	// external references
	clash := false
	for n := range used {
		switch n {
		case "Class", "User-Name", "Service-Type", "Vendor-Specific", "Tunnel-Type":
			clash = true // the harness would declare what the dot-imported package already declares
		}
	}
	if r.Intn(4) == 0 && !clash {
		g.ext["Service-Type"] = "layeh.com/radius/rfc2865"
		g.d.Values = append(g.d.Values, &dictionary.Value{Attribute: "Service-Type", Name: fmt.Sprintf("Verif-Ext-%d", r.Intn(100)), Number: uint64(100 + r.Intn(100))})
		if r.Bool() {
			g.ext["NAS-Port-Type"] = "layeh.com/radius/rfc2865"
		}
		// an external attribute that is also on the ignore list: nothing at all may be emitted for it, its VALUEs included
		if r.Intn(3) == 0 {
			g.ignore = append(g.ignore, "Service-Type")
		}
	}
	if wild && r.Intn(8) == 0 {
		g.d.Values = append(g.d.Values, &dictionary.Value{Attribute: "Nowhere-Defined", Name: "X", Number: 1})
	}
	return g
}

func oct(p *int) int64 {
	if p == nil {
		return 1
	}
	return int64(*p)
}

func flagI(f dictionary.IntFlag) string {
	if !f.Valid {
		return Z(-1)
	}
	return Z(int64(f.Int))
}
func flagB(f dictionary.BoolFlag) string {
	if !f.Valid {
		return Z(-1)
	}
	return Z(b2i(f.Bool))
}

func (g *gdict) req() Req {
	id := func(s string) []byte { return []byte(dictionarygen.VerifIdentifier(s)) }
	req := Req{Name: "gen"}
	var extNames []string
	for k := range g.ext {
		extNames = append(extNames, k)
	}
	// any order: the generator sorts them
	req.Zs = []string{Z(int64(len(g.ignore))), Z(int64(len(extNames))), Z(int64(len(g.d.Attributes))), Z(int64(len(g.d.Values))), Z(int64(len(g.d.Vendors)))}
	for _, s := range g.ignore {
		req.Bs = append(req.Bs, []byte(s))
	}
	for _, s := range extNames {
		req.Bs = append(req.Bs, []byte(s), id(s))
	}
	attr := func(a *dictionary.Attribute) {
		req.Zs = append(req.Zs, Z(int64(len(a.OID))))
		for _, o := range a.OID {
			req.Zs = append(req.Zs, Z(int64(o)))
		}
		req.Zs = append(req.Zs, Z(int64(a.Type)), flagI(a.Size), flagI(a.FlagEncrypt), flagB(a.FlagHasTag), flagB(a.FlagConcat))
		req.Bs = append(req.Bs, []byte(a.Name), id(a.Name))
	}
	val := func(v *dictionary.Value) {
		req.Zs = append(req.Zs, ZU(v.Number))
		req.Bs = append(req.Bs, []byte(v.Attribute), []byte(v.Name), id(v.Name))
	}
	for _, a := range g.d.Attributes {
		attr(a)
	}
	for _, v := range g.d.Values {
		val(v)
	}
	for _, v := range g.d.Vendors {
		req.Zs = append(req.Zs, Z(int64(v.Number)), Z(oct(v.TypeOctets)), Z(oct(v.LengthOctets)), Z(int64(len(v.Attributes))), Z(int64(len(v.Values))))
		req.Bs = append(req.Bs, []byte(v.Name), id(v.Name))
		for _, a := range v.Attributes {
			attr(a)
		}
		for _, x := range v.Values {
			val(x)
		}
	}
	return req
}

func genErrClass(err error) int64 {
	s := err.Error()
	switch {
	case strings.Contains(s, "out of range for attribute"):
		return 6
	case strings.Contains(s, "conflicting identifier between values"):
		return 7
	case strings.Contains(s, "conflicting identifier"):
		return 1
	case strings.Contains(s, "vendor attribute"):
		return 5
	case strings.Contains(s, "cannot generate code for attribute"):
		return 2
	case strings.Contains(s, "unknown attribute"):
		return 3
	case strings.Contains(s, "cannot generate code for"):
		return 4
	}
	return 9 // go/format refused the text
}

// ---- the declarations of the output as the model's token stream ----
var fcodes = map[string]int64{"Add": 0, "AddString": 1, "Get": 2, "GetString": 3, "Gets": 4, "GetStrings": 5, "Lookup": 6, "LookupString": 7, "Set": 8, "SetString": 9, "Del": 10}
var vendorFuncs = map[string]int64{"AddVendor": 0, "GetsVendor": 1, "LookupVendor": 2, "SetVendor": 3, "DelVendor": 4}

func vtOf(t string, ident string) (int64, bool) {
	switch strings.TrimPrefix(t, "[]") {
	case "byte":
		if strings.HasPrefix(t, "[]") {
			return 0, true
		}
		return 7, true
	case "string":
		return 1, true
	case "net.IP":
		return 2, true
	case "net.HardwareAddr":
		return 3, true
	case "*net.IPNet":
		return 4, true
	case "time.Time":
		return 5, true
	case ident:
		return 6, true
	}
	return 0, false
}

// the signature the documented API shape prescribes for (function, tag, q, value type)
func expectSig(ident, fn string, tag, q bool, vts string) string {
	pk := "p *radius.Packet"
	if q {
		pk += ", q *radius.Packet"
	}
	tagp, tagr, tagsr := "", "", ""
	if tag {
		tagp, tagr, tagsr = ", tag byte", "tag byte, ", "tags []byte, "
	}
	switch fn {
	case "Add", "Set", "AddString", "SetString":
		return fmt.Sprintf("func %s_%s(p *radius.Packet%s, value %s) (err error)", ident, fn, tagp, vts)
	case "Get", "GetString":
		return fmt.Sprintf("func %s_%s(%s) (%svalue %s)", ident, fn, pk, tagr, vts)
	case "Gets", "GetStrings":
		return fmt.Sprintf("func %s_%s(%s) (%svalues []%s, err error)", ident, fn, pk, tagsr, vts)
	case "Lookup", "LookupString":
		return fmt.Sprintf("func %s_%s(%s) (%svalue %s, err error)", ident, fn, pk, tagr, vts)
	case "Del":
		return fmt.Sprintf("func %s_Del(p *radius.Packet) ()", ident)
	}
	return "?"
}

func tokensOfOutput(f *ast.File) (string, string) {
	t := &Toks{}
	t.I(0)
	var pendingInit bool
	for _, d := range f.Decls {
		switch x := d.(type) {
		case *ast.FuncDecl:
			name := x.Name.Name
			if x.Recv != nil {
				if name == "String" && len(x.Recv.List) == 1 {
					t.I(7).B([]byte(exprStr(x.Recv.List[0].Type)))
					continue
				}
				return "", "unexpected method " + name
			}
			if name == "init" {
				pendingInit = true
				continue
			}
			i := strings.LastIndex(name, "_")
			if i < 0 {
				return "", "unexpected function " + name
			}
			ident, fn := name[:i], name[i+1:]
			if w, ok := vendorFuncs[fn]; ok && strings.HasPrefix(ident, "_") {
				t.I(9).B([]byte(ident[1:])).I(w)
				continue
			}
			fc, ok := fcodes[fn]
			if !ok {
				return "", "unexpected function " + name
			}
			sig := fmt.Sprintf("func %s(%s) (%s)", name, fieldList(x.Type.Params), fieldList(x.Type.Results))
			if fn == "Del" {
				t.I(8).B([]byte(ident)).I(10).I(0).I(0).I(0)
				if sig != expectSig(ident, fn, false, false, "") {
					return "", "signature " + sig
				}
				continue
			}
			tag := strings.Contains(sig, "tag byte") || strings.Contains(sig, "tags []byte")
			q := strings.Contains(sig, "q *radius.Packet")
			// the value type: last parameter for setters, the value result for getters
			var vts string
			switch fn {
			case "Add", "Set", "AddString", "SetString":
				ps := x.Type.Params.List
				vts = exprStr(ps[len(ps)-1].Type)
			default:
				for _, rf := range x.Type.Results.List {
					for _, n := range rf.Names {
						if n.Name == "value" {
							vts = exprStr(rf.Type)
						}
						if n.Name == "values" {
							vts = strings.TrimPrefix(exprStr(rf.Type), "[]")
						}
					}
				}
			}
			vt, ok := vtOf(vts, ident)
			if !ok {
				return "", "value type " + vts + " in " + sig
			}
			if want := expectSig(ident, fn, tag, q, vts); sig != want {
				return "", "signature " + sig + " (the API shape prescribes " + want + ")"
			}
			t.I(8).B([]byte(ident)).I(fc).I(b2i(tag)).I(b2i(q)).I(vt)
		case *ast.GenDecl:
			var exts [][2]string
			var extNums []string
			for _, sp := range x.Specs {
				switch s := sp.(type) {
				case *ast.ImportSpec:
				case *ast.TypeSpec:
					bits := map[string]int64{"uint16": 16, "uint32": 32, "uint64": 64}[exprStr(s.Type)]
					if bits == 0 {
						return "", "unexpected type " + s.Name.Name
					}
					t.I(4).B([]byte(s.Name.Name)).I(bits)
				case *ast.ValueSpec:
					name := s.Names[0].Name
					switch {
					case x.Tok.String() == "var" && strings.HasSuffix(name, "_Strings"):
						t.I(6).B([]byte(strings.TrimSuffix(name, "_Strings")))
					case strings.HasSuffix(name, "_Type") && s.Type != nil && exprStr(s.Type) == "radius.Type":
						t.I(1).B([]byte(strings.TrimSuffix(name, "_Type"))).Tok("i" + hexOfDec(exprStr(s.Values[0])))
					case strings.HasPrefix(name, "_") && strings.HasSuffix(name, "_VendorID"):
						t.I(2).B([]byte(strings.TrimSuffix(name[1:], "_VendorID"))).Tok("i" + hexOfDec(exprStr(s.Values[0])))
					case strings.Contains(name, "_Value_"):
						k := strings.Index(name, "_Value_")
						if pendingInit {
							exts = append(exts, [2]string{name[:k], name[k+7:]})
							extNums = append(extNums, exprStr(s.Values[0]))
						} else {
							t.I(5).B([]byte(name[:k])).B([]byte(name[k+7:])).Tok("i" + hexOfDec(exprStr(s.Values[0])))
						}
					default:
						return "", "unexpected declaration " + name
					}
				}
			}
			if pendingInit && x.Tok.String() == "const" {
				pendingInit = false
				t.I(3).I(int64(len(exts)))
				for i, e := range exts {
					t.B([]byte(e[0])).B([]byte(e[1])).Tok("i" + hexOfDec(extNums[i]))
				}
			}
		}
	}
	return t.String(), ""
}

// a coarse class of a type-checker message (identifiers, positions and numbers removed)
func compileClass(e string) string {
	if i := strings.Index(e, ".go:"); i >= 0 {
		e = e[i+4:]
		if j := strings.Index(e, " "); j >= 0 {
			e = e[j+1:]
		}
	}
	switch {
	case strings.Contains(e, "overflows"):
		return "constant overflows"
	case strings.Contains(e, "imported and not used"):
		return "unused import"
	case strings.Contains(e, "dot-import"):
		return "clash with dot-import"
	case strings.Contains(e, "redeclared"), strings.Contains(e, "already declared"):
		return "redeclared"
	case strings.Contains(e, "duplicate key"):
		return "duplicate map key"
	case strings.Contains(e, "cannot use"):
		return "cannot use"
	case strings.Contains(e, "undefined"), strings.Contains(e, "undeclared"):
		return "undefined"
	}
	if len(e) > 40 {
		e = e[:40]
	}
	return e
}

func hexOfDec(s string) string {
	u, err := strconv.ParseUint(s, 10, 64)
	if err != nil {
		return "0"
	}
	return strconv.FormatUint(u, 16)
}

func shuffleDict(r *Rng, d *dictionary.Dictionary) *dictionary.Dictionary {
	out := &dictionary.Dictionary{}
	out.Attributes = append(out.Attributes, d.Attributes...)
	out.Values = append(out.Values, d.Values...)
	for _, v := range d.Vendors {
		c := *v
		c.Attributes = append([]*dictionary.Attribute(nil), v.Attributes...)
		c.Values = append([]*dictionary.Value(nil), v.Values...)
		for i := range c.Attributes {
			j := r.Intn(len(c.Attributes))
			c.Attributes[i], c.Attributes[j] = c.Attributes[j], c.Attributes[i]
		}
		for i := range c.Values {
			j := r.Intn(len(c.Values))
			c.Values[i], c.Values[j] = c.Values[j], c.Values[i]
		}
		out.Vendors = append(out.Vendors, &c)
	}
	for i := range out.Attributes {
		j := r.Intn(len(out.Attributes))
		out.Attributes[i], out.Attributes[j] = out.Attributes[j], out.Attributes[i]
	}
	for i := range out.Values {
		j := r.Intn(len(out.Values))
		out.Values[i], out.Values[j] = out.Values[j], out.Values[i]
	}
	for i := range out.Vendors {
		j := r.Intn(len(out.Vendors))
		out.Vendors[i], out.Vendors[j] = out.Vendors[j], out.Vendors[i]
	}
	return out
}

// ties under the generator's sort keys: the only inputs for which declaration order can matter
func hasTies(d *dictionary.Dictionary) bool {
	seen := map[string]bool{}
	mark := func(k string) bool {
		if seen[k] {
			return true
		}
		seen[k] = true
		return false
	}
	tie := false
	for _, a := range d.Attributes {
		tie = mark(fmt.Sprint("a", a.OID)) || tie
	}
	for _, v := range d.Values {
		tie = mark(fmt.Sprint("v", v.Attribute, v.Number)) || tie
	}
	for _, v := range d.Vendors {
		tie = mark(fmt.Sprint("n", v.Number)) || tie
		for _, a := range v.Attributes {
			tie = mark(fmt.Sprint("va", v.Name, a.OID)) || tie
		}
		for _, x := range v.Values {
			tie = mark(fmt.Sprint("vv", v.Name, x.Attribute, x.Number)) || tie
		}
	}
	return tie
}

func dictText(g *gdict) string {
	var sb strings.Builder
	fmt.Fprintf(&sb, "ignore=%q ext=%v\n", g.ignore, g.ext)
	pa := func(a *dictionary.Attribute, ind string) {
		fmt.Fprintf(&sb, "%sATTRIBUTE %q %v %v size=%v encrypt=%v has_tag=%v concat=%v\n", ind, a.Name, a.OID, a.Type, a.Size, a.FlagEncrypt, a.FlagHasTag, a.FlagConcat)
	}
	for _, a := range g.d.Attributes {
		pa(a, "")
	}
	for _, v := range g.d.Values {
		fmt.Fprintf(&sb, "VALUE %q %q %d\n", v.Attribute, v.Name, v.Number)
	}
	for _, v := range g.d.Vendors {
		fmt.Fprintf(&sb, "VENDOR %q %d format=%d,%d\n", v.Name, v.Number, oct(v.TypeOctets), oct(v.LengthOctets))
		for _, a := range v.Attributes {
			pa(a, "  ")
		}
		for _, x := range v.Values {
			fmt.Fprintf(&sb, "  VALUE %q %q %d\n", x.Attribute, x.Name, x.Number)
		}
	}
	return sb.String()
}

func checkGenerated(c *Ctx, r *Rng, g *gdict, pkg string, tag string) {
	gen := &dictionarygen.Generator{Package: pkg, IgnoredAttributes: g.ignore, ExternalAttributes: g.ext}
	var out []byte
	var err error
	text := dictText(g)
	if safely(func() { out, err = gen.Generate(g.d) }) {
		c.Fail("spec", "Generate", tag, text, "panic", "an error or source", "Generate never panics")
		return
	}
	req := g.req()
	t := &Toks{}
	if err != nil {
		cl := genErrClass(err)
		if cl == 9 {
			c.Count(tag+"/format-error", text)
			return // go/format refused the text: an error, as the statement allows; nothing was emitted
		}
		t.I(-1).I(cl)
		c.Add(Case{Req: req, Impl: t.String(), Tag: tag + "/refused"})
		return
	}
	// deterministic
	out2, err2 := gen.Generate(g.d)
	if err2 != nil || !bytes.Equal(out, out2) {
		c.Fail("spec", "Generate", tag, text, "two runs differ", "byte-identical output", "the output is a deterministic function of the dictionary")
	}
	// canonical formatting
	if fm, ferr := format.Source(out); ferr != nil || !bytes.Equal(fm, out) {
		c.Fail("spec", "Generate", tag, text, "output is not gofmt-formatted", "gofmt fixed point", "")
	}
	// compiles against the working tree
	f, errs := typeCheck(c.Repo, string(out))
	if len(errs) > 0 {
		c.Fail("spec", "Generate", tag+"/compile:"+compileClass(errs[0]), text, strings.Join(errs, "; "), "source that compiles", "the output compiles against the radius package")
	}
	if f != nil {
		toks, bad := tokensOfOutput(f)
		if bad != "" {
			c.Fail("spec", "Generate", tag+"/shape", text, bad, "the documented API shape", "")
		} else {
			c.Add(Case{Req: req, Impl: toks, Tag: tag + "/accepted"})
		}
	}
	// the order of declaration does not change the output
	sh := shuffleDict(r, g.d)
	var outS []byte
	var errS error
	if safely(func() { outS, errS = gen.Generate(sh) }) {
		c.Fail("spec", "Generate", tag, text, "panic on a permutation", "", "")
		return
	}
	if errS != nil || !bytes.Equal(outS, out) {
		kt := tag + "/order"
		if hasTies(g.d) {
			kt = tag + "/order-ties"
		}
		c.Fail("spec", "Generate", kt, text+"--- permuted ---\n"+dictText(&gdict{d: sh, ignore: g.ignore, ext: g.ext}), fmt.Sprintf("different output (err=%v)", errS), "the same bytes", "the order in which attributes, values and vendors are declared does not change the output")
	}
	c.Count(tag+"/permuted", text)
}

func init() {
	props["C17"] = func(c *Ctx) {
		c.Res.Rule = "dictionaries built as parsed structures: (a) mostly-valid (every supported type x the flag combinations the templates implement, distinct numbers, 0..2 vendors, integer VALUEs, ignore lists naming top-level and vendor attributes, external references) and (b) wild (unsupported types, flags on the wrong types, numbers above 255 and dotted, repeated numbers, names that collide after normalisation, keyword-like and non-ASCII names, VALUE numbers that repeat or overflow, vendors with format 2, unknown VALUE attributes), (b') pairs of vendors whose names normalise to one identifier, plus (c) the 32 shipped dictionaries with their go:generate options. For each: Generate must not panic; an error must be the one the Coq decision model predicts; on success the output must be identical on a second run, a gofmt fixed point, type-check (go/types, source importer) against the working tree's radius packages, list exactly the declarations the model predicts in the same order with the signatures of the documented API shape, and be byte-identical for a random permutation of all declarations; 25 seeded dictionaries are generated here after their upper- and lower-cased variants (and after everything else this run generated) and in a fresh child process, and the outputs compared (history independence). non-trivial = accepted dictionary with at least one attribute"
		r := c.Rng.Fork()
		// (c) shipped dictionaries
		for _, s := range findSpecs(c.Repo) {
			d, err := s.parse()
			if err != nil {
				c.Fail("spec", "parse "+s.Dir, "shipped", s.Dict, err.Error(), "parses", "")
				continue
			}
			g := &gdict{d: d, ignore: s.Ignore, ext: s.Refs}
			checkGenerated(c, r, g, s.Package, "shipped")
		}
		n := c.N(300, 6000)
		for i := 0; i < n; i++ {
			wild := i%3 == 2
			g := genDict(r, wild)
			tag := "valid"
			if wild {
				tag = "wild"
			}
			checkGenerated(c, r, g, "zzverif", tag)
		}
		// two vendors whose names normalise to one identifier (Foo-Id / Foo-ID, Acme.X / Acme-X): their helpers would
		// be the same declarations, so the dictionary must be refused
		for i := 0; i < c.N(40, 400); i++ {
			g := genDict(r, false)
			for len(g.d.Vendors) < 2 {
				g.d.Vendors = append(g.d.Vendors, &dictionary.Vendor{Name: fmt.Sprintf("Twin-Id-%d", r.Intn(50)), Number: 40001 + len(g.d.Vendors)})
			}
			a, b := g.d.Vendors[0], g.d.Vendors[len(g.d.Vendors)-1]
			base := fmt.Sprintf("Acme-Id-%d", r.Intn(90))
			a.Name = base
			switch r.Intn(4) {
			case 0:
				b.Name = strings.Replace(base, "-Id-", "-ID-", 1)
			case 1:
				b.Name = strings.Replace(base, "-", ".", 1)
			case 2:
				b.Name = strings.Replace(base, "Acme-", "Acme--", 1)
			default:
				b.Name = strings.ToLower(base[:1]) + base[1:] // identifier() titles each field: acme -> Acme
			}
			checkGenerated(c, r, g, "zzverif", "vendor-twins")
		}
		c.Flush()
		checkHistoryIndependence(c)
		c.RequireTags("vendor-twins/refused", "shipped/accepted", "valid/accepted", "wild/accepted", "wild/refused", "valid/permuted", "shipped/permuted", "history")
	}
}

// ---- history independence: the output for a dictionary does not depend on what the process generated before ----

// the same dictionary with every name in another letter case (what a cache keyed by a case-folded name would confuse)
func caseVariant(d *dictionary.Dictionary, upper bool) *dictionary.Dictionary {
	f := strings.ToLower
	if upper {
		f = strings.ToUpper
	}
	out := &dictionary.Dictionary{}
	for _, a := range d.Attributes {
		c := *a
		c.Name = f(a.Name)
		out.Attributes = append(out.Attributes, &c)
	}
	for _, v := range d.Values {
		c := *v
		c.Attribute, c.Name = f(v.Attribute), f(v.Name)
		out.Values = append(out.Values, &c)
	}
	for _, v := range d.Vendors {
		c := *v
		c.Name = f(v.Name)
		c.Attributes, c.Values = nil, nil
		for _, a := range v.Attributes {
			ca := *a
			ca.Name = f(a.Name)
			c.Attributes = append(c.Attributes, &ca)
		}
		for _, x := range v.Values {
			cx := *x
			cx.Attribute, cx.Name = f(x.Attribute), f(x.Name)
			c.Values = append(c.Values, &cx)
		}
		out.Vendors = append(out.Vendors, &c)
	}
	return out
}

// digests of the generator's output for a fixed, seeded series of dictionaries; with interfere, case variants of each
// dictionary are generated first
func historyDigests(seed uint64, interfere bool) ([]string, []string) {
	r := NewRng(seed)
	var ds, texts []string
	for i := 0; len(ds) < 25 && i < 400; i++ {
		g := genDict(r, false)
		g.ignore, g.ext = nil, map[string]string{}
		var vals []*dictionary.Value
		for _, v := range g.d.Values {
			if v.Attribute != "Service-Type" {
				vals = append(vals, v)
			}
		}
		g.d.Values = vals
		if len(g.d.Attributes)+len(g.d.Vendors) == 0 {
			continue
		}
		if interfere {
			for _, up := range []bool{true, false} {
				safely(func() { (&dictionarygen.Generator{Package: "h"}).Generate(caseVariant(g.d, up)) })
			}
		}
		var out []byte
		var err error
		if safely(func() { out, err = (&dictionarygen.Generator{Package: "h"}).Generate(g.d) }) || err != nil {
			continue
		}
		ds = append(ds, digest(string(out)))
		texts = append(texts, dictText(g))
	}
	return ds, texts
}

func scenarioFreshGenerate() (bool, string) {
	ds, _ := historyDigests(4242, false)
	fmt.Println("DIGESTS=" + strings.Join(ds, ","))
	return true, ""
}

func init() { scenarios["c17-fresh-process"] = scenarioFreshGenerate }

// checkHistoryIndependence compares this process (which has generated case variants of every dictionary first, and
// hundreds of other dictionaries before) with a fresh child process
func checkHistoryIndependence(c *Ctx) {
	mine, texts := historyDigests(4242, true)
	cmd := exec.Command(os.Args[0], "-scenario", "c17-fresh-process")
	out, err := cmd.CombinedOutput()
	s := string(out)
	i := strings.Index(s, "DIGESTS=")
	if err != nil || i < 0 {
		c.Note("history-independence check skipped: child process failed: %v", err)
		return
	}
	line := s[i+8:]
	if j := strings.IndexByte(line, '\n'); j >= 0 {
		line = line[:j]
	}
	fresh := strings.Split(line, ",")
	if len(fresh) != len(mine) {
		c.Fail("spec", "Generate", "history", fmt.Sprintf("%d dictionaries accepted here, %d in a fresh process", len(mine), len(fresh)), "", "", "whether a dictionary is accepted does not depend on what was generated before")
		return
	}
	for k := range mine {
		c.Count("history", fmt.Sprint(k))
		if mine[k] != fresh[k] {
			c.Fail("spec", "Generate", "history", texts[k], "output digest "+mine[k]+" after generating the same dictionary with all names upper-cased and lower-cased", "output digest "+fresh[k]+" in a fresh process", "the output is a deterministic function of the dictionary's content: it does not depend on what the process generated before")
			return
		}
	}
}
