package main

import (
	"encoding/json"
	"fmt"
	"os"
	"os/exec"
	"path/filepath"
	"strings"

	"layeh.com/radius/dictionary"
	"layeh.com/radius/dictionarygen"
)

// Helpers freshly generated from synthetic dictionaries: the real Generate is run on random
// accepted dictionaries (every kind x flag combination, vendor and top-level), the packages are
// written into a scratch copy of this harness module together with their dictionary files,
// gendriver wraps them into a registry, the scratch module is compiled into a second-stage binary
// and that binary runs the same property function on them.

func dictFileText(d *dictionary.Dictionary) string {
	var sb strings.Builder
	attr := func(a *dictionary.Attribute) {
		t := a.Type.String()
		if a.Size.Valid {
			t = fmt.Sprintf("%s[%d]", t, a.Size.Int)
		}
		var flags []string
		if a.FlagHasTag.Valid && a.FlagHasTag.Bool {
			flags = append(flags, "has_tag")
		}
		if a.FlagEncrypt.Valid {
			flags = append(flags, fmt.Sprintf("encrypt=%d", a.FlagEncrypt.Int))
		}
		if a.FlagConcat.Valid && a.FlagConcat.Bool {
			flags = append(flags, "concat")
		}
		fmt.Fprintf(&sb, "ATTRIBUTE\t%s\t%s\t%s", a.Name, a.OID.String(), t)
		if len(flags) > 0 {
			sb.WriteString("\t" + strings.Join(flags, ","))
		}
		sb.WriteString("\n")
	}
	for _, a := range d.Attributes {
		attr(a)
	}
	for _, v := range d.Values {
		fmt.Fprintf(&sb, "VALUE\t%s\t%s\t%d\n", v.Attribute, v.Name, v.Number)
	}
	for _, v := range d.Vendors {
		fmt.Fprintf(&sb, "VENDOR\t%s\t%d\nBEGIN-VENDOR\t%s\n", v.Name, v.Number, v.Name)
		for _, a := range v.Attributes {
			attr(a)
		}
		for _, x := range v.Values {
			fmt.Fprintf(&sb, "VALUE\t%s\t%s\t%d\n", x.Attribute, x.Name, x.Number)
		}
		fmt.Fprintf(&sb, "END-VENDOR\t%s\n", v.Name)
	}
	return sb.String()
}

func copyFile(src, dst string) error {
	b, err := os.ReadFile(src)
	if err != nil {
		return err
	}
	return os.WriteFile(dst, b, 0644)
}

// systematicDicts enumerates every type x encrypt x has_tag x concat x size combination, at top level and inside a
// vendor, keeps those the generator accepts on their own, and packs them into dictionaries of at most 200 attributes
func systematicDicts() []*dictionary.Dictionary {
	type cand struct {
		a      *dictionary.Attribute
		vendor bool
	}
	var ok []cand
	seq := 0
	for t := dictionary.AttributeString; t <= dictionary.AttributeIPv4Prefix; t++ {
		for _, enc := range []int{0, 1, 2} {
			for _, tag := range []bool{false, true} {
				for _, concat := range []bool{false, true} {
					for _, size := range []int{0, 6} {
						for _, vendor := range []bool{false, true} {
							if size > 0 && t != dictionary.AttributeOctets {
								continue
							}
							seq++
							a := &dictionary.Attribute{Name: fmt.Sprintf("Sys-%s-%d", strings.Title(t.String()), seq), OID: dictionary.OID{1}, Type: t}
							if enc > 0 {
								a.FlagEncrypt.Valid, a.FlagEncrypt.Int = true, enc
							}
							if tag {
								a.FlagHasTag.Valid, a.FlagHasTag.Bool = true, true
							}
							if concat {
								a.FlagConcat.Valid, a.FlagConcat.Bool = true, true
							}
							if size > 0 {
								a.Size.Valid, a.Size.Int = true, size
							}
							d := &dictionary.Dictionary{}
							if vendor {
								d.Vendors = []*dictionary.Vendor{{Name: "Sys", Number: 4242, Attributes: []*dictionary.Attribute{a}}}
							} else {
								d.Attributes = []*dictionary.Attribute{a}
							}
							if _, err := (&dictionarygen.Generator{Package: "probe"}).Generate(d); err == nil {
								ok = append(ok, cand{a, vendor})
							}
						}
					}
				}
			}
		}
	}
	var out []*dictionary.Dictionary
	cur := &dictionary.Dictionary{}
	nt, nv := 0, 0
	flush := func() {
		if nt+nv > 0 {
			out = append(out, cur)
		}
		cur = &dictionary.Dictionary{}
		nt, nv = 0, 0
	}
	for _, c := range ok {
		if c.vendor {
			if nv == 200 {
				flush()
			}
			if len(cur.Vendors) == 0 {
				cur.Vendors = []*dictionary.Vendor{{Name: "Sys", Number: 4242}}
			}
			nv++
			c.a.OID = dictionary.OID{nv}
			cur.Vendors[0].Attributes = append(cur.Vendors[0].Attributes, c.a)
		} else {
			if nt == 200 {
				flush()
			}
			nt++
			c.a.OID = dictionary.OID{nt}
			cur.Attributes = append(cur.Attributes, c.a)
		}
	}
	flush()
	return out
}

// runSynthetic builds the second-stage binary over k synthetic packages and runs prop in it.
func runSynthetic(c *Ctx, r *Rng, k int, prop string) {
	if os.Getenv("VERIF_SYNTH_STAGE2") != "" {
		return
	}
	tmp := filepath.Join(c.Verif, "build", fmt.Sprintf("synth.%d", os.Getpid()))
	os.RemoveAll(tmp)
	if os.Getenv("VERIF_KEEP_SYNTH") == "" {
		defer os.RemoveAll(tmp)
	}
	if err := os.MkdirAll(filepath.Join(tmp, "cmd", "run"), 0755); err != nil {
		c.Note("synthetic stage skipped: %v", err)
		return
	}
	h := filepath.Join(c.Verif, "harness")
	for _, f := range []string{"go.mod", "go.sum"} {
		copyFile(filepath.Join(h, f), filepath.Join(tmp, f))
	}
	srcs, _ := filepath.Glob(filepath.Join(h, "cmd", "run", "*.go"))
	for _, f := range srcs {
		if filepath.Base(f) == "registry_gen.go" {
			continue
		}
		copyFile(f, filepath.Join(tmp, "cmd", "run", filepath.Base(f)))
	}
	n := 0
	kinds := map[string]int{}
	sys := systematicDicts()
	k += len(sys)
	for tries := 0; n < k && tries < 50*k; tries++ {
		g := genDict(r, false)
		if len(sys) > 0 {
			g = &gdict{d: sys[0]}
			sys = sys[1:]
		}
		g.ignore, g.ext = nil, map[string]string{}
		// drop the VALUEs that referred to an external attribute
		var vals []*dictionary.Value
		for _, v := range g.d.Values {
			if v.Attribute != "Service-Type" {
				vals = append(vals, v)
			}
		}
		g.d.Values = vals
		if len(g.d.Attributes)+len(g.d.Vendors) == 0 {
			continue
		}
		pkg := fmt.Sprintf("p%d", n)
		src, err := (&dictionarygen.Generator{Package: pkg}).Generate(g.d)
		if err != nil {
			continue
		}
		// the dictionary file must parse back to the same declarations (it is what the descriptors are read from)
		text := dictFileText(g.d)
		if _, perr := (&dictionary.Parser{Opener: &memOpener{files: map[string]memEntry{"d": {"d", text}}, limit: 4}, IgnoreIdenticalAttributes: true}).ParseFile("d"); perr != nil {
			c.Note("synthetic dictionary skipped (its text form does not parse: %v)", perr)
			continue
		}
		dir := filepath.Join(tmp, "synth", pkg)
		os.MkdirAll(dir, 0755)
		os.WriteFile(filepath.Join(dir, "generated.go"), src, 0644)
		os.WriteFile(filepath.Join(dir, "dictionary."+pkg), []byte(text), 0644)
		for _, a := range g.d.Attributes {
			kinds[a.Type.String()]++
		}
		for _, v := range g.d.Vendors {
			for _, a := range v.Attributes {
				kinds["vendor "+a.Type.String()]++
			}
		}
		n++
	}
	if n == 0 {
		c.Note("synthetic stage skipped: no synthetic dictionary was accepted")
		return
	}
	run := func(dir string, name string, args ...string) (string, error) {
		cmd := exec.Command(name, args...)
		cmd.Dir = dir
		cmd.Env = append(os.Environ(), "VERIF_SYNTH_STAGE2=1")
		out, err := cmd.CombinedOutput()
		return string(out), err
	}
	if out, err := run(tmp, filepath.Join(c.Verif, "build", "gendriver"), filepath.Join(tmp, "synth"), filepath.Join(tmp, "cmd", "run", "registry_gen.go"), "layeh.com/radius/verifharness/synth/", "*/generated.go"); err != nil {
		c.Fail("spec", "synthetic", "synth-registry", out, err.Error(), "registry of the generated packages", "freshly generated helpers could not be wrapped (unexpected API shape?)")
		return
	}
	if out, err := run(tmp, "go", "build", "-tags", "verif", "-o", filepath.Join(tmp, "stage2"), "./cmd/run"); err != nil {
		c.Fail("spec", "synthetic", "synth-build", trunc(out, 3000), err.Error(), "compiles", "freshly generated helper packages do not compile together with their callers")
		return
	}
	res := filepath.Join(tmp, "res.json")
	if out, err := run(tmp, filepath.Join(tmp, "stage2"), "-prop", prop, "-tier", "quick", "-seed", fmt.Sprint(c.Seed+7), "-driver", c.Driver, "-out", res, "-repo", c.Repo, "-verif", c.Verif); err != nil {
		if _, statErr := os.Stat(res); statErr != nil {
			c.Fail("model", "synthetic", "synth-run", trunc(out, 2000), err.Error(), "second stage runs", "")
			return
		}
	}
	var r2 Result
	b, _ := os.ReadFile(res)
	if json.Unmarshal(b, &r2) != nil {
		c.Fail("model", "synthetic", "synth-run", "", "unreadable result", "", "")
		return
	}
	c.mu.Lock()
	c.Res.Evaluations += r2.Evaluations
	c.Res.DistinctNontrivial += r2.DistinctNontrivial
	for t, v := range r2.Tags {
		c.Res.Tags["synth:"+t] += v
	}
	for _, m := range r2.Mismatches {
		m.Op = "synthetic " + m.Op
		m.Tag = "synth:" + m.Tag
		c.mismatch(m)
	}
	c.mu.Unlock()
	if c.Res.Extra == nil {
		c.Res.Extra = map[string]interface{}{}
	}
	c.Res.Extra["synthetic_packages"] = n
	c.Res.Extra["synthetic_attribute_kinds"] = kinds
	c.TagOnly("synthetic-stage")
}
