package main

import (
	"bytes"
	"fmt"

	"layeh.com/radius"
)

// C09: attribute list = ordered multimap; wire in list order.

type aop struct {
	c int // 0 add 1 set 2 del 3 get 4 lookup
	k int
	v []byte
}

func tAttrs(t *Toks, a radius.Attributes) {
	t.I(int64(len(a)))
	for _, x := range a {
		t.I(int64(x.Type)).B(x.Attribute)
	}
}

func tAfter(t *Toks, a radius.Attributes) {
	tAttrs(t, a)
	n, err := radius.AttributesEncodedLen(a)
	if err != nil {
		t.E(5)
	} else {
		t.I(0).I(int64(n))
	}
	p := &radius.Packet{Code: 1, Attributes: a}
	b, err := p.MarshalBinary()
	if err != nil {
		t.E(errClass(err))
	} else {
		t.I(0).B(b)
	}
}

// shareValues: Add and Set receive, instead of a private copy, the stored slice of an attribute that already holds the
// same bytes (what a caller does who writes p.Add(t2, p.Get(t1))): the values are equal either way, so the expected
// outcome is the same, unless an operation writes into a stored value in place
var shareValues bool

func argValue(a radius.Attributes, v []byte) []byte {
	if shareValues && len(v) > 0 {
		for _, avp := range a {
			if avp != nil && bytes.Equal(avp.Attribute, v) {
				return avp.Attribute
			}
		}
	}
	return append([]byte(nil), v...)
}

func runAttrOps(start []aop, ops []aop) (Req, *Toks) {
	var a radius.Attributes
	req := Req{Name: "attrs_run"}
	req.Zs = append(req.Zs, Z(int64(len(start))))
	for _, s := range start {
		a = append(a, &radius.AVP{Type: radius.Type(s.k), Attribute: append([]byte(nil), s.v...)})
		req.Zs = append(req.Zs, Z(int64(s.k)))
		req.Bs = append(req.Bs, s.v)
	}
	t := &Toks{}
	for _, o := range ops {
		req.Zs = append(req.Zs, Z(int64(o.c)), Z(int64(o.k)))
		req.Bs = append(req.Bs, o.v)
		switch o.c {
		case 0:
			a.Add(radius.Type(o.k), argValue(a, o.v))
		case 1:
			a.Set(radius.Type(o.k), argValue(a, o.v))
		case 2:
			a.Del(radius.Type(o.k))
		case 3:
			t.B(a.Get(radius.Type(o.k)))
		case 4:
			v, ok := a.Lookup(radius.Type(o.k))
			if ok {
				t.I(1).B(v)
			} else {
				t.I(0)
			}
		}
		tAfter(t, a)
	}
	return req, t
}

func init() {
	props["C09"] = func(c *Ctx) {
		c.Res.Rule = "operation sequences over Add/Set/Del/Get/Lookup: exhaustive up to a length over types {-1,1,2,256} x values {empty,[7]}, then random sequences <=40 ops with duplicate runs, large values (252..255 bytes) and totals around 4096, lists of 65..600 entries dominated by one key, 258..300 maximal attributes, 2038/2039 empty ones, thousands of unencodable ones; after every op the list, AttributesEncodedLen and MarshalBinary are compared with the Go-loop model (m.) and the multimap/wire spec (s.); non-trivial = sequence containing at least one Set or Del on a key that is present"
		types := []int{-1, 1, 2, 256}
		vals := [][]byte{nil, {7}}
		var alphabet []aop
		for _, k := range types {
			for _, v := range vals {
				alphabet = append(alphabet, aop{0, k, v}, aop{1, k, v})
			}
			alphabet = append(alphabet, aop{2, k, nil}, aop{3, k, nil}, aop{4, k, nil})
		}
		maxLen := c.N(3, 4)
		var rec func(prefix []aop)
		rec = func(prefix []aop) {
			if len(prefix) > 0 {
				req, impl := runAttrOps(nil, prefix)
				c.Add(T(req, impl, tagOps(nil, prefix)))
			}
			if len(prefix) == maxLen {
				return
			}
			for _, o := range alphabet {
				rec(append(prefix[:len(prefix):len(prefix)], o))
			}
		}
		rec(nil)
		c.Res.Exhaustive = false
		c.Note("exhaustive part: all sequences of length <= %d over %d operations", maxLen, len(alphabet))
		// random long sequences
		r := c.Rng.Fork()
		n := c.N(3000, 60000)
		for i := 0; i < n; i++ {
			var start, ops []aop
			tys := []int{-1, 0, 1, 2, 26, 255, 256, 300}
			rv := func() []byte {
				switch r.Intn(10) {
				case 0:
					return nil
				case 1:
					return r.Bytes(r.Pick(252, 253, 254, 255))
				default:
					return r.Bytes(r.Intn(6))
				}
			}
			ns := r.Intn(12)
			if r.Intn(8) == 0 { // totals around 4096: 253-byte fillers
				ns = 15 + r.Intn(3)
				for j := 0; j < ns; j++ {
					start = append(start, aop{0, 1 + r.Intn(3), r.Bytes(253)})
				}
				start = append(start, aop{0, 9, r.Bytes(r.Intn(60))})
			} else {
				for j := 0; j < ns; j++ {
					k := tys[r.Intn(len(tys))]
					if j > 0 && r.Intn(3) == 0 {
						k = start[j-1].k // adjacent runs
					}
					start = append(start, aop{0, k, rv()})
				}
			}
			no := 1 + r.Intn(c.N(12, 40))
			for j := 0; j < no; j++ {
				ops = append(ops, aop{r.Intn(5), tys[r.Intn(len(tys))], rv()})
			}
			req, impl := runAttrOps(start, ops)
			c.Add(T(req, impl, tagOps(start, ops)))
		}
		// values shared between attributes: a small pool of equal-length values, every Add/Set handing over the stored
		// slice of an attribute that already holds those bytes
		shareValues = true
		for i := 0; i < c.N(600, 8000); i++ {
			pool := [][]byte{r.Bytes(2), r.Bytes(2), r.Bytes(2), r.Bytes(5), r.Bytes(5)}
			var start, ops []aop
			for j := 0; j < 1+r.Intn(5); j++ {
				start = append(start, aop{0, r.Pick(1, 2, 3, 26), pool[r.Intn(len(pool))]})
			}
			for j := 0; j < 2+r.Intn(8); j++ {
				ops = append(ops, aop{r.Pick(0, 0, 1, 1, 1, 2, 3, 4), r.Pick(1, 2, 3, 26), pool[r.Intn(len(pool))]})
			}
			req, impl := runAttrOps(start, ops)
			c.Add(T(req, impl, "shared-values"))
		}
		shareValues = false
		// long lists (the loops' behaviour must not depend on how long the slice or its backing array is):
		// one key dominating 60..95% of 65..600 entries, removed or replaced in one call
		for i := 0; i < c.N(40, 600); i++ {
			var start, ops []aop
			ns := 65 + r.Intn(c.N(200, 536))
			dom := r.Pick(1, 2, 26)
			share := 60 + r.Intn(36)
			for j := 0; j < ns; j++ {
				k := dom
				if r.Intn(100) >= share {
					k = r.Pick(-1, 3, 4, 255, 256)
				}
				start = append(start, aop{0, k, r.Bytes(r.Intn(3))})
			}
			first := r.Pick(1, 2) // Set or Del of the dominant key
			ops = append(ops, aop{first, dom, r.Bytes(2)}, aop{4, dom, nil}, aop{0, dom, r.Bytes(1)}, aop{2, r.Pick(3, 4, dom), nil}, aop{3, 3, nil})
			req, impl := runAttrOps(start, ops)
			c.Add(T(req, impl, "long-list"))
		}
		// extreme counts: what is omitted costs nothing, what is encoded is counted exactly
		for i := 0; i < c.N(12, 60); i++ {
			var start []aop
			switch i % 4 {
			case 0: // 258..300 maximal attributes: far beyond 65535 bytes, refused (258..273 wrap a 16-bit size below 4096)
				n := 258 + (i/4*5)%16
				if i%8 == 4 {
					n = 274 + r.Intn(27)
				}
				for j := 0; j < n; j++ {
					start = append(start, aop{0, 1 + r.Intn(3), r.Bytes(253)})
				}
			case 1: // thousands of attributes that are not encoded at all, around a few that are
				for j, n := 0, 2039+r.Intn(1500); j < n; j++ {
					if r.Intn(40) == 0 {
						start = append(start, aop{0, 1 + r.Intn(250), r.Bytes(r.Intn(5))})
					} else {
						start = append(start, aop{0, r.Pick(-1, 256, 300, 1000), r.Bytes(r.Intn(2))})
					}
				}
			case 2: // exactly 2038 empty encodable attributes: 4096 bytes, accepted
				for j := 0; j < 2038; j++ {
					start = append(start, aop{0, 1 + r.Intn(250), nil})
				}
			case 3: // 2039: 4098 bytes, refused
				for j := 0; j < 2039+r.Intn(3); j++ {
					start = append(start, aop{0, 1 + r.Intn(250), nil})
				}
			}
			req, impl := runAttrOps(start, []aop{{4, 1, nil}})
			c.Add(T(req, impl, "extreme-count"))
		}
		c.Trivial("reads-only", "no-hit")
		c.Flush()
		c.RequireTags("long-list", "extreme-count", "shared-values", "set-present", "del-present", "set-multi", "del-multi", "reads-only", "no-hit")
	}
}

// tagOps classifies a sequence by the most interesting thing it exercises.
func tagOps(start, ops []aop) string {
	count := map[int]int{}
	for _, s := range start {
		count[s.k]++
	}
	best := "reads-only"
	rank := map[string]int{"reads-only": 0, "no-hit": 1, "set-present": 2, "del-present": 3, "set-multi": 4, "del-multi": 5}
	up := func(s string) {
		if rank[s] > rank[best] {
			best = s
		}
	}
	for _, o := range ops {
		switch o.c {
		case 0:
			count[o.k]++
			up("no-hit")
		case 1:
			if count[o.k] > 1 {
				up("set-multi")
			} else if count[o.k] == 1 {
				up("set-present")
			} else {
				up("no-hit")
			}
			count[o.k] = 1
		case 2:
			if count[o.k] > 1 {
				up("del-multi")
			} else if count[o.k] == 1 {
				up("del-present")
			} else {
				up("no-hit")
			}
			count[o.k] = 0
		}
	}
	return best
}

var _ = fmt.Sprint
