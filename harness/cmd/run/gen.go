package main

import (
	"fmt"
	"go/ast"
	"go/build"
	"go/importer"
	"go/parser"
	"go/printer"
	"go/token"
	"go/types"
	"os"
	"path/filepath"
	"sort"
	"strings"
	"sync"

	"layeh.com/radius/dictionary"
	"layeh.com/radius/dictionarygen"
)

// ---- the repository's go:generate directives, replayed in-process (cmd/radius-dict-gen/main.go) ----
type genSpec struct {
	Dir, Package, Output, Dict string
	Refs                       map[string]string
	Ignore                     []string
	Args                       []string // the directive's arguments to the command, as written
}

func findSpecs(repo string) []genSpec {
	var specs []genSpec
	for _, g := range []string{"*/generate.go", "vendors/*/generate.go", "internal/*/generate.go"} {
		ms, _ := filepath.Glob(filepath.Join(repo, g))
		sort.Strings(ms)
		for _, m := range ms {
			b, err := os.ReadFile(m)
			if err != nil {
				continue
			}
			for _, line := range strings.Split(string(b), "\n") {
				if !strings.HasPrefix(line, "//go:generate") || !strings.Contains(line, "radius-dict-gen") {
					continue
				}
				f := strings.Fields(line)
				s := genSpec{Dir: filepath.Dir(m), Refs: map[string]string{}}
				for i := range f {
					if strings.Contains(f[i], "radius-dict-gen") {
						s.Args = append([]string(nil), f[i+1:]...)
						break
					}
				}
				for i := 0; i < len(f); i++ {
					switch f[i] {
					case "-package":
						s.Package = f[i+1]
						i++
					case "-output":
						s.Output = f[i+1]
						i++
					case "-ref":
						kv := strings.SplitN(f[i+1], ":", 2)
						s.Refs[kv[0]] = kv[1]
						i++
					case "-ignore":
						s.Ignore = append(s.Ignore, f[i+1])
						i++
					default:
						if strings.HasPrefix(f[i], "dictionary.") {
							s.Dict = f[i]
						}
					}
				}
				specs = append(specs, s)
			}
		}
	}
	return specs
}

func (s genSpec) parse() (*dictionary.Dictionary, error) {
	p := dictionary.Parser{Opener: &dictionary.FileSystemOpener{Root: s.Dir}, IgnoreIdenticalAttributes: true}
	return p.ParseFile(s.Dict)
}

func (s genSpec) generator() *dictionarygen.Generator {
	return &dictionarygen.Generator{Package: s.Package, IgnoredAttributes: s.Ignore, ExternalAttributes: s.Refs}
}

// ---- type-checking generated source against the working tree's packages ----
var (
	tcMu   sync.Mutex
	tcImp  types.Importer
	tcFset = token.NewFileSet()
)

// typeCheck parses src as a file of a package next to /repo/rfc2865 (so that the source importer
// resolves layeh.com/radius and its sub-packages in the working tree's module) and type-checks it.
func typeCheck(repo, src string) (*ast.File, []string) {
	tcMu.Lock()
	defer tcMu.Unlock()
	if tcImp == nil {
		build.Default.Dir = repo // the go command that resolves module imports runs here
		tcImp = importer.ForCompiler(tcFset, "source", nil)
	}
	f, err := parser.ParseFile(tcFset, filepath.Join(repo, "rfc2865", "zz_verif_generated.go"), src, parser.ParseComments)
	if err != nil {
		return nil, []string{"syntax: " + err.Error()}
	}
	var errs []string
	conf := types.Config{Importer: tcImp, Error: func(e error) {
		if len(errs) < 6 {
			errs = append(errs, e.Error())
		}
	}}
	conf.Check("zzverif", tcFset, []*ast.File{f}, nil)
	return f, errs
}

// ---- declarations of a generated file, in a printable canonical form ----
func exprStr(e ast.Expr) string {
	var sb strings.Builder
	printer.Fprint(&sb, token.NewFileSet(), e)
	return sb.String()
}

func fieldList(fl *ast.FieldList) string {
	if fl == nil {
		return ""
	}
	var parts []string
	for _, f := range fl.List {
		t := exprStr(f.Type)
		if len(f.Names) == 0 {
			parts = append(parts, t)
		}
		for _, n := range f.Names {
			parts = append(parts, n.Name+" "+t)
		}
	}
	return strings.Join(parts, ", ")
}

// declSigs lists every top-level declaration: "func Name(params) (results)", "type Name T",
// "const Name T = v", "var Name", "method (T) Name"
func declSigs(f *ast.File) []string {
	var out []string
	for _, d := range f.Decls {
		switch x := d.(type) {
		case *ast.FuncDecl:
			if x.Recv != nil {
				out = append(out, fmt.Sprintf("method (%s) %s(%s) (%s)", fieldList(x.Recv), x.Name.Name, fieldList(x.Type.Params), fieldList(x.Type.Results)))
			} else {
				out = append(out, fmt.Sprintf("func %s(%s) (%s)", x.Name.Name, fieldList(x.Type.Params), fieldList(x.Type.Results)))
			}
		case *ast.GenDecl:
			for _, sp := range x.Specs {
				switch s := sp.(type) {
				case *ast.TypeSpec:
					out = append(out, "type "+s.Name.Name+" "+exprStr(s.Type))
				case *ast.ValueSpec:
					kind := "var"
					if x.Tok == token.CONST {
						kind = "const"
					}
					for i, n := range s.Names {
						v := ""
						if i < len(s.Values) && kind == "const" {
							v = " = " + exprStr(s.Values[i])
						}
						t := ""
						if s.Type != nil {
							t = " " + exprStr(s.Type)
						}
						out = append(out, kind+" "+n.Name+t+v)
					}
				case *ast.ImportSpec:
					nm := ""
					if s.Name != nil {
						nm = s.Name.Name + " "
					}
					out = append(out, "import "+nm+s.Path.Value)
				}
			}
		}
	}
	return out
}
