package main

import (
	"bytes"
	"errors"
	"fmt"
	"io"
	"strings"
	"sync"

	"layeh.com/radius/dictionary"
)

// ---- in-memory opener ----
type memFile struct {
	name   string
	r      *bytes.Reader
	closes *int
	op     *memOpener
	closed bool
}

func (f *memFile) Read(p []byte) (int, error) { return f.r.Read(p) }
func (f *memFile) Name() string               { return f.name }
func (f *memFile) Close() error {
	if f.closed {
		f.op.trace = append(f.op.trace, "r:"+f.name) // Close on an already closed file
		return nil
	}
	f.op.trace = append(f.op.trace, "c:"+f.name)
	f.closed = true
	f.op.depth--
	return nil
}

type memEntry struct{ canon, text string }

type memOpener struct {
	files    map[string]memEntry
	trace    []string
	depth    int
	maxDepth int
	limit    int
}

var errDepth = errors.New("verif: include depth limit")

func (o *memOpener) OpenFile(name string) (dictionary.File, error) {
	e, ok := o.files[name]
	if !ok {
		return nil, errors.New("no such file")
	}
	if o.depth >= o.limit {
		return nil, errDepth
	}
	o.depth++
	if o.depth > o.maxDepth {
		o.maxDepth = o.depth
	}
	o.trace = append(o.trace, "o:"+e.canon)
	return &memFile{name: e.canon, r: bytes.NewReader([]byte(e.text)), op: o}, nil
}

func dictErrClass(err error) (int64, string, int, bool) {
	var pe *dictionary.ParseError
	if errors.As(err, &pe) {
		var cls int64 = 99
		switch inner := pe.Inner.(type) {
		case *dictionary.InvalidOIDError:
			cls = 1
		case *dictionary.UnknownAttributeTypeError:
			cls = 2
		case *dictionary.DuplicateAttributeFlagError:
			cls = 3
		case *dictionary.InvalidAttributeEncryptTypeError:
			cls = 4
		case *dictionary.UnknownAttributeFlagError:
			cls = 5
		case *dictionary.DuplicateAttributeError:
			cls = 6
		case *dictionary.InvalidVendorFormatError:
			cls = 9
		case *dictionary.DuplicateVendorError:
			cls = 10
		case *dictionary.NestedVendorBlockError:
			cls = 11
		case *dictionary.UnknownVendorError:
			cls = 12
		case *dictionary.UnmatchedEndVendorError:
			cls = 13
		case *dictionary.InvalidEndVendorError:
			cls = 14
		case *dictionary.BeginVendorIncludeError:
			cls = 15
		case *dictionary.RecursiveIncludeError:
			cls = 17
		case *dictionary.UnknownLineError:
			cls = 18
		case *dictionary.UnclosedVendorBlockError:
			cls = 19
		default:
			_ = inner
			s := pe.Inner.Error()
			switch {
			case strings.Contains(s, "no such file") || pe.Inner == errDepth:
				cls = 16
			case strings.Contains(s, "strconv.ParseUint"):
				cls = 7
			case strings.Contains(s, "strconv.ParseInt"):
				cls = 8
			}
		}
		return cls, pe.File.Name(), pe.Line, true
	}
	return 20, "", 0, false
}

func tOptInt(t *Toks, f dictionary.IntFlag) {
	if f.Valid {
		t.I(1).I(int64(f.Int))
	} else {
		t.I(0)
	}
}

func tDictAttr(t *Toks, a *dictionary.Attribute) {
	t.B([]byte(a.Name)).I(int64(len(a.OID)))
	for _, x := range a.OID {
		t.I(int64(x))
	}
	t.I(int64(a.Type))
	tOptInt(t, a.Size)
	tOptInt(t, a.FlagEncrypt)
	t.Bool(a.FlagHasTag.Valid && a.FlagHasTag.Bool).Bool(a.FlagConcat.Valid && a.FlagConcat.Bool)
}

func tDict(t *Toks, d *dictionary.Dictionary) {
	t.I(int64(len(d.Attributes)))
	for _, a := range d.Attributes {
		tDictAttr(t, a)
	}
	t.I(int64(len(d.Values)))
	for _, v := range d.Values {
		t.B([]byte(v.Attribute)).B([]byte(v.Name)).U(v.Number)
	}
	t.I(int64(len(d.Vendors)))
	for _, v := range d.Vendors {
		t.B([]byte(v.Name)).I(int64(v.Number))
		if v.TypeOctets != nil && v.LengthOctets != nil {
			t.I(1).I(int64(*v.TypeOctets)).I(int64(*v.LengthOctets))
		} else {
			t.I(0)
		}
		t.I(int64(len(v.Attributes)))
		for _, a := range v.Attributes {
			tDictAttr(t, a)
		}
		t.I(int64(len(v.Values)))
		for _, x := range v.Values {
			t.B([]byte(x.Attribute)).B([]byte(x.Name)).U(x.Number)
		}
	}
}

type dictCase struct {
	rootName, rootText string
	rootReq            string // when set: the root is opened through Parser.ParseFile under this name; rootName is the name the opened file reports
	files              []struct{ req, canon, text string }
	ignoreIdentical    bool
}

func (dc *dictCase) req() Req {
	r := Req{Name: "dictparse"}
	r.Bs = [][]byte{[]byte(dc.rootName), []byte(dc.rootText)}
	for _, f := range dc.files {
		r.Bs = append(r.Bs, []byte(f.req), []byte(f.canon), []byte(f.text))
	}
	if dc.rootReq != "" {
		known := false
		for _, f := range dc.files {
			known = known || f.req == dc.rootReq
		}
		if !known {
			r.Bs = append(r.Bs, []byte(dc.rootReq), []byte(dc.rootName), []byte(dc.rootText))
		}
	}
	r.Zs = []string{Z(b2i(dc.ignoreIdentical)), Z(int64(len(dc.files) + 3))}
	return r
}

// runDictParse runs the real parser; returns tokens, the dictionary, and observations
var (
	reusedParser   = &dictionary.Parser{}
	reusedParserMu sync.Mutex
)

func runDictParse(dc *dictCase) (*Toks, *dictionary.Dictionary, *memOpener, bool) {
	op := &memOpener{files: map[string]memEntry{}, limit: 64}
	for _, f := range dc.files {
		op.files[f.req] = memEntry{f.canon, f.text}
	}
	// one Parser value serves every run of this process (after successes and after failures alike), as a long-lived
	// caller would use it: whatever a Parser keeps between calls shows up as a difference from the model
	reusedParserMu.Lock()
	defer reusedParserMu.Unlock()
	p := reusedParser
	p.Opener, p.IgnoreIdenticalAttributes = op, dc.ignoreIdentical
	root := &memFile{name: dc.rootName, r: bytes.NewReader([]byte(dc.rootText)), op: &memOpener{}}
	var d *dictionary.Dictionary
	var err error
	var panicked bool
	if dc.rootReq != "" {
		// the other entry point: ParseFile opens the root through the Opener (and closes it); what the root is called
		// in the include graph is what the opened file reports, as for every other file
		op.files[dc.rootReq] = memEntry{dc.rootName, dc.rootText}
		op.limit++
		panicked = safely(func() { d, err = p.ParseFile(dc.rootReq) })
		if len(op.trace) >= 2 && op.trace[0] == "o:"+dc.rootName && op.trace[len(op.trace)-1] == "c:"+dc.rootName {
			op.trace = op.trace[1 : len(op.trace)-1]
			op.maxDepth--
		} else if !panicked {
			op.trace = append(op.trace, "r:root not opened first and closed last by ParseFile")
		}
	} else {
		panicked = safely(func() { d, err = p.Parse(root) })
	}
	t := &Toks{}
	switch {
	case panicked:
		t.I(4)
	case err != nil:
		cls, file, line, isPE := dictErrClass(err)
		if isPE {
			t.I(1).I(cls).B([]byte(file)).I(int64(line))
		} else {
			t.I(2).I(cls)
		}
	default:
		t.I(0)
		tDict(t, d)
	}
	t.I(int64(len(op.trace)))
	for _, e := range op.trace {
		switch e[0] {
		case 'o':
			t.I(0)
		case 'c':
			t.I(1)
		default:
			t.I(2)
		}
		t.B([]byte(e[2:]))
	}
	return t, d, op, panicked
}

var _ = io.EOF
var _ = fmt.Sprint
