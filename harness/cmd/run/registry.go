package main

import (
	"net"
	"time"

	"layeh.com/radius"
)

// GV is a helper value in a uniform shape.
type GV struct {
	B   []byte
	U   uint64
	T   time.Time
	Net *net.IPNet
}

// Helper is one attribute's family of generated functions (registry_gen.go).
type Helper struct {
	Pkg, Ident, Kind, Dict string
	Tagged, NeedQ          bool
	IsVendor               bool
	Type                   int
	VendorID, VendorType   int
	IntBits                int
	Add, Set               func(p *radius.Packet, tag byte, v GV) error
	AddString, SetString   func(p *radius.Packet, tag byte, s string) error
	Get                    func(p, q *radius.Packet) (byte, GV)
	Lookup                 func(p, q *radius.Packet) (byte, GV, error)
	Gets                   func(p, q *radius.Packet) ([]byte, []GV, error)
	GetString              func(p, q *radius.Packet) (byte, string)
	LookupString           func(p, q *radius.Packet) (byte, string, error)
	GetStrings             func(p, q *radius.Packet) ([]byte, []string, error)
	Del                    func(p *radius.Packet)
	String                 func(u uint64) string
	Values                 map[string]uint64
}

var registry []*Helper
var registryFuncs int
