// Package main is the correspondence harness: it runs the real layeh/radius
// code and the extracted Coq model/spec (build/model_driver) on the same cases
// and compares projected observables.
package main

import (
	"bufio"
	"encoding/hex"
	"encoding/json"
	"fmt"
	"io"
	"math/big"
	"os"
	"os/exec"
	"sort"
	"strconv"
	"strings"
	"sync"
	"time"
)

// ---------- deterministic PRNG (splitmix64) ----------
type Rng struct{ s uint64 }

func NewRng(seed uint64) *Rng { return &Rng{seed*0x9E3779B97F4A7C15 + 0x1234567} }
func (r *Rng) U64() uint64 {
	r.s += 0x9E3779B97F4A7C15
	z := r.s
	z = (z ^ (z >> 30)) * 0xBF58476D1CE4E5B9
	z = (z ^ (z >> 27)) * 0x94D049BB133111EB
	return z ^ (z >> 31)
}
func (r *Rng) Intn(n int) int {
	if n <= 0 {
		return 0
	}
	return int(r.U64() % uint64(n))
}
func (r *Rng) Bool() bool { return r.U64()&1 == 1 }
func (r *Rng) Bytes(n int) []byte {
	b := make([]byte, n)
	for i := range b {
		b[i] = byte(r.U64())
	}
	return b
}
func (r *Rng) Pick(xs ...int) int { return xs[r.Intn(len(xs))] }
func (r *Rng) Fork() *Rng         { return NewRng(r.U64()) }

// ---------- token streams ----------
// A Toks value carries two projections of the implementation's observable:
// the full one (compared with the source-tied model, "m.") and the one the
// property itself constrains (compared with the spec oracle, "s."): the latter
// has no error classes.
type Toks struct{ parts, spec []string }

func (t *Toks) add(s string) *Toks {
	t.parts = append(t.parts, s)
	t.spec = append(t.spec, s)
	return t
}
func (t *Toks) I(v int64) *Toks {
	if v < 0 {
		return t.add("i-" + strconv.FormatUint(uint64(-v), 16))
	}
	return t.add("i" + strconv.FormatInt(v, 16))
}
func (t *Toks) U(v uint64) *Toks     { return t.add("i" + strconv.FormatUint(v, 16)) }
func (t *Toks) Big(v *big.Int) *Toks { return t.add("i" + v.Text(16)) }
func (t *Toks) B(b []byte) *Toks     { return t.add("b" + hex.EncodeToString(b)) }
func (t *Toks) Bool(b bool) *Toks {
	if b {
		return t.I(1)
	}
	return t.I(0)
}

// E records a refusal; the class is only part of the model comparison.
func (t *Toks) E(class int64) *Toks {
	t.parts = append(t.parts, "i1", "i"+strconv.FormatInt(class, 16))
	t.spec = append(t.spec, "i1")
	return t
}
func (t *Toks) String() string { return strings.Join(t.parts, " ") }
func (t *Toks) Spec() string   { return strings.Join(t.spec, " ") }

// ---------- driver requests ----------
type Req struct {
	Name string
	Bs   [][]byte
	Zs   []string // signed hex
}

func Z(v int64) string {
	if v < 0 {
		return "-" + strconv.FormatUint(uint64(-v), 16)
	}
	return strconv.FormatInt(v, 16)
}
func ZU(v uint64) string { return strconv.FormatUint(v, 16) }

func (r Req) Line(prefix string) string {
	var sb strings.Builder
	sb.WriteString(prefix)
	sb.WriteString(r.Name)
	sb.WriteByte('|')
	for i, b := range r.Bs {
		if i > 0 {
			sb.WriteByte(',')
		}
		if len(b) == 0 {
			sb.WriteByte('-')
		} else {
			sb.WriteString(hex.EncodeToString(b))
		}
	}
	sb.WriteByte('|')
	sb.WriteString(strings.Join(r.Zs, ","))
	return sb.String()
}

type Driver struct {
	cmd *exec.Cmd
	in  *bufio.Writer
	out *bufio.Reader
	mu  sync.Mutex
}

func StartDriver(path string) (*Driver, error) {
	cmd := exec.Command(path)
	stdin, err := cmd.StdinPipe()
	if err != nil {
		return nil, err
	}
	stdout, err := cmd.StdoutPipe()
	if err != nil {
		return nil, err
	}
	cmd.Stderr = os.Stderr
	if err := cmd.Start(); err != nil {
		return nil, err
	}
	return &Driver{cmd: cmd, in: bufio.NewWriterSize(stdin, 1<<20), out: bufio.NewReaderSize(stdout, 1<<20)}, nil
}

// Calls sends all lines, then reads as many replies.
func (d *Driver) Calls(lines []string) ([]string, error) {
	d.mu.Lock()
	defer d.mu.Unlock()
	errc := make(chan error, 1)
	go func() {
		for _, l := range lines {
			if _, err := d.in.WriteString(l); err != nil {
				errc <- err
				return
			}
			d.in.WriteByte('\n')
		}
		errc <- d.in.Flush()
	}()
	out := make([]string, 0, len(lines))
	for range lines {
		s, err := d.out.ReadString('\n')
		if err != nil {
			return out, fmt.Errorf("driver died: %v", err)
		}
		out = append(out, strings.TrimRight(s, "\n"))
	}
	return out, <-errc
}

func (d *Driver) Close() {
	d.in.Flush()
	if c, ok := d.cmd.Stdin.(io.Closer); ok {
		c.Close()
	}
	d.cmd.Process.Kill()
	d.cmd.Wait()
}

// T makes a case from a token stream.
func T(req Req, t *Toks, tag string) Case {
	return Case{Req: req, Impl: t.String(), ImplSpec: t.Spec(), Tag: tag}
}

// ---------- a differential case ----------
type Case struct {
	Req      Req    // request without the m./s. prefix
	Impl     string // token stream observed on the implementation (full projection)
	ImplSpec string // property-level projection; empty = same as Impl
	Tag      string // coverage tag (which branch / kind of case)
	// PropOnly: tokens of Impl the property itself constrains are compared with
	// the spec oracle ("s."), the full stream with the model ("m.").
	NoSpec bool // no spec oracle for this op
	Desc   string
}

type Mismatch struct {
	Kind  string `json:"kind"` // "spec" (property fails on this input) or "model" (correspondence broken)
	Op    string `json:"op"`
	Tag   string `json:"tag"`
	Req   string `json:"request"`
	Impl  string `json:"impl"`
	Other string `json:"expected"`
	Desc  string `json:"desc,omitempty"`
}

type Result struct {
	Property           string                 `json:"property"`
	Tier               string                 `json:"tier"`
	Seed               int64                  `json:"seed"`
	Evaluations        int                    `json:"evaluations"`
	DistinctNontrivial int                    `json:"distinct_nontrivial"`
	Rule               string                 `json:"rule"`
	Samples            []interface{}          `json:"samples"`
	Tags               map[string]int         `json:"tags"`
	Sizes              map[string]int         `json:"sizes,omitempty"`
	MissingTags        []string               `json:"missing_tags,omitempty"`
	Mismatches         []Mismatch             `json:"mismatches"`
	NMismatch          int                    `json:"n_mismatch"`
	Known              []string               `json:"known_findings,omitempty"`
	Exhaustive         bool                   `json:"exhaustive"`
	Notes              []string               `json:"notes,omitempty"`
	WallS              float64                `json:"wall_s"`
	Extra              map[string]interface{} `json:"extra,omitempty"`
	// a sample of (request, answer of the extracted driver) pairs, re-evaluated inside Coq by vm_compute in the thorough tier
	Kernel []KernelCase `json:"kernel_sample,omitempty"`
}

type KernelCase struct {
	Line string `json:"line"`
	Out  string `json:"out"`
}

type Ctx struct {
	Prop    string
	Tier    string
	Seed    int64
	Driver  string
	Workers int
	Repo    string
	Verif   string
	Rng     *Rng
	Res     *Result
	mu      sync.Mutex
	seen    map[string]struct{}
	trivial map[string]bool
	drivers []*Driver
	start   time.Time
	pending []Case
	Replay  string
}

func (c *Ctx) Thorough() bool { return c.Tier == "thorough" }

// N picks a count by tier.
func (c *Ctx) N(quick, thorough int) int {
	if c.Thorough() {
		return thorough
	}
	return quick
}

func (c *Ctx) Note(f string, a ...interface{}) {
	c.Res.Notes = append(c.Res.Notes, fmt.Sprintf(f, a...))
}

// Add queues a case; cases are flushed to the drivers in batches.
func (c *Ctx) Add(cs Case) {
	c.pending = append(c.pending, cs)
	if len(c.pending) >= 4096 {
		c.Flush()
	}
}

func (c *Ctx) driver(i int) *Driver {
	for len(c.drivers) <= i {
		d, err := StartDriver(c.Driver)
		if err != nil {
			fmt.Fprintln(os.Stderr, "harness: cannot start driver:", err)
			os.Exit(3)
		}
		c.drivers = append(c.drivers, d)
	}
	return c.drivers[i]
}

func (c *Ctx) Flush() {
	cases := c.pending
	c.pending = nil
	if len(cases) == 0 {
		return
	}
	w := c.Workers
	if w > len(cases) {
		w = len(cases)
	}
	for i := 0; i < w; i++ {
		c.driver(i)
	}
	var wg sync.WaitGroup
	chunk := (len(cases) + w - 1) / w
	for i := 0; i < w; i++ {
		lo, hi := i*chunk, (i+1)*chunk
		if lo >= len(cases) {
			break
		}
		if hi > len(cases) {
			hi = len(cases)
		}
		wg.Add(1)
		go func(d *Driver, part []Case) {
			defer wg.Done()
			var lines []string
			for _, cs := range part {
				lines = append(lines, cs.Req.Line("m."))
				if !cs.NoSpec {
					lines = append(lines, cs.Req.Line("s."))
				}
			}
			out, err := d.Calls(lines)
			if err != nil {
				fmt.Fprintln(os.Stderr, "harness:", err)
				os.Exit(3)
			}
			k := 0
			for _, cs := range part {
				m := out[k]
				k++
				s := ""
				if !cs.NoSpec {
					s = out[k]
					k++
				}
				c.record(cs, m, s)
			}
		}(c.drivers[i], cases[lo:hi])
	}
	wg.Wait()
}

func (c *Ctx) record(cs Case, m, s string) {
	c.mu.Lock()
	defer c.mu.Unlock()
	c.Res.Evaluations++
	c.Res.Tags[cs.Tag]++
	key := cs.Req.Line("")
	if _, ok := c.seen[key]; !ok {
		c.seen[key] = struct{}{}
		if !c.trivial[cs.Tag] {
			c.Res.DistinctNontrivial++
		}
	}
	if len(c.Res.Samples) < 6 && c.Res.Evaluations%97 == 1 {
		c.Res.Samples = append(c.Res.Samples, map[string]string{"request": trunc(key, 400), "impl": trunc(cs.Impl, 400), "tag": cs.Tag})
	}
	if len(c.Res.Kernel) < 60 && c.Res.Evaluations%53 == 7 {
		if l := cs.Req.Line("m."); len(l) < 1200 && len(m) < 4000 {
			c.Res.Kernel = append(c.Res.Kernel, KernelCase{l, m})
		}
	}
	is := cs.ImplSpec
	if is == "" {
		is = cs.Impl
	}
	if !cs.NoSpec && s != is {
		c.mismatch(Mismatch{Kind: "spec", Op: cs.Req.Name, Tag: cs.Tag, Req: key, Impl: is, Other: s, Desc: cs.Desc})
	} else if m != cs.Impl {
		c.mismatch(Mismatch{Kind: "model", Op: cs.Req.Name, Tag: cs.Tag, Req: key, Impl: cs.Impl, Other: m, Desc: cs.Desc})
	}
}

func (c *Ctx) mismatch(m Mismatch) {
	c.Res.NMismatch++
	c.Res.Tags["MISMATCH:"+m.Kind+":"+m.Tag]++
	n, k := 0, 0
	for _, x := range c.Res.Mismatches {
		if x.Kind == m.Kind {
			n++
			if x.Tag == m.Tag {
				k++
			}
		}
	}
	// keep a few of every distinct class so that one frequent failure does not hide the others
	if (n < 10 || k == 0) && k < 3 && n < 40 {
		c.Res.Mismatches = append(c.Res.Mismatches, m)
	}
}

// Direct mismatch reporting for checks that do not go through the driver
// (runtime-only observations).
func (c *Ctx) Fail(kind, op, tag, req, impl, expected, desc string) {
	c.mu.Lock()
	defer c.mu.Unlock()
	c.mismatch(Mismatch{Kind: kind, Op: op, Tag: tag, Req: req, Impl: impl, Other: expected, Desc: desc})
}

// Count records a runtime-only evaluation (no driver call).
// TagOnly adds to the tag histogram without counting an evaluation.
func (c *Ctx) TagOnly(tag string) {
	c.mu.Lock()
	defer c.mu.Unlock()
	c.Res.Tags[tag]++
}

func (c *Ctx) Count(tag, key string) {
	c.mu.Lock()
	defer c.mu.Unlock()
	c.Res.Evaluations++
	c.Res.Tags[tag]++
	if _, ok := c.seen[key]; !ok {
		c.seen[key] = struct{}{}
		if !c.trivial[tag] {
			c.Res.DistinctNontrivial++
		}
	}
	if len(c.Res.Samples) < 6 && c.Res.Evaluations%97 == 1 {
		c.Res.Samples = append(c.Res.Samples, map[string]string{"case": trunc(key, 400), "tag": tag})
	}
}

func trunc(s string, n int) string {
	if len(s) > n {
		return s[:n] + "…"
	}
	return s
}

// RequireTags fails the run (coverage hole) if a tag was never hit.
func (c *Ctx) RequireTags(tags ...string) {
	for _, t := range tags {
		if c.Res.Tags[t] == 0 {
			c.Res.MissingTags = append(c.Res.MissingTags, t)
		}
	}
	sort.Strings(c.Res.MissingTags)
}

func (c *Ctx) Trivial(tags ...string) {
	for _, t := range tags {
		c.trivial[t] = true
	}
}

func (c *Ctx) Finish(out string) {
	c.Flush()
	for _, d := range c.drivers {
		d.Close()
	}
	c.Res.WallS = time.Since(c.start).Seconds()
	b, _ := json.MarshalIndent(c.Res, "", " ")
	if err := os.WriteFile(out, b, 0644); err != nil {
		fmt.Fprintln(os.Stderr, "harness:", err)
		os.Exit(3)
	}
}

func hx(b []byte) string { return hex.EncodeToString(b) }

// KnownOpen reports whether finding id is listed as open for this property in the
// committed KNOWN_FINDINGS.json; only listed findings are excused, and the
// caller must re-confirm them and report them with Known.
func (c *Ctx) KnownOpen(id string) (string, bool) {
	raw, err := os.ReadFile(c.Verif + "/KNOWN_FINDINGS.json")
	if err != nil {
		return "", false
	}
	var kf struct {
		Findings []struct {
			ID, Status, Property, Line string
		} `json:"findings"`
	}
	if json.Unmarshal(raw, &kf) != nil {
		return "", false
	}
	for _, f := range kf.Findings {
		if f.ID == id && f.Status == "open" && f.Property == c.Prop {
			return f.Line, true
		}
	}
	return "", false
}

// Tok appends a pre-formatted token.
func (t *Toks) Tok(s string) *Toks { return t.add(s) }
