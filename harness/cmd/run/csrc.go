package main

// csrc.go — correspondence between the compiled Go functions and the
// interpretation (Base/GoLite.v) of their translation (Gen/Src.v): operation
// m.src.<Key>.  This validates the translator and the interpreter, which the
// theorems of Proofs/Src*.v rely on; it says nothing about the properties
// themselves, so a mismatch here is always of kind "model".

import (
	"bytes"
	"crypto/md5"
	"fmt"
	"math/big"
	"net"
	"strconv"
	"time"

	"layeh.com/radius"
)

// V is a GoLite value tree.
type V struct {
	kind int // 0 int 1 bool 2 bytes 3 nil 4 err 5 list 6 rec 7 tup
	z    *big.Int
	b    []byte
	kids []V
}

func vInt(z int64) V  { return V{kind: 0, z: big.NewInt(z)} }
func vU(z uint64) V   { return V{kind: 0, z: new(big.Int).SetUint64(z)} }
func vBool(b bool) V  { return V{kind: 1, z: big.NewInt(map[bool]int64{false: 0, true: 1}[b])} }
func vStr(s string) V { return V{kind: 2, b: []byte(s)} }
func vNil() V         { return V{kind: 3} }
func vList(k ...V) V  { return V{kind: 5, kids: k} }
func vRec(k ...V) V   { return V{kind: 6, kids: k} }
func vTup(k ...V) V   { return V{kind: 7, kids: k} }
func vBytes(b []byte) V {
	if b == nil {
		return vNil()
	}
	return V{kind: 2, b: b}
}
func vErr(e error) V {
	if e == nil {
		return vNil()
	}
	return V{kind: 4}
}

func zhex(z *big.Int) string {
	if z.Sign() < 0 {
		return "-" + new(big.Int).Neg(z).Text(16)
	}
	return z.Text(16)
}

func (v V) arg(r *Req) {
	r.Zs = append(r.Zs, strconv.Itoa(v.kind))
	switch v.kind {
	case 0, 1:
		r.Zs = append(r.Zs, zhex(v.z))
	case 2:
		r.Bs = append(r.Bs, v.b)
	case 5, 6, 7:
		r.Zs = append(r.Zs, Z(int64(len(v.kids))))
		for _, k := range v.kids {
			k.arg(r)
		}
	}
}

func (v V) toks(t *Toks) {
	t.I(int64(v.kind))
	switch v.kind {
	case 0, 1:
		t.Big(v.z)
	case 2:
		t.B(v.b)
	case 5, 6, 7:
		t.I(int64(len(v.kids)))
		for _, k := range v.kids {
			k.toks(t)
		}
	}
}

func vAttrs(a radius.Attributes) V {
	if a == nil {
		return vNil()
	}
	var k []V
	for _, p := range a {
		if p == nil {
			k = append(k, vNil())
		} else {
			k = append(k, vRec(vInt(int64(p.Type)), vBytes(p.Attribute)))
		}
	}
	return V{kind: 5, kids: k}
}

func vPacket(p *radius.Packet) V {
	if p == nil {
		return vNil()
	}
	return vRec(vInt(int64(p.Code)), vInt(int64(p.Identifier)), vBytes(p.Authenticator[:]), vBytes(p.Secret), vAttrs(p.Attributes))
}

func vIPNet(n *net.IPNet) V {
	if n == nil {
		return vNil()
	}
	return vRec(vBytes(n.IP), vBytes(n.Mask))
}

// a function of the translated files: gen makes native inputs and returns the argument
// values together with a thunk running the compiled code
type srcFn struct {
	key   string
	props []string
	gen   func(r *Rng) ([]V, func() V)
}

func lenNear(r *Rng, marks ...int) int {
	switch r.Intn(4) {
	case 0:
		return marks[r.Intn(len(marks))]
	case 1:
		n := marks[r.Intn(len(marks))] + r.Intn(3) - 1
		if n < 0 {
			n = 0
		}
		return n
	case 2:
		return r.Intn(24)
	}
	return r.Intn(300)
}

func bytesNear(r *Rng, marks ...int) []byte {
	if r.Intn(40) == 0 {
		return nil
	}
	b := r.Bytes(lenNear(r, marks...))
	if r.Intn(4) == 0 {
		for i := range b {
			if r.Intn(3) == 0 {
				b[i] = 0
			}
		}
	}
	return b
}

func cp(b []byte) []byte {
	if b == nil {
		return nil
	}
	return append([]byte{}, b...)
}

func genAttrsSrc(r *Rng) radius.Attributes {
	if r.Intn(12) == 0 {
		return nil
	}
	n := r.Intn(7)
	a := radius.Attributes{}
	types := []radius.Type{1, 1, 2, 3, 26, 255, 0, -1, 256, 300}
	for i := 0; i < n; i++ {
		var v []byte
		switch r.Intn(8) {
		case 0:
			v = nil
		case 1:
			v = r.Bytes(253 + r.Intn(3))
		default:
			v = r.Bytes(r.Intn(6))
		}
		a = append(a, &radius.AVP{Type: types[r.Intn(len(types))], Attribute: v})
	}
	return a
}

// vw hands the compiled function a view of a larger buffer: the argument's bytes followed by sentinel bytes in the
// spare capacity. After the call the whole buffer must be what it was (no function of these files writes into, or
// appends to, an argument).
type viewRec struct {
	orig, backing []byte
}

var curViews []viewRec

func vw(b []byte) []byte {
	if b == nil {
		return nil
	}
	backing := make([]byte, len(b)+24)
	copy(backing, b)
	for i := len(b); i < len(backing); i++ {
		backing[i] = 0xA5 ^ byte(i)
	}
	curViews = append(curViews, viewRec{append([]byte{}, b...), backing})
	return backing[:len(b):len(backing)]
}

func viewsIntact() (bool, string) {
	for _, v := range curViews {
		if !bytes.Equal(v.backing[:len(v.orig)], v.orig) {
			return false, fmt.Sprintf("argument %x became %x", v.orig, v.backing[:len(v.orig)])
		}
		for i := len(v.orig); i < len(v.backing); i++ {
			if v.backing[i] != 0xA5^byte(i) {
				return false, fmt.Sprintf("the memory behind argument %x (spare capacity) was overwritten at offset +%d", v.orig, i-len(v.orig))
			}
		}
	}
	return true, ""
}

// scribble overwrites every byte string of a result, as a caller who owns the result may
func (v V) scribble() {
	for i := range v.b {
		v.b[i] ^= 0x5A
	}
	for _, k := range v.kids {
		k.scribble()
	}
}

func cloneAttrs(a radius.Attributes) radius.Attributes {
	if a == nil {
		return nil
	}
	b := make(radius.Attributes, len(a))
	for i, p := range a {
		q := *p
		q.Attribute = vw(p.Attribute) // results that alias a value alias this copy, not the generator's original
		b[i] = &q
	}
	return b
}

func clonePacket(p *radius.Packet) *radius.Packet {
	q := *p
	q.Secret = vw(p.Secret)
	q.Attributes = cloneAttrs(p.Attributes)
	return &q
}

// wire-shaped attribute bytes, mostly well formed
func genWireAttrs(r *Rng) []byte {
	var b []byte
	for i, n := 0, r.Intn(6); i < n; i++ {
		l := r.Intn(6)
		b = append(b, byte(r.Intn(256)), byte(l+2))
		b = append(b, r.Bytes(l)...)
	}
	switch r.Intn(6) {
	case 0:
		b = append(b, byte(r.Intn(256)))
	case 1:
		b = append(b, 1, byte(r.Intn(3)))
	case 2:
		b = append(b, 1, byte(3+r.Intn(250)), 7)
	}
	return b
}

func genWirePacket(r *Rng) []byte {
	at := genWireAttrs(r)
	n := 20 + len(at)
	b := make([]byte, 0, n)
	codes := []byte{1, 2, 3, 4, 5, 11, 12, 13, 40, 41, 42, 43, 44, 45, 0, 99}
	b = append(b, codes[r.Intn(len(codes))], byte(r.Intn(256)), byte(n>>8), byte(n))
	b = append(b, r.Bytes(16)...)
	b = append(b, at...)
	switch r.Intn(8) {
	case 0:
		b = b[:r.Intn(len(b)+1)]
	case 1:
		b[2], b[3] = byte(r.Intn(20)), byte(r.Intn(256))
	case 2:
		b = append(b, r.Bytes(r.Intn(5))...)
	case 3:
		k := n - r.Intn(4)
		b[2], b[3] = byte(k>>8), byte(k)
	}
	return b
}

func safeV(f func() V) (v V, panicked bool) {
	defer func() {
		if recover() != nil {
			panicked = true
		}
	}()
	return f(), false
}

var srcFns = []srcFn{
	{"Integer", []string{"C10"}, func(r *Rng) ([]V, func() V) {
		a := bytesNear(r, 4)
		return []V{vBytes(a)}, func() V { v, e := radius.Integer(vw(a)); return vTup(vU(uint64(v)), vErr(e)) }
	}},
	{"NewInteger", []string{"C10"}, func(r *Rng) ([]V, func() V) {
		i := uint32(r.U64() >> uint(r.Intn(64)))
		return []V{vU(uint64(i))}, func() V { return vBytes(radius.NewInteger(i)) }
	}},
	{"Short", []string{"C10"}, func(r *Rng) ([]V, func() V) {
		a := bytesNear(r, 2)
		return []V{vBytes(a)}, func() V { v, e := radius.Short(vw(a)); return vTup(vU(uint64(v)), vErr(e)) }
	}},
	{"NewShort", []string{"C10"}, func(r *Rng) ([]V, func() V) {
		i := uint16(r.U64() >> uint(r.Intn(64)))
		return []V{vU(uint64(i))}, func() V { return vBytes(radius.NewShort(i)) }
	}},
	{"Integer64", []string{"C10"}, func(r *Rng) ([]V, func() V) {
		a := bytesNear(r, 8)
		return []V{vBytes(a)}, func() V { v, e := radius.Integer64(vw(a)); return vTup(vU(v), vErr(e)) }
	}},
	{"NewInteger64", []string{"C10"}, func(r *Rng) ([]V, func() V) {
		i := r.U64() >> uint(r.Intn(64))
		return []V{vU(i)}, func() V { return vBytes(radius.NewInteger64(i)) }
	}},
	{"String", []string{"C10"}, func(r *Rng) ([]V, func() V) {
		a := bytesNear(r, 0, 253)
		return []V{vBytes(a)}, func() V { return vStr(radius.String(vw(a))) }
	}},
	{"NewString", []string{"C10"}, func(r *Rng) ([]V, func() V) {
		s := string(bytesNear(r, 0, 253, 254))
		return []V{vStr(s)}, func() V { v, e := radius.NewString(s); return vTup(vBytes(v), vErr(e)) }
	}},
	{"Bytes", []string{"C10"}, func(r *Rng) ([]V, func() V) {
		a := bytesNear(r, 0, 253)
		return []V{vBytes(a)}, func() V { return vBytes(radius.Bytes(vw(a))) }
	}},
	{"NewBytes", []string{"C10"}, func(r *Rng) ([]V, func() V) {
		a := bytesNear(r, 0, 253, 254)
		return []V{vBytes(a)}, func() V { v, e := radius.NewBytes(vw(a)); return vTup(vBytes(v), vErr(e)) }
	}},
	{"IPAddr", []string{"C10"}, func(r *Rng) ([]V, func() V) {
		a := bytesNear(r, 4, 16)
		if r.Intn(3) == 0 {
			a = genIPSrc(r)
		}
		return []V{vBytes(a)}, func() V { v, e := radius.IPAddr(vw(a)); return vTup(vBytes(v), vErr(e)) }
	}},
	{"NewIPAddr", []string{"C10"}, func(r *Rng) ([]V, func() V) {
		a := genIPSrc(r)
		return []V{vBytes(a)}, func() V { v, e := radius.NewIPAddr(vw(a)); return vTup(vBytes(v), vErr(e)) }
	}},
	{"IPv6Addr", []string{"C10"}, func(r *Rng) ([]V, func() V) {
		a := bytesNear(r, 4, 16)
		if r.Intn(3) == 0 {
			a = genIPSrc(r)
		}
		return []V{vBytes(a)}, func() V { v, e := radius.IPv6Addr(vw(a)); return vTup(vBytes(v), vErr(e)) }
	}},
	{"NewIPv6Addr", []string{"C10"}, func(r *Rng) ([]V, func() V) {
		a := genIPSrc(r)
		return []V{vBytes(a)}, func() V { v, e := radius.NewIPv6Addr(vw(a)); return vTup(vBytes(v), vErr(e)) }
	}},
	{"IFID", []string{"C10"}, func(r *Rng) ([]V, func() V) {
		a := bytesNear(r, 8)
		return []V{vBytes(a)}, func() V { v, e := radius.IFID(vw(a)); return vTup(vBytes(v), vErr(e)) }
	}},
	{"NewIFID", []string{"C10"}, func(r *Rng) ([]V, func() V) {
		a := bytesNear(r, 8)
		return []V{vBytes(a)}, func() V { v, e := radius.NewIFID(vw(a)); return vTup(vBytes(v), vErr(e)) }
	}},
	{"Date", []string{"C10"}, func(r *Rng) ([]V, func() V) {
		a := bytesNear(r, 4)
		return []V{vBytes(a)}, func() V { v, e := radius.Date(vw(a)); return vTup(vInt(v.Unix()), vErr(e)) }
	}},
	{"NewDate", []string{"C10"}, func(r *Rng) ([]V, func() V) {
		var u int64
		switch r.Intn(4) {
		case 0:
			u = []int64{-1, 0, 1, 1<<32 - 1, 1 << 32, 1<<31 - 1, 1 << 31, -62135596800}[r.Intn(8)]
		case 1:
			u = int64(r.U64() >> 31)
		case 2:
			u = int64(r.U64()>>30) - (1 << 32)
		default:
			u = int64(r.U64() >> 32)
		}
		return []V{vInt(u)}, func() V { v, e := radius.NewDate(time.Unix(u, 0)); return vTup(vBytes(v), vErr(e)) }
	}},
	{"VendorSpecific", []string{"C10"}, func(r *Rng) ([]V, func() V) {
		a := bytesNear(r, 4, 5, 253)
		return []V{vBytes(a)}, func() V {
			id, v, e := radius.VendorSpecific(vw(a))
			return vTup(vU(uint64(id)), vBytes(v), vErr(e))
		}
	}},
	{"NewVendorSpecific", []string{"C10"}, func(r *Rng) ([]V, func() V) {
		a := bytesNear(r, 0, 1, 249, 250)
		id := uint32(r.U64() >> uint(r.Intn(64)))
		return []V{vU(uint64(id)), vBytes(a)}, func() V { v, e := radius.NewVendorSpecific(id, vw(a)); return vTup(vBytes(v), vErr(e)) }
	}},
	{"TLV", []string{"C10"}, func(r *Rng) ([]V, func() V) {
		a := bytesNear(r, 2, 3, 255, 256)
		if len(a) > 1 && r.Intn(3) > 0 {
			a[1] = byte(len(a))
		}
		return []V{vBytes(a)}, func() V {
			ty, v, e := radius.TLV(vw(a))
			return vTup(vU(uint64(ty)), vBytes(v), vErr(e))
		}
	}},
	{"NewTLV", []string{"C10"}, func(r *Rng) ([]V, func() V) {
		a := bytesNear(r, 0, 1, 253, 254)
		ty := byte(r.Intn(256))
		return []V{vU(uint64(ty)), vBytes(a)}, func() V { v, e := radius.NewTLV(ty, vw(a)); return vTup(vBytes(v), vErr(e)) }
	}},
	{"NewIPv6Prefix", []string{"C10"}, func(r *Rng) ([]V, func() V) {
		var n *net.IPNet
		if r.Intn(20) > 0 {
			n = &net.IPNet{IP: genIPSrc(r), Mask: genMaskSrc(r)}
		}
		var arg V
		if n == nil {
			arg = vNil()
		} else {
			arg = vRec(vBytes(n.IP), vBytes(n.Mask))
		}
		return []V{arg}, func() V {
			var m *net.IPNet
			if n != nil {
				m = &net.IPNet{IP: vw(n.IP), Mask: vw(n.Mask)}
			}
			v, e := radius.NewIPv6Prefix(m)
			return vTup(vBytes(v), vErr(e))
		}
	}},
	{"IPv6Prefix", []string{"C10"}, func(r *Rng) ([]V, func() V) {
		a := bytesNear(r, 2, 18, 19)
		if len(a) > 1 {
			switch r.Intn(4) {
			case 0:
				a[1] = byte(r.Intn(130))
			case 1, 2:
				// consistent prefix: zero the bits past the prefix length
				pl := r.Intn(129)
				a[1] = byte(pl)
				for i := 2; i < len(a); i++ {
					bit := (i - 2) * 8
					for k := 0; k < 8; k++ {
						if bit+k >= pl && r.Intn(30) > 0 {
							a[i] &^= 1 << uint(7-k)
						}
					}
				}
			}
		}
		return []V{vBytes(a)}, func() V { v, e := radius.IPv6Prefix(vw(a)); return vTup(vIPNet(v), vErr(e)) }
	}},
	{"UserPassword", []string{"C04"}, func(r *Rng) ([]V, func() V) {
		a := bytesNear(r, 16, 32, 128, 144)
		if r.Intn(3) > 0 {
			a = r.Bytes(16 * (1 + r.Intn(8)))
		}
		s, ra := genSecretSrc(r), genAuthSrc(r)
		return []V{vBytes(a), vBytes(s), vBytes(ra)}, func() V {
			v, e := radius.UserPassword(vw(a), vw(s), vw(ra))
			return vTup(vBytes(v), vErr(e))
		}
	}},
	{"NewUserPassword", []string{"C04"}, func(r *Rng) ([]V, func() V) {
		p := bytesNear(r, 0, 15, 16, 17, 128, 129)
		s, ra := genSecretSrc(r), genAuthSrc(r)
		return []V{vBytes(p), vBytes(s), vBytes(ra)}, func() V {
			v, e := radius.NewUserPassword(vw(p), vw(s), vw(ra))
			return vTup(vBytes(v), vErr(e))
		}
	}},
	{"TunnelPassword", []string{"C11"}, func(r *Rng) ([]V, func() V) {
		a := bytesNear(r, 18, 34, 250, 252, 266)
		if r.Intn(3) > 0 {
			a = r.Bytes(2 + 16*(1+r.Intn(15)))
		}
		if len(a) > 0 && r.Intn(5) > 0 {
			a[0] |= 0x80
		}
		s, ra := genSecretSrc(r), genAuthSrc(r)
		return []V{vBytes(a), vBytes(s), vBytes(ra)}, func() V {
			p, salt, e := radius.TunnelPassword(vw(a), vw(s), vw(ra))
			return vTup(vBytes(p), vBytes(salt), vErr(e))
		}
	}},
	{"NewTunnelPassword", []string{"C11"}, func(r *Rng) ([]V, func() V) {
		p := bytesNear(r, 0, 14, 15, 16, 239, 240)
		salt := r.Bytes(2)
		if r.Intn(6) > 0 {
			salt[0] |= 0x80
		}
		if r.Intn(10) == 0 {
			salt = r.Bytes(r.Intn(4))
		}
		s, ra := genSecretSrc(r), genAuthSrc(r)
		return []V{vBytes(p), vBytes(salt), vBytes(s), vBytes(ra)}, func() V {
			v, e := radius.NewTunnelPassword(vw(p), vw(salt), vw(s), vw(ra))
			return vTup(vBytes(v), vErr(e))
		}
	}},
	{"ParseAttributes", []string{"C01", "C02", "C09"}, func(r *Rng) ([]V, func() V) {
		b := genWireAttrs(r)
		if r.Intn(10) == 0 {
			b = r.Bytes(r.Intn(40))
		}
		return []V{vBytes(b)}, func() V { a, e := radius.ParseAttributes(vw(b)); return vTup(vAttrs(a), vErr(e)) }
	}},
	{"AttributesEncodedLen", []string{"C01", "C09"}, func(r *Rng) ([]V, func() V) {
		a := genAttrsSrc(r)
		return []V{vAttrs(a)}, func() V { n, e := radius.AttributesEncodedLen(cloneAttrs(a)); return vTup(vInt(int64(n)), vErr(e)) }
	}},
	{"Attributes.Add", []string{"C09"}, func(r *Rng) ([]V, func() V) {
		a := genAttrsSrc(r)
		k, v := radius.Type(r.Intn(4)), bytesNear(r, 0, 3)
		return []V{vAttrs(a), vInt(int64(k)), vBytes(v)}, func() V { b := cloneAttrs(a); b.Add(k, vw(v)); return vTup(vAttrs(b)) }
	}},
	{"Attributes.Del", []string{"C09"}, func(r *Rng) ([]V, func() V) {
		a := genAttrsSrc(r)
		k := radius.Type(r.Intn(4))
		return []V{vAttrs(a), vInt(int64(k))}, func() V { b := cloneAttrs(a); b.Del(k); return vTup(vAttrs(b)) }
	}},
	{"Attributes.Set", []string{"C09"}, func(r *Rng) ([]V, func() V) {
		a := genAttrsSrc(r)
		k, v := radius.Type(r.Intn(4)), bytesNear(r, 0, 3)
		return []V{vAttrs(a), vInt(int64(k)), vBytes(v)}, func() V { b := cloneAttrs(a); b.Set(k, vw(v)); return vTup(vAttrs(b)) }
	}},
	{"Attributes.Get", []string{"C09"}, func(r *Rng) ([]V, func() V) {
		a := genAttrsSrc(r)
		k := radius.Type(r.Intn(4))
		return []V{vAttrs(a), vInt(int64(k))}, func() V { b := cloneAttrs(a); return vBytes(b.Get(k)) }
	}},
	{"Attributes.Lookup", []string{"C09"}, func(r *Rng) ([]V, func() V) {
		a := genAttrsSrc(r)
		k := radius.Type(r.Intn(4))
		return []V{vAttrs(a), vInt(int64(k))}, func() V { b := cloneAttrs(a); v, ok := b.Lookup(k); return vTup(vBytes(v), vBool(ok)) }
	}},
	{"Parse", []string{"C01", "C02"}, func(r *Rng) ([]V, func() V) {
		b, s := genWirePacket(r), genSecretSrc(r)
		return []V{vBytes(b), vBytes(s)}, func() V { p, e := radius.Parse(vw(b), vw(s)); return vTup(vPacket(p), vErr(e)) }
	}},
	{"IsAuthenticRequest", []string{"C03"}, func(r *Rng) ([]V, func() V) {
		b, s := genWirePacket(r), genSecretSrc(r)
		if r.Bool() && len(b) >= 20 && len(s) > 0 {
			signRequest(b, s)
		}
		return []V{vBytes(b), vBytes(s)}, func() V { return vBool(radius.IsAuthenticRequest(vw(b), vw(s))) }
	}},
	{"IsAuthenticResponse", []string{"C03", "C05"}, func(r *Rng) ([]V, func() V) {
		resp, req, s := genWirePacket(r), genWirePacket(r), genSecretSrc(r)
		if r.Bool() && len(resp) >= 20 && len(req) >= 20 && len(s) > 0 {
			signResponse(resp, req, s)
		}
		return []V{vBytes(resp), vBytes(req), vBytes(s)}, func() V { return vBool(radius.IsAuthenticResponse(vw(resp), vw(req), vw(s))) }
	}},
	{"Packet.Response", []string{"C05"}, func(r *Rng) ([]V, func() V) {
		p := genPacketSrc(r)
		code := radius.Code(r.Intn(256))
		return []V{vPacket(p), vInt(int64(code))}, func() V { return vPacket(clonePacket(p).Response(code)) }
	}},
	{"Packet.MarshalBinary", []string{"C01"}, func(r *Rng) ([]V, func() V) {
		p := genPacketSrc(r)
		return []V{vPacket(p)}, func() V { b, e := clonePacket(p).MarshalBinary(); return vTup(vBytes(b), vErr(e)) }
	}},
	{"Packet.Encode", []string{"C03"}, func(r *Rng) ([]V, func() V) {
		p := genPacketSrc(r)
		return []V{vPacket(p)}, func() V { b, e := clonePacket(p).Encode(); return vTup(vBytes(b), vErr(e)) }
	}},
}

func genPacketSrc(r *Rng) *radius.Packet {
	codes := []radius.Code{1, 2, 3, 4, 5, 11, 12, 13, 40, 41, 42, 43, 44, 45, 0, 99}
	p := &radius.Packet{Code: codes[r.Intn(len(codes))], Identifier: byte(r.Intn(256)), Secret: genSecretSrc(r), Attributes: genAttrsSrc(r)}
	copy(p.Authenticator[:], r.Bytes(16))
	if r.Intn(15) == 0 {
		// close to the 4096 limit
		for i := 0; i < 16; i++ {
			p.Attributes = append(p.Attributes, &radius.AVP{Type: 1, Attribute: r.Bytes(253)})
		}
		p.Attributes = append(p.Attributes, &radius.AVP{Type: 1, Attribute: r.Bytes(r.Intn(8))})
	}
	return p
}

func genIPSrc(r *Rng) []byte {
	switch r.Intn(6) {
	case 0:
		return r.Bytes(4)
	case 1:
		return r.Bytes(16)
	case 2:
		return net.IP(r.Bytes(4)).To16()
	case 3:
		b := net.IP(r.Bytes(4)).To16()
		b[r.Intn(12)] ^= byte(1 + r.Intn(255))
		return b
	case 4:
		return nil
	}
	return r.Bytes(r.Intn(20))
}

func genMaskSrc(r *Rng) []byte {
	switch r.Intn(6) {
	case 0:
		return net.CIDRMask(r.Intn(33), 32)
	case 1, 2, 3:
		return net.CIDRMask(r.Intn(129), 128)
	case 4:
		m := net.CIDRMask(r.Intn(129), 128)
		m[r.Intn(16)] ^= byte(1 << uint(r.Intn(8)))
		return m
	}
	return r.Bytes(r.Intn(20))
}

func genSecretSrc(r *Rng) []byte {
	switch r.Intn(8) {
	case 0:
		return nil
	case 1:
		return []byte{}
	case 2:
		return r.Bytes(65 + r.Intn(70))
	}
	return r.Bytes(1 + r.Intn(12))
}

func genAuthSrc(r *Rng) []byte {
	if r.Intn(8) == 0 {
		return r.Bytes(r.Intn(20))
	}
	return r.Bytes(16)
}

func signRequest(b, s []byte) {
	var z [16]byte
	copy(b[4:20], md5sum(b[:4], z[:], b[20:], s))
}

func signResponse(resp, req, s []byte) {
	copy(resp[4:20], md5sum(resp[:4], req[4:20], resp[20:], s))
}

// runSrc runs the translated functions attached to this property.
func runSrc(c *Ctx) {
	r := NewRng(uint64(c.Seed)*7919 + 13)
	n := 0
	for _, f := range srcFns {
		use := false
		for _, p := range f.props {
			if p == c.Prop {
				use = true
			}
		}
		if !use {
			continue
		}
		reps := c.N(400, 6000)
		var prev V // the previous call's result, still held by its caller
		prevToks, prevReq := "", ""
		for i := 0; i < reps; i++ {
			args, thunk := f.gen(r)
			req := Req{Name: "src." + f.key, Zs: []string{Z(int64(len(args)))}}
			for _, a := range args {
				a.arg(&req)
			}
			t := &Toks{}
			curViews = curViews[:0]
			v, panicked := safeV(thunk)
			if panicked {
				t.I(2)
			} else {
				t.I(0)
				v.toks(t)
				// a result belongs to its caller: a later call (with other arguments) must not change it
				if prevToks != "" {
					tp := &Toks{}
					tp.I(0)
					prev.toks(tp)
					if tp.String() != prevToks {
						c.Fail("spec", "src."+f.key, "src-stable:"+f.key, prevReq+"  then  "+req.Line(""), tp.String(), prevToks, "the result of an earlier call is not changed by a later call (no scratch buffer shared between results)")
					}
				}
				prev, prevToks, prevReq = v, t.String(), req.Line("")
				if ok, what := viewsIntact(); !ok {
					c.Fail("spec", "src."+f.key, "src-args:"+f.key, req.Line(""), what, "arguments and the memory behind them unchanged", "a function of attribute.go/attributes.go/packet.go does not write into (or append to) its byte-slice arguments")
				}
				// the caller overwrites the result; the same call again must give the same answer (no buffer shared
				// between two results, no state kept across calls)
				if i%4 == 0 {
					prevToks = ""
					v.scribble()
					if fresh := f.props[0] == "C10" || f.props[0] == "C04" || f.props[0] == "C11"; fresh {
						// the codecs of attribute.go return fresh memory: overwriting a result must not reach an argument
						if ok, what := viewsIntact(); !ok {
							c.Fail("spec", "src."+f.key, "src-alias:"+f.key, req.Line(""), "after the caller overwrote the result: "+what, "arguments unchanged", "a value decoded or encoded by attribute.go does not share memory with the argument it was made from")
						}
					}
					curViews = curViews[:0]
					v2, p2 := safeV(thunk)
					t2 := &Toks{}
					if !p2 {
						t2.I(0)
						v2.toks(t2)
					}
					if p2 || t2.String() != t.String() {
						c.Fail("spec", "src."+f.key, "src-repeat:"+f.key, req.Line(""), t2.String(), t.String(), "the same call after the caller overwrote the first result gives the same result: results do not share memory with each other or with hidden state")
					}
				}
			}
			c.Add(Case{Req: req, Impl: t.String(), Tag: "src:" + f.key, NoSpec: true,
				Desc: "the compiled function and the interpretation of its translation (Gen/Src.v) on the same arguments"})
			n++
		}
	}
	if n > 0 {
		c.Flush()
		c.Note("translated-source correspondence: %d calls of m.src.* compared with the compiled functions", n)
	}
	_ = fmt.Sprint
}

func md5sum(parts ...[]byte) []byte {
	h := md5.New()
	for _, p := range parts {
		h.Write(p)
	}
	return h.Sum(nil)
}
