package main

import (
	"bytes"
	"fmt"
	"net"
	"os"
	"strings"
	"time"

	"layeh.com/radius"
	"layeh.com/radius/dictionary"
)

type hdesc struct {
	typ, kind, nbytes int
	tag               bool
	enc               int
	sizeValid         bool
	size              int
	vendor            bool
	vendorID          int
	name              string
	values            []*dictionary.Value
}

var dictCache = map[string]*dictionary.Dictionary{}

func loadDict(path string) *dictionary.Dictionary {
	if d, ok := dictCache[path]; ok {
		return d
	}
	idx := strings.LastIndex(path, "/")
	p := &dictionary.Parser{Opener: &dictionary.FileSystemOpener{Root: path[:idx]}, IgnoreIdenticalAttributes: true}
	d, err := p.ParseFile(path[idx+1:])
	if err != nil {
		d = nil
	}
	dictCache[path] = d
	return d
}

func normName(s string) string {
	var sb strings.Builder
	for _, r := range strings.ToLower(s) {
		if (r >= 'a' && r <= 'z') || (r >= '0' && r <= '9') {
			sb.WriteRune(r)
		}
	}
	return sb.String()
}

// the dictionary line of a helper: same number and, when several lines share the number, same name
func attrFor(attrs []*dictionary.Attribute, typ int, ident string) *dictionary.Attribute {
	var first *dictionary.Attribute
	for _, a := range attrs {
		if len(a.OID) == 1 && a.OID[0] == typ {
			if first == nil {
				first = a
			}
			if normName(a.Name) == normName(ident) {
				return a
			}
		}
	}
	return first
}

// descriptor of a helper from its dictionary line (not from the generated code)
func describe(h *Helper) (*hdesc, string) {
	d := loadDict(h.Dict)
	if d == nil {
		return nil, "dictionary does not parse"
	}
	var a *dictionary.Attribute
	var vals []*dictionary.Value
	if h.IsVendor {
		for _, v := range d.Vendors {
			if v.Number == h.VendorID {
				a = attrFor(v.Attributes, h.VendorType, h.Ident)
				vals = append(append([]*dictionary.Value(nil), v.Values...), d.Values...)
			}
		}
	} else {
		a = attrFor(d.Attributes, h.Type, h.Ident)
		vals = d.Values
	}
	if a == nil {
		return nil, "no dictionary line for this helper"
	}
	hd := &hdesc{typ: h.Type, tag: a.HasTag(), name: a.Name}
	if h.IsVendor {
		hd.typ, hd.vendor, hd.vendorID = h.VendorType, true, h.VendorID
	}
	if a.FlagEncrypt.Valid {
		hd.enc = a.FlagEncrypt.Int
	}
	if a.Size.Valid {
		hd.sizeValid, hd.size = true, a.Size.Int
	}
	want := ""
	switch a.Type {
	case dictionary.AttributeString, dictionary.AttributeOctets:
		hd.kind, want = 0, "bytes"
		if a.FlagConcat.Valid && a.FlagConcat.Bool {
			hd.kind, want = 1, "concat"
		}
	case dictionary.AttributeIPAddr:
		hd.kind, want = 2, "ip4"
	case dictionary.AttributeIPv6Addr:
		hd.kind, want = 3, "ip6"
	case dictionary.AttributeIFID:
		hd.kind, want = 4, "ifid"
	case dictionary.AttributeIPv6Prefix:
		hd.kind, want = 5, "prefix"
	case dictionary.AttributeDate:
		hd.kind, want = 6, "date"
	case dictionary.AttributeInteger:
		hd.kind, hd.nbytes, want = 7, 4, "int"
	case dictionary.AttributeShort:
		hd.kind, hd.nbytes, want = 7, 2, "int"
	case dictionary.AttributeInteger64:
		hd.kind, hd.nbytes, want = 7, 8, "int"
	case dictionary.AttributeByte:
		hd.kind, want = 8, "byte"
	default:
		return nil, "type without helpers"
	}
	for _, v := range vals {
		if v.Attribute == a.Name {
			hd.values = append(hd.values, v)
		}
	}
	if want != h.Kind || hd.tag != h.Tagged || (hd.enc == 2) != h.NeedQ || (hd.kind == 7 && hd.nbytes*8 != h.IntBits) {
		return hd, fmt.Sprintf("generated helper has kind=%s tagged=%v q=%v bits=%d but the dictionary line says kind=%s tagged=%v encrypt=%d", h.Kind, h.Tagged, h.NeedQ, h.IntBits, want, hd.tag, hd.enc)
	}
	return hd, ""
}

func (d *hdesc) zs() []string {
	return []string{Z(int64(d.typ)), Z(int64(d.kind)), Z(int64(d.nbytes)), Z(b2i(d.tag)), Z(int64(d.enc)), Z(b2i(d.sizeValid)), Z(int64(d.size)), Z(b2i(d.vendor)), Z(int64(d.vendorID))}
}

func tGV(t *Toks, d *hdesc, v GV) {
	switch d.kind {
	case 7, 8:
		t.U(v.U)
	case 6:
		t.I(v.T.Unix())
	case 5:
		if v.Net == nil {
			t.B(nil).B(nil)
		} else {
			t.B(v.Net.IP).B(v.Net.Mask)
		}
	default:
		t.B(v.B)
	}
}

type hop struct {
	op   int // 0 add 1 set 2 del 3 lookup 4 gets
	tag  byte
	v    GV
	salt []byte
}

func genValue(r *Rng, d *hdesc) GV {
	switch d.kind {
	case 0, 1:
		n := r.Intn(20)
		switch r.Intn(10) {
		case 0:
			n = r.Pick(0, 1, 127, 128, 129, 238, 239, 240, 245, 246, 247, 248, 249, 250, 251, 252, 253, 254, 300)
		case 1:
			if d.sizeValid {
				n = d.size + r.Pick(-1, 0, 0, 0, 1)
				if n < 0 {
					n = 0
				}
			}
		}
		if d.kind == 1 && r.Intn(4) == 0 {
			n = r.Pick(0, 253, 254, 506, 600)
		}
		if d.sizeValid && r.Intn(3) != 0 {
			n = d.size
		}
		b := r.Bytes(n)
		if n > 0 && r.Intn(3) == 0 {
			b[0] = byte(r.Pick(0, 1, 0x1f, 0x20)) // first byte that looks like a tag
		}
		if d.enc == 1 { // User-Password returns the text up to the first NUL
			for i := range b {
				if b[i] == 0 {
					b[i] = 1
				}
			}
		}
		return GV{B: b}
	case 2:
		switch r.Intn(6) {
		case 0:
			return GV{B: append([]byte{0, 0, 0, 0, 0, 0, 0, 0, 0, 0, 0xff, 0xff}, r.Bytes(4)...)}
		case 1:
			return GV{B: r.Bytes(r.Pick(0, 3, 5, 16))}
		}
		return GV{B: r.Bytes(4)}
	case 3:
		switch r.Intn(6) {
		case 0:
			return GV{B: r.Bytes(4)}
		case 1:
			return GV{B: r.Bytes(r.Pick(0, 15, 17))}
		}
		return GV{B: r.Bytes(16)}
	case 4:
		if r.Intn(5) == 0 {
			return GV{B: r.Bytes(r.Pick(0, 6, 7, 9))}
		}
		return GV{B: r.Bytes(8)}
	case 5:
		ones := r.Intn(129)
		ip := r.Bytes(16)
		mask := []byte(net.CIDRMask(ones, 128))
		if r.Intn(6) == 0 {
			mask = []byte(net.CIDRMask(ones%33, 32))
		}
		if r.Intn(8) == 0 {
			ip = r.Bytes(4)
		}
		return GV{Net: &net.IPNet{IP: ip, Mask: mask}, B: ip}
	case 6:
		s := int64(r.U64() % (1 << 32))
		switch r.Intn(8) {
		case 0:
			s = -1 - int64(r.Intn(1000))
		case 1:
			s = 1<<32 + int64(r.Intn(1000))
		}
		return GV{T: time.Unix(s, 0), U: uint64(s)}
	case 7:
		var u uint64
		switch r.Intn(6) {
		case 0:
			u = 0
		case 1:
			u = 1<<uint(d.nbytes*8) - 1
		case 2:
			u = uint64(r.Pick(0xFFFFFF, 0x1000000, 0x12345678))
		default:
			u = r.U64()
		}
		if d.nbytes < 8 {
			u &= 1<<uint(d.nbytes*8) - 1
		}
		if len(d.values) > 0 && r.Intn(3) == 0 {
			u = d.values[r.Intn(len(d.values))].Number
		}
		if d.tag && r.Intn(4) > 0 {
			u &= 0xFFFFFF // what a tagged integer can carry
		}
		return GV{U: u}
	default:
		return GV{U: uint64(r.Intn(256))}
	}
}

func gvArgs(d *hdesc, v GV) (b, mask []byte, u string) {
	switch d.kind {
	case 5:
		if v.Net != nil {
			return v.Net.IP, v.Net.Mask, "0"
		}
		return nil, nil, "0"
	case 6:
		return nil, nil, Z(v.T.Unix())
	case 7, 8:
		return nil, nil, ZU(v.U)
	}
	return v.B, nil, "0"
}

// random prior packet contents; for vendor helpers includes own and foreign Vendor-Specific attributes
func genPrior(r *Rng, d *hdesc, adversarial bool) []aop {
	var out []aop
	n := r.Intn(5)
	for i := 0; i < n; i++ {
		switch {
		case adversarial && r.Intn(12) == 0:
			out = append(out, aop{0, 26, r.Bytes(r.Intn(5))}) // too short to carry a vendor id and a payload
		case d.vendor && r.Intn(2) == 0:
			vid := d.vendorID
			switch r.Intn(8) {
			case 0, 1:
				vid = r.Pick(9, 311, 14122, 14988, 14823)
			case 2:
				// a different vendor whose number agrees with this one in its low bits
				vid = d.vendorID | (1+r.Intn(255))<<24
			case 3:
				vid = d.vendorID ^ 1<<uint(r.Intn(24))
			}
			payload := []byte{}
			ns := r.Intn(4)
			for j := 0; j < ns; j++ {
				ty := byte(r.Pick(d.typ, d.typ, 1, 2, 200))
				val := r.Bytes(1 + r.Intn(6))
				sub := append([]byte{ty, byte(len(val) + 2)}, val...)
				if adversarial {
					switch r.Intn(8) {
					case 0:
						sub[1] = 0
					case 1:
						sub[1] = 2
					case 2:
						sub[1] = byte(len(sub) + 3) // overruns the payload
					case 3:
						sub = append(sub, 0x7) // trailing byte
					}
				}
				payload = append(payload, sub...)
			}
			if len(payload) == 0 && !adversarial {
				payload = []byte{1, 3, 9}
			}
			v := append([]byte{byte(vid >> 24), byte(vid >> 16), byte(vid >> 8), byte(vid)}, payload...)
			out = append(out, aop{0, 26, v})
		case !d.vendor && r.Intn(3) == 0:
			// same type with a raw value that may or may not decode
			var v []byte
			if adversarial {
				v = r.Bytes(r.Pick(0, 1, 2, 3, 4, 5, 8, 16, 17, 18, 19, 34))
			} else {
				continue
			}
			out = append(out, aop{0, d.typ, v})
		default:
			out = append(out, aop{0, r.Pick(1, 4, 6, 18, 25, 33, 79, 80), r.Bytes(r.Intn(8))})
		}
	}
	return out
}

func packetFrom(prior []aop, sec []byte, auth [16]byte, code int) *radius.Packet {
	p := &radius.Packet{Code: radius.Code(code), Identifier: 9, Secret: sec, Authenticator: auth}
	for _, a := range prior {
		p.Attributes = append(p.Attributes, &radius.AVP{Type: radius.Type(a.k), Attribute: append([]byte(nil), a.v...)})
	}
	return p
}

// one op sequence on one helper, compared with the model
func runHelperSeqAdv(c *Ctx, r *Rng, h *Helper, d *hdesc, inflight *string) {
	runHelperSeqI(c, r, h, d, true, "", inflight)
}

func runHelperSeq(c *Ctx, r *Rng, h *Helper, d *hdesc, adversarial bool, tagp string) {
	var s string
	runHelperSeqI(c, r, h, d, adversarial, tagp, &s)
}

// inflight receives, before every call, the packet and the call about to be made (for the watchdog)
func runHelperSeqI(c *Ctx, r *Rng, h *Helper, d *hdesc, adversarial bool, tagp string, inflight *string) {
	sec := r.Bytes(1 + r.Intn(8))
	if r.Intn(25) == 0 {
		sec = nil
	}
	var auth, qauth [16]byte
	copy(auth[:], r.Bytes(16))
	copy(qauth[:], auth[:]) // a reply carries the request authenticator until it is encoded
	prior := genPrior(r, d, adversarial)
	var extraTags []string
	if adversarial {
		extraTags = classifyPrior(d, prior)
		tagp = "adv"
	}
	p := packetFrom(prior, sec, auth, 2)
	q := &radius.Packet{Code: 1, Identifier: 9, Secret: sec, Authenticator: qauth}
	req := Req{Name: "helper"}
	req.Zs = append(d.zs(), Z(2), Z(9), Z(int64(len(prior))))
	req.Bs = [][]byte{auth[:], sec, qauth[:]}
	for _, a := range prior {
		req.Zs = append(req.Zs, Z(int64(a.k)))
		req.Bs = append(req.Bs, a.v)
	}
	t := &Toks{}
	nops := 1 + r.Intn(6)
	tag := tagp
	for i := 0; i < nops; i++ {
		o := hop{op: r.Intn(5)}
		if h.Add == nil && o.op == 0 {
			o.op = 1
		}
		if h.Gets == nil && o.op == 4 {
			o.op = 3 // concat attributes have no Gets
		}
		o.tag = byte(r.Pick(0, 1, 5, 0x1f, 0x20, 0xff, r.Intn(256)))
		if !d.tag {
			o.tag = 0
		}
		o.v = genValue(r, d)
		rd := &recReader{src: r.Fork()}
		var err error
		pan := false
		*inflight = fmt.Sprintf("packet attributes %s; call %s op=%d (0 Add,1 Set,2 Del,3 Lookup,4 Gets) tag=%d value=%x/%d", snapshot(p), h.Pkg+"."+h.Ident, o.op, o.tag, o.v.B, o.v.U)
		switch o.op {
		case 0:
			withRand(rd, func() { pan = safely(func() { err = h.Add(p, o.tag, o.v) }) })
		case 1:
			withRand(rd, func() { pan = safely(func() { err = h.Set(p, o.tag, o.v) }) })
		case 2:
			pan = safely(func() { h.Del(p) })
		}
		o.salt = rd.data
		b, mask, u := gvArgs(d, o.v)
		req.Zs = append(req.Zs, Z(int64(o.op)), Z(int64(o.tag)), u)
		req.Bs = append(req.Bs, b, mask, o.salt)
		if pan {
			t.I(2)
			c.Fail("spec", h.Pkg+"."+h.Ident, tagp, req.Line(""), "panic", "value or error", "helpers never panic")
			break
		}
		switch o.op {
		case 0, 1:
			if err != nil {
				t.I(1)
			} else {
				t.I(0)
				// what a helper stores must fit an attribute (the packet still has to encode)
				for _, av := range p.Attributes {
					if len(av.Attribute) > 253 {
						c.Fail("spec", h.Pkg+"."+h.Ident, "unencodable", req.Line(""), fmt.Sprintf("a successful Add/Set left an attribute of type %d with a %d-byte value", av.Type, len(av.Attribute)), "<= 253 bytes", "Add appends one well-formed attribute; setters refuse values the attribute cannot carry")
						break
					}
				}
			}
			tAttrs(t, p.Attributes)
		case 2:
			t.I(0)
			tAttrs(t, p.Attributes)
		case 3:
			var tg byte
			var v GV
			var lerr error
			if safely(func() { tg, v, lerr = h.Lookup(p, q) }) {
				t.I(2)
				c.Fail("spec", h.Pkg+"."+h.Ident+"_Lookup", tagp, req.Line(""), "panic", "value or error", "helpers never panic")
			} else if lerr != nil {
				if lerr == radius.ErrNoAttribute {
					t.I(1).I(40)
				} else {
					t.I(1).I(8)
				}
			} else {
				t.I(0).I(int64(tg))
				tGV(t, d, v)
			}
		case 4:
			var tags []byte
			var vs []GV
			var gerr error
			if safely(func() { tags, vs, gerr = h.Gets(p, q) }) {
				t.I(2)
			} else if gerr != nil {
				t.I(1)
			} else {
				t.I(0).I(int64(len(vs)))
				for k, v := range vs {
					if d.tag && k < len(tags) {
						t.I(int64(tags[k]))
					} else {
						t.I(0)
					}
					tGV(t, d, v)
				}
			}
		}
	}
	c.Add(Case{Req: req, Impl: t.String(), Tag: tag})
	for _, et := range extraTags {
		c.TagOnly(et)
	}
}

func kindTag(d *hdesc) string {
	k := []string{"bytes", "concat", "ip4", "ip6", "ifid", "prefix", "date", "int", "byte"}[d.kind]
	if d.tag {
		k += "+tag"
	}
	if d.enc != 0 {
		k += fmt.Sprintf("+enc%d", d.enc)
	}
	if d.sizeValid {
		k += "+size"
	}
	if d.vendor {
		k += "+vendor"
	}
	return k
}

func gvEqual(d *hdesc, a, b GV) bool {
	switch d.kind {
	case 7, 8:
		return a.U == b.U
	case 6:
		return a.T.Unix() == b.T.Unix()
	case 5:
		if a.Net == nil || b.Net == nil {
			return a.Net == b.Net
		}
		o, _ := a.Net.Mask.Size()
		return b.Net.IP.Equal(a.Net.IP.Mask(net.CIDRMask(o, 128))) && bytes.Equal(b.Net.Mask, net.CIDRMask(o, 128))
	case 2, 3:
		return net.IP(a.B).Equal(net.IP(b.B))
	}
	return bytes.Equal(a.B, b.B)
}

// the laws of the statement, checked directly on the implementation
func checkLaws(c *Ctx, r *Rng, h *Helper, d *hdesc) {
	name := h.Pkg + "." + h.Ident
	sec := r.Bytes(1 + r.Intn(8))
	var auth [16]byte
	copy(auth[:], r.Bytes(16))
	prior := genPrior(r, d, false)
	code := 2 // a reply: its salt-encrypted attributes are keyed by the request authenticator
	if d.enc == 1 {
		code = 1 // User-Password lives in Access-Requests, whose authenticator survives Encode
	}
	p := packetFrom(prior, sec, auth, code)
	q := &radius.Packet{Code: 1, Identifier: 9, Secret: sec, Authenticator: auth}
	v := genValue(r, d)
	tag := byte(r.Pick(0, 1, 0x1f, 0x20, 0xff))
	if !d.tag {
		tag = 0
	}
	if d.tag && tag > 0x1f { // F9: tags above 0x1F are stored untagged
		if _, open := c.KnownOpen("F9"); open {
			c.Count("known-F9", name)
			return
		}
	}
	if d.kind == 1 && len(v.B) == 0 { // F20: Set of an empty value on a concat attribute stores nothing
		if _, open := c.KnownOpen("F20"); open {
			c.Count("known-F20", name)
			return
		}
	}
	before := snapshot(p)
	other := otherRaw(p, d)
	if err := h.Set(p, tag, v); err != nil {
		// setters refuse and leave the packet unchanged
		if snapshot(p) != before {
			c.Fail("spec", name+"_Set", "law-refuse", fmt.Sprintf("tag=%d %v", tag, v), snapshot(p), before, "a refused Set must leave the packet unchanged")
		}
		c.Count("law-refused", name+fmt.Sprint(v.B, v.U))
		return
	}
	c.Count("law-set", name)
	wantTag := tag
	if d.kind == 7 && d.tag && tag == 0 {
		wantTag = 0
	}
	tg, got, err := h.Lookup(p, q)
	if err != nil || !gvEqual(d, v, got) || (d.tag && tg != wantTag) {
		c.Fail("spec", name+"_Set;Lookup", "law-set-get", fmt.Sprintf("tag=%d v=%x/%d", tag, v.B, v.U), fmt.Sprintf("tag=%d v=%x/%d err=%v", tg, got.B, got.U, err), "the value just set", "after a successful Set, Lookup returns the value with its tag")
	}
	// the packet owns what it stores: the caller may reuse the buffer it passed to Set
	if len(v.B) > 0 && d.enc == 0 && (d.kind < 5 || d.kind > 8) {
		keep := append([]byte{}, v.B...)
		for i := range v.B {
			v.B[i] ^= 0xFF
		}
		_, got2, err2 := h.Lookup(p, q)
		copy(v.B, keep)
		if err2 != nil || !gvEqual(d, GV{B: keep}, got2) {
			c.Fail("spec", name+"_Set;Lookup", "law-owns-value", fmt.Sprintf("Set(%x), then the caller overwrites its buffer", keep), fmt.Sprintf("%x err=%v", got2.B, err2), hx(keep), "after a successful Set, Lookup returns the value that was set - also after the caller reused the slice it passed in")
		}
		c.TagOnly("law-owns-value")
	}
	if h.Gets != nil {
		tags, vs, err := h.Gets(p, q)
		if err != nil || len(vs) != 1 || !gvEqual(d, v, vs[0]) || (d.tag && (len(tags) != 1 || tags[0] != wantTag)) {
			c.Fail("spec", name+"_Set;Gets", "law-set-gets", fmt.Sprintf("tag=%d v=%x/%d prior=%v", tag, v.B, v.U, prior), fmt.Sprintf("%d values err=%v", len(vs), err), "exactly [v]", "after Set, Gets returns exactly [v] whatever the packet held before")
		}
	}
	// an operation on one attribute never alters another
	if o2 := otherRaw(p, d); o2 != other {
		c.Fail("spec", name+"_Set", "law-noninterference", fmt.Sprintf("prior=%v", prior), o2, other, "Set altered attributes of another type / vendor / sub-type")
	}
	// encrypted attributes are stored obfuscated
	if d.enc != 0 && d.kind == 0 && len(v.B) > 0 {
		for _, raw := range rawValues(p, d) {
			if bytes.Contains(raw, v.B) && len(v.B) >= 4 {
				c.Fail("spec", name+"_Set", "law-obfuscated", hx(v.B), hx(raw), "ciphertext", "encrypted attributes are stored obfuscated, never in clear")
			}
		}
	}
	if d.enc == 2 && d.kind == 7 {
		for _, raw := range rawValues(p, d) {
			if len(raw) == d.nbytes {
				c.Fail("spec", name+"_Set", "law-obfuscated", fmt.Sprint(v.U), hx(raw), "salt-encrypted value", "encrypted attributes are stored obfuscated, never in clear")
			}
		}
	}
	// the String variants read what the byte variants read
	stringLaws := func(pp *radius.Packet, where string) {
		if h.GetString == nil || d.kind > 1 {
			return
		}
		_, bv := h.Get(pp, q)
		if _, sv := h.GetString(pp, q); sv != string(bv.B) {
			c.Fail("spec", name+"_GetString", "law-strings", where, fmt.Sprintf("%q", sv), fmt.Sprintf("%q", bv.B), "GetString returns the text of what Get returns")
		}
		if h.LookupString != nil {
			_, lv, lerr := h.Lookup(pp, q)
			_, sv, serr := h.LookupString(pp, q)
			if (lerr == nil) != (serr == nil) || sv != string(lv.B) {
				c.Fail("spec", name+"_LookupString", "law-strings", where, fmt.Sprintf("%q %v", sv, serr), fmt.Sprintf("%q %v", lv.B, lerr), "LookupString returns the text of what Lookup returns")
			}
		}
		if h.GetStrings != nil && h.Gets != nil {
			_, gv, gerr := h.Gets(pp, q)
			_, sv, serr := h.GetStrings(pp, q)
			same := (gerr == nil) == (serr == nil) && len(gv) == len(sv)
			for i := 0; same && i < len(gv); i++ {
				same = sv[i] == string(gv[i].B)
			}
			if !same {
				c.Fail("spec", name+"_GetStrings", "law-strings", where, fmt.Sprintf("%q %v", sv, serr), fmt.Sprintf("%d values %v", len(gv), gerr), "GetStrings returns the texts of what Gets returns")
			}
		}
		c.TagOnly("law-strings")
	}
	stringLaws(p, "built packet")
	// survives Encode -> Parse: the parsed packet carries the authenticator Encode computed; a reply is read
	// together with the request it answers
	if wire, err := p.Encode(); err == nil {
		if p2, err := radius.Parse(wire, sec); err == nil {
			tg2, got2, err := h.Lookup(p2, q)
			if err != nil || !gvEqual(d, v, got2) || (d.tag && tg2 != wantTag) {
				c.Fail("spec", name+" Encode;Parse", "law-wire", fmt.Sprintf("%x/%d", v.B, v.U), fmt.Sprintf("%x/%d %v", got2.B, got2.U, err), "same value", "values survive Encode->Parse")
			}
			stringLaws(p2, "after Encode->Parse")
		}
	}
	// Add appends
	if h.Add != nil && h.Gets != nil {
		v2 := genValue(r, d)
		if err := h.Add(p, tag, v2); err == nil {
			_, vs, err := h.Gets(p, q)
			if err != nil || len(vs) != 2 || !gvEqual(d, v, vs[0]) || !gvEqual(d, v2, vs[1]) {
				c.Fail("spec", name+"_Add;Gets", "law-add", fmt.Sprintf("%x/%d then %x/%d", v.B, v.U, v2.B, v2.U), fmt.Sprintf("%d values err=%v", len(vs), err), "[v, v2]", "Add appends so that Gets returns all added values in order")
			}
		}
	}
	// Del removes every occurrence
	h.Del(p)
	if _, _, err := h.Lookup(p, q); err != radius.ErrNoAttribute {
		c.Fail("spec", name+"_Del;Lookup", "law-del", fmt.Sprintf("prior=%v", prior), fmt.Sprint(err), "ErrNoAttribute", "Del removes every occurrence")
	}
	if o2 := otherRaw(p, d); o2 != other {
		c.Fail("spec", name+"_Del", "law-noninterference", fmt.Sprintf("prior=%v", prior), o2, other, "Del altered attributes of another type / vendor / sub-type")
	}
}

func snapshot(p *radius.Packet) string {
	t := &Toks{}
	tAttrs(t, p.Attributes)
	return t.String()
}

// raw stored values of this helper's attribute
func rawValues(p *radius.Packet, d *hdesc) [][]byte {
	var out [][]byte
	for _, a := range p.Attributes {
		if !d.vendor {
			if int(a.Type) == d.typ {
				out = append(out, a.Attribute)
			}
			continue
		}
		if a.Type != 26 || len(a.Attribute) < 5 {
			continue
		}
		vid := int(a.Attribute[0])<<24 | int(a.Attribute[1])<<16 | int(a.Attribute[2])<<8 | int(a.Attribute[3])
		if vid != d.vendorID {
			continue
		}
		pl := a.Attribute[4:]
		for len(pl) >= 3 {
			l := int(pl[1])
			if l > len(pl) || l < 3 {
				break
			}
			if int(pl[0]) == d.typ {
				out = append(out, pl[2:l])
			}
			pl = pl[l:]
		}
	}
	return out
}

// everything in the packet that does not belong to this helper's attribute, in order
func otherRaw(p *radius.Packet, d *hdesc) string {
	var sb strings.Builder
	for _, a := range p.Attributes {
		if !d.vendor {
			if int(a.Type) != d.typ {
				fmt.Fprintf(&sb, "%d:%x;", a.Type, a.Attribute)
			}
			continue
		}
		if a.Type != 26 || len(a.Attribute) < 5 {
			fmt.Fprintf(&sb, "%d:%x;", a.Type, a.Attribute)
			continue
		}
		vid := int(a.Attribute[0])<<24 | int(a.Attribute[1])<<16 | int(a.Attribute[2])<<8 | int(a.Attribute[3])
		if vid != d.vendorID {
			fmt.Fprintf(&sb, "%d:%x;", a.Type, a.Attribute)
			continue
		}
		pl := a.Attribute[4:]
		for len(pl) >= 3 {
			l := int(pl[1])
			if l > len(pl) || l < 3 {
				break
			}
			if int(pl[0]) != d.typ {
				fmt.Fprintf(&sb, "v%d.%d:%x;", vid, pl[0], pl[2:l])
			}
			pl = pl[l:]
		}
		if len(pl) > 0 {
			fmt.Fprintf(&sb, "rest:%x;", pl)
		}
	}
	return sb.String()
}

func init() {
	props["C12"] = func(c *Ctx) {
		c.Res.Rule = "every attribute of the 32 shipped helper packages through the gendriver registry (closures generated from the working tree's generated.go files), descriptor taken from the dictionary line: (a) random sequences of <= 6 Add/Set/Del/Lookup/Gets calls on random prior packet contents with values over the full Go type (tags 0..255, size boundaries, wrong address families, out-of-range times, 24-bit boundary for tagged integers), crypto/rand scripted so that salts are known, compared step by step with the Coq helper semantics; (b) the same on helpers freshly generated by the real Generate from random accepted dictionaries (every kind x flag combination, top-level and vendor), compiled with their registry into a second-stage binary; (c) the laws of the statement checked directly (set/get, set/gets singleton, add appends, del removes all, survives Encode->Parse, non-interference, refusal leaves the packet unchanged, stored obfuscated, VALUE constants and String()). non-trivial = sequence with at least one successful Set or Add"
		r := c.Rng.Fork()
		stage2 := os.Getenv("VERIF_SYNTH_STAGE2") != ""
		if len(registry) < 300 && !stage2 {
			c.Fail("model", "registry", "registry", "", fmt.Sprintf("only %d attributes found in the generated packages", len(registry)), ">= 300", "")
		}
		c.Res.Extra = map[string]interface{}{"attributes": len(registry), "helper_functions": registryFuncs}
		reps := c.N(3, 60)
		classSize := map[string]int{}
		for _, h := range registry {
			if d, why := describe(h); d != nil && why == "" {
				classSize[kindTag(d)]++
			}
		}
		for _, h := range registry {
			d, why := describe(h)
			if d == nil {
				c.Fail("spec", h.Pkg+"."+h.Ident, "descriptor", h.Dict, why, "a dictionary line", "every shipped helper corresponds to a dictionary line")
				continue
			}
			if why != "" {
				c.Fail("spec", h.Pkg+"."+h.Ident, "descriptor", h.Dict, why, "helpers of the attribute's kind", "the helper set is the one of the attribute's kind")
				continue
			}
			kt := kindTag(d)
			nrep := reps
			if cs := classSize[kt]; cs > 0 && cs*reps < 40*reps/3 {
				nrep = (40*reps/3 + cs - 1) / cs // every descriptor class gets a comparable number of sequences
			}
			for k := 0; k < nrep; k++ {
				runHelperSeq(c, r, h, d, false, kt)
				checkLaws(c, r, h, d)
			}
			// named value constants and their String() forms equal the dictionary's VALUE declarations
			if d.kind == 7 && h.String != nil {
				byNum := map[uint64]string{}
				for _, v := range d.values {
					byNum[v.Number] = v.Name // later declarations override
				}
				for num, nm := range byNum {
					if got := h.String(num); got != nm {
						c.Fail("spec", h.Pkg+"."+h.Ident+".String", "value-constants", fmt.Sprint(num), got, nm, "String() forms equal the dictionary's VALUE declarations")
					}
				}
				for cn, cv := range h.Values {
					if _, ok := byNum[cv]; !ok {
						c.Fail("spec", h.Pkg+"."+cn, "value-constants", cn, fmt.Sprint(cv), "a declared VALUE", "named value constants equal the dictionary's VALUE declarations")
					}
				}
				if len(h.Values) != len(byNum) {
					// several names may share a number; constants are per surviving name
				}
				c.Count("value-constants", h.Pkg+"."+h.Ident)
			}
		}
		// VALUEs that a dictionary declares for an attribute of another package (-ref): the String() form registered by
		// that package's init must be the dictionary's VALUE name
		if !stage2 {
			for _, sp := range findSpecs(c.Repo) {
				if len(sp.Refs) == 0 {
					continue
				}
				dd, err := sp.parse()
				if err != nil {
					continue
				}
				byNum := map[string]string{}
				for _, v := range dd.Values {
					if _, ext := sp.Refs[v.Attribute]; ext {
						byNum[fmt.Sprintf("%s/%d", v.Attribute, v.Number)] = v.Name // later declarations override
					}
				}
				for _, v := range dd.Values {
					if _, ext := sp.Refs[v.Attribute]; !ext || byNum[fmt.Sprintf("%s/%d", v.Attribute, v.Number)] != v.Name {
						continue
					}
					for _, h := range registry {
						if h.String != nil && normName(h.Ident) == normName(v.Attribute) && !h.IsVendor {
							if got := h.String(v.Number); got != v.Name {
								c.Fail("spec", h.Pkg+"."+h.Ident+".String", "value-constants-external", fmt.Sprintf("%s: VALUE %s %s %d", sp.Dict, v.Attribute, v.Name, v.Number), got, v.Name, "String() forms equal the dictionary's VALUE declarations, also for VALUEs declared by another package")
							}
							c.Count("value-constants-external", sp.Dict+v.Name)
						}
					}
				}
			}
		}
		if line, open := c.KnownOpen("F9"); open {
			// re-confirm the listed finding on its listed call site; it is printed only while it still fails
			p := &radius.Packet{Secret: []byte("s")}
			for _, h := range registry {
				if h.Pkg == "rfc2868" && h.Ident == "TunnelPrivateGroupID" {
					h.Set(p, 0x20, GV{B: []byte("abc")})
					tg, _, _ := h.Lookup(p, p)
					if tg != 0x20 {
						c.Res.Known = append(c.Res.Known, line)
					}
				}
			}
		}
		if line, open := c.KnownOpen("F20"); open {
			p := &radius.Packet{Secret: []byte("s")}
			for _, h := range registry {
				if h.Pkg == "rfc2869" && h.Ident == "EAPMessage" {
					err := h.Set(p, 0, GV{B: []byte{}})
					_, _, lerr := h.Lookup(p, p)
					if err == nil && lerr == radius.ErrNoAttribute {
						c.Res.Known = append(c.Res.Known, line)
					}
				}
			}
		}
		c.Flush()
		if stage2 {
			return
		}
		// helpers freshly generated from synthetic dictionaries, compiled into a second-stage binary
		runSynthetic(c, r, c.N(3, 16), "C12")
		c.RequireTags("synthetic-stage", "synth:law-set")
		c.RequireTags("bytes", "bytes+tag", "bytes+enc1", "bytes+tag+enc2", "int", "int+tag", "ip4", "ip6", "ifid", "prefix", "date", "concat", "bytes+size", "bytes+vendor", "int+vendor", "law-set", "law-refused", "value-constants", "value-constants-external", "law-strings")
	}
}
