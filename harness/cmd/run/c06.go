package main

import (
	"bytes"
	"context"
	"errors"
	"fmt"
	"io"
	"log"
	"net"
	"strings"
	"sync"
	"time"

	"layeh.com/radius"
)

type scriptedSecrets struct {
	secs    map[string][]byte
	errs    map[string]bool
	mu      sync.Mutex
	n       int
	ctxs    []context.Context
	hold    map[string]chan struct{} // a lookup for this address waits here
	entered chan string              // announces every lookup (when non-nil)
}

func (s *scriptedSecrets) RADIUSSecret(ctx context.Context, a net.Addr) ([]byte, error) {
	s.mu.Lock()
	s.n++
	s.ctxs = append(s.ctxs, ctx)
	h := s.hold[a.String()]
	s.mu.Unlock()
	if s.entered != nil {
		s.entered <- a.String()
	}
	if h != nil {
		<-h
	}
	s.mu.Lock()
	isErr, sec := s.errs[a.String()], s.secs[a.String()]
	s.mu.Unlock()
	if isErr {
		// an error together with a (stale) secret: the error decides
		return sec, errors.New("no secret")
	}
	return sec, nil
}

// peers 0 and 1 share a host and differ in the port; peer 2 is another host
func peerAddr(p int) string {
	switch p {
	case 0:
		return "10.0.0.1:1000"
	case 1:
		return "10.0.0.1:2000"
	}
	return fmt.Sprintf("10.0.0.%d:1000", p)
}

type c06Event struct {
	kind int // 0 arrive, 1 finish (return + clean)
	peer int
	d    []byte
	g    int
}

// one history against the real server
func runDispatch(c *Ctx, r *Rng, idx int) {
	schedMu.Lock()
	defer schedMu.Unlock()
	npeers := 3
	skip := r.Intn(5) == 0
	ss := &scriptedSecrets{secs: map[string][]byte{}, errs: map[string]bool{}}
	secs := make([][]byte, npeers)
	errs := make([]int, npeers)
	for p := 0; p < npeers; p++ {
		secs[p] = r.Bytes(1 + r.Intn(6))
		switch r.Intn(8) {
		case 0:
			secs[p] = nil
		case 1:
			errs[p] = 1
		}
		ss.secs[peerAddr(p)] = secs[p]
		ss.errs[peerAddr(p)] = errs[p] == 1
	}
	type started struct {
		req     *radius.Request
		release chan struct{}
		wrote   []byte
	}
	handlerStarted := make(chan *started, 8)
	dgramDone := make(chan struct{}, 64)
	radius.VerifHook = func(point string) {
		if point == "datagram.done" {
			dgramDone <- struct{}{}
		}
	}
	defer func() { radius.VerifHook = nil }()
	cn := newFakeConn(0)
	replyCode := radius.Code(r.Pick(2, 3, 5, 11, 41, 44))
	srv := &radius.PacketServer{
		SecretSource:       ss,
		InsecureSkipVerify: skip,
		ErrorLog:           log.New(io.Discard, "", 0),
		Handler: radius.HandlerFunc(func(w radius.ResponseWriter, rq *radius.Request) {
			st := &started{req: rq, release: make(chan struct{})}
			resp := rq.Response(replyCode)
			resp.Add(18, []byte("ok"))
			w.Write(resp)
			handlerStarted <- st
			<-st.release
		}),
	}
	serveDone := make(chan error, 1)
	go func() { serveDone <- srv.Serve(cn) }()

	// build the history
	var evs []c06Event
	var running []int // goroutine indices with a running handler (model order)
	ng := 0
	nev := 3 + r.Intn(10)
	// model shadow to know which arrivals dispatch: we simply ask the implementation and compare afterwards
	req := Req{Name: "dispatch"}
	req.Zs = append(req.Zs, Z(b2i(skip)), Z(int64(npeers)))
	for p := 0; p < npeers; p++ {
		req.Zs = append(req.Zs, Z(int64(errs[p])))
		req.Bs = append(req.Bs, secs[p])
	}
	t := &Toks{}
	live := map[int]*started{}
	var lastPkts [][]byte
	for e := 0; e < nev; e++ {
		if len(running) > 0 && r.Intn(3) == 0 {
			// finish a handler
			k := r.Intn(len(running))
			g := running[k]
			running = append(running[:k], running[k+1:]...)
			close(live[g].release)
			select {
			case <-dgramDone:
			case <-time.After(3 * time.Second):
				c.Fail("model", "dispatch", "stuck", "", "goroutine did not finish", "", "handler release")
				return
			}
			req.Zs = append(req.Zs, Z(1), Z(int64(g)), Z(2), Z(int64(g)))
			t.I(2).I(2)
			evs = append(evs, c06Event{kind: 1, g: g})
			continue
		}
		peer := r.Intn(npeers)
		var d []byte
		kind := r.Intn(10)
		sec := secs[peer]
		if len(sec) == 0 {
			sec = []byte("x")
		}
		mk := func(code int, id byte) []byte {
			p := &radius.Packet{Code: radius.Code(code), Identifier: id, Secret: sec}
			copy(p.Authenticator[:], r.Bytes(16))
			p.Add(1, r.Bytes(1+r.Intn(5)))
			b, _ := p.Encode()
			return b
		}
		id := byte(r.Intn(3)) // few identifiers so that duplicates happen
		switch {
		case kind < 5:
			d = mk(r.Pick(1, 4, 12, 40, 43), id)
		case kind == 5 && len(lastPkts) > 0:
			d = lastPkts[r.Intn(len(lastPkts))] // exact retransmission
		case kind == 6:
			d = mk(r.Pick(4, 40, 43), id)
			d[len(d)-1] ^= 1 // forged accounting / CoA request
		case kind == 7:
			d = mk(r.Pick(2, 3, 5, 11, 41), id) // reply codes sent to the server
		case kind == 8:
			d = r.Bytes(r.Intn(30))
		default:
			d = mk(1, id)
			d[3]++ // Length beyond the datagram
		}
		lastPkts = append(lastPkts, d)
		cn.in <- fakePkt{d, fakeAddr(peerAddr(peer))}
		req.Zs = append(req.Zs, Z(0), Z(int64(peer)))
		req.Bs = append(req.Bs, d)
		select {
		case st := <-handlerStarted:
			g := ng
			live[g] = st
			running = append(running, g)
			t.I(1).I(int64(peer))
			tPacket(t, st.req.Packet)
			// request fields
			if st.req.RemoteAddr.String() != peerAddr(peer) || st.req.LocalAddr.String() != cn.LocalAddr().String() ||
				!bytes.Equal(st.req.Secret, secs[peer]) || st.req.Context() == nil || st.req.Context() == context.Background() {
				c.Fail("spec", "request", "fields", hx(d), fmt.Sprint(st.req.RemoteAddr, st.req.LocalAddr), "peer/local/secret/ctx", "the request carries the parsed packet, that secret, the peer and local addresses and the server context")
			}
			// the reply written by the handler
			cn.mu.Lock()
			var w fakePkt
			if len(cn.writes) > 0 {
				w = cn.writes[len(cn.writes)-1]
			}
			cn.mu.Unlock()
			if w.from == nil || w.from.String() != peerAddr(peer) || !radius.IsAuthenticResponse(w.b, d, secs[peer]) {
				c.Fail("spec", "reply", "reply", hx(d), fmt.Sprintf("%x to %v", w.b, w.from), "authentic reply to the source address", "a reply written by the handler goes to the request's source with a valid response authenticator")
			}
			rq := Req{Name: "reply", Bs: [][]byte{d, secs[peer], []byte("ok")}, Zs: []string{Z(int64(replyCode)), Z(int64(peer))}}
			rt := &Toks{}
			rt.I(0).I(int64(peer)).B(w.b)
			c.Add(Case{Req: rq, Impl: rt.String(), Tag: "reply", NoSpec: true})
		case <-dgramDone:
			t.I(0)
		case <-time.After(3 * time.Second):
			c.Fail("model", "dispatch", "stuck", hx(d), "datagram neither dispatched nor dropped", "", "")
			return
		}
		ng++
		evs = append(evs, c06Event{kind: 0, peer: peer, d: d})
	}
	t.I(int64(len(running)))
	// shut down
	for _, g := range running {
		close(live[g].release)
	}
	ctx, cancel := context.WithTimeout(context.Background(), 3*time.Second)
	srv.Shutdown(ctx)
	cancel()
	<-serveDone
	// the secret source got the server context, cancelled by Shutdown
	for _, cx := range ss.ctxs {
		if cx.Err() == nil {
			c.Fail("spec", "ctx", "ctx", "", "context passed to the secret source is still live after Shutdown", "cancelled", "Shutdown cancels the request contexts")
			break
		}
	}
	tag := "history"
	if len(running) > 0 || ng > 3 {
		tag = "history-concurrent"
	}
	c.Add(Case{Req: req, Impl: t.String(), Tag: tag})
}

// the datagram of one peer must still be that peer's when its goroutine gets to parse it, even if the
// server has read further datagrams into its buffer in the meantime
func runOverlap(c *Ctx, r *Rng) {
	schedMu.Lock()
	defer schedMu.Unlock()
	sec := []byte("overlap")
	hold := make(chan struct{})
	ss := &scriptedSecrets{secs: map[string][]byte{peerAddr(0): sec, peerAddr(2): sec}, errs: map[string]bool{},
		hold: map[string]chan struct{}{peerAddr(0): hold}, entered: make(chan string, 8)}
	type got struct {
		from string
		id   byte
		name string
	}
	gotc := make(chan got, 4)
	cn := newFakeConn(0)
	srv := &radius.PacketServer{SecretSource: ss, ErrorLog: log.New(io.Discard, "", 0),
		Handler: radius.HandlerFunc(func(w radius.ResponseWriter, rq *radius.Request) {
			gotc <- got{rq.RemoteAddr.String(), rq.Identifier, string(rq.Get(1))}
		})}
	done := make(chan error, 1)
	go func() { done <- srv.Serve(cn) }()
	mk := func(id byte, name string) []byte {
		p := &radius.Packet{Code: 1, Identifier: id, Secret: sec}
		copy(p.Authenticator[:], r.Bytes(16))
		p.Add(1, []byte(name))
		b, _ := p.Encode()
		return b
	}
	nameA, nameB := fmt.Sprintf("alice-%d", r.Intn(1000)), fmt.Sprintf("bob-%d-%s", r.Intn(1000), strings.Repeat("x", r.Intn(20)))
	a, b := mk(1, nameA), mk(2, nameB)
	wait := func(addr string) bool {
		select {
		case x := <-ss.entered:
			return x == addr
		case <-time.After(3 * time.Second):
			return false
		}
	}
	cn.in <- fakePkt{a, fakeAddr(peerAddr(0))}
	okA := wait(peerAddr(0)) // A's goroutine is parked in the secret lookup
	cn.in <- fakePkt{b, fakeAddr(peerAddr(2))}
	okB := wait(peerAddr(2)) // B has been read into the server's buffer and its goroutine started
	close(hold)
	res := map[string]got{}
	for i := 0; i < 2; i++ {
		select {
		case g := <-gotc:
			res[g.from] = g
		case <-time.After(3 * time.Second):
		}
	}
	ctx, cancel := context.WithTimeout(context.Background(), 3*time.Second)
	srv.Shutdown(ctx)
	cancel()
	<-done
	ga, gb := res[peerAddr(0)], res[peerAddr(2)]
	if !okA || !okB || ga.id != 1 || ga.name != nameA || gb.id != 2 || gb.name != nameB {
		c.Fail("spec", "PacketServer.Serve", "overlapping-datagrams", fmt.Sprintf("A=%x from %s, then B=%x from %s while A's secret lookup is pending", a, peerAddr(0), b, peerAddr(2)),
			fmt.Sprintf("handler saw %+v and %+v", ga, gb), fmt.Sprintf("(%s id 1 %s) and (%s id 2 %s)", peerAddr(0), nameA, peerAddr(2), nameB),
			"each handler receives the parse of the datagram its own peer sent")
	}
	c.Count("overlap", nameA+nameB)
}

// a forged datagram is not a request: while its secret lookup is still pending, a genuine request with the same
// source and identifier arrives and must be dispatched (only dispatched requests enter the table of requests in flight)
func runForgedThenGenuine(c *Ctx, r *Rng) {
	schedMu.Lock()
	defer schedMu.Unlock()
	sec := []byte("forged")
	hold := make(chan struct{})
	ss := &scriptedSecrets{secs: map[string][]byte{peerAddr(0): sec}, errs: map[string]bool{},
		hold: map[string]chan struct{}{peerAddr(0): hold}, entered: make(chan string, 8)}
	gotc := make(chan string, 4)
	cn := newFakeConn(0)
	srv := &radius.PacketServer{SecretSource: ss, ErrorLog: log.New(io.Discard, "", 0),
		Handler: radius.HandlerFunc(func(w radius.ResponseWriter, rq *radius.Request) {
			gotc <- string(rq.Get(1))
		})}
	done := make(chan error, 1)
	go func() { done <- srv.Serve(cn) }()
	id := byte(r.Intn(256))
	good := &radius.Packet{Code: 1, Identifier: id, Secret: sec}
	copy(good.Authenticator[:], r.Bytes(16))
	name := fmt.Sprintf("genuine-%d", r.Intn(1000))
	good.Add(1, []byte(name))
	g, _ := good.Encode()
	// same identifier, an Accounting-Request whose authenticator is random: not authentic
	bad := &radius.Packet{Code: 4, Identifier: id, Secret: []byte("someone else")}
	bad.Add(1, []byte("forged"))
	f, _ := bad.Encode()
	if r.Bool() {
		f = append([]byte{byte(r.Pick(1, 4, 12, 40)), id}, r.Bytes(r.Intn(30))...) // or plain garbage carrying the identifier
	}
	waitEntered := func() bool {
		select {
		case <-ss.entered:
			return true
		case <-time.After(800 * time.Millisecond):
			return false
		}
	}
	cn.in <- fakePkt{f, fakeAddr(peerAddr(0))}
	firstParked := waitEntered()
	cn.in <- fakePkt{g, fakeAddr(peerAddr(0))}
	waitEntered()
	close(hold)
	var seen []string
	for len(seen) < 2 {
		select {
		case n := <-gotc:
			seen = append(seen, n)
			continue
		case <-time.After(600 * time.Millisecond):
		}
		break
	}
	ctx, cancel := context.WithTimeout(context.Background(), 3*time.Second)
	srv.Shutdown(ctx)
	cancel()
	<-done
	if firstParked && (len(seen) != 1 || seen[0] != name) {
		c.Fail("spec", "PacketServer.Serve", "forged-then-genuine", fmt.Sprintf("forged %x (secret lookup pending), then genuine %x, both from %s with identifier %d", f, g, peerAddr(0), id),
			fmt.Sprintf("handler invocations: %q", seen), fmt.Sprintf("[%q]", name),
			"a datagram that is not an authentic request is dropped and leaves no trace: the genuine request with the same source and identifier is dispatched")
	}
	c.Count("forged-then-genuine", name)
}

// The secret source is asked for every datagram: between two datagrams of one peer its answer changes (the secret is
// rotated, withdrawn, or the lookup starts to fail). A request signed with the new secret is dispatched, one signed
// with the old secret is not; after a withdrawal nothing is.
func runSecretRotation(c *Ctx, r *Rng) {
	schedMu.Lock()
	defer schedMu.Unlock()
	oldSec, newSec := []byte("before-rotation"), []byte("after-rotation")
	ss := &scriptedSecrets{secs: map[string][]byte{peerAddr(0): oldSec}, errs: map[string]bool{}, hold: map[string]chan struct{}{}}
	gotc := make(chan string, 8)
	cn := newFakeConn(0)
	srv := &radius.PacketServer{SecretSource: ss, ErrorLog: log.New(io.Discard, "", 0),
		Handler: radius.HandlerFunc(func(w radius.ResponseWriter, rq *radius.Request) {
			gotc <- string(rq.Get(1))
		})}
	done := make(chan error, 1)
	go func() { done <- srv.Serve(cn) }()
	mk := func(id byte, name string, sec []byte) []byte {
		p := &radius.Packet{Code: 4, Identifier: id, Secret: sec} // Accounting-Request: its authenticator depends on the secret
		p.Add(1, []byte(name))
		b, _ := p.Encode()
		return b
	}
	// patience: long where a dispatch is due (a loaded machine may be slow), short where none is
	send := func(b []byte, due bool) string {
		cn.in <- fakePkt{b, fakeAddr(peerAddr(0))}
		patience := 150 * time.Millisecond
		if due {
			patience = 3 * time.Second
		}
		select {
		case n := <-gotc:
			return n
		case <-time.After(patience):
			return ""
		}
	}
	kind := r.Pick(0, 1, 2)
	var log_ []string
	log_ = append(log_, "first (old secret): "+send(mk(1, "first", oldSec), true))
	ss.mu.Lock()
	switch kind {
	case 0:
		ss.secs[peerAddr(0)] = newSec
	case 1:
		ss.secs[peerAddr(0)] = nil
	case 2:
		ss.errs[peerAddr(0)] = true
	}
	ss.mu.Unlock()
	log_ = append(log_, "stale (old secret): "+send(mk(2, "stale", oldSec), false))
	log_ = append(log_, "fresh (new secret): "+send(mk(3, "fresh", newSec), kind == 0))
	ctx, cancel := context.WithTimeout(context.Background(), 3*time.Second)
	srv.Shutdown(ctx)
	cancel()
	<-done
	want := []string{"first (old secret): first", "stale (old secret): ", "fresh (new secret): fresh"}
	what := "the secret source answers another secret for the peer"
	if kind != 0 {
		want[2] = "fresh (new secret): "
		what = map[int]string{1: "the secret source answers an empty secret for the peer", 2: "the secret source answers an error for the peer"}[kind]
	}
	if fmt.Sprint(log_) != fmt.Sprint(want) {
		c.Fail("spec", "PacketServer.Serve", "secret-rotation", "three Accounting-Requests from "+peerAddr(0)+"; after the first, "+what,
			fmt.Sprintf("handler invocations: %q", log_), fmt.Sprintf("%q", want),
			"a request is dispatched iff it is authentic under the secret the source returns for it: the source is asked for every datagram")
	}
	c.Count("secret-rotation", fmt.Sprint(kind))
}

// the table of requests in flight belongs to one Serve call: the same (source, identifier) arriving on another
// socket of the same server while the first handler runs is a different request and must be dispatched
func runTwoServes(c *Ctx, r *Rng) {
	schedMu.Lock()
	defer schedMu.Unlock()
	sec := []byte("two")
	type got struct {
		local string
		id    byte
	}
	gotc := make(chan got, 4)
	release := make(chan struct{})
	srv := &radius.PacketServer{SecretSource: radius.StaticSecretSource(sec), ErrorLog: log.New(io.Discard, "", 0),
		Handler: radius.HandlerFunc(func(w radius.ResponseWriter, rq *radius.Request) {
			gotc <- got{rq.LocalAddr.String(), rq.Identifier}
			w.Write(rq.Response(radius.CodeAccessAccept))
			<-release
		})}
	ca, cb := newFakeConn(0), newFakeConn(1)
	da, db := make(chan error, 1), make(chan error, 1)
	go func() { da <- srv.Serve(ca) }()
	go func() { db <- srv.Serve(cb) }()
	p := &radius.Packet{Code: 1, Identifier: byte(r.Intn(256)), Secret: sec}
	copy(p.Authenticator[:], r.Bytes(16))
	p.Add(1, []byte("u"))
	d, _ := p.Encode()
	peer := fakeAddr(peerAddr(0))
	var res []got
	recv := func() bool {
		select {
		case g := <-gotc:
			res = append(res, g)
			return true
		case <-time.After(2 * time.Second):
			return false
		}
	}
	ca.in <- fakePkt{d, peer}
	okA := recv()
	cb.in <- fakePkt{d, peer} // the same request on the other socket while A's handler is still running
	okB := recv()
	ca.in <- fakePkt{d, peer} // and once more on A: a duplicate for that Serve call
	dup := false
	select {
	case g := <-gotc:
		res = append(res, g)
		dup = true
	case <-time.After(150 * time.Millisecond):
	}
	close(release)
	ctx, cancel := context.WithTimeout(context.Background(), 3*time.Second)
	srv.Shutdown(ctx)
	cancel()
	<-da
	<-db
	cb.mu.Lock()
	repliesB := len(cb.writes)
	cb.mu.Unlock()
	if !okA || !okB || dup || repliesB != 1 {
		c.Fail("spec", "PacketServer.Serve", "two-serve-calls", fmt.Sprintf("request %x from %s on socket A, then on socket B while A's handler runs, then again on A", d, peerAddr(0)),
			fmt.Sprintf("handlers started: %+v; replies on B: %d; duplicate on A dispatched: %v", res, repliesB, dup), "one handler per socket, one reply on B, the duplicate on A dropped",
			"duplicates are suppressed among the requests received by the same Serve call; a reply goes out on the receiving socket")
	}
	c.Count("two-serve-calls", hx(d))
}

func b2i(b bool) int64 {
	if b {
		return 1
	}
	return 0
}

func init() {
	props["C06"] = func(c *Ctx) {
		c.Res.Rule = "histories against the real PacketServer on a fake PacketConn: datagrams from 3 peers (two of them on one host with different ports; valid requests of every request code with few identifiers so that duplicates occur, exact retransmissions, forged Accounting/Disconnect/CoA requests, reply codes, garbage, over-long Length) interleaved with handler completions in random order; scripted SecretSource (secret / empty / error, the error accompanied by a non-empty stale secret, per peer), InsecureSkipVerify on and off; after each datagram the harness waits for the handler to start or for the datagram.done hook. Dispatch/drop decisions, request packet, dedup table size and the handler's reply are compared with the Coq model; request fields, reply destination and authenticator are checked directly; a scenario parks a forged datagram in its secret lookup while the genuine request with the same source and identifier arrives (it must be dispatched); a separate scenario holds one datagram's secret lookup until the server has read the next datagram into its buffer and checks that each handler still receives its own peer's packet. non-trivial = history with at least one concurrent or repeated key"
		r := c.Rng.Fork()
		n := c.N(300, 6000)
		for i := 0; i < n; i++ {
			runDispatch(c, r, i)
		}
		for i := 0; i < c.N(10, 200); i++ {
			runOverlap(c, r)
		}
		for i := 0; i < c.N(5, 100); i++ {
			runTwoServes(c, r)
		}
		for i := 0; i < c.N(4, 60); i++ {
			runForgedThenGenuine(c, r)
		}
		for i := 0; i < c.N(6, 60); i++ {
			runSecretRotation(c, r)
		}
		c.Flush()
		c.RequireTags("history", "history-concurrent", "reply", "overlap", "two-serve-calls", "forged-then-genuine", "secret-rotation")
	}
}
