package main

import (
	"bytes"
	"context"
	"errors"
	"fmt"
	"io"
	"log"
	"net"
	"sync"
	"time"

	"layeh.com/radius"
)

type scriptedSecrets struct {
	secs map[string][]byte
	errs map[string]bool
	mu   sync.Mutex
	n    int
	ctxs []context.Context
}

func (s *scriptedSecrets) RADIUSSecret(ctx context.Context, a net.Addr) ([]byte, error) {
	s.mu.Lock()
	s.n++
	s.ctxs = append(s.ctxs, ctx)
	s.mu.Unlock()
	if s.errs[a.String()] {
		return nil, errors.New("no secret")
	}
	return s.secs[a.String()], nil
}

type c06Event struct {
	kind int // 0 arrive, 1 finish (return + clean)
	peer int
	d    []byte
	g    int
}

// one history against the real server
func runDispatch(c *Ctx, r *Rng, idx int) {
	schedMu.Lock()
	defer schedMu.Unlock()
	npeers := 3
	skip := r.Intn(5) == 0
	ss := &scriptedSecrets{secs: map[string][]byte{}, errs: map[string]bool{}}
	secs := make([][]byte, npeers)
	errs := make([]int, npeers)
	for p := 0; p < npeers; p++ {
		secs[p] = r.Bytes(1 + r.Intn(6))
		switch r.Intn(8) {
		case 0:
			secs[p] = nil
		case 1:
			errs[p] = 1
		}
		ss.secs[fmt.Sprintf("peer-%d", p)] = secs[p]
		ss.errs[fmt.Sprintf("peer-%d", p)] = errs[p] == 1
	}
	type started struct {
		req     *radius.Request
		release chan struct{}
		wrote   []byte
	}
	handlerStarted := make(chan *started, 8)
	dgramDone := make(chan struct{}, 64)
	radius.VerifHook = func(point string) {
		if point == "datagram.done" {
			dgramDone <- struct{}{}
		}
	}
	defer func() { radius.VerifHook = nil }()
	cn := newFakeConn(0)
	replyCode := radius.Code(r.Pick(2, 3, 5, 11, 41, 44))
	srv := &radius.PacketServer{
		SecretSource:       ss,
		InsecureSkipVerify: skip,
		ErrorLog:           log.New(io.Discard, "", 0),
		Handler: radius.HandlerFunc(func(w radius.ResponseWriter, rq *radius.Request) {
			st := &started{req: rq, release: make(chan struct{})}
			resp := rq.Response(replyCode)
			resp.Add(18, []byte("ok"))
			w.Write(resp)
			handlerStarted <- st
			<-st.release
		}),
	}
	serveDone := make(chan error, 1)
	go func() { serveDone <- srv.Serve(cn) }()

	// build the history
	var evs []c06Event
	var running []int // goroutine indices with a running handler (model order)
	ng := 0
	nev := 3 + r.Intn(10)
	// model shadow to know which arrivals dispatch: we simply ask the implementation and compare afterwards
	req := Req{Name: "dispatch"}
	req.Zs = append(req.Zs, Z(b2i(skip)), Z(int64(npeers)))
	for p := 0; p < npeers; p++ {
		req.Zs = append(req.Zs, Z(int64(errs[p])))
		req.Bs = append(req.Bs, secs[p])
	}
	t := &Toks{}
	live := map[int]*started{}
	var lastPkts [][]byte
	for e := 0; e < nev; e++ {
		if len(running) > 0 && r.Intn(3) == 0 {
			// finish a handler
			k := r.Intn(len(running))
			g := running[k]
			running = append(running[:k], running[k+1:]...)
			close(live[g].release)
			select {
			case <-dgramDone:
			case <-time.After(3 * time.Second):
				c.Fail("model", "dispatch", "stuck", "", "goroutine did not finish", "", "handler release")
				return
			}
			req.Zs = append(req.Zs, Z(1), Z(int64(g)), Z(2), Z(int64(g)))
			t.I(2).I(2)
			evs = append(evs, c06Event{kind: 1, g: g})
			continue
		}
		peer := r.Intn(npeers)
		var d []byte
		kind := r.Intn(10)
		sec := secs[peer]
		if len(sec) == 0 {
			sec = []byte("x")
		}
		mk := func(code int, id byte) []byte {
			p := &radius.Packet{Code: radius.Code(code), Identifier: id, Secret: sec}
			copy(p.Authenticator[:], r.Bytes(16))
			p.Add(1, r.Bytes(1+r.Intn(5)))
			b, _ := p.Encode()
			return b
		}
		id := byte(r.Intn(3)) // few identifiers so that duplicates happen
		switch {
		case kind < 5:
			d = mk(r.Pick(1, 4, 12, 40, 43), id)
		case kind == 5 && len(lastPkts) > 0:
			d = lastPkts[r.Intn(len(lastPkts))] // exact retransmission
		case kind == 6:
			d = mk(r.Pick(4, 40, 43), id)
			d[len(d)-1] ^= 1 // forged accounting / CoA request
		case kind == 7:
			d = mk(r.Pick(2, 3, 5, 11, 41), id) // reply codes sent to the server
		case kind == 8:
			d = r.Bytes(r.Intn(30))
		default:
			d = mk(1, id)
			d[3]++ // Length beyond the datagram
		}
		lastPkts = append(lastPkts, d)
		cn.in <- fakePkt{d, fakeAddr(fmt.Sprintf("peer-%d", peer))}
		req.Zs = append(req.Zs, Z(0), Z(int64(peer)))
		req.Bs = append(req.Bs, d)
		select {
		case st := <-handlerStarted:
			g := ng
			live[g] = st
			running = append(running, g)
			t.I(1).I(int64(peer))
			tPacket(t, st.req.Packet)
			// request fields
			if st.req.RemoteAddr.String() != fmt.Sprintf("peer-%d", peer) || st.req.LocalAddr.String() != cn.LocalAddr().String() ||
				!bytes.Equal(st.req.Secret, secs[peer]) || st.req.Context() == nil || st.req.Context() == context.Background() {
				c.Fail("spec", "request", "fields", hx(d), fmt.Sprint(st.req.RemoteAddr, st.req.LocalAddr), "peer/local/secret/ctx", "the request carries the parsed packet, that secret, the peer and local addresses and the server context")
			}
			// the reply written by the handler
			cn.mu.Lock()
			var w fakePkt
			if len(cn.writes) > 0 {
				w = cn.writes[len(cn.writes)-1]
			}
			cn.mu.Unlock()
			if w.from == nil || w.from.String() != fmt.Sprintf("peer-%d", peer) || !radius.IsAuthenticResponse(w.b, d, secs[peer]) {
				c.Fail("spec", "reply", "reply", hx(d), fmt.Sprintf("%x to %v", w.b, w.from), "authentic reply to the source address", "a reply written by the handler goes to the request's source with a valid response authenticator")
			}
			rq := Req{Name: "reply", Bs: [][]byte{d, secs[peer], []byte("ok")}, Zs: []string{Z(int64(replyCode)), Z(int64(peer))}}
			rt := &Toks{}
			rt.I(0).I(int64(peer)).B(w.b)
			c.Add(Case{Req: rq, Impl: rt.String(), Tag: "reply", NoSpec: true})
		case <-dgramDone:
			t.I(0)
		case <-time.After(3 * time.Second):
			c.Fail("model", "dispatch", "stuck", hx(d), "datagram neither dispatched nor dropped", "", "")
			return
		}
		ng++
		evs = append(evs, c06Event{kind: 0, peer: peer, d: d})
	}
	t.I(int64(len(running)))
	// shut down
	for _, g := range running {
		close(live[g].release)
	}
	ctx, cancel := context.WithTimeout(context.Background(), 3*time.Second)
	srv.Shutdown(ctx)
	cancel()
	<-serveDone
	// the secret source got the server context, cancelled by Shutdown
	for _, cx := range ss.ctxs {
		if cx.Err() == nil {
			c.Fail("spec", "ctx", "ctx", "", "context passed to the secret source is still live after Shutdown", "cancelled", "Shutdown cancels the request contexts")
			break
		}
	}
	tag := "history"
	if len(running) > 0 || ng > 3 {
		tag = "history-concurrent"
	}
	c.Add(Case{Req: req, Impl: t.String(), Tag: tag})
}

func b2i(b bool) int64 {
	if b {
		return 1
	}
	return 0
}

func init() {
	props["C06"] = func(c *Ctx) {
		c.Res.Rule = "histories against the real PacketServer on a fake PacketConn: datagrams from 3 peers (valid requests of every request code with few identifiers so that duplicates occur, exact retransmissions, forged Accounting/Disconnect/CoA requests, reply codes, garbage, over-long Length) interleaved with handler completions in random order; scripted SecretSource (secret / empty / error per peer), InsecureSkipVerify on and off; after each datagram the harness waits for the handler to start or for the datagram.done hook. Dispatch/drop decisions, request packet, dedup table size and the handler's reply are compared with the Coq model; request fields, reply destination and authenticator are checked directly. non-trivial = history with at least one concurrent or repeated key"
		r := c.Rng.Fork()
		n := c.N(300, 6000)
		for i := 0; i < n; i++ {
			runDispatch(c, r, i)
		}
		c.Flush()
		c.RequireTags("history", "history-concurrent", "reply")
	}
}
