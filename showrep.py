#!/usr/bin/env python3
# development aid: print the most recent replay of a property grouped by tag
import json,glob,os,sys,collections
pid=sys.argv[1]; n=int(sys.argv[2]) if len(sys.argv)>2 else 3; w=int(sys.argv[3]) if len(sys.argv)>3 else 500
f=max(glob.glob('/verif/build/replays/%s-*'%pid),key=os.path.getmtime)
d=json.load(open(f)); print(f, d.get('n_cases'))
cs=[d]+d.get('more_cases',[])
by=collections.OrderedDict()
for c in cs:
    c=c.get('case') or {}
    by.setdefault((c.get('kind'),c.get('tag')),[]).append(c)
for k,v in by.items():
    print('==',k,len(v))
    for c in v[:n]:
        print(' op:',c.get('op')); print(' req:',(c.get('request') or '')[:w]); print(' impl:',(c.get('impl') or '')[:w]); print(' exp:',(c.get('expected') or '')[:w]); print(' desc:',c.get('desc')); print()
if d.get('broken_obligation'): print('BROKEN', d['broken_obligation'])
