#!/usr/bin/env python3
# helper used while developing: add/replace a check entry in MANIFEST.json (not used by the checks)
import json, sys
def chk(pid, text, note, tech, cat="proof"):
    p='/verif/MANIFEST.json'; d=json.load(open(p))
    d['checks']=[c for c in d['checks'] if c['property_id']!=pid]
    d['checks'].append({"property_id":pid,"quick_cmd":"./check %s quick"%pid,"thorough_cmd":"./check %s thorough"%pid,
      "evidence_file":"evidence/%s.json"%pid,"replay_cmd_template":"./check %s --replay {path}"%pid,"engine":"coq",
      "level_claimed":{"category":cat,"text":text,"design_ref":"DESIGN.md 5/%s"%pid},"level_note":note,"technique":tech})
    d['checks'].sort(key=lambda c:c['property_id'])
    d['not_applicable']=[n for n in d.get('not_applicable',[]) if n['property_id']!=pid]
    for e in d.get('engines',[]):
        if pid not in e.get('serves_properties',[]): e['serves_properties']=sorted(e.get('serves_properties',[])+[pid])
    json.dump(d,open(p,'w'),indent=1)
