(* ocaml/driver.ml — line protocol around the extracted Coq [dispatch].
   request : name|hex,hex,...|int,int,...       (ints: optionally signed hex)
   reply   : space-separated tokens  i<signed hex>  or  b<hex>  *)
module M = Driver_model

let rec pos_of_bits (acc : M.positive) (bits : bool list) : M.positive =
  match bits with
  | [] -> acc
  | b :: r -> pos_of_bits (if b then M.XI acc else M.XO acc) r

let hexval c =
  match c with
  | '0' .. '9' -> Char.code c - 48
  | 'a' .. 'f' -> Char.code c - 87
  | 'A' .. 'F' -> Char.code c - 55
  | _ -> failwith "bad hex"

(* unsigned hex string -> N *)
let n_of_hex (s : string) : M.n =
  let bits = ref [] in
  String.iter (fun c ->
    let v = hexval c in
    bits := (v land 1 <> 0) :: (v land 2 <> 0) :: (v land 4 <> 0) :: (v land 8 <> 0) :: !bits) s;
  let msb_first = List.rev !bits in
  let rec strip l = match l with false :: r -> strip r | _ -> l in
  match strip msb_first with
  | [] -> M.N0
  | _ :: r -> M.Npos (pos_of_bits M.XH r)

let z_of_hex (s : string) : M.z =
  if String.length s > 0 && s.[0] = '-' then
    (match n_of_hex (String.sub s 1 (String.length s - 1)) with M.N0 -> M.Z0 | M.Npos p -> M.Zneg p)
  else (match n_of_hex s with M.N0 -> M.Z0 | M.Npos p -> M.Zpos p)

let n_of_int (i : int) : M.n = n_of_hex (Printf.sprintf "%x" i)

let bytes_of_hex (s : string) : M.n list =
  let n = String.length s / 2 in
  let rec go i acc = if i < 0 then acc else go (i - 1) (n_of_int (hexval s.[2*i] * 16 + hexval s.[2*i+1]) :: acc) in
  go (n - 1) []

let rec bits_of_pos (p : M.positive) : bool list = (* lsb first *)
  match p with M.XH -> [true] | M.XO q -> false :: bits_of_pos q | M.XI q -> true :: bits_of_pos q

let hex_of_pos (p : M.positive) : string =
  let bits = Array.of_list (bits_of_pos p) in
  let nb = Array.length bits in
  let nd = (nb + 3) / 4 in
  let b = Buffer.create nd in
  for d = nd - 1 downto 0 do
    let v = ref 0 in
    for k = 3 downto 0 do
      let i = d * 4 + k in
      v := !v * 2 + (if i < nb && bits.(i) then 1 else 0)
    done;
    Buffer.add_char b "0123456789abcdef".[!v]
  done;
  Buffer.contents b

let hex_of_z (z : M.z) : string =
  match z with M.Z0 -> "0" | M.Zpos p -> hex_of_pos p | M.Zneg p -> "-" ^ hex_of_pos p

let int_of_n (x : M.n) : int =
  match x with M.N0 -> 0 | M.Npos p -> List.fold_right (fun b acc -> acc * 2 + (if b then 1 else 0)) (bits_of_pos p) 0

let hex_of_bytes (l : M.n list) : string =
  let b = Buffer.create 64 in
  List.iter (fun x -> Buffer.add_string b (Printf.sprintf "%02x" (int_of_n x land 0xffff))) l;
  Buffer.contents b

let split_nonempty c s = if s = "" then [] else String.split_on_char c s

let () =
  try
    while true do
      let line = input_line stdin in
      (match String.split_on_char '|' line with
       | [name; bs; zs] ->
         let name' = List.map (fun c -> n_of_int (Char.code c)) (List.init (String.length name) (String.get name)) in
         let bs' = List.map (fun h -> if h = "-" then [] else bytes_of_hex h) (split_nonempty ',' bs) in
         let zs' = List.map z_of_hex (split_nonempty ',' zs) in
         let out = M.dispatch name' bs' zs' in
         let b = Buffer.create 256 in
         List.iteri (fun i t ->
           if i > 0 then Buffer.add_char b ' ';
           match t with
           | M.TI z -> Buffer.add_char b 'i'; Buffer.add_string b (hex_of_z z)
           | M.TB l -> Buffer.add_char b 'b'; Buffer.add_string b (hex_of_bytes l)) out;
         print_string (Buffer.contents b); print_newline ()
       | _ -> print_string "!bad-request"; print_newline ());
      flush stdout
    done
  with End_of_file -> ()
