(* Spec/C11.v — RFC 2868 s3.5 Tunnel-Password, written from the RFC:
   plaintext = Data-Length octet | password | zero padding to a multiple of 16;
     b(1) = MD5(S + R + A)  c(1) = p(1) xor b(1)     (A = the two salt octets)
     b(i) = MD5(S + c(i-1)) c(i) = p(i) xor b(i)
   String = Salt | c(1) | ... | c(n).  The chaining is that of RFC 2865 s5.2
   seeded with R + A, so Spec/C04's block function is reused. *)
From Radius Require Import Base.Bytes Base.Res Spec.C04.
Open Scope nat_scope.

Section S.
Variable H : bytes -> bytes.

Definition tp_blocks (len : nat) : nat := (len + 16) / 16.      (* ceil((1+len)/16) *)
Definition tp_plain (pw : bytes) : bytes := N.of_nat (length pw) :: pw.
Definition rfc_tp_encrypt (S RA salt pw : bytes) : bytes :=
  salt ++ rfc_up_enc H (tp_blocks (length pw)) S (RA ++ salt) (tp_plain pw).

(* a salt is acceptable when it has two octets and the high bit of the first is set *)
Definition salt_ok (salt : bytes) : bool :=
  match salt with [s0; _] => (128 <=? s0 mod 256)%N | _ => false end.

(* longest password whose encoding plus a tag octet fits a 253-octet value:
   1 + 2 + 16*ceil((1+n)/16) <= 253  <->  n <= 239 *)
Definition tp_max_password : nat := 239.

Definition spec_new_tunnel_password (pw salt sec ra : bytes) : res bytes :=
  if (tp_max_password <? length pw) || negb (salt_ok salt) || (length sec =? 0) || negb (length ra =? 16)
  then Err E_invalid else Ok (rfc_tp_encrypt sec ra salt pw).

Definition spec_tunnel_password (a sec ra : bytes) : res (bytes * bytes) :=
  if (252 <? length a) || (length a <? 18) || negb ((length a - 2) mod 16 =? 0)
     || (length sec =? 0) || negb (length ra =? 16) || negb (salt_ok (firstn 2 a))
  then Err E_invalid
  else
    let salt := firstn 2 a in
    let plain := rfc_up_dec H ((length a - 2) / 16) sec (ra ++ salt) (skipn 2 a) in
    match plain with
    | pl :: rest => if length rest <? N.to_nat pl then Err E_invalid else Ok (firstn (N.to_nat pl) rest, salt)
    | [] => Err E_invalid
    end.
End S.
