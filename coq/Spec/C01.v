(* Spec/C01.v — the wire format of RFC 2865 s3/s5, from the property text. *)
From Radius Require Import Base.Bytes Model.Attrs Spec.C09.
Open Scope nat_scope.

(* a gap-free sequence of type/length/value attributes, every length >= 2 *)
Inductive tlvs : bytes -> attrs -> Prop :=
| tlvs_nil : tlvs [] []
| tlvs_cons t v rest tl :
    length v <= 253 -> tlvs rest tl ->
    tlvs (t :: N.of_nat (length v + 2) :: v ++ rest) (mkavp (Z.of_N t) v :: tl).

Definition wf_tlvs (b : bytes) : Prop := exists l, tlvs b l.

(* value of the 16-bit Length field of a datagram *)
Definition length_field (b : bytes) : nat :=
  N.to_nat (be_dec (firstn 2 (skipn 2 b))).

(* the acceptance condition of the statement *)
Definition accepts (b : bytes) : Prop :=
  20 <= length b /\ 20 <= length_field b <= 4096 /\ length_field b <= length b /\
  wf_tlvs (firstn (length_field b - 20) (skipn 20 b)).

(* what the encoder may be asked to encode *)
Definition value_ok (a : avp) : bool := negb (in_range a) || (length (aval a) <=? 253).
Definition encodable_attrs (l : attrs) : Prop :=
  forallb value_ok l = true /\ 20 + length (spec_wire l) <= 4096.
