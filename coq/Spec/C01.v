(* Spec/C01.v — the wire format of RFC 2865 s3/s5, from the property text. *)
From Radius Require Import Base.Bytes Model.Attrs Spec.C09.
Open Scope nat_scope.

(* a gap-free sequence of type/length/value attributes, every length >= 2 *)
Inductive tlvs : bytes -> attrs -> Prop :=
| tlvs_nil : tlvs [] []
| tlvs_cons t v rest tl :
    length v <= 253 -> tlvs rest tl ->
    tlvs (t :: N.of_nat (length v + 2) :: v ++ rest) (mkavp (Z.of_N t) v :: tl).

Definition wf_tlvs (b : bytes) : Prop := exists l, tlvs b l.

(* value of the 16-bit Length field of a datagram *)
Definition length_field (b : bytes) : nat :=
  N.to_nat (be_dec (firstn 2 (skipn 2 b))).

(* the acceptance condition of the statement *)
Definition accepts (b : bytes) : Prop :=
  20 <= length b /\ 20 <= length_field b <= 4096 /\ length_field b <= length b /\
  wf_tlvs (firstn (length_field b - 20) (skipn 20 b)).

(* what the encoder may be asked to encode *)
Definition value_ok (a : avp) : bool := negb (in_range a) || (length (aval a) <=? 253).
Definition encodable_attrs (l : attrs) : Prop :=
  forallb value_ok l = true /\ 20 + length (spec_wire l) <= 4096.

(* ---- executable oracles (literal constants of the statement; nothing from
   Gen/Consts.v), extracted into the driver as "s.*" operations ---- *)
From Radius Require Import Base.Res.

Fixpoint spec_tlv_dec_f (fuel : nat) (b : bytes) : res attrs :=
  match fuel with
  | O => OutOfFuel
  | S f =>
    match b with
    | [] => Ok []
    | [_] => Err E_attr_short
    | t :: l :: _ =>
      let len := N.to_nat l in
      if (length b <? len) || (len <? 2) || (255 <? len) then Err E_attr_len
      else match spec_tlv_dec_f f (skipn len b) with
           | Ok tl => Ok (mkavp (Z.of_N t) (skipn 2 (firstn len b)) :: tl)
           | r => r
           end
    end
  end.
Definition spec_tlv_dec (b : bytes) : res attrs := spec_tlv_dec_f (S (length b)) b.

Definition spec_parse (b s : bytes) : res (Z * N * bytes * bytes * attrs) :=
  if length b <? 20 then Err E_short else
  let len := length_field b in
  if (len <? 20) || (4096 <? len) || (length b <? len) then Err E_badlen
  else match spec_tlv_dec (firstn (len - 20) (skipn 20 b)) with
       | Ok at_ => Ok (Z.of_N (nth 0 b 0%N), nth 1 b 0%N, firstn 16 (skipn 4 b), s, at_)
       | Err e => Err e | Panic => Panic | OutOfFuel => OutOfFuel
       end.

Definition spec_value_fits (a : avp) : bool := negb (in_range a) || (length (aval a) <=? 253).

Definition spec_marshal (c : Z) (i : N) (au : bytes) (l : attrs) : res bytes :=
  if forallb spec_value_fits l then
    let w := spec_wire l in
    if 4096 <? 20 + length w then Err E_pkt_big
    else Ok (Z.to_N (c mod 256) :: i :: be_enc 2 (N.of_nat (20 + length w)) ++ au ++ w)
  else Err E_attr_big.
