(* Spec/C10.v — wire formats of the typed values (RFC 2865 s5, RFC 2866 s5,
   RFC 3162 s2.3, RFC 6929 s2.3) and executable oracles with literal constants. *)
From Radius Require Import Base.Bytes Base.Res.
Open Scope nat_scope.

(* fixed-width unsigned integers, network byte order *)
Definition spec_dec_uint (k : nat) (a : bytes) : res N :=
  if length a =? k then Ok (be_dec a) else Err E_invalid.
Definition spec_enc_uint (k : nat) (i : N) : bytes := be_enc k i.

(* text / octets: at most 253 octets *)
Definition spec_new_octets (s : bytes) : res bytes :=
  if length s <=? 253 then Ok s else Err E_invalid.

(* IP addresses as Go's net.IP: 4 bytes, or 16 bytes (IPv4-mapped = ::ffff:a.b.c.d) *)
Definition v4_mapped_prefix : bytes := [0;0;0;0;0;0;0;0;0;0;255;255]%N.
Definition ip_canon (ip : bytes) : option bytes :=      (* the 16-byte form; IP.Equal compares these *)
  if length ip =? 4 then Some (v4_mapped_prefix ++ ip)
  else if length ip =? 16 then Some ip else None.
Definition ip_equal (a b : bytes) : Prop := exists c, ip_canon a = Some c /\ ip_canon b = Some c.
Definition is_v4 (ip : bytes) : bool :=
  (length ip =? 4) || ((length ip =? 16) && beq (firstn 12 ip) v4_mapped_prefix).

Definition spec_new_ipaddr (ip : bytes) : res bytes :=
  if length ip =? 4 then Ok ip
  else if (length ip =? 16) && beq (firstn 12 ip) v4_mapped_prefix then Ok (skipn 12 ip)
  else Err E_invalid.
Definition spec_fixed (k : nat) (a : bytes) : res bytes :=
  if length a =? k then Ok a else Err E_invalid.
Definition spec_new_ipv6addr (ip : bytes) : res bytes :=
  match ip_canon ip with Some c => Ok c | None => Err E_invalid end.

(* date: seconds since the epoch in 32 bits *)
Definition spec_new_date (unix : Z) : res bytes :=
  if ((0 <=? unix) && (unix <=? 4294967295))%Z then Ok (be_enc 4 (Z.to_N unix)) else Err E_invalid.
Definition spec_date (a : bytes) : res Z :=
  if length a =? 4 then Ok (Z.of_N (be_dec a)) else Err E_invalid.

(* Vendor-Specific: 4-byte vendor id, then at least one octet (RFC 2865 s5.26: Length >= 7) *)
Definition spec_new_vsa (id : N) (v : bytes) : res bytes :=
  if (1 <=? length v) && (length v <=? 249) then Ok (be_enc 4 id ++ v) else Err E_invalid.
Definition spec_vsa (a : bytes) : res (N * bytes) :=
  if 5 <=? length a then Ok (be_dec (firstn 4 a), skipn 4 a) else Err E_invalid.

(* TLV (RFC 6929): type, length (of the whole TLV), at least one octet of value *)
Definition spec_new_tlv (t : N) (v : bytes) : res bytes :=
  if (1 <=? length v) && (length v <=? 253) then Ok (t :: N.of_nat (length v + 2) :: v) else Err E_invalid.
Definition spec_tlv6929 (a : bytes) : res (N * bytes) :=
  match a with
  | t :: l :: v => if (3 <=? length a) && (length a <=? 255) && (N.to_nat l =? length a) then Ok (t, v) else Err E_invalid
  | _ => Err E_invalid
  end.

(* ---- IPv6 prefix (RFC 3162 s2.3): reserved, prefix-length <= 128, prefix bits,
   bits outside the prefix length zero ---- *)
Definition byte_bits (b : N) : list bool :=    (* most significant first *)
  map (fun i => N.testbit b (N.of_nat i)) [7; 6; 5; 4; 3; 2; 1; 0].
Definition bits_of (l : bytes) : list bool := flat_map byte_bits l.
Fixpoint leading_ones (bs : list bool) : nat :=
  match bs with true :: r => S (leading_ones r) | _ => 0 end.
(* a mask is a run of ones followed by zeros; None otherwise *)
Definition spec_mask_ones (m : bytes) : option nat :=
  let bs := bits_of m in let n := leading_ones bs in
  if forallb negb (skipn n bs) then Some n else None.

(* the address with its host bits cleared *)
Definition clear_low (b : N) (keep : nat) : N := (b - b mod 2 ^ N.of_nat (8 - keep))%N.
Fixpoint apply_mask (ip : bytes) (ones : nat) : bytes :=
  match ip with
  | [] => []
  | b :: r => if 8 <=? ones then b :: apply_mask r (ones - 8)
              else clear_low b ones :: apply_mask r 0
  end.
Fixpoint mask_of (ones n : nat) : bytes :=
  match n with
  | O => []
  | S n' => if 8 <=? ones then 255%N :: mask_of (ones - 8) n'
            else clear_low 255 ones :: mask_of 0 n'
  end.

Definition spec_new_ipv6prefix (ip mask : bytes) : res bytes :=
  if negb (length ip =? 16) || negb (length mask =? 16) then Err E_invalid else
  match spec_mask_ones mask with
  | Some ones => Ok (0%N :: N.of_nat ones :: firstn ((ones + 7) / 8) (apply_mask ip ones))
  | None => Err E_invalid
  end.

Definition spec_ipv6prefix (a : bytes) : res (bytes * bytes) :=
  match a with
  | _ :: pl :: data =>
    if (length data <=? 16) && (pl <=? 128)%N then
      let ip := data ++ repeat 0%N (16 - length data) in
      if beq (apply_mask ip (N.to_nat pl)) ip then Ok (ip, mask_of (N.to_nat pl) 16) else Err E_invalid
    else Err E_invalid
  | _ => Err E_invalid
  end.
