(* Spec/C04.v — RFC 2865 s5.2 User-Password hiding, written from the RFC:
     b1 = MD5(S + RA)     c(1) = p1 xor b1
     bi = MD5(S + c(i-1)) c(i) = pi xor bi
   over the 16-octet blocks p1..pn of the NUL-padded password. *)
From Radius Require Import Base.Bytes Base.Res.
Open Scope nat_scope.

Section S.
Variable H : bytes -> bytes.

(* n blocks; [xor_pad h p] xors h with p zero-extended, i.e. the padded block *)
Fixpoint rfc_up_enc (n : nat) (S prev p : bytes) : bytes :=
  match n with
  | O => []
  | S n' => let c := xor_pad (H (S ++ prev)) (firstn 16 p) in c ++ rfc_up_enc n' S c (skipn 16 p)
  end.

Definition up_blocks (len : nat) : nat := Nat.max 1 ((len + 15) / 16).
Definition rfc_up_encrypt (S RA p : bytes) : bytes := rfc_up_enc (up_blocks (length p)) S RA p.

Fixpoint rfc_up_dec (n : nat) (S prev c : bytes) : bytes :=
  match n with
  | O => []
  | S n' => xor_pad (H (S ++ prev)) (firstn 16 c) ++ rfc_up_dec n' S (firstn 16 c) (skipn 16 c)
  end.
Definition rfc_up_decrypt (S RA c : bytes) : bytes :=
  take_until_nul (rfc_up_dec (length c / 16) S RA c).

(* executable oracles with the literal bounds of the statement *)
Definition spec_new_user_password (pt sec ra : bytes) : res bytes :=
  if (128 <? length pt) || (length sec =? 0) || negb (length ra =? 16) then Err E_invalid
  else Ok (rfc_up_encrypt sec ra pt).

Definition spec_user_password (a sec ra : bytes) : res bytes :=
  if (length a <? 16) || (128 <? length a) || negb (length a mod 16 =? 0)
     || (length sec =? 0) || negb (length ra =? 16) then Err E_invalid
  else Ok (rfc_up_decrypt sec ra a).
End S.
