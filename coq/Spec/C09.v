(* Spec/C09.v — the attribute list as an ordered multimap, written from the
   property text: association-list operations, nothing taken from the Go loops. *)
From Radius Require Import Base.Bytes Model.Attrs.
Open Scope Z_scope.

Definition is_key (k : Z) (a : avp) : bool := atype a =? k.
Definition not_key (k : Z) (a : avp) : bool := negb (atype a =? k).

Definition spec_add (k : Z) (v : bytes) (l : attrs) : attrs := l ++ [mkavp k v].
Definition spec_del (k : Z) (l : attrs) : attrs := filter (not_key k) l.
Definition spec_lookup (k : Z) (l : attrs) : option bytes :=
  match find (is_key k) l with Some a => Some (aval a) | None => None end.
(* replace the first occurrence, drop the others, append when there is none *)
Fixpoint spec_set (k : Z) (v : bytes) (l : attrs) : attrs :=
  match l with
  | [] => [mkavp k v]
  | a :: r => if is_key k a then mkavp k v :: spec_del k r else a :: spec_set k v r
  end.

(* which attributes appear on the wire, and how *)
Definition in_range (a : avp) : bool := (0 <=? atype a) && (atype a <=? 255).
Definition spec_tlv (a : avp) : bytes :=
  Z.to_N (atype a) :: N.of_nat (length (aval a) + 2) :: aval a.
Definition spec_wire (l : attrs) : bytes := flat_map spec_tlv (filter in_range l).

(* operations of the API, for the "all operation sequences" statement *)
Inductive op := OAdd (k : Z) (v : bytes) | OSet (k : Z) (v : bytes) | ODel (k : Z)
              | OGet (k : Z) | OLookup (k : Z).
Definition spec_step (l : attrs) (o : op) : attrs * option (option bytes) :=
  match o with
  | OAdd k v => (spec_add k v l, None)
  | OSet k v => (spec_set k v l, None)
  | ODel k => (spec_del k l, None)
  | OGet k => (l, Some (spec_lookup k l))
  | OLookup k => (l, Some (spec_lookup k l))
  end.
