(* Spec/C19.v — RFC 2759 s8, RFC 3079 s3.4, RFC 2548 s2.4.2, written from the RFC
   text; the magic constants are typed in from the RFCs as text (NOT taken from
   the Go source). *)
From Coq Require Import String Ascii.
From Radius Require Import Base.Bytes Base.Res.
Open Scope list_scope.
Open Scope nat_scope.

Definition txt (s : string) : bytes := map N_of_ascii (list_ascii_of_string s).

(* RFC 2759 s8.7 *)
Definition rfc_magic1 : bytes := txt "Magic server to client signing constant".
Definition rfc_magic2 : bytes := txt "Pad to make it do more than one iteration".
(* RFC 3079 s3.4 *)
Definition rfc_mppe_magic1 : bytes := txt "This is the MPPE Master Key".
Definition rfc_mppe_magic2 : bytes :=
  txt "On the client side, this is the send key; on the server side, it is the receive key.".
Definition rfc_mppe_magic3 : bytes :=
  txt "On the client side, this is the receive key; on the server side, it is the send key.".
Definition rfc_shspad1 : bytes := repeat 0%N 40.
Definition rfc_shspad2 : bytes := repeat 242%N 40.

Section P.
Variable SHA1 MD4 UTF16 : bytes -> bytes.
Variable DES : bytes -> bytes -> bytes.

(* RFC 2759 s8.6: DES takes a 64-bit key whose 8th, 16th, ... bits are parity bits;
   a 56-bit key is spread seven bits per octet (here with odd parity filled in) *)
Definition digit128 (key : bytes) (i : nat) : N := (be_dec key / 128 ^ N.of_nat (7 - i)) mod 128.
Definition ones (b : N) : nat := length (filter (fun i => N.testbit b (N.of_nat i)) (seq 0 8)).
Definition with_odd_parity (seven : N) : N :=
  let o := (seven * 2)%N in if Nat.even (ones o) then (o + 1)%N else o.
Definition rfc_des_key (key7 : bytes) : bytes := map (fun i => with_odd_parity (digit128 key7 i)) (seq 0 8).
Definition rfc_des_encrypt (clear key7 : bytes) : bytes := DES (rfc_des_key key7) clear.

(* s8.2 ChallengeHash, s8.3 NtPasswordHash, s8.5 ChallengeResponse *)
Definition rfc_challenge_hash (peer auth user : bytes) : bytes := firstn 8 (SHA1 (peer ++ auth ++ user)).
Definition rfc_nt_password_hash (unicode_pw : bytes) : bytes := MD4 unicode_pw.
Definition rfc_challenge_response (challenge hash16 : bytes) : bytes :=
  let z := hash16 ++ repeat 0%N 5 in       (* ZPasswordHash: 21 octets *)
  rfc_des_encrypt challenge (firstn 7 z) ++ rfc_des_encrypt challenge (firstn 7 (skipn 7 z))
  ++ rfc_des_encrypt challenge (firstn 7 (skipn 14 z)).
(* s8.1 GenerateNTResponse *)
Definition rfc_generate_nt_response (auth peer user pw : bytes) : bytes :=
  rfc_challenge_response (rfc_challenge_hash peer auth user) (rfc_nt_password_hash (UTF16 pw)).
(* s8.7 GenerateAuthenticatorResponse: "S=" + 40 upper-case hex digits *)
Definition up_hex (n : N) : N := nth (N.to_nat n) (txt "0123456789ABCDEF") 63%N.
Definition rfc_hex (b : bytes) : bytes := flat_map (fun x => [up_hex (x / 16); up_hex (x mod 16)])%N b.
Definition rfc_generate_authenticator_response (auth peer ntresp user pw : bytes) : bytes :=
  let hh := rfc_nt_password_hash (rfc_nt_password_hash (UTF16 pw)) in
  let digest := SHA1 (hh ++ ntresp ++ rfc_magic1) in
  txt "S=" ++ rfc_hex (SHA1 (digest ++ rfc_challenge_hash peer auth user ++ rfc_magic2)).

(* RFC 3079 s3.4 *)
Definition rfc_get_master_key (hh ntresp : bytes) : bytes := firstn 16 (SHA1 (hh ++ ntresp ++ rfc_mppe_magic1)).
(* server side: IsSend -> Magic3, otherwise Magic2 *)
Definition rfc_get_asymmetric_start_key (master : bytes) (keylen : nat) (is_send : bool) : bytes :=
  firstn keylen (SHA1 (master ++ rfc_shspad1 ++ (if is_send then rfc_mppe_magic3 else rfc_mppe_magic2) ++ rfc_shspad2)).
(* RFC 2548 s2.4.2 (MS-MPPE-Send/Recv-Key for MS-CHAPv2): 128-bit start key from the NT response and password *)
Definition rfc_make_key (ntresp pw : bytes) (is_send : bool) : bytes :=
  let h := rfc_nt_password_hash (UTF16 pw) in
  rfc_get_asymmetric_start_key (rfc_get_master_key (rfc_nt_password_hash h) ntresp) 16 is_send.

(* executable oracles *)
Definition spec_get_asymmetric_start_key (master : bytes) (keylen : nat) (is_send : bool) : res bytes :=
  if negb (length master =? 16) then Err E_invalid else Ok (rfc_get_asymmetric_start_key master keylen is_send).
Definition spec_make_key (ntresp pw : bytes) (is_send : bool) : res bytes :=
  if negb (length ntresp =? 24) then Err E_invalid else Ok (rfc_make_key ntresp pw is_send).
End P.
