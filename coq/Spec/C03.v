(* Spec/C03.v — authenticators per RFC 2865 s3, RFC 2866 s3, RFC 5176 s2.3,
   from the property text.  The code lists are typed in from the RFCs. *)
From Radius Require Import Base.Bytes.
Open Scope Z_scope.

Definition rfc_reply_codes : list Z := [2; 3; 5; 11; 41; 42; 44; 45].
  (* Access-Accept/Reject, Accounting-Response, Access-Challenge, Disconnect-ACK/NAK, CoA-ACK/NAK *)
Definition rfc_hashed_request_codes : list Z := [4; 40; 43].
  (* Accounting-Request, Disconnect-Request, CoA-Request *)
Definition rfc_verbatim_codes : list Z := [1; 12].
  (* Access-Request, Status-Server *)

Section S.
Variable H : bytes -> bytes.

(* MD5(Code|Identifier|Length|A|Attributes|Secret) over a datagram w *)
Definition covered (w a sec : bytes) : bytes := firstn 4 w ++ a ++ skipn 20 w ++ sec.
Definition auth_field (w : bytes) : bytes := firstn 16 (skipn 4 w).
Definition zero16 : bytes := repeat 0%N 16.

Definition spec_response_authentic (r q sec : bytes) : Prop :=
  (20 <= length r)%nat /\ (20 <= length q)%nat /\ sec <> [] /\
  auth_field r = H (covered r (auth_field q) sec).

Definition spec_request_authentic (q sec : bytes) : Prop :=
  (20 <= length q)%nat /\ sec <> [] /\
  exists c rest, q = c :: rest /\
  (In (Z.of_N c) rfc_verbatim_codes \/
   (In (Z.of_N c) rfc_hashed_request_codes /\ auth_field q = H (covered q zero16 sec))).
End S.

(* ---- executable oracles ---- *)
From Radius Require Import Base.Res Base.Guard Model.Attrs Spec.C09 Spec.C01.
Section Oracles.
Variable H : bytes -> bytes.

Definition spec_put_auth (b h : bytes) : bytes := firstn 4 b ++ h ++ skipn 20 b.

Definition spec_encode (c : Z) (i : N) (au sec : bytes) (l : attrs) : res bytes :=
  match spec_marshal c i au l with
  | Ok w =>
    if zmem c rfc_verbatim_codes then Ok w
    else if zmem c rfc_reply_codes then Ok (spec_put_auth w (H (covered w au sec)))
    else if zmem c rfc_hashed_request_codes then Ok (spec_put_auth w (H (covered w zero16 sec)))
    else Err E_unknown_code
  | r => r
  end.

Definition spec_is_authentic_response (r q sec : bytes) : bool :=
  (20 <=? length r)%nat && (20 <=? length q)%nat && negb (length sec =? 0)%nat &&
  beq (auth_field r) (H (covered r (auth_field q) sec)).

Definition spec_is_authentic_request (q sec : bytes) : bool :=
  (20 <=? length q)%nat && negb (length sec =? 0)%nat &&
  match q with
  | c :: _ => zmem (Z.of_N c) rfc_verbatim_codes ||
              (zmem (Z.of_N c) rfc_hashed_request_codes && beq (auth_field q) (H (covered q zero16 sec)))
  | [] => false
  end.
End Oracles.
