(* Spec/C06.v — dispatch rule of the statement, with literal constants and the
   oracles of Spec/C01 and Spec/C03; used by the counterexample search. *)
From Radius Require Import Base.Bytes Base.Res Model.Attrs Model.Packet Model.Dispatch Spec.C01 Spec.C03.
Open Scope nat_scope.

Section S.
Variable H : bytes -> bytes.
Variable skip_verify : bool.
Variable secret_of : N -> secret_res.

Definition spec_decide (from : N) (d : bytes) : option request :=
  match secret_of from with
  | SecErr => None
  | Sec sec =>
    if length sec =? 0 then None else
    if negb skip_verify && negb (spec_is_authentic_request H d sec) then None else
    match spec_parse d sec with
    | Ok (c, i, au, s, at_) => Some (mkreq (mkpacket c i au s at_) from)
    | _ => None
    end
  end.

(* a set of (address, identifier) pairs currently being handled *)
Definition spec_dstep (s : dstate) (e : devent) : dstate * dout :=
  match e with
  | DArrive from d =>
    match spec_decide from d with
    | None => (mkd (inflight s) (gs s ++ [GDropped]), ODropped)
    | Some r =>
      let k := (from, ident (r_packet r)) in
      if mem k (inflight s) then (mkd (inflight s) (gs s ++ [GDropped]), ODropped)
      else (mkd (k :: inflight s) (gs s ++ [GRun k]), ODispatched r)
    end
  | _ => dstep H skip_verify secret_of s e
  end.

Fixpoint spec_drun (s : dstate) (es : list devent) : dstate * list dout :=
  match es with
  | [] => (s, [])
  | e :: r => let '(s1, o) := spec_dstep s e in let '(s2, os) := spec_drun s1 r in (s2, o :: os)
  end.
End S.
