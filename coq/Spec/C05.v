(* Spec/C05.v — what the client may return, from the property text: a verdict
   per datagram, then "first acceptable one unless the error budget is spent". *)
From Radius Require Import Base.Bytes Base.Res Model.Attrs Spec.C01 Spec.C03.
Open Scope nat_scope.

Inductive verdict :=
| Acceptable (t : Z * N * bytes * bytes * attrs)
| Bad (e : N).     (* the error Exchange would report: parse error class, or 9 = non-authentic *)

Section S.
Variable H : bytes -> bytes.
Variable max_errors : Z.
Variable skip_verify : bool.
Variable wire sec : bytes.

Definition classify (d : bytes) : verdict :=
  let d := firstn 4096 d in      (* a datagram is read into a 4096-byte buffer *)
  match spec_parse d sec with
  | Ok t => if skip_verify || spec_is_authentic_response H d wire sec then Acceptable t else Bad 9
  | Err e => Bad e
  | Panic => Bad 98
  | OutOfFuel => Bad 99
  end.

Inductive soutcome :=
| SReturned (t : Z * N * bytes * bytes * attrs) (i : nat)
| SFailed (e : N) (i : nat)
| SWaiting (errors : Z).

(* budget = number of further bad datagrams tolerated before failing; None = unlimited *)
Fixpoint spec_recv (vs : list verdict) (budget : option nat) (seen : Z) (i : nat) : soutcome :=
  match vs with
  | [] => SWaiting seen
  | Acceptable t :: _ => SReturned t i
  | Bad e :: r =>
    match budget with
    | None => spec_recv r None (seen + 1) (S i)
    | Some (S (S b)) => spec_recv r (Some (S b)) (seen + 1) (S i)
    | Some _ => SFailed e i          (* this is the max_errors-th bad datagram *)
    end
  end.

Definition spec_exchange_recv (ds : list bytes) : soutcome :=
  spec_recv (map classify ds) (if (0 <? max_errors)%Z then Some (Z.to_nat max_errors) else None) 0 0.
End S.
