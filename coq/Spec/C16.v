(* Spec/C16.v — the concrete syntax of the supported FreeRADIUS dictionary
   language, from the property text: tokens, layout, numerals. *)
From Coq Require Import String Ascii.
From Radius Require Import Base.Bytes Base.Res Model.Dict.
Open Scope list_scope.
Open Scope nat_scope.

(* layout characters *)
Definition ws_byte (b : N) : bool := (b =? 32)%N || (b =? 9)%N || (b =? 11)%N || (b =? 12)%N || (b =? 13)%N.
Definition is_ws (l : bytes) : Prop := Forall (fun b => ws_byte b = true) l.
(* a token: non-empty, no white space, no '#', no newline *)
Definition token_byte (b : N) : bool := negb (is_space b) && negb (b =? 35)%N.
Definition is_token (t : bytes) : Prop := t <> [] /\ Forall (fun b => token_byte b = true) t.

(* a line: leading white space, tokens separated by non-empty white space,
   trailing white space, optional comment *)
Fixpoint render (lead : bytes) (toks : list bytes) (seps : list bytes) (trail : bytes) : bytes :=
  match toks with
  | [] => lead ++ trail
  | [t] => lead ++ t ++ trail
  | t :: ts => match seps with
               | s :: ss => lead ++ t ++ render s ts ss trail
               | [] => lead ++ t ++ render [32%N] ts [] trail
               end
  end.
Definition with_comment (l : bytes) (comment : option bytes) : bytes :=
  match comment with Some c => l ++ 35%N :: c | None => l end.

(* numerals *)
Definition is_dec (b : N) : bool := (48 <=? b)%N && (b <=? 57)%N.
Definition all_dec (s : bytes) : bool := forallb is_dec s.
Definition dec_value (s : bytes) : Z := fold_left (fun a b => (a * 10 + (Z.of_N b - 48))%Z) s 0%Z.
Definition is_hex (b : N) : bool := is_dec b || ((97 <=? b)%N && (b <=? 102)%N) || ((65 <=? b)%N && (b <=? 70)%N).
Definition hex_digit (b : N) : Z :=
  if is_dec b then (Z.of_N b - 48)%Z else if (97 <=? b)%N then (Z.of_N b - 87)%Z else (Z.of_N b - 55)%Z.
Definition hex_value (s : bytes) : Z := fold_left (fun a b => (a * 16 + hex_digit b)%Z) s 0%Z.

(* dotted numbers: components joined by '.' *)
Fixpoint dotted (comps : list bytes) : bytes :=
  match comps with [] => [] | [c] => c | c :: r => c ++ 46%N :: dotted r end.
