(* Proofs/Shipped.v — every checked-in generated package is, declaration by declaration, what the
   repository's generator makes of the dictionary checked in next to it (C18).  Gen/Shipped.v is
   rewritten on every run: per package, the declarations of the checked-in generated.go and of
   Generate's output with a digest of their canonical syntax (identifiers, operators, literal
   values; no comments or layout).  The set is finite and checked exhaustively. *)
From Coq Require Import List String Bool Arith.
From Radius Require Import Gen.Shipped.
Import ListNotations.
Open Scope string_scope.

Definition entry_eqb (a b : string * string) : bool := String.eqb (fst a) (fst b) && String.eqb (snd a) (snd b).
Fixpoint list_eqb (a b : list (string * string)) : bool :=
  match a, b with
  | [], [] => true
  | x :: a', y :: b' => entry_eqb x y && list_eqb a' b'
  | _, _ => false
  end.
Definition is_error (l : list (string * string)) : bool :=
  match l with (n, _) :: _ => String.eqb n "<error>" | [] => true end.
Definition faithful (p : shipped) : bool :=
  negb (is_error (sp_checked_in p)) && negb (is_error (sp_generated p)) && list_eqb (sp_checked_in p) (sp_generated p).

Lemma list_eqb_eq a : forall b, list_eqb a b = true -> a = b.
Proof.
  induction a as [|[x1 x2] a IH]; intros [|[y1 y2] b]; cbn [list_eqb]; try discriminate; [reflexivity|].
  intros H. apply andb_true_iff in H. destruct H as [He Hl]. unfold entry_eqb in He. cbn [fst snd] in He.
  apply andb_true_iff in He. destruct He as [H1 H2]. apply String.eqb_eq in H1, H2. subst. f_equal. apply IH, Hl.
Qed.

Lemma all_faithful : forallb faithful packages = true.
Proof. vm_compute. reflexivity. Qed.

Theorem shipped_is_generated : forall p, In p packages ->
  sp_checked_in p = sp_generated p /\ is_error (sp_generated p) = false.
Proof.
  intros p Hin. pose proof (proj1 (forallb_forall faithful packages) all_faithful p Hin) as H.
  unfold faithful in H. apply andb_true_iff in H. destruct H as [H Hl]. apply andb_true_iff in H. destruct H as [_ He].
  split; [apply list_eqb_eq, Hl|]. destruct (is_error (sp_generated p)); [discriminate|reflexivity].
Qed.

Theorem shipped_set : List.length packages = 33 /\ existsb (fun p => String.eqb (sp_name p) "debug") packages = true /\
  Nat.leb 3000 (fold_right (fun p n => List.length (sp_checked_in p) + n) 0 packages) = true.
Proof. vm_compute. repeat split. Qed.
