(* Proofs/SrcNewPrefix.v — NewIPv6Prefix of attribute.go as translated (Gen/Src.v)
   is the encoder of Model/Codecs.v (hence of Spec/C10.v), for all inputs. *)
From Coq Require Import String.
From Radius Require Import Base.Bytes Base.Res Base.Guard Base.GoLite Gen.Src Crypto.MD5 Proofs.SrcBase Proofs.SrcCtx Model.SrcRun
  Model.Attrs Model.Codecs Spec.C10 Proofs.Codecs Proofs.Prefix Proofs.Guards.
Open Scope list_scope.
Open Scope nat_scope.

(* what the loop does to the last octet: clear bit j (from the most significant) for j = k..7 *)
Definition clear_bit (b : N) (j : nat) : N :=
  Z.to_N (Z.ldiff (Z.of_N b) (wrap 8 false (Z.shiftl 1 (wrap 64 false (7 - Z.of_nat j))))).
Fixpoint clear_from (b : N) (k fuel : nat) : N :=
  match fuel with O => b | S f => clear_from (clear_bit b k) (S k) f end.

Lemma clear_from_keep_top b k : byte_ok b -> k <= 8 -> clear_from b k (8 - k) = keep_top b k.
Proof.
  intros Hb Hk. unfold byte_ok in Hb.
  assert (F : forallb (fun bn => forallb (fun kk => (clear_from (N.of_nat bn) kk (8 - kk) =? keep_top (N.of_nat bn) kk)%N) (seq 0 9)) (seq 0 256) = true)
    by (vm_compute; reflexivity).
  rewrite forallb_forall in F. specialize (F (N.to_nat b) ltac:(apply in_seq; lia)).
  rewrite forallb_forall in F. specialize (F k ltac:(apply in_seq; lia)).
  rewrite N2Nat.id in F. apply N.eqb_eq. exact F.
Qed.

Lemma clear_bit_ok b j : byte_ok b -> j < 8 -> byte_ok (clear_bit b j).
Proof.
  intros Hb Hj. unfold byte_ok in *.
  assert (F : forallb (fun bn => forallb (fun jj => (clear_bit (N.of_nat bn) jj <? 256)%N) (seq 0 8)) (seq 0 256) = true)
    by (vm_compute; reflexivity).
  rewrite forallb_forall in F. specialize (F (N.to_nat b) ltac:(apply in_seq; lia)).
  rewrite forallb_forall in F. specialize (F j ltac:(apply in_seq; lia)).
  rewrite N2Nat.id in F. apply N.ltb_lt. exact F.
Qed.

Ltac fold_for name :=
  match goal with |- context[SFor ?c ?p ?b] => change (SFor c p b) with name end.

Section NP.
Variable cx : ctx.
Definition np_body : stmt := f_body (fn src_NewIPv6Prefix).
Definition np_for : stmt :=
  match np_body with
  | SSeq _ (SSeq _ (SSeq _ (SSeq _ (SSeq _ (SSeq _ (SSeq _ (SSeq (SSeq _ (SIf _ f _)) _))))))) => f
  | _ => SSkip
  end.

(* the loop on the last octet of attr (attr = pre ++ [b]) *)
Lemma np_loop n m (c0 c1 c2 : val) pre : forall k b,
  byte_ok b -> k <= 8 -> 8 - k < m ->
  loop (fun e => eval cx e (for_cond np_for)) (exec cx n (for_body np_for)) (exec cx n (for_post np_for)) m
     [c0; c1; c2; VBytes (pre ++ [b]); VInt (Z.of_nat k)] =
  ONorm [c0; c1; c2; VBytes (pre ++ [clear_from b k (8 - k)]); VInt 8].
Proof.
  induction m as [|m IH]; intros k b Hb Hk Hm; [lia|].
  loop_step L. cbn [np_for np_body for_cond for_body for_post fn src_NewIPv6Prefix f_body]. go.
  destruct (Nat.eq_dec k 8) as [->|Hne].
  { golia. go. reflexivity. }
  golia. go.
  replace (Z.to_nat (Z.of_nat (length pre + 1) - 1)) with (length pre) by lia.
  rewrite app_nth2 by lia. rewrite Nat.sub_diag. cbn [nth].
  rewrite !(wrap_small 64 (7 - Z.of_nat k)) by (change (2 ^ 64)%Z with 18446744073709551616%Z; lia). golia. go.
  pose proof (clear_bit_ok b k Hb ltac:(lia)) as Hcb. unfold byte_ok in Hcb.
  assert (Hz : Z.ldiff (Z.of_N b) (wrap 8 false (Z.shiftl 1 (7 - Z.of_nat k))) = Z.of_N (clear_bit b k)).
  { unfold clear_bit. rewrite (wrap_small 64 (7 - Z.of_nat k)) by (change (2 ^ 64)%Z with 18446744073709551616%Z; lia).
    rewrite Z2N.id; [reflexivity|]. apply Z.ldiff_nonneg. left. lia. }
  rewrite Hz. golia. go. rewrite N2Z.id.
  unfold set_nth. rewrite firstn_app_exact by reflexivity.
  rewrite skipn_all2 by (rewrite app_length; cbn [length]; lia).
  replace (wrap 64 false (Z.of_nat k + 1)) with (Z.of_nat (S k)) by (rewrite wrap_small; [lia|change (2 ^ 64)%Z with 18446744073709551616%Z; lia]).
  subst L. rewrite IH by (try apply clear_bit_ok; try assumption; lia).
  replace (8 - k) with (S (8 - S k)) by lia. reflexivity.
Qed.
End NP.

Lemma np_for_is_for : match np_for with SFor _ _ _ => True | _ => False end.
Proof. exact I. Qed.

Arguments new_ipv6prefix : simpl never.
Arguments Nat.div : simpl never.
Arguments Nat.modulo : simpl never.
Arguments mask_size : simpl never.

Lemma mask_size_bound m : snd (mask_size m) = 128 -> fst (mask_size m) <= 128.
Proof.
  unfold mask_size. destruct (mask_ones m) as [k|] eqn:E; cbn [fst snd]; [|lia].
  intros H. pose proof (mask_ones_bound m k E). lia.
Qed.

Theorem src_NewIPv6Prefix_model cx n ip mask : uses_prims cx -> bytes_ok ip -> 8 < n ->
  run cx n (fn src_NewIPv6Prefix) [VRec [VBytes ip; VBytes mask]] =
  Some (Some (ret_res (new_ipv6prefix ip mask) VBytes VNil)).
Proof.
  intros Hp Hip Hn. unfold run, ret_res.
  cbn [fn src_NewIPv6Prefix f_body f_params f_locals].
  fold_for np_for. remember np_for as F eqn:HF.
  unfold new_ipv6prefix. rewrite g_NewIPv6Prefix_0. unfold zlen.
  go. gocase; go; [|reflexivity]. cbn [negb].
  rewrite (Hp "net.IPMask.Size"%string) by reflexivity. cbn [prims String.eqb Ascii.eqb Bool.eqb as_bytes].
  pose proof (mask_size_bound mask) as Hb.
  destruct (mask_size mask) as [ones bits] eqn:Ems. cbn [fst snd] in Hb. cbv beta iota zeta.
  remember ((ones + 7) / 8) as nb eqn:Hnbdef. remember (ones mod 8) as km eqn:Hkm. go.
  rewrite g_NewIPv6Prefix_1.
  destruct (Z.of_nat bits =? 128)%Z eqn:E2; go; [|reflexivity]. cbn [negb].
  specialize (Hb ltac:(lia)).
  assert (Hlen16 : length ip = 16) by lia.
  assert (Hnb : nb <= 16) by (subst nb; lia).
  assert (Hq : ((Z.of_nat ones + 7) ÷ 8)%Z = Z.of_nat nb).
  { rewrite Z.quot_div_nonneg by lia. subst nb. rewrite Nat2Z.inj_div. f_equal. lia. }
  rewrite Hq. replace (Z.to_nat (2 + Z.of_nat nb)) with (2 + nb) by lia.
  rewrite (repeat_app 0%N 2 nb). cbn [repeat app]. unfold set_nth. cbn [firstn skipn app].
  rewrite wrap_small by (change (2 ^ 8)%Z with 256%Z; lia).
  unfold copy_into at 1. cbn [length]. rewrite repeat_length. golia. gonorm.
  cbn [firstn skipn Nat.add app]. rewrite Hlen16.
  replace (Nat.min (S (S nb) - 2) 16) with nb by lia.
  rewrite skipn_all2 by (rewrite repeat_length; lia). rewrite app_nil_r. go.
  rewrite Z.rem_mod_nonneg by lia.
  assert (Hk : wrap 64 false (Z.of_nat ones mod 8) = Z.of_nat km).
  { subst km. rewrite wrap_small; [rewrite Nat2Z.inj_mod; reflexivity|].
    change (2 ^ 64)%Z with 18446744073709551616%Z. pose proof (Z.mod_pos_bound (Z.of_nat ones) 8 ltac:(lia)). lia. }
  rewrite Hk. rewrite g_NewIPv6Prefix_2.
  replace (Z.to_N (Z.of_nat ones)) with (zbyte (Z.of_nat ones)).
  2:{ unfold zbyte. rewrite Z.mod_small by lia. reflexivity. }
  destruct (Z.of_nat km =? 0)%Z eqn:E3; go.
  { cbn [negb]. reflexivity. }
  cbn [negb].
  (* ones mod 8 <> 0, so at least one octet follows the two header octets *)
  assert (Hnb1 : 1 <= nb) by (subst nb km; lia).
  assert (Hkm8 : km <= 8) by (subst km; pose proof (Nat.mod_upper_bound ones 8 ltac:(lia)); lia).
  assert (Lf : length (firstn nb ip) = nb) by (rewrite firstn_length; lia).
  destruct (exists_last (l := firstn nb ip)) as [pre [lst Hpl]].
  { intros Hnil. rewrite Hnil in Lf. cbn [length] in Lf. lia. }
  rewrite Hpl. rewrite rev_app_distr. cbn [rev app]. rewrite rev_involutive.
  assert (Hlst : byte_ok lst).
  { assert (Hf : bytes_ok (firstn nb ip)) by (apply bytes_ok_firstn, Hip). rewrite Hpl in Hf.
    apply bytes_ok_app in Hf. destruct Hf as [_ Hf]. inversion Hf; assumption. }
  subst F. rewrite exec_for by exact np_for_is_for.
  change (0%N :: zbyte (Z.of_nat ones) :: pre ++ [lst]) with ((0%N :: zbyte (Z.of_nat ones) :: pre) ++ [lst]).
  rewrite np_loop by (try assumption; lia). go.
  rewrite clear_from_keep_top by assumption. reflexivity.
Qed.

Theorem src_NewIPv6Prefix_spec cx n ip mask : uses_prims cx -> bytes_ok ip -> bytes_ok mask -> 8 < n ->
  run cx n (fn src_NewIPv6Prefix) [VRec [VBytes ip; VBytes mask]] =
  Some (Some (ret_res (spec_new_ipv6prefix ip mask) VBytes VNil)).
Proof. intros. rewrite <- new_ipv6prefix_eq by assumption. apply src_NewIPv6Prefix_model; assumption. Qed.

Theorem src_NewIPv6Prefix_nil cx n :
  run cx n (fn src_NewIPv6Prefix) [VNil] = Some (Some (VTup [VNil; VErr])).
Proof. unfold run. go. reflexivity. Qed.
