(* Proofs/SrcAuth.v — the authenticity predicates of packet.go as translated
   (Gen/Src.v) are the RFC predicates of Spec/C03.v with H = MD5, for all inputs. *)
From Coq Require Import String.
From Radius Require Import Base.Bytes Base.Res Base.Guard Base.GoLite Gen.Src Crypto.MD5 Proofs.SrcBase Proofs.SrcCtx Model.SrcRun
  Spec.C03.
Open Scope list_scope.
Open Scope nat_scope.

Definition is_slice_val (v : val) : Prop := v = VNil \/ exists l, v = VBytes l.
Definition bytes_val (v : val) : bytes := match as_bytes v with Some l => l | None => [] end.

Theorem src_IsAuthenticResponse_spec cx n r q sec : is_slice_val sec ->
  run cx n (fn src_IsAuthenticResponse) [VBytes r; VBytes q; sec] =
  Some (Some (VBool (spec_is_authentic_response md5 r q (bytes_val sec)))).
Proof.
  intros Hs. unfold run, spec_is_authentic_response.
  assert (Hsec : exists s, bytes_val sec = s /\ (sec = VNil /\ s = [] \/ sec = VBytes s)).
  { destruct Hs as [->|[l ->]]; eexists; split; try reflexivity; [left|right]; auto. }
  destruct Hsec as [s [Hbv Hsec]]. rewrite Hbv. clear Hbv Hs.
  go. gocase; go.
  { replace (20 <=? length r) with false by lia. reflexivity. }
  replace (20 <=? length r) with true by lia. gocase; go.
  { replace (20 <=? length q) with false by lia. reflexivity. }
  replace (20 <=? length q) with true by lia. cbn [andb].
  destruct Hsec as [[-> ->] | ->]; go.
  - reflexivity.
  - gocase; go.
    + replace (length s =? 0) with true by lia. reflexivity.
    + replace (length s =? 0) with false by lia. cbn [negb andb].
      unfold auth_field, covered. rewrite beq_sym. golist. rewrite <- !app_assoc. reflexivity.
Qed.

Theorem src_IsAuthenticRequest_spec cx n q sec : is_slice_val sec ->
  run cx n (fn src_IsAuthenticRequest) [VBytes q; sec] =
  Some (Some (VBool (spec_is_authentic_request md5 q (bytes_val sec)))).
Proof.
  intros Hs. unfold run, spec_is_authentic_request.
  assert (Hsec : exists s, bytes_val sec = s /\ (sec = VNil /\ s = [] \/ sec = VBytes s)).
  { destruct Hs as [->|[l ->]]; eexists; split; try reflexivity; [left|right]; auto. }
  destruct Hsec as [s [Hbv Hsec]]. rewrite Hbv. clear Hbv Hs.
  go. gocase; go.
  { replace (20 <=? length q) with false by lia. reflexivity. }
  replace (20 <=? length q) with true by lia. cbn [andb].
  assert (Hlen : (if match sec with VBytes l => Some (VInt (Z.of_nat (length l))) | VNil => Some (VInt 0)
                        | VList l => Some (VInt (Z.of_nat (length l))) | _ => None end then true else true) = true) by (destruct sec; reflexivity).
  destruct Hsec as [[-> ->] | ->]; go.
  - reflexivity.
  - gocase; go.
    + replace (length s =? 0) with true by lia. reflexivity.
    + replace (length s =? 0) with false by lia. cbn [negb andb].
      destruct q as [|c rest]; [cbn [length] in *; lia|]. cbn [nth].
      unfold rfc_verbatim_codes, rfc_hashed_request_codes. cbn [zmem].
      gocase; go; [reflexivity|]. gocase; go; [reflexivity|]. cbn [orb].
      assert (Hd : beq (md5 (((firstn 4 (c :: rest) ++ firstn 16 (repeat 0%N 16)) ++
                     firstn (S (length rest) - 20) (skipn 20 (c :: rest))) ++ s)) (firstn 16 (skipn 4 (c :: rest)))
                   = beq (auth_field (c :: rest)) (md5 (covered (c :: rest) zero16 s))).
      { unfold auth_field, covered, zero16. rewrite beq_sym.
        rewrite (@firstn_all2 _ 16 (repeat 0%N 16)) by golen.
        rewrite (@firstn_all2 _ (S (length rest) - 20)) by (rewrite skipn_length; cbn [length]; lia).
        rewrite <- !app_assoc. reflexivity. }
      rewrite Hd.
      destruct (Z.of_N c =? 4)%Z; go; [reflexivity|].
      destruct (Z.of_N c =? 40)%Z; go; [reflexivity|].
      destruct (Z.of_N c =? 43)%Z; go; reflexivity.
Qed.

(* ---- Response: same identifier, secret and authenticator, no attributes ---- *)
Theorem src_Response_spec cx n c i auth secret attrs code : length auth = 16 ->
  run cx n (fn src_Packet_Response) [VRec [VInt c; VInt i; VBytes auth; secret; attrs]; VInt code] =
  Some (Some (VRec [VInt code; VInt i; VBytes auth; secret; VNil])).
Proof.
  intros Ha. unfold run. go. rewrite (copy_whole_repeat 16) by golen. go. golist. reflexivity.
Qed.

(* ---- the same for the whole translated program ---- *)
Theorem program_IsAuthenticResponse fuel r q sec : is_slice_val sec ->
  src_run "IsAuthenticResponse" fuel [VBytes r; VBytes q; sec] =
  Some (Some (VBool (spec_is_authentic_response md5 r q (bytes_val sec)))).
Proof. intros. apply src_IsAuthenticResponse_spec. assumption. Qed.

Theorem program_IsAuthenticRequest fuel q sec : is_slice_val sec ->
  src_run "IsAuthenticRequest" fuel [VBytes q; sec] =
  Some (Some (VBool (spec_is_authentic_request md5 q (bytes_val sec)))).
Proof. intros. apply src_IsAuthenticRequest_spec. assumption. Qed.
