(* Proofs/SrcCodecs.v — attribute.go as translated (Gen/Src.v), interpreted by
   Base/GoLite.v, computes the wire formats of Spec/C10.v: for all inputs, any
   call context and any fuel (these functions have no loops and no calls). *)
From Coq Require Import String.
From Radius Require Import Base.Bytes Base.Res Base.GoLite Gen.Src Spec.C10 Crypto.MD5 Proofs.SrcBase Proofs.SrcCtx Model.SrcRun Model.Codecs Proofs.Codecs.
Open Scope list_scope.
Open Scope nat_scope.

Definition vN (v : N) : val := VInt (Z.of_N v).

(* ---- fixed-width integers ---- *)
Lemma src_Integer_spec cx n a :
  run cx n (fn src_Integer) [VBytes a] = Some (Some (ret_res (spec_dec_uint 4 a) vN (VInt 0))).
Proof.
  unfold run, spec_dec_uint, ret_res. go. gocase; go; [|reflexivity].
  rewrite firstn_all2 by lia. reflexivity.
Qed.

Lemma src_Short_spec cx n a :
  run cx n (fn src_Short) [VBytes a] = Some (Some (ret_res (spec_dec_uint 2 a) vN (VInt 0))).
Proof.
  unfold run, spec_dec_uint, ret_res. go. gocase; go; [|reflexivity].
  rewrite firstn_all2 by lia. reflexivity.
Qed.

Lemma src_Integer64_spec cx n a :
  run cx n (fn src_Integer64) [VBytes a] = Some (Some (ret_res (spec_dec_uint 8 a) vN (VInt 0))).
Proof.
  unfold run, spec_dec_uint, ret_res. go. gocase; go; [|reflexivity].
  rewrite firstn_all2 by lia. reflexivity.
Qed.

Lemma src_NewInteger_spec cx n i : (0 <= i)%Z ->
  run cx n (fn src_NewInteger) [VInt i] = Some (Some (VBytes (spec_enc_uint 4 (Z.to_N i)))).
Proof.
  intros. unfold run. go. rewrite (copy_whole_repeat 4) by apply be_enc_length. reflexivity.
Qed.

Lemma src_NewShort_spec cx n i : (0 <= i)%Z ->
  run cx n (fn src_NewShort) [VInt i] = Some (Some (VBytes (spec_enc_uint 2 (Z.to_N i)))).
Proof.
  intros. unfold run. go. rewrite (copy_whole_repeat 2) by apply be_enc_length. reflexivity.
Qed.

Lemma src_NewInteger64_spec cx n i : (0 <= i)%Z ->
  run cx n (fn src_NewInteger64) [VInt i] = Some (Some (VBytes (spec_enc_uint 8 (Z.to_N i)))).
Proof.
  intros. unfold run. go. rewrite (copy_whole_repeat 8) by apply be_enc_length. reflexivity.
Qed.

(* ---- text and octets ---- *)
Lemma src_String_spec cx n a :
  run cx n (fn src_String) [VBytes a] = Some (Some (VBytes a)).
Proof. unfold run. go. reflexivity. Qed.

Lemma src_NewString_spec cx n s :
  run cx n (fn src_NewString) [VBytes s] = Some (Some (ret_res (spec_new_octets s) VBytes VNil)).
Proof.
  unfold run, spec_new_octets, ret_res. go. gocase; go; reflexivity.
Qed.

Lemma src_Bytes_spec cx n a :
  run cx n (fn src_Bytes) [VBytes a] = Some (Some (VBytes a)).
Proof.
  unfold run. go. rewrite copy_whole_repeat by reflexivity. reflexivity.
Qed.

Lemma src_NewBytes_spec cx n b :
  run cx n (fn src_NewBytes) [VBytes b] = Some (Some (ret_res (spec_new_octets b) VBytes VNil)).
Proof.
  unfold run, spec_new_octets, ret_res. go. gocase; go; [reflexivity|].
  rewrite copy_whole_repeat by reflexivity. reflexivity.
Qed.

(* ---- fixed-size values: IPv4, IPv6, interface id ---- *)
Lemma src_IPAddr_spec cx n a :
  run cx n (fn src_IPAddr) [VBytes a] = Some (Some (ret_res (spec_fixed 4 a) VBytes VNil)).
Proof.
  unfold run, spec_fixed, ret_res. go. gocase; go; [|reflexivity].
  rewrite (copy_whole_repeat 4) by lia. reflexivity.
Qed.

Lemma src_IPv6Addr_spec cx n a :
  run cx n (fn src_IPv6Addr) [VBytes a] = Some (Some (ret_res (spec_fixed 16 a) VBytes VNil)).
Proof.
  unfold run, spec_fixed, ret_res. go. gocase; go; [|reflexivity].
  rewrite (copy_whole_repeat 16) by lia. reflexivity.
Qed.

Lemma src_IFID_spec cx n a :
  run cx n (fn src_IFID) [VBytes a] = Some (Some (ret_res (spec_fixed 8 a) VBytes VNil)).
Proof.
  unfold run, spec_fixed, ret_res. go. gocase; go; [|reflexivity].
  rewrite copy_whole_repeat by reflexivity. reflexivity.
Qed.

Lemma src_NewIFID_spec cx n a :
  run cx n (fn src_NewIFID) [VBytes a] = Some (Some (ret_res (spec_fixed 8 a) VBytes VNil)).
Proof.
  unfold run, spec_fixed, ret_res. go. gocase; go; [|reflexivity].
  rewrite copy_whole_repeat by reflexivity. reflexivity.
Qed.

(* ---- date ---- *)
Lemma src_Date_spec cx n a :
  run cx n (fn src_Date) [VBytes a] = Some (Some (ret_res (spec_date a) VInt (VInt (-62135596800)))).
Proof.
  unfold run, spec_date, ret_res. go. gocase; go; [|reflexivity].
  rewrite firstn_all2 by lia. reflexivity.
Qed.

Lemma src_NewDate_spec cx n u :
  run cx n (fn src_NewDate) [VInt u] = Some (Some (ret_res (spec_new_date u) VBytes VNil)).
Proof.
  unfold run, spec_new_date, ret_res. go. gocase; go; [reflexivity|]. gocase; go; [reflexivity|].
  rewrite wrap_small by (change (2 ^ 32)%Z with 4294967296%Z; lia). go.
  rewrite (copy_whole_repeat 4) by apply be_enc_length. reflexivity.
Qed.

(* ---- Vendor-Specific ---- *)
Lemma src_VendorSpecific_spec cx n a :
  run cx n (fn src_VendorSpecific) [VBytes a] =
  Some (Some (match spec_vsa a with
              | Ok (id, v) => VTup [vN id; VBytes v; VNil]
              | _ => VTup [VInt 0; VNil; VErr]
              end)).
Proof.
  unfold run, spec_vsa. go. gocase; go; [reflexivity|].
  rewrite copy_whole_repeat by golen. go. golist.
  replace (5 <=? length a) with true by lia. reflexivity.
Qed.

Lemma src_NewVendorSpecific_spec cx n id v : (0 <= id)%Z ->
  run cx n (fn src_NewVendorSpecific) [VInt id; VBytes v] =
  Some (Some (ret_res (spec_new_vsa (Z.to_N id) v) VBytes VNil)).
Proof.
  intros Hid. unfold run, spec_new_vsa, ret_res. go. gocase; go; [reflexivity|]. gocase; go; [reflexivity|].
  rewrite copy_into_gen by golen. go. rewrite copy_into_gen by golen. go.
  replace ((1 <=? length v) && (length v <=? 249)) with true by lia.
rewrite (firstn_app_exact (be_enc 4 (Z.to_N id))) by golen. golist. reflexivity.
Qed.

(* ---- TLV (RFC 6929) ---- *)
Lemma src_TLV_spec cx n a : bytes_ok a ->
  run cx n (fn src_TLV) [VBytes a] =
  Some (Some (match spec_tlv6929 a with
              | Ok (t, v) => VTup [vN t; VBytes v; VNil]
              | _ => VTup [VInt 0; VNil; VErr]
              end)).
Proof.
  intros Hok. unfold run, spec_tlv6929. go. gocase; go.
  { destruct a as [|t [|l v]]; try reflexivity. replace (3 <=? length (t :: l :: v)) with false by lia. reflexivity. }
  gocase; go.
  { destruct a as [|t [|l v]]; try reflexivity. replace (length (t :: l :: v) <=? 255) with false by lia.
    rewrite andb_false_r. reflexivity. }
  destruct a as [|t [|l v]]; try (cbn [length] in *; lia).
  cbn [length] in *. go. cbn [nth]. gocase; go.
  - cbn [skipn nth]. rewrite copy_whole_repeat by golen. go. golist.
    replace (3 <=? S (S (length v))) with true by lia. replace (S (S (length v)) <=? 255) with true by lia.
    replace (N.to_nat l =? S (S (length v))) with true by lia. reflexivity.
  - replace (N.to_nat l =? S (S (length v))) with false by lia. rewrite ?andb_false_r. reflexivity.
Qed.

Lemma src_NewTLV_spec cx n t v : (0 <= t < 256)%Z ->
  run cx n (fn src_NewTLV) [VInt t; VBytes v] = Some (Some (ret_res (spec_new_tlv (Z.to_N t) v) VBytes VNil)).
Proof.
  intros Ht. unfold run, spec_new_tlv, ret_res. go. gocase; go; [reflexivity|]. gocase; go; [reflexivity|].
  replace (Z.to_nat (2 + Z.of_nat (length v))) with (S (S (length v))) by lia.
  cbn [repeat]. unfold set_nth. cbn [firstn skipn app]. go.
  rewrite copy_into_gen by (cbn [length]; golen). go.
  replace ((1 <=? length v) && (length v <=? 253)) with true by lia.
  rewrite wrap_small by (change (2 ^ 8)%Z with 256%Z; lia).
  cbn [firstn skipn Nat.add]. rewrite skipn_all2 by golen. rewrite app_nil_r.
  replace (Z.to_N (2 + Z.of_nat (length v))) with (N.of_nat (length v + 2)) by lia. reflexivity.
Qed.

(* ---- IP addresses: net.IP.To4 / To16 are library calls ---- *)
Lemma src_NewIPAddr_spec cx n ip : uses_prims cx ->
  run cx n (fn src_NewIPAddr) [VBytes ip] = Some (Some (ret_res (spec_new_ipaddr ip) VBytes VNil)).
Proof.
  intros Hp. unfold run, ret_res. rewrite <- new_ipaddr_eq. unfold new_ipaddr. go.
  rewrite (Hp "net.IP.To4"%string) by reflexivity. cbn [prims String.eqb Ascii.eqb Bool.eqb as_bytes].
  destruct (to4 ip) as [a|]; go; [|reflexivity].
  rewrite copy_whole_repeat by reflexivity. reflexivity.
Qed.

Lemma src_NewIPv6Addr_spec cx n ip : uses_prims cx ->
  run cx n (fn src_NewIPv6Addr) [VBytes ip] = Some (Some (ret_res (spec_new_ipv6addr ip) VBytes VNil)).
Proof.
  intros Hp. unfold run, ret_res. rewrite <- new_ipv6addr_eq. unfold new_ipv6addr. go.
  rewrite (Hp "net.IP.To16"%string) by reflexivity. cbn [prims String.eqb Ascii.eqb Bool.eqb as_bytes].
  destruct (to16 ip) as [a|]; go; [|reflexivity].
  rewrite copy_whole_repeat by reflexivity. reflexivity.
Qed.
