(* Proofs/Guards.v — what each source guard means.  Every lemma here is an
   obligation re-checked against Gen/Consts.v (regenerated from /repo on every
   run): it fails when the literal, the operator, or the position of a guard in
   the Go function changes.  All later proofs use the guards only through
   these lemmas. *)
From Radius Require Import Base.Bytes Base.Guard Gen.Consts.
From Coq Require Import String.
Open Scope Z_scope.

Ltac guard_shape := vm_compute; reflexivity.

(* ---- attributes.go ---- *)
Example shape_ParseAttributes :
  (gexpr_is G_ParseAttributes 0 "len($0)" && gexpr_is G_ParseAttributes 1 "len($0)" &&
   gexpr_is G_ParseAttributes 2 "int($0[1])" && gexpr_is G_ParseAttributes 3 "int($0[1])")%bool = true.
Proof. guard_shape. Qed.
Lemma g_ParseAttributes_0 x : holds (gd G_ParseAttributes 0) x = (x >? 0). Proof. reflexivity. Qed.
Lemma g_ParseAttributes_1 x : holds (gd G_ParseAttributes 1) x = (x <? 2). Proof. reflexivity. Qed.
Lemma g_ParseAttributes_2 x : holds (gd G_ParseAttributes 2) x = (x <? 2). Proof. reflexivity. Qed.
Lemma g_ParseAttributes_3 x : holds (gd G_ParseAttributes 3) x = (x >? 255). Proof. reflexivity. Qed.

Example shape_encodeTo :
  (gexpr_is G_Attributes_encodeTo 0 "attr.Type" && gexpr_is G_Attributes_encodeTo 1 "attr.Type" &&
   gexpr_is G_Attributes_encodeTo 2 "len(attr.Attribute)")%bool = true.
Proof. guard_shape. Qed.
Lemma g_encodeTo_0 x : holds (gd G_Attributes_encodeTo 0) x = (x <? 0). Proof. reflexivity. Qed.
Lemma g_encodeTo_1 x : holds (gd G_Attributes_encodeTo 1) x = (x >? 255). Proof. reflexivity. Qed.
Lemma g_encodeTo_2 x : holds (gd G_Attributes_encodeTo 2) x = (x >? 253). Proof. reflexivity. Qed.

Example shape_EncodedLen :
  (gexpr_is G_AttributesEncodedLen 0 "attr.Type" && gexpr_is G_AttributesEncodedLen 1 "attr.Type" &&
   gexpr_is G_AttributesEncodedLen 2 "len(attr.Attribute)")%bool = true.
Proof. guard_shape. Qed.
Lemma g_EncodedLen_0 x : holds (gd G_AttributesEncodedLen 0) x = (x <? 0). Proof. reflexivity. Qed.
Lemma g_EncodedLen_1 x : holds (gd G_AttributesEncodedLen 1) x = (x >? 255). Proof. reflexivity. Qed.
Lemma g_EncodedLen_2 x : holds (gd G_AttributesEncodedLen 2) x = (x >? 253). Proof. reflexivity. Qed.

(* ---- packet.go ---- *)
Example shape_Parse :
  (gexpr_is G_Parse 0 "len($0)" && gexpr_is G_Parse 1 "int(binary.BigEndian.Uint16($0[2:4]))" && gexpr_is G_Parse 2 "int(binary.BigEndian.Uint16($0[2:4]))")%bool = true.
Proof. guard_shape. Qed.
Lemma g_Parse_0 x : holds (gd G_Parse 0) x = (x <? 20). Proof. reflexivity. Qed.
Lemma g_Parse_1 x : holds (gd G_Parse 1) x = (x <? 20). Proof. reflexivity. Qed.
Lemma g_Parse_2 x : holds (gd G_Parse 2) x = (x >? 4096). Proof. reflexivity. Qed.
Lemma k_MaxPacketLength : K_MaxPacketLength = 4096. Proof. reflexivity. Qed.

Example shape_Marshal : gexpr_is G_Packet_MarshalBinary 0 "20 + attributesLen" = true.
Proof. guard_shape. Qed.
Lemma g_Marshal_0 x : holds (gd G_Packet_MarshalBinary 0) x = (x >? 4096). Proof. reflexivity. Qed.

Example shape_IsAuthenticResponse :
  (gexpr_is G_IsAuthenticResponse 0 "len($0)" && gexpr_is G_IsAuthenticResponse 1 "len($1)" &&
   gexpr_is G_IsAuthenticResponse 2 "len($2)")%bool = true.
Proof. guard_shape. Qed.
Lemma g_IsAuthResp_0 x : holds (gd G_IsAuthenticResponse 0) x = (x <? 20). Proof. reflexivity. Qed.
Lemma g_IsAuthResp_1 x : holds (gd G_IsAuthenticResponse 1) x = (x <? 20). Proof. reflexivity. Qed.
Lemma g_IsAuthResp_2 x : holds (gd G_IsAuthenticResponse 2) x = (x =? 0). Proof. reflexivity. Qed.

Example shape_IsAuthenticRequest :
  (gexpr_is G_IsAuthenticRequest 0 "len($0)" && gexpr_is G_IsAuthenticRequest 1 "len($1)")%bool = true.
Proof. guard_shape. Qed.
Lemma g_IsAuthReq_0 x : holds (gd G_IsAuthenticRequest 0) x = (x <? 20). Proof. reflexivity. Qed.
Lemma g_IsAuthReq_1 x : holds (gd G_IsAuthenticRequest 1) x = (x =? 0). Proof. reflexivity. Qed.

(* code switches of Encode and IsAuthenticRequest *)
Lemma sw_Encode_verbatim : sw SW_Packet_Encode 0 0 = [1; 12]. Proof. reflexivity. Qed.
Lemma sw_Encode_hashed : sw SW_Packet_Encode 0 1 = [2; 3; 4; 5; 11; 40; 41; 42; 43; 44; 45]. Proof. reflexivity. Qed.
Lemma sw_Encode_zero : sw SW_Packet_Encode 1 0 = [4; 40; 43]. Proof. reflexivity. Qed.
Lemma sw_IsAuthReq_always : sw SW_IsAuthenticRequest 0 0 = [1; 12]. Proof. reflexivity. Qed.
Lemma sw_IsAuthReq_hashed : sw SW_IsAuthenticRequest 0 1 = [4; 40; 43]. Proof. reflexivity. Qed.

(* ---- attribute.go: passwords ---- *)
Example shape_NewUserPassword :
  (gexpr_is G_NewUserPassword 0 "len($0)" && gexpr_is G_NewUserPassword 1 "len($1)" &&
   gexpr_is G_NewUserPassword 2 "len($2)")%bool = true.
Proof. guard_shape. Qed.
Lemma g_NewUserPassword_0 x : holds (gd G_NewUserPassword 0) x = (x >? 128). Proof. reflexivity. Qed.
Lemma g_NewUserPassword_1 x : holds (gd G_NewUserPassword 1) x = (x =? 0). Proof. reflexivity. Qed.
Lemma g_NewUserPassword_2 x : holds (gd G_NewUserPassword 2) x = negb (x =? 16). Proof. reflexivity. Qed.

Example shape_UserPassword :
  (gexpr_is G_UserPassword 0 "len($0)" && gexpr_is G_UserPassword 1 "len($0)" && gexpr_is G_UserPassword 2 "len($0) % 16" &&
   gexpr_is G_UserPassword 3 "len($1)" && gexpr_is G_UserPassword 4 "len($2)")%bool = true.
Proof. guard_shape. Qed.
Lemma g_UserPassword_0 x : holds (gd G_UserPassword 0) x = (x <? 16). Proof. reflexivity. Qed.
Lemma g_UserPassword_1 x : holds (gd G_UserPassword 1) x = (x >? 128). Proof. reflexivity. Qed.
Lemma g_UserPassword_2 x : holds (gd G_UserPassword 2) x = negb (x =? 0). Proof. reflexivity. Qed.
Lemma g_UserPassword_3 x : holds (gd G_UserPassword 3) x = (x =? 0). Proof. reflexivity. Qed.
Lemma g_UserPassword_4 x : holds (gd G_UserPassword 4) x = negb (x =? 16). Proof. reflexivity. Qed.

Example shape_NewTunnelPassword :
  (gexpr_is G_NewTunnelPassword 0 "len($0)" && gexpr_is G_NewTunnelPassword 1 "len($1)" &&
   gexpr_is G_NewTunnelPassword 2 "$1[0] & 0x80" &&
   gexpr_is G_NewTunnelPassword 3 "len($2)" && gexpr_is G_NewTunnelPassword 4 "len($3)")%bool = true.
Proof. guard_shape. Qed.
Lemma g_NewTunnelPassword_1 x : holds (gd G_NewTunnelPassword 1) x = negb (x =? 2). Proof. reflexivity. Qed.
Lemma g_NewTunnelPassword_2 x : holds (gd G_NewTunnelPassword 2) x = negb (x =? 128). Proof. reflexivity. Qed.
Lemma g_NewTunnelPassword_3 x : holds (gd G_NewTunnelPassword 3) x = (x =? 0). Proof. reflexivity. Qed.
Lemma g_NewTunnelPassword_4 x : holds (gd G_NewTunnelPassword 4) x = negb (x =? 16). Proof. reflexivity. Qed.

Example shape_TunnelPassword :
  (gexpr_is G_TunnelPassword 0 "len($0)" && gexpr_is G_TunnelPassword 1 "len($0)" && gexpr_is G_TunnelPassword 2 "(len($0) - 2) % 16" &&
   gexpr_is G_TunnelPassword 3 "len($1)" && gexpr_is G_TunnelPassword 4 "len($2)" &&
   gexpr_is G_TunnelPassword 5 "$0[0] & 0x80")%bool = true.
Proof. guard_shape. Qed.
Lemma g_TunnelPassword_0 x : holds (gd G_TunnelPassword 0) x = (x >? 252). Proof. reflexivity. Qed.
Lemma g_TunnelPassword_1 x : holds (gd G_TunnelPassword 1) x = (x <? 18). Proof. reflexivity. Qed.
Lemma g_TunnelPassword_2 x : holds (gd G_TunnelPassword 2) x = negb (x =? 0). Proof. reflexivity. Qed.
Lemma g_TunnelPassword_3 x : holds (gd G_TunnelPassword 3) x = (x =? 0). Proof. reflexivity. Qed.
Lemma g_TunnelPassword_4 x : holds (gd G_TunnelPassword 4) x = negb (x =? 16). Proof. reflexivity. Qed.
Lemma g_TunnelPassword_5 x : holds (gd G_TunnelPassword 5) x = negb (x =? 128). Proof. reflexivity. Qed.
(* bound on the password: the statement requires the encoding plus a tag byte
   to fit one attribute, i.e. at most 239 bytes of password *)
Lemma g_NewTunnelPassword_0 x : holds (gd G_NewTunnelPassword 0) x = (x >? 239). Proof. reflexivity. Qed.

(* ---- attribute.go: typed codecs ---- *)
Example shape_codecs :
  (gexpr_is G_Integer 0 "len($0)" && gexpr_is G_Short 0 "len($0)" && gexpr_is G_Integer64 0 "len($0)" &&
   gexpr_is G_NewString 0 "len($0)" && gexpr_is G_NewBytes 0 "len($0)" && gexpr_is G_IPAddr 0 "len($0)" &&
   gexpr_is G_IPv6Addr 0 "len($0)" && gexpr_is G_IFID 0 "len($0)" && gexpr_is G_NewIFID 0 "len($0)" &&
   gexpr_is G_Date 0 "len($0)" && gexpr_is G_NewDate 0 "$0.Unix()" && gexpr_is G_NewDate 1 "$0.Unix()" &&
   gexpr_is G_VendorSpecific 0 "len($0)" && gexpr_is G_NewVendorSpecific 0 "len($1)" &&
   gexpr_is G_NewVendorSpecific 1 "len($1)" && gexpr_is G_TLV 0 "len($0)" && gexpr_is G_TLV 1 "len($0)" &&
   gexpr_is G_NewTLV 0 "len($1)" && gexpr_is G_NewTLV 1 "len($1)" &&
   gexpr_is G_NewIPv6Prefix 0 "len($0.IP)" && gexpr_is G_NewIPv6Prefix 1 "bits" && gexpr_is G_NewIPv6Prefix 2 "i" &&
   gexpr_is G_IPv6Prefix 0 "len($0)" && gexpr_is G_IPv6Prefix 1 "len($0)" && gexpr_is G_IPv6Prefix 2 "int($0[1])")%bool = true.
Proof. guard_shape. Qed.
Lemma g_Integer_0 x : holds (gd G_Integer 0) x = negb (x =? 4). Proof. reflexivity. Qed.
Lemma g_Short_0 x : holds (gd G_Short 0) x = negb (x =? 2). Proof. reflexivity. Qed.
Lemma g_Integer64_0 x : holds (gd G_Integer64 0) x = negb (x =? 8). Proof. reflexivity. Qed.
Lemma g_NewString_0 x : holds (gd G_NewString 0) x = (x >? 253). Proof. reflexivity. Qed.
Lemma g_NewBytes_0 x : holds (gd G_NewBytes 0) x = (x >? 253). Proof. reflexivity. Qed.
Lemma g_IPAddr_0 x : holds (gd G_IPAddr 0) x = negb (x =? 4). Proof. reflexivity. Qed.
Lemma g_IPv6Addr_0 x : holds (gd G_IPv6Addr 0) x = negb (x =? 16). Proof. reflexivity. Qed.
Lemma g_IFID_0 x : holds (gd G_IFID 0) x = negb (x =? 8). Proof. reflexivity. Qed.
Lemma g_NewIFID_0 x : holds (gd G_NewIFID 0) x = negb (x =? 8). Proof. reflexivity. Qed.
Lemma g_Date_0 x : holds (gd G_Date 0) x = negb (x =? 4). Proof. reflexivity. Qed.
Lemma g_NewDate_0 x : holds (gd G_NewDate 0) x = (x <? 0). Proof. reflexivity. Qed.
Lemma g_NewDate_1 x : holds (gd G_NewDate 1) x = (x >? 4294967295). Proof. reflexivity. Qed.
Lemma g_VendorSpecific_0 x : holds (gd G_VendorSpecific 0) x = (x <? 5). Proof. reflexivity. Qed.
Lemma g_NewVendorSpecific_0 x : holds (gd G_NewVendorSpecific 0) x = (x <? 1). Proof. reflexivity. Qed.
Lemma g_NewVendorSpecific_1 x : holds (gd G_NewVendorSpecific 1) x = (x >? 249). Proof. reflexivity. Qed.
Lemma g_TLV_0 x : holds (gd G_TLV 0) x = (x <? 3). Proof. reflexivity. Qed.
Lemma g_TLV_1 x : holds (gd G_TLV 1) x = (x >? 255). Proof. reflexivity. Qed.
Lemma g_NewTLV_0 x : holds (gd G_NewTLV 0) x = (x <? 1). Proof. reflexivity. Qed.
Lemma g_NewTLV_1 x : holds (gd G_NewTLV 1) x = (x >? 253). Proof. reflexivity. Qed.
Lemma g_NewIPv6Prefix_0 x : holds (gd G_NewIPv6Prefix 0) x = negb (x =? 16). Proof. reflexivity. Qed.
Lemma g_NewIPv6Prefix_1 x : holds (gd G_NewIPv6Prefix 1) x = negb (x =? 128). Proof. reflexivity. Qed.
Lemma g_NewIPv6Prefix_2 x : holds (gd G_NewIPv6Prefix 2) x = negb (x =? 0). Proof. reflexivity. Qed.
Lemma g_IPv6Prefix_0 x : holds (gd G_IPv6Prefix 0) x = (x <? 2). Proof. reflexivity. Qed.
Lemma g_IPv6Prefix_1 x : holds (gd G_IPv6Prefix 1) x = (x >? 18). Proof. reflexivity. Qed.
Lemma g_IPv6Prefix_2 x : holds (gd G_IPv6Prefix 2) x = (x >? 128). Proof. reflexivity. Qed.

(* ---- client.go ---- *)
Example shape_Exchange :
  (gexpr_is G_Client_Exchange 0 "$r.Retry" && gexpr_is G_Client_Exchange 1 "$r.MaxPacketErrors" &&
   gexpr_is G_Client_Exchange 2 "$r.MaxPacketErrors")%bool = true.
Proof. guard_shape. Qed.
Lemma g_Exchange_0 x : holds (gd G_Client_Exchange 0) x = (x >? 0). Proof. reflexivity. Qed.
Lemma g_Exchange_1 x : holds (gd G_Client_Exchange 1) x = (x >? 0). Proof. reflexivity. Qed.
Lemma g_Exchange_2 x : holds (gd G_Client_Exchange 2) x = (x >? 0). Proof. reflexivity. Qed.

(* ---- server-packet.go ---- *)
Example shape_Serve : gexpr_is G_PacketServer_Serve 3 "len(secret)" = true.
Proof. guard_shape. Qed.
Lemma g_Serve_3 x : holds (gd G_PacketServer_Serve 3) x = (x =? 0). Proof. reflexivity. Qed.
