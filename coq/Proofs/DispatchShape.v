(* Proofs/DispatchShape.v — the goroutine of one datagram in PacketServer.Serve as written (the go block of
   Sync_PacketServer_Serve, regenerated from the working tree on every run) against Model/Dispatch.v: the in-flight
   table is tested and extended under one hold of requestsLock, before the handler is called; the entry is deleted,
   under the lock, after the handler has returned, and on no other path. *)
From Coq Require Import String.
From Radius Require Import Base.Bytes Base.Guard Base.Res Crypto.MD5 Gen.Consts Model.Attrs Model.Packet Model.Dispatch Model.ShutdownShape.
Open Scope nat_scope.
Open Scope string_scope.
Open Scope list_scope.

Notation T := true.
Notation F := false.

Definition dproj (t : string) : list string :=
  if String.eqb t "call:$r.SecretSource.RADIUSSecret" then ["secret"]
  else if String.eqb t "call:IsAuthenticRequest" then ["verify"]
  else if String.eqb t "call:Parse" then ["parse"]
  else if String.eqb t "call:(var sync.Mutex).Lock" then ["rlock"]
  else if String.eqb t "call:(var sync.Mutex).Unlock" then ["runlock"]
  else if String.eqb t "set:(val map[requestKey]struct{}{})[]" then ["insert"]
  else if String.eqb t "delete:(val map[requestKey]struct{}{})" then ["delete"]
  else if String.eqb t "call:$r.Handler.ServeRADIUS" then ["handler"]
  else if String.prefix "set:(val map[" t then [t]
  else if String.prefix "call:(var sync.Mutex)." t then [t]
  else if String.eqb t "else{" then ["unsupported:else"]
  else if String.eqb t "switch{" then ["unsupported:switch"]
  else [].

Definition dpath (ds : list bool) : list string := interp dproj 400 ds (go_block Sync_PacketServer_Serve) [].

(* what a step of the model does to the in-flight table and the handler *)
Definition dops (s s' : dstate) (e : devent) : list string :=
  (if Nat.ltb (List.length (inflight s)) (List.length (inflight s')) then ["insert"] else []) ++
  (match e with DReturn g => match nth_error (gs s) g with Some (GRun _) => ["handler"] | _ => [] end | _ => [] end) ++
  (if Nat.ltb (List.length (inflight s')) (List.length (inflight s)) then ["delete"] else []).

Definition so (a : N) : secret_res := if (a =? 9)%N then SecErr else Sec [115]%N.
Fixpoint dtrace (s : dstate) (es : list (devent * bool)) : list string :=
  match es with
  | [] => []
  | (e, rec) :: r => let s' := fst (dstep md5 false so s e) in (if rec then dops s s' e else []) ++ dtrace s' r
  end.

Definition table_ops (l : list string) : list string :=
  filter (fun t => String.eqb t "insert" || String.eqb t "handler" || String.eqb t "delete") l.

Definition q : bytes := [1; 7; 0; 20]%N ++ repeat 5%N 16.
Definition on (e : devent) := (e, true).
Definition off (e : devent) := (e, false).

Definition dispatch_order : Prop :=
  (* dispatched: the whole critical-section structure, and its table operations are the model's *)
  dpath [F;F;F;F;F] = ["secret"; "verify"; "parse"; "rlock"; "insert"; "runlock"; "handler"; "rlock"; "delete"; "runlock"] /\
  table_ops (dpath [F;F;F;F;F]) = dtrace dinit [on (DArrive 1 q); on (DReturn 0); on (DClean 0)] /\
  (* a duplicate of a request in flight: the lock is released, nothing is inserted or deleted, no handler *)
  dpath [F;F;F;F;T] = ["secret"; "verify"; "parse"; "rlock"; "runlock"] /\
  table_ops (dpath [F;F;F;F;T]) = dtrace dinit [off (DArrive 1 q); on (DArrive 1 q)] /\
  (* dropped before the table is consulted: secret error, empty secret, not authentic, does not parse *)
  dpath [T] = ["secret"] /\
  dpath [F;T] = ["secret"] /\
  dpath [F;F;T] = ["secret"; "verify"] /\
  dpath [F;F;F;T] = ["secret"; "verify"; "parse"] /\
  table_ops (dpath [T]) = dtrace dinit [on (DArrive 9 q)] /\
  table_ops (dpath [F;F;F;T]) = dtrace dinit [on (DArrive 1 [1; 2; 3]%N)].

Lemma dispatch_order_holds : dispatch_order.
Proof.
  unfold dispatch_order.
  repeat match goal with |- _ /\ _ => split end; vm_compute; reflexivity.
Qed.

(* ---- completeness: there is no other path through the goroutine ---- *)
Definition dispatch_traces : list (list string) :=
  [ ["secret"]; ["secret"; "verify"]; ["secret"; "verify"; "parse"];
    ["secret"; "verify"; "parse"; "rlock"; "runlock"];
    ["secret"; "verify"; "parse"; "rlock"; "insert"; "runlock"; "handler"; "rlock"; "delete"; "runlock"] ].
Definition dispatch_paths_complete : Prop :=
  forall ds, List.length ds = 5 -> In (dpath ds) dispatch_traces.
Lemma dispatch_paths_complete_holds : dispatch_paths_complete.
Proof.
  unfold dispatch_paths_complete, dpath; intros ds Hlen;
    (apply paths_within_spec with (n := List.length ds); [rewrite Hlen; vm_compute; reflexivity | apply all_lists_complete; reflexivity]).
Qed.
