(* Proofs/AttrsWire.v — ParseAttributes / encodeTo / AttributesEncodedLen
   against the TLV wire specification (C01, C09). *)
From Radius Require Import Base.Bytes Base.Guard Base.Res Gen.Consts Model.Attrs
  Spec.C09 Spec.C01 Proofs.Guards.
From Coq Require Import ZifyBool ZifyNat ZifyN.
Open Scope nat_scope.

Definition value_fits (a : avp) : bool := negb (in_range a) || (length (aval a) <=? 253).

Lemma skip_type_enc a : skip_type G_Attributes_encodeTo a = negb (in_range a).
Proof. unfold skip_type, in_range. rewrite g_encodeTo_0, g_encodeTo_1. lia. Qed.
Lemma skip_type_len a : skip_type G_AttributesEncodedLen a = negb (in_range a).
Proof. unfold skip_type, in_range. rewrite g_EncodedLen_0, g_EncodedLen_1. lia. Qed.

Lemma spec_wire_cons_in a l : in_range a = true -> spec_wire (a :: l) = spec_tlv a ++ spec_wire l.
Proof. intros E. unfold spec_wire. cbn [filter]. rewrite E. reflexivity. Qed.
Lemma spec_wire_cons_out a l : in_range a = false -> spec_wire (a :: l) = spec_wire l.
Proof. intros E. unfold spec_wire. cbn [filter]. rewrite E. reflexivity. Qed.
Lemma spec_tlv_length a : length (spec_tlv a) = 2 + length (aval a).
Proof. reflexivity. Qed.

Lemma tlv_is_spec a : in_range a = true -> length (aval a) <= 253 -> tlv a = spec_tlv a.
Proof.
  unfold in_range, tlv, spec_tlv, zbyte, zlen. intros Hr Hl. f_equal; [|f_equal]; lia.
Qed.

(* ---- AttributesEncodedLen ---- *)
Lemma enc_len_acc_spec l : forall n,
  enc_len_acc l n =
  if forallb value_fits l then Ok (n + length (spec_wire l)) else Err E_attr_big.
Proof.
  induction l as [|a l IH]; intros n; cbn [enc_len_acc forallb].
  - unfold spec_wire. cbn. f_equal. lia.
  - rewrite skip_type_len, g_EncodedLen_2. unfold value_fits at 1.
    destruct (in_range a) eqn:Er; cbn [negb orb andb].
    + unfold zlen. destruct (Nat.leb_spec (length (aval a)) 253) as [Hl|Hl].
      * replace (Z.of_nat (length (aval a)) >? 253)%Z with false by lia. cbn [andb].
        rewrite IH. destruct (forallb value_fits l); [|reflexivity].
        rewrite spec_wire_cons_in by exact Er. rewrite app_length, spec_tlv_length. f_equal. lia.
      * replace (Z.of_nat (length (aval a)) >? 253)%Z with true by lia. reflexivity.
    + rewrite IH. rewrite spec_wire_cons_out by exact Er. reflexivity.
Qed.

Lemma enc_len_spec l :
  enc_len l = if forallb value_fits l then Ok (length (spec_wire l)) else Err E_attr_big.
Proof. unfold enc_len. rewrite enc_len_acc_spec. reflexivity. Qed.

Lemma enc_len_ok_length l n : enc_len l = Ok n -> n = length (spec_wire l).
Proof. rewrite enc_len_spec. destruct (forallb value_fits l); intros H; inversion H; reflexivity. Qed.

Lemma enc_len_ok_iff l :
  (exists n, enc_len l = Ok n) <-> forallb value_fits l = true.
Proof.
  rewrite enc_len_spec. destruct (forallb value_fits l); split; intros H; eauto;
    try (destruct H; discriminate); discriminate.
Qed.

(* ---- encodeTo ---- *)
Lemma encode_to_spec l : forall buf,
  forallb value_fits l = true -> length (spec_wire l) <= length buf ->
  encode_to l buf = Ok (spec_wire l ++ skipn (length (spec_wire l)) buf).
Proof.
  induction l as [|a l IH]; intros buf Hf Hb; cbn [encode_to].
  - reflexivity.
  - cbn [forallb] in Hf. apply andb_true_iff in Hf. destruct Hf as [Ha Hf].
    rewrite skip_type_enc, g_encodeTo_2. unfold value_fits in Ha.
    destruct (in_range a) eqn:Er; cbn [negb orb] in *.
    + apply Nat.leb_le in Ha. unfold zlen.
      replace (Z.of_nat (length (aval a)) >? 253)%Z with false by lia.
      rewrite spec_wire_cons_in in * by exact Er. rewrite app_length, spec_tlv_length in *.
      destruct (Nat.ltb_spec (length buf) (2 + length (aval a))) as [Hlt|Hge]; [lia|].
      rewrite IH; [| exact Hf | rewrite skipn_length; lia].
      rewrite tlv_is_spec by (auto; lia). rewrite <- app_assoc. f_equal. f_equal. f_equal.
      rewrite skipn_skipn'. f_equal.
    + rewrite spec_wire_cons_out in * by exact Er. apply IH; assumption.
Qed.

Lemma encode_to_exact l n buf :
  enc_len l = Ok n -> length buf = n -> encode_to l buf = Ok (spec_wire l).
Proof.
  intros He Hb. rewrite enc_len_spec in He. destruct (forallb value_fits l) eqn:Hf; [|discriminate].
  inversion He; subst n. rewrite encode_to_spec by (auto; lia).
  rewrite skipn_all2 by lia. apply f_equal. apply app_nil_r.
Qed.

(* ---- ParseAttributes ---- *)
Lemma parse_attrs_f_unfold f b :
  parse_attrs_f (S f) b =
  match b with
  | [] => Ok []
  | [_] => Err E_attr_short
  | t :: l :: _ =>
    let len := N.to_nat l in
    if (length b <? len) || (len <? 2) || (255 <? len) then Err E_attr_len
    else match parse_attrs_f f (skipn len b) with
         | Ok tl => Ok (mkavp (Z.of_N t) (skipn 2 (firstn len b)) :: tl)
         | r => r
         end
  end.
Proof.
  cbn [parse_attrs_f]. rewrite g_ParseAttributes_0, g_ParseAttributes_1.
  destruct b as [|t [|l r]]; [reflexivity|reflexivity|].
  unfold zlen. cbn [length].
  replace (negb (Z.of_nat (S (S (length r))) >? 0)%Z) with false by lia.
  replace (Z.of_nat (S (S (length r))) <? 2)%Z with false by lia.
  rewrite g_ParseAttributes_2, g_ParseAttributes_3. cbv zeta.
  replace (Z.to_nat (Z.of_N l)) with (N.to_nat l) by lia.
  destruct ((Z.of_N l >? Z.of_nat (S (S (length r))))%Z || (Z.of_N l <? 2)%Z || (Z.of_N l >? 255)%Z) eqn:E1.
  - replace ((S (S (length r)) <? N.to_nat l) || (N.to_nat l <? 2) || (255 <? N.to_nat l)) with true by lia.
    reflexivity.
  - replace ((S (S (length r)) <? N.to_nat l) || (N.to_nat l <? 2) || (255 <? N.to_nat l)) with false by lia.
    replace ((N.to_nat l <? 2) || (S (S (length r)) <? N.to_nat l)) with false by lia.
    reflexivity.
Qed.

Lemma parse_attrs_sound : forall f b l, parse_attrs_f f b = Ok l -> tlvs b l.
Proof.
  induction f as [|f IH]; intros b l H; [discriminate|].
  rewrite parse_attrs_f_unfold in H.
  destruct b as [|t [|n r]]; [inversion H; constructor|discriminate|].
  cbv zeta in H.
  destruct ((length (t :: n :: r) <? N.to_nat n) || (N.to_nat n <? 2) || (255 <? N.to_nat n)) eqn:E;
    [discriminate|].
  cbn [length] in E.
  destruct (parse_attrs_f f (skipn (N.to_nat n) (t :: n :: r))) as [tl| | |] eqn:Ep; try discriminate.
  inversion H; subst l. apply IH in Ep.
  assert (Hn : N.to_nat n = 2 + (N.to_nat n - 2)) by lia.
  set (k := N.to_nat n - 2) in *.
  rewrite Hn in *. cbn [skipn firstn plus] in *.
  assert (Hk : k <= length r) by lia.
  rewrite <- (firstn_skipn k r) at 1.
  replace n with (N.of_nat (length (firstn k r) + 2)) at 1 by (rewrite firstn_length; lia).
  constructor; [rewrite firstn_length; lia | exact Ep].
Qed.

Lemma parse_attrs_complete b l : tlvs b l -> forall f, length b < f -> parse_attrs_f f b = Ok l.
Proof.
  induction 1 as [|t v rest tl Hv Ht IH]; intros f Hf.
  - destruct f; [lia|]. rewrite parse_attrs_f_unfold. reflexivity.
  - destruct f; [lia|]. rewrite parse_attrs_f_unfold. cbv zeta.
    cbn [length] in *. rewrite app_length in *.
    replace (N.to_nat (N.of_nat (length v + 2))) with (2 + length v) by lia.
    replace ((S (S (length v + length rest)) <? 2 + length v) || (2 + length v <? 2) || (255 <? 2 + length v))
      with false by lia.
    cbn [skipn firstn plus].
    rewrite skipn_app_exact, firstn_app_exact.
    rewrite IH by lia. reflexivity.
Qed.

Lemma parse_attrs_total : forall f b, length b < f ->
  (exists l, parse_attrs_f f b = Ok l) \/ (exists e, parse_attrs_f f b = Err e).
Proof.
  induction f as [|f IH]; intros b Hf; [lia|].
  rewrite parse_attrs_f_unfold.
  destruct b as [|t [|n r]]; [left; eauto|right; eauto|]. cbv zeta.
  destruct ((length (t :: n :: r) <? N.to_nat n) || (N.to_nat n <? 2) || (255 <? N.to_nat n)) eqn:E;
    [right; eauto|].
  cbn [length] in *.
  destruct (IH (skipn (N.to_nat n) (t :: n :: r))) as [[l Hl]|[e He]].
  - rewrite skipn_length. cbn [length]. lia.
  - rewrite Hl. left; eauto.
  - rewrite He. right; eauto.
Qed.

Theorem parse_attrs_iff b l : parse_attrs b = Ok l <-> tlvs b l.
Proof.
  unfold parse_attrs. split; [apply parse_attrs_sound|].
  intros H. apply parse_attrs_complete; [exact H|lia].
Qed.

Theorem parse_attrs_no_panic b : parse_attrs b <> Panic /\ parse_attrs b <> OutOfFuel.
Proof.
  unfold parse_attrs. destruct (parse_attrs_total (S (length b)) b) as [[l H]|[e H]]; [lia| |];
    rewrite H; split; discriminate.
Qed.

(* what a parsed list looks like, and that it re-encodes to the input *)
Lemma tlvs_wire b l : bytes_ok b -> tlvs b l ->
  spec_wire l = b /\ forallb value_fits l = true /\ forallb in_range l = true.
Proof.
  intros Hb Ht. induction Ht as [|t v rest tl Hv Ht IH].
  - repeat split.
  - inversion Hb as [|? ? Hbt Hb1]; subst. inversion Hb1 as [|? ? _ Hb2]; subst.
    apply bytes_ok_app in Hb2. destruct Hb2 as [_ Hrest].
    destruct (IH Hrest) as [Hw [Hf Hr]].
    assert (Hir : in_range (mkavp (Z.of_N t) v) = true).
    { unfold in_range; cbn [atype]. unfold byte_ok in Hbt. lia. }
    repeat split.
    + rewrite spec_wire_cons_in by exact Hir. rewrite Hw. unfold spec_tlv. cbn [atype aval].
      rewrite N2Z.id. reflexivity.
    + cbn [forallb]. rewrite Hf. unfold value_fits. cbn [aval]. rewrite Hir.
      cbn [negb orb]. apply andb_true_iff; split; [apply Nat.leb_le; exact Hv|reflexivity].
    + cbn [forallb]. rewrite Hir, Hr. reflexivity.
Qed.

(* every list whose wire-visible part is the whole list parses back *)
Lemma wire_tlvs l :
  forallb in_range l = true -> forallb value_fits l = true -> tlvs (spec_wire l) l.
Proof.
  induction l as [|a l IH]; intros Hr Hf.
  - constructor.
  - cbn [forallb] in *. apply andb_true_iff in Hr. apply andb_true_iff in Hf.
    destruct Hr as [Ha Hr], Hf as [Hfa Hf].
    rewrite spec_wire_cons_in by exact Ha. unfold spec_tlv. cbn [app].
    unfold value_fits in Hfa. rewrite Ha in Hfa. cbn [negb orb] in Hfa. apply Nat.leb_le in Hfa.
    destruct a as [ty v]. cbn [atype aval] in *.
    replace ty with (Z.of_N (Z.to_N ty)) at 2 by (unfold in_range in Ha; cbn [atype] in Ha; lia).
    constructor; [exact Hfa|apply IH; assumption].
Qed.

Lemma spec_wire_filter l : spec_wire (filter in_range l) = spec_wire l.
Proof.
  unfold spec_wire. f_equal. induction l as [|a l IH]; cbn [filter]; [reflexivity|].
  destruct (in_range a) eqn:E; cbn [filter]; rewrite ?E, IH; reflexivity.
Qed.

Lemma forallb_filter_in_range l : forallb in_range (filter in_range l) = true.
Proof.
  induction l as [|a l IH]; cbn [filter forallb]; [reflexivity|].
  destruct (in_range a) eqn:E; cbn [forallb]; rewrite ?E, ?IH; reflexivity.
Qed.

Lemma forallb_value_fits_filter l : forallb value_fits l = true -> forallb value_fits (filter in_range l) = true.
Proof.
  induction l as [|a l IH]; cbn [filter forallb]; [reflexivity|].
  intros H. apply andb_true_iff in H. destruct H as [Ha H].
  destruct (in_range a); cbn [forallb]; rewrite ?Ha, IH; auto.
Qed.

Lemma spec_wire_ok l : Forall (fun a => bytes_ok (aval a)) l -> forallb value_fits l = true -> bytes_ok (spec_wire l).
Proof.
  induction l as [|a l IH]; intros Hb Hf; [constructor|].
  inversion Hb as [|? ? Hba Hbl]; subst. cbn [forallb] in Hf. apply andb_true_iff in Hf. destruct Hf as [Hfa Hf].
  destruct (in_range a) eqn:Er.
  - rewrite spec_wire_cons_in by exact Er. apply bytes_ok_app. split; [|apply IH; assumption].
    unfold spec_tlv. unfold value_fits in Hfa. rewrite Er in Hfa. cbn [negb orb] in Hfa.
    apply Nat.leb_le in Hfa. unfold in_range in Er.
    constructor; [unfold byte_ok; lia|]. constructor; [unfold byte_ok; lia|exact Hba].
  - rewrite spec_wire_cons_out by exact Er. apply IH; assumption.
Qed.
