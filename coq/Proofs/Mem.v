(* Proofs/Mem.v — reading never writes, results do not alias (C13), on the memory model. *)
From Radius Require Import Base.Bytes Base.Guard Base.Res Gen.Consts Model.Attrs Model.Packet
  Model.Codecs Model.Passwords Model.Vendor Model.Helpers Model.Mem Proofs.Vendor.
From Coq Require Import ZifyBool ZifyNat ZifyN.
Open Scope nat_scope.

Definition in_heap (h : heap) (s : slice) : Prop := s_addr s < length h.
Definition fresh (h : heap) (s : slice) : Prop := length h <= s_addr s.
Definition wf_mp (h : heap) (m : mpacket) : Prop :=
  in_heap h (mp_secret m) /\ Forall (fun a => in_heap h (snd a)) (mp_attrs m).

(* ---- frame lemmas ---- *)
Lemma cell_ext h e a : a < length h -> cell (h ++ e) a = cell h a.
Proof. intros H. unfold cell. apply app_nth1, H. Qed.
Lemma rd_ext h e s : in_heap h s -> rd (h ++ e) s = rd h s.
Proof. intros H. unfold rd. rewrite cell_ext by exact H. reflexivity. Qed.
Lemma view_ext h e m : wf_mp h m -> pview (h ++ e) m = pview h m.
Proof.
  intros [Hs Ha]. unfold pview. rewrite rd_ext by exact Hs. f_equal.
  induction Ha as [|a l Hin _ IH]; [reflexivity|]. cbn [map]. rewrite rd_ext by exact Hin. rewrite IH. reflexivity.
Qed.
Lemma wf_mp_ext h e m : wf_mp h m -> wf_mp (h ++ e) m.
Proof.
  unfold wf_mp, in_heap. rewrite app_length. intros [Hs Ha]. split; [lia|].
  eapply Forall_impl; [|exact Ha]. cbv beta. intros a Hin. lia.
Qed.

Lemma alloc_spec h b : fst (alloc h b) = h ++ [b] /\ fresh h (snd (alloc h b)) /\ rd (fst (alloc h b)) (snd (alloc h b)) = b.
Proof.
  unfold alloc, fresh, rd, cell. cbn [fst snd s_addr s_off s_len]. split; [reflexivity|]. split; [lia|].
  rewrite app_nth2 by lia. rewrite Nat.sub_diag. cbn [nth skipn]. apply firstn_all.
Qed.

(* writing through a slice of a fresh cell leaves every older cell alone *)
Lemma set_nth_app_r {A} (l e : list A) n x : length l <= n -> set_nth n x (l ++ e) = l ++ set_nth (n - length l) x e.
Proof.
  revert n. induction l as [|y l IH]; intros n Hn; cbn [app length] in *.
  - rewrite Nat.sub_0_r. reflexivity.
  - destruct n as [|n]; [lia|]. cbn [set_nth]. rewrite IH by lia. reflexivity.
Qed.
Lemma set_nth_length {A} (l : list A) : forall n x, length (set_nth n x l) = length l.
Proof. induction l as [|y l IH]; intros n x; [destruct n; reflexivity|]. destruct n; cbn [set_nth length]; [reflexivity|]. rewrite IH. reflexivity. Qed.
Lemma wr_fresh h0 e s i v : fresh h0 s -> exists e', wr (h0 ++ e) s i v = h0 ++ e' /\ length e' = length e.
Proof.
  unfold fresh, wr. intros Hf. destruct (i <? s_len s); [|eauto].
  rewrite set_nth_app_r by exact Hf. eexists. split; [reflexivity|]. apply set_nth_length.
Qed.
(* ... so the packet looks the same whatever the caller does to a fresh result *)
Theorem scribble_fresh_preserves h0 e m s i v : wf_mp h0 m -> fresh h0 s ->
  pview (wr (h0 ++ e) s i v) m = pview h0 m.
Proof.
  intros Hw Hf. destruct (wr_fresh h0 e s i v Hf) as (e' & -> & _). apply view_ext, Hw.
Qed.

(* ---- Parse ---- *)
Lemma alloc_all_spec : forall l h, fst (alloc_all h l) = h ++ l /\
  Forall (fresh h) (snd (alloc_all h l)) /\ map (rd (fst (alloc_all h l))) (snd (alloc_all h l)) = l /\
  length (snd (alloc_all h l)) = length l.
Proof.
  induction l as [|b r IH]; intros h; cbn [alloc_all].
  - cbn [fst snd map]. rewrite app_nil_r. repeat split. constructor.
  - destruct (alloc_spec h b) as (Ha & Hf & Hr). destruct (alloc h b) as [h1 s] eqn:E1. cbn [fst snd] in *.
    specialize (IH h1). destruct (alloc_all h1 r) as [h2 ss] eqn:E2. cbn [fst snd] in *.
    destruct IH as (Hh & Hfs & Hm & Hl). subst h1. split; [rewrite Hh, <- app_assoc; reflexivity|].
    split; [|split].
    + constructor; [exact Hf|]. eapply Forall_impl; [|exact Hfs]. unfold fresh. intros x. rewrite app_length. cbn [length]. lia.
    + cbn [map]. rewrite Hm. f_equal. rewrite Hh. rewrite rd_ext; [exact Hr|].
      unfold in_heap, fresh in *. rewrite app_length. cbn [length]. unfold alloc in E1. inversion E1. cbn [s_addr]. lia.
    + cbn [length]. rewrite Hl. reflexivity.
Qed.

Lemma combine_map_pview h (ts : list Z) (ss : list slice) (vs : list bytes) :
  map (rd h) ss = vs -> length ts = length ss ->
  map (fun a => mkavp (fst a) (rd h (snd a))) (combine ts ss) = map (fun tv => mkavp (fst tv) (snd tv)) (combine ts vs).
Proof.
  intros <-. revert ss. induction ts as [|t ts IH]; intros [|s ss] Hl; try discriminate; [reflexivity|].
  cbn [combine map fst snd]. rewrite IH by (cbn [length] in Hl; lia). reflexivity.
Qed.
Lemma combine_types_values (l : attrs) : map (fun tv => mkavp (fst tv) (snd tv)) (combine (map atype l) (map aval l)) = l.
Proof. induction l as [|a l IH]; [reflexivity|]. cbn [map combine fst snd]. rewrite IH. destruct a; reflexivity. Qed.

(* a successful Parse extends the heap, every attribute lives in a cell of its own that did
   not exist before (so none aliases the buffer), and the packet reads as the parsed one *)
Theorem parse_mem h b sec h' m p : in_heap h sec -> parse (rd h b) (rd h sec) = Ok p -> m_parse h b sec = (h', Ok m) ->
  (exists e, h' = h ++ e) /\ Forall (fun a => fresh h (snd a)) (mp_attrs m) /\ pview h' m = p.
Proof.
  intros Hsec Hp. unfold m_parse. rewrite Hp.
  destruct (alloc_all_spec (map aval (pattrs p)) h) as (Hh & Hf & Hm & Hl).
  destruct (alloc_all h (map aval (pattrs p))) as [h2 ss]. cbn [fst snd] in *.
  intros E. inversion E; subst h' m; clear E. split; [eauto|]. split.
  - cbn [mp_attrs]. apply Forall_forall. intros a Hin. rewrite Forall_forall in Hf. apply Hf.
    destruct a as [t sl]. apply in_combine_r in Hin. exact Hin.
  - unfold pview. cbn [mp_code mp_ident mp_auth mp_secret mp_attrs].
    rewrite (combine_map_pview h2 _ ss (map aval (pattrs p)) Hm) by (rewrite Hl, !map_length; reflexivity).
    rewrite combine_types_values, Hh, rd_ext by exact Hsec.
    assert (Es : secret p = rd h sec).
    { clear -Hp. unfold parse in Hp. repeat match type of Hp with
        | (if ?c then _ else _) = _ => destruct c; try discriminate
        | match ?x with _ => _ end = _ => destruct x; try discriminate
        | (let '(_, _) := ?x in _) = _ => destruct x
        end. apply Ok_inj in Hp. subst p. reflexivity. }
    rewrite <- Es. destruct p; reflexivity.
Qed.

(* overwriting the buffer afterwards does not reach the packet *)
Lemma cell_set_nth_other (h : heap) a a' c : a <> a' -> cell (set_nth a' c h) a = cell h a.
Proof.
  unfold cell. revert a a'. induction h as [|y h IH]; intros a a' Hne; [destruct a'; reflexivity|].
  destruct a' as [|a']; destruct a as [|a]; cbn [set_nth nth]; try reflexivity; try lia. apply IH. lia.
Qed.
Lemma rd_wr_other h s t i v : s_addr s <> s_addr t -> rd (wr h t i v) s = rd h s.
Proof. intros Hne. unfold rd, wr. destruct (i <? s_len t); [|reflexivity]. rewrite cell_set_nth_other by exact Hne. reflexivity. Qed.
Theorem parse_no_alias h b sec h' m p i v : in_heap h sec -> in_heap h b -> s_addr sec <> s_addr b ->
  parse (rd h b) (rd h sec) = Ok p -> m_parse h b sec = (h', Ok m) -> pview (wr h' b i v) m = p.
Proof.
  intros Hsec Hb Hne Hp Hm. destruct (parse_mem h b sec h' m p Hsec Hp Hm) as ((e & ->) & Hf & <-).
  unfold pview. rewrite rd_wr_other by (unfold m_parse in Hm; rewrite Hp in Hm; destruct (alloc_all h _); inversion Hm; exact Hne).
  f_equal. apply map_ext_in. intros a Hin. rewrite Forall_forall in Hf. specialize (Hf a Hin).
  rewrite rd_wr_other; [reflexivity|]. unfold fresh, in_heap in *. lia.
Qed.

(* ---- MarshalBinary, copying decoders: a fresh result, nothing else changes ---- *)
Theorem marshal_mem h m h' r : wf_mp h m -> m_marshal h m = (h', r) ->
  (exists e, h' = h ++ e) /\ pview h' m = pview h m /\
  match r with Ok s => marshal (pview h m) = Ok (rd h' s) /\ fresh h s | _ => h' = h end.
Proof.
  intros Hw. unfold m_marshal. destruct (marshal (pview h m)) as [w|e| |] eqn:Em.
  - destruct (alloc_spec h w) as (Ha & Hf & Hr). destruct (alloc h w) as [h1 s]. cbn [fst snd] in *.
    intros E. inversion E; subst h' r. subst h1. split; [eauto|]. split; [apply view_ext, Hw|]. rewrite Hr. auto.
  - intros E. inversion E; subst. split; [exists []; rewrite app_nil_r; reflexivity|]. auto.
  - intros E. inversion E; subst. split; [exists []; rewrite app_nil_r; reflexivity|]. auto.
  - intros E. inversion E; subst. split; [exists []; rewrite app_nil_r; reflexivity|]. auto.
Qed.

Theorem copy_decoder_mem f h m s h' r : wf_mp h m -> m_copy_decoder f h s = (h', r) ->
  (exists e, h' = h ++ e) /\ pview h' m = pview h m /\
  match r with Ok s' => f (rd h s) = Ok (rd h' s') /\ fresh h s' | _ => h' = h end.
Proof.
  intros Hw. unfold m_copy_decoder. destruct (f (rd h s)) as [w|e| |] eqn:Em.
  - destruct (alloc_spec h w) as (Ha & Hf & Hr). destruct (alloc h w) as [h1 s1]. cbn [fst snd] in *.
    intros E. inversion E; subst h' r. subst h1. split; [eauto|]. split; [apply view_ext, Hw|]. rewrite Hr. auto.
  - intros E. inversion E; subst. split; [exists []; rewrite app_nil_r; reflexivity|]. auto.
  - intros E. inversion E; subst. split; [exists []; rewrite app_nil_r; reflexivity|]. auto.
  - intros E. inversion E; subst. split; [exists []; rewrite app_nil_r; reflexivity|]. auto.
Qed.

(* ---- the slices a getter looks at hold exactly the values of the pure model ---- *)
Lemma skipn_skipn' {A} (l : list A) : forall a b, skipn a (skipn b l) = skipn (a + b) l.
Proof.
  induction l as [|x l IH]; intros a b; [rewrite !skipn_nil; reflexivity|].
  destruct b as [|b]; [rewrite Nat.add_0_r; reflexivity|].
  rewrite Nat.add_succ_r. cbn [skipn]. apply IH.
Qed.

Lemma skipn_firstn' {A} : forall off n (c : list A), skipn off (firstn n c) = firstn (n - off) (skipn off c).
Proof.
  induction off as [|off IH]; intros n c; [rewrite Nat.sub_0_r; reflexivity|].
  destruct c as [|x c]; [rewrite firstn_nil; cbn [skipn]; rewrite firstn_nil; reflexivity|].
  destruct n as [|n]; [reflexivity|]. cbn [firstn skipn Nat.sub]. apply IH.
Qed.

Lemma raw_plain h k (l : list (Z * slice)) :
  map (rd h) (map snd (filter (fun a => (fst a =? k)%Z) l)) =
  map aval (filter (fun a => (atype a =? k)%Z) (map (fun a => mkavp (fst a) (rd h (snd a))) l)).
Proof.
  induction l as [|a l IH]; [reflexivity|]. cbn [map filter atype fst].
  destruct (fst a =? k)%Z; cbn [map snd aval]; rewrite IH; reflexivity.
Qed.

Lemma sub_slices_rd h typ base : forall subs off rest,
  Forall wf_sub subs -> skipn off (rd h base) = flat_map snd subs ++ rest ->
  map (rd h) (sub_slices typ base off subs) = values_of typ subs.
Proof.
  induction subs as [|[t tlv] subs IH]; intros off rest Hw Hs; [reflexivity|].
  inversion Hw as [|? ? Hwf Hw']; subst. cbn [flat_map snd] in Hs. rewrite <- app_assoc in Hs.
  assert (Hl : 3 <= length tlv).
  { unfold wf_sub in Hwf. cbn [snd] in Hwf. destruct tlv as [|? [|? [|? ?]]]; try contradiction. cbn [length]. lia. }
  cbn [sub_slices]. unfold values_of. cbn [filter fst].
  assert (Htail : map (rd h) (sub_slices typ base (off + length tlv) subs) = values_of typ subs).
  { apply (IH _ rest Hw'). rewrite Nat.add_comm, <- skipn_skipn', Hs. apply skipn_len_app. }
  destruct (t =? typ)%N; [|cbn [app]; exact Htail].
  cbn [app map snd]. fold (values_of typ subs). rewrite Htail. f_equal.
  (* the value part of this sub-attribute *)
  unfold rd at 1. cbn [s_addr s_off s_len].
  set (c := skipn (s_off base) (cell h (s_addr base))) in *.
  assert (Hc : exists more, skipn off c = (tlv ++ flat_map snd subs ++ rest) ++ more).
  { unfold rd in Hs. fold c in Hs. rewrite <- Hs.
    exists (skipn (s_len base - off) (skipn off c)).
    rewrite <- (firstn_skipn (s_len base - off) (skipn off c)) at 1. f_equal.
    symmetry. apply skipn_firstn'. }
  destruct Hc as [more Hc].
  replace (s_off base + off + 2) with (2 + off + s_off base) by lia.
  rewrite <- !skipn_skipn'. fold c. rewrite Hc, <- !app_assoc.
  destruct tlv as [|b0 [|b1 body]]; try (cbn [length] in Hl; lia).
  cbn [skipn app length]. replace (S (S (length body)) - 2) with (length body) by lia.
  apply firstn_len_app.
Qed.

Theorem raw_refines d h m : map (rd h) (m_raw d h m) = h_raw d (pview h m).
Proof.
  unfold m_raw, h_raw, pview. cbn [pattrs]. destruct (h_vendor d) as [vid|]; [|apply raw_plain].
  unfold gets_vendor. induction (mp_attrs m) as [|a l IH]; [reflexivity|].
  cbn [flat_map map]. rewrite map_app, IH. f_equal. cbn [fst snd].
  destruct (vsa_payload vid (mkavp (fst a) (rd h (snd a)))) as [payload|] eqn:Ep; [|reflexivity].
  destruct (subattrs_spec payload) as (Hw & _ & Hv).
  apply (sub_slices_rd h _ (snd a) _ 4 (snd (subattrs payload)) Hw).
  apply vsa_payload_some in Ep. destruct Ep as (_ & _ & _ & Hp). cbn [aval] in Hp. rewrite <- Hp. exact Hv.
Qed.

(* ---- generated getters (the repaired code: legacy = false) ---- *)
Lemma gv_eta g : mkgv (g_b g) (g_u g) (g_mask g) = g. Proof. destruct g; reflexivity. Qed.

Lemma give_spec h x : fst (give h x) = h ++ [g_b (snd x); g_mask (snd x)] /\
  fresh h (v_b (snd (give h x))) /\ fresh h (v_mask (snd (give h x))) /\
  val_view (fst (give h x)) (snd (give h x)) = x /\
  in_heap (fst (give h x)) (v_b (snd (give h x))) /\ in_heap (fst (give h x)) (v_mask (snd (give h x))).
Proof.
  unfold give, alloc. cbn [fst snd]. unfold fresh, in_heap, val_view, rd, cell.
  cbn [v_tag v_b v_u v_mask s_addr s_off s_len fst snd]. rewrite <- app_assoc. cbn [app].
  split; [reflexivity|]. rewrite !app_length. cbn [length]. split; [lia|]. split; [lia|]. split; [|lia].
  rewrite (app_nth2 h) by lia. rewrite Nat.sub_diag. cbn [nth].
  rewrite (app_nth2 h) by lia. replace (length h + 1 - length h) with 1 by lia. cbn [nth skipn].
  rewrite !firstn_all, gv_eta. destruct x; reflexivity.
Qed.

Lemma sub_slices_addr typ base : forall subs off s, In s (sub_slices typ base off subs) -> s_addr s = s_addr base.
Proof.
  induction subs as [|[t tlv] subs IH]; intros off s Hin; [destruct Hin|].
  cbn [sub_slices] in Hin. apply in_app_or in Hin. destruct Hin as [Hin|Hin]; [|eapply IH; exact Hin].
  destruct (t =? typ)%N; [|destruct Hin]. destruct Hin as [<-|[]]. reflexivity.
Qed.
Lemma raw_in_heap d h m : wf_mp h m -> Forall (in_heap h) (m_raw d h m).
Proof.
  intros [_ Ha]. unfold m_raw. rewrite Forall_forall in Ha. apply Forall_forall. intros s Hin.
  destruct (h_vendor d) as [vid|].
  - apply in_flat_map in Hin. destruct Hin as (a & Ha' & Hin).
    destruct (vsa_payload vid _); [|destruct Hin]. apply sub_slices_addr in Hin. unfold in_heap. rewrite Hin. apply (Ha a Ha').
  - apply in_map_iff in Hin. destruct Hin as (a & <- & Hin). apply filter_In in Hin. apply Ha, Hin.
Qed.

Section Getters.
Variable Hs : bytes -> bytes.

Lemma clear_tag_off d h s : clear_tag false d h s = h.
Proof. reflexivity. Qed.

Definition agrees {A B} (f : A -> B) (r : res A) (r' : res B) : Prop :=
  match r, r' with
  | Ok a, Ok b => f a = b
  | Err e, Err e' => e = e'
  | Panic, Panic => True
  | OutOfFuel, OutOfFuel => True
  | _, _ => False
  end.

(* Lookup: the heap only grows, the packet reads the same, the result is the pure model's,
   and its byte fields live in cells that did not exist before *)
Theorem lookup_mem d h m q h' r : wf_mp h m -> m_lookup Hs false d h m q = (h', r) ->
  (exists e, h' = h ++ e) /\ pview h' m = pview h m /\
  agrees (val_view h') r (h_lookup Hs d (pview h m) q) /\
  match r with Ok v => fresh h (v_b v) /\ fresh h (v_mask v) | _ => h' = h end.
Proof.
  intros Hw. unfold m_lookup, h_lookup. rewrite <- (raw_refines d h m).
  destruct (m_raw d h m) as [|s l] eqn:Er.
  - intros E. inversion E; subst. split; [exists []; rewrite app_nil_r; reflexivity|].
    cbn [map]. destruct (h_kind d); cbn [agrees]; auto.
  - assert (Hgive : forall x hh rr, (let '(h1, v) := give h x in (h1, Ok v)) = (hh, rr) ->
               (exists e, hh = h ++ e) /\ pview hh m = pview h m /\ agrees (val_view hh) rr (Ok x) /\
               match rr with Ok v => fresh h (v_b v) /\ fresh h (v_mask v) | _ => hh = h end).
    { intros x hh rr. destruct (give_spec h x) as (Hh & Hf1 & Hf2 & Hv & _). destruct (give h x) as [h1 v]. cbn [fst snd] in *.
      intros E. inversion E; subst hh rr. subst h1. split; [eauto|]. split; [apply view_ext, Hw|]. cbn [agrees]. auto. }
    cbn [map]. rewrite clear_tag_off.
    destruct (h_kind d) eqn:Ek;
      try (destruct (h_decode Hs d (pview h m) q (rd h s)) as [x|e| |];
           [apply Hgive | | |];
           intros E; inversion E; subst; (split; [exists []; rewrite app_nil_r; reflexivity|]); cbn [agrees]; auto).
    (* concat *)
    cbv iota. apply Hgive.
Qed.

Lemma gets_loop_mem d m q : forall l h h' r, wf_mp h m -> Forall (in_heap h) l ->
  m_gets_loop Hs false d h m q l = (h', r) ->
  (exists e, h' = h ++ e) /\
  agrees (map (val_view h')) r (decode_all Hs d (pview h m) q (map (rd h) l)) /\
  match r with Ok vs => Forall (fun v => fresh h (v_b v) /\ fresh h (v_mask v) /\ in_heap h' (v_b v) /\ in_heap h' (v_mask v)) vs | _ => True end.
Proof.
  induction l as [|s l IH]; intros h h' r Hw Hl.
  - cbn [m_gets_loop map decode_all]. intros E. inversion E; subst. split; [exists []; rewrite app_nil_r; reflexivity|].
    cbn [agrees map]. auto.
  - inversion Hl as [|? ? Hs0 Hl']; subst. cbn [m_gets_loop map decode_all]. rewrite clear_tag_off.
    destruct (h_decode Hs d (pview h m) q (rd h s)) as [x|e| |] eqn:Ed; cbn [bind];
      try (intros E; inversion E; subst; split; [exists []; rewrite app_nil_r; reflexivity|]; cbn [agrees]; auto; fail).
    destruct (give_spec h x) as (Hh & Hf1 & Hf2 & Hv & Hi1 & Hi2). destruct (give h x) as [h2 v]. cbn [fst snd] in *.
    assert (Hw2 : wf_mp h2 m) by (subst h2; apply wf_mp_ext, Hw).
    assert (Hl2 : Forall (in_heap h2) l).
    { subst h2. eapply Forall_impl; [|exact Hl']. unfold in_heap. intros a. rewrite app_length. lia. }
    destruct (m_gets_loop Hs false d h2 m q l) as [h3 r3] eqn:E3.
    destruct (IH h2 h3 r3 Hw2 Hl2 E3) as ((e3 & He3) & Hag & Hfr).
    assert (Hsame : decode_all Hs d (pview h2 m) q (map (rd h2) l) = decode_all Hs d (pview h m) q (map (rd h) l)).
    { subst h2. rewrite (view_ext h _ m Hw). f_equal. apply map_ext_in. intros a Ha.
      rewrite Forall_forall in Hl'. apply rd_ext, Hl', Ha. }
    rewrite Hsame in Hag.
    assert (Hext : exists e, h3 = h ++ e) by (subst h3 h2; rewrite <- app_assoc; eauto).
    assert (Hvv : val_view h3 v = x).
    { subst h3. unfold val_view. rewrite !rd_ext by assumption. exact Hv. }
    destruct r3 as [vs|e| |]; intros E; inversion E; subst h' r; (split; [exact Hext|]);
      destruct (decode_all Hs d (pview h m) q (map (rd h) l)) as [ys|e'| |]; cbn [agrees bind] in *; try contradiction; auto.
    split.
    + cbn [map]. rewrite Hvv, Hag. reflexivity.
    + constructor.
      * unfold in_heap in *. subst h3. rewrite app_length. repeat split; try assumption; lia.
      * eapply Forall_impl; [|exact Hfr]. cbv beta. unfold fresh. subst h2. rewrite app_length.
        intros a (F1 & F2 & I1 & I2). repeat split; try assumption; lia.
Qed.

Theorem gets_mem d h m q h' r : wf_mp h m -> m_gets Hs false d h m q = (h', r) ->
  (exists e, h' = h ++ e) /\ pview h' m = pview h m /\
  agrees (map (val_view h')) r (h_gets Hs d (pview h m) q) /\
  match r with Ok vs => Forall (fun v => fresh h (v_b v) /\ fresh h (v_mask v)) vs | _ => True end.
Proof.
  intros Hw E. unfold m_gets in E.
  destruct (gets_loop_mem d m q _ h h' r Hw (raw_in_heap d h m Hw) E) as ((e & ->) & Hag & Hf).
  split; [eauto|]. split; [apply view_ext, Hw|]. unfold h_gets. rewrite <- (raw_refines d h m). split; [exact Hag|].
  destruct r; auto. eapply Forall_impl; [|exact Hf]. cbv beta. tauto.
Qed.

(* repeating a read returns the same result *)
Theorem lookup_repeatable d h m q h1 r1 h2 r2 : wf_mp h m ->
  m_lookup Hs false d h m q = (h1, r1) -> m_lookup Hs false d h1 m q = (h2, r2) ->
  forall x, agrees (val_view h1) r1 x -> agrees (val_view h2) r2 x.
Proof.
  intros Hw E1 E2 x Hx.
  destruct (lookup_mem d h m q h1 r1 Hw E1) as ((e & ->) & Hv1 & Ha1 & _).
  destruct (lookup_mem d _ m q h2 r2 (wf_mp_ext h e m Hw) E2) as (_ & _ & Ha2 & _).
  rewrite Hv1 in Ha2.
  destruct (h_lookup Hs d (pview h m) q), r1, r2, x; cbn [agrees] in *; try contradiction; congruence.
Qed.
End Getters.

(* ---- the original tagged-integer getter wrote through the packet's slice ---- *)
Definition ex_heap : heap := [[115]%N; [5; 0; 0; 9]%N].
Definition ex_mp : mpacket := mkmp 2 1 (repeat 0%N 16) (mkslice 0 0 1) [(64%Z, mkslice 1 0 4)].
Definition ex_d : hdesc := mkhdesc 64 (KInt 4) true 0 None None.    (* Tunnel-Type *)
Definition ex_q : packet := mkpacket 1 1 (repeat 0%N 16) [115]%N [].
Definition idH (b : bytes) : bytes := repeat 0%N 16.

Theorem legacy_getter_writes :
  let '(h1, r1) := m_lookup idH true ex_d ex_heap ex_mp ex_q in
  let '(h2, r2) := m_lookup idH true ex_d h1 ex_mp ex_q in
  pview h1 ex_mp <> pview ex_heap ex_mp /\
  (exists v1 v2, r1 = Ok v1 /\ r2 = Ok v2 /\ v_tag v1 = 5%N /\ v_tag v2 = 0%N).
Proof. vm_compute. split; [discriminate|]. eexists; eexists. repeat split. Qed.

Example repaired_getter_example :
  let '(h1, r1) := m_lookup idH false ex_d ex_heap ex_mp ex_q in
  wf_mp ex_heap ex_mp /\ pview h1 ex_mp = pview ex_heap ex_mp /\ exists v1, r1 = Ok v1 /\ v_tag v1 = 5%N /\ v_u v1 = 9%Z.
Proof. vm_compute. split; [split; [lia|repeat constructor; lia]|]. split; [reflexivity|]. eexists. repeat split. Qed.
