(* Proofs/ShutdownInvH2.v — one slice of the preservation proof of the Serve/Shutdown invariant (split for parallel compilation). *)
From Radius Require Import Base.Bytes Base.Res Model.Shutdown Proofs.ShutdownInv.
From Coq Require Import ZifyBool ZifyNat ZifyN.
Open Scope nat_scope.
Section Step.
Variable s : state.
Hypothesis Ia : active s = (Z.of_nat (cnt holds (threads s)) - (if sdec s then 1 else 0))%Z.
Hypothesis Ic : closes s = if sdec s && (cnt holds (threads s) =? 0) then 1 else 0.
Hypothesis Im : cnt in_cs (threads s) = if mu s then 1 else 0.
Hypothesis Ir : shut s = true -> cnt at_reg (threads s) = 0.
Hypothesis Il : cnt closing (threads s) = if shut s && negb (sdec s) then 1 else 0.
Hypothesis Isd : sdec s = true -> shut s = true.
Hypothesis Inl : 0 < cnt at_nil (threads s) -> closes s = 1.
Hypothesis Icl : shut s = true -> cnt at_hclose (threads s) = 0 -> incl (regs s) (closedc s).
Hypothesis Icn : shut s = true -> cnt pre_cancel (threads s) = 0 -> cancelled s = true.
Ltac fin := finish s Ir Isd Inl Icl Icn.
Lemma shut_b i e s' pc : (pc = H_dec \/ pc = H_unlock \/ pc = H_wait) -> nth_error (threads s) i = Some (TShut pc e) -> step_shut s i pc e ARun = Some s' -> Inv s'.
Proof.
  intros Hpc Hn Hs. destruct Hpc as [-> | [-> | ->]]; cbn [step_shut] in Hs.
  - pose proof (cnt_ge1 closing _ _ _ Hn eq_refl) as Hl1.
    assert (Esh : shut s = true) by (destruct (shut s); [reflexivity|cbn in Il; lia]).
    assert (Esd : sdec s = false) by (destruct (sdec s); [rewrite Esh in Il; cbn in Il; lia|reflexivity]).
    inversion Hs; subst s'; clear Hs.
    counts Hn (TShut H_unlock e). fin.
  - destruct (in_cs_unique' s i _ Im Hn eq_refl) as [Em Hc1]. inversion Hs; subst s'; clear Hs.
    counts Hn (TShut H_wait e). fin.
  - inversion Hs; subst s'; clear Hs. counts Hn (TShut H_select e). fin.
Qed.
End Step.
