(* Proofs/UserPassword.v — the Go loops of NewUserPassword / UserPassword
   compute RFC 2865 s5.2, for every hash with 16-byte output (C04). *)
From Radius Require Import Base.Bytes Base.Guard Base.Res Gen.Consts Model.Attrs Model.Passwords
  Spec.C04 Proofs.Guards.
From Coq Require Import ZifyBool ZifyNat ZifyN.
Open Scope nat_scope.

(* ---- xor facts ---- *)
Lemma xor_pad_firstn a b k : length a <= k -> xor_pad a (firstn k b) = xor_pad a b.
Proof.
  revert b k; induction a as [|x a IH]; intros b k Hk; [reflexivity|].
  destruct k as [|k]; [cbn [length] in Hk; lia|].
  destruct b as [|y b]; [reflexivity|]. cbn [firstn xor_pad]. f_equal. apply IH. cbn [length] in Hk. lia.
Qed.

Lemma xor_pad_twice a b : xor_pad a (xor_pad a b) = pad_to (length a) (firstn (length a) b).
Proof.
  revert b; induction a as [|x a IH]; intros b; [reflexivity|].
  destruct b as [|y b].
  - cbn [xor_pad firstn length]. unfold pad_to. cbn [length app Nat.sub repeat].
    rewrite N.lxor_nilpotent. f_equal. specialize (IH []). rewrite xor_pad_nil_r in IH.
    rewrite IH. unfold pad_to. destruct (length a); reflexivity.
  - cbn [xor_pad firstn length]. rewrite lxor_cancel_l. unfold pad_to in *. cbn [length app Nat.sub].
    f_equal. apply IH.
Qed.

Lemma xor_pad_comm a b : length a = length b -> xor_pad a b = xor_pad b a.
Proof.
  revert b; induction a as [|x a IH]; intros [|y b] Hl; try discriminate; [reflexivity|].
  cbn [xor_pad]. rewrite N.lxor_comm. f_equal. apply IH. cbn [length] in Hl. lia.
Qed.

Lemma slice_ok a lo hi : lo <= hi -> hi <= length a -> slice a lo hi = Ok (firstn (hi - lo) (skipn lo a)).
Proof.
  intros H1 H2. unfold slice.
  replace ((hi <? lo) || (length a <? hi)) with false by lia. reflexivity.
Qed.

Section S.
Variable H : bytes -> bytes.
Hypothesis H_len : forall x, length (H x) = 16.

Lemma rfc_up_enc_length n S prev p : length (rfc_up_enc H n S prev p) = 16 * n.
Proof.
  revert prev p; induction n as [|n IH]; intros prev p; [reflexivity|].
  cbn [rfc_up_enc]. rewrite app_length, xor_pad_length, H_len, IH. lia.
Qed.

Lemma rfc_up_dec_length n S prev c : length (rfc_up_dec H n S prev c) = 16 * n.
Proof.
  revert prev c; induction n as [|n IH]; intros prev c; [reflexivity|].
  cbn [rfc_up_dec]. rewrite app_length, xor_pad_length, H_len, IH. lia.
Qed.

(* ---- NewUserPassword ---- *)
Lemma nup_loop_spec sec pt : forall fuel enc i,
  length enc = i -> 16 <= i -> length pt - i < fuel ->
  nup_loop H fuel sec pt enc i =
  Ok (enc ++ rfc_up_enc H ((length pt - i + 15) / 16) sec (skipn (i - 16) enc) (skipn i pt)).
Proof.
  induction fuel as [|f IH]; intros enc i Hl Hi Hf; [lia|].
  cbn [nup_loop]. destruct (Nat.ltb_spec i (length pt)) as [Hlt|Hge].
  - rewrite slice_ok by lia. replace (i - (i - 16)) with 16 by lia.
    assert (Hprev : firstn 16 (skipn (i - 16) enc) = skipn (i - 16) enc).
    { apply firstn_all2. rewrite skipn_length. lia. }
    rewrite Hprev. set (prev := skipn (i - 16) enc).
    set (c := xor_pad (H (sec ++ prev)) (skipn i pt)).
    assert (Hx : xor_at (enc ++ H (sec ++ prev)) i pt = enc ++ c).
    { unfold xor_at, c, prev. rewrite <- Hl. rewrite firstn_app_exact, skipn_app_exact. reflexivity. }
    rewrite Hx. rewrite IH.
    + replace ((length pt - i + 15) / 16) with (S ((length pt - (i + 16) + 15) / 16)) by lia.
      cbn [rfc_up_enc]. rewrite xor_pad_firstn by (rewrite H_len; lia). fold c.
      rewrite skipn_skipn'.
      replace (skipn (i + 16 - 16) (enc ++ c)) with c.
      * rewrite <- app_assoc. reflexivity.
      * replace (i + 16 - 16) with (length enc) by lia. rewrite skipn_app_exact. reflexivity.
    + rewrite app_length. unfold c. rewrite xor_pad_length, H_len. lia.
    + lia.
    + lia.
  - replace ((length pt - i + 15) / 16) with 0 by lia. cbn [rfc_up_enc]. rewrite app_nil_r. reflexivity.
Qed.

Theorem new_user_password_is_rfc pt sec ra :
  length pt <= 128 -> sec <> [] -> length ra = 16 ->
  new_user_password H pt sec ra = Ok (rfc_up_encrypt H sec ra pt).
Proof.
  intros Hp Hs Hr. unfold new_user_password.
  rewrite g_NewUserPassword_0, g_NewUserPassword_1, g_NewUserPassword_2. unfold zlen.
  replace (Z.of_nat (length pt) >? 128)%Z with false by lia.
  replace (Z.of_nat (length sec) =? 0)%Z with false by (destruct sec; [congruence|cbn [length]; lia]).
  replace (negb (Z.of_nat (length ra) =? 16)%Z) with false by lia.
  unfold xor_at. cbn [firstn skipn app].
  rewrite nup_loop_spec; [| rewrite xor_pad_length, H_len; reflexivity | lia | lia ].
  unfold rfc_up_encrypt, up_blocks.
  replace (Nat.max 1 ((length pt + 15) / 16)) with (S ((length pt - 16 + 15) / 16)) by lia.
  cbn [rfc_up_enc]. rewrite xor_pad_firstn by (rewrite H_len; lia).
  replace (16 - 16) with 0 by lia. cbn [skipn]. reflexivity.
Qed.

Theorem new_user_password_refuses pt sec ra :
  128 < length pt \/ sec = [] \/ length ra <> 16 ->
  exists e, new_user_password H pt sec ra = Err e.
Proof.
  intros Hc. unfold new_user_password.
  rewrite g_NewUserPassword_0, g_NewUserPassword_1, g_NewUserPassword_2. unfold zlen.
  destruct (Z.of_nat (length pt) >? 128)%Z eqn:E1; [eauto|].
  destruct (Z.of_nat (length sec) =? 0)%Z eqn:E2; [eauto|].
  destruct (negb (Z.of_nat (length ra) =? 16)%Z) eqn:E3; [eauto|].
  exfalso. destruct Hc as [Hc|[Hc|Hc]]; [lia|subst sec; cbn [length] in E2; lia|lia].
Qed.

Theorem new_user_password_eq_spec pt sec ra :
  new_user_password H pt sec ra = spec_new_user_password H pt sec ra.
Proof.
  unfold spec_new_user_password.
  destruct ((128 <? length pt) || (length sec =? 0) || negb (length ra =? 16)) eqn:E.
  - unfold new_user_password.
    rewrite g_NewUserPassword_0, g_NewUserPassword_1, g_NewUserPassword_2. unfold zlen.
    destruct (Z.of_nat (length pt) >? 128)%Z eqn:E1; [reflexivity|].
    destruct (Z.of_nat (length sec) =? 0)%Z eqn:E2; [reflexivity|].
    destruct (negb (Z.of_nat (length ra) =? 16)%Z) eqn:E3; [reflexivity|].
    exfalso. lia.
  - apply new_user_password_is_rfc; [lia| |lia]. intros ->. cbn [length] in E. lia.
Qed.

Theorem rfc_up_encrypt_length sec ra pt :
  length (rfc_up_encrypt H sec ra pt) = 16 * Nat.max 1 ((length pt + 15) / 16).
Proof. unfold rfc_up_encrypt, up_blocks. apply rfc_up_enc_length. Qed.

(* ---- UserPassword ---- *)
Lemma up_loop_spec sec a : forall fuel dec i,
  length dec = i -> 16 <= i -> i <= length a -> i mod 16 = 0 -> length a mod 16 = 0 ->
  length a - i < fuel ->
  up_loop H fuel sec a dec i =
  Ok (dec ++ rfc_up_dec H ((length a - i) / 16) sec (firstn 16 (skipn (i - 16) a)) (skipn i a)).
Proof.
  induction fuel as [|f IH]; intros dec i Hl Hi Hia Him Ham Hf; [lia|].
  cbn [up_loop]. destruct (Nat.ltb_spec i (length a)) as [Hlt|Hge].
  - assert (Hi16 : i + 16 <= length a) by lia.
    rewrite !slice_ok by lia. replace (i - (i - 16)) with 16 by lia. replace (i + 16 - i) with 16 by lia.
    set (prev := firstn 16 (skipn (i - 16) a)). set (cur := firstn 16 (skipn i a)).
    rewrite <- Hl at 1 2. rewrite firstn_app_exact, skipn_app_exact.
    rewrite IH.
    + replace ((length a - i) / 16) with (S ((length a - (i + 16)) / 16)) by lia.
      cbn [rfc_up_dec]. fold cur. rewrite skipn_skipn'.
      replace (i + 16 - 16) with i by lia. fold cur.
      rewrite <- app_assoc. reflexivity.
    + rewrite app_length, xor_pad_length, H_len. lia.
    + lia.
    + lia.
    + lia.
    + exact Ham.
    + lia.
  - replace ((length a - i) / 16) with 0 by lia. cbn [rfc_up_dec]. rewrite app_nil_r. reflexivity.
Qed.

Theorem user_password_is_rfc_decrypt a sec ra :
  16 <= length a <= 128 -> length a mod 16 = 0 -> sec <> [] -> length ra = 16 ->
  user_password H a sec ra = Ok (rfc_up_decrypt H sec ra a).
Proof.
  intros Ha Hm Hs Hr. unfold user_password.
  rewrite g_UserPassword_0, g_UserPassword_1, g_UserPassword_2, g_UserPassword_3, g_UserPassword_4. unfold zlen.
  replace ((Z.of_nat (length a) <? 16)%Z || (Z.of_nat (length a) >? 128)%Z
           || negb ((Z.of_nat (length a) mod 16 =? 0)%Z)) with false by lia.
  replace (Z.of_nat (length sec) =? 0)%Z with false by (destruct sec; [congruence|cbn [length]; lia]).
  replace (negb (Z.of_nat (length ra) =? 16)%Z) with false by lia.
  rewrite slice_ok by lia. replace (16 - 0) with 16 by lia. cbn [skipn].
  rewrite up_loop_spec; try lia; [| rewrite xor_pad_length, H_len; reflexivity].
  unfold rfc_up_decrypt.
  replace (length a / 16) with (S ((length a - 16) / 16)) by lia.
  cbn [rfc_up_dec]. replace (16 - 16) with 0 by lia. cbn [skipn]. reflexivity.
Qed.

Theorem user_password_rejects a sec ra :
  length a < 16 \/ 128 < length a \/ length a mod 16 <> 0 \/ sec = [] \/ length ra <> 16 ->
  exists e, user_password H a sec ra = Err e.
Proof.
  intros Hc. unfold user_password.
  rewrite g_UserPassword_0, g_UserPassword_1, g_UserPassword_2, g_UserPassword_3, g_UserPassword_4. unfold zlen.
  destruct ((Z.of_nat (length a) <? 16)%Z || (Z.of_nat (length a) >? 128)%Z
            || negb ((Z.of_nat (length a) mod 16 =? 0)%Z)) eqn:E1; [eauto|].
  destruct (Z.of_nat (length sec) =? 0)%Z eqn:E2; [eauto|].
  destruct (negb (Z.of_nat (length ra) =? 16)%Z) eqn:E3; [eauto|].
  exfalso. destruct Hc as [Hc|[Hc|[Hc|[Hc|Hc]]]]; try lia. subst sec. cbn [length] in E2. lia.
Qed.

Theorem user_password_eq_spec a sec ra :
  user_password H a sec ra = spec_user_password H a sec ra.
Proof.
  unfold spec_user_password.
  destruct ((length a <? 16) || (128 <? length a) || negb (length a mod 16 =? 0)
            || (length sec =? 0) || negb (length ra =? 16)) eqn:E.
  - unfold user_password.
    rewrite g_UserPassword_0, g_UserPassword_1, g_UserPassword_2, g_UserPassword_3, g_UserPassword_4. unfold zlen.
    destruct ((Z.of_nat (length a) <? 16)%Z || (Z.of_nat (length a) >? 128)%Z
              || negb ((Z.of_nat (length a) mod 16 =? 0)%Z)) eqn:E1; [reflexivity|].
    destruct (Z.of_nat (length sec) =? 0)%Z eqn:E2; [reflexivity|].
    destruct (negb (Z.of_nat (length ra) =? 16)%Z) eqn:E3; [reflexivity|].
    exfalso. lia.
  - apply user_password_is_rfc_decrypt; try lia. intros ->. cbn [length] in E. lia.
Qed.

(* ---- round trip ---- *)
Lemma rfc_up_roundtrip_blocks n : forall sec prev p,
  exists k, rfc_up_dec H n sec prev (rfc_up_enc H n sec prev p) = firstn (16 * n) p ++ repeat 0%N k.
Proof.
  induction n as [|n IH]; intros sec prev p.
  - exists 0. reflexivity.
  - cbn [rfc_up_enc rfc_up_dec].
    set (h := H (sec ++ prev)). set (c := xor_pad h (firstn 16 p)).
    assert (Hc : length c = 16) by (unfold c; rewrite xor_pad_length; apply H_len).
    assert (Hf16 : forall r, firstn 16 (c ++ r) = c) by (intros r; rewrite <- Hc; apply firstn_app_exact).
    assert (Hs16 : forall r, skipn 16 (c ++ r) = r) by (intros r; rewrite <- Hc; apply skipn_app_exact).
    rewrite Hf16, Hs16.
    destruct (IH sec c (skipn 16 p)) as [k Hk]. rewrite Hk.
    unfold c at 1. rewrite xor_pad_twice. unfold h at 1 2. rewrite H_len.
    rewrite firstn_firstn. replace (Nat.min 16 16) with 16 by lia.
    unfold pad_to. rewrite firstn_length.
    destruct (Nat.le_gt_cases 16 (length p)) as [Hp|Hp].
    + replace (16 - Nat.min 16 (length p)) with 0 by lia. cbn [repeat]. rewrite app_nil_r.
      exists k. rewrite app_assoc. f_equal.
      replace (16 * S n) with (16 + 16 * n) by lia.
      rewrite <- (firstn_skipn 16 p) at 3. rewrite firstn_app, firstn_firstn, firstn_length.
      replace (Nat.min (16 + 16 * n) 16) with 16 by lia.
      replace (16 + 16 * n - Nat.min 16 (length p)) with (16 * n) by lia. reflexivity.
    + rewrite (skipn_all2 p) by lia. rewrite firstn_nil. cbn [app].
      rewrite !firstn_all2 by lia.
      exists (16 - Nat.min 16 (length p) + k). rewrite <- app_assoc. f_equal.
      rewrite repeat_app. reflexivity.
Qed.

Theorem user_password_roundtrip pt sec ra :
  length pt <= 128 -> sec <> [] -> length ra = 16 ->
  exists c, new_user_password H pt sec ra = Ok c /\
            user_password H c sec ra = Ok (take_until_nul pt).
Proof.
  intros Hp Hs Hr. exists (rfc_up_encrypt H sec ra pt). split; [apply new_user_password_is_rfc; assumption|].
  pose proof (rfc_up_encrypt_length sec ra pt) as Hl.
  rewrite user_password_is_rfc_decrypt; try assumption; try lia.
  unfold rfc_up_decrypt. rewrite Hl.
  replace (16 * Nat.max 1 ((length pt + 15) / 16) / 16) with (Nat.max 1 ((length pt + 15) / 16)) by lia.
  unfold rfc_up_encrypt, up_blocks.
  destruct (rfc_up_roundtrip_blocks (Nat.max 1 ((length pt + 15) / 16)) sec ra pt) as [k Hk].
  rewrite Hk. rewrite take_until_nul_app_zeros. rewrite firstn_all2 by lia. reflexivity.
Qed.
End S.
