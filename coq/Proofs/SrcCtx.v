(* Proofs/SrcCtx.v — the call context of the translated source: library
   functions resolve to [prims], translated functions to their interpretation. *)
From Coq Require Import String.
From Radius Require Import Base.Bytes Base.Res Base.GoLite Gen.Src Model.SrcRun Proofs.SrcBase.
Open Scope list_scope.
Open Scope nat_scope.

Definition uses_prims (cx : ctx) : Prop :=
  forall name args, lookup_fn src_table name = None -> cx name args = prims name args.

Lemma ctx_of_prims fuel d : uses_prims (ctx_of prims src_table fuel d).
Proof.
  induction d as [|d IH]; intros name args H; cbn [ctx_of]; [reflexivity|]. rewrite H. reflexivity.
Qed.

Lemma src_ctx_prims fuel : uses_prims (src_ctx fuel).
Proof. apply ctx_of_prims. Qed.

(* a call of a translated function, one level down *)
Lemma ctx_of_call fuel d name f args :
  lookup_fn src_table name = Some f ->
  ctx_of prims src_table fuel (S d) name args =
  match run (ctx_of prims src_table fuel d) fuel f args with Some (Some v) => Some v | _ => None end.
Proof. intros H. cbn [ctx_of]. rewrite H. reflexivity. Qed.
