(* Proofs/ShutdownInvS1.v — one slice of the preservation proof of the Serve/Shutdown invariant (split for parallel compilation). *)
From Radius Require Import Base.Bytes Base.Res Model.Shutdown Proofs.ShutdownInv.
From Coq Require Import ZifyBool ZifyNat ZifyN.
Open Scope nat_scope.
Section Step.
Variable s : state.
Hypothesis Ia : active s = (Z.of_nat (cnt holds (threads s)) - (if sdec s then 1 else 0))%Z.
Hypothesis Ic : closes s = if sdec s && (cnt holds (threads s) =? 0) then 1 else 0.
Hypothesis Im : cnt in_cs (threads s) = if mu s then 1 else 0.
Hypothesis Ir : shut s = true -> cnt at_reg (threads s) = 0.
Hypothesis Il : cnt closing (threads s) = if shut s && negb (sdec s) then 1 else 0.
Hypothesis Isd : sdec s = true -> shut s = true.
Hypothesis Inl : 0 < cnt at_nil (threads s) -> closes s = 1.
Hypothesis Icl : shut s = true -> cnt at_hclose (threads s) = 0 -> incl (regs s) (closedc s).
Hypothesis Icn : shut s = true -> cnt pre_cancel (threads s) = 0 -> cancelled s = true.
Ltac fin := finish s Ir Isd Inl Icl Icn.
Lemma serve_a i c a s' : nth_error (threads s) i = Some (TServe c S_start) \/ nth_error (threads s) i = Some (TServe c S_locked) ->
  forall pc, nth_error (threads s) i = Some (TServe c pc) -> step_serve false s i c pc a = Some s' -> Inv s'.
Proof.
  intros Hpc pc Hn Hs. assert (pc = S_start \/ pc = S_locked) as [-> | ->] by (destruct Hpc as [H|H]; rewrite H in Hn; inversion Hn; auto).
  - destruct a; cbn [step_serve] in Hs; try discriminate.
    destruct (mu s) eqn:Em; [discriminate|]. inversion Hs; subst s'; clear Hs.
    counts Hn (TServe c S_locked). fin.
  - destruct a; cbn [step_serve] in Hs; try discriminate.
    destruct (in_cs_unique' s i _ Im Hn eq_refl) as [Em Hc1].
    destruct (shut s) eqn:Esh; inversion Hs; subst s'; clear Hs.
    + counts Hn (TServe c (S_returned RetShutdown)). fin.
    + counts Hn (TServe c S_reg). fin.
Qed.
End Step.
