(* Proofs/SrcMarshal.v — AttributesEncodedLen, encodeTo and MarshalBinary as translated
   (Gen/Src.v) produce the wire format of Spec/C01.v, for every packet. *)
From Coq Require Import String.
From Radius Require Import Base.Bytes Base.Res Base.Guard Base.GoLite Gen.Src Crypto.MD5 Proofs.SrcBase Proofs.SrcCtx Model.SrcRun
  Model.Attrs Spec.C09 Spec.C01 Spec.C03 Proofs.SrcDefs.
Open Scope list_scope.
Open Scope nat_scope.

(* value-level view of one attribute *)
Definition vtype (v : val) : Z := match v with VRec (VInt t :: _) => t | _ => 0%Z end.
Definition vlen (v : val) : nat := length (bytes_of (vattr v)).
Definition v_in_range (v : val) : bool := ((0 <=? vtype v) && (vtype v <=? 255))%Z.
Definition v_fits (v : val) : bool := negb (v_in_range v) || (vlen v <=? 253).
Fixpoint wire_len (vl : list val) : Z :=
  match vl with
  | [] => 0%Z
  | v :: r => ((if v_in_range v then 2 + Z.of_nat (vlen v) else 0) + wire_len r)%Z
  end.

Section EncLen.
Variable cx : ctx.
Variable vl : list val.
Hypothesis Hwf : Forall is_avp vl.

Definition el_for : stmt :=
  match f_body (fn src_AttributesEncodedLen) with
  | SSeq _ (SSeq (SSeq _ (SSeq _ f)) _) => f
  | _ => SSkip
  end.

Lemma el_loop n m : forall i acc a,
  i <= length vl -> length vl - i < m ->
  exists a',
  loop (fun e => eval cx e (for_cond el_for)) (exec cx n (for_body el_for)) (exec cx n (for_post el_for)) m
     [VList vl; VInt acc; VList vl; VInt (Z.of_nat i); a] =
  if forallb v_fits (skipn i vl)
  then ONorm [VList vl; VInt (acc + wire_len (skipn i vl)); VList vl; VInt (Z.of_nat (length vl)); a']
  else ORet (VTup [VInt 0; VErr]).
Proof.
  induction m as [|m IH]; intros i acc a Hi Hm; [lia|].
  loop_step L. cbn [el_for for_cond for_body for_post fn src_AttributesEncodedLen f_body]. go.
  destruct (Nat.eq_dec i (length vl)) as [->|Hne].
  - golia. rewrite skipn_all. cbn [forallb wire_len]. exists a. rewrite Z.add_0_r. reflexivity.
  - golia. go.
    destruct (nth_error vl i) as [x|] eqn:Ex; [|apply nth_error_None in Ex; lia].
    rewrite (nth_error_nth_skipn _ _ _ Ex). cbn [forallb wire_len].
    assert (Hx : is_avp x) by (rewrite Forall_forall in Hwf; apply Hwf; eapply nth_error_In; eauto).
    destruct Hx as [t bv Hbv]. go.
    unfold v_fits at 1, v_in_range, vlen. cbn [vtype vattr vavp].
    assert (Hnext : forall acc', exists a',
      L [VList vl; VInt acc'; VList vl; VInt (Z.of_nat i + 1); vavp t bv] =
      if forallb v_fits (skipn (S i) vl)
      then ONorm [VList vl; VInt (acc' + wire_len (skipn (S i) vl)); VList vl; VInt (Z.of_nat (length vl)); a']
      else ORet (VTup [VInt 0; VErr])).
    { intros acc'. replace (Z.of_nat i + 1)%Z with (Z.of_nat (S i)) by lia. subst L. apply IH; lia. }
    assert (Hskip : ((0 <=? t)%Z && (t <=? 255)%Z) = false -> exists a',
      L [VList vl; VInt acc; VList vl; VInt (Z.of_nat i + 1); vavp t bv] =
      (if (negb false || (length (bytes_of bv) <=? 253)) && forallb v_fits (skipn (S i) vl)
       then ONorm [VList vl; VInt (acc + (0 + wire_len (skipn (S i) vl))); VList vl; VInt (Z.of_nat (length vl)); a']
       else ORet (VTup [VInt 0; VErr]))).
    { intros _. cbn [negb orb andb]. destruct (Hnext acc) as [a' Ha]. exists a'. rewrite Ha.
      destruct (forallb v_fits (skipn (S i) vl)); [rewrite Z.add_0_l|]; reflexivity. }
    destruct (t <? 0)%Z eqn:E1; go.
    { replace ((0 <=? t)%Z && (t <=? 255)%Z) with false by lia. apply Hskip. lia. }
    destruct (255 <? t)%Z eqn:E2; go.
    { replace ((0 <=? t)%Z && (t <=? 255)%Z) with false by lia. apply Hskip. lia. }
    replace ((0 <=? t)%Z && (t <=? 255)%Z) with true by lia. cbn [negb orb]. clear Hskip.
    destruct Hbv as [->|[l ->]]; cbn [bytes_of as_bytes length]; go.
    + (* nil value *)
      destruct (Hnext (acc + (2 + 0))%Z) as [a' Ha]. exists a'. rewrite Ha.
      change (0 <=? 253) with true. cbn [andb]. destruct (forallb v_fits (skipn (S i) vl)); [|reflexivity]. change (Z.of_nat 0) with 0%Z. rewrite <- !Z.add_assoc. reflexivity.
    + gocase; go.
      * replace (length l <=? 253) with false by lia. exists VNil. reflexivity.
      * replace (length l <=? 253) with true by lia. cbn [andb].
        destruct (Hnext (acc + (2 + Z.of_nat (length l)))%Z) as [a' Ha]. exists a'. rewrite Ha.
        destruct (forallb v_fits (skipn (S i) vl)); [|reflexivity]. rewrite <- !Z.add_assoc. reflexivity.
Qed.
End EncLen.


Definition el_for_is_for : match el_for with SFor _ _ _ => True | _ => False end := I.

Definition enclen_result (vl : list val) : val :=
  if forallb v_fits vl then VTup [VInt (wire_len vl); VNil] else VTup [VInt 0; VErr].

Theorem src_AttributesEncodedLen_spec cx n vl : Forall is_avp vl -> length vl < n ->
  run cx n (fn src_AttributesEncodedLen) [VList vl] = Some (Some (enclen_result vl)).
Proof.
  intros Hwf Hn. unfold run, enclen_result. cbn [fn src_AttributesEncodedLen f_body f_params f_locals].
  fold_for el_for. remember el_for as F eqn:HF. go. subst F.
  rewrite exec_for by exact el_for_is_for.
  destruct (el_loop cx vl Hwf n n 0 0%Z VNil ltac:(lia) ltac:(lia)) as [a' H].
  change (Z.of_nat 0) with 0%Z in H. rewrite H. cbn [skipn].
  destruct (forallb v_fits vl); go; reflexivity.
Qed.

Theorem src_AttributesEncodedLen_nil cx n :
  run cx n (fn src_AttributesEncodedLen) [VNil] = Some (Some (VTup [VInt 0; VNil])) \/ n = 0.
Proof.
  destruct n as [|n]; [right; reflexivity|left]. unfold run. cbn [fn src_AttributesEncodedLen f_body f_params f_locals].
  fold_for el_for. remember el_for as F eqn:HF. go. subst F.
  rewrite exec_for by exact el_for_is_for. rewrite loop_S.
  cbn [el_for for_cond for_body for_post fn src_AttributesEncodedLen f_body]. go. reflexivity.
Qed.

(* ---- encodeTo ---- *)
Definition vtlv (v : val) : bytes :=
  if v_in_range v then Z.to_N (vtype v) :: N.of_nat (vlen v + 2) :: bytes_of (vattr v) else [].
Definition vwire (vl : list val) : bytes := flat_map vtlv vl.

Lemma vwire_length vl : forallb v_fits vl = true -> Z.of_nat (length (vwire vl)) = wire_len vl.
Proof.
  induction vl as [|v r IH]; intros H; [reflexivity|]. cbn [forallb] in H. apply andb_true_iff in H. destruct H as [_ Hr].
  unfold vwire in *. cbn [flat_map wire_len]. rewrite app_length, Nat2Z.inj_add, IH by exact Hr.
  unfold vtlv. destruct (v_in_range v); cbn [length]; unfold vlen; lia.
Qed.

Lemma set_nth_app {A} (a : list A) x y r : set_nth (length a) y (a ++ x :: r) = a ++ y :: r.
Proof.
  unfold set_nth. rewrite firstn_app, Nat.sub_diag, firstn_all. cbn [firstn]. rewrite app_nil_r.
  rewrite skipn_app. rewrite skipn_all2 by lia. replace (S (length a) - length a) with 1 by lia. reflexivity.
Qed.

Lemma skipn_skipn' {A} (l : list A) a b : skipn a (skipn b l) = skipn (b + a) l.
Proof.
  revert l; induction b as [|b IH]; intros l; [reflexivity|]. destruct l as [|x l]; [destruct a; reflexivity|]. cbn [skipn Nat.add]. apply IH.
Qed.

Lemma split_at {A} (l : list A) n : n <= length l -> exists a b, l = a ++ b /\ length a = n.
Proof. intros H. exists (firstn n l), (skipn n l). split; [symmetry; apply firstn_skipn|]. rewrite firstn_length. lia. Qed.

(* two byte stores and a copy lay down one attribute *)
Lemma write_tlv buf off t s v :
  off + 2 + length v <= length buf ->
  copy_into (set_nth (off + 1) s (set_nth off t buf)) (Z.of_nat (off + 2)) (Z.of_nat (length buf)) v =
  Some (firstn off buf ++ t :: s :: v ++ skipn (off + 2 + length v) buf).
Proof.
  intros H.
  destruct (split_at buf off ltac:(lia)) as [a [r1 [-> La]]].
  rewrite app_length in H.
  destruct r1 as [|x [|y r2]]; cbn [length] in H; try lia.
  destruct (split_at r2 (length v) ltac:(lia)) as [c [d [-> Lc]]].
  subst off.
  rewrite set_nth_app.
  replace (length a + 1) with (length (a ++ [t])) by (rewrite app_length; cbn; lia).
  replace (a ++ t :: y :: c ++ d) with ((a ++ [t]) ++ y :: c ++ d) by (rewrite <- app_assoc; reflexivity).
  rewrite set_nth_app.
  rewrite copy_into_gen; [| lia | rewrite !app_length; cbn [length]; rewrite !app_length; cbn [length]; lia
                          | rewrite Nat2Z.id, !app_length; cbn [length]; rewrite !app_length; lia].
  rewrite Nat2Z.id. f_equal.
  assert (E1 : firstn (length a + 2) ((a ++ [t]) ++ s :: c ++ d) = a ++ [t; s]).
  { replace ((a ++ [t]) ++ s :: c ++ d) with ((a ++ [t; s]) ++ c ++ d) by (rewrite <- !app_assoc; reflexivity).
    apply firstn_app_exact. rewrite app_length. cbn [length]. lia. }
  assert (E2 : skipn (length a + 2 + length v) ((a ++ [t]) ++ s :: c ++ d) = d).
  { replace ((a ++ [t]) ++ s :: c ++ d) with (((a ++ [t; s]) ++ c) ++ d) by (rewrite <- !app_assoc; reflexivity).
    apply skipn_app_exact. rewrite !app_length. cbn [length]. lia. }
  assert (E3 : firstn (length a) (a ++ x :: y :: c ++ d) = a) by (apply firstn_app_exact; reflexivity).
  assert (E4 : skipn (length a + 2 + length v) (a ++ x :: y :: c ++ d) = d).
  { replace (a ++ x :: y :: c ++ d) with (((a ++ [x; y]) ++ c) ++ d) by (rewrite <- !app_assoc; reflexivity).
    apply skipn_app_exact. rewrite !app_length. cbn [length]. lia. }
  rewrite E1, E2, E3, E4. rewrite <- app_assoc. reflexivity.
Qed.

Lemma tlv_then_rest (buf : bytes) off hd W : off + length hd + length W <= length buf ->
  firstn (off + length hd) (firstn off buf ++ hd ++ skipn (off + length hd) buf) ++ W ++
    skipn (off + length hd + length W) (firstn off buf ++ hd ++ skipn (off + length hd) buf) =
  firstn off buf ++ (hd ++ W) ++ skipn (off + (length hd + length W)) buf.
Proof.
  intros H.
  destruct (split_at buf off ltac:(lia)) as [a [r1 [-> La]]]. rewrite app_length in H.
  destruct (split_at r1 (length hd) ltac:(lia)) as [b [r2 [-> Lb]]]. rewrite app_length in H.
  destruct (split_at r2 (length W) ltac:(lia)) as [c [d [-> Lc]]]. subst off.
  rewrite (firstn_app_exact a) by reflexivity.
  assert (E1 : skipn (length a + length hd) (a ++ b ++ c ++ d) = c ++ d).
  { replace (a ++ b ++ c ++ d) with ((a ++ b) ++ c ++ d) by (rewrite <- app_assoc; reflexivity).
    apply skipn_app_exact. rewrite app_length. lia. }
  rewrite E1.
  assert (E2 : firstn (length a + length hd) (a ++ hd ++ c ++ d) = a ++ hd).
  { replace (a ++ hd ++ c ++ d) with ((a ++ hd) ++ c ++ d) by (rewrite <- app_assoc; reflexivity).
    apply firstn_app_exact. rewrite app_length. reflexivity. }
  rewrite E2.
  assert (E3 : skipn (length a + length hd + length W) (a ++ hd ++ c ++ d) = d).
  { replace (a ++ hd ++ c ++ d) with (((a ++ hd) ++ c) ++ d) by (rewrite <- !app_assoc; reflexivity).
    apply skipn_app_exact. rewrite !app_length. lia. }
  rewrite E3.
  assert (E4 : skipn (length a + (length hd + length W)) (a ++ b ++ c ++ d) = d).
  { replace (a ++ b ++ c ++ d) with (((a ++ b) ++ c) ++ d) by (rewrite <- !app_assoc; reflexivity).
    apply skipn_app_exact. rewrite !app_length. lia. }
  rewrite E4. rewrite <- !app_assoc. reflexivity.
Qed.

Section EncodeTo.
Variable cx : ctx.
Variable vl : list val.
Hypothesis Hwf : Forall is_avp vl.

Definition et_for : stmt :=
  match f_body (fn src_Attributes_encodeTo) with
  | SSeq _ (SSeq (SSeq _ (SSeq _ f)) _) => f
  | _ => SSkip
  end.

Lemma et_loop n m : forall i off buf a sz,
  i <= length vl -> length vl - i < m ->
  forallb v_fits (skipn i vl) = true ->
  off + length (vwire (skipn i vl)) <= length buf ->
  exists a' sz',
  loop (fun e => eval cx e (for_cond et_for)) (exec cx n (for_body et_for)) (exec cx n (for_post et_for)) m
     [VList vl; VBytes buf; VInt (Z.of_nat off); VList vl; VInt (Z.of_nat i); a; sz] =
  ONorm [VList vl;
         VBytes (firstn off buf ++ vwire (skipn i vl) ++ skipn (off + length (vwire (skipn i vl))) buf);
         VInt (Z.of_nat (off + length (vwire (skipn i vl)))); VList vl; VInt (Z.of_nat (length vl)); a'; sz'].
Proof.
  induction m as [|m IH]; intros i off buf a sz Hi Hm Hfit Hroom; [lia|].
  loop_step L. cbn [et_for for_cond for_body for_post fn src_Attributes_encodeTo f_body]. go.
  destruct (Nat.eq_dec i (length vl)) as [->|Hne].
  - golia. rewrite skipn_all. cbn [vwire flat_map length app]. rewrite Nat.add_0_r, firstn_skipn.
    exists a, sz. reflexivity.
  - golia. go.
    destruct (nth_error vl i) as [x|] eqn:Ex; [|apply nth_error_None in Ex; lia].
    rewrite (nth_error_nth_skipn _ _ _ Ex) in *. cbn [forallb] in Hfit. apply andb_true_iff in Hfit. destruct Hfit as [Hfx Hfr].
    unfold vwire in Hroom |- *. cbn [flat_map] in Hroom |- *. rewrite app_length in Hroom.
    assert (Hx : is_avp x) by (rewrite Forall_forall in Hwf; apply Hwf; eapply nth_error_In; eauto).
    destruct Hx as [t bv Hbv]. go.
    unfold v_fits, v_in_range, vlen in Hfx. cbn [vtype vattr vavp] in Hfx.
    assert (Hnext : forall buf' off', off' + length (flat_map vtlv (skipn (S i) vl)) <= length buf' -> forall a0 s0, exists a' sz',
      L [VList vl; VBytes buf'; VInt (Z.of_nat off'); VList vl; VInt (Z.of_nat i + 1); a0; s0] =
      ONorm [VList vl; VBytes (firstn off' buf' ++ flat_map vtlv (skipn (S i) vl) ++ skipn (off' + length (flat_map vtlv (skipn (S i) vl))) buf');
             VInt (Z.of_nat (off' + length (flat_map vtlv (skipn (S i) vl)))); VList vl; VInt (Z.of_nat (length vl)); a'; sz']).
    { intros buf' off' Hr a0 s0. replace (Z.of_nat i + 1)%Z with (Z.of_nat (S i)) by lia. subst L. apply IH; try lia; assumption. }
    remember (flat_map vtlv (skipn (S i) vl)) as W eqn:HW.
    unfold vtlv, v_in_range, vlen in Hroom |- *. cbn [vtype vattr vavp] in Hroom |- *.
    destruct (t <? 0)%Z eqn:E1; go.
    { replace ((0 <=? t)%Z && (t <=? 255)%Z) with false in * by lia. cbn [app length] in *.
      destruct (Hnext buf off ltac:(lia) (vavp t bv) sz) as [a' [sz' Hn]]. exists a', sz'. exact Hn. }
    destruct (255 <? t)%Z eqn:E2; go.
    { replace ((0 <=? t)%Z && (t <=? 255)%Z) with false in * by lia. cbn [app length] in *.
      destruct (Hnext buf off ltac:(lia) (vavp t bv) sz) as [a' [sz' Hn]]. exists a', sz'. exact Hn. }
    replace ((0 <=? t)%Z && (t <=? 255)%Z) with true in * by lia. cbn [negb orb] in Hfx.
    destruct Hbv as [->|[l ->]]; cbn [bytes_of as_bytes length app] in *; go.
    all: replace (Z.to_nat (Z.of_nat off + 1)) with (off + 1) by lia;
      replace (Z.to_nat (Z.of_nat off + 0)) with off by lia;
      replace (Z.of_nat off + 2)%Z with (Z.of_nat (off + 2)) by lia;
      rewrite !set_nth_length by (rewrite ?set_nth_length; lia);
      rewrite write_tlv by (cbn [length]; lia); go.
    + (* no value bytes *)
      rewrite !wrap_small by (change (2 ^ 8)%Z with 256%Z; lia).
      pose proof (tlv_then_rest buf off [Z.to_N t; 2%N] W ltac:(cbn [length]; lia)) as HT. cbn [length app] in HT.
      set (buf' := firstn off buf ++ Z.to_N t :: 2%N :: skipn (off + 2) buf) in HT.
      assert (Lb : length buf' = length buf).
      { unfold buf'. rewrite app_length, firstn_length. cbn [length]. rewrite skipn_length. lia. }
      replace (Z.of_nat off + (2 + 0))%Z with (Z.of_nat (off + 2)) by lia.
      replace (off + 2 + 0) with (off + 2) by lia. change (Z.to_N (2 + 0)) with 2%N. fold buf'.
      destruct (Hnext buf' (off + 2) ltac:(lia) (vavp t VNil) (VInt (2 + 0))) as [a' [sz' Hn]].
      exists a', sz'. rewrite Hn. rewrite HT.
      replace (off + 2 + length W) with (off + (2 + length W)) by lia. reflexivity.
    + rewrite !wrap_small by (change (2 ^ 8)%Z with 256%Z; lia).
      set (s1 := N.of_nat (length l + 2)).
      replace (Z.to_N (2 + Z.of_nat (length l))) with s1 by (unfold s1; lia).
      pose proof (tlv_then_rest buf off (Z.to_N t :: s1 :: l) W ltac:(cbn [length]; lia)) as HT. cbn [length app] in HT.
      replace (off + S (S (length l))) with (off + 2 + length l) in HT by lia.
      set (buf' := firstn off buf ++ Z.to_N t :: s1 :: l ++ skipn (off + 2 + length l) buf) in *.
      assert (Lb : length buf' = length buf).
      { unfold buf'. rewrite app_length, firstn_length. cbn [length]. rewrite app_length, skipn_length. lia. }
      replace (Z.of_nat off + (2 + Z.of_nat (length l)))%Z with (Z.of_nat (off + 2 + length l)) by lia.
      destruct (Hnext buf' (off + 2 + length l) ltac:(lia) (vavp t (VBytes l)) (VInt (2 + Z.of_nat (length l)))) as [a' [sz' Hn]].
      exists a', sz'. rewrite Hn. rewrite HT.
      replace (off + 2 + length l + length W) with (off + (S (S (length l)) + length W)) by lia. reflexivity.
Qed.
End EncodeTo.

Definition et_for_is_for : match et_for with SFor _ _ _ => True | _ => False end := I.

Theorem src_encodeTo_spec cx n vl buf : Forall is_avp vl -> length vl < n ->
  forallb v_fits vl = true -> length (vwire vl) <= length buf ->
  run cx n (fn src_Attributes_encodeTo) [VList vl; VBytes buf] =
  Some (Some (VTup [VBytes (vwire vl ++ skipn (length (vwire vl)) buf)])).
Proof.
  intros Hwf Hn Hfit Hroom. unfold run. cbn [fn src_Attributes_encodeTo f_body f_params f_locals].
  fold_for et_for. remember et_for as F eqn:HF. go. subst F.
  rewrite exec_for by exact et_for_is_for.
  destruct (et_loop cx vl Hwf n n 0 0 buf VNil VNil ltac:(lia) ltac:(lia) Hfit ltac:(cbn [skipn]; lia)) as [a' [sz' H]].
  change (Z.of_nat 0) with 0%Z in H. rewrite H. cbn [skipn firstn app Nat.add]. go. reflexivity.
Qed.

(* ---- MarshalBinary ---- *)
Definition calls_enclen (cx : ctx) (bound : nat) : Prop :=
  forall vl, Forall is_avp vl -> length vl < bound ->
  cx "AttributesEncodedLen"%string [VList vl] = Some (enclen_result vl).
Definition calls_encodeto (cx : ctx) (bound : nat) : Prop :=
  forall vl buf, Forall is_avp vl -> length vl < bound -> forallb v_fits vl = true -> length (vwire vl) <= length buf ->
  cx "Attributes.encodeTo"%string [VList vl; VBytes buf] = Some (VTup [VBytes (vwire vl ++ skipn (length (vwire vl)) buf)]).

Definition vpacket (c i : Z) (auth : bytes) (secret : val) (vl : list val) : val :=
  VRec [VInt c; VInt i; VBytes auth; secret; VList vl].

Definition marshal_result (c i : Z) (auth : bytes) (vl : list val) : val :=
  if forallb v_fits vl then
    if (4096 <? 20 + Z.of_nat (length (vwire vl)))%Z then VTup [VNil; VErr]
    else VTup [VBytes (Z.to_N (wrap 8 false c) :: Z.to_N i :: be_enc 2 (N.of_nat (20 + length (vwire vl))) ++ auth ++ vwire vl); VNil]
  else VTup [VNil; VErr].

Lemma repeat_20_plus k : repeat 0%N (20 + k) = repeat 0%N 20 ++ repeat 0%N k.
Proof. apply repeat_app. Qed.

Theorem src_MarshalBinary_spec cx n c i auth secret vl :
  calls_enclen cx n -> calls_encodeto cx n ->
  Forall is_avp vl -> length vl < n -> (0 <= i < 256)%Z -> length auth = 16 ->
  run cx n (fn src_Packet_MarshalBinary) [vpacket c i auth secret vl] = Some (Some (marshal_result c i auth vl)).
Proof.
  intros Hel Het Hwf Hn Hi Ha. unfold run, vpacket, marshal_result. go.
  rewrite Hel by assumption. unfold enclen_result.
  destruct (forallb v_fits vl) eqn:Hfit; go; [|reflexivity].
  rewrite <- (vwire_length vl Hfit).
  set (k := length (vwire vl)).
  gocase; go.
  { replace (4096 <? 20 + Z.of_nat k)%Z with true by lia. reflexivity. }
  replace (4096 <? 20 + Z.of_nat k)%Z with false by lia.
  replace (Z.to_nat (20 + Z.of_nat k)) with (20 + k) by lia. rewrite repeat_20_plus.
  cbn [repeat app]. unfold set_nth. cbn [firstn skipn app length]. go.
  rewrite wrap_small by (change (2 ^ 16)%Z with 65536%Z; lia). golia. go.
  replace (Z.to_N (20 + Z.of_nat k)) with (N.of_nat (20 + k)) by lia.
  remember (be_enc 2 (N.of_nat (20 + k))) as be2 eqn:Hbe2.
  assert (Lbe : length be2 = 2) by (subst be2; apply be_enc_length).
  destruct be2 as [|e0 [|e1 [|e2 be2]]]; cbn [length] in Lbe; try lia.
  unfold copy_into at 1. cbn [length app]. rewrite repeat_length. golia.
  gonorm. cbn [firstn skipn app Nat.add length Nat.min Nat.sub]. go.
  (* the authenticator: 16 bytes *)
  do 17 (destruct auth as [|? auth]; cbn [length] in Ha; try lia).
  unfold copy_into at 1. cbn [length app]. rewrite repeat_length. golia.
  gonorm. cbn [firstn skipn app Nat.add length Nat.min Nat.sub]. go.
  cbn [skipn Nat.sub]. rewrite firstn_all2 by (rewrite repeat_length; lia).
  rewrite Het; [| assumption | assumption | assumption | rewrite repeat_length; fold k; lia].
  fold k. rewrite skipn_all2 by (rewrite repeat_length; lia). rewrite app_nil_r. go.
  unfold copy_into at 1. cbn [length app]. rewrite repeat_length. golia.
  gonorm. cbn [firstn skipn app Nat.add length Nat.min Nat.sub]. go.
  fold k. rewrite Nat.sub_0_r, Nat.min_id. rewrite firstn_all2 by (fold k; lia).
  rewrite skipn_all2 by (rewrite repeat_length; lia). rewrite app_nil_r.
  reflexivity.
Qed.

(* ---- the value-level results are the wire format of Spec/C01.v ---- *)
Lemma v_fits_abs v : is_avp v -> v_fits v = spec_value_fits (abs_avp v).
Proof. intros H; destruct H as [t bv Hbv]. reflexivity. Qed.

Lemma vtlv_abs v : is_avp v -> vtlv v = if in_range (abs_avp v) then spec_tlv (abs_avp v) else [].
Proof. intros H; destruct H as [t bv Hbv]. reflexivity. Qed.

Lemma vwire_abs vl : Forall is_avp vl -> vwire vl = spec_wire (abs_attrs vl).
Proof.
  induction 1 as [|v r Hv Hr IH]; [reflexivity|].
  unfold vwire, spec_wire in *. cbn [flat_map abs_attrs map filter]. rewrite (vtlv_abs v Hv).
  destruct (in_range (abs_avp v)); cbn [flat_map app]; rewrite IH; reflexivity.
Qed.

Lemma fits_abs vl : Forall is_avp vl -> forallb v_fits vl = forallb spec_value_fits (abs_attrs vl).
Proof.
  induction 1 as [|v r Hv Hr IH]; [reflexivity|]. cbn [forallb abs_attrs map]. rewrite (v_fits_abs v Hv), IH. reflexivity.
Qed.

Theorem marshal_result_spec c i auth vl : Forall is_avp vl -> (0 <= i)%Z ->
  marshal_result c i auth vl =
  match spec_marshal c (Z.to_N i) auth (abs_attrs vl) with
  | Ok w => VTup [VBytes w; VNil]
  | _ => VTup [VNil; VErr]
  end.
Proof.
  intros Hwf Hi. unfold marshal_result, spec_marshal. rewrite (fits_abs vl Hwf), (vwire_abs vl Hwf).
  destruct (forallb spec_value_fits (abs_attrs vl)); [|reflexivity].
  replace (4096 <? 20 + Z.of_nat (length (spec_wire (abs_attrs vl))))%Z with (4096 <? 20 + length (spec_wire (abs_attrs vl))) by lia.
  destruct (4096 <? 20 + length (spec_wire (abs_attrs vl))); [reflexivity|].
  unfold wrap. change (2 ^ 8)%Z with 256%Z. reflexivity.
Qed.

(* ---- the whole translated program ---- *)
Lemma src_ctx_calls_enclen fuel d : calls_enclen (ctx_of prims src_table fuel (S d)) fuel.
Proof.
  intros vl Hwf Hn. rewrite (ctx_of_call fuel d "AttributesEncodedLen" (fn src_AttributesEncodedLen)) by reflexivity.
  rewrite src_AttributesEncodedLen_spec by assumption. reflexivity.
Qed.

Lemma src_ctx_calls_encodeto fuel d : calls_encodeto (ctx_of prims src_table fuel (S d)) fuel.
Proof.
  intros vl buf Hwf Hn Hf Hr. rewrite (ctx_of_call fuel d "Attributes.encodeTo" (fn src_Attributes_encodeTo)) by reflexivity.
  rewrite src_encodeTo_spec by assumption. reflexivity.
Qed.

Theorem program_MarshalBinary fuel c i auth secret vl :
  Forall is_avp vl -> length vl < fuel -> (0 <= i < 256)%Z -> length auth = 16 ->
  src_run "Packet.MarshalBinary" fuel [vpacket c i auth secret vl] = Some (Some (marshal_result c i auth vl)).
Proof.
  intros. unfold src_run. cbn [lookup_fn]. apply src_MarshalBinary_spec; try assumption.
  - apply src_ctx_calls_enclen.
  - apply src_ctx_calls_encodeto.
Qed.

