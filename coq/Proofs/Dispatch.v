(* Proofs/Dispatch.v — the server dispatches exactly the authentic,
   non-duplicate requests and answers them (C06). *)
From Radius Require Import Base.Bytes Base.Guard Base.Res Gen.Consts Model.Attrs Model.Packet Model.Dispatch
  Spec.C01 Spec.C03 Proofs.Guards Proofs.PacketWire Proofs.Auth.
From Coq Require Import ZifyBool ZifyNat ZifyN.
Open Scope nat_scope.

Lemma key_eqb_eq a b : key_eqb a b = true <-> a = b.
Proof.
  destruct a as [a1 a2], b as [b1 b2]. unfold key_eqb. cbn [fst snd].
  rewrite andb_true_iff, !N.eqb_eq. split; [intros [-> ->]; reflexivity|intros E; inversion E; auto].
Qed.
Lemma key_eqb_refl a : key_eqb a a = true. Proof. apply key_eqb_eq. reflexivity. Qed.

Lemma mem_In k l : mem k l = true <-> In k l.
Proof.
  unfold mem. rewrite existsb_exists. split.
  - intros (x & Hin & Hx). apply key_eqb_eq in Hx. subst. exact Hin.
  - intros Hin. exists k. split; [exact Hin|apply key_eqb_refl].
Qed.

Lemma delete_not_in k l : ~ In k (delete k l).
Proof.
  induction l as [|x l IH]; cbn [delete]; [tauto|].
  destruct (key_eqb k x) eqn:E; [exact IH|]. cbn [In]. intros [Hx|Hin]; [|contradiction].
  subst. rewrite key_eqb_refl in E. discriminate.
Qed.
Lemma delete_other k j l : j <> k -> (In j (delete k l) <-> In j l).
Proof.
  intros Hne. induction l as [|x l IH]; cbn [delete]; [tauto|].
  destruct (key_eqb k x) eqn:E.
  - apply key_eqb_eq in E. subst x. cbn [In]. rewrite IH. split; [auto|intros [Hx|Hin]; [congruence|exact Hin]].
  - cbn [In]. rewrite IH. tauto.
Qed.
Lemma delete_nodup k l : NoDup l -> NoDup (delete k l).
Proof.
  induction 1 as [|x l Hx Hn IH]; cbn [delete]; [constructor|].
  destruct (key_eqb k x) eqn:E; [exact IH|]. constructor; [|exact IH].
  intros Hin. apply Hx.
  assert (Hne : x <> k) by (intros ->; rewrite key_eqb_refl in E; discriminate).
  apply (delete_other k x l Hne). exact Hin.
Qed.

(* keys of goroutines whose handler has started and whose entry is not yet deleted *)
Definition gkey (g : gstate) : list key := match g with GRun k | GClean k => [k] | _ => [] end.
Definition live (l : list gstate) : list key := flat_map gkey l.

Definition DInv (s : dstate) : Prop :=
  NoDup (inflight s) /\ (forall k, In k (inflight s) <-> In k (live (gs s))) /\ NoDup (live (gs s)).

Lemma live_app l1 l2 : live (l1 ++ l2) = live l1 ++ live l2.
Proof. unfold live. apply flat_map_app. Qed.

Lemma live_update l g old new : nth_error l g = Some old ->
  live (update_at g new l) = live (firstn g l) ++ gkey new ++ live (skipn (S g) l) /\
  live l = live (firstn g l) ++ gkey old ++ live (skipn (S g) l).
Proof.
  intros Hn. split.
  - rewrite update_at_eq, live_app. cbn [live flat_map]. reflexivity.
  - rewrite <- (firstn_skipn g l) at 1. rewrite (nth_error_skipn_cons l g old Hn), live_app.
    cbn [live flat_map]. reflexivity.
Qed.

Lemma dinv_dropped s : DInv s -> DInv (mkd (inflight s) (gs s ++ [GDropped])).
Proof.
  intros (Hn & Hiff & Hl). unfold DInv. cbn [inflight gs]. rewrite live_app. cbn [live flat_map gkey].
  rewrite app_nil_r. auto.
Qed.

Lemma NoDup_snoc {A} (l : list A) x : NoDup l -> ~ In x l -> NoDup (l ++ [x]).
Proof.
  induction 1 as [|y l Hy Hn IH]; intros Hx; cbn [app]; [constructor; [tauto|constructor]|].
  constructor.
  - rewrite in_app_iff. cbn [In]. intros [Hin|[Heq|[]]]; [contradiction|]. apply Hx. left. congruence.
  - apply IH. intros Hin. apply Hx. right. exact Hin.
Qed.

Lemma dinv_dispatch s k : DInv s -> ~ In k (inflight s) -> DInv (mkd (k :: inflight s) (gs s ++ [GRun k])).
Proof.
  intros (Hn & Hiff & Hl) Hni. unfold DInv. cbn [inflight gs]. rewrite live_app.
  change (live [GRun k]) with [k].
  split; [constructor; assumption|]. split.
  - intros j. cbn [In]. rewrite in_app_iff. cbn [In]. rewrite Hiff. tauto.
  - apply NoDup_snoc; [exact Hl|]. intros Hin. apply Hni. apply Hiff. exact Hin.
Qed.

Section S.
Variable H : bytes -> bytes.
Variable skip_verify : bool.
Variable secret_of : N -> secret_res.
Notation dstep' := (dstep H skip_verify secret_of).
Notation drun' := (drun H skip_verify secret_of).
Notation decide' := (decide H skip_verify secret_of).

Theorem dstep_inv s e : DInv s -> DInv (fst (dstep' s e)).
Proof.
  intros Hinv. pose proof Hinv as (Hn & Hiff & Hl). destruct e as [from d|g|g]; cbn [dstep].
  - destruct (decide' from d) as [r|]; cbn [fst].
    2:{ apply dinv_dropped. exact Hinv. }
    destruct (mem (from, ident (r_packet r)) (inflight s)) eqn:Em; cbn [fst].
    + apply dinv_dropped. exact Hinv.
    + apply dinv_dispatch; [exact Hinv|]. intros Hin. apply mem_In in Hin. congruence.
  - destruct (nth_error (gs s) g) as [[|k|k|]|] eqn:Eg; cbn [fst]; try exact Hinv.
    destruct (live_update (gs s) g (GRun k) (GClean k) Eg) as [E1 E2].
    unfold DInv. cbn [inflight gs]. rewrite E1. cbn [gkey]. cbn [gkey] in E2. rewrite <- E2. auto.
  - destruct (nth_error (gs s) g) as [[|k|k|]|] eqn:Eg; cbn [fst]; try exact Hinv.
    destruct (live_update (gs s) g (GClean k) GDone Eg) as [E1 E2].
    cbn [gkey app] in E1, E2.
    assert (Hk1 : ~ In k (live (firstn g (gs s)) ++ live (skipn (S g) (gs s)))).
    { rewrite E2 in Hl. apply NoDup_remove_2 in Hl. exact Hl. }
    unfold DInv. cbn [inflight gs]. rewrite E1.
    split; [apply delete_nodup; exact Hn|]. split.
    + intros j. destruct (key_eqb k j) eqn:Ek.
      * apply key_eqb_eq in Ek. subst j. split; [intros Hin; exfalso; exact (delete_not_in k _ Hin)|intros Hin; contradiction].
      * assert (Hne : j <> k) by (intros ->; rewrite key_eqb_refl in Ek; discriminate).
        rewrite (delete_other k j _ Hne). rewrite Hiff, E2. rewrite !in_app_iff. cbn [In].
        split; [intros [Hi|[Hi|Hi]]; [left; exact Hi|congruence|right; exact Hi]|intros [Hi|Hi]; [left; exact Hi|right; right; exact Hi]].
    + rewrite E2 in Hl. apply NoDup_remove_1 in Hl. exact Hl.
Qed.

Lemma dinit_inv : DInv dinit.
Proof. repeat split; cbn; try constructor; tauto. Qed.

Theorem drun_inv es : forall s, DInv s -> DInv (fst (drun' s es)).
Proof.
  induction es as [|e es IH]; intros s Hs; [exact Hs|]. cbn [drun].
  destruct (dstep' s e) as [s1 o] eqn:E1. destruct (drun' s1 es) as [s2 os] eqn:E2. cbn [fst].
  specialize (IH s1). rewrite E2 in IH. apply IH. pose proof (dstep_inv s e Hs) as Hi. rewrite E1 in Hi. exact Hi.
Qed.

(* at most one handler per (address, identifier) at any instant *)
Corollary at_most_one_handler_per_key es : NoDup (live (gs (fst (drun' dinit es)))).
Proof. apply (drun_inv es dinit dinit_inv). Qed.

(* the handler is invoked for a datagram iff: the secret source gives a non-empty
   secret, the request is authentic under it (or checking is off), it parses, and
   no handler for the same (address, identifier) is still running *)
Theorem dispatch_iff s from d r : DInv s ->
  snd (dstep' s (DArrive from d)) = ODispatched r <->
  (exists sec, secret_of from = Sec sec /\ sec <> [] /\
     (skip_verify = true \/ is_authentic_request H d sec = true) /\
     parse d sec = Ok (r_packet r) /\ r_remote r = from) /\
  ~ In (from, ident (r_packet r)) (live (gs s)).
Proof.
  intros (Hn & Hiff & Hl). cbn [dstep]. unfold decide.
  destruct (secret_of from) as [|sec] eqn:Es.
  { cbn [snd]. split; [discriminate|]. intros [(sec & E & _) _]. discriminate. }
  rewrite g_Serve_3. unfold zlen. destruct (Z.of_nat (length sec) =? 0)%Z eqn:El.
  { cbn [snd]. split; [discriminate|]. intros [(sec' & E & Hne & _) _]. inversion E; subst.
    destruct sec'; [congruence|cbn [length] in El; lia]. }
  destruct (negb skip_verify && negb (is_authentic_request H d sec)) eqn:Ea.
  { cbn [snd]. split; [discriminate|]. intros [(sec' & E & _ & Hv & _) _]. inversion E; subst.
    destruct Hv as [Hv|Hv]; rewrite Hv in Ea; cbn in Ea; try discriminate. rewrite andb_false_r in Ea. discriminate. }
  destruct (parse d sec) as [p| | |] eqn:Ep;
    try (cbn [snd]; split; [discriminate|]; intros [(sec' & E & _ & _ & Hp & _) _]; inversion E; subst; congruence).
  cbn [r_packet]. destruct (mem (from, ident p) (inflight s)) eqn:Em; cbn [snd].
  - split; [discriminate|]. intros [(sec' & E & _ & _ & Hp & _) Hni]. inversion E; subst sec'.
    rewrite Ep in Hp. inversion Hp; subst p. apply mem_In in Em. apply Hiff in Em. contradiction.
  - split.
    + intros Ho. inversion Ho; subst r. cbn [r_packet r_remote]. split.
      * exists sec. repeat split; auto.
        -- intros ->. cbn [length] in El. lia.
        -- destruct skip_verify; [left; reflexivity|right]. cbn [negb andb] in Ea.
           destruct (is_authentic_request H d sec); [reflexivity|discriminate].
      * intros Hin. apply Hiff in Hin. apply mem_In in Hin. congruence.
    + intros [(sec' & E & _ & _ & Hp & Hr) _]. inversion E; subst sec'. rewrite Ep in Hp.
      destruct r as [rp rr]. cbn [r_packet r_remote] in *. inversion Hp; subst. reflexivity.
Qed.

(* after its handler has returned and its entry is deleted, the same identifier is served again *)
Theorem served_again_after_done s g k : DInv s -> nth_error (gs s) g = Some (GClean k) ->
  ~ In k (live (gs (fst (dstep' s (DClean g))))).
Proof.
  intros Hs Hg. pose proof (dstep_inv s (DClean g) Hs) as (_ & Hiff & _).
  intros Hin. apply Hiff in Hin. cbn [dstep] in Hin. rewrite Hg in Hin. cbn [fst inflight] in Hin.
  exact (delete_not_in k _ Hin).
Qed.

(* every datagram reaches the handler at most once: a goroutine is created per
   arrival and only an arrival creates a running handler *)
Theorem exactly_once s e : length (gs (fst (dstep' s e))) = length (gs s) + (match e with DArrive _ _ => 1 | _ => 0 end).
Proof.
  destruct e as [from d|g|g]; cbn [dstep].
  - destruct (decide' from d) as [r|]; [destruct (mem _ _)|]; cbn [fst gs]; rewrite app_length; reflexivity.
  - destruct (nth_error (gs s) g) as [[|k|k|]|] eqn:Eg; cbn [fst gs]; try lia.
    rewrite update_at_length; [lia|]. apply nth_error_Some_lt in Eg. exact Eg.
  - destruct (nth_error (gs s) g) as [[|k|k|]|] eqn:Eg; cbn [fst gs]; try lia.
    rewrite update_at_length; [lia|]. apply nth_error_Some_lt in Eg. exact Eg.
Qed.
End S.

(* a reply written through the ResponseWriter goes to the request's source
   address and verifies against the request datagram *)
Section Reply.
Variable H : bytes -> bytes.
Hypothesis H_len : forall x, length (H x) = 16.

Theorem reply_goes_back_authentic d sec p from rc extra dst w :
  bytes_ok d -> parse d sec = Ok p -> sec <> [] -> In rc rfc_reply_codes ->
  response_write H (mkreq p from) (mkpacket rc (ident p) (auth p) (secret p) extra) = Ok (dst, w) ->
  dst = from /\ is_authentic_response H w d sec = true.
Proof.
  intros Hb Hp Hs Hc Hw. unfold response_write in Hw.
  destruct (encode H _) as [w'| | |] eqn:Ee; try discriminate. apply Ok_inj in Hw.
  cbn [r_remote] in Hw. assert (dst = from) by congruence. assert (w' = w) by congruence. subst dst w'.
  split; [reflexivity|].
  destruct (parse_marshal d sec p Hb Hp) as (_ & (Hi & Ha & _) & Hsec).
  rewrite <- Hsec.
  apply (encode_then_verify H H_len (mkpacket rc (ident p) (auth p) (secret p) extra) w d); cbn [auth code secret]; auto.
  - rewrite Hsec. exact Hs.
  - (* the request is at least 20 bytes, or Parse would have refused it *)
    rewrite parse_unfold in Hp. destruct (Nat.ltb_spec (length d) 20); [discriminate|lia].
  - (* the packet's authenticator is bytes 4..20 of the datagram *)
    rewrite parse_unfold in Hp. destruct (Nat.ltb_spec (length d) 20) as [Hlt|Hge]; [discriminate|].
    destruct d as [|c [|i [|l1 [|l2 rest]]]]; cbn [length] in Hge; try lia.
    cbv zeta in Hp. destruct (_ || _ || _); [discriminate|].
    destruct (parse_attrs _); try discriminate. apply Ok_inj in Hp. subst p. reflexivity.
Qed.
End Reply.

(* the literal-constant oracle of Spec/C06.v is the model *)
From Radius Require Import Spec.C06 Proofs.Oracles.
Section Oracle.
Variable H : bytes -> bytes.
Variable skip_verify : bool.
Variable secret_of : N -> secret_res.

Lemma decide_eq_spec from d : decide H skip_verify secret_of from d = spec_decide H skip_verify secret_of from d.
Proof.
  unfold decide, spec_decide. destruct (secret_of from) as [|sec]; [reflexivity|].
  rewrite g_Serve_3. unfold zlen.
  destruct (Nat.eqb_spec (length sec) 0) as [E|E].
  - replace (Z.of_nat (length sec) =? 0)%Z with true by lia. reflexivity.
  - replace (Z.of_nat (length sec) =? 0)%Z with false by lia.
    rewrite is_authentic_request_eq_spec. destruct (_ && _); [reflexivity|].
    rewrite parse_eq_spec. destruct (spec_parse d sec) as [[[[[c i] au] s] at_]| | |]; reflexivity.
Qed.

Theorem drun_eq_spec es : forall s, drun H skip_verify secret_of s es = spec_drun H skip_verify secret_of s es.
Proof.
  induction es as [|e es IH]; intros s; [reflexivity|]. cbn [drun spec_drun].
  assert (E : dstep H skip_verify secret_of s e = spec_dstep H skip_verify secret_of s e).
  { destruct e; [|reflexivity|reflexivity]. cbn [dstep spec_dstep]. rewrite decide_eq_spec. reflexivity. }
  rewrite E. destruct (spec_dstep H skip_verify secret_of s e) as [s1 o]. rewrite IH. reflexivity.
Qed.
End Oracle.
