(* Proofs/Prefix.v — IPv6 prefix codec (C10): the Go bit loops against the
   RFC 3162 format; per-byte facts are finite sweeps over all 256 byte values
   (vm_compute on forallb, lifted with forallb_forall). *)
From Radius Require Import Base.Bytes Base.Guard Base.Res Gen.Consts Model.Attrs Model.Codecs
  Spec.C10 Proofs.Guards.
From Coq Require Import ZifyBool ZifyNat ZifyN.
Open Scope nat_scope.

(* ---- sweeps over the 256 byte values ---- *)
Definition all_bytes : list N := map N.of_nat (seq 0 256).
Lemma in_all_bytes v : (v < 256)%N -> In v all_bytes.
Proof.
  intros Hv. unfold all_bytes. apply in_map_iff. exists (N.to_nat v). split; [lia|].
  apply in_seq. lia.
Qed.
Ltac byte_sweep P :=
  let H := fresh in
  assert (H : forallb P all_bytes = true) by (vm_compute; reflexivity);
  rewrite forallb_forall in H.

Definition bits_mask_ones (bs : list bool) : option nat :=
  let n := leading_ones bs in if forallb negb (skipn n bs) then Some n else None.

Lemma sweep_byte_ones v : (v < 256)%N -> v <> 255%N ->
  byte_ones v = bits_mask_ones (byte_bits v) /\ leading_ones (byte_bits v) < 8.
Proof.
  intros Hv Hne.
  byte_sweep (fun v => (v =? 255)%N ||
     (match byte_ones v, bits_mask_ones (byte_bits v) with
      | Some a, Some b => a =? b | None, None => true | _, _ => false end
      && (leading_ones (byte_bits v) <? 8))).
  specialize (H v (in_all_bytes v Hv)).
  destruct (N.eqb_spec v 255); [contradiction|]. cbn [orb] in H.
  apply andb_true_iff in H. destruct H as [H1 H2]. split; [|apply Nat.ltb_lt; exact H2].
  destruct (byte_ones v), (bits_mask_ones (byte_bits v)); try discriminate; [|reflexivity].
  apply Nat.eqb_eq in H1. congruence.
Qed.

Lemma sweep_bits_zero v : (v < 256)%N -> forallb negb (byte_bits v) = (v =? 0)%N.
Proof.
  intros Hv.
  byte_sweep (fun v => Bool.eqb (forallb negb (byte_bits v)) (v =? 0)%N).
  specialize (H v (in_all_bytes v Hv)). apply Bool.eqb_prop in H. exact H.
Qed.

Lemma sweep_keep_top v k : keep_top v k = clear_low v k.
Proof.
  unfold keep_top, clear_low. set (m := (2 ^ N.of_nat (8 - k))%N).
  assert (Hm : (m <> 0)%N) by (unfold m; apply N.pow_nonzero; lia).
  rewrite (N.div_mod v m Hm) at 2. rewrite N.add_sub. apply N.mul_comm.
Qed.

(* ---- masks ---- *)
Lemma leading_ones_app_lt l1 l2 : leading_ones l1 < length l1 -> leading_ones (l1 ++ l2) = leading_ones l1.
Proof.
  induction l1 as [|b l1 IH]; cbn [length leading_ones app]; [lia|].
  destruct b; [|reflexivity]. intros H. f_equal. apply IH. lia.
Qed.

Lemma bits_of_zero r : bytes_ok r -> forallb negb (bits_of r) = all_zero r.
Proof.
  induction r as [|v r IH]; intros Hb; [reflexivity|].
  inversion Hb as [|? ? Hv Hr]; subst. unfold bits_of in *. cbn [flat_map]. rewrite forallb_app.
  rewrite sweep_bits_zero by exact Hv. rewrite IH by exact Hr. reflexivity.
Qed.

Lemma byte_bits_length v : length (byte_bits v) = 8. Proof. reflexivity. Qed.

Lemma mask_ones_eq m : bytes_ok m -> mask_ones m = spec_mask_ones m.
Proof.
  unfold spec_mask_ones. induction m as [|v r IH]; intros Hb; [reflexivity|].
  inversion Hb as [|? ? Hv Hr]; subst. cbn [mask_ones]. unfold bits_of in *. cbn [flat_map].
  destruct (N.eqb_spec v 255) as [E|E].
  - subst v. rewrite (IH Hr). change (byte_bits 255) with [true; true; true; true; true; true; true; true].
    cbn [app leading_ones skipn].
    destruct (forallb negb (skipn (leading_ones (flat_map byte_bits r)) (flat_map byte_bits r))); reflexivity.
  - destruct (sweep_byte_ones v Hv E) as [H1 H2]. rewrite H1. unfold bits_mask_ones.
    rewrite leading_ones_app_lt by (rewrite byte_bits_length; exact H2).
    set (k := leading_ones (byte_bits v)) in *.
    rewrite skipn_app. replace (k - length (byte_bits v)) with 0 by (rewrite byte_bits_length; lia).
    cbn [skipn]. rewrite forallb_app. change (flat_map byte_bits r) with (bits_of r).
    rewrite bits_of_zero by exact Hr.
    destruct (forallb negb (skipn k (byte_bits v))); cbn [andb]; [reflexivity|].
    destruct (all_zero r); reflexivity.
Qed.

Lemma mask_ones_bound m n : mask_ones m = Some n -> n <= 8 * length m.
Proof.
  revert n; induction m as [|v r IH]; intros n; cbn [mask_ones length].
  - intros H; inversion H; lia.
  - destruct (v =? 255)%N.
    + destruct (mask_ones r) as [k|]; [|discriminate]. intros H; inversion H; subst. specialize (IH k eq_refl). lia.
    + unfold byte_ones.
      repeat match goal with |- context [(v =? ?c)%N] => destruct (v =? c)%N end;
        try discriminate; destruct (all_zero r); try discriminate; intros H; inversion H; lia.
Qed.

(* ---- the masked prefix bytes ---- *)
Lemma apply_mask_length ip ones : length (apply_mask ip ones) = length ip.
Proof.
  revert ones; induction ip as [|b r IH]; intros ones; [reflexivity|].
  cbn [apply_mask]. destruct (8 <=? ones); cbn [length]; rewrite IH; reflexivity.
Qed.

Lemma last_update {A} (f : A -> A) (p : list A) (x : A) :
  match rev (p ++ [x]) with last :: r => rev r ++ [f last] | [] => p ++ [x] end = p ++ [f x].
Proof. rewrite rev_app_distr. cbn [rev app]. rewrite rev_involutive. reflexivity. Qed.

Lemma firstn_apply_mask ip : forall ones, ones <= 8 * length ip ->
  firstn ((ones + 7) / 8) (apply_mask ip ones) =
  if ones mod 8 =? 0 then firstn (ones / 8) ip
  else firstn (ones / 8) ip ++ [clear_low (nth (ones / 8) ip 0%N) (ones mod 8)].
Proof.
  induction ip as [|b r IH]; intros ones Ho.
  - cbn [length] in Ho. replace ones with 0 by lia. reflexivity.
  - cbn [apply_mask]. destruct (Nat.leb_spec 8 ones) as [H8|H8].
    + replace ((ones + 7) / 8) with (S ((ones - 8 + 7) / 8)) by lia.
      replace (ones / 8) with (S ((ones - 8) / 8)) by lia.
      replace (ones mod 8) with ((ones - 8) mod 8) by lia.
      cbn [firstn nth]. rewrite IH by (cbn [length] in Ho; lia).
      destruct ((ones - 8) mod 8 =? 0); reflexivity.
    + replace (ones / 8) with 0 by lia. replace (ones mod 8) with ones by lia.
      destruct (Nat.eqb_spec ones 0) as [E|E].
      * subst ones. reflexivity.
      * replace ((ones + 7) / 8) with 1 by lia. reflexivity.
Qed.

Theorem new_ipv6prefix_eq ip mask : bytes_ok mask ->
  new_ipv6prefix ip mask = spec_new_ipv6prefix ip mask.
Proof.
  intros Hm. unfold new_ipv6prefix, spec_new_ipv6prefix, zlen.
  rewrite g_NewIPv6Prefix_0.
  destruct (Nat.eqb_spec (length ip) 16) as [Ei|Ei].
  2:{ replace (negb (Z.of_nat (length ip) =? 16)%Z) with true by lia. reflexivity. }
  replace (negb (Z.of_nat (length ip) =? 16)%Z) with false by lia. cbn [negb orb].
  unfold mask_size. rewrite <- (mask_ones_eq mask Hm).
  destruct (mask_ones mask) as [ones|] eqn:Eo; cbv beta iota; rewrite g_NewIPv6Prefix_1.
  2:{ cbn. destruct (length mask =? 16); reflexivity. }
  rewrite g_NewIPv6Prefix_2.
  destruct (Nat.eqb_spec (length mask) 16) as [Em|Em].
  2:{ replace (negb (Z.of_nat (8 * length mask) =? 128)%Z) with true by lia. reflexivity. }
  replace (negb (Z.of_nat (8 * length mask) =? 128)%Z) with false by lia. cbn [negb].
  pose proof (mask_ones_bound mask ones Eo) as Hb.
  rewrite firstn_apply_mask by lia.
  replace (zbyte (Z.of_nat ones)) with (N.of_nat ones) by (unfold zbyte; lia).
  f_equal. do 2 f_equal.
  destruct (Nat.eqb_spec (ones mod 8) 0) as [E0|E0].
  - replace (negb (Z.of_nat (ones mod 8) =? 0)%Z) with false by lia.
    f_equal. lia.
  - replace (negb (Z.of_nat (ones mod 8) =? 0)%Z) with true by lia.
    replace ((ones + 7) / 8) with (S (ones / 8)) by lia.
    assert (Hlt : ones / 8 < length ip) by lia.
    destruct (nth_error_lt_Some ip (ones / 8) Hlt) as [x Hx].
    rewrite (firstn_S_snoc ip (ones / 8) x Hx).
    rewrite (last_update (fun l => keep_top l (ones mod 8))).
    rewrite sweep_keep_top. do 3 f_equal. symmetry. apply nth_error_nth. exact Hx.
Qed.

(* ---- the decoder ---- *)
Lemma apply_mask_zero_fix r : bytes_ok r -> beq (apply_mask r 0) r = all_zero r.
Proof.
  induction r as [|b r IH]; intros Hb; [reflexivity|].
  inversion Hb as [|? ? Hv Hr]; subst. cbn [apply_mask]. change (8 <=? 0) with false. cbv iota. cbn [beq].
  unfold all_zero in *. cbn [forallb]. rewrite IH by exact Hr. f_equal.
  unfold clear_low, byte_ok in *. change (2 ^ N.of_nat (8 - 0))%N with 256%N.
  rewrite N.mod_small by exact Hv. lia.
Qed.

Lemma beq_apply_mask ip : forall p, bytes_ok ip ->
  beq (apply_mask ip p) ip =
  match skipn (p / 8) ip with [] => true | b :: r => low_zero b (p mod 8) && all_zero r end.
Proof.
  induction ip as [|b r IH]; intros p Hb.
  - destruct (p / 8); reflexivity.
  - inversion Hb as [|? ? Hv Hr]; subst. cbn [apply_mask].
    destruct (Nat.leb_spec 8 p) as [H8|H8].
    + cbn [beq]. rewrite N.eqb_refl. cbn [andb]. rewrite IH by exact Hr.
      replace (p / 8) with (S ((p - 8) / 8)) by lia. replace (p mod 8) with ((p - 8) mod 8) by lia.
      reflexivity.
    + replace (p / 8) with 0 by lia. replace (p mod 8) with p by lia. cbn [skipn beq].
      rewrite apply_mask_zero_fix by exact Hr. f_equal.
      unfold clear_low, low_zero. set (m := (2 ^ N.of_nat (8 - p))%N).
      assert (Hm : (m <> 0)%N) by (unfold m; apply N.pow_nonzero; lia).
      pose proof (N.mod_le b m Hm). lia.
Qed.

Lemma cidr_mask_eq n : forall ones, cidr_mask ones n = mask_of ones n.
Proof.
  induction n as [|n IH]; intros ones; [reflexivity|]. cbn [cidr_mask mask_of].
  destruct (Nat.leb_spec 8 ones); rewrite IH; [reflexivity|]. f_equal.
  unfold clear_low. do 8 (destruct ones as [|ones]; [vm_compute; reflexivity|]). lia.
Qed.

Theorem ipv6prefix_eq a : bytes_ok a -> ipv6prefix a = spec_ipv6prefix a.
Proof.
  intros Hb. unfold ipv6prefix, spec_ipv6prefix, zlen.
  rewrite g_IPv6Prefix_0, g_IPv6Prefix_1.
  destruct a as [|r0 [|pl data]].
  - reflexivity.
  - reflexivity.
  - cbn [length]. rewrite g_IPv6Prefix_2.
    destruct (Nat.leb_spec (length data) 16) as [Hd|Hd].
    2:{ replace ((Z.of_nat (S (S (length data))) <? 2)%Z || (Z.of_nat (S (S (length data))) >? 18)%Z) with true by lia.
        reflexivity. }
    replace ((Z.of_nat (S (S (length data))) <? 2)%Z || (Z.of_nat (S (S (length data))) >? 18)%Z) with false by lia.
    cbn [andb].
    destruct (N.leb_spec pl 128) as [Hp|Hp].
    2:{ replace (Z.of_N pl >? 128)%Z with true by lia. reflexivity. }
    replace (Z.of_N pl >? 128)%Z with false by lia.
    assert (Hip : firstn 16 (pad_to 16 data) = data ++ repeat 0%N (16 - length data)).
    { unfold pad_to. apply firstn_all2. rewrite app_length, repeat_length. lia. }
    rewrite Hip. set (ip := data ++ repeat 0%N (16 - length data)).
    assert (Hipok : bytes_ok ip).
    { unfold ip. apply bytes_ok_app. split; [|apply bytes_ok_repeat0].
      inversion Hb as [|? ? _ Hb1]; subst. inversion Hb1; subst. assumption. }
    rewrite beq_apply_mask by exact Hipok. rewrite cidr_mask_eq.
    destruct (skipn (N.to_nat pl / 8) ip) as [|b r]; [reflexivity|].
    destruct (low_zero b (N.to_nat pl mod 8) && all_zero r); reflexivity.
Qed.

Theorem ipv6prefix_no_panic a : bytes_ok a -> ipv6prefix a <> Panic /\ ipv6prefix a <> OutOfFuel.
Proof.
  intros Hb. rewrite ipv6prefix_eq by exact Hb. unfold spec_ipv6prefix.
  destruct a as [|r0 [|pl data]]; try (split; discriminate).
  destruct (_ && _); [|split; discriminate]. destruct (beq _ _); split; discriminate.
Qed.

(* ---- round trip ---- *)
Lemma clear_low_idem b k : clear_low (clear_low b k) k = clear_low b k.
Proof.
  unfold clear_low. set (m := (2 ^ N.of_nat (8 - k))%N).
  assert (Hm : (m <> 0)%N) by (unfold m; apply N.pow_nonzero; lia).
  assert (E : (b - b mod m = b / m * m)%N).
  { rewrite (N.div_mod b m Hm) at 1. rewrite N.add_sub. apply N.mul_comm. }
  rewrite E. rewrite N.mod_mul by exact Hm. apply N.sub_0_r.
Qed.

Lemma apply_mask_idem ip : forall p, apply_mask (apply_mask ip p) p = apply_mask ip p.
Proof.
  induction ip as [|b r IH]; intros p; [reflexivity|]. cbn [apply_mask].
  destruct (8 <=? p) eqn:E; cbn [apply_mask]; rewrite E; rewrite IH; [reflexivity|].
  rewrite clear_low_idem. reflexivity.
Qed.

Lemma apply_mask_zero_tail r : bytes_ok r -> apply_mask r 0 = repeat 0%N (length r).
Proof.
  induction r as [|b r IH]; intros Hb; [reflexivity|]. inversion Hb as [|? ? Hv Hr]; subst.
  cbn [apply_mask length repeat]. change (8 <=? 0) with false. cbv iota. rewrite IH by exact Hr.
  f_equal. unfold clear_low, byte_ok in *. change (2 ^ N.of_nat (8 - 0))%N with 256%N.
  rewrite N.mod_small by exact Hv. lia.
Qed.

Lemma apply_mask_tail ip : forall p, bytes_ok ip -> p <= 8 * length ip ->
  skipn ((p + 7) / 8) (apply_mask ip p) = repeat 0%N (length ip - (p + 7) / 8).
Proof.
  induction ip as [|b r IH]; intros p Hb Hp.
  - cbn [length] in *. replace p with 0 by lia. reflexivity.
  - inversion Hb as [|? ? Hv Hr]; subst. cbn [apply_mask length]. cbn [length] in Hp.
    destruct (Nat.leb_spec 8 p) as [H8|H8].
    + replace ((p + 7) / 8) with (S ((p - 8 + 7) / 8)) by lia. cbn [skipn].
      rewrite IH; [|exact Hr|lia]. f_equal.
    + destruct (Nat.eqb_spec p 0) as [E|E].
      * subst p. cbn [skipn Nat.div Nat.add]. replace ((0 + 7) / 8) with 0 by reflexivity.
        cbn [skipn]. rewrite apply_mask_zero_tail by exact Hr.
        unfold clear_low, byte_ok in *. change (2 ^ N.of_nat (8 - 0))%N with 256%N.
        rewrite N.mod_small by exact Hv. replace (b - b)%N with 0%N by lia.
        replace (S (length r) - 0) with (S (length r)) by lia. reflexivity.
      * replace ((p + 7) / 8) with 1 by lia. cbn [skipn]. rewrite apply_mask_zero_tail by exact Hr.
        f_equal. lia.
Qed.

Theorem ipv6prefix_roundtrip ip mask a : bytes_ok ip ->
  spec_new_ipv6prefix ip mask = Ok a ->
  exists ones, spec_mask_ones mask = Some ones /\ length ip = 16 /\ length mask = 16 /\
    length a = 2 + (ones + 7) / 8 /\ length a <= 18 /\
    spec_ipv6prefix a = Ok (apply_mask ip ones, mask_of ones 16).
Proof.
  intros Hb. unfold spec_new_ipv6prefix.
  destruct (Nat.eqb_spec (length ip) 16) as [Ei|Ei]; [|discriminate].
  destruct (Nat.eqb_spec (length mask) 16) as [Em|Em]; [|discriminate]. cbn [negb orb].
  destruct (spec_mask_ones mask) as [ones|] eqn:Eo; [|discriminate].
  intros H; apply Ok_inj in H; subst a. exists ones.
  assert (Hob : ones <= 128).
  { unfold spec_mask_ones in Eo. destruct (forallb _ _); [|discriminate]. inversion Eo; subst.
    assert (Hl : length (bits_of mask) = 8 * length mask).
    { clear. induction mask as [|v r IH]; [reflexivity|]. unfold bits_of in *. cbn [flat_map length].
      rewrite app_length, IH. cbn [length byte_bits map]. lia. }
    assert (forall bs, leading_ones bs <= length bs) as Hle.
    { induction bs as [|[|] bs IH]; cbn [leading_ones length]; lia. }
    specialize (Hle (bits_of mask)). lia. }
  assert (Hdl : length (firstn ((ones + 7) / 8) (apply_mask ip ones)) = (ones + 7) / 8).
  { rewrite firstn_length, apply_mask_length. lia. }
  repeat split; try assumption.
  - cbn [length]. rewrite Hdl. reflexivity.
  - cbn [length]. rewrite Hdl. lia.
  - unfold spec_ipv6prefix. rewrite Hdl.
    replace (((ones + 7) / 8 <=? 16) && (N.of_nat ones <=? 128)%N) with true by lia.
    rewrite Nat2N.id.
    assert (Hip : firstn ((ones + 7) / 8) (apply_mask ip ones) ++ repeat 0%N (16 - (ones + 7) / 8) = apply_mask ip ones).
    { rewrite <- Ei. rewrite <- (apply_mask_tail ip ones Hb) by lia. apply firstn_skipn. }
    rewrite Hip. rewrite apply_mask_idem. rewrite beq_refl. reflexivity.
Qed.

Theorem ipv6prefix_refuses ip mask :
  (length ip <> 16 \/ length mask <> 16 \/ spec_mask_ones mask = None) <->
  exists e, spec_new_ipv6prefix ip mask = Err e.
Proof.
  unfold spec_new_ipv6prefix.
  destruct (Nat.eqb_spec (length ip) 16) as [Ei|Ei]; cbn [negb orb]; [|split; eauto].
  destruct (Nat.eqb_spec (length mask) 16) as [Em|Em]; cbn [negb]; [|split; eauto].
  destruct (spec_mask_ones mask) as [ones|]; split; intros H; eauto.
  - destruct H as [H|[H|H]]; [lia|lia|discriminate].
  - destruct H; discriminate.
Qed.

Theorem ipv6prefix_decode_exact a :
  (exists r, spec_ipv6prefix a = Ok r) <->
  exists r0 pl data, a = r0 :: pl :: data /\ length data <= 16 /\ (pl <= 128)%N /\
    let ip := data ++ repeat 0%N (16 - length data) in apply_mask ip (N.to_nat pl) = ip.
Proof.
  unfold spec_ipv6prefix. destruct a as [|r0 [|pl data]].
  - split; [intros [r H]; discriminate|intros (? & ? & ? & H & _); discriminate].
  - split; [intros [r H]; discriminate|intros (? & ? & ? & H & _); discriminate].
  - destruct ((length data <=? 16) && (pl <=? 128)%N) eqn:E.
    + destruct (beq _ _) eqn:Eb.
      * split; [|eauto]. intros _. exists r0, pl, data. apply beq_spec in Eb. repeat split; try lia. exact Eb.
      * split; [intros [r H]; discriminate|]. intros (r0' & pl' & data' & Heq & _ & _ & Hfix).
        inversion Heq; subst. cbv zeta in Hfix. apply beq_false in Eb. contradiction.
    + split; [intros [r H]; discriminate|]. intros (r0' & pl' & data' & Heq & Hd & Hp & _).
      inversion Heq; subst. lia.
Qed.
