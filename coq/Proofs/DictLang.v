(* Proofs/DictLang.v — layout never changes the result; numerals round-trip;
   every fault class of the statement is rejected with its error (C16). *)
From Coq Require Import String Ascii.
From Radius Require Import Base.Bytes Base.Res Model.Dict Spec.C16.
From Coq Require Import ZifyBool ZifyNat ZifyN.
Open Scope list_scope.
Open Scope nat_scope.

(* ---------------- tokens and white space ---------------- *)
Lemma ws_is_space b : ws_byte b = true -> is_space b = true.
Proof. unfold ws_byte, is_space. lia. Qed.
Lemma token_not_space b : token_byte b = true -> is_space b = false.
Proof. unfold token_byte. destruct (is_space b); [discriminate|reflexivity]. Qed.

Lemma fields_acc_token tok : forall cur rest, Forall (fun b => token_byte b = true) tok ->
  fields_acc cur (tok ++ rest) = fields_acc (rev tok ++ cur) rest.
Proof.
  induction tok as [|b tok IH]; intros cur rest Ht; [reflexivity|].
  inversion Ht as [|? ? Hb Ht']; subst. cbn [app fields_acc]. rewrite (token_not_space b Hb).
  rewrite IH by exact Ht'. cbn [rev]. rewrite <- app_assoc. reflexivity.
Qed.

Lemma fields_acc_ws w : forall rest, is_ws w -> fields_acc [] (w ++ rest) = fields_acc [] rest.
Proof.
  induction w as [|b w IH]; intros rest Hw; [reflexivity|].
  inversion Hw as [|? ? Hb Hw']; subst. cbn [app fields_acc]. rewrite (ws_is_space b Hb). apply IH. exact Hw'.
Qed.

Lemma fields_acc_ws_flush w cur : forall rest, is_ws w -> w <> [] -> cur <> [] ->
  fields_acc cur (w ++ rest) = frev cur :: fields_acc [] rest.
Proof.
  intros rest Hw Hne Hc. destruct w as [|b w]; [congruence|].
  inversion Hw as [|? ? Hb Hw']; subst. cbn [app fields_acc]. rewrite (ws_is_space b Hb).
  destruct cur; [congruence|]. f_equal. apply fields_acc_ws. exact Hw'.
Qed.

Lemma fields_acc_end cur : cur <> [] -> fields_acc cur [] = [frev cur].
Proof. destruct cur; [congruence|reflexivity]. Qed.

Lemma frev_rev_app (t : bytes) : t <> [] -> frev (rev t ++ []) = t /\ rev t ++ [] <> [].
Proof.
  intros Ht. rewrite app_nil_r, frev_rev, rev_involutive. split; [reflexivity|].
  intros E. apply Ht. rewrite <- (rev_involutive t), E. reflexivity.
Qed.

Definition hd_sep (seps : list bytes) : bytes := match seps with s :: _ => s | [] => [32%N] end.

Lemma render_cons2 lead t t2 ts seps trail :
  render lead (t :: t2 :: ts) seps trail = lead ++ t ++ render (hd_sep seps) (t2 :: ts) (tl seps) trail.
Proof. destruct seps; reflexivity. Qed.

Lemma render_lead lead toks seps trail : render lead toks seps trail = lead ++ render [] toks seps trail.
Proof. destruct toks as [|t [|t2 ts]]; [reflexivity|reflexivity|]. rewrite !render_cons2. reflexivity. Qed.

(* layout (spacing) never changes the token list *)
Theorem fields_layout : forall toks seps lead trail,
  Forall is_token toks -> Forall (fun s => is_ws s /\ s <> []) seps -> is_ws lead -> is_ws trail ->
  fields (render lead toks seps trail) = toks.
Proof.
  unfold fields.
  induction toks as [|t ts IH]; intros seps lead trail Ht Hs Hl Htr.
  - cbn [render]. rewrite fields_acc_ws by exact Hl.
    rewrite <- (app_nil_r trail). rewrite fields_acc_ws by exact Htr. reflexivity.
  - inversion Ht as [|? ? [Hne Htok] Ht']; subst.
    destruct (frev_rev_app t Hne) as [Hfr Hnn].
    destruct ts as [|t2 ts'].
    + cbn [render]. rewrite fields_acc_ws by exact Hl. rewrite fields_acc_token by exact Htok.
      destruct trail as [|b trail'].
      * rewrite fields_acc_end by exact Hnn. rewrite Hfr. reflexivity.
      * rewrite <- (app_nil_r (b :: trail')). rewrite fields_acc_ws_flush; [|exact Htr|discriminate|exact Hnn].
        rewrite Hfr. reflexivity.
    + rewrite render_cons2. rewrite fields_acc_ws by exact Hl. rewrite fields_acc_token by exact Htok.
      assert (Hsep : is_ws (hd_sep seps) /\ hd_sep seps <> []).
      { destruct seps as [|s ss]; cbn [hd_sep]; [split; [constructor; [reflexivity|constructor]|discriminate]|].
        inversion Hs as [|? ? Hx _]; subst. exact Hx. }
      destruct Hsep as [Hws Hsne].
      assert (Hs' : Forall (fun s => is_ws s /\ s <> []) (tl seps)).
      { destruct seps; [constructor|]. inversion Hs; assumption. }
      rewrite render_lead. rewrite fields_acc_ws_flush; [|exact Hws|exact Hsne|exact Hnn].
      rewrite Hfr. f_equal.
      specialize (IH (tl seps) [] trail Ht' Hs' ltac:(constructor) Htr). exact IH.
Qed.

(* comments are ignored *)
Lemma strip_comment_no_hash l : Forall (fun b => (b =? 35)%N = false) l -> strip_comment l = l.
Proof.
  induction 1 as [|b l Hb _ IH]; [reflexivity|]. cbn [strip_comment]. rewrite Hb, IH. reflexivity.
Qed.
Theorem strip_comment_cut l c : Forall (fun b => (b =? 35)%N = false) l -> strip_comment (l ++ 35%N :: c) = l.
Proof.
  induction 1 as [|b l Hb _ IH]; cbn [app strip_comment]; [reflexivity|]. rewrite Hb, IH. reflexivity.
Qed.

Lemma ws_no_hash w : is_ws w -> Forall (fun b => (b =? 35)%N = false) w.
Proof. induction 1 as [|b w Hb _ IH]; constructor; [unfold ws_byte in Hb; lia|exact IH]. Qed.
Lemma token_no_hash t : Forall (fun b => token_byte b = true) t -> Forall (fun b => (b =? 35)%N = false) t.
Proof. induction 1 as [|b t Hb _ IH]; constructor; [unfold token_byte in Hb; lia|exact IH]. Qed.

Lemma render_no_hash : forall toks seps lead trail,
  Forall is_token toks -> Forall (fun s => is_ws s /\ s <> []) seps -> is_ws lead -> is_ws trail ->
  Forall (fun b => (b =? 35)%N = false) (render lead toks seps trail).
Proof.
  induction toks as [|t ts IH]; intros seps lead trail Ht Hs Hl Htr.
  - cbn [render]. apply Forall_app. split; apply ws_no_hash; assumption.
  - inversion Ht as [|? ? [Hne Htok] Ht']; subst. destruct ts as [|t2 ts'].
    + cbn [render]. repeat (apply Forall_app; split); [apply ws_no_hash| apply token_no_hash|apply ws_no_hash]; assumption.
    + rewrite render_cons2.
      repeat (apply Forall_app; split); [apply ws_no_hash; assumption|apply token_no_hash; assumption|].
      apply IH; [exact Ht'| | |exact Htr].
      * destruct seps; [constructor|]. inversion Hs; assumption.
      * destruct seps as [|s ss]; cbn [hd_sep]; [constructor; [reflexivity|constructor]|].
        inversion Hs as [|? ? [Hx _] _]; subst. exact Hx.
Qed.

(* a rendered line, with or without a trailing comment, is seen as its tokens *)
Theorem line_tokens toks seps lead trail comment :
  Forall is_token toks -> Forall (fun s => is_ws s /\ s <> []) seps -> is_ws lead -> is_ws trail ->
  fields (strip_comment (with_comment (render lead toks seps trail) comment)) = toks.
Proof.
  intros Ht Hs Hl Htr. pose proof (render_no_hash toks seps lead trail Ht Hs Hl Htr) as Hn.
  destruct comment as [c|]; cbn [with_comment].
  - rewrite strip_comment_cut by exact Hn. apply fields_layout; assumption.
  - rewrite strip_comment_no_hash by exact Hn. apply fields_layout; assumption.
Qed.

(* blank, whitespace-only and comment-only lines are skipped *)
Theorem blank_lines_skipped w comment : is_ws w -> classify_line (with_comment w comment) = LSkip.
Proof.
  intros Hw. unfold classify_line.
  assert (E : strip_comment (with_comment w comment) = w).
  { destruct comment; cbn [with_comment]; [apply strip_comment_cut|apply strip_comment_no_hash]; apply ws_no_hash; exact Hw. }
  rewrite E. destruct w as [|b w']; [reflexivity|].
  replace (fields (b :: w')) with (@nil str); [reflexivity|].
  symmetry. unfold fields. rewrite <- (app_nil_r (b :: w')). rewrite fields_acc_ws by exact Hw. reflexivity.
Qed.

(* classification depends on the tokens only *)
Theorem classify_by_tokens toks seps lead trail comment :
  Forall is_token toks -> Forall (fun s => is_ws s /\ s <> []) seps -> is_ws lead -> is_ws trail -> toks <> [] ->
  classify_line (with_comment (render lead toks seps trail) comment) =
  match toks with
  | [k; a; b; c] =>
    if beq k (s2b "ATTRIBUTE") then LAttr a b c None
    else if beq k (s2b "VALUE") then LValue a b c
    else if beq k (s2b "VENDOR") then LVendor a b (Some c) else LUnknown
  | [k; a; b; c; e] => if beq k (s2b "ATTRIBUTE") then LAttr a b c (Some e) else LUnknown
  | [k; a; b] => if beq k (s2b "VENDOR") then LVendor a b None else LUnknown
  | [k; a] =>
    if beq k (s2b "BEGIN-VENDOR") then LBegin a else if beq k (s2b "END-VENDOR") then LEnd a
    else if beq k (s2b "$INCLUDE") then LInclude a else LUnknown
  | _ => LUnknown
  end.
Proof.
  intros Ht Hs Hl Htr Hne. unfold classify_line.
  pose proof (line_tokens toks seps lead trail comment Ht Hs Hl Htr) as Hf.
  destruct (strip_comment (with_comment (render lead toks seps trail) comment)) as [|b0 r0] eqn:Es.
  - (* impossible: the stripped line still contains the first token *)
    exfalso. unfold fields in Hf. cbn [fields_acc] in Hf. apply Hne. symmetry. exact Hf.
  - rewrite Hf. destruct toks as [|k [|a [|b [|c [|e [|x r]]]]]]; try reflexivity. congruence.
Qed.

(* ---------------- numerals ---------------- *)
Lemma digits_val_dec : forall s acc,
  digits_val 10 acc s = if all_dec s then Some (fold_left (fun a b => (a * 10 + (Z.of_N b - 48))%Z) s acc) else None.
Proof.
  induction s as [|b s IH]; intros acc; [reflexivity|]. cbn [digits_val all_dec forallb fold_left].
  unfold digit_val, is_dec at 1. destruct ((48 <=? b)%N && (b <=? 57)%N) eqn:E; cbn [andb].
  - replace (Z.of_N b - 48 <? 10)%Z with true by lia. apply IH.
  - destruct ((97 <=? b)%N && (b <=? 102)%N) eqn:E2.
    + replace (Z.of_N b - 87 <? 10)%Z with false by lia. reflexivity.
    + destruct ((65 <=? b)%N && (b <=? 70)%N) eqn:E3; [|reflexivity].
      replace (Z.of_N b - 55 <? 10)%Z with false by lia. reflexivity.
Qed.

(* VALUE numbers, decimal: exactly the non-empty digit strings below 2^32 *)
Theorem parse_uint32_dec_iff s v :
  parse_uint32 10 s = Some v <-> s <> [] /\ all_dec s = true /\ dec_value s = v /\ (v < 4294967296)%Z.
Proof.
  unfold parse_uint32, dec_value. destruct s as [|b r]; [split; [discriminate|intros [H _]; congruence]|].
  rewrite digits_val_dec. destruct (all_dec (b :: r)).
  - set (x := fold_left _ _ _). destruct (Z.ltb_spec x 4294967296); split.
    + intros E; inversion E; subst. repeat split; auto. discriminate.
    + intros (_ & _ & E & _). congruence.
    + discriminate.
    + intros (_ & _ & E & Hlt). lia.
  - split; [discriminate|intros (_ & E & _); discriminate].
Qed.

Lemma digit_val_hex b : digit_val b = if is_hex b then Some (hex_digit b) else None.
Proof.
  unfold digit_val, is_hex, hex_digit, is_dec.
  destruct ((48 <=? b)%N && (b <=? 57)%N) eqn:E; cbn [orb]; [reflexivity|].
  destruct ((97 <=? b)%N && (b <=? 102)%N) eqn:E2; cbn [orb].
  - replace (97 <=? b)%N with true by lia. reflexivity.
  - destruct ((65 <=? b)%N && (b <=? 70)%N) eqn:E3; [|reflexivity].
    replace (97 <=? b)%N with false by lia. reflexivity.
Qed.
Lemma hex_digit_lt b : is_hex b = true -> (hex_digit b <? 16)%Z = true.
Proof. unfold is_hex, hex_digit, is_dec. intros H. destruct ((48 <=? b)%N && (b <=? 57)%N) eqn:E; [lia|].
  destruct (97 <=? b)%N eqn:E2; lia. Qed.

Lemma digits_val_hex : forall s acc,
  digits_val 16 acc s = if forallb is_hex s then Some (fold_left (fun a b => (a * 16 + hex_digit b)%Z) s acc) else None.
Proof.
  induction s as [|b s IH]; intros acc; [reflexivity|]. cbn [digits_val forallb fold_left].
  rewrite digit_val_hex. destruct (is_hex b) eqn:E; cbn [andb]; [|reflexivity].
  rewrite (hex_digit_lt b E). apply IH.
Qed.

(* VALUE numbers, 0x-prefixed hexadecimal *)
Theorem parse_uint32_hex_iff s v :
  parse_uint32 16 s = Some v <-> s <> [] /\ forallb is_hex s = true /\ hex_value s = v /\ (v < 4294967296)%Z.
Proof.
  unfold parse_uint32, hex_value. destruct s as [|b r]; [split; [discriminate|intros [H _]; congruence]|].
  rewrite digits_val_hex. destruct (forallb is_hex (b :: r)).
  - set (x := fold_left _ _ _). destruct (Z.ltb_spec x 4294967296); split.
    + intros E; inversion E; subst. repeat split; auto. discriminate.
    + intros (_ & _ & E & _). congruence.
    + discriminate.
    + intros (_ & _ & E & Hlt). lia.
  - split; [discriminate|intros (_ & E & _); discriminate].
Qed.

(* vendor numbers, encrypt=N, octets[N]: optional sign, digits, 32-bit range *)
Lemma int32_body_pos_iff s v :
  int32_body false s = Some v <-> s <> [] /\ all_dec s = true /\ dec_value s = v /\ (v < 2147483648)%Z.
Proof.
  unfold int32_body, dec_value. destruct s as [|b r]; [split; [discriminate|intros [H _]; congruence]|].
  rewrite digits_val_dec. destruct (all_dec (b :: r)).
  - set (x := fold_left _ _ _). destruct (Z.ltb_spec x 2147483648); split.
    + intros E'; inversion E'; subst. repeat split; auto. discriminate.
    + intros (_ & _ & E' & _). congruence.
    + discriminate.
    + intros (_ & _ & E' & Hlt). lia.
  - split; [discriminate|intros (_ & E' & _); discriminate].
Qed.

Theorem parse_int32_unsigned b r v : b <> 43%N -> b <> 45%N ->
  (parse_int32 (b :: r) = Some v <->
   all_dec (b :: r) = true /\ dec_value (b :: r) = v /\ (v < 2147483648)%Z).
Proof.
  intros Hp Hm. unfold parse_int32.
  destruct (N.eqb_spec b 43); [contradiction|]. destruct (N.eqb_spec b 45); [contradiction|].
  rewrite int32_body_pos_iff. split; [tauto|]. intros H. split; [discriminate|exact H].
Qed.

Theorem parse_int32_rejects_non_numeric s : s = [] \/ (all_dec s = false /\ all_dec (skipn 1 s) = false) ->
  parse_int32 s = None.
Proof.
  intros [->|[H1 H2]]; [reflexivity|]. unfold parse_int32.
  destruct s as [|b r]; [reflexivity|]. cbn [skipn] in H2.
  assert (Hb : forall neg l, all_dec l = false -> int32_body neg l = None).
  { intros neg l Hl. unfold int32_body. destruct l; [reflexivity|]. rewrite digits_val_dec, Hl. reflexivity. }
  destruct (b =? 43)%N; [apply Hb; exact H2|]. destruct (b =? 45)%N; [apply Hb; exact H2|]. apply Hb. exact H1.
Qed.

(* ---------------- state rules of the statement ---------------- *)
Section Rules.
Variable ign : bool.

(* declarations are recorded in declaration order, in the scope of the open vendor block *)
Theorem attribute_recorded d f1 f2 f3 f4 a :
  parse_attribute f1 f2 f3 f4 = Ok a -> attr_by_name (d_attrs d) (a_name a) = None ->
  apply_simple ign d None (LAttr f1 f2 f3 f4) = Ok (mkdict (d_attrs d ++ [a]) (d_values d) (d_vendors d), None).
Proof. intros Hp Hn. cbn [apply_simple]. rewrite Hp, Hn. reflexivity. Qed.

Theorem vendor_attribute_recorded d i v f1 f2 f3 f4 a :
  parse_attribute f1 f2 f3 f4 = Ok a -> nth_error (d_vendors d) i = Some v -> attr_by_name (vn_attrs v) (a_name a) = None ->
  apply_simple ign d (Some i) (LAttr f1 f2 f3 f4) =
  Ok (mkdict (d_attrs d) (d_values d)
        (update_at i (mkvendor (vn_name v) (vn_number v) (vn_format v) (vn_attrs v ++ [a]) (vn_values v)) (d_vendors d)), Some i).
Proof. intros Hp Hv Hn. cbn [apply_simple]. rewrite Hp, Hv, Hn. unfold upd_vendor. rewrite Hv. reflexivity. Qed.

Theorem value_recorded d f1 f2 f3 v :
  parse_value f1 f2 f3 = Ok v ->
  apply_simple ign d None (LValue f1 f2 f3) = Ok (mkdict (d_attrs d) (d_values d ++ [v]) (d_vendors d), None).
Proof. intros Hp. cbn [apply_simple]. rewrite Hp. reflexivity. Qed.

Theorem vendor_recorded d vb f1 f2 f3 v :
  parse_vendor f1 f2 f3 = Ok v -> vendor_by_name_or_number (d_vendors d) (vn_name v) (vn_number v) = false ->
  apply_simple ign d vb (LVendor f1 f2 f3) = Ok (mkdict (d_attrs d) (d_values d) (d_vendors d ++ [v]), vb).
Proof. intros Hp Hn. cbn [apply_simple]. rewrite Hp, Hn. reflexivity. Qed.

(* duplicates and vendor-block misuse are rejected *)
Theorem duplicate_attribute_rejected d f1 f2 f3 f4 a ex :
  parse_attribute f1 f2 f3 f4 = Ok a -> attr_by_name (d_attrs d) (a_name a) = Some ex ->
  ign && attr_equals a ex = false ->
  apply_simple ign d None (LAttr f1 f2 f3 f4) = Err PE_dupattr.
Proof. intros Hp Hn Hi. cbn [apply_simple]. rewrite Hp, Hn, Hi. reflexivity. Qed.
Theorem duplicate_vendor_rejected d vb f1 f2 f3 v :
  parse_vendor f1 f2 f3 = Ok v -> vendor_by_name_or_number (d_vendors d) (vn_name v) (vn_number v) = true ->
  apply_simple ign d vb (LVendor f1 f2 f3) = Err PE_dupvendor.
Proof. intros Hp Hn. cbn [apply_simple]. rewrite Hp, Hn. reflexivity. Qed.
Theorem unknown_vendor_rejected d n : vendor_index_by_name (d_vendors d) n 0 = None ->
  apply_simple ign d None (LBegin n) = Err PE_unkvendor.
Proof. intros Hn. cbn [apply_simple]. rewrite Hn. reflexivity. Qed.
Theorem nested_block_rejected d i n : apply_simple ign d (Some i) (LBegin n) = Err PE_nested.
Proof. reflexivity. Qed.
Theorem unmatched_end_rejected d n : apply_simple ign d None (LEnd n) = Err PE_unmatched.
Proof. reflexivity. Qed.
Theorem mismatched_end_rejected d i v n : nth_error (d_vendors d) i = Some v -> beq (vn_name v) n = false ->
  apply_simple ign d (Some i) (LEnd n) = Err PE_badend.
Proof. intros Hv Hb. cbn [apply_simple]. rewrite Hv, Hb. reflexivity. Qed.
Theorem unclosed_block_rejected opener recur path fname lineNo i d tr :
  parse_lines ign opener recur path fname [] lineNo (Some i) d tr = (PFail (ParseErr PE_unclosed fname (lineNo - 1)), tr).
Proof. reflexivity. Qed.
Theorem unknown_line_rejected d vb : apply_simple ign d vb LUnknown = Err PE_unkline.
Proof. reflexivity. Qed.

(* unknown types and flags, repeated flags, non-numeric numbers *)
Theorem unknown_flag_rejected f a r : has_prefix (s2b "encrypt=") f = false -> beq f (s2b "has_tag") = false ->
  beq f (s2b "concat") = false -> apply_flags (f :: r) a = Err PE_flag.
Proof. intros H1 H2 H3. cbn [apply_flags]. rewrite H1, H2, H3. reflexivity. Qed.
Theorem repeated_has_tag_rejected a r : a_has_tag a = true -> apply_flags (s2b "has_tag" :: r) a = Err PE_dupflag.
Proof. intros H1. cbn [apply_flags]. change (has_prefix (s2b "encrypt=") (s2b "has_tag")) with false. cbn iota.
  rewrite beq_refl, H1. reflexivity. Qed.
Theorem repeated_concat_rejected a r : a_concat a = true -> apply_flags (s2b "concat" :: r) a = Err PE_dupflag.
Proof. intros H1. cbn [apply_flags]. change (has_prefix (s2b "encrypt=") (s2b "concat")) with false. cbn iota.
  change (beq (s2b "concat") (s2b "has_tag")) with false. cbn iota. rewrite beq_refl, H1. reflexivity. Qed.
Theorem bad_value_number_rejected f1 f2 f3 :
  (if has_prefix (s2b "0x") f3 then parse_uint32 16 (skipn 2 f3) else parse_uint32 10 f3) = None ->
  parse_value f1 f2 f3 = Err PE_valnum.
Proof. intros H. unfold parse_value. rewrite H. reflexivity. Qed.
Theorem bad_vendor_number_rejected f1 f2 f3 : parse_int32 f2 = None -> parse_vendor f1 f2 f3 = Err PE_vendnum.
Proof. intros H. unfold parse_vendor. rewrite H. reflexivity. Qed.
Theorem bad_oid_rejected f1 f2 f3 f4 : parse_oid f2 = [] -> parse_attribute f1 f2 f3 f4 = Err PE_oid.
Proof. intros H. unfold parse_attribute. rewrite H. reflexivity. Qed.
End Rules.
