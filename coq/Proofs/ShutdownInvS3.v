(* Proofs/ShutdownInvS3.v — one slice of the preservation proof of the Serve/Shutdown invariant (split for parallel compilation). *)
From Radius Require Import Base.Bytes Base.Res Model.Shutdown Proofs.ShutdownInv.
From Coq Require Import ZifyBool ZifyNat ZifyN.
Open Scope nat_scope.
Section Step.
Variable s : state.
Hypothesis Ia : active s = (Z.of_nat (cnt holds (threads s)) - (if sdec s then 1 else 0))%Z.
Hypothesis Ic : closes s = if sdec s && (cnt holds (threads s) =? 0) then 1 else 0.
Hypothesis Im : cnt in_cs (threads s) = if mu s then 1 else 0.
Hypothesis Ir : shut s = true -> cnt at_reg (threads s) = 0.
Hypothesis Il : cnt closing (threads s) = if shut s && negb (sdec s) then 1 else 0.
Hypothesis Isd : sdec s = true -> shut s = true.
Hypothesis Inl : 0 < cnt at_nil (threads s) -> closes s = 1.
Hypothesis Icl : shut s = true -> cnt at_hclose (threads s) = 0 -> incl (regs s) (closedc s).
Hypothesis Icn : shut s = true -> cnt pre_cancel (threads s) = 0 -> cancelled s = true.
Ltac fin := finish s Ir Isd Inl Icl Icn.
Lemma serve_c i c a s' : nth_error (threads s) i = Some (TServe c S_reading) -> step_serve false s i c S_reading a = Some s' -> Inv s'.
Proof.
  intros Hn Hs. destruct a; cbn [step_serve] in Hs; try discriminate.
  - inversion Hs; subst s'; clear Hs.
    pose proof (cnt_ge1 holds _ _ _ Hn eq_refl) as Hh1.
    destruct (sdec s) eqn:Esd_; destruct (shut s) eqn:Esh_; destruct (mu s) eqn:Emu_;
    cbn [andb negb] in *; try discriminate; try congruence;
    try specialize (Ir eq_refl); try specialize (Isd eq_refl);
    try specialize (Icl eq_refl); try specialize (Icn eq_refl);
    try discriminate; try (exfalso; lia);
    constructor; fields; rewrite ?cnt_app; cbn [cnt holds in_cs at_reg closing at_nil at_hclose pre_cancel andb negb];
    field s Inl Icl.
  - destruct (shut s) eqn:Esh.
    + inversion Hs; subst s'; clear Hs.
      counts Hn (TServe c (S_exit RetShutdown)). fin.
    + destruct temporary; inversion Hs; subst s'; clear Hs.
      * constructor; fields; field s Inl Icl.
      * counts Hn (TServe c (S_exit RetErr)). fin.
Qed.
End Step.
