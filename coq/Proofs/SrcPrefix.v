(* Proofs/SrcPrefix.v — IPv6Prefix of attribute.go as translated (Gen/Src.v)
   is the decoder of Model/Codecs.v (hence of Spec/C10.v), for all inputs. *)
From Coq Require Import String.
From Radius Require Import Base.Bytes Base.Res Base.Guard Base.GoLite Gen.Src Crypto.MD5 Proofs.SrcBase Proofs.SrcCtx Model.SrcRun
  Model.Attrs Model.Codecs Spec.C10 Proofs.Codecs Proofs.Prefix Proofs.Guards.
Open Scope list_scope.
Open Scope nat_scope.

(* the test the inner loop performs on bit j (numbered from the most significant) of octet b *)
Definition bit_set (b : N) (j : nat) : bool :=
  negb (Z.land (Z.of_N b) (wrap 8 false (Z.shiftl 1 (wrap 64 false (7 - Z.of_nat j)))) =? 0)%Z.
Definition bits_clear (b : N) (k : nat) : bool := forallb (fun j => negb (bit_set b j)) (seq k (8 - k)).

Lemma bits_clear_low_zero b k : byte_ok b -> k <= 8 -> bits_clear b k = low_zero b k.
Proof.
  intros Hb Hk. unfold byte_ok in Hb.
  assert (F : forallb (fun bn => forallb (fun kk => Bool.eqb (bits_clear (N.of_nat bn) kk) (low_zero (N.of_nat bn) kk)) (seq 0 9)) (seq 0 256) = true)
    by (vm_compute; reflexivity).
  rewrite forallb_forall in F. specialize (F (N.to_nat b) ltac:(apply in_seq; lia)).
  rewrite forallb_forall in F. specialize (F k ltac:(apply in_seq; lia)).
  rewrite N2Nat.id in F. apply Bool.eqb_prop. exact F.
Qed.

Ltac fold_for name :=
  match goal with |- context[SFor ?c ?p ?b] => change (SFor c p b) with name end.

Lemma nth_skipn_cons (l : bytes) i : i < length l -> skipn i l = nth i l 0%N :: skipn (S i) l.
Proof.
  revert i; induction l as [|x l IH]; intros [|i] H; cbn [length] in H; try lia; [reflexivity|].
  cbn [skipn nth]. apply IH. lia.
Qed.

Section P.
Variable cx : ctx.
Definition px_body : stmt := f_body (fn src_IPv6Prefix).
Definition px_outer : stmt :=
  match px_body with
  | SSeq _ (SSeq _ (SSeq _ (SSeq _ (SSeq _ (SSeq _ (SSeq (SSeq _ f) _)))))) => f
  | _ => SSkip
  end.
Definition px_inner : stmt :=
  match for_body px_outer with
  | SSeq f _ => f
  | _ => SSkip
  end.

(* inner loop: bits k..7 of ip[octet] *)
Lemma px_inner_loop n m (c0 c1 : val) ip octet : octet < length ip -> forall k,
  k <= 8 -> 8 - k < m ->
  loop (fun e => eval cx e (for_cond px_inner)) (exec cx n (for_body px_inner)) (exec cx n (for_post px_inner)) m
     [c0; c1; VBytes ip; VInt (Z.of_nat k); VInt (Z.of_nat octet)] =
  if bits_clear (nth octet ip 0%N) k
  then ONorm [c0; c1; VBytes ip; VInt 8; VInt (Z.of_nat octet)]
  else ORet (VTup [VNil; VErr]).
Proof.
  intros Ho. induction m as [|m IH]; intros k Hk Hm; [lia|].
  loop_step L. cbn [px_inner px_outer px_body for_cond for_body for_post fn src_IPv6Prefix f_body]. go.
  destruct (Nat.eq_dec k 8) as [->|Hne].
  { golia. go. reflexivity. }
  golia. go.
  unfold bits_clear. replace (8 - k) with (S (8 - S k)) by lia. cbn [seq forallb].
  unfold bit_set at 1.
  rewrite !(wrap_small 64 (7 - Z.of_nat k)) by (change (2 ^ 64)%Z with 18446744073709551616%Z; lia). golia. go.
  destruct (Z.land (Z.of_N (nth octet ip 0%N)) (wrap 8 false (Z.shiftl 1 (7 - Z.of_nat k))) =? 0)%Z eqn:E; go.
  - cbn [negb andb]. subst L.
    replace (wrap 64 false (Z.of_nat k + 1)) with (Z.of_nat (S k)) by (rewrite wrap_small; [lia|change (2 ^ 64)%Z with 18446744073709551616%Z; lia]).
    rewrite IH by lia. reflexivity.
  - reflexivity.
Qed.

Lemma px_inner_is_for : match px_inner with SFor _ _ _ => True | _ => False end.
Proof. exact I. Qed.

Fixpoint tail_clear (l : bytes) (k : nat) : bool :=
  match l with [] => true | b :: r => bits_clear b k && tail_clear r 0 end.

Lemma px_outer_loop n m (c0 c1 : val) ip : 8 < n -> forall octet k,
  octet <= length ip -> k <= 8 -> length ip - octet < m ->
  exists k',
  loop (fun e => eval cx e (for_cond px_outer)) (exec cx n (for_body px_outer)) (exec cx n (for_post px_outer)) m
     [c0; c1; VBytes ip; VInt (Z.of_nat k); VInt (Z.of_nat octet)] =
  if tail_clear (skipn octet ip) k
  then ONorm [c0; c1; VBytes ip; VInt k'; VInt (Z.of_nat (length ip))]
  else ORet (VTup [VNil; VErr]).
Proof.
  intros Hn. induction m as [|m IH]; intros octet k Ho Hk Hm; [lia|].
  loop_step L. cbn [px_outer px_body for_cond for_body for_post fn src_IPv6Prefix f_body].
  fold_for px_inner. remember px_inner as F eqn:HF. go.
  destruct (Nat.eq_dec octet (length ip)) as [->|Hne].
  { golia. go. rewrite skipn_all. cbn [tail_clear]. eexists. reflexivity. }
  golia. go. subst F. rewrite exec_for by exact px_inner_is_for.
  rewrite px_inner_loop by lia.
  rewrite (nth_skipn_cons ip octet) by lia. cbn [tail_clear].
  destruct (bits_clear (nth octet ip 0%N) k); go; [|exists 0%Z; reflexivity].
  replace (Z.of_nat octet + 1)%Z with (Z.of_nat (S octet)) by lia. subst L.
  destruct (IH (S octet) 0 ltac:(lia) ltac:(lia) ltac:(lia)) as [k' Hk']. change (Z.of_nat 0) with 0%Z in Hk'.
  exists k'. exact Hk'.
Qed.
End P.

Lemma tail_clear_model l k : bytes_ok l -> k <= 8 ->
  tail_clear l k = match l with [] => true | b :: r => low_zero b k && all_zero r end.
Proof.
  intros Hl Hk. destruct l as [|b r]; [reflexivity|]. cbn [tail_clear]. inversion Hl as [|? ? Hb Hr]; subst.
  rewrite bits_clear_low_zero by assumption. f_equal.
  clear -Hr. induction r as [|x r IH]; [reflexivity|]. cbn [tail_clear all_zero forallb]. inversion Hr as [|? ? Hx Hr']; subst.
  rewrite bits_clear_low_zero by (assumption || lia). rewrite IH by assumption. f_equal.
  unfold low_zero, byte_ok in *. change (2 ^ N.of_nat (8 - 0))%N with 256%N. rewrite N.mod_small by lia. reflexivity.
Qed.

Lemma px_outer_is_for : match px_outer with SFor _ _ _ => True | _ => False end.
Proof. exact I. Qed.

Lemma ipv6prefix_short a : length a < 2 \/ 18 < length a -> ipv6prefix a = Err E_invalid.
Proof.
  intros H. unfold ipv6prefix. rewrite g_IPv6Prefix_0, g_IPv6Prefix_1. unfold zlen.
  replace ((Z.of_nat (length a) <? 2)%Z || (Z.of_nat (length a) >? 18)%Z) with true by lia. reflexivity.
Qed.

Lemma ipv6prefix_body r0 pl data : length data <= 16 ->
  ipv6prefix (r0 :: pl :: data) =
  if (Z.of_N pl >? 128)%Z then Err E_invalid else
  let ip := firstn 16 (pad_to 16 data) in
  let p := N.to_nat pl in
  if match skipn (p / 8) ip with [] => true | b :: r => low_zero b (p mod 8) && all_zero r end
  then Ok (ip, cidr_mask p 16) else Err E_invalid.
Proof.
  intros H. unfold ipv6prefix. rewrite g_IPv6Prefix_0, g_IPv6Prefix_1, g_IPv6Prefix_2. unfold zlen. cbn [length].
  replace ((Z.of_nat (S (S (length data))) <? 2)%Z || (Z.of_nat (S (S (length data))) >? 18)%Z) with false by lia.
  reflexivity.
Qed.

Arguments ipv6prefix : simpl never.

Theorem src_IPv6Prefix_model cx n a : uses_prims cx -> bytes_ok a -> 16 < n ->
  run cx n (fn src_IPv6Prefix) [VBytes a] =
  Some (Some (ret_res (ipv6prefix a) (fun r => VRec [VBytes (fst r); VBytes (snd r)]) VNil)).
Proof.
  intros Hp Ha Hn. unfold run, ret_res.
  cbn [fn src_IPv6Prefix f_body f_params f_locals].
  match goal with |- context[SFor ?c ?q ?b] =>
    match b with context[SFor _ _ _] => change (SFor c q b) with px_outer end end.
  remember px_outer as FO eqn:HFO.
  go.
  destruct (Z.of_nat (length a) <? 2)%Z eqn:E1; go; [rewrite ipv6prefix_short by lia; reflexivity|].
  destruct (Z.of_nat (length a) >? 18)%Z eqn:E2; go; [rewrite ipv6prefix_short by lia; reflexivity|].
  destruct a as [|r0 [|pl data]]; cbn [length] in *; try lia.
  rewrite ipv6prefix_body by lia. cbv zeta.
  remember (firstn 16 (pad_to 16 data)) as ipm eqn:Hipm.
  remember (N.to_nat pl / 8) as oc eqn:Hoc. remember (N.to_nat pl mod 8) as bt eqn:Hbt.
  remember (cidr_mask (N.to_nat pl) 16) as msk eqn:Hmsk.
  cbn [nth]. go.
  destruct (Z.of_N pl >? 128)%Z eqn:E3; go; [reflexivity|].
  cbn [skipn].
  replace (S (S (length data)) - 2) with (length data) by lia. rewrite firstn_all.
  (* ip := make(16); copy(ip, a[2:]) *)
  rewrite copy_into_gen by (rewrite ?repeat_length; lia). go. cbn [firstn app Nat.add].
  set (ip := data ++ skipn (length data) (repeat 0%N 16)).
  assert (Hip : ip = ipm).
  { subst ipm. unfold ip, pad_to. rewrite firstn_all2 by (rewrite app_length, repeat_length; lia). f_equal.
    clear. generalize (length data). intros d. destruct (Nat.le_gt_cases d 16) as [H|H].
    - replace 16 with (d + (16 - d)) at 1 by lia. rewrite repeat_app. apply skipn_app_exact. rewrite repeat_length. reflexivity.
    - rewrite skipn_all2 by (rewrite repeat_length; lia). replace (16 - d) with 0 by lia. reflexivity. }
  assert (Lip : length ip = 16).
  { unfold ip. rewrite app_length, skipn_length, repeat_length. lia. }
  set (p := N.to_nat pl).
  assert (Hk : wrap 64 false (Z.rem (Z.of_N pl) 8) = Z.of_nat (p mod 8)).
  { rewrite Z.rem_mod_nonneg by lia. rewrite wrap_small; [unfold p; rewrite Nat2Z.inj_mod; lia|].
    change (2 ^ 64)%Z with 18446744073709551616%Z. pose proof (Z.mod_pos_bound (Z.of_N pl) 8 ltac:(lia)). lia. }
  assert (Ho : (Z.of_N pl ÷ 8)%Z = Z.of_nat (p / 8)).
  { rewrite Z.quot_div_nonneg by lia. unfold p. rewrite Nat2Z.inj_div. lia. }
  rewrite Hk, Ho.
  subst FO. rewrite exec_for by exact px_outer_is_for.
  destruct (px_outer_loop cx n n (VBytes (r0 :: pl :: data)) (VInt (Z.of_N pl)) ip ltac:(lia) (p / 8) (p mod 8)
              ltac:(rewrite Lip; unfold p; assert (N.to_nat pl <= 128) by lia; apply Nat.div_le_upper_bound; lia)
              ltac:(pose proof (Nat.mod_upper_bound p 8 ltac:(lia)); lia) ltac:(lia)) as [k' Hl].
  rewrite Hl.
  assert (Hok_ip : bytes_ok ip).
  { unfold ip. apply bytes_ok_app. split; [inversion Ha as [|? ? ? H2]; inversion H2; assumption|apply bytes_ok_skipn, bytes_ok_repeat0]. }
  rewrite tail_clear_model by (try apply bytes_ok_skipn; try assumption; pose proof (Nat.mod_upper_bound p 8 ltac:(lia)); lia).
  rewrite <- Hip. subst oc bt. fold p.
  destruct (match skipn (p / 8) ip with [] => true | b :: r => low_zero b (p mod 8) && all_zero r end) eqn:Eok; go; [|reflexivity].
  rewrite (Hp "net.CIDRMask"%string) by reflexivity. cbn [prims String.eqb Ascii.eqb Bool.eqb].
  replace (((128 =? 32) || (128 =? 128)) && (0 <=? Z.of_N pl) && (Z.of_N pl <=? 128))%Z with true by lia.
  go. change (Z.to_nat (128 / 8)) with 16. replace (Z.to_nat (Z.of_N pl)) with p by (unfold p; lia). subst msk. reflexivity.
Qed.

(* ... and of Spec/C10.v *)
Theorem src_IPv6Prefix_spec cx n a : uses_prims cx -> bytes_ok a -> 16 < n ->
  run cx n (fn src_IPv6Prefix) [VBytes a] =
  Some (Some (ret_res (spec_ipv6prefix a) (fun r => VRec [VBytes (fst r); VBytes (snd r)]) VNil)).
Proof. intros. rewrite <- ipv6prefix_eq by assumption. apply src_IPv6Prefix_model; assumption. Qed.
