(* State-independent facts about the step function of Model/Dispatch.v, for EVERY state (no invariant assumed): the
   in-flight table is written at two sites only — inserted into by an arriving datagram that is dispatched (exactly
   its own key, which was absent), deleted from by the deferred clean-up of a goroutine whose handler has returned
   (exactly its own key) — and a handler is started only together with such an insertion. *)
From Coq Require Import List Arith NArith ZArith Lia Bool.
Import ListNotations.
From Radius Require Import Base.Bytes Base.Guard Base.Res Gen.Consts Model.Attrs Model.Packet Model.Dispatch.

Section S.
Variable H : bytes -> bytes.
Variable skip_verify : bool.
Variable secret_of : N -> secret_res.
Notation step := (dstep H skip_verify secret_of).
Notation decide := (decide H skip_verify secret_of).

Lemma dispatch_label_table_holds s e :
  let s' := fst (step s e) in
  let o := snd (step s e) in
  (* dispatched: only an arrival, accepted by [decide], whose key was absent; the key is inserted *)
  (forall r, o = ODispatched r ->
     exists from d, e = DArrive from d /\ decide from d = Some r /\
       mem (from, ident (r_packet r)) (inflight s) = false /\
       inflight s' = (from, ident (r_packet r)) :: inflight s) /\
  (* any other write to the table is the deferred delete of a goroutine whose handler has returned *)
  (inflight s' <> inflight s -> (forall r, o <> ODispatched r) ->
     exists g k, e = DClean g /\ nth_error (gs s) g = Some (GClean k) /\ inflight s' = delete k (inflight s)) /\
  (* goroutines are never forgotten *)
  length (gs s) <= length (gs s').
Proof.
  cbn zeta. unfold dstep.
  destruct e as [from d|g|g].
  - destruct (decide from d) as [r|] eqn:Hd.
    + destruct (mem (from, ident (r_packet r)) (inflight s)) eqn:Hm; cbn.
      * repeat split; [discriminate | congruence | rewrite app_length; cbn; lia].
      * repeat split.
        -- intros r0 E. inversion E; subst. exists from, d. repeat split; auto.
        -- intros _ Hn. exfalso. apply (Hn r). reflexivity.
        -- rewrite app_length; cbn; lia.
    + cbn. repeat split; [discriminate | congruence | rewrite app_length; cbn; lia].
  - destruct (nth_error (gs s) g) as [[|k|k|]|] eqn:Hn; cbn;
      (repeat split; [discriminate | congruence | ]); try lia.
    rewrite update_at_length; [lia | apply nth_error_Some; congruence].
  - destruct (nth_error (gs s) g) as [[|k|k|]|] eqn:Hn; cbn;
      (repeat split; [discriminate | try congruence | ]); try lia.
    + intros _ _. exists g, k. auto.
    + rewrite update_at_length; [lia | apply nth_error_Some; congruence].
Qed.
End S.
Print Assumptions dispatch_label_table_holds.
