(* Proofs/Auth.v — Encode / IsAuthenticResponse / IsAuthenticRequest against
   the RFC formulas (C03), for every hash function H with 16-byte output. *)
From Radius Require Import Base.Bytes Base.Guard Base.Res Gen.Consts Model.Attrs Model.Packet
  Spec.C09 Spec.C01 Spec.C03 Proofs.Guards Proofs.AttrsWire Proofs.PacketWire.
From Coq Require Import ZifyBool ZifyNat ZifyN.
Open Scope nat_scope.

(* ---- structure of an encoded datagram ---- *)
Lemma put_auth_firstn4 w h : 20 <= length w -> firstn 4 (put_auth w h) = firstn 4 w.
Proof.
  intros Hw. unfold put_auth.
  replace 4 with (length (firstn 4 w)) at 1 by (rewrite firstn_length; lia).
  apply firstn_app_exact.
Qed.

Lemma put_auth_skipn4 w h : 20 <= length w -> skipn 4 (put_auth w h) = h ++ skipn 20 w.
Proof.
  intros Hw. unfold put_auth.
  replace 4 with (length (firstn 4 w)) at 1 by (rewrite firstn_length; lia).
  apply skipn_app_exact.
Qed.

Lemma put_auth_field w h : 20 <= length w -> length h = 16 -> auth_field (put_auth w h) = h.
Proof.
  intros Hw Hh. unfold auth_field. rewrite put_auth_skipn4 by exact Hw.
  rewrite <- Hh. apply firstn_app_exact.
Qed.

Lemma put_auth_skipn20 w h : 20 <= length w -> length h = 16 -> skipn 20 (put_auth w h) = skipn 20 w.
Proof.
  intros Hw Hh. change 20 with (4 + 16). rewrite <- skipn_skipn'. rewrite put_auth_skipn4 by exact Hw.
  rewrite <- Hh. apply skipn_app_exact.
Qed.

Lemma put_auth_length w h : 20 <= length w -> length h = 16 -> length (put_auth w h) = length w.
Proof.
  intros Hw Hh. unfold put_auth. rewrite !app_length, firstn_length, skipn_length, Hh. lia.
Qed.

Lemma covered_put_auth w h a sec : 20 <= length w -> length h = 16 ->
  covered (put_auth w h) a sec = covered w a sec.
Proof.
  intros Hw Hh. unfold covered. rewrite put_auth_firstn4, put_auth_skipn20 by assumption. reflexivity.
Qed.

Lemma put_auth_head c rest h : put_auth (c :: rest) h = c :: skipn 1 (put_auth (c :: rest) h).
Proof. reflexivity. Qed.

Section S.
Variable H : bytes -> bytes.

Lemma zeros16_eq : zeros16 = zero16. Proof. reflexivity. Qed.

(* ---- Encode ---- *)
Theorem encode_marshal_error p e : marshal p = Err e -> encode H p = Err e.
Proof. intros E. unfold encode. rewrite E. reflexivity. Qed.

Theorem encode_verbatim p w : marshal p = Ok w -> In (code p) rfc_verbatim_codes -> encode H p = Ok w.
Proof.
  intros E Hc. unfold encode. rewrite E, sw_Encode_verbatim.
  apply zmem_In in Hc. unfold rfc_verbatim_codes in Hc. rewrite Hc. reflexivity.
Qed.

Theorem encode_reply p w : marshal p = Ok w -> In (code p) rfc_reply_codes ->
  encode H p = Ok (put_auth w (H (covered w (auth p) (secret p)))).
Proof.
  intros E Hc. unfold encode. rewrite E, sw_Encode_verbatim, sw_Encode_hashed, sw_Encode_zero.
  unfold rfc_reply_codes in Hc. cbn [In] in Hc.
  destruct Hc as [Hc|[Hc|[Hc|[Hc|[Hc|[Hc|[Hc|[Hc|[]]]]]]]]]; rewrite <- Hc; reflexivity.
Qed.

Theorem encode_hashed_request p w : marshal p = Ok w -> In (code p) rfc_hashed_request_codes ->
  encode H p = Ok (put_auth w (H (covered w zero16 (secret p)))).
Proof.
  intros E Hc. unfold encode. rewrite E, sw_Encode_verbatim, sw_Encode_hashed, sw_Encode_zero.
  unfold rfc_hashed_request_codes in Hc. cbn [In] in Hc.
  destruct Hc as [Hc|[Hc|[Hc|[]]]]; rewrite <- Hc; reflexivity.
Qed.

Theorem encode_unknown_code_refused p :
  ~ In (code p) rfc_verbatim_codes -> ~ In (code p) rfc_reply_codes ->
  ~ In (code p) rfc_hashed_request_codes -> exists e, encode H p = Err e.
Proof.
  intros H1 H2 H3. unfold encode. destruct (marshal p) as [w|e| |] eqn:E; eauto.
  - rewrite sw_Encode_verbatim, sw_Encode_hashed.
    destruct (zmem (code p) [1; 12]%Z) eqn:E1.
    { apply zmem_In in E1. contradiction. }
    destruct (zmem (code p) [2; 3; 4; 5; 11; 40; 41; 42; 43; 44; 45]%Z) eqn:E2; [|eauto].
    apply zmem_In in E2. exfalso. cbn [In] in *. unfold rfc_reply_codes, rfc_hashed_request_codes in *.
    cbn [In] in *. intuition.
  - destruct (marshal_no_panic p) as [Hp _]. contradiction.
  - destruct (marshal_no_panic p) as [_ Hp]. contradiction.
Qed.

(* ---- the predicates ---- *)
Theorem is_authentic_response_iff r q sec :
  is_authentic_response H r q sec = true <-> spec_response_authentic H r q sec.
Proof.
  unfold is_authentic_response, spec_response_authentic.
  rewrite g_IsAuthResp_0, g_IsAuthResp_1, g_IsAuthResp_2. unfold zlen.
  destruct ((Z.of_nat (length r) <? 20)%Z || (Z.of_nat (length q) <? 20)%Z || (Z.of_nat (length sec) =? 0)%Z) eqn:E.
  - split; [discriminate|]. intros (H1 & H2 & H3 & _). destruct sec; [congruence|cbn [length] in E; lia].
  - rewrite beq_spec. unfold covered, auth_field. split.
    + intros Hh. repeat split; try lia; [intros ->; cbn [length] in E; lia|auto].
    + intros (_ & _ & _ & Hh). auto.
Qed.

Theorem is_authentic_request_iff q sec :
  is_authentic_request H q sec = true <-> spec_request_authentic H q sec.
Proof.
  unfold is_authentic_request, spec_request_authentic.
  rewrite g_IsAuthReq_0, g_IsAuthReq_1, sw_IsAuthReq_always, sw_IsAuthReq_hashed. unfold zlen.
  destruct ((Z.of_nat (length q) <? 20)%Z || (Z.of_nat (length sec) =? 0)%Z) eqn:E.
  - split; [discriminate|]. intros (H1 & H3 & _). destruct sec; [congruence|cbn [length] in E; lia].
  - destruct q as [|c rest]; [cbn [length] in E; lia|].
    assert (Hs : sec <> []) by (intros ->; cbn [length] in E; lia).
    destruct (zmem (Z.of_N c) [1; 12]%Z) eqn:E1.
    + apply zmem_In in E1. split; [|reflexivity]. intros _. repeat split; try lia; auto.
      exists c, rest. split; [reflexivity|]. left. exact E1.
    + destruct (zmem (Z.of_N c) [4; 40; 43]%Z) eqn:E2.
      * apply zmem_In in E2. rewrite beq_spec. rewrite zeros16_eq. unfold covered, auth_field. split.
        -- intros Hh. repeat split; try lia; auto. exists c, rest. split; [reflexivity|]. right. split; auto.
        -- intros (_ & _ & c' & rest' & Hq & [Hv|[_ Hh]]).
           ++ inversion Hq; subst. apply zmem_In in Hv. unfold rfc_verbatim_codes in Hv. congruence.
           ++ auto.
      * split; [discriminate|]. intros (_ & _ & c' & rest' & Hq & [Hv|[Hv _]]); inversion Hq; subst;
          apply zmem_In in Hv; unfold rfc_verbatim_codes, rfc_hashed_request_codes in Hv; congruence.
Qed.

Corollary short_or_empty_secret_never_authentic r q sec :
  length r < 20 \/ length q < 20 \/ sec = [] -> is_authentic_response H r q sec = false.
Proof.
  intros Hc. destruct (is_authentic_response H r q sec) eqn:E; [|reflexivity].
  apply is_authentic_response_iff in E. destruct E as (H1 & H2 & H3 & _). destruct Hc as [?|[?|?]]; [lia|lia|contradiction].
Qed.

Corollary request_short_or_empty_secret_never_authentic q sec :
  length q < 20 \/ sec = [] -> is_authentic_request H q sec = false.
Proof.
  intros Hc. destruct (is_authentic_request H q sec) eqn:E; [|reflexivity].
  apply is_authentic_request_iff in E. destruct E as (H1 & H3 & _). destruct Hc as [?|?]; [lia|contradiction].
Qed.

(* altering any covered byte, the secret or the request authenticator is
   rejected unless the hash collides *)
Theorem tamper_needs_collision r q sec r' q' sec' :
  is_authentic_response H r q sec = true -> is_authentic_response H r' q' sec' = true ->
  auth_field r = auth_field r' ->
  covered r (auth_field q) sec <> covered r' (auth_field q') sec' ->
  exists x y, x <> y /\ H x = H y.
Proof.
  intros H1 H2 Ha Hne. apply is_authentic_response_iff in H1. apply is_authentic_response_iff in H2.
  destruct H1 as (_ & _ & _ & E1). destruct H2 as (_ & _ & _ & E2).
  exists (covered r (auth_field q) sec), (covered r' (auth_field q') sec'). split; [exact Hne|congruence].
Qed.

Theorem tamper_request_needs_collision q sec q' sec' c rest c' rest' :
  q = c :: rest -> q' = c' :: rest' ->
  In (Z.of_N c) rfc_hashed_request_codes -> In (Z.of_N c') rfc_hashed_request_codes ->
  is_authentic_request H q sec = true -> is_authentic_request H q' sec' = true ->
  auth_field q = auth_field q' -> covered q zero16 sec <> covered q' zero16 sec' ->
  exists x y, x <> y /\ H x = H y.
Proof.
  intros Hq Hq' Hc Hc' H1 H2 Ha Hne.
  apply is_authentic_request_iff in H1. apply is_authentic_request_iff in H2.
  destruct H1 as (_ & _ & c1 & r1 & E1 & [V1|[_ A1]]).
  { exfalso. subst q. inversion E1; subst. unfold rfc_verbatim_codes, rfc_hashed_request_codes in *. cbn [In] in *. intuition congruence. }
  destruct H2 as (_ & _ & c2 & r2 & E2 & [V2|[_ A2]]).
  { exfalso. subst q'. inversion E2; subst. unfold rfc_verbatim_codes, rfc_hashed_request_codes in *. cbn [In] in *. intuition congruence. }
  exists (covered q zero16 sec), (covered q' zero16 sec'). split; [exact Hne|congruence].
Qed.
End S.

Section SLen.
Variable H : bytes -> bytes.
Hypothesis H_len : forall x, length (H x) = 16.

(* a reply built for a request verifies against that request *)
Theorem encode_then_verify p w q :
  length (auth p) = 16 -> In (code p) rfc_reply_codes -> secret p <> [] ->
  20 <= length q -> auth_field q = auth p ->
  encode H p = Ok w -> is_authentic_response H w q (secret p) = true.
Proof.
  intros Ha Hc Hs Hq Haq He.
  destruct (marshal p) as [m|e| |] eqn:Em.
  - rewrite (encode_reply H p m Em Hc) in He. apply Ok_inj in He. subst w.
    destruct (marshal_size p m Ha Em) as (Hl & _ & _).
    apply is_authentic_response_iff. unfold spec_response_authentic.
    assert (Hm : 20 <= length m) by lia.
    rewrite put_auth_length by (auto; lia).
    repeat split; try lia; auto.
    rewrite put_auth_field by auto. rewrite covered_put_auth by auto. rewrite Haq. reflexivity.
  - rewrite (encode_marshal_error H p e Em) in He. discriminate.
  - destruct (marshal_no_panic p) as [Hp _]. contradiction.
  - destruct (marshal_no_panic p) as [_ Hp]. contradiction.
Qed.

(* an encoded Accounting/Disconnect/CoA request verifies *)
Theorem encode_request_then_verify p w :
  length (auth p) = 16 -> (0 <= code p <= 255)%Z ->
  In (code p) rfc_hashed_request_codes \/ In (code p) rfc_verbatim_codes ->
  secret p <> [] -> encode H p = Ok w -> is_authentic_request H w (secret p) = true.
Proof.
  intros Ha Hcb Hc Hs He.
  destruct (marshal p) as [m|e| |] eqn:Em.
  - destruct (marshal_size p m Ha Em) as (Hl & _ & _).
    assert (Hm : 20 <= length m) by lia.
    pose proof Em as Em'. rewrite marshal_spec in Em'.
    destruct (forallb value_fits (pattrs p)); [|discriminate]. cbv zeta in Em'.
    destruct (4096 <? 20 + length (spec_wire (pattrs p))); [discriminate|].
    apply Ok_inj in Em'.
    apply is_authentic_request_iff. unfold spec_request_authentic.
    destruct Hc as [Hc|Hc].
    + rewrite (encode_hashed_request H p m Em Hc) in He. apply Ok_inj in He. subst w.
      rewrite put_auth_length by auto. repeat split; try lia; auto.
      exists (zbyte (code p)), (skipn 1 (put_auth m (H (covered m zero16 (secret p))))).
      split.
      * rewrite <- Em'. apply put_auth_head.
      * right. split.
        -- unfold zbyte. replace (Z.of_N (Z.to_N (code p mod 256))) with (code p) by lia. exact Hc.
        -- rewrite put_auth_field by auto. rewrite covered_put_auth by auto. reflexivity.
    + rewrite (encode_verbatim H p m Em Hc) in He. apply Ok_inj in He. subst w.
      repeat split; try lia; auto.
      exists (zbyte (code p)), (skipn 1 m). split.
      * rewrite <- Em'. reflexivity.
      * left. unfold zbyte. replace (Z.of_N (Z.to_N (code p mod 256))) with (code p) by lia. exact Hc.
  - rewrite (encode_marshal_error H p e Em) in He. discriminate.
  - destruct (marshal_no_panic p) as [Hp _]. contradiction.
  - destruct (marshal_no_panic p) as [_ Hp]. contradiction.
Qed.

End SLen.

(* ---- New and Response ---- *)
Theorem new_layout c sec i a : length a = 16 ->
  new_packet c sec (i :: a) = Ok (mkpacket c i a sec []).
Proof. intros Ha. unfold new_packet. rewrite Ha. reflexivity. Qed.

Theorem new_needs_17 c sec rnd : length rnd <> 17 -> new_packet c sec rnd = Panic.
Proof.
  intros Hn. unfold new_packet. destruct rnd as [|i rest]; [reflexivity|].
  cbn [length] in Hn. destruct (Nat.eqb_spec (length rest) 16); [lia|reflexivity].
Qed.

Theorem response_copies p c :
  code (response p c) = c /\ ident (response p c) = ident p /\ auth (response p c) = auth p /\
  secret (response p c) = secret p /\ pattrs (response p c) = [].
Proof. repeat split. Qed.
