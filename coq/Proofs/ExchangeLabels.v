(* State-independent facts about the step function of Model/Exchange.v, for EVERY state (no invariant assumed):
   the three one-way flags never go back, and the only steps that write to the socket are the first send of the
   calling goroutine and a tick of the running helper with the ticker not stopped; what they write is the request
   as encoded, appended to what was sent before, and nothing is written on a closed socket. *)
From Coq Require Import List Arith ZArith Lia Bool.
Import ListNotations.
From Radius Require Import Base.Bytes Base.Guard Base.Res Gen.Consts Model.Attrs Model.Packet Model.Client Model.Exchange.

Section S.
Variable H : bytes -> bytes.
Variable retry : Z.
Variable max_errors : Z.
Variable skip_verify : bool.
Variable request : packet.
Notation step := (xstep H retry max_errors skip_verify request).

Ltac crush :=
  unfold xstep, do_return, set_main, write;
  repeat match goal with
         | |- context [match ?x with _ => _ end] => destruct x eqn:?
         end; cbn; auto; try congruence.

Lemma ctx_done_one_way s e : ctx_done s = true -> ctx_done (step s e) = true.
Proof. intros Hc. crush. Qed.

Lemma derived_done_one_way s e : derived_done s = true -> derived_done (step s e) = true.
Proof. intros Hc. crush. Qed.

Lemma conn_closed_one_way s e : conn_closed s = true -> conn_closed (step s e) = true.
Proof. intros Hc. crush. Qed.

Definition send_site (s : xstate) (e : xevent) : Prop :=
  (e = XStep /\ xmain s = M_dialled) \/
  (e = XTick /\ xhelper s = Hp_running /\ ticker_stopped s = false).

Lemma sends_only_at_send_sites s e :
  sent (step s e) = sent s \/
  exists w, encode H request = Ok w /\ sent (step s e) = sent s ++ [w] /\ conn_closed s = false /\ send_site s e.
Proof.
  unfold send_site, xstep, do_return, set_main, write.
  repeat match goal with
         | |- context [match ?x with _ => _ end] => destruct x eqn:?
         end; cbn; auto;
  right; eexists; repeat split; eauto.
Qed.

Lemma exchange_label_table_holds s e :
  (ctx_done s = true -> ctx_done (step s e) = true) /\
  (derived_done s = true -> derived_done (step s e) = true) /\
  (conn_closed s = true -> conn_closed (step s e) = true) /\
  (sent (step s e) = sent s \/
   exists w, encode H request = Ok w /\ sent (step s e) = sent s ++ [w] /\ conn_closed s = false /\ send_site s e).
Proof.
  repeat split.
  - apply ctx_done_one_way.
  - apply derived_done_one_way.
  - apply conn_closed_one_way.
  - apply sends_only_at_send_sites.
Qed.
End S.
Print Assumptions exchange_label_table_holds.
