(* Proofs/Effects.v — every reader function of the working tree has a clean memory-effect
   summary (C13).  Gen/Effects.v is regenerated from the source on every run; the check below is
   exhaustive over that finite table and is what breaks when a getter starts writing through
   the packet's slices or returning one of them. *)
From Coq Require Import List String Bool Arith.
From Radius Require Import Gen.Effects.
Import ListNotations.

Definition may_alias_by_design (r : role) : bool := match r with RList | RVendorWalk => true | _ => false end.
Definition clean (r : reader) : bool :=
  match r_writes r, r_unknown r with [], [] => true | _, _ => false end
  && (negb (r_alias r) || may_alias_by_design (r_role r)).
Definition count_role (p : role -> bool) : nat := List.length (filter (fun r => p (r_role r)) readers).

Lemma all_clean : forallb clean readers = true.
Proof. vm_compute. reflexivity. Qed.

Theorem every_reader_is_clean : forall r, In r readers ->
  r_writes r = [] /\ r_unknown r = [] /\ (r_alias r = true -> may_alias_by_design (r_role r) = true).
Proof.
  intros r Hin. pose proof (proj1 (forallb_forall clean readers) all_clean r Hin) as H.
  unfold clean in H. apply andb_true_iff in H. destruct H as [H1 H2].
  destruct (r_writes r); [|discriminate]. destruct (r_unknown r); [|discriminate].
  repeat split. intros Ha. rewrite Ha in H2. exact H2.
Qed.

(* the table covers the read API: the 14 typed decoders, both parsers, both encoders (and the
   attribute serialiser), both predicates, both list accessors, the 5 dump functions, and more
   than 1500 generated getters *)
Theorem table_covers_the_read_api :
  List.length readers = n_readers /\
  count_role (fun r => match r with RDecoder => true | _ => false end) = 14 /\
  count_role (fun r => match r with RParse => true | _ => false end) = 2 /\
  count_role (fun r => match r with REncode => true | _ => false end) = 4 /\
  count_role (fun r => match r with RPredicate => true | _ => false end) = 2 /\
  count_role (fun r => match r with RList => true | _ => false end) = 2 /\
  count_role (fun r => match r with RDump => true | _ => false end) = 5 /\
  Nat.leb 1500 (count_role (fun r => match r with RGetter => true | _ => false end)) = true.
Proof. vm_compute. repeat split. Qed.
