(* Proofs/SrcTunnel.v — NewTunnelPassword of attribute.go as translated
   (Gen/Src.v) computes RFC 2868 s3.5 (Spec/C11.v with H = MD5). *)
From Coq Require Import String.
From Radius Require Import Base.Bytes Base.Res Base.GoLite Gen.Src Crypto.MD5 Proofs.SrcBase Proofs.SrcCtx Model.SrcRun
  Spec.C04 Spec.C11 Proofs.SrcXor Proofs.UserPassword.
Open Scope list_scope.
Open Scope nat_scope.

(* xor with a zero-padded block, in either order *)
Lemma xor_zeros_l h : xor_pad (repeat 0%N (length h)) h = h.
Proof. induction h as [|b h IH]; [reflexivity|]. cbn [length repeat xor_pad]. rewrite N.lxor_0_l, IH. reflexivity. Qed.

Lemma xor_pad_swap : forall x h z, length x + z = length h -> xor_pad (x ++ repeat 0%N z) h = xor_pad h x.
Proof.
  induction x as [|a x IH]; intros h z H.
  - cbn [app length] in *. replace z with (length h) by lia. rewrite xor_zeros_l, xor_pad_nil_r. reflexivity.
  - destruct h as [|b h]; cbn [length] in H; [lia|]. cbn [app xor_pad]. rewrite N.lxor_comm. f_equal. apply IH. lia.
Qed.

Lemma firstn_repeat0 d z : firstn d (repeat 0%N z) = repeat 0%N (Nat.min d z).
Proof.
  revert z; induction d as [|d IH]; intros z; [reflexivity|]. destruct z as [|z]; [reflexivity|].
  cbn [repeat firstn Nat.min]. rewrite IH. reflexivity.
Qed.

Lemma skipn_repeat0 d z : skipn d (repeat 0%N z) = repeat 0%N (z - d).
Proof.
  revert z; induction d as [|d IH]; intros z; [rewrite Nat.sub_0_r; reflexivity|]. destruct z as [|z]; [reflexivity|].
  cbn [repeat skipn Nat.sub]. apply IH.
Qed.

Lemma firstn_pad (q : bytes) z : 16 <= length q + z ->
  firstn 16 (q ++ repeat 0%N z) = firstn 16 q ++ repeat 0%N (16 - length (firstn 16 q)).
Proof.
  intros H. rewrite firstn_app, firstn_length, firstn_repeat0. f_equal. f_equal. lia.
Qed.

Lemma skipn_pad (q : bytes) z : skipn 16 (q ++ repeat 0%N z) = skipn 16 q ++ repeat 0%N (z - (16 - length q)).
Proof. rewrite skipn_app, skipn_repeat0. reflexivity. Qed.

Arguments tp_blocks : simpl never.
Arguments rfc_tp_encrypt : simpl never.

Lemma high_bit_byte s0 : byte_ok s0 ->
  (Z.land (Z.of_N s0) 128 =? 128)%Z = (128 <=? s0 mod 256)%N.
Proof.
  intros H. unfold byte_ok in H.
  assert (F : forallb (fun n => Bool.eqb (Z.land (Z.of_nat n) 128 =? 128)%Z (128 <=? N.of_nat n mod 256)%N) (seq 0 256) = true) by (vm_compute; reflexivity).
  rewrite forallb_forall in F. specialize (F (N.to_nat s0)). rewrite N2Nat.id, N_nat_Z in F.
  apply Bool.eqb_prop. apply F. apply in_seq. lia.
Qed.

Section NTP.
Variable cx : ctx.
Variables (pw salt sec ra : bytes).
Hypothesis Hpw : bytes_ok pw.

Definition ntp_body : stmt := f_body (fn src_NewTunnelPassword).
Definition ntp_outer : stmt :=
  match ntp_body with
  | SSeq _ (SSeq _ (SSeq _ (SSeq _ (SSeq _ (SSeq _ (SSeq _ (SSeq _ (SSeq _ (SSeq _ (SSeq _ (SSeq _ (SSeq _ (SSeq (SSeq _ f) _))))))))))))) => f
  | _ => SSkip
  end.
Definition ntp_inner : stmt :=
  match for_body ntp_outer with
  | SSeq _ (SSeq _ (SSeq _ (SSeq _ (SSeq _ f)))) => f
  | _ => SSkip
  end.

Lemma ntp_inner_loop n m (c4 c6 : val) chunk b : bytes_ok b -> length b = 16 ->
  forall j attr,
  bytes_ok attr -> 2 + 16 * chunk + 16 <= length attr -> j <= 16 -> 16 - j < m ->
  exists j',
  loop (fun e => eval cx e (for_cond ntp_inner)) (exec cx n (for_body ntp_inner)) (exec cx n (for_post ntp_inner)) m
     [VBytes pw; VBytes salt; VBytes sec; VBytes ra; c4; VBytes attr; c6; VBytes b; VInt (Z.of_nat chunk); VInt (Z.of_nat j)] =
  ONorm [VBytes pw; VBytes salt; VBytes sec; VBytes ra; c4;
         VBytes (firstn (2 + 16 * chunk + j) attr ++
                 xor_pad (firstn (16 - j) (skipn (2 + 16 * chunk + j) attr)) (skipn j b) ++
                 skipn (2 + 16 * chunk + 16) attr);
         c6; VBytes b; VInt (Z.of_nat chunk); VInt j'].
Proof.
  intros Hokb Lb. set (base := 2 + 16 * chunk).
  induction m as [|m IH]; intros j attr Hok Hlen Hj Hm; [lia|].
  loop_step L. cbn [ntp_inner ntp_outer ntp_body for_cond for_body for_post fn src_NewTunnelPassword f_body]. go.
  destruct (Nat.eq_dec j 16) as [->|Hne].
  { golia. go. cbn [xor_pad app]. rewrite firstn_skipn. eexists; reflexivity. }
  golia. go.
  replace (Z.to_nat (2 + Z.of_nat chunk * 16 + Z.of_nat j)) with (base + j) by (unfold base; lia).
  set (e := nth (base + j) attr 0%N). set (q := nth j b 0%N).
  assert (He : byte_ok e). { unfold bytes_ok in Hok. rewrite Forall_forall in Hok. apply Hok. apply nth_In. lia. }
  assert (Hq : byte_ok q). { unfold bytes_ok in Hokb. rewrite Forall_forall in Hokb. apply Hokb. apply nth_In. lia. }
  rewrite lxor_Z by assumption. pose proof (lxor_byte e q He Hq) as Hx. unfold byte_ok in Hx. golia. go.
  rewrite N2Z.id.
  replace (Z.of_nat j + 1)%Z with (Z.of_nat (S j)) by lia.
  set (attr' := set_nth (base + j) (N.lxor e q) attr).
  assert (Hok' : bytes_ok attr').
  { unfold attr', set_nth. apply bytes_ok_app. split; [apply bytes_ok_firstn; exact Hok|].
    constructor; [exact Hx|]. apply bytes_ok_skipn. exact Hok. }
  assert (Hlen' : length attr' = length attr) by (unfold attr'; rewrite set_nth_length; lia).
  subst L. destruct (IH (S j) attr' Hok' ltac:(lia) ltac:(lia) ltac:(lia)) as [j' Hj']. exists j'. rewrite Hj'.
  do 2 f_equal.
  rewrite (nth_skipn_cons b j) by lia. fold q.
  rewrite (nth_skipn_cons attr (base + j)) by lia. fold e.
  replace (16 - j) with (S (16 - S j)) by lia. cbn [firstn xor_pad].
  replace (base + S j) with (S (base + j)) by lia.
  unfold attr', set_nth.
  assert (E1 : firstn (S (base + j)) (firstn (base + j) attr ++ N.lxor e q :: skipn (S (base + j)) attr)
               = firstn (base + j) attr ++ [N.lxor e q]).
  { replace (firstn (base + j) attr ++ N.lxor e q :: skipn (S (base + j)) attr)
      with ((firstn (base + j) attr ++ [N.lxor e q]) ++ skipn (S (base + j)) attr) by (rewrite <- app_assoc; reflexivity).
    apply firstn_app_exact. rewrite app_length, firstn_length. cbn [length]. lia. }
  assert (E2 : forall k, skipn (S (base + j) + k) (firstn (base + j) attr ++ N.lxor e q :: skipn (S (base + j)) attr)
               = skipn (S (base + j) + k) attr).
  { intros k.
    replace (firstn (base + j) attr ++ N.lxor e q :: skipn (S (base + j)) attr)
      with ((firstn (base + j) attr ++ [N.lxor e q]) ++ skipn (S (base + j)) attr) by (rewrite <- app_assoc; reflexivity).
    rewrite <- (skipn_skipn_pw _ k (S (base + j))).
    rewrite skipn_app_exact by (rewrite app_length, firstn_length; cbn [length]; lia).
    rewrite skipn_skipn_pw. reflexivity. }
  rewrite E1. pose proof (E2 0) as E20. rewrite Nat.add_0_r in E20. rewrite E20.
  replace (base + 16) with (S (base + j) + (15 - j)) by lia. rewrite E2.
  rewrite <- app_assoc. reflexivity.
Qed.
Fixpoint enc_inplace (k : nat) (prev P : bytes) : bytes :=
  match k with
  | O => []
  | S k' => let c := xor_pad (firstn 16 P) (md5 (sec ++ prev)) in c ++ enc_inplace k' c (skipn 16 P)
  end.

Lemma ntp_inner_is_for : match ntp_inner with SFor _ _ _ => True | _ => False end.
Proof. exact I. Qed.

Definition ntp_prev (k : nat) (attr : bytes) : bytes :=
  match k with O => ra ++ salt | S k' => firstn 16 (skipn (2 + 16 * k') attr) end.

Lemma ntp_outer_loop n m chunks : 16 < n -> forall k attr c6 b c9,
  bytes_ok attr -> length attr = 2 + 16 * chunks -> length b = 16 -> k <= chunks -> chunks - k < m ->
  exists c6' b' k' c9',
  loop (fun e => eval cx e (for_cond ntp_outer)) (exec cx n (for_body ntp_outer)) (exec cx n (for_post ntp_outer)) m
     [VBytes pw; VBytes salt; VBytes sec; VBytes ra; VInt (Z.of_nat chunks); VBytes attr; c6; VBytes b; VInt (Z.of_nat k); c9] =
  ONorm [VBytes pw; VBytes salt; VBytes sec; VBytes ra; VInt (Z.of_nat chunks);
         VBytes (firstn (2 + 16 * k) attr ++ enc_inplace (chunks - k) (ntp_prev k attr) (skipn (2 + 16 * k) attr));
         c6'; VBytes b'; VInt k'; c9'].
Proof.
  intros Hn. induction m as [|m IH]; intros k attr c6 b c9 Hok Hlen Lb Hk Hm; [lia|].
  loop_step L. cbn [ntp_outer ntp_body for_cond for_body for_post fn src_NewTunnelPassword f_body].
  fold_for ntp_inner. remember ntp_inner as F eqn:HF. go.
  destruct (Nat.eq_dec k chunks) as [->|Hne].
  { golia. go. rewrite Nat.sub_diag. cbn [enc_inplace]. rewrite app_nil_r, firstn_all2 by lia. do 4 eexists. reflexivity. }
  golia. go.
  set (prev := ntp_prev k attr).
  assert (Hhash : (if (Z.of_nat k =? 0)%Z
         then ONorm [VBytes pw; VBytes salt; VBytes sec; VBytes ra; VInt (Z.of_nat chunks); VBytes attr;
                     VBytes ((sec ++ ra) ++ salt); VBytes b; VInt (Z.of_nat k); c9]
         else match match match slice_of attr (2 + (Z.of_nat k - 1) * 16) (2 + Z.of_nat k * 16) with
                          | Some r => Some (VBytes r) | None => None end with
                    | Some y => match as_bytes y with Some l2 => Some (VBytes (sec ++ l2)) | None => None end
                    | None => None end with
              | Some v => ONorm [VBytes pw; VBytes salt; VBytes sec; VBytes ra; VInt (Z.of_nat chunks); VBytes attr; v; VBytes b; VInt (Z.of_nat k); c9]
              | None => OFail end)
         = ONorm [VBytes pw; VBytes salt; VBytes sec; VBytes ra; VInt (Z.of_nat chunks); VBytes attr;
                  VBytes (sec ++ prev); VBytes b; VInt (Z.of_nat k); c9]).
  { unfold prev. destruct k as [|k0].
    - cbn [ntp_prev]. change (Z.of_nat 0 =? 0)%Z with true. cbv iota. rewrite <- app_assoc. reflexivity.
    - replace (Z.of_nat (S k0) =? 0)%Z with false by lia.
      rewrite slice_of_ok by lia. cbn [ntp_prev as_bytes].
      replace (Z.to_nat (2 + Z.of_nat (S k0) * 16) - Z.to_nat (2 + (Z.of_nat (S k0) - 1) * 16)) with 16 by lia.
      replace (Z.to_nat (2 + (Z.of_nat (S k0) - 1) * 16)) with (2 + 16 * k0) by lia. reflexivity. }
  rewrite Hhash. clear Hhash. go.
  set (h := md5 (sec ++ prev)).
  assert (Lh : length h = 16) by apply md5_length.
  assert (Hcp : copy_into b 0 16 h = Some h).
  { replace 16%Z with (Z.of_nat (length b)) by lia. apply copy_whole. lia. }
  rewrite Hcp. go.
  assert (Hokh : bytes_ok h) by apply md5_ok.
  subst F. rewrite exec_for by exact ntp_inner_is_for.
  destruct (ntp_inner_loop n n (VInt (Z.of_nat chunks)) (VBytes (sec ++ prev)) k h Hokh Lh 0 attr Hok ltac:(lia) ltac:(lia) ltac:(lia)) as [j' Hj'].
  change (Z.of_nat 0) with 0%Z in Hj'. rewrite Hj'. rewrite Nat.add_0_r, Nat.sub_0_r. go.
  set (c := xor_pad (firstn 16 (skipn (2 + 16 * k) attr)) h).
  set (attr' := firstn (2 + 16 * k) attr ++ c ++ skipn (2 + 16 * k + 16) attr).
  assert (Lc : length c = 16) by (unfold c; rewrite xor_pad_length, firstn_length, skipn_length; lia).
  assert (Hokc : bytes_ok c).
  { unfold c. apply xor_pad_ok; [apply bytes_ok_firstn, bytes_ok_skipn, Hok|exact Hokh]. }
  assert (Hok' : bytes_ok attr').
  { unfold attr'. apply bytes_ok_app; split; [apply bytes_ok_firstn, Hok|]. apply bytes_ok_app; split; [exact Hokc|apply bytes_ok_skipn, Hok]. }
  assert (Hlen' : length attr' = 2 + 16 * chunks).
  { unfold attr'. rewrite !app_length, firstn_length, skipn_length. lia. }
  replace (Z.of_nat k + 1)%Z with (Z.of_nat (S k)) by lia.
  subst L. destruct (IH (S k) attr' (VBytes (sec ++ prev)) h (VInt j') Hok' Hlen' Lh ltac:(lia) ltac:(lia)) as [c6' [b' [k' [c9' H]]]].
  exists c6', b', k', c9'. rewrite H. do 2 f_equal.
  set (A := firstn (2 + 16 * k) attr) in *.
  assert (LA : length A = 2 + 16 * k) by (unfold A; rewrite firstn_length; lia).
  assert (E1 : firstn (2 + 16 * S k) attr' = A ++ c).
  { unfold attr'. rewrite app_assoc. apply firstn_app_exact. rewrite app_length. lia. }
  assert (E2 : skipn (2 + 16 * S k) attr' = skipn (2 + 16 * k + 16) attr).
  { unfold attr'. rewrite app_assoc. apply skipn_app_exact. rewrite app_length. lia. }
  assert (E3 : ntp_prev (S k) attr' = c).
  { cbn [ntp_prev]. unfold attr'. rewrite skipn_app_exact by lia. apply firstn_app_exact. lia. }
  rewrite E1, E2, E3.
  replace (chunks - k) with (S (chunks - S k)) by lia. cbn [enc_inplace]. fold h. fold c.
  replace (skipn 16 (skipn (2 + 16 * k) attr)) with (skipn (2 + 16 * k + 16) attr) by (symmetry; apply skipn_skipn_pw).
  rewrite <- app_assoc. reflexivity.
Qed.
(* encrypting the zero-padded plaintext in place is the RFC recursion on the unpadded plaintext *)
Lemma enc_inplace_rfc : forall k prev q z, length q + z = 16 * k ->
  enc_inplace k prev (q ++ repeat 0%N z) = rfc_up_enc md5 k sec prev q.
Proof.
  induction k as [|k IH]; intros prev q z H; [reflexivity|].
  cbn [enc_inplace rfc_up_enc].
  rewrite firstn_pad by lia. rewrite xor_pad_swap by (rewrite md5_length, firstn_length; lia).
  f_equal. rewrite skipn_pad. apply IH. rewrite skipn_length. lia.
Qed.
Lemma ntp_outer_is_for : match ntp_outer with SFor _ _ _ => True | _ => False end.
Proof. exact I. Qed.

Hypothesis Hsalt : bytes_ok salt.

Theorem src_NewTunnelPassword_spec n : 16 < n -> length pw < n ->
  run cx n (fn src_NewTunnelPassword) [VBytes pw; VBytes salt; VBytes sec; VBytes ra] =
  Some (Some (ret_res (spec_new_tunnel_password md5 pw salt sec ra) VBytes VNil)).
Proof.
  intros Hn Hlp. unfold run, spec_new_tunnel_password, ret_res, tp_max_password.
  remember ((239 <? length pw) || negb (salt_ok salt) || (length sec =? 0) || negb (length ra =? 16)) as bad eqn:Hbad.
  cbn [fn src_NewTunnelPassword f_body f_params f_locals].
  match goal with |- context[SFor ?c ?q ?b] =>
    match b with context[SFor _ _ _] => change (SFor c q b) with ntp_outer end end.
  remember ntp_outer as FO eqn:HFO.
  go.
  destruct (Z.of_nat (length pw) >? 239)%Z eqn:E1; go.
  { replace bad with true by (subst bad; lia). reflexivity. }
  destruct (Z.of_nat (length salt) =? 2)%Z eqn:E2; go.
  2:{ replace bad with true; [reflexivity|]. subst bad. destruct salt as [|s0 [|s1 [|]]]; cbn [length salt_ok] in *; try lia; rewrite ?orb_true_r; reflexivity. }
  assert (Hs : exists s0 s1, salt = [s0; s1]).
  { destruct salt as [|s0 [|s1 [|s2 salt']]]; cbn [length] in E2; try lia. eauto. }
  destruct Hs as [s0 [s1 Hs]]. rewrite Hs in *.
  cbn [nth]. go. assert (Hs0 : byte_ok s0) by (inversion Hsalt; assumption).
  rewrite (high_bit_byte s0 Hs0). cbn [salt_ok] in Hbad.
  destruct (128 <=? s0 mod 256)%N eqn:E3; go.
  2:{ replace bad with true; [reflexivity|]. subst bad. rewrite orb_true_r. reflexivity. }
  gocase; go.
  { replace bad with true by (subst bad; lia). reflexivity. }
  gocase; go.
  2:{ replace bad with true by (subst bad; lia). reflexivity. }
  replace bad with false by (subst bad; cbn [negb]; lia).
  remember (tp_blocks (length pw)) as chunks eqn:Hchunks.
  assert (Hch : ((1 + Z.of_nat (length pw) + 16 - 1) ÷ 16)%Z = Z.of_nat chunks).
  { rewrite Z.quot_div_nonneg by lia. subst chunks. unfold tp_blocks. rewrite Nat2Z.inj_div. f_equal. lia. }
  rewrite Hch.
  assert (Hc1 : 1 <= chunks /\ length pw + 1 <= 16 * chunks /\ 16 * chunks <= length pw + 16).
  { subst chunks. unfold tp_blocks. pose proof (Nat.div_mod (length pw + 16) 16 ltac:(lia)). pose proof (Nat.mod_upper_bound (length pw + 16) 16 ltac:(lia)). lia. }
  replace (Z.to_nat (2 + Z.of_nat chunks * 16)) with (3 + (16 * chunks - 1)) by lia.
  rewrite (repeat_app 0%N 3 (16 * chunks - 1)). cbn [repeat app].
  unfold copy_into at 1. cbn [length]. rewrite repeat_length. golia. gonorm. cbn [firstn skipn app Nat.min Nat.sub Nat.add length]. go.
  rewrite wrap_small by (change (2 ^ 8)%Z with 256%Z; lia).
  unfold set_nth. cbn [firstn skipn app]. go.
  rewrite copy_into_gen by (cbn [length]; rewrite ?repeat_length; lia). go.
  cbn [firstn skipn app Nat.add].
  rewrite skipn_repeat0. rewrite N2Z.inj_iff || idtac.
  replace (Z.to_N (Z.of_nat (length pw))) with (N.of_nat (length pw)) by lia.
  set (z := 16 * chunks - 1 - length pw).
  set (attr0 := s0 :: s1 :: N.of_nat (length pw) :: pw ++ repeat 0%N z).
  assert (Hok0 : bytes_ok attr0).
  { unfold attr0. inversion Hsalt as [|? ? ? Hs']. inversion Hs'. repeat constructor; try assumption.
    - unfold byte_ok. lia.
    - apply bytes_ok_app. split; [exact Hpw|apply bytes_ok_repeat0]. }
  assert (Hlen0 : length attr0 = 2 + 16 * chunks).
  { unfold attr0, z. cbn [length]. rewrite app_length, repeat_length. lia. }
  subst FO. rewrite exec_for by exact ntp_outer_is_for.
  destruct (ntp_outer_loop n n chunks Hn 0 attr0 (VBytes []) (repeat 0%N 16) VNil Hok0 Hlen0 ltac:(reflexivity) ltac:(lia) ltac:(lia))
    as [c6' [b' [k' [c9' Ho]]]].
  change (Z.of_nat 0) with 0%Z in Ho. cbn [repeat] in Ho. rewrite Hs in Ho. rewrite Ho. go.
  rewrite Nat.sub_0_r. cbn [ntp_prev]. unfold attr0. cbn [firstn skipn Nat.mul Nat.add app].
  unfold rfc_tp_encrypt, tp_plain. rewrite <- Hchunks.
  rewrite ?Hs. change (N.of_nat (length pw) :: pw ++ repeat 0%N z) with ((N.of_nat (length pw) :: pw) ++ repeat 0%N z).
  rewrite (enc_inplace_rfc chunks (ra ++ [s0; s1]) (N.of_nat (length pw) :: pw) z) by (unfold z; cbn [length]; lia).
  reflexivity.
Qed.
End NTP.

(* ---------- TunnelPassword (decoder) ---------- *)
Section TP.
Variable cx : ctx.
Variables (a' salt sec ra : bytes).     (* a' = the attribute without its two salt octets *)
Hypothesis Ha : bytes_ok a'.

Definition tp_body : stmt := f_body (fn src_TunnelPassword).
Definition tp_outer : stmt :=
  match tp_body with
  | SSeq _ (SSeq _ (SSeq _ (SSeq _ (SSeq _ (SSeq _ (SSeq _ (SSeq _ (SSeq _ (SSeq _ (SSeq _ (SSeq _ (SSeq _ (SSeq (SSeq _ f) _))))))))))))) => f
  | _ => SSkip
  end.
Definition tp_inner : stmt :=
  match for_body tp_outer with
  | SSeq _ (SSeq _ (SSeq _ (SSeq _ (SSeq _ f)))) => f
  | _ => SSkip
  end.

Lemma tp_inner_loop n m (c3 c4 c5 c6 c8 c12 : val) chunk b : bytes_ok b -> length b = 16 ->
  forall j pt,
  bytes_ok pt -> 16 * chunk + 16 <= length pt -> 16 * chunk + 16 <= length a' -> j <= 16 -> 16 - j < m ->
  exists j',
  loop (fun e => eval cx e (for_cond tp_inner)) (exec cx n (for_body tp_inner)) (exec cx n (for_post tp_inner)) m
     [VBytes a'; VBytes sec; VBytes ra; c3; c4; c5; c6; VBytes pt; c8; VBytes b; VInt (Z.of_nat chunk); VInt (Z.of_nat j); c12] =
  ONorm [VBytes a'; VBytes sec; VBytes ra; c3; c4; c5; c6;
         VBytes (firstn (16 * chunk + j) pt ++
                 xor_pad (firstn (16 - j) (skipn (16 * chunk + j) a')) (skipn j b) ++
                 skipn (16 * chunk + 16) pt);
         c8; VBytes b; VInt (Z.of_nat chunk); VInt j'; c12].
Proof.
  intros Hokb Lb. set (base := 16 * chunk).
  induction m as [|m IH]; intros j pt Hok Hlen Hla Hj Hm; [lia|].
  loop_step L. cbn [tp_inner tp_outer tp_body for_cond for_body for_post fn src_TunnelPassword f_body]. go.
  destruct (Nat.eq_dec j 16) as [->|Hne].
  { golia. go. cbn [xor_pad app]. rewrite firstn_skipn. eexists; reflexivity. }
  golia. go.
  replace (Z.to_nat (Z.of_nat chunk * 16 + Z.of_nat j)) with (base + j) by (unfold base; lia).
  set (e := nth (base + j) a' 0%N). set (q := nth j b 0%N).
  assert (He : byte_ok e). { unfold bytes_ok in Ha. rewrite Forall_forall in Ha. apply Ha. apply nth_In. lia. }
  assert (Hq : byte_ok q). { unfold bytes_ok in Hokb. rewrite Forall_forall in Hokb. apply Hokb. apply nth_In. lia. }
  rewrite lxor_Z by assumption. pose proof (lxor_byte e q He Hq) as Hx. unfold byte_ok in Hx. golia. go.
  rewrite N2Z.id.
  replace (Z.of_nat j + 1)%Z with (Z.of_nat (S j)) by lia.
  set (pt' := set_nth (base + j) (N.lxor e q) pt).
  assert (Hok' : bytes_ok pt').
  { unfold pt', set_nth. apply bytes_ok_app. split; [apply bytes_ok_firstn; exact Hok|].
    constructor; [exact Hx|]. apply bytes_ok_skipn. exact Hok. }
  assert (Hlen' : length pt' = length pt) by (unfold pt'; rewrite set_nth_length; lia).
  subst L. destruct (IH (S j) pt' Hok' ltac:(lia) ltac:(lia) ltac:(lia) ltac:(lia)) as [j' Hj']. exists j'. rewrite Hj'.
  do 8 f_equal.
  rewrite (nth_skipn_cons b j) by lia. fold q.
  rewrite (nth_skipn_cons a' (base + j)) by lia. fold e.
  replace (16 - j) with (S (16 - S j)) by lia. cbn [firstn xor_pad].
  replace (base + S j) with (S (base + j)) by lia.
  unfold pt', set_nth.
  assert (E1 : firstn (S (base + j)) (firstn (base + j) pt ++ N.lxor e q :: skipn (S (base + j)) pt)
               = firstn (base + j) pt ++ [N.lxor e q]).
  { replace (firstn (base + j) pt ++ N.lxor e q :: skipn (S (base + j)) pt)
      with ((firstn (base + j) pt ++ [N.lxor e q]) ++ skipn (S (base + j)) pt) by (rewrite <- app_assoc; reflexivity).
    apply firstn_app_exact. rewrite app_length, firstn_length. cbn [length]. lia. }
  assert (E2 : skipn (base + 16) (firstn (base + j) pt ++ N.lxor e q :: skipn (S (base + j)) pt) = skipn (base + 16) pt).
  { replace (firstn (base + j) pt ++ N.lxor e q :: skipn (S (base + j)) pt)
      with ((firstn (base + j) pt ++ [N.lxor e q]) ++ skipn (S (base + j)) pt) by (rewrite <- app_assoc; reflexivity).
    replace (base + 16) with (S (base + j) + (15 - j)) by lia.
    rewrite <- (skipn_skipn_pw _ (15 - j) (S (base + j))).
    rewrite skipn_app_exact by (rewrite app_length, firstn_length; cbn [length]; lia).
    rewrite skipn_skipn_pw. reflexivity. }
  rewrite E1, E2. rewrite <- app_assoc. reflexivity.
Qed.
Lemma tp_inner_is_for : match tp_inner with SFor _ _ _ => True | _ => False end.
Proof. exact I. Qed.

Definition tp_prev (k : nat) : bytes :=
  match k with O => ra ++ salt | S k' => firstn 16 (skipn (16 * k') a') end.

Lemma tp_outer_loop n m (c3 c5 c12 : val) chunks : 16 < n -> length a' = 16 * chunks -> forall k pt c8 b c11,
  bytes_ok pt -> length pt = 16 * chunks -> length b = 16 -> k <= chunks -> chunks - k < m ->
  exists c8' b' k' c11',
  loop (fun e => eval cx e (for_cond tp_outer)) (exec cx n (for_body tp_outer)) (exec cx n (for_post tp_outer)) m
     [VBytes a'; VBytes sec; VBytes ra; c3; VBytes salt; c5; VInt (Z.of_nat chunks); VBytes pt; c8; VBytes b; VInt (Z.of_nat k); c11; c12] =
  ONorm [VBytes a'; VBytes sec; VBytes ra; c3; VBytes salt; c5; VInt (Z.of_nat chunks);
         VBytes (firstn (16 * k) pt ++ rfc_up_dec md5 (chunks - k) sec (tp_prev k) (skipn (16 * k) a'));
         c8'; VBytes b'; VInt k'; c11'; c12].
Proof.
  intros Hn Hla. induction m as [|m IH]; intros k pt c8 b c11 Hok Hlen Lb Hk Hm; [lia|].
  loop_step L. cbn [tp_outer tp_body for_cond for_body for_post fn src_TunnelPassword f_body].
  fold_for tp_inner. remember tp_inner as F eqn:HF. go.
  destruct (Nat.eq_dec k chunks) as [->|Hne].
  { golia. go. rewrite Nat.sub_diag. cbn [rfc_up_dec]. rewrite app_nil_r, firstn_all2 by lia. do 4 eexists. reflexivity. }
  golia. go.
  set (prev := tp_prev k).
  assert (Hhash : (if (Z.of_nat k =? 0)%Z
         then ONorm [VBytes a'; VBytes sec; VBytes ra; c3; VBytes salt; c5; VInt (Z.of_nat chunks); VBytes pt;
                     VBytes ((sec ++ ra) ++ salt); VBytes b; VInt (Z.of_nat k); c11; c12]
         else match match match slice_of a' ((Z.of_nat k - 1) * 16) (Z.of_nat k * 16) with
                          | Some r => Some (VBytes r) | None => None end with
                    | Some y => match as_bytes y with Some l2 => Some (VBytes (sec ++ l2)) | None => None end
                    | None => None end with
              | Some v => ONorm [VBytes a'; VBytes sec; VBytes ra; c3; VBytes salt; c5; VInt (Z.of_nat chunks); VBytes pt; v; VBytes b; VInt (Z.of_nat k); c11; c12]
              | None => OFail end)
         = ONorm [VBytes a'; VBytes sec; VBytes ra; c3; VBytes salt; c5; VInt (Z.of_nat chunks); VBytes pt;
                  VBytes (sec ++ prev); VBytes b; VInt (Z.of_nat k); c11; c12]).
  { unfold prev. destruct k as [|k0].
    - cbn [tp_prev]. change (Z.of_nat 0 =? 0)%Z with true. cbv iota. rewrite <- app_assoc. reflexivity.
    - replace (Z.of_nat (S k0) =? 0)%Z with false by lia.
      rewrite slice_of_ok by lia. cbn [tp_prev as_bytes].
      replace (Z.to_nat (Z.of_nat (S k0) * 16) - Z.to_nat ((Z.of_nat (S k0) - 1) * 16)) with 16 by lia.
      replace (Z.to_nat ((Z.of_nat (S k0) - 1) * 16)) with (16 * k0) by lia. reflexivity. }
  rewrite Hhash. clear Hhash. go.
  set (h := md5 (sec ++ prev)).
  assert (Lh : length h = 16) by apply md5_length.
  assert (Hcp : copy_into b 0 16 h = Some h).
  { replace 16%Z with (Z.of_nat (length b)) by lia. apply copy_whole. lia. }
  rewrite Hcp. go.
  assert (Hokh : bytes_ok h) by apply md5_ok.
  subst F. rewrite exec_for by exact tp_inner_is_for.
  destruct (tp_inner_loop n n c3 (VBytes salt) c5 (VInt (Z.of_nat chunks)) (VBytes (sec ++ prev)) c12 k h Hokh Lh 0 pt Hok ltac:(lia) ltac:(lia) ltac:(lia) ltac:(lia)) as [j' Hj'].
  change (Z.of_nat 0) with 0%Z in Hj'. rewrite Hj'. rewrite Nat.add_0_r, Nat.sub_0_r. go.
  set (blk := firstn 16 (skipn (16 * k) a')).
  set (c := xor_pad blk h).
  set (pt' := firstn (16 * k) pt ++ c ++ skipn (16 * k + 16) pt).
  assert (Lblk : length blk = 16) by (unfold blk; rewrite firstn_length, skipn_length; lia).
  assert (Lc : length c = 16) by (unfold c; rewrite xor_pad_length; exact Lblk).
  assert (Hokc : bytes_ok c).
  { unfold c, blk. apply xor_pad_ok; [apply bytes_ok_firstn, bytes_ok_skipn, Ha|exact Hokh]. }
  assert (Hok' : bytes_ok pt').
  { unfold pt'. apply bytes_ok_app; split; [apply bytes_ok_firstn, Hok|]. apply bytes_ok_app; split; [exact Hokc|apply bytes_ok_skipn, Hok]. }
  assert (Hlen' : length pt' = 16 * chunks).
  { unfold pt'. rewrite !app_length, firstn_length, skipn_length. lia. }
  replace (Z.of_nat k + 1)%Z with (Z.of_nat (S k)) by lia.
  subst L. destruct (IH (S k) pt' (VBytes (sec ++ prev)) h (VInt j') Hok' Hlen' Lh ltac:(lia) ltac:(lia)) as [c8' [b' [k' [c11' H]]]].
  exists c8', b', k', c11'. rewrite H. do 8 f_equal.
  set (A := firstn (16 * k) pt) in *.
  assert (LA : length A = 16 * k) by (unfold A; rewrite firstn_length; lia).
  assert (E1 : firstn (16 * S k) pt' = A ++ c).
  { unfold pt'. rewrite app_assoc. apply firstn_app_exact. rewrite app_length. lia. }
  rewrite E1.
  replace (chunks - k) with (S (chunks - S k)) by lia. cbn [rfc_up_dec]. fold prev. fold h. fold blk.
  assert (Ec : xor_pad h blk = c).
  { unfold c. symmetry. rewrite <- (app_nil_r blk) at 1. change (@nil N) with (repeat 0%N 0). apply xor_pad_swap. lia. }
  rewrite Ec. cbn [tp_prev]. fold blk.
  replace (skipn 16 (skipn (16 * k) a')) with (skipn (16 * S k) a') by (rewrite skipn_skipn_pw; f_equal; lia).
  rewrite <- app_assoc. reflexivity.
Qed.
End TP.

Lemma tp_outer_is_for : match tp_outer with SFor _ _ _ => True | _ => False end.
Proof. exact I. Qed.

Definition tp_chunks (len : nat) : nat := (len - 2) / 16.
Arguments tp_chunks : simpl never.

Definition tp_run_result (a sec ra : bytes) : option (option val) :=
  if (252 <? length a) || (length a <? 18) || negb ((length a - 2) mod 16 =? 0) || (length sec =? 0) || negb (length ra =? 16)
     || negb (salt_ok (firstn 2 a))
  then Some (Some (VTup [VNil; VNil; VErr]))
  else match rfc_up_dec md5 (tp_chunks (length a)) sec (ra ++ firstn 2 a) (skipn 2 a) with
       | pl :: rest =>
         if length rest <? N.to_nat pl then Some (Some (VTup [VNil; VBytes (firstn 2 a); VErr]))
         else Some (Some (VTup [VBytes (firstn (N.to_nat pl) rest); VBytes (firstn 2 a); VNil]))
       | [] => Some None
       end.

Theorem src_TunnelPassword_run cx n a sec ra : bytes_ok a -> 16 < n -> length a < n ->
  run cx n (fn src_TunnelPassword) [VBytes a; VBytes sec; VBytes ra] = tp_run_result a sec ra.
Proof.
  intros Ha Hn Hla. unfold run, tp_run_result.
  remember ((252 <? length a) || (length a <? 18) || negb ((length a - 2) mod 16 =? 0) || (length sec =? 0) || negb (length ra =? 16)) as bad eqn:Hbad.
  cbn [fn src_TunnelPassword f_body f_params f_locals].
  match goal with |- context[SFor ?c ?q ?b] =>
    match b with context[SFor _ _ _] => change (SFor c q b) with tp_outer end end.
  remember tp_outer as FO eqn:HFO.
  go.
  destruct (Z.of_nat (length a) >? 252)%Z eqn:E1; go.
  { replace bad with true by (subst bad; lia). reflexivity. }
  destruct (Z.of_nat (length a) <? 18)%Z eqn:E2; go.
  { replace bad with true by (subst bad; lia). reflexivity. }
  rewrite Z.rem_mod_nonneg by lia.
  destruct ((Z.of_nat (length a) - 2) mod 16 =? 0)%Z eqn:E3; go.
  2:{ replace bad with true by (subst bad; lia). reflexivity. }
  gocase; go.
  { replace bad with true by (subst bad; lia). reflexivity. }
  gocase; go.
  2:{ replace bad with true by (subst bad; lia). reflexivity. }
  replace bad with false by (subst bad; lia). cbn [orb].
  destruct a as [|s0 [|s1 a']]; cbn [length] in *; try lia.
  cbn [nth firstn skipn salt_ok]. go.
  assert (Hs0 : byte_ok s0) by (inversion Ha; assumption).
  rewrite (high_bit_byte s0 Hs0).
  destruct (128 <=? s0 mod 256)%N eqn:E4; go; [|reflexivity].
  cbn [negb]. cbn [firstn skipn]. go. cbn [length]. gonorm.
  replace (S (S (length a')) - 2) with (length a') by lia. rewrite firstn_all.
  remember (tp_chunks (S (S (length a')))) as chunks eqn:Hch.
  assert (Hc : length a' = 16 * chunks /\ 1 <= chunks).
  { subst chunks. unfold tp_chunks. replace (S (S (length a')) - 2) with (length a') by lia.
    assert (length a' mod 16 = 0) by lia. pose proof (Nat.div_mod (length a') 16 ltac:(lia)). lia. }
  destruct Hc as [Hla' Hc1].
  assert (Hq : (Z.of_nat (length a') ÷ 16)%Z = Z.of_nat chunks).
  { rewrite Z.quot_div_nonneg by lia. rewrite Hla'. rewrite Nat2Z.inj_mul. rewrite Z.mul_comm, Z.div_mul by lia. reflexivity. }
  rewrite Nat.min_id. cbn [skipn]. rewrite Hq. go. replace (Z.to_nat (Z.of_nat chunks * 16)) with (16 * chunks) by lia.
  assert (Hoka : bytes_ok a') by (inversion Ha as [|? ? ? H2]; inversion H2; assumption).
  subst FO. rewrite exec_for by exact tp_outer_is_for.
  destruct (tp_outer_loop cx a' [s0; s1] sec ra Hoka n n VNil VNil VNil chunks Hn Hla' 0 (repeat 0%N (16 * chunks)) (VBytes []) (repeat 0%N 16) VNil
              (bytes_ok_repeat0 _) ltac:(apply repeat_length) ltac:(reflexivity) ltac:(lia) ltac:(lia))
    as [c8' [b' [k' [c11' Ho]]]].
  change (Z.of_nat 0) with 0%Z in Ho. rewrite Ho.
  rewrite Nat.sub_0_r, Nat.mul_0_r. cbn [firstn skipn app tp_prev].
  set (plain := rfc_up_dec md5 chunks sec (ra ++ [s0; s1]) a').
  assert (Lp : length plain = 16 * chunks) by (unfold plain; apply rfc_up_dec_length; apply md5_length).
  destruct plain as [|pl rest] eqn:Ep; cbn [length] in Lp; [lia|]. go. cbn [nth].
  rewrite Hch in *. fold plain. 
  destruct (Z.of_N pl >? Z.of_nat (S (length rest)) - 1)%Z eqn:E5; go.
  { replace (length rest <? N.to_nat pl) with true by lia. reflexivity. }
  replace (length rest <? N.to_nat pl) with false by lia.
  rewrite wrap_small by (change (2 ^ 8)%Z with 256%Z; lia).
  rewrite slice_of_ok by (cbn [length]; lia). go.
  replace (Z.to_nat (1 + Z.of_N pl) - 1) with (N.to_nat pl) by lia. reflexivity.
Qed.

Theorem src_TunnelPassword_spec cx n a sec ra : bytes_ok a -> 16 < n -> length a < n ->
  match spec_tunnel_password md5 a sec ra with
  | Ok (p, s) => run cx n (fn src_TunnelPassword) [VBytes a; VBytes sec; VBytes ra] = Some (Some (VTup [VBytes p; VBytes s; VNil]))
  | _ => exists s, run cx n (fn src_TunnelPassword) [VBytes a; VBytes sec; VBytes ra] = Some (Some (VTup [VNil; s; VErr]))
  end.
Proof.
  intros Ha Hn Hla. rewrite src_TunnelPassword_run by assumption.
  unfold spec_tunnel_password, tp_run_result, tp_chunks.
  destruct ((252 <? length a) || (length a <? 18) || negb ((length a - 2) mod 16 =? 0) || (length sec =? 0)
            || negb (length ra =? 16) || negb (salt_ok (firstn 2 a))) eqn:Eb.
  - eexists; reflexivity.
  - assert (Hk : 1 <= (length a - 2) / 16).
    { apply orb_false_iff in Eb. destruct Eb as [Eb _]. assert (18 <= length a) by lia.
      apply Nat.div_le_lower_bound; lia. }
    pose proof (rfc_up_dec_length md5 md5_length ((length a - 2) / 16) sec (ra ++ firstn 2 a) (skipn 2 a)) as Lp.
    destruct (rfc_up_dec md5 ((length a - 2) / 16) sec (ra ++ firstn 2 a) (skipn 2 a)) as [|pl rest]; cbn [length] in Lp; [lia|].
    destruct (length rest <? N.to_nat pl); [eexists; reflexivity|reflexivity].
Qed.
