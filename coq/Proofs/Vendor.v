(* Proofs/Vendor.v — the vendor helpers are total and exact on arbitrary packets (C14). *)
From Radius Require Import Base.Bytes Base.Guard Base.Res Gen.Consts Model.Attrs Model.Codecs Model.Vendor
  Spec.C09 Spec.C10 Proofs.Guards Proofs.AttrsList Proofs.Codecs.
From Coq Require Import ZifyBool ZifyNat ZifyN.
Open Scope nat_scope.

(* ---- the walker: what it returns is the unique split of the payload into
   well-formed sub-attributes followed by a remainder on which it cannot step ---- *)
Definition wf_sub (s : N * bytes) : Prop :=
  match snd s with
  | t :: l :: _ :: _ => t = fst s /\ N.to_nat l = length (snd s)
  | _ => False
  end.
Definition stuck (v : bytes) : Prop :=
  match v with
  | t :: l :: _ :: _ => length v < N.to_nat l \/ N.to_nat l < 3
  | _ => True
  end.

Lemma walk_cons3 f t l x r : walk (S f) (t :: l :: x :: r) =
  if (length (t :: l :: x :: r) <? N.to_nat l) || (N.to_nat l <? 3) then ([], t :: l :: x :: r)
  else let '(subs, rest) := walk f (skipn (N.to_nat l) (t :: l :: x :: r)) in
       ((t, firstn (N.to_nat l) (t :: l :: x :: r)) :: subs, rest).
Proof. reflexivity. Qed.

Lemma firstn3 {A} n (t l x : A) r : 3 <= n -> firstn n (t :: l :: x :: r) = t :: l :: x :: firstn (n - 3) r.
Proof. intros Hn. destruct n as [|[|[|n]]]; try lia. cbn [firstn]. replace (S (S (S n)) - 3) with n by lia. reflexivity. Qed.

Lemma walk_spec : forall f v, length v <= f ->
  Forall wf_sub (fst (walk f v)) /\ stuck (snd (walk f v)) /\ v = flat_map snd (fst (walk f v)) ++ snd (walk f v).
Proof.
  induction f as [|f IH]; intros v Hl.
  - destruct v; [|cbn [length] in Hl; lia]. cbn. repeat split; constructor.
  - destruct v as [|t [|l [|x r]]]; try (cbn; repeat split; constructor).
    rewrite walk_cons3. set (v := t :: l :: x :: r) in *. set (n := N.to_nat l).
    destruct ((length v <? n) || (n <? 3)) eqn:Ec.
    + cbn [fst snd flat_map app]. split; [constructor|]. split; [|reflexivity].
      unfold stuck, v. fold v. fold n. lia.
    + assert (Hn : 3 <= n <= length v) by lia.
      assert (Hs : length (skipn n v) <= f).
      { rewrite skipn_length. unfold v in *. cbn [length] in *. lia. }
      specialize (IH _ Hs). destruct (walk f (skipn n v)) as [subs rest].
      cbn [fst snd] in *. destruct IH as (Hw & Hst & Hv).
      split; [|split; [exact Hst|]].
      * constructor; [|exact Hw]. unfold wf_sub. cbn [fst snd]. unfold v at 1.
        rewrite (firstn3 n) by lia. split; [reflexivity|].
        fold n. cbn [length]. rewrite firstn_length. unfold v in Hn. cbn [length] in Hn. lia.
      * cbn [flat_map snd]. rewrite <- app_assoc, <- Hv. symmetry. apply firstn_skipn.
Qed.

Lemma skipn_len_app {A} (a b : list A) : skipn (length a) (a ++ b) = b.
Proof. induction a as [|x a IH]; [reflexivity|exact IH]. Qed.
Lemma firstn_len_app {A} (a b : list A) : firstn (length a) (a ++ b) = a.
Proof. induction a as [|x a IH]; [reflexivity|cbn [length firstn app]; rewrite IH; reflexivity]. Qed.

Lemma walk_stuck f v : stuck v -> walk f v = ([], v).
Proof.
  intros Hs. destruct f; [reflexivity|]. destruct v as [|t [|l [|x r]]]; try reflexivity.
  rewrite walk_cons3. unfold stuck in Hs.
  destruct ((length (t :: l :: x :: r) <? N.to_nat l) || (N.to_nat l <? 3)) eqn:Ec; [reflexivity|lia].
Qed.

Lemma walk_build : forall subs rest f, Forall wf_sub subs -> stuck rest ->
  length (flat_map snd subs ++ rest) <= f -> walk f (flat_map snd subs ++ rest) = (subs, rest).
Proof.
  induction subs as [|s subs IH]; intros rest f Hw Hst Hl.
  - apply walk_stuck, Hst.
  - inversion Hw as [|s' subs' Hs Hw']; subst. destruct s as [ty tlv]. unfold wf_sub in Hs. cbn [fst snd] in Hs.
    destruct tlv as [|t [|l [|x r]]]; try contradiction. destruct Hs as [-> Hlen].
    cbn [flat_map snd]. rewrite <- app_assoc. set (tl_ := flat_map snd subs ++ rest) in *.
    set (tlv := ty :: l :: x :: r) in *.
    assert (Hl' : length tlv + length tl_ <= f).
    { cbn [flat_map snd] in Hl. rewrite <- app_assoc in Hl. fold tl_ in Hl. rewrite app_length in Hl. exact Hl. }
    destruct f as [|f]; [unfold tlv in Hl'; cbn [length] in Hl'; lia|].
    unfold tlv at 1. cbn [app]. rewrite walk_cons3.
    change (ty :: l :: x :: r ++ tl_) with (tlv ++ tl_).
    rewrite Hlen, app_length.
    destruct ((length tlv + length tl_ <? length tlv) || (length tlv <? 3)) eqn:Ec.
    { unfold tlv in Ec. cbn [length] in Ec. lia. }
    rewrite skipn_len_app, firstn_len_app. unfold tl_ at 1. rewrite (IH rest f Hw' Hst); [reflexivity|].
    fold tl_. unfold tlv in Hl'. cbn [length] in Hl'. lia.
Qed.

(* uniqueness: any such split is the walker's *)
Theorem subattrs_unique payload subs rest : Forall wf_sub subs -> stuck rest ->
  payload = flat_map snd subs ++ rest -> subattrs payload = (subs, rest).
Proof. intros Hw Hs ->. unfold subattrs. apply walk_build; auto. Qed.

Theorem subattrs_spec payload :
  Forall wf_sub (fst (subattrs payload)) /\ stuck (snd (subattrs payload)) /\
  payload = flat_map snd (fst (subattrs payload)) ++ snd (subattrs payload).
Proof. apply walk_spec. lia. Qed.

(* the fuel is never what stops the loop: any larger fuel gives the same answer *)
Theorem walk_fuel_irrelevant f v : length v <= f -> walk f v = subattrs v.
Proof.
  intros Hl. destruct (subattrs_spec v) as (Hw & Hs & Hv).
  rewrite Hv at 1. rewrite walk_build; auto.
  - destruct (subattrs v); reflexivity.
  - rewrite <- Hv. exact Hl.
Qed.

(* ---- removing the sub-attributes of one type ---- *)
Definition is_t (typ : N) (s : N * bytes) : bool := (fst s =? typ)%N.
Definition not_t (typ : N) (s : N * bytes) : bool := negb (fst s =? typ)%N.

Lemma Forall_filter {A} (P : A -> Prop) f (l : list A) : Forall P l -> Forall P (filter f l).
Proof. rewrite !Forall_forall. intros H x Hx. apply filter_In in Hx. apply H, Hx. Qed.

Lemma strip_eq typ payload :
  strip typ payload = (existsb (is_t typ) (fst (subattrs payload)),
                       flat_map snd (filter (not_t typ) (fst (subattrs payload))) ++ snd (subattrs payload)).
Proof. unfold strip. destruct (subattrs payload); reflexivity. Qed.

Lemma subattrs_kept typ payload :
  subattrs (snd (strip typ payload)) = (filter (not_t typ) (fst (subattrs payload)), snd (subattrs payload)).
Proof.
  rewrite strip_eq. cbn [snd]. destruct (subattrs_spec payload) as (Hw & Hs & _).
  apply subattrs_unique; auto. apply Forall_filter, Hw.
Qed.

Lemma filter_not_t_idem typ l : filter (not_t typ) (filter (not_t typ) l) = filter (not_t typ) l.
Proof.
  induction l as [|s l IH]; [reflexivity|]. cbn [filter]. destruct (not_t typ s) eqn:E; [|exact IH].
  cbn [filter]. rewrite E, IH. reflexivity.
Qed.

Lemma existsb_is_t_filter typ l : existsb (is_t typ) (filter (not_t typ) l) = false.
Proof.
  induction l as [|s l IH]; [reflexivity|]. cbn [filter]. unfold not_t, is_t in *.
  destruct (fst s =? typ)%N eqn:E; cbn [negb]; [exact IH|]. cbn [existsb]. rewrite E, IH. reflexivity.
Qed.

(* stripping twice changes nothing more *)
Lemma strip_kept typ payload : strip typ (snd (strip typ payload)) = (false, snd (strip typ payload)).
Proof.
  rewrite (strip_eq typ (snd (strip typ payload))), subattrs_kept. cbn [fst snd].
  rewrite existsb_is_t_filter, filter_not_t_idem, strip_eq. reflexivity.
Qed.

Lemma filter_not_t_all typ l : existsb (is_t typ) l = false -> filter (not_t typ) l = l.
Proof.
  induction l as [|s l IH]; [reflexivity|]. cbn [existsb filter]. unfold is_t, not_t in *.
  destruct (fst s =? typ)%N; cbn [orb negb]; [discriminate|]. intros H. rewrite (IH H). reflexivity.
Qed.

(* nothing to remove: the payload comes back as it was *)
Lemma strip_nothing typ payload : fst (strip typ payload) = false -> snd (strip typ payload) = payload.
Proof.
  rewrite strip_eq. cbn [fst snd]. intros H. rewrite (filter_not_t_all _ _ H).
  symmetry. apply subattrs_spec.
Qed.

Lemma values_of_filter_same typ l : values_of typ (filter (not_t typ) l) = [].
Proof.
  unfold values_of. induction l as [|s l IH]; [reflexivity|]. cbn [filter]. unfold not_t in *.
  destruct (fst s =? typ)%N eqn:E; cbn [negb]; [exact IH|]. cbn [filter]. rewrite E. exact IH.
Qed.

Lemma values_of_filter_other typ typ' l : typ' <> typ -> values_of typ' (filter (not_t typ) l) = values_of typ' l.
Proof.
  intros Hne. unfold values_of. induction l as [|s l IH]; [reflexivity|]. cbn [filter]. unfold not_t in *.
  destruct (fst s =? typ)%N eqn:E; cbn [negb].
  - destruct (fst s =? typ')%N eqn:E'; [lia|exact IH].
  - cbn [filter]. destruct (fst s =? typ')%N; cbn [map]; rewrite IH; reflexivity.
Qed.

Lemma wf_sub_nonempty s : wf_sub s -> snd s <> [].
Proof. unfold wf_sub. destruct (snd s); [contradiction|discriminate]. Qed.

Lemma flat_map_snd_nil (l : list (N * bytes)) : Forall wf_sub l -> flat_map snd l = [] -> l = [].
Proof.
  destruct l as [|s l]; [reflexivity|]. intros Hw. inversion Hw as [|? ? Hs _]; subst.
  cbn [flat_map]. intros H. apply app_eq_nil in H. destruct H as [H _]. destruct (wf_sub_nonempty s Hs H).
Qed.

(* everything was removed: there was nothing of any other type *)
Lemma strip_all_gone typ typ' payload : snd (strip typ payload) = [] -> typ' <> typ ->
  values_of typ' (fst (subattrs payload)) = [].
Proof.
  rewrite strip_eq. cbn [snd]. intros H Hne. apply app_eq_nil in H. destruct H as [H _].
  destruct (subattrs_spec payload) as (Hw & _ & _).
  apply flat_map_snd_nil in H; [|apply Forall_filter, Hw].
  rewrite <- (values_of_filter_other typ typ' _ Hne), H. reflexivity.
Qed.

Lemma values_of_none typ l : existsb (is_t typ) l = false -> values_of typ l = [].
Proof.
  unfold values_of. induction l as [|s l IH]; [reflexivity|]. cbn [existsb filter]. unfold is_t in *.
  destruct (fst s =? typ)%N; cbn [orb]; [discriminate|exact IH].
Qed.

(* ---- Vendor-Specific framing ---- *)
Lemma vsa_payload_some vid a pl : vsa_payload vid a = Some pl ->
  atype a = VSA_TYPE /\ 5 <= length (aval a) /\ be_dec (firstn 4 (aval a)) = vid /\ pl = skipn 4 (aval a).
Proof.
  unfold vsa_payload. destruct (atype a =? VSA_TYPE)%Z eqn:Et; cbn [negb]; [|discriminate].
  rewrite vendor_specific_eq. unfold spec_vsa. destruct (5 <=? length (aval a)) eqn:El; [|discriminate].
  destruct (be_dec (firstn 4 (aval a)) =? vid)%N eqn:Ev; [|discriminate].
  intros E. inversion E. repeat split; lia.
Qed.

Lemma vsa_payload_nonempty vid a pl : vsa_payload vid a = Some pl -> pl <> [].
Proof.
  intros H. apply vsa_payload_some in H. destruct H as (_ & Hl & _ & ->).
  intros E. apply (f_equal (@length N)) in E. rewrite skipn_length in E. cbn [length] in E. lia.
Qed.

Lemma vsa_payload_rebuilt vid vid' a pl kept : vsa_payload vid a = Some pl -> kept <> [] ->
  vsa_payload vid' (mkavp (atype a) (firstn 4 (aval a) ++ kept)) = if (vid =? vid')%N then Some kept else None.
Proof.
  intros H Hk. apply vsa_payload_some in H. destruct H as (Ht & Hl & Hv & _).
  unfold vsa_payload. cbn [atype aval]. rewrite Ht, Z.eqb_refl. cbn [negb].
  rewrite vendor_specific_eq. unfold spec_vsa.
  assert (H4 : length (firstn 4 (aval a)) = 4) by (rewrite firstn_length; lia).
  assert (Hk' : 1 <= length kept) by (destruct kept; [congruence|cbn [length]; lia]).
  rewrite app_length, H4. destruct (5 <=? 4 + length kept) eqn:E; [|lia].
  pose proof (firstn_len_app (firstn 4 (aval a)) kept) as F. rewrite H4 in F.
  pose proof (skipn_len_app (firstn 4 (aval a)) kept) as G. rewrite H4 in G.
  rewrite F, G, Hv. reflexivity.
Qed.

Lemma firstn4_rebuilt vid a pl k : vsa_payload vid a = Some pl ->
  firstn 4 (firstn 4 (aval a) ++ k) = firstn 4 (aval a).
Proof.
  intros H. apply vsa_payload_some in H. destruct H as (_ & Hl & _ & _).
  assert (H4 : length (firstn 4 (aval a)) = 4) by (rewrite firstn_length; lia).
  pose proof (firstn_len_app (firstn 4 (aval a)) k) as F. rewrite H4 in F. exact F.
Qed.

Lemma vsa_payload_other vid vid' a pl : vsa_payload vid a = Some pl -> vid' <> vid -> vsa_payload vid' a = None.
Proof.
  intros H Hne. apply vsa_payload_some in H. destruct H as (Ht & Hl & Hv & _).
  unfold vsa_payload. rewrite Ht, Z.eqb_refl. cbn [negb]. rewrite vendor_specific_eq. unfold spec_vsa.
  destruct (5 <=? length (aval a)); [|reflexivity]. rewrite Hv.
  destruct (vid =? vid')%N eqn:E; [lia|reflexivity].
Qed.

(* ---- Gets / Lookup ---- *)
Definition gets_one (vid typ : N) (a : avp) : list bytes :=
  match vsa_payload vid a with Some payload => values_of typ (fst (subattrs payload)) | None => [] end.
Lemma gets_vendor_eq vid typ l : gets_vendor vid typ l = flat_map (gets_one vid typ) l.
Proof. reflexivity. Qed.
Lemma gets_vendor_app vid typ l1 l2 : gets_vendor vid typ (l1 ++ l2) = gets_vendor vid typ l1 ++ gets_vendor vid typ l2.
Proof. rewrite !gets_vendor_eq. apply flat_map_app. Qed.
Lemma gets_vendor_cons vid typ a l : gets_vendor vid typ (a :: l) = gets_one vid typ a ++ gets_vendor vid typ l.
Proof. reflexivity. Qed.

Theorem lookup_is_first_gets vid typ l :
  lookup_vendor vid typ l = match gets_vendor vid typ l with v :: _ => Some v | [] => None end.
Proof. reflexivity. Qed.

(* ---- Del ---- *)
Lemma del_vendor_cons vid typ a r : del_vendor vid typ (a :: r) =
  match vsa_payload vid a with
  | Some payload =>
      if negb (fst (strip typ payload)) then a :: del_vendor vid typ r
      else match snd (strip typ payload) with
           | [] => del_vendor vid typ r
           | _ => mkavp (atype a) (firstn 4 (aval a) ++ snd (strip typ payload)) :: del_vendor vid typ r
           end
  | None => a :: del_vendor vid typ r
  end.
Proof. cbn [del_vendor]. destruct (vsa_payload vid a); [|reflexivity]. destruct (strip typ b); reflexivity. Qed.

Theorem gets_del_vendor vid typ vid' typ' l :
  gets_vendor vid' typ' (del_vendor vid typ l) =
  if (vid' =? vid)%N && (typ' =? typ)%N then [] else gets_vendor vid' typ' l.
Proof.
  induction l as [|a r IH]; [destruct ((vid' =? vid)%N && (typ' =? typ)%N); reflexivity|].
  rewrite del_vendor_cons, (gets_vendor_cons vid' typ' a r).
  destruct (vsa_payload vid a) as [payload|] eqn:Ep.
  - destruct (fst (strip typ payload)) eqn:Er; cbn [negb].
    + (* something is removed from this attribute *)
      destruct (snd (strip typ payload)) as [|k0 kept] eqn:Ek.
      * (* nothing left: the attribute disappears *)
        rewrite IH. unfold gets_one.
        destruct (N.eq_dec vid' vid) as [->|Hv].
        -- rewrite Ep, N.eqb_refl. cbn [andb]. destruct (typ' =? typ)%N eqn:Et; [reflexivity|].
           rewrite (strip_all_gone typ typ' payload Ek) by lia. reflexivity.
        -- rewrite (vsa_payload_other vid vid' a payload Ep Hv).
           destruct (vid' =? vid)%N eqn:E; [lia|]. reflexivity.
      * rewrite gets_vendor_cons, IH. unfold gets_one at 1.
        rewrite (vsa_payload_rebuilt vid vid' a payload (k0 :: kept) Ep) by discriminate.
        unfold gets_one.
        destruct (N.eq_dec vid' vid) as [->|Hv].
        -- rewrite N.eqb_refl, Ep. cbn [andb]. rewrite <- Ek, subattrs_kept. cbn [fst].
           destruct (typ' =? typ)%N eqn:Et.
           ++ assert (typ' = typ) by lia. subst. rewrite values_of_filter_same. reflexivity.
           ++ rewrite values_of_filter_other by lia. reflexivity.
        -- rewrite (vsa_payload_other vid vid' a payload Ep Hv).
           destruct (vid =? vid')%N eqn:E; [lia|]. destruct (vid' =? vid)%N eqn:E'; [lia|]. reflexivity.
    + (* nothing to remove here *)
      rewrite gets_vendor_cons, IH.
      destruct ((vid' =? vid)%N && (typ' =? typ)%N) eqn:Eb; [|reflexivity].
      assert (vid' = vid /\ typ' = typ) as [-> ->] by lia.
      unfold gets_one. rewrite Ep. rewrite strip_eq in Er. cbn [fst] in Er.
      rewrite (values_of_none _ _ Er). reflexivity.
  - rewrite gets_vendor_cons, IH.
    destruct ((vid' =? vid)%N && (typ' =? typ)%N) eqn:Eb; [|reflexivity].
    assert (vid' = vid) as -> by lia. unfold gets_one. rewrite Ep. reflexivity.
Qed.

(* Del removes every occurrence ... *)
Corollary del_vendor_removes_all vid typ l : gets_vendor vid typ (del_vendor vid typ l) = [].
Proof. rewrite gets_del_vendor, !N.eqb_refl. reflexivity. Qed.
Corollary del_vendor_lookup vid typ l : lookup_vendor vid typ (del_vendor vid typ l) = None.
Proof. unfold lookup_vendor. rewrite del_vendor_removes_all. reflexivity. Qed.
(* ... and no other (vendor, type) sees a difference *)
Corollary del_vendor_others_values vid typ vid' typ' l : (vid', typ') <> (vid, typ) ->
  gets_vendor vid' typ' (del_vendor vid typ l) = gets_vendor vid' typ' l.
Proof.
  intros Hne. rewrite gets_del_vendor. destruct ((vid' =? vid)%N && (typ' =? typ)%N) eqn:E; [|reflexivity].
  exfalso. apply Hne. f_equal; lia.
Qed.

(* what is left of a packet when the sub-attributes (vid, typ) are looked through:
   every other attribute as it is, every Vendor-Specific attribute of the vendor
   without them, and nothing for one that holds nothing else *)
Definition view (vid typ : N) (a : avp) : list avp :=
  match vsa_payload vid a with
  | None => [a]
  | Some payload =>
    match snd (strip typ payload) with
    | [] => []
    | kept => [mkavp (atype a) (firstn 4 (aval a) ++ kept)]
    end
  end.

Lemma avp_eta a : mkavp (atype a) (aval a) = a.
Proof. destruct a; reflexivity. Qed.

Theorem del_vendor_view vid typ l : flat_map (view vid typ) (del_vendor vid typ l) = flat_map (view vid typ) l.
Proof.
  induction l as [|a r IH]; [reflexivity|]. rewrite del_vendor_cons. cbn [flat_map].
  destruct (vsa_payload vid a) as [payload|] eqn:Ep.
  - destruct (fst (strip typ payload)) eqn:Er; cbn [negb].
    + destruct (snd (strip typ payload)) as [|k0 kept] eqn:Ek.
      * rewrite IH. unfold view at 2. rewrite Ep, Ek. reflexivity.
      * cbn [flat_map]. rewrite IH. f_equal. unfold view.
        rewrite (vsa_payload_rebuilt vid vid a payload (k0 :: kept) Ep) by discriminate.
        rewrite N.eqb_refl, Ep, Ek. rewrite <- Ek, strip_kept. cbn [snd]. rewrite Ek. cbn [atype aval].
        rewrite (firstn4_rebuilt vid a payload _ Ep). reflexivity.
    + cbn [flat_map]. rewrite IH. reflexivity.
  - cbn [flat_map]. rewrite IH. reflexivity.
Qed.

(* ---- Add / Set ---- *)
Lemma vendor_tlv_length typ a : length (vendor_tlv typ a) = 2 + length a.
Proof. reflexivity. Qed.

Lemma vendor_tlv_sub typ a : 1 <= length a <= 253 ->
  subattrs (vendor_tlv typ a) = ([(typ, vendor_tlv typ a)], []).
Proof.
  intros Hl. apply subattrs_unique.
  - constructor; [|constructor]. unfold wf_sub, vendor_tlv. cbn [fst snd].
    destruct a as [|a0 a']; [cbn [length] in Hl; lia|]. split; [reflexivity|].
    unfold zbyte, zlen. cbn [length] in *. lia.
  - exact I.
  - cbn [flat_map snd]. rewrite !app_nil_r. reflexivity.
Qed.

Definition new_vsa_attr (vid typ : N) (a : bytes) : avp := mkavp VSA_TYPE (be_enc 4 vid ++ vendor_tlv typ a).

Lemma vsa_payload_new vid vid' typ a : (vid < 4294967296)%N -> 1 <= length a ->
  vsa_payload vid' (new_vsa_attr vid typ a) = if (vid =? vid')%N then Some (vendor_tlv typ a) else None.
Proof.
  intros Hv Hl. unfold vsa_payload, new_vsa_attr. cbn [atype aval]. rewrite Z.eqb_refl. cbn [negb].
  rewrite vendor_specific_eq. unfold spec_vsa. rewrite app_length, be_enc_length, vendor_tlv_length.
  destruct (5 <=? 4 + (2 + length a)) eqn:E; [|lia].
  pose proof (firstn_len_app (be_enc 4 vid) (vendor_tlv typ a)) as F. rewrite be_enc_length in F.
  pose proof (skipn_len_app (be_enc 4 vid) (vendor_tlv typ a)) as G. rewrite be_enc_length in G.
  rewrite F, G, be_dec_enc_small; [reflexivity|]. exact Hv.
Qed.

Theorem add_vendor_ok vid typ a l :
  add_vendor vid typ a l = if (1 <=? length a) && (length a <=? 247) then Ok (l ++ [new_vsa_attr vid typ a]) else Err E_invalid.
Proof.
  unfold add_vendor. destruct (length a =? 0) eqn:E0.
  - destruct ((1 <=? length a) && (length a <=? 247)) eqn:E; [lia|reflexivity].
  - rewrite new_vendor_specific_eq. unfold spec_new_vsa. rewrite vendor_tlv_length.
    destruct ((1 <=? 2 + length a) && (2 + length a <=? 249)) eqn:E1;
      destruct ((1 <=? length a) && (length a <=? 247)) eqn:E2; try lia; [|reflexivity].
    rewrite add_spec. reflexivity.
Qed.

Theorem set_vendor_ok vid typ a l :
  set_vendor vid typ a l = if (1 <=? length a) && (length a <=? 247)
                           then Ok (del_vendor vid typ l ++ [new_vsa_attr vid typ a]) else Err E_invalid.
Proof.
  unfold set_vendor. destruct (length a =? 0) eqn:E0.
  - destruct ((1 <=? length a) && (length a <=? 247)) eqn:E; [lia|reflexivity].
  - rewrite new_vendor_specific_eq. unfold spec_new_vsa. rewrite vendor_tlv_length.
    destruct ((1 <=? 2 + length a) && (2 + length a <=? 249)) eqn:E1;
      destruct ((1 <=? length a) && (length a <=? 247)) eqn:E2; try lia; [|reflexivity].
    rewrite add_spec. reflexivity.
Qed.

Lemma gets_one_new vid vid' typ typ' a : (vid < 4294967296)%N -> 1 <= length a <= 253 ->
  gets_one vid' typ' (new_vsa_attr vid typ a) = if (vid' =? vid)%N && (typ' =? typ)%N then [a] else [].
Proof.
  intros Hv Hl. unfold gets_one. rewrite vsa_payload_new by lia.
  destruct (vid =? vid')%N eqn:E; [|destruct (vid' =? vid)%N eqn:E'; [lia|reflexivity]].
  assert (vid' = vid) as -> by lia. rewrite N.eqb_refl. cbn [andb].
  rewrite vendor_tlv_sub by lia. cbn [fst]. unfold values_of. cbn [filter fst].
  rewrite N.eqb_sym. destruct (typ' =? typ)%N; reflexivity.
Qed.

Lemma view_new vid typ a : (vid < 4294967296)%N -> 1 <= length a <= 253 -> view vid typ (new_vsa_attr vid typ a) = [].
Proof.
  intros Hv Hl. unfold view. rewrite vsa_payload_new, N.eqb_refl by lia.
  rewrite strip_eq, vendor_tlv_sub by lia. cbn [fst snd filter]. unfold not_t. cbn [fst].
  rewrite N.eqb_refl. reflexivity.
Qed.

Section WithVendor.
Variables (vid typ : N) (a : bytes) (l l' : attrs).
Hypothesis Hvid : (vid < 4294967296)%N.

(* Add appends one well-formed Vendor-Specific attribute *)
Theorem add_vendor_appends : add_vendor vid typ a l = Ok l' ->
  l' = l ++ [new_vsa_attr vid typ a] /\
  vsa_payload vid (new_vsa_attr vid typ a) = Some (vendor_tlv typ a) /\
  subattrs (vendor_tlv typ a) = ([(typ, vendor_tlv typ a)], []) /\
  length (aval (new_vsa_attr vid typ a)) <= 253.
Proof.
  rewrite add_vendor_ok. destruct ((1 <=? length a) && (length a <=? 247)) eqn:E; [|discriminate].
  intros H. inversion H. split; [reflexivity|]. rewrite vsa_payload_new, N.eqb_refl by lia.
  split; [reflexivity|]. split; [apply vendor_tlv_sub; lia|].
  unfold new_vsa_attr. cbn [aval]. rewrite app_length, be_enc_length, vendor_tlv_length. lia.
Qed.

Theorem add_vendor_gets vid' typ' : add_vendor vid typ a l = Ok l' ->
  gets_vendor vid' typ' l' = gets_vendor vid' typ' l ++ (if (vid' =? vid)%N && (typ' =? typ)%N then [a] else []).
Proof.
  rewrite add_vendor_ok. destruct ((1 <=? length a) && (length a <=? 247)) eqn:E; [|discriminate].
  intros H. inversion H. rewrite gets_vendor_app. f_equal. rewrite gets_vendor_cons, gets_one_new by lia.
  apply app_nil_r.
Qed.

Theorem add_vendor_view : add_vendor vid typ a l = Ok l' -> flat_map (view vid typ) l' = flat_map (view vid typ) l.
Proof.
  rewrite add_vendor_ok. destruct ((1 <=? length a) && (length a <=? 247)) eqn:E; [|discriminate].
  intros H. inversion H. rewrite flat_map_app. cbn [flat_map]. rewrite view_new by lia. rewrite !app_nil_r. reflexivity.
Qed.

(* Set leaves exactly one occurrence holding the new value ... *)
Theorem set_vendor_gets vid' typ' : set_vendor vid typ a l = Ok l' ->
  gets_vendor vid' typ' l' = if (vid' =? vid)%N && (typ' =? typ)%N then [a] else gets_vendor vid' typ' l.
Proof.
  rewrite set_vendor_ok. destruct ((1 <=? length a) && (length a <=? 247)) eqn:E; [|discriminate].
  intros H. inversion H. rewrite gets_vendor_app, gets_del_vendor, gets_vendor_cons, gets_one_new by lia.
  destruct ((vid' =? vid)%N && (typ' =? typ)%N); [reflexivity|]. rewrite !app_nil_r. reflexivity.
Qed.

(* ... and everything else is where and what it was *)
Theorem set_vendor_view : set_vendor vid typ a l = Ok l' -> flat_map (view vid typ) l' = flat_map (view vid typ) l.
Proof.
  rewrite set_vendor_ok. destruct ((1 <=? length a) && (length a <=? 247)) eqn:E; [|discriminate].
  intros H. inversion H. rewrite flat_map_app, del_vendor_view. cbn [flat_map]. rewrite view_new by lia.
  rewrite !app_nil_r. reflexivity.
Qed.
End WithVendor.

(* whether Set / Add fail is decided by the value alone, before the packet is touched *)
Theorem set_vendor_failure_independent vid typ a l1 l2 :
  (exists e, set_vendor vid typ a l1 = Err e) -> exists e, set_vendor vid typ a l2 = Err e.
Proof.
  rewrite !set_vendor_ok. destruct ((1 <=? length a) && (length a <=? 247)); [intros [e H]; discriminate|eauto].
Qed.

(* no Vendor-Specific attribute of the vendor is ever left empty, and no helper
   result is Panic or OutOfFuel: the functions are total *)
Theorem no_empty_vsa vid l a pl : In a l -> vsa_payload vid a = Some pl -> pl <> [].
Proof. intros _. apply vsa_payload_nonempty. Qed.

Theorem vendor_total vid typ a l :
  add_vendor vid typ a l <> Panic /\ add_vendor vid typ a l <> OutOfFuel /\
  set_vendor vid typ a l <> Panic /\ set_vendor vid typ a l <> OutOfFuel.
Proof.
  rewrite add_vendor_ok, set_vendor_ok. destruct ((1 <=? length a) && (length a <=? 247)); repeat split; discriminate.
Qed.

(* the attributes that are not Vendor-Specific attributes of this vendor are kept, byte for byte and in order *)
Definition foreign (vid : N) (a : avp) : bool := match vsa_payload vid a with Some _ => false | None => true end.
Lemma filter_foreign_view vid typ l : filter (foreign vid) (flat_map (view vid typ) l) = filter (foreign vid) l.
Proof.
  induction l as [|a r IH]; [reflexivity|]. cbn [flat_map filter]. rewrite filter_app, IH. unfold view, foreign at 3.
  destruct (vsa_payload vid a) as [pl|] eqn:Ep.
  - destruct (snd (strip typ pl)) as [|k0 kept] eqn:Ek; [reflexivity|]. cbn [filter]. unfold foreign at 1.
    rewrite (vsa_payload_rebuilt vid vid a pl (k0 :: kept) Ep), N.eqb_refl by discriminate. reflexivity.
  - cbn [filter]. unfold foreign at 1. rewrite Ep. reflexivity.
Qed.

Theorem del_vendor_foreign vid typ l : filter (foreign vid) (del_vendor vid typ l) = filter (foreign vid) l.
Proof. rewrite <- (filter_foreign_view vid typ (del_vendor vid typ l)), del_vendor_view. apply filter_foreign_view. Qed.

Theorem gets_one_exact vid typ a payload subs rest : vsa_payload vid a = Some payload ->
  Forall wf_sub subs -> stuck rest -> payload = flat_map snd subs ++ rest ->
  gets_one vid typ a = values_of typ subs.
Proof.
  intros Hp Hw Hs Hv. unfold gets_one. rewrite Hp, (subattrs_unique payload subs rest Hw Hs Hv). reflexivity.
Qed.

(* non-vacuity: a packet whose Vendor-Specific attribute of vendor 9 shares three
   sub-attributes (types 1, 2, 1) and ends in a malformed one (length 0) *)
Definition ex_vsa : avp := mkavp 26 [0;0;0;9; 1;3;170; 2;4;187;188; 1;3;204; 7;0;1]%N.
Definition ex_packet : attrs := [mkavp 1 [65]%N; ex_vsa; mkavp 26 [0;0;0;8; 1;3;1]%N].
Example ex_gets : gets_vendor 9 1 ex_packet = [[170]; [204]]%N. Proof. reflexivity. Qed.
Example ex_del : del_vendor 9 1 ex_packet =
  [mkavp 1 [65]%N; mkavp 26 [0;0;0;9; 2;4;187;188; 7;0;1]%N; mkavp 26 [0;0;0;8; 1;3;1]%N].
Proof. reflexivity. Qed.
Example ex_set : set_vendor 9 1 [5]%N ex_packet =
  Ok [mkavp 1 [65]%N; mkavp 26 [0;0;0;9; 2;4;187;188; 7;0;1]%N; mkavp 26 [0;0;0;8; 1;3;1]%N; mkavp 26 [0;0;0;9;1;3;5]%N].
Proof. reflexivity. Qed.
