(* Proofs/ShutdownInvD.v — one slice of the preservation proof of the Serve/Shutdown invariant (split for parallel compilation). *)
From Radius Require Import Base.Bytes Base.Res Model.Shutdown Proofs.ShutdownInv.
From Coq Require Import ZifyBool ZifyNat ZifyN.
Open Scope nat_scope.
Section Step.
Variable s : state.
Hypothesis Ia : active s = (Z.of_nat (cnt holds (threads s)) - (if sdec s then 1 else 0))%Z.
Hypothesis Ic : closes s = if sdec s && (cnt holds (threads s) =? 0) then 1 else 0.
Hypothesis Im : cnt in_cs (threads s) = if mu s then 1 else 0.
Hypothesis Ir : shut s = true -> cnt at_reg (threads s) = 0.
Hypothesis Il : cnt closing (threads s) = if shut s && negb (sdec s) then 1 else 0.
Hypothesis Isd : sdec s = true -> shut s = true.
Hypothesis Inl : 0 < cnt at_nil (threads s) -> closes s = 1.
Hypothesis Icl : shut s = true -> cnt at_hclose (threads s) = 0 -> incl (regs s) (closedc s).
Hypothesis Icn : shut s = true -> cnt pre_cancel (threads s) = 0 -> cancelled s = true.
Ltac fin := finish s Ir Isd Inl Icl Icn.
Lemma dgram_all i pc a s' : nth_error (threads s) i = Some (TDgram pc) -> step_dgram s i pc a = Some s' -> Inv s'.
Proof.
  intros Hn Hs. destruct pc; destruct a; cbn [step_dgram] in Hs; try discriminate.
  - inversion Hs; subst s'; clear Hs.
    destruct drop; [counts Hn (TDgram D_exit)|counts Hn (TDgram D_handler)]; fin.
  - inversion Hs; subst s'; clear Hs.
    counts Hn (TDgram D_exit). fin.
  - inversion Hs; subst s'; clear Hs.
    pose proof (cnt_ge1 holds _ _ _ Hn eq_refl) as Hh1.
    counts Hn (TDgram D_end). fin.
Qed.
End Step.
