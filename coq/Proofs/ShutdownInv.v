(* Proofs/ShutdownInv.v — the counting invariant of Serve/Shutdown holds in every
   reachable state of the repaired ordering, for any number of threads and any
   interleaving (C07). *)
From Radius Require Import Base.Bytes Base.Res Model.Shutdown.
From Coq Require Import ZifyBool ZifyNat ZifyN.
Open Scope nat_scope.

(* ---- counting threads ---- *)
Fixpoint cnt (f : thread -> bool) (l : list thread) : nat :=
  match l with [] => 0 | t :: r => (if f t then 1 else 0) + cnt f r end.

Lemma cnt_app f l1 l2 : cnt f (l1 ++ l2) = cnt f l1 + cnt f l2.
Proof. induction l1 as [|t l1 IH]; cbn [cnt app]; [reflexivity|rewrite IH; lia]. Qed.

Lemma cnt_update f : forall l i t t', nth_error l i = Some t ->
  cnt f (update_at i t' l) + (if f t then 1 else 0) = cnt f l + (if f t' then 1 else 0).
Proof.
  intros l i t t' Hn. rewrite update_at_eq.
  assert (E : cnt f l = cnt f (firstn i l) + ((if f t then 1 else 0) + cnt f (skipn (S i) l))).
  { rewrite <- (firstn_skipn i l) at 1. rewrite (nth_error_skipn_cons l i t Hn).
    rewrite cnt_app. reflexivity. }
  rewrite E, cnt_app. cbn [cnt]. destruct (f t), (f t'); lia.
Qed.

Lemma cnt_ge1 f : forall l i t, nth_error l i = Some t -> f t = true -> 1 <= cnt f l.
Proof.
  induction l as [|x l IH]; intros [|i] t Hn Hf; cbn [nth_error] in Hn; try discriminate.
  - inversion Hn; subst. cbn [cnt]. rewrite Hf. lia.
  - specialize (IH i t Hn Hf). cbn [cnt]. lia.
Qed.

Lemma cnt_le f g l : (forall t, f t = true -> g t = true) -> cnt f l <= cnt g l.
Proof.
  intros Hfg. induction l as [|x l IH]; cbn [cnt]; [lia|].
  destruct (f x) eqn:E.
  - rewrite (Hfg x E). lia.
  - destruct (g x); lia.
Qed.

Lemma cnt_both f g l : (forall t, f t = true -> g t = true -> False) -> cnt f l + cnt g l <= length l.
Proof.
  intros Hfg. induction l as [|x l IH]; cbn [cnt length]; [lia|].
  destruct (f x) eqn:E1; destruct (g x) eqn:E2; try lia. all: exfalso; eauto.
Qed.

(* ---- thread classes ---- *)
Definition holds (t : thread) : bool :=       (* counted in activeCount *)
  match t with
  | TServe _ pc => match pc with
                   | S_unl | S_registered | S_reading | S_exit _ | S_exit_locked _ | S_exit_unl _ => true
                   | _ => false end
  | TDgram pc => match pc with D_end => false | _ => true end
  | TShut _ _ => false
  end.
Definition in_cs (t : thread) : bool :=       (* holds s.mu *)
  match t with
  | TServe _ pc => match pc with S_locked | S_reg | S_unl | S_exit_locked _ => true | _ => false end
  | TShut pc _ => match pc with H_locked | H_close | H_cancel | H_dec | H_unlock => true | _ => false end
  | TDgram _ => false
  end.
Definition at_reg (t : thread) : bool := match t with TServe _ S_reg => true | _ => false end.
Definition closing (t : thread) : bool :=
  match t with TShut pc _ => match pc with H_close | H_cancel | H_dec => true | _ => false end | _ => false end.
Definition at_nil (t : thread) : bool := match t with TShut H_ret_nil _ => true | _ => false end.
Definition at_hclose (t : thread) : bool := match t with TShut H_close _ => true | _ => false end.
Definition pre_cancel (t : thread) : bool :=
  match t with TShut pc _ => match pc with H_close | H_cancel => true | _ => false end | _ => false end.

Record Inv (s : state) : Prop := mkInv {
  i_active : active s = (Z.of_nat (cnt holds (threads s)) - (if sdec s then 1 else 0))%Z;
  i_closes : closes s = if sdec s && (cnt holds (threads s) =? 0) then 1 else 0;
  i_mu : cnt in_cs (threads s) = if mu s then 1 else 0;
  i_reg : shut s = true -> cnt at_reg (threads s) = 0;
  i_closing : cnt closing (threads s) = if shut s && negb (sdec s) then 1 else 0;
  i_sdec : sdec s = true -> shut s = true;
  i_nil : 0 < cnt at_nil (threads s) -> closes s = 1;
  i_closed : shut s = true -> cnt at_hclose (threads s) = 0 -> incl (regs s) (closedc s);
  i_cancel : shut s = true -> cnt pre_cancel (threads s) = 0 -> cancelled s = true
}.

Lemma inv_init : Inv init.
Proof. constructor; cbn; try reflexivity; try discriminate; try lia. Qed.

Lemma incl_remove_one c l : incl (remove_one c l) l.
Proof.
  induction l as [|x l IH]; cbn [remove_one]; [apply incl_refl|].
  destruct (x =? c); [apply incl_tl, incl_refl|]. apply incl_cons; [left; reflexivity|apply incl_tl; exact IH].
Qed.

Ltac counts Hn t' :=
  pose proof (cnt_update holds _ _ _ t' Hn) as Uh;
  pose proof (cnt_update in_cs _ _ _ t' Hn) as Uc;
  pose proof (cnt_update at_reg _ _ _ t' Hn) as Ur;
  pose proof (cnt_update closing _ _ _ t' Hn) as Ul;
  pose proof (cnt_update at_nil _ _ _ t' Hn) as Un;
  pose proof (cnt_update at_hclose _ _ _ t' Hn) as Uhc;
  pose proof (cnt_update pre_cancel _ _ _ t' Hn) as Upc;
  cbn [holds in_cs at_reg closing at_nil at_hclose pre_cancel] in Uh, Uc, Ur, Ul, Un, Uhc, Upc.

Ltac fields := cbn [set_thread with_mu active_add active_done add_thread
                    mu shut active closes sdec regs closedc cancelled threads] in *.

(* facts used by several cases *)
Lemma in_cs_unique s i t : Inv s -> nth_error (threads s) i = Some t -> in_cs t = true ->
  mu s = true /\ cnt in_cs (threads s) = 1.
Proof.
  intros I Hn Hc. pose proof (cnt_ge1 in_cs _ _ _ Hn Hc) as H1. pose proof (i_mu s I) as Hm.
  destruct (mu s); [split; [reflexivity|lia]|lia].
Qed.

Ltac ifs := repeat match goal with
  | |- context [if ?b then _ else _] => let E := fresh "E" in destruct b eqn:E
  | H : context [if ?b then _ else _] |- _ => let E := fresh "E" in destruct b eqn:E
  end.

(* one tactic for all nine fields of the invariant after a step *)
Ltac field s Inl Icl :=
  intros;
  first
  [ assumption
  | reflexivity
  | discriminate
  | solve [apply Icl; lia]
  | solve [eapply incl_tran; [apply incl_remove_one | apply Icl; lia]]
  | solve [apply incl_appl, incl_refl]
  | solve [ try (assert (closes s = 1) by (apply Inl; lia));
            ifs; try discriminate; try lia; try congruence; exfalso; lia ] ].

Ltac finish s Ir Isd Inl Icl Icn :=
  destruct (sdec s) eqn:Esd_; destruct (shut s) eqn:Esh_; destruct (mu s) eqn:Emu_;
  cbn [andb negb] in *; try discriminate; try congruence;
  try specialize (Ir eq_refl); try specialize (Isd eq_refl);
  try specialize (Icl eq_refl); try specialize (Icn eq_refl);
  try discriminate; try (exfalso; lia);
  constructor; fields; cbn [andb negb]; field s Inl Icl.

Lemma in_cs_unique' s i t :
  cnt in_cs (threads s) = (if mu s then 1 else 0) ->
  nth_error (threads s) i = Some t -> in_cs t = true ->
  mu s = true /\ cnt in_cs (threads s) = 1.
Proof.
  intros Im Hn Hc. pose proof (cnt_ge1 in_cs _ _ _ Hn Hc) as H1.
  destruct (mu s); [split; [reflexivity|lia]|lia].
Qed.
