(* Proofs/TunnelPassword.v — NewTunnelPassword / TunnelPassword compute RFC 2868
   s3.5, fit an attribute and round-trip (C11), for every 16-byte hash. *)
From Radius Require Import Base.Bytes Base.Guard Base.Res Gen.Consts Model.Attrs Model.Passwords
  Spec.C04 Spec.C11 Proofs.Guards Proofs.UserPassword.
From Coq Require Import ZifyBool ZifyNat ZifyN.
Open Scope nat_scope.

Section S.
Variable H : bytes -> bytes.
Hypothesis H_len : forall x, length (H x) = 16.

Lemma skipn_app_ge {A} (l1 l2 : list A) n : length l1 <= n -> skipn n (l1 ++ l2) = skipn (n - length l1) l2.
Proof. intros Hn. rewrite skipn_app. rewrite (skipn_all2 l1) by lia. reflexivity. Qed.
Lemma skipn_app_le {A} (l1 l2 : list A) n : n <= length l1 -> skipn n (l1 ++ l2) = skipn n l1 ++ l2.
Proof. intros Hn. rewrite skipn_app. replace (n - length l1) with 0 by lia. reflexivity. Qed.
Lemma firstn_app_le {A} (l1 l2 : list A) n : n <= length l1 -> firstn n (l1 ++ l2) = firstn n l1.
Proof. intros Hn. rewrite firstn_app. replace (n - length l1) with 0 by lia. rewrite firstn_O, app_nil_r. reflexivity. Qed.

Lemma xor_pad_zeros h p k : xor_pad h (p ++ repeat 0%N k) = xor_pad h p.
Proof.
  revert h; induction p as [|x p IHp]; intros h.
  - cbn [app]. rewrite xor_pad_nil_r. revert h; induction k as [|k IHk]; intros h; [apply xor_pad_nil_r|].
    destruct h as [|y h]; [reflexivity|]. cbn [repeat xor_pad]. rewrite N.lxor_0_r. f_equal. apply IHk.
  - destruct h as [|y h]; [reflexivity|]. cbn [app xor_pad]. f_equal. apply IHp.
Qed.

Lemma skipn_repeat' {A} (x : A) j k : skipn j (repeat x k) = repeat x (k - j).
Proof.
  revert k; induction j as [|j IH]; intros k; [rewrite Nat.sub_0_r; reflexivity|].
  destruct k as [|k]; [reflexivity|]. cbn [repeat skipn Nat.sub]. apply IH.
Qed.

(* explicit zero padding of the plaintext is what the block function does anyway *)
Lemma rfc_up_enc_zeros n : forall sec prev p k,
  rfc_up_enc H n sec prev (p ++ repeat 0%N k) = rfc_up_enc H n sec prev p.
Proof.
  induction n as [|n IH]; intros sec prev p k; [reflexivity|].
  cbn [rfc_up_enc].
  assert (E : xor_pad (H (sec ++ prev)) (firstn 16 (p ++ repeat 0%N k)) = xor_pad (H (sec ++ prev)) (firstn 16 p)).
  { rewrite !xor_pad_firstn by (rewrite H_len; lia). apply xor_pad_zeros. }
  rewrite E. f_equal.
  rewrite skipn_app, skipn_repeat'. apply IH.
Qed.

(* ---- NewTunnelPassword ---- *)
Lemma ntp_loop_spec sec ra salt : length salt = 2 ->
  forall m k C R prev,
  length C = 16 * k -> length R = 16 * m ->
  (k = 0 -> prev = ra ++ salt) ->
  (0 < k -> prev = skipn (16 * (k - 1)) C) ->
  ntp_loop H m k sec ra salt (salt ++ C ++ R) = Ok (salt ++ C ++ rfc_up_enc H m sec prev R).
Proof.
  intros Hsalt. induction m as [|m IH]; intros k C R prev HC HR Hk0 Hk1.
  - destruct R; [|cbn [length] in HR; lia]. reflexivity.
  - cbn [ntp_loop].
    assert (Hh : (if k =? 0 then Ok (H (sec ++ ra ++ salt))
                  else match slice (salt ++ C ++ R) (2 + (k - 1) * 16) (2 + k * 16) with
                       | Ok prev0 => Ok (H (sec ++ prev0)) | _ => Panic end) = Ok (H (sec ++ prev))).
    { destruct (Nat.eqb_spec k 0) as [E|E].
      - rewrite (Hk0 E). reflexivity.
      - rewrite slice_ok; [| lia | rewrite !app_length; lia].
        replace (2 + k * 16 - (2 + (k - 1) * 16)) with 16 by lia.
        rewrite skipn_app_ge by lia. rewrite Hsalt.
        replace (2 + (k - 1) * 16 - 2) with (16 * (k - 1)) by lia.
        rewrite skipn_app_le by lia. rewrite firstn_app_le by (rewrite skipn_length; lia).
        rewrite firstn_all2 by (rewrite skipn_length; lia).
        rewrite (Hk1 ltac:(lia)). reflexivity. }
    rewrite Hh. unfold xor_block. rewrite !app_length.
    replace (length salt + (length C + length R) <? 2 + k * 16 + 16) with false by lia.
    set (b := H (sec ++ prev)).
    assert (E1 : firstn (2 + k * 16) (salt ++ C ++ R) = salt ++ C).
    { rewrite app_assoc. replace (2 + k * 16) with (length (salt ++ C)) by (rewrite app_length; lia).
      apply firstn_app_exact. }
    assert (E2 : forall j, skipn (2 + k * 16 + j) (salt ++ C ++ R) = skipn j R).
    { intros j. rewrite app_assoc. rewrite skipn_app_ge by (rewrite app_length; lia).
      f_equal. rewrite app_length. lia. }
    assert (E3 : skipn (2 + k * 16) (salt ++ C ++ R) = R).
    { rewrite <- (Nat.add_0_r (2 + k * 16)). rewrite E2. reflexivity. }
    rewrite E1, E3, E2.
    set (c := xor_pad (firstn 16 R) b).
    assert (Hc : length c = 16) by (unfold c; rewrite xor_pad_length, firstn_length; lia).
    replace ((salt ++ C) ++ c ++ skipn 16 R) with (salt ++ (C ++ c) ++ skipn 16 R)
      by (rewrite <- !app_assoc; reflexivity).
    rewrite (IH (S k) (C ++ c) (skipn 16 R) c).
    + cbn [rfc_up_enc]. fold b.
      replace (xor_pad b (firstn 16 R)) with c
        by (unfold c; apply xor_pad_comm; rewrite firstn_length; unfold b; rewrite H_len; lia).
      rewrite <- !app_assoc. reflexivity.
    + rewrite app_length. lia.
    + rewrite skipn_length. lia.
    + intros E; discriminate.
    + intros _. replace (16 * (S k - 1)) with (length C) by lia. rewrite skipn_app_exact. reflexivity.
Qed.

Lemma salt_msb_guard s0 : negb (salt_msb_set s0) = negb (128 <=? s0 mod 256)%N.
Proof. reflexivity. Qed.

Theorem new_tunnel_password_is_rfc pw salt sec ra :
  length pw <= tp_max_password -> salt_ok salt = true -> sec <> [] -> length ra = 16 ->
  new_tunnel_password H pw salt sec ra = Ok (rfc_tp_encrypt H sec ra salt pw).
Proof.
  intros Hp Hsalt Hs Hr. unfold tp_max_password in Hp.
  destruct salt as [|s0 [|s1 [|? ?]]]; try discriminate. cbn [salt_ok] in Hsalt.
  unfold new_tunnel_password.
  rewrite g_NewTunnelPassword_0, g_NewTunnelPassword_1, g_NewTunnelPassword_3, g_NewTunnelPassword_4. unfold zlen.
  replace (Z.of_nat (length pw) >? 239)%Z with false by lia.
  cbn [length]. replace (negb (Z.of_nat 2 =? 2)%Z) with false by reflexivity.
  unfold salt_msb_set. rewrite Hsalt. cbn [negb].
  replace (Z.of_nat (length sec) =? 0)%Z with false by (destruct sec; [congruence|cbn [length]; lia]).
  replace (negb (Z.of_nat (length ra) =? 16)%Z) with false by lia.
  set (n := (1 + length pw + 16 - 1) / 16).
  assert (Hn : n = tp_blocks (length pw)) by (unfold n, tp_blocks; f_equal; lia).
  assert (Hn1 : 1 <= n) by (unfold n; lia).
  replace (n =? 0) with false by lia.
  cbn [firstn].
  replace (zbyte (Z.of_nat (length pw))) with (N.of_nat (length pw)) by (unfold zbyte; lia).
  fold (tp_plain pw).
  pose proof (ntp_loop_spec sec ra [s0; s1] eq_refl n 0 [] (pad_to (n * 16) (tp_plain pw)) (ra ++ [s0; s1])) as L.
  cbn [app] in L. cbn [app]. rewrite L; clear L.
  - unfold rfc_tp_encrypt. rewrite <- Hn. cbn [app]. unfold pad_to.
    rewrite rfc_up_enc_zeros. reflexivity.
  - reflexivity.
  - rewrite pad_to_length; [lia|]. unfold tp_plain. cbn [length]. unfold n. lia.
  - reflexivity.
  - intros Hk; lia.
Qed.
Theorem rfc_tp_encrypt_length sec ra salt pw :
  length (rfc_tp_encrypt H sec ra salt pw) = length salt + 16 * tp_blocks (length pw).
Proof. unfold rfc_tp_encrypt. rewrite app_length, rfc_up_enc_length by exact H_len. reflexivity. Qed.

Theorem new_tunnel_password_eq_spec pw salt sec ra :
  new_tunnel_password H pw salt sec ra = spec_new_tunnel_password H pw salt sec ra.
Proof.
  unfold spec_new_tunnel_password.
  destruct ((tp_max_password <? length pw) || negb (salt_ok salt) || (length sec =? 0) || negb (length ra =? 16)) eqn:E.
  - unfold new_tunnel_password.
    rewrite g_NewTunnelPassword_0, g_NewTunnelPassword_1, g_NewTunnelPassword_3, g_NewTunnelPassword_4. unfold zlen.
    destruct (Z.of_nat (length pw) >? 239)%Z eqn:E0; [reflexivity|].
    destruct (negb (Z.of_nat (length salt) =? 2)%Z) eqn:E1; [reflexivity|].
    destruct salt as [|s0 [|s1 [|? ?]]]; try (cbn [length] in E1; lia).
    destruct (negb (salt_msb_set s0)) eqn:E2; [reflexivity|].
    destruct (Z.of_nat (length sec) =? 0)%Z eqn:E3; [reflexivity|].
    destruct (negb (Z.of_nat (length ra) =? 16)%Z) eqn:E4; [reflexivity|].
    exfalso. cbn [salt_ok] in E. unfold salt_msb_set in E2. unfold tp_max_password in E. lia.
  - unfold tp_max_password in E. apply new_tunnel_password_is_rfc.
    + unfold tp_max_password. lia.
    + destruct (salt_ok salt); [reflexivity|cbn in E; lia].
    + intros ->. cbn [length] in E. lia.
    + lia.
Qed.

(* the result together with a tag byte fits in one attribute *)
Theorem tp_fits pw salt sec ra a :
  new_tunnel_password H pw salt sec ra = Ok a -> 1 + length a <= 253.
Proof.
  rewrite new_tunnel_password_eq_spec. unfold spec_new_tunnel_password.
  destruct ((tp_max_password <? length pw) || negb (salt_ok salt) || (length sec =? 0) || negb (length ra =? 16)) eqn:E;
    [discriminate|].
  intros Hok. apply Ok_inj in Hok. subst a. rewrite rfc_tp_encrypt_length.
  unfold tp_max_password in E.
  destruct salt as [|s0 [|s1 [|? ?]]]; try (cbn in E; lia).
  cbn [length]. unfold tp_blocks. lia.
Qed.

Theorem new_tunnel_password_refuses pw salt sec ra :
  tp_max_password < length pw \/ salt_ok salt = false \/ sec = [] \/ length ra <> 16 ->
  exists e, new_tunnel_password H pw salt sec ra = Err e.
Proof.
  intros Hc. rewrite new_tunnel_password_eq_spec. unfold spec_new_tunnel_password.
  destruct ((tp_max_password <? length pw) || negb (salt_ok salt) || (length sec =? 0) || negb (length ra =? 16)) eqn:E;
    [eauto|].
  exfalso. destruct Hc as [Hc|[Hc|[Hc|Hc]]]; [lia|rewrite Hc in E; cbn in E; lia|subst sec; cbn [length] in E; lia|lia].
Qed.

(* ---- TunnelPassword ---- *)
Lemma tp_loop_spec sec ra salt a : forall m k plain prev,
  16 * (k + m) <= length a ->
  (k = 0 -> prev = ra ++ salt) ->
  (0 < k -> prev = firstn 16 (skipn (16 * (k - 1)) a)) ->
  tp_loop H m k sec ra salt a plain = Ok (plain ++ rfc_up_dec H m sec prev (skipn (16 * k) a)).
Proof.
  induction m as [|m IH]; intros k plain prev Hl Hk0 Hk1.
  - cbn [tp_loop rfc_up_dec]. rewrite app_nil_r. reflexivity.
  - cbn [tp_loop].
    assert (Hh : (if k =? 0 then Ok (H (sec ++ ra ++ salt))
                  else match slice a ((k - 1) * 16) (k * 16) with
                       | Ok prev0 => Ok (H (sec ++ prev0)) | _ => Panic end) = Ok (H (sec ++ prev))).
    { destruct (Nat.eqb_spec k 0) as [E|E].
      - rewrite (Hk0 E). reflexivity.
      - rewrite slice_ok by lia. replace (k * 16 - (k - 1) * 16) with 16 by lia.
        replace ((k - 1) * 16) with (16 * (k - 1)) by lia.
        rewrite (Hk1 ltac:(lia)). reflexivity. }
    rewrite Hh. rewrite slice_ok by lia. replace (k * 16 + 16 - k * 16) with 16 by lia.
    replace (k * 16) with (16 * k) by lia.
    set (cur := firstn 16 (skipn (16 * k) a)).
    rewrite (IH (S k) _ cur).
    + cbn [rfc_up_dec]. fold cur. rewrite skipn_skipn'.
      replace (16 * k + 16) with (16 * S k) by lia.
      replace (xor_pad cur (H (sec ++ prev))) with (xor_pad (H (sec ++ prev)) cur).
      * rewrite <- app_assoc. reflexivity.
      * apply xor_pad_comm. unfold cur. rewrite H_len, firstn_length, skipn_length. lia.
    + lia.
    + intros E; discriminate.
    + intros _. replace (S k - 1) with k by lia. reflexivity.
Qed.

Theorem tunnel_password_eq_spec a sec ra :
  tunnel_password H a sec ra = spec_tunnel_password H a sec ra.
Proof.
  unfold tunnel_password, spec_tunnel_password.
  rewrite g_TunnelPassword_0, g_TunnelPassword_1, g_TunnelPassword_2, g_TunnelPassword_3, g_TunnelPassword_4.
  unfold zlen.
  destruct ((Z.of_nat (length a) >? 252)%Z || (Z.of_nat (length a) <? 18)%Z
            || negb (((Z.of_nat (length a) - 2) mod 16 =? 0)%Z)) eqn:E0.
  { replace ((252 <? length a) || (length a <? 18) || negb ((length a - 2) mod 16 =? 0)) with true by lia. reflexivity. }
  replace ((252 <? length a) || (length a <? 18) || negb ((length a - 2) mod 16 =? 0)) with false by lia.
  cbn [orb].
  destruct (Z.of_nat (length sec) =? 0)%Z eqn:E3.
  { replace (length sec =? 0) with true by lia. reflexivity. }
  replace (length sec =? 0) with false by lia. cbn [orb].
  destruct (negb (Z.of_nat (length ra) =? 16)%Z) eqn:E4.
  { replace (negb (length ra =? 16)) with true by lia. reflexivity. }
  replace (negb (length ra =? 16)) with false by lia. cbn [orb].
  destruct a as [|a0 [|a1 rest]]; try (cbn [length] in E0; lia).
  cbn [firstn salt_ok]. unfold salt_msb_set.
  destruct (128 <=? a0 mod 256)%N eqn:Em; cbn [negb]; [|reflexivity].
  rewrite slice_ok by (cbn [length]; lia). cbn [skipn firstn Nat.sub].
  cbn [length] in *.
  replace (S (S (length rest)) - 2) with (length rest) by lia.
  rewrite (tp_loop_spec sec ra [a0; a1] rest (length rest / 16) 0 [] (ra ++ [a0; a1])); try lia; try reflexivity.
  replace (16 * 0) with 0 by reflexivity. cbn [app skipn].
  set (plain := rfc_up_dec H (length rest / 16) sec (ra ++ [a0; a1]) rest).
  assert (Hpl : length plain = 16 * (length rest / 16)) by (unfold plain; apply rfc_up_dec_length; exact H_len).
  destruct plain as [|pl prest] eqn:Ep.
  { cbn [length] in Hpl. lia. }
  cbn [length] in Hpl. unfold zlen. cbn [length].
  destruct (Z.of_N pl >? Z.of_nat (S (length prest)) - 1)%Z eqn:Eg.
  - replace (length prest <? N.to_nat pl) with true by lia. reflexivity.
  - replace (length prest <? N.to_nat pl) with false by lia.
    assert (Hsmall : (pl < 255)%N) by lia.
    replace (N.to_nat ((1 + pl) mod 256)) with (1 + N.to_nat pl) by lia.
    rewrite slice_ok by (cbn [length]; lia).
    replace (1 + N.to_nat pl - 1) with (N.to_nat pl) by lia. reflexivity.
Qed.

Theorem tunnel_password_no_panic a sec ra :
  tunnel_password H a sec ra <> Panic /\ tunnel_password H a sec ra <> OutOfFuel.
Proof.
  rewrite tunnel_password_eq_spec. unfold spec_tunnel_password.
  destruct (_ || _ || _ || _ || _ || _); [split; discriminate|].
  destruct (rfc_up_dec _ _ _ _ _) as [|pl r]; [split; discriminate|].
  destruct (_ <? _); split; discriminate.
Qed.

Theorem tunnel_password_decode_rejects a sec ra :
  252 < length a \/ length a < 18 \/ (length a - 2) mod 16 <> 0 \/ sec = [] \/ length ra <> 16 \/
  salt_ok (firstn 2 a) = false ->
  exists e, tunnel_password H a sec ra = Err e.
Proof.
  intros Hc. rewrite tunnel_password_eq_spec. unfold spec_tunnel_password.
  destruct ((252 <? length a) || (length a <? 18) || negb ((length a - 2) mod 16 =? 0)
            || (length sec =? 0) || negb (length ra =? 16) || negb (salt_ok (firstn 2 a))) eqn:E; [eauto|].
  exfalso. destruct Hc as [Hc|[Hc|[Hc|[Hc|[Hc|Hc]]]]]; try lia.
  all: try (subst sec; cbn [length] in E; lia).
  all: try (rewrite Hc in E; cbn in E; lia).
Qed.

(* ---- round trip ---- *)
Theorem tunnel_password_roundtrip pw salt sec ra :
  length pw <= tp_max_password -> salt_ok salt = true -> sec <> [] -> length ra = 16 ->
  exists a, new_tunnel_password H pw salt sec ra = Ok a /\
            tunnel_password H a sec ra = Ok (pw, salt).
Proof.
  intros Hp Hsalt Hs Hr. exists (rfc_tp_encrypt H sec ra salt pw).
  split; [apply new_tunnel_password_is_rfc; assumption|].
  rewrite tunnel_password_eq_spec. unfold spec_tunnel_password.
  pose proof (rfc_tp_encrypt_length sec ra salt pw) as Hl.
  destruct salt as [|s0 [|s1 [|? ?]]]; try discriminate.
  cbn [length] in Hl. unfold tp_max_password in Hp.
  assert (Hb : 1 <= tp_blocks (length pw) <= 15) by (unfold tp_blocks; lia).
  rewrite Hl.
  replace ((252 <? 2 + 16 * tp_blocks (length pw)) || (2 + 16 * tp_blocks (length pw) <? 18)
           || negb ((2 + 16 * tp_blocks (length pw) - 2) mod 16 =? 0)) with false by lia.
  replace (length sec =? 0) with false by (destruct sec; [congruence|reflexivity]).
  replace (negb (length ra =? 16)) with false by lia.
  unfold rfc_tp_encrypt. cbn [app firstn skipn]. rewrite Hsalt. cbn [negb orb].
  replace ((2 + 16 * tp_blocks (length pw) - 2) / 16) with (tp_blocks (length pw)) by lia.
  destruct (rfc_up_roundtrip_blocks H H_len (tp_blocks (length pw)) sec (ra ++ [s0; s1]) (tp_plain pw)) as [k Hk].
  rewrite Hk. rewrite firstn_all2 by (unfold tp_plain; cbn [length]; unfold tp_blocks; lia).
  unfold tp_plain. cbn [app]. rewrite app_length, repeat_length.
  replace (length pw + k <? N.to_nat (N.of_nat (length pw))) with false by lia.
  rewrite Nat2N.id. rewrite firstn_app_exact. reflexivity.
Qed.

End S.
