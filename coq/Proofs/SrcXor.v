(* Proofs/SrcXor.v — byte-level xor and list lemmas shared by the proofs about the password
   codecs.  Nothing here depends on the translated source. *)
From Coq Require Import String.
From Radius Require Import Base.Bytes Base.Res Base.GoLite Crypto.MD5 Proofs.SrcBase.
Open Scope list_scope.
Open Scope nat_scope.

Lemma lxor_Z a b : byte_ok a -> byte_ok b ->
  Z.lxor (Z.of_N a) (Z.of_N b) = Z.of_N (N.lxor a b).
Proof. intros _ _. destruct a, b; reflexivity. Qed.

Lemma md5_ok l : bytes_ok (md5 l).
Proof. unfold bytes_ok, byte_ok. apply md5_bytes. Qed.

Lemma nth_skipn_cons (l : bytes) i : i < length l -> skipn i l = nth i l 0%N :: skipn (S i) l.
Proof.
  revert i; induction l as [|x l IH]; intros [|i] H; cbn [length] in H; try lia; [reflexivity|].
  cbn [skipn nth]. apply IH. lia.
Qed.

Lemma set_nth_split (l : bytes) i x : i < length l -> set_nth i x l = firstn i l ++ x :: skipn (S i) l.
Proof. reflexivity. Qed.

Lemma skipn_skipn_pw {A} (l : list A) a b : skipn a (skipn b l) = skipn (b + a) l.
Proof.
  revert l; induction b as [|b IH]; intros l; [reflexivity|]. destruct l as [|x l]; [destruct a; reflexivity|]. cbn [skipn Nat.add]. apply IH.
Qed.

Ltac fold_for name :=
  match goal with |- context[SFor ?c ?p ?b] => change (SFor c p b) with name end.

