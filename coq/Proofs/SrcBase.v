(* Proofs/SrcBase.v — symbolic evaluation of translated source (Gen/Src.v)
   under the interpreter of Base/GoLite.v: tactics and list lemmas shared by
   Proofs/Src*.v. *)
From Coq Require Import String.
From Radius Require Import Base.Bytes Base.Res Base.GoLite Crypto.MD5.
Open Scope list_scope.
Open Scope nat_scope.

(* a function the translator refused behaves as one that panics at once: every theorem
   about it fails, which is the point *)
Definition fn (t : translated) : func :=
  match t with Translated f => f | Refused _ => mkfunc 0 0 SPanic end.

(* (value, error) results *)
Definition ret_res {A} (r : res A) (ok : A -> val) (zero : val) : val :=
  match r with Ok v => VTup [ok v; VNil] | _ => VTup [zero; VErr] end.

(* evaluate the interpreter on the (concrete) syntax and environment, leave data alone *)
Ltac gocbn := cbn -[firstn skipn be_dec be_enc repeat Z.eqb Z.ltb Z.leb Z.gtb Z.geb Z.add Z.sub Z.mul Z.of_nat Z.to_nat Z.of_N Z.to_N
   Nat.ltb Nat.leb Nat.eqb Nat.min Nat.sub Nat.add Nat.mul wrap md5 beq copy_into slice_of set_nth
   Z.quot Z.rem Z.land Z.lor Z.lxor Z.ldiff Z.shiftl Z.shiftr Z.pow Z.modulo Z.div index_byte nth nth_error loop N.eqb].
Ltac gocbn_in H := cbn -[firstn skipn be_dec be_enc repeat Z.eqb Z.ltb Z.leb Z.gtb Z.geb Z.add Z.sub Z.mul Z.of_nat Z.to_nat Z.of_N Z.to_N
   Nat.ltb Nat.leb Nat.eqb Nat.min Nat.sub Nat.add Nat.mul wrap md5 beq copy_into slice_of set_nth
   Z.quot Z.rem Z.land Z.lor Z.lxor Z.ldiff Z.shiftl Z.shiftr Z.pow Z.modulo Z.div index_byte nth nth_error loop N.eqb] in H.

(* split on the first conditional of the goal *)
Ltac gocase :=
  match goal with
  | |- context[if negb ?c then _ else _] => let E := fresh "E" in destruct c eqn:E
  | |- context[if ?c then _ else _] => let E := fresh "E" in destruct c eqn:E
  end; gocbn.

Lemma copy_whole d s : length s = length d -> copy_into d 0 (Z.of_nat (length d)) s = Some s.
Proof.
  intros H. unfold copy_into.
  replace ((0 <=? 0)%Z && (0 <=? Z.of_nat (length d))%Z && (Z.of_nat (length d) <=? Z.of_nat (length d))%Z) with true by lia.
  rewrite Nat2Z.id. change (Z.to_nat 0) with 0. rewrite Nat.sub_0_r, <- H, Nat.min_id.
  cbn [firstn Nat.add]. rewrite firstn_all. rewrite H, skipn_all, app_nil_r. reflexivity.
Qed.

Lemma copy_whole_repeat k s : length s = k -> copy_into (repeat 0%N k) 0 (Z.of_nat k) s = Some s.
Proof.
  intros H. pose proof (copy_whole (repeat 0%N k) s) as C. rewrite repeat_length in C. apply C. exact H.
Qed.

(* copy(dst, src) with a longer source keeps dst's length *)
Lemma copy_prefix k s : k <= length s -> copy_into (repeat 0%N k) 0 (Z.of_nat k) s = Some (firstn k s).
Proof.
  intros H. unfold copy_into. rewrite repeat_length.
  replace ((0 <=? 0)%Z && (0 <=? Z.of_nat k)%Z && (Z.of_nat k <=? Z.of_nat k)%Z) with true by lia.
  rewrite Nat2Z.id. change (Z.to_nat 0) with 0. rewrite Nat.sub_0_r, Nat.min_l by lia.
  cbn [firstn Nat.add]. rewrite skipn_all2 by (rewrite repeat_length; lia). rewrite app_nil_r. reflexivity.
Qed.

#[export] Hint Rewrite repeat_length app_length firstn_length skipn_length be_enc_length Nat2Z.id : golen.
Lemma set_nth_length {A} k (x : A) l : k < length l -> length (set_nth k x l) = length l.
Proof.
  intros H. unfold set_nth. rewrite app_length, firstn_length. cbn [length]. rewrite skipn_length. lia.
Qed.
Lemma wrap8_ok z : ((0 <=? wrap 8 false z) && (wrap 8 false z <? 256))%Z = true.
Proof. unfold wrap. change (2 ^ 8)%Z with 256%Z. pose proof (Z.mod_pos_bound z 256 ltac:(lia)). lia. Qed.
#[export] Hint Rewrite @firstn_O @app_nil_l @app_nil_r wrap8_ok : golen.

Lemma slice_of_ok {A} (l : list A) lo hi : (0 <= lo <= hi)%Z -> (hi <= Z.of_nat (length l))%Z ->
  slice_of l lo hi = Some (firstn (Z.to_nat hi - Z.to_nat lo) (skipn (Z.to_nat lo) l)).
Proof.
  intros H1 H2. unfold slice_of.
  replace ((0 <=? lo)%Z && (lo <=? hi)%Z && (hi <=? Z.of_nat (length l))%Z) with true by lia. reflexivity.
Qed.

Lemma slice_of_bad {A} (l : list A) lo hi : (lo < 0 \/ hi < lo \/ Z.of_nat (length l) < hi)%Z -> slice_of l lo hi = None.
Proof.
  intros H. unfold slice_of.
  replace ((0 <=? lo)%Z && (lo <=? hi)%Z && (hi <=? Z.of_nat (length l))%Z) with false by lia. reflexivity.
Qed.

Ltac is_nat_num v := match v with O => idtac | S ?k => is_nat_num k end.
Ltac gonorm :=
  repeat match goal with
  | |- context[Z.to_nat (Zpos ?p)] => let v := eval compute in (Z.to_nat (Zpos p)) in change (Z.to_nat (Zpos p)) with v
  | |- context[Z.to_nat 0] => change (Z.to_nat 0) with 0
  | |- context[Nat.sub ?a ?b] => is_nat_num a; is_nat_num b; let v := eval compute in (Nat.sub a b) in change (Nat.sub a b) with v
  | |- context[Nat.add ?a ?b] => is_nat_num a; is_nat_num b; let v := eval compute in (Nat.add a b) in change (Nat.add a b) with v
  | |- context[Nat.min ?a ?b] => is_nat_num a; is_nat_num b; let v := eval compute in (Nat.min a b) in change (Nat.min a b) with v
  | |- context[skipn 0 ?l] => change (skipn 0 l) with l
  end; autorewrite with golen; rewrite ?set_nth_length by (autorewrite with golen; lia); rewrite ?slice_of_ok by (cbn [length]; autorewrite with golen; lia).
(* decide the conditionals arithmetic settles *)
Ltac golia := repeat match goal with
  | |- context[if ?c then _ else _] =>
     first [ replace c with true by lia | replace c with false by lia ]
  end.
Ltac go := repeat (progress (gocbn; unfold in_range; gonorm; golia)).

(* copy(d[lo:], s) when s fits *)
Lemma copy_at d lo s : lo + length s <= length d ->
  copy_into d (Z.of_nat lo) (Z.of_nat (length d)) s = Some (firstn lo d ++ s ++ skipn (lo + length s) d).
Proof.
  intros H. unfold copy_into.
  replace ((0 <=? Z.of_nat lo)%Z && (Z.of_nat lo <=? Z.of_nat (length d))%Z && (Z.of_nat (length d) <=? Z.of_nat (length d))%Z) with true by lia.
  rewrite !Nat2Z.id. rewrite Nat.min_r by lia. rewrite firstn_all. reflexivity.
Qed.

Lemma wrap_small bits z : (0 <= z < 2 ^ bits)%Z -> wrap bits false z = z.
Proof. intros H. unfold wrap. apply Z.mod_small. exact H. Qed.

Lemma wrap_byte z : (0 <= wrap 8 false z < 256)%Z.
Proof. unfold wrap. change (2 ^ 8)%Z with 256%Z. apply Z.mod_pos_bound. lia. Qed.

Ltac golen := autorewrite with golen; lia.
Ltac golist :=
  rewrite ?firstn_firstn; gonorm;
  repeat match goal with
  | |- context[firstn ?k ?l] => rewrite (@firstn_all2 _ k l) by golen
  | |- context[skipn ?k ?l] => rewrite (@skipn_all2 _ k l) by golen
  end; rewrite ?app_nil_r.

Lemma copy_into_gen d lo hi s : (0 <= lo)%Z -> hi = Z.of_nat (length d) -> Z.to_nat lo + length s <= length d ->
  copy_into d lo hi s = Some (firstn (Z.to_nat lo) d ++ s ++ skipn (Z.to_nat lo + length s) d).
Proof.
  intros H0 -> H. unfold copy_into.
  replace ((0 <=? lo)%Z && (lo <=? Z.of_nat (length d))%Z && (Z.of_nat (length d) <=? Z.of_nat (length d))%Z) with true by lia.
  rewrite !Nat2Z.id. rewrite Nat.min_r by lia. rewrite firstn_all. reflexivity.
Qed.

Lemma firstn_app_exact {A} (l1 l2 : list A) k : k = length l1 -> firstn k (l1 ++ l2) = l1.
Proof. intros ->. rewrite firstn_app, Nat.sub_diag, firstn_all. cbn. apply app_nil_r. Qed.

Lemma skipn_app_exact {A} (l1 l2 : list A) k : k = length l1 -> skipn k (l1 ++ l2) = l2.
Proof. intros ->. rewrite skipn_app, Nat.sub_diag, skipn_all. reflexivity. Qed.

(* one iteration of a loop *)
Lemma loop_S cond body post k env :
  loop cond body post (S k) env =
  match cond env with
  | Some (VBool true) =>
    match body env with
    | ONorm env' | OCont env' =>
      match post env' with
      | ONorm env'' => loop cond body post k env''
      | ORet v => ORet v
      | OFuel => OFuel
      | _ => OFail
      end
    | OBrk env' => ONorm env'
    | o => o
    end
  | Some (VBool false) => ONorm env
  | _ => OFail
  end.
Proof. reflexivity. Qed.

Definition for_cond (s : stmt) : expr := match s with SFor c _ _ => c | _ => EBool false end.
Definition for_post (s : stmt) : stmt := match s with SFor _ p _ => p | _ => SSkip end.
Definition for_body (s : stmt) : stmt := match s with SFor _ _ b => b | _ => SSkip end.

Lemma exec_for cx n s env :
  match s with SFor _ _ _ => True | _ => False end ->
  exec cx n s env = loop (fun e => eval cx e (for_cond s)) (exec cx n (for_body s)) (exec cx n (for_post s)) n env.
Proof. destruct s; try contradiction. reflexivity. Qed.

(* run one iteration symbolically, keeping the remaining iterations folded *)
Ltac loop_step L :=
  rewrite loop_S;
  match goal with
  | |- context[loop ?c ?b ?p ?k] => remember (loop c b p k) as L
  end.

Lemma beq_sym a b : beq a b = beq b a.
Proof.
  destruct (beq a b) eqn:E.
  - apply beq_spec in E. subst. symmetry. apply beq_refl.
  - apply beq_false in E. symmetry. apply beq_false. congruence.
Qed.
