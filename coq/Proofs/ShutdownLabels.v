(* State-independent "label table" of Model/Shutdown.v: for EVERY state (reachable or not), every thread index and
   every action, which program points can change which shared variable.  These are the facts that make the
   state-diff labelling of Model/ShutdownShape.v ([step_ops]) a function of the program point alone: a "lock" label
   can only come from the three Lock() sites, "unlock" from the four Unlock() sites, the shutdown flag is written
   by the CAS site only (and only 0 -> 1), activeCount goes up at activeAdd sites and down at activeDone sites. *)
From Coq Require Import List Arith ZArith Lia Bool.
Import ListNotations.
From Radius Require Import Base.Bytes Base.Res Model.Shutdown.

Definition lock_site (t : thread) : bool :=
  match t with TServe _ S_start | TServe _ (S_exit _) | TShut H_start _ => true | _ => false end.
Definition unlock_site (t : thread) : bool :=
  match t with TServe _ S_locked | TServe _ S_unl | TServe _ (S_exit_locked _) | TShut H_unlock _ => true | _ => false end.
Definition cas_site (t : thread) : bool := match t with TShut H_locked _ => true | _ => false end.
Definition add_site (t : thread) : bool :=
  match t with TServe _ S_reg | TServe _ S_reading => true | _ => false end.
Definition done_site (t : thread) : bool :=
  match t with TServe _ (S_exit_unl _) | TDgram D_exit | TShut H_dec _ => true | _ => false end.
Definition reg_site (t : thread) : bool :=
  match t with TServe _ S_locked | TServe _ (S_exit_locked _) => true | _ => false end.

Ltac crush_step :=
  match goal with
  | H : step false ?s ?i ?a = Some ?s' |- _ =>
    unfold step in H;
    destruct (nth_error (threads s) i) as [[c pc|pc|pc e]|] eqn:Hn; [| | |discriminate];
    (eexists; split; [reflexivity|]);
    destruct pc; destruct a; cbn in H;
    repeat match type of H with
           | context [if ?b then _ else _] => destruct b eqn:?
           end;
    try discriminate; inversion H; subst; clear H; cbn in *;
    try (exfalso; congruence); try (exfalso; lia); auto
  end.

Lemma lock_only_at_lock_sites s i a s' :
  step false s i a = Some s' -> mu s = false -> mu s' = true ->
  exists t, nth_error (threads s) i = Some t /\ lock_site t = true /\ a = ARun.
Proof. intros H H0 H1. crush_step. Qed.

Lemma unlock_only_at_unlock_sites s i a s' :
  step false s i a = Some s' -> mu s = true -> mu s' = false ->
  exists t, nth_error (threads s) i = Some t /\ unlock_site t = true /\ a = ARun.
Proof. intros H H0 H1. crush_step. Qed.

Lemma flag_written_by_cas_only s i a s' :
  step false s i a = Some s' -> shut s <> shut s' ->
  exists t, nth_error (threads s) i = Some t /\ cas_site t = true /\ a = ARun /\ shut s = false /\ shut s' = true.
Proof. intros H H0. crush_step. Qed.

Lemma count_up_at_add_sites s i a s' :
  step false s i a = Some s' -> (active s < active s')%Z ->
  exists t, nth_error (threads s) i = Some t /\ add_site t = true /\ active s' = (active s + 1)%Z.
Proof. intros H H0. crush_step. Qed.

Lemma count_down_at_done_sites s i a s' :
  step false s i a = Some s' -> (active s' < active s)%Z ->
  exists t, nth_error (threads s) i = Some t /\ done_site t = true /\ a = ARun /\ active s' = (active s - 1)%Z.
Proof. intros H H0. crush_step. Qed.

Lemma listeners_change_at_reg_sites s i a s' :
  step false s i a = Some s' -> regs s <> regs s' ->
  exists t, nth_error (threads s) i = Some t /\ reg_site t = true /\ a = ARun.
Proof. intros H H0. crush_step. Qed.

Lemma close_channel_at_done_sites s i a s' :
  step false s i a = Some s' -> closes s <> closes s' ->
  exists t, nth_error (threads s) i = Some t /\ done_site t = true /\ a = ARun /\
            active s = 0%Z /\ closes s' = S (closes s).
Proof.
  intros H H0. crush_step;
    destruct (active s - 1 =? -1)%Z eqn:E; try congruence; apply Z.eqb_eq in E; repeat split; auto; lia.
Qed.

(* the step of one thread never touches another thread's entry, and never shortens the thread table *)
Lemma threads_grow s i a s' :
  step false s i a = Some s' -> length (threads s) <= length (threads s').
Proof.
  intros H. unfold step in H.
  destruct (nth_error (threads s) i) as [[c pc|pc|pc e]|] eqn:Hn; [| | |discriminate];
    assert (Hi : i < length (threads s)) by (apply nth_error_Some; congruence);
    destruct pc; destruct a; cbn in H;
    repeat match type of H with
           | context [if ?b then _ else _] => destruct b eqn:?
           end;
    try discriminate; inversion H; subst; clear H; cbn;
    rewrite ?app_length, ?update_at_length by exact Hi; cbn; lia.
Qed.

Lemma label_table_holds :
  forall s i a s', step false s i a = Some s' ->
    (mu s = false -> mu s' = true ->
       exists t, nth_error (threads s) i = Some t /\ lock_site t = true /\ a = ARun) /\
    (mu s = true -> mu s' = false ->
       exists t, nth_error (threads s) i = Some t /\ unlock_site t = true /\ a = ARun) /\
    (shut s <> shut s' ->
       exists t, nth_error (threads s) i = Some t /\ cas_site t = true /\ a = ARun /\ shut s = false /\ shut s' = true) /\
    ((active s < active s')%Z ->
       exists t, nth_error (threads s) i = Some t /\ add_site t = true /\ active s' = (active s + 1)%Z) /\
    ((active s' < active s)%Z ->
       exists t, nth_error (threads s) i = Some t /\ done_site t = true /\ a = ARun /\ active s' = (active s - 1)%Z) /\
    (closes s <> closes s' ->
       exists t, nth_error (threads s) i = Some t /\ done_site t = true /\ a = ARun /\
                 active s = 0%Z /\ closes s' = S (closes s)) /\
    (regs s <> regs s' ->
       exists t, nth_error (threads s) i = Some t /\ reg_site t = true /\ a = ARun) /\
    length (threads s) <= length (threads s').
Proof.
  intros s i a s' H. repeat split.
  - exact (lock_only_at_lock_sites s i a s' H).
  - exact (unlock_only_at_unlock_sites s i a s' H).
  - exact (flag_written_by_cas_only s i a s' H).
  - exact (count_up_at_add_sites s i a s' H).
  - exact (count_down_at_done_sites s i a s' H).
  - exact (close_channel_at_done_sites s i a s' H).
  - exact (listeners_change_at_reg_sites s i a s' H).
  - exact (threads_grow s i a s' H).
Qed.

