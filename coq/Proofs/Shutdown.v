(* Proofs/Shutdown.v — every reachable state of the repaired Serve/Shutdown
   ordering satisfies the invariant; consequences (C07). *)
From Radius Require Import Base.Bytes Base.Res Model.Shutdown Proofs.ShutdownInv
  Proofs.ShutdownInvS1 Proofs.ShutdownInvS2 Proofs.ShutdownInvS3 Proofs.ShutdownInvS4
  Proofs.ShutdownInvD Proofs.ShutdownInvH1 Proofs.ShutdownInvH2 Proofs.ShutdownInvH3.
From Coq Require Import ZifyBool ZifyNat ZifyN.
Open Scope nat_scope.

Theorem step_preserves_inv s i a s' : Inv s -> step false s i a = Some s' -> Inv s'.
Proof.
  intros [Ia Ic Im Ir Il Isd Inl Icl Icn] Hs. unfold step in Hs.
  destruct (nth_error (threads s) i) as [t|] eqn:Hn; [|discriminate].
  destruct t as [c pc|pc|pc e].
  - destruct pc.
    + exact (serve_a s Ia Ic Im Ir Il Isd Inl Icl Icn i c a s' (or_introl Hn) _ Hn Hs).
    + exact (serve_a s Ia Ic Im Ir Il Isd Inl Icl Icn i c a s' (or_intror Hn) _ Hn Hs).
    + exact (serve_b s Ia Ic Im Ir Il Isd Inl Icl Icn i c a s' (or_introl Hn) _ Hn Hs).
    + exact (serve_b s Ia Ic Im Ir Il Isd Inl Icl Icn i c a s' (or_intror (or_introl Hn)) _ Hn Hs).
    + exact (serve_b s Ia Ic Im Ir Il Isd Inl Icl Icn i c a s' (or_intror (or_intror Hn)) _ Hn Hs).
    + exact (serve_c s Ia Ic Im Ir Il Isd Inl Icl Icn i c a s' Hn Hs).
    + exact (serve_d s Ia Ic Im Ir Il Isd Inl Icl Icn i c a s' r (or_introl Hn) _ Hn Hs).
    + exact (serve_d s Ia Ic Im Ir Il Isd Inl Icl Icn i c a s' r (or_intror (or_introl Hn)) _ Hn Hs).
    + exact (serve_d s Ia Ic Im Ir Il Isd Inl Icl Icn i c a s' r (or_intror (or_intror Hn)) _ Hn Hs).
    + destruct a; cbn [step_serve] in Hs; discriminate.
  - exact (dgram_all s Ia Ic Im Ir Il Isd Inl Icl Icn i pc a s' Hn Hs).
  - destruct a.
    + destruct pc; try (cbn [step_shut] in Hs; discriminate).
      * exact (shut_a s Ia Ic Im Ir Il Isd Inl Icl Icn i e s' _ (or_introl eq_refl) Hn Hs).
      * exact (shut_a s Ia Ic Im Ir Il Isd Inl Icl Icn i e s' _ (or_intror (or_introl eq_refl)) Hn Hs).
      * exact (shut_a s Ia Ic Im Ir Il Isd Inl Icl Icn i e s' _ (or_intror (or_intror (or_introl eq_refl))) Hn Hs).
      * exact (shut_a s Ia Ic Im Ir Il Isd Inl Icl Icn i e s' _ (or_intror (or_intror (or_intror eq_refl))) Hn Hs).
      * exact (shut_b s Ia Ic Im Ir Il Isd Inl Icl Icn i e s' _ (or_introl eq_refl) Hn Hs).
      * exact (shut_b s Ia Ic Im Ir Il Isd Inl Icl Icn i e s' _ (or_intror (or_introl eq_refl)) Hn Hs).
      * exact (shut_b s Ia Ic Im Ir Il Isd Inl Icl Icn i e s' _ (or_intror (or_intror eq_refl)) Hn Hs).
    + refine (shut_c s Ia Ic Im Ir Il Isd Inl Icl Icn i e s' pc _ _ Hn Hs); discriminate.
    + refine (shut_c s Ia Ic Im Ir Il Isd Inl Icl Icn i e s' pc _ _ Hn Hs); discriminate.
    + refine (shut_c s Ia Ic Im Ir Il Isd Inl Icl Icn i e s' pc _ _ Hn Hs); discriminate.
    + refine (shut_c s Ia Ic Im Ir Il Isd Inl Icl Icn i e s' pc _ _ Hn Hs); discriminate.
    + refine (shut_c s Ia Ic Im Ir Il Isd Inl Icl Icn i e s' pc _ _ Hn Hs); discriminate.
    + refine (shut_c s Ia Ic Im Ir Il Isd Inl Icl Icn i e s' pc _ _ Hn Hs); discriminate.
Qed.

Lemma cnt_snoc f l t : cnt f (l ++ [t]) = cnt f l + (if f t then 1 else 0).
Proof. rewrite cnt_app. cbn [cnt]. lia. Qed.

Theorem event_preserves_inv s e s' : Inv s -> do_event false s e = Some s' -> Inv s'.
Proof.
  intros I He. destruct e as [i a|c|]; cbn [do_event] in He.
  - eapply step_preserves_inv; eassumption.
  - inversion He; subst s'. destruct I. constructor; cbn [add_thread mu shut active closes sdec regs closedc cancelled threads];
      rewrite ?cnt_snoc; cbn [holds in_cs at_reg closing at_nil at_hclose pre_cancel]; rewrite ?Nat.add_0_r; auto.
  - inversion He; subst s'. destruct I. constructor; cbn [add_thread mu shut active closes sdec regs closedc cancelled threads];
      rewrite ?cnt_snoc; cbn [holds in_cs at_reg closing at_nil at_hclose pre_cancel]; rewrite ?Nat.add_0_r; auto.
Qed.

Theorem reachable_inv s : reachable false s -> Inv s.
Proof. induction 1 as [|s e s' _ IH He]; [apply inv_init|eapply event_preserves_inv; eassumption]. Qed.

(* ---- consequences ---- *)
Theorem no_panic s : reachable false s -> closes s <= 1 /\ (-1 <= active s)%Z.
Proof.
  intros R. destruct (reachable_inv s R) as [Ia Ic _ _ _ _ _ _ _]. split.
  - rewrite Ic. destruct (sdec s && (cnt holds (threads s) =? 0)); lia.
  - rewrite Ia. destruct (sdec s); lia.
Qed.

Lemma cnt_zero_all f l : cnt f l = 0 -> forall t, In t l -> f t = false.
Proof.
  induction l as [|x l IH]; intros Hc t Hin; [contradiction|]. cbn [cnt] in Hc.
  destruct Hin as [->|Hin]; [destruct (f t); [lia|reflexivity]|]. apply IH; [destruct (f x); lia|exact Hin].
Qed.

Lemma cnt_pos_in f l t : In t l -> f t = true -> 0 < cnt f l.
Proof.
  induction l as [|x l IH]; intros Hin Hf; [contradiction|]. cbn [cnt].
  destruct Hin as [->|Hin]; [rewrite Hf; lia|specialize (IH Hin Hf); lia].
Qed.

(* Shutdown returned nil => every registered Serve has completed its clean-up,
   every started handler has finished, and nothing can start any more *)
Theorem shutdown_nil_means_drained s e : reachable false s -> In (TShut H_ret_nil e) (threads s) ->
  shut s = true /\ closes s = 1 /\
  (forall c pc, In (TServe c pc) (threads s) ->
     pc = S_start \/ pc = S_locked \/ exists r, pc = S_returned r) /\
  (forall pc, In (TDgram pc) (threads s) -> pc = D_end).
Proof.
  intros R Hin. pose proof (reachable_inv s R) as I. destruct I as [Ia Ic Im Ir Il Isd Inl Icl Icn].
  assert (Hc1 : closes s = 1) by (apply Inl; eapply cnt_pos_in; [exact Hin|reflexivity]).
  rewrite Ic in Hc1. destruct (sdec s) eqn:Esd; [|cbn in Hc1; lia]. cbn [andb] in Hc1.
  destruct (Nat.eqb_spec (cnt holds (threads s)) 0) as [Hh|Hh]; [|lia].
  assert (Hsh : shut s = true) by (apply Isd; reflexivity).
  split; [exact Hsh|]. split; [rewrite Ic; reflexivity|]. split.
  - intros c pc Hs. pose proof (cnt_zero_all holds _ Hh _ Hs) as Hf.
    pose proof (cnt_zero_all at_reg _ (Ir Hsh) _ Hs) as Hg.
    destruct pc; cbn in Hf, Hg; try discriminate; eauto.
  - intros pc Hd. pose proof (cnt_zero_all holds _ Hh _ Hd) as Hf. destruct pc; cbn in Hf; try discriminate. reflexivity.
Qed.

(* ... and that stays so: a drained server never counts anything active again *)
Theorem drained_is_stable s e s' : reachable false s -> closes s = 1 -> do_event false s e = Some s' -> closes s' = 1.
Proof.
  intros R Hc He. pose proof (reachable_inv s R) as I.
  assert (R' : reachable false s') by (econstructor; eassumption).
  pose proof (reachable_inv s' R') as I'.
  destruct I as [Ia Ic Im Ir Il Isd Inl Icl Icn]. destruct I' as [Ia' Ic' _ Ir' _ Isd' _ _ _].
  rewrite Ic in Hc. destruct (sdec s) eqn:Esd; [|cbn in Hc; lia]. cbn [andb] in Hc.
  destruct (Nat.eqb_spec (cnt holds (threads s)) 0) as [Hh|Hh]; [|lia].
  assert (Hsh : shut s = true) by auto. specialize (Ir Hsh).
  (* no holder can appear: that needs a Serve at S_reg or at S_reading *)
  assert (Hkeep : sdec s' = true /\ cnt holds (threads s') = 0).
  { destruct e as [i a|c|]; cbn [do_event] in He.
    - unfold step in He. destruct (nth_error (threads s) i) as [t|] eqn:Hn; [|discriminate].
      assert (Hht : holds t = false) by (eapply cnt_zero_all; [exact Hh|eapply nth_error_In; exact Hn]).
      assert (Hrt : at_reg t = false) by (eapply cnt_zero_all; [exact Ir|eapply nth_error_In; exact Hn]).
      destruct t as [c pc|pc|pc e0].
      + destruct pc; cbn in Hht, Hrt; try discriminate; destruct a; cbn [step_serve] in He; try discriminate.
        * destruct (mu s); [discriminate|]. inversion He; subst s'. fields. split; [exact Esd|].
          pose proof (cnt_update holds _ _ _ (TServe c S_locked) Hn) as U. cbn [holds] in U. lia.
        * rewrite Hsh in He. inversion He; subst s'. fields. split; [exact Esd|].
          pose proof (cnt_update holds _ _ _ (TServe c (S_returned RetShutdown)) Hn) as U. cbn [holds] in U. lia.
      + destruct pc; cbn in Hht; try discriminate; destruct a; cbn [step_dgram] in He; discriminate.
      + assert (Hsd : sdec s' = true).
        { destruct pc; destruct a; cbn [step_shut] in He; try discriminate;
            repeat match type of He with context [if ?b then _ else _] => destruct b end;
            try discriminate; inversion He; subst s'; fields; auto. }
        split; [exact Hsd|].
        assert (Hth : exists pc' e', threads s' = update_at i (TShut pc' e') (threads s)).
        { destruct pc; destruct a; cbn [step_shut] in He; try discriminate;
            repeat match type of He with context [if ?b then _ else _] => destruct b end;
            try discriminate; inversion He; subst s'; fields; eauto. }
        destruct Hth as (pc' & e' & Hth). rewrite Hth.
        pose proof (cnt_update holds _ _ _ (TShut pc' e') Hn) as U. cbn [holds] in U. lia.
    - inversion He; subst s'. fields. rewrite cnt_snoc. cbn [holds]. split; [exact Esd|lia].
    - inversion He; subst s'. fields. rewrite cnt_snoc. cbn [holds]. split; [exact Esd|lia]. }
  destruct Hkeep as [Hs1 Hs2]. rewrite Ic', Hs1, Hs2. reflexivity.
Qed.

Theorem shutdown_closes_every_listener s : reachable false s ->
  shut s = true -> cnt at_hclose (threads s) = 0 -> incl (regs s) (closedc s).
Proof. intros R. apply (i_closed s (reachable_inv s R)). Qed.

Theorem shutdown_cancels_ctx s : reachable false s ->
  shut s = true -> cnt pre_cancel (threads s) = 0 -> cancelled s = true.
Proof. intros R. apply (i_cancel s (reachable_inv s R)). Qed.

(* once shutdown has been requested, a Serve call that reaches its test or
   whose read fails returns ErrServerShutdown; it never registers again *)
Theorem serve_returns_shutdown s i c a s' : shut s = true -> step false s i a = Some s' ->
  (nth_error (threads s) i = Some (TServe c S_locked) ->
     nth_error (threads s') i = Some (TServe c (S_returned RetShutdown)) /\ regs s' = regs s) /\
  (nth_error (threads s) i = Some (TServe c S_reading) -> forall temp, a = ARead_error temp ->
     nth_error (threads s') i = Some (TServe c (S_exit RetShutdown))).
Proof.
  intros Hsh Hs. split.
  - intros Hn. unfold step in Hs. rewrite Hn in Hs. destruct a; cbn [step_serve] in Hs; try discriminate.
    rewrite Hsh in Hs. inversion Hs; subst s'. fields. split; [|reflexivity].
    rewrite update_at_eq. rewrite nth_error_app2 by (rewrite firstn_length; apply nth_error_Some_lt in Hn; lia).
    rewrite firstn_length. apply nth_error_Some_lt in Hn. replace (i - Nat.min i (length (threads s))) with 0 by lia. reflexivity.
  - intros Hn temp ->. unfold step in Hs. rewrite Hn in Hs. cbn [step_serve] in Hs. rewrite Hsh in Hs.
    inversion Hs; subst s'. fields.
    rewrite update_at_eq. apply nth_error_Some_lt in Hn.
    rewrite nth_error_app2 by (rewrite firstn_length; lia).
    rewrite firstn_length. replace (i - Nat.min i (length (threads s))) with 0 by lia. reflexivity.
Qed.

(* Shutdown returns the caller's context error only if that context ended *)
Theorem shutdown_err_only_if_ctx_done s : reachable false s ->
  forall e, In (TShut H_ret_err e) (threads s) -> e = true.
Proof.
  induction 1 as [|s ev s' R IH He]; [intros e []|].
  intros e Hin. destruct ev as [i a|c|]; cbn [do_event] in He.
  - unfold step in He. destruct (nth_error (threads s) i) as [t|] eqn:Hn; [|discriminate].
    assert (Hupd : forall t', threads s' = update_at i t' (threads s) -> (t' = TShut H_ret_err e -> e = true) -> e = true).
    { intros t' Hth Ht'. rewrite Hth, update_at_eq in Hin. apply in_app_or in Hin.
      destruct Hin as [Hin|[Heq|Hin]].
      - apply IH. rewrite <- (firstn_skipn i (threads s)). apply in_or_app. left. exact Hin.
      - apply Ht'. exact Heq.
      - apply IH. rewrite <- (firstn_skipn (S i) (threads s)). apply in_or_app. right. exact Hin. }
    destruct t as [c pc|pc|pc e0].
    + destruct pc; destruct a; cbn [step_serve] in He; try discriminate;
        repeat match type of He with context [if ?b then _ else _] => destruct b end; try discriminate;
        inversion He; subst s'; fields;
        try (eapply Hupd; [reflexivity|discriminate]); try (apply IH; exact Hin).
      apply in_app_or in Hin. destruct Hin as [Hin|[Heq|[]]]; [apply IH; exact Hin|discriminate].
    + destruct pc as [dr| | |]; destruct a; cbn [step_dgram] in He; try discriminate; inversion He; subst s'; fields;
        (eapply Hupd; [reflexivity|]); try destruct dr; discriminate.
    + destruct pc; destruct a; cbn [step_shut] in He; try discriminate;
        repeat match type of He with context [if ?b then _ else _] => destruct b eqn:? end; try discriminate;
        inversion He; subst s'; fields;
        (eapply Hupd; [reflexivity|]); intros Heq; inversion Heq; subst; auto.
  - inversion He; subst s'. fields. apply in_app_or in Hin. destruct Hin as [Hin|[Heq|[]]]; [apply IH; exact Hin|discriminate].
  - inversion He; subst s'. fields. apply in_app_or in Hin. destruct Hin as [Hin|[Heq|[]]]; [apply IH; exact Hin|discriminate].
Qed.

(* a Shutdown that is still waiting waits for something real: some counted
   Serve call or datagram goroutine has not finished yet *)
Theorem waiting_shutdown_waits_for_a_holder s : reachable false s ->
  sdec s = true -> closes s = 0 -> 1 <= cnt holds (threads s).
Proof.
  intros R Hsd Hc. destruct (reachable_inv s R) as [_ Ic _ _ _ _ _ _ _]. rewrite Hsd in Ic. cbn [andb] in Ic.
  destruct (Nat.eqb_spec (cnt holds (threads s)) 0); lia.
Qed.

(* no thread is ever stuck for an internal reason: a thread that cannot step is
   finished, waits for the environment, or waits for the mutex, whose holder can step *)
Definition finished (t : thread) : bool :=
  match t with
  | TServe _ (S_returned _) | TDgram D_end | TShut H_ret_nil _ | TShut H_ret_err _ => true
  | _ => false
  end.
Definition waits_env (t : thread) : bool :=
  match t with
  | TServe _ S_reading | TDgram D_handler | TShut H_select _ => true     (* datagram / handler return / lastActive or ctx *)
  | _ => false
  end.
Definition wants_mu (t : thread) : bool :=
  match t with TServe _ S_start | TServe _ (S_exit _) | TShut H_start _ => true | _ => false end.

Theorem no_internal_deadlock s i t : reachable false s -> nth_error (threads s) i = Some t ->
  finished t = true \/ waits_env t = true \/
  (exists s', step false s i ARun = Some s') \/
  (wants_mu t = true /\ mu s = true /\
   exists j u s', nth_error (threads s) j = Some u /\ in_cs u = true /\ step false s j ARun = Some s').
Proof.
  intros R Hn. pose proof (reachable_inv s R) as I.
  assert (Hholder : mu s = true -> exists j u s', nth_error (threads s) j = Some u /\ in_cs u = true /\ step false s j ARun = Some s').
  { intros Hm. pose proof (i_mu s I) as Im. rewrite Hm in Im.
    assert (Hex : exists j u, nth_error (threads s) j = Some u /\ in_cs u = true).
    { clear -Im. induction (threads s) as [|x l IH]; cbn [cnt] in Im; [lia|].
      destruct (in_cs x) eqn:E; [exists 0, x; auto|].
      destruct IH as (j & u & Hj & Hu); [lia|]. exists (S j), u. auto. }
    destruct Hex as (j & u & Hj & Hu). exists j, u.
    unfold step. rewrite Hj.
    destruct u as [c pc|pc|pc e]; destruct pc; cbn in Hu; try discriminate; cbn [step_serve step_shut];
      try (eexists; split; [reflexivity|split; [reflexivity|reflexivity]]);
      destruct (shut s); eexists; (split; [reflexivity|split; reflexivity]). }
  unfold step. rewrite Hn.
  destruct t as [c pc|pc|pc e]; destruct pc; cbn [finished waits_env wants_mu step_serve step_dgram step_shut]; auto;
    try (right; right; left; eexists; reflexivity);
    try (destruct (mu s) eqn:Em; [right; right; right; auto|right; right; left; eexists; reflexivity]);
    try (right; right; left; destruct (shut s); eexists; reflexivity).
Qed.

(* ---- the original ordering is refuted ---- *)
Definition legacy_trace : list event :=
  [ ESpawnServe 7; EStep 0 ARun; EStep 0 ARun; EStep 0 ARun; EStep 0 ARun;      (* Serve registered, parked before activeAdd *)
    ESpawnShutdown; EStep 1 ARun; EStep 1 ARun; EStep 1 ARun; EStep 1 ARun; EStep 1 ARun; EStep 1 ARun;
    EStep 1 ARun; EStep 1 AWake_nil;                                              (* Shutdown returns nil *)
    EStep 0 ARun; EStep 0 (ARead_error false); EStep 0 ARun; EStep 0 ARun; EStep 0 ARun ].  (* Serve resumes *)

Theorem legacy_ordering_refuted :
  exists es e, let s := run true init es in
    closes s = 2 /\ In (TShut H_ret_nil e) (threads (run true init (firstn 14 es))) /\
    In (TServe 7 S_registered) (threads (run true init (firstn 14 es))).
Proof. exists legacy_trace, false. vm_compute. repeat split; auto. Qed.
