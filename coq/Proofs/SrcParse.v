(* Proofs/SrcParse.v — ParseAttributes, AttributesEncodedLen, encodeTo,
   MarshalBinary and Parse as translated (Gen/Src.v) compute the wire format of
   Spec/C01.v, for every input. *)
From Coq Require Import String.
From Radius Require Import Base.Bytes Base.Res Base.GoLite Gen.Src Crypto.MD5 Proofs.SrcBase Proofs.SrcCtx Model.SrcRun
  Model.Attrs Spec.C09 Spec.C01 Proofs.SrcDefs Model.Packet Proofs.PacketWire Proofs.AttrsWire Proofs.Oracles.
Open Scope list_scope.
Open Scope nat_scope.

(* the decoder needs only fuel beyond the length of its input *)
Lemma spec_tlv_dec_fuel : forall f1 f2 b, length b < f1 -> length b < f2 -> spec_tlv_dec_f f1 b = spec_tlv_dec_f f2 b.
Proof.
  induction f1 as [|f1 IH]; intros f2 b H1 H2; [lia|]. destruct f2 as [|f2]; [lia|].
  cbn [spec_tlv_dec_f]. destruct b as [|t [|l r]]; try reflexivity.
  destruct ((length (t :: l :: r) <? N.to_nat l) || (N.to_nat l <? 2) || (255 <? N.to_nat l)) eqn:E; [reflexivity|].
  rewrite (IH f2); [reflexivity| |]; rewrite skipn_length; cbn [length] in *; lia.
Qed.

(* how ParseAttributes leaves an attribute: no value bytes = nil *)
Definition parsed_avp (a : avp) : val :=
  vavp (atype a) (match aval a with [] => VNil | l => VBytes l end).
Definition parsed_attrs (l : attrs) : val :=
  match l with [] => VNil | _ => VList (map parsed_avp l) end.

Lemma parsed_attrs_list l : as_list (parsed_attrs l) = Some (map parsed_avp l).
Proof. destruct l; reflexivity. Qed.

Section ParseAttrs.
Variable cx : ctx.

Definition pa_for : stmt :=
  match f_body (fn src_ParseAttributes) with
  | SSeq _ (SSeq f _) => f
  | _ => SSkip
  end.

Lemma pa_loop n m : forall b l0 x y,
  bytes_ok b -> length b < m ->
  exists x' y',
  loop (fun e => eval cx e (for_cond pa_for)) (exec cx n (for_body pa_for)) (exec cx n (for_post pa_for)) m
     [VBytes b; parsed_attrs l0; x; y] =
  match spec_tlv_dec_f m b with
  | Ok tl => ONorm [VBytes []; parsed_attrs (l0 ++ tl); x'; y']
  | Err _ => ORet (VTup [VNil; VErr])
  | _ => OFail
  end.
Proof.
  induction m as [|m IH]; intros b l0 x y Hb Hm; [lia|].
  loop_step L. cbn [pa_for for_cond for_body for_post fn src_ParseAttributes f_body]. go.
  cbn [spec_tlv_dec_f].
  destruct b as [|t [|l r]].
  - cbn [length]. go. exists x, y. reflexivity.
  - cbn [length]. go. exists x, y. reflexivity.
  - cbn [length] in *. go. cbn [nth].
    gocase; go; [replace ((S (S (length r)) <? N.to_nat l) || (N.to_nat l <? 2) || (255 <? N.to_nat l)) with true by lia; exists x, y; reflexivity|].
    gocase; go; [replace ((S (S (length r)) <? N.to_nat l) || (N.to_nat l <? 2) || (255 <? N.to_nat l)) with true by lia; exists x, y; reflexivity|].
    gocase; go; [replace ((S (S (length r)) <? N.to_nat l) || (N.to_nat l <? 2) || (255 <? N.to_nat l)) with true by lia; exists x, y; reflexivity|].
    replace ((S (S (length r)) <? N.to_nat l) || (N.to_nat l <? 2) || (255 <? N.to_nat l)) with false by lia.
    cbn [nth].
    set (a := mkavp (Z.of_N t) (skipn 2 (firstn (N.to_nat l) (t :: l :: r)))).
    assert (Hval : firstn (Z.to_nat (Z.of_N l) - 2) (skipn 2 (t :: l :: r)) = aval a).
    { unfold a. cbn [aval]. rewrite firstn_skipn_comm. f_equal. f_equal. lia. }
    assert (Hrec : forall vv, vv = aval a ->
              VRec [VInt (Z.of_N t); match vv with [] => VNil | _ :: _ => VBytes vv end] = parsed_avp a).
    { intros vv ->. unfold parsed_avp, vavp. destruct (aval a); reflexivity. }
    assert (Hnext : exists x' y',
      L [VBytes (skipn (N.to_nat l) (t :: l :: r)); parsed_attrs (l0 ++ [a]); VInt (Z.of_N l); parsed_avp a] =
      match spec_tlv_dec_f m (skipn (N.to_nat l) (t :: l :: r)) with
      | Ok tl => ONorm [VBytes []; parsed_attrs (l0 ++ a :: tl); x'; y']
      | Err _ => ORet (VTup [VNil; VErr])
      | _ => OFail
      end).
    { subst L. destruct (IH (skipn (N.to_nat l) (t :: l :: r)) (l0 ++ [a]) (VInt (Z.of_N l)) (parsed_avp a)) as [x' [y' H]].
      - apply bytes_ok_skipn. exact Hb.
      - rewrite skipn_length. cbn [length]. lia.
      - exists x', y'. rewrite H. destruct (spec_tlv_dec_f m _); try reflexivity. rewrite <- app_assoc. reflexivity. }
    destruct Hnext as [x' [y' Hnext]]. exists x', y'.
    assert (Hacc : forall l1, as_list (parsed_attrs l0) = Some l1 -> VList (l1 ++ [parsed_avp a]) = parsed_attrs (l0 ++ [a])).
    { intros l1 H1. rewrite parsed_attrs_list in H1. inversion H1; subst l1.
      unfold parsed_attrs. destruct (l0 ++ [a]) eqn:Eapp; [destruct l0; discriminate|]. rewrite <- Eapp, map_app. reflexivity. }
    assert (Hfin : forall pv, pv = parsed_avp a ->
       L [VBytes (firstn (S (S (length r)) - Z.to_nat (Z.of_N l)) (skipn (Z.to_nat (Z.of_N l)) (t :: l :: r)));
          VList (map parsed_avp l0 ++ [pv]); VInt (Z.of_N l); pv] =
       match match spec_tlv_dec_f m (skipn (N.to_nat l) (t :: l :: r)) with
             | Ok tl => Ok (a :: tl) | Err e => Err e | Panic => Panic | OutOfFuel => OutOfFuel end with
       | Ok tl => ONorm [VBytes []; parsed_attrs (l0 ++ tl); x'; y']
       | Err _ => ORet (VTup [VNil; VErr])
       | _ => OFail
       end).
    { intros pv ->. replace (Z.to_nat (Z.of_N l)) with (N.to_nat l) by lia. rewrite firstn_all2 by (rewrite skipn_length; cbn [length]; lia).
      rewrite (Hacc (map parsed_avp l0) (parsed_attrs_list l0)). rewrite Hnext.
      destruct (spec_tlv_dec_f m (skipn (N.to_nat l) (t :: l :: r))); reflexivity. }
    gocase.
    + rewrite Hval. destruct (aval a) eqn:Eav.
      * go. rewrite parsed_attrs_list. go. apply Hfin. unfold parsed_avp, vavp. rewrite Eav. reflexivity.
      * go. rewrite parsed_attrs_list. go. apply Hfin. unfold parsed_avp, vavp. rewrite Eav. reflexivity.
    + go. rewrite parsed_attrs_list. go. apply Hfin. unfold parsed_avp, vavp.
      replace (aval a) with (@nil N); [reflexivity|].
      rewrite <- Hval. replace (Z.to_nat (Z.of_N l) - 2) with 0 by lia. reflexivity.
Qed.
End ParseAttrs.

Definition pa_for_is_for : match pa_for with SFor _ _ _ => True | _ => False end := I.

Definition parse_attrs_result (b : bytes) : option (option val) :=
  match spec_tlv_dec b with
  | Ok l => Some (Some (VTup [parsed_attrs l; VNil]))
  | Err _ => Some (Some (VTup [VNil; VErr]))
  | _ => Some None
  end.

Theorem src_ParseAttributes_spec cx n b : bytes_ok b -> length b < n ->
  run cx n (fn src_ParseAttributes) [VBytes b] = parse_attrs_result b.
Proof.
  intros Hb Hn. unfold run, parse_attrs_result, spec_tlv_dec.
  remember (spec_tlv_dec_f (S (length b)) b) as R eqn:HR.
  cbn [fn src_ParseAttributes f_body f_params f_locals].
  fold_for pa_for. remember pa_for as F eqn:HF. go. subst F.
  rewrite exec_for by exact pa_for_is_for.
  destruct (pa_loop cx n n b [] VNil VNil Hb Hn) as [x' [y' H]].
  change (parsed_attrs []) with VNil in H. rewrite H.
  rewrite (spec_tlv_dec_fuel n (S (length b))) by lia. cbn [app]. rewrite <- HR.
  destruct R; go; reflexivity.
Qed.

(* ---- Parse ---- *)
Arguments spec_tlv_dec : simpl never.
Definition calls_parse_attrs (cx : ctx) (bound : nat) : Prop :=
  forall b, bytes_ok b -> length b < bound ->
  cx "ParseAttributes"%string [VBytes b] = match parse_attrs_result b with Some (Some v) => Some v | _ => None end.

Definition parse_result (b : bytes) (secret : val) : option (option val) :=
  match spec_parse b (bytes_of secret) with
  | Ok (c, i, au, _, at_) =>
    Some (Some (VTup [VRec [VInt c; VInt (Z.of_N i); VBytes au; secret; parsed_attrs at_]; VNil]))
  | Err _ => Some (Some (VTup [VNil; VErr]))
  | _ => Some None
  end.

Theorem src_Parse_spec cx n b secret : calls_parse_attrs cx n -> bytes_ok b -> length b < n ->
  run cx n (fn src_Parse) [VBytes b; secret] = parse_result b secret.
Proof.
  intros Hc Hb Hn. unfold run, parse_result, spec_parse, length_field. go.
  gocase; go; [reflexivity|].
  rewrite firstn_all2 by golen.
  set (len := be_dec (firstn 2 (skipn 2 b))).
  gocase; go; [replace ((N.to_nat len <? 20) || (4096 <? N.to_nat len) || (length b <? N.to_nat len)) with true by lia; reflexivity|].
  gocase; go; [replace ((N.to_nat len <? 20) || (4096 <? N.to_nat len) || (length b <? N.to_nat len)) with true by lia; reflexivity|].
  gocase; go; [replace ((N.to_nat len <? 20) || (4096 <? N.to_nat len) || (length b <? N.to_nat len)) with true by lia; reflexivity|].
  replace ((N.to_nat len <? 20) || (4096 <? N.to_nat len) || (length b <? N.to_nat len)) with false by lia.
  replace (Z.to_nat (Z.of_N len) - 20) with (N.to_nat len - 20) by lia.
  rewrite Hc; [| apply bytes_ok_firstn, bytes_ok_skipn, Hb | rewrite firstn_length, skipn_length; lia].
  unfold parse_attrs_result.
  destruct (spec_tlv_dec (firstn (N.to_nat len - 20) (skipn 20 b))) as [at_|e| |]; go; try reflexivity.
  rewrite (copy_whole_repeat 16) by golen. go. reflexivity.
Qed.

Lemma src_ctx_calls_parse_attrs fuel : calls_parse_attrs (src_ctx fuel) fuel.
Proof.
  intros b Hb Hn. unfold src_ctx, src_depth.
  rewrite (ctx_of_call fuel 5 "ParseAttributes" (fn src_ParseAttributes)) by reflexivity.
  rewrite src_ParseAttributes_spec by assumption. reflexivity.
Qed.

Theorem program_ParseAttributes fuel b : bytes_ok b -> length b < fuel ->
  src_run "ParseAttributes" fuel [VBytes b] = parse_attrs_result b.
Proof. intros. apply src_ParseAttributes_spec; assumption. Qed.

Theorem program_Parse fuel b secret : bytes_ok b -> length b < fuel ->
  src_run "Parse" fuel [VBytes b; secret] = parse_result b secret.
Proof. intros. apply src_Parse_spec; try assumption. apply src_ctx_calls_parse_attrs. Qed.

(* no panic, no fuel exhaustion: on arbitrary bytes the translated Parse returns a packet or an error *)
Theorem program_Parse_total fuel b secret : bytes_ok b -> length b < fuel ->
  exists v, src_run "Parse" fuel [VBytes b; secret] = Some (Some v).
Proof.
  intros Hb Hn. rewrite program_Parse by assumption. unfold parse_result.
  pose proof (parse_no_panic b (bytes_of secret)) as [H1 H2]. rewrite parse_eq_spec in H1, H2.
  destruct (spec_parse b (bytes_of secret)) as [[[[[c i] au] s] at_]|e| |]; try (eexists; reflexivity);
    exfalso; [apply H1|apply H2]; reflexivity.
Qed.

Theorem program_ParseAttributes_total fuel b : bytes_ok b -> length b < fuel ->
  exists v, src_run "ParseAttributes" fuel [VBytes b] = Some (Some v).
Proof.
  intros Hb Hn. rewrite program_ParseAttributes by assumption. unfold parse_attrs_result.
  pose proof (parse_attrs_no_panic b) as [H1 H2]. rewrite parse_attrs_eq_spec in H1, H2.
  destruct (spec_tlv_dec b); try (eexists; reflexivity); exfalso; [apply H1|apply H2]; reflexivity.
Qed.
