(* Proofs/Client.v — the client's receive loop returns only authentic replies
   and counts bad datagrams exactly (C05). *)
From Radius Require Import Base.Bytes Base.Guard Base.Res Gen.Consts Model.Attrs Model.Packet Model.Client
  Spec.C01 Spec.C03 Spec.C05 Proofs.Guards Proofs.Oracles.
From Coq Require Import ZifyBool ZifyNat ZifyN.
Open Scope nat_scope.

Section S.
Variable H : bytes -> bytes.
Variable max_errors : Z.
Variable skip_verify : bool.
Variable wire sec : bytes.

Notation loop := (client_loop H max_errors skip_verify wire sec).
Notation cls := (classify H skip_verify wire sec).

Definition same (o : outcome) (s : soutcome) : Prop :=
  match o, s with
  | Returned p i, SReturned t j => p = pkt_of_tuple t /\ i = j
  | Failed e i, SFailed e' j => e = e' /\ i = j
  | Waiting c, SWaiting c' => c = c'
  | _, _ => False
  end.

Definition budget_of (count : Z) : option nat :=
  if (0 <? max_errors)%Z then Some (Z.to_nat (max_errors - count)) else None.

Lemma over_budget_spec g count : g = 1 \/ g = 2 ->
  over_budget max_errors g count = (0 <? max_errors)%Z && (count >=? max_errors)%Z.
Proof.
  intros [-> | ->]; unfold over_budget; [rewrite g_Exchange_1|rewrite g_Exchange_2];
    destruct (0 <? max_errors)%Z eqn:E; destruct (max_errors >? 0)%Z eqn:E'; try reflexivity; lia.
Qed.

Lemma loop_spec ds : forall count i, (0 <= count)%Z -> (0 < max_errors -> count < max_errors)%Z ->
  same (loop ds count i) (spec_recv (map cls ds) (budget_of count) count i).
Proof.
  induction ds as [|d r IH]; intros count i Hc Hlt; [cbn; reflexivity|].
  cbn [client_loop map]. unfold classify at 1.
  change (Z.to_nat K_MaxPacketLength) with 4096. set (d' := firstn 4096 d).
  rewrite parse_eq_spec. rewrite <- is_authentic_response_eq_spec.
  assert (Hstep : forall e, same
     (if (0 <? max_errors)%Z && (count + 1 >=? max_errors)%Z then Failed e i else loop r (count + 1)%Z (S i))
     (spec_recv (Bad e :: map cls r) (budget_of count) count i)).
  { intros e. cbn [spec_recv]. unfold budget_of.
    destruct (0 <? max_errors)%Z eqn:Em; cbn [andb].
    - assert (Hm : (count < max_errors)%Z) by (apply Hlt; lia).
      destruct (count + 1 >=? max_errors)%Z eqn:Eg.
      + replace (Z.to_nat (max_errors - count)) with 1 by lia. cbn. auto.
      + destruct (Z.to_nat (max_errors - count)) as [|[|b]] eqn:Eb; try lia.
        specialize (IH (count + 1)%Z (S i) ltac:(lia) ltac:(lia)). unfold budget_of in IH. rewrite Em in IH.
        replace (Z.to_nat (max_errors - (count + 1))) with (S b) in IH by lia. exact IH.
    - specialize (IH (count + 1)%Z (S i) ltac:(lia) ltac:(lia)). unfold budget_of in IH. rewrite Em in IH. exact IH. }
  destruct (spec_parse d' sec) as [t|e| |] eqn:Ep; cbn [bind].
  - destruct skip_verify; cbn [negb andb orb].
    + cbn [spec_recv]. split; reflexivity.
    + destruct (is_authentic_response H d' wire sec); cbn [negb].
      * cbn [spec_recv]. split; reflexivity.
      * rewrite over_budget_spec by auto. apply Hstep.
  - rewrite over_budget_spec by auto. apply Hstep.
  - cbn [spec_recv]. unfold budget_of.
    (* parse never panics (C01); the branch is unreachable *)
    exfalso. assert (Hp : parse d' sec = Panic) by (rewrite parse_eq_spec, Ep; reflexivity).
    destruct (Proofs.PacketWire.parse_no_panic d' sec) as [Hn _]. contradiction.
  - exfalso. assert (Hp : parse d' sec = OutOfFuel) by (rewrite parse_eq_spec, Ep; reflexivity).
    destruct (Proofs.PacketWire.parse_no_panic d' sec) as [_ Hn]. contradiction.
Qed.

Theorem exchange_recv_spec ds :
  same (exchange_recv H max_errors skip_verify wire sec ds) (spec_exchange_recv H max_errors skip_verify wire sec ds).
Proof.
  unfold exchange_recv, spec_exchange_recv.
  pose proof (loop_spec ds 0 0 ltac:(lia) ltac:(lia)) as L. unfold budget_of in L.
  replace (max_errors - 0)%Z with max_errors in L by lia. exact L.
Qed.

End S.

(* ---- the statement's clauses, on the verdict list ---- *)
Definition is_acc (v : verdict) : bool := match v with Acceptable _ => true | Bad _ => false end.

(* a packet is returned only for an acceptable datagram: it is that datagram's parse *)
Lemma spec_recv_returned vs : forall b seen i t j,
  spec_recv vs b seen i = SReturned t j ->
  i <= j /\ nth_error vs (j - i) = Some (Acceptable t) /\ forallb (fun v => negb (is_acc v)) (firstn (j - i) vs) = true.
Proof.
  induction vs as [|v r IH]; intros b seen i t j Hs; [discriminate|].
  destruct v as [t'|e]; cbn [spec_recv] in Hs.
  - inversion Hs; subst. replace (j - j) with 0 by lia. repeat split; auto.
  - assert (Hrec : exists b' , spec_recv r b' (seen + 1) (S i) = SReturned t j).
    { destruct b as [[|[|b]]|]; try discriminate; eauto. }
    destruct Hrec as [b' Hr]. destruct (IH _ _ _ _ _ Hr) as (Hle & Hn & Hf).
    replace (j - i) with (S (j - S i)) by lia. cbn [nth_error firstn forallb is_acc negb andb].
    repeat split; auto; lia.
Qed.

(* with an unlimited budget (max_errors <= 0) the call never fails on account of bad datagrams *)
Lemma spec_recv_unlimited vs : forall seen i e j, spec_recv vs None seen i <> SFailed e j.
Proof.
  induction vs as [|v r IH]; intros seen i e j; [discriminate|].
  destruct v; cbn [spec_recv]; [discriminate|apply IH].
Qed.

(* failure happens exactly at the budget-th bad datagram when nothing acceptable precedes it *)
Lemma spec_recv_failed vs : forall b seen i e j,
  spec_recv vs (Some b) seen i = SFailed e j ->
  i <= j /\ nth_error vs (j - i) = Some (Bad e) /\
  forallb (fun v => negb (is_acc v)) (firstn (j - i) vs) = true /\ S (j - i) = Nat.max 1 b.
Proof.
  induction vs as [|v r IH]; intros b seen i e j Hs; [discriminate|].
  destruct v as [t'|e']; cbn [spec_recv] in Hs; [discriminate|].
  destruct b as [|[|b]].
  - inversion Hs; subst. replace (j - j) with 0 by lia. repeat split; auto.
  - inversion Hs; subst. replace (j - j) with 0 by lia. repeat split; auto.
  - destruct (IH _ _ _ _ _ Hs) as (Hle & Hn & Hf & Hb).
    replace (j - i) with (S (j - S i)) by lia. cbn [nth_error firstn forallb is_acc negb andb].
    repeat split; auto; lia.
Qed.

(* the first acceptable datagram is returned whatever precedes it, if the budget allows *)
Lemma spec_recv_first_acceptable vs : forall b seen i k t,
  nth_error vs k = Some (Acceptable t) ->
  forallb (fun v => negb (is_acc v)) (firstn k vs) = true ->
  (match b with Some n => k < Nat.max 1 n | None => True end) ->
  spec_recv vs b seen i = SReturned t (i + k).
Proof.
  induction vs as [|v r IH]; intros b seen i k t Hn Hf Hb; [destruct k; discriminate|].
  destruct k as [|k].
  - cbn [nth_error] in Hn. inversion Hn; subst. cbn [spec_recv]. f_equal. lia.
  - cbn [nth_error firstn forallb] in *. apply andb_true_iff in Hf. destruct Hf as [Hv Hf].
    destruct v as [t'|e]; [discriminate|]. cbn [spec_recv].
    replace (i + S k) with (S i + k) by lia.
    destruct b as [[|[|b]]|]; try (cbn in Hb; lia); apply IH; auto; cbn; lia.
Qed.
