(* Proofs/SrcDefs.v — value-level view of an Attributes list and the abstraction to the model's
   attribute list; list lemmas shared by the proofs about attributes.go and packet.go.  Nothing here
   depends on the translated source. *)
From Coq Require Import String.
From Radius Require Import Base.Bytes Base.Res Base.GoLite Proofs.SrcBase Model.Attrs Spec.C09.
Open Scope list_scope.
Open Scope nat_scope.

(* an element of an Attributes value: *AVP{Type, Attribute} *)
Definition vavp (t : Z) (bv : val) : val := VRec [VInt t; bv].
Definition is_slice (bv : val) : Prop := bv = VNil \/ exists l, bv = VBytes l.
Inductive is_avp : val -> Prop :=
| is_avp_intro t bv : is_slice bv -> is_avp (vavp t bv).
Definition vkey (k : Z) (v : val) : bool :=
  match v with VRec (VInt t :: _) => (t =? k)%Z | _ => false end.
Definition vattr (v : val) : val := match v with VRec [_; bv] => bv | _ => VNil end.

(* abstraction to the model's attribute list *)
Definition abs_avp (v : val) : avp :=
  match v with
  | VRec [VInt t; bv] => mkavp t (match as_bytes bv with Some l => l | None => [] end)
  | _ => mkavp 0 []
  end.
Definition abs_attrs (vl : list val) : attrs := map abs_avp vl.

Lemma vkey_abs k v : is_avp v -> vkey k v = is_key k (abs_avp v).
Proof. intros H; destruct H; reflexivity. Qed.


Lemma firstn_S_nth_error {A} (l : list A) i x : nth_error l i = Some x -> firstn (S i) l = firstn i l ++ [x].
Proof.
  revert i; induction l as [|y l IH]; intros [|i] H; cbn in *; try discriminate.
  - inversion H; reflexivity.
  - f_equal. apply IH. exact H.
Qed.

Lemma Forall_firstn {A} (P : A -> Prop) k l : Forall P l -> Forall P (firstn k l).
Proof. intros H. rewrite Forall_forall in *. intros x Hx. apply H. rewrite <- (firstn_skipn k l). apply in_or_app; left; exact Hx. Qed.

Lemma Forall_skipn {A} (P : A -> Prop) k l : Forall P l -> Forall P (skipn k l).
Proof. intros H. rewrite Forall_forall in *. intros x Hx. apply H. rewrite <- (firstn_skipn k l). apply in_or_app; right; exact Hx. Qed.

Lemma nth_error_nth_skipn {A} (l : list A) i x : nth_error l i = Some x -> skipn i l = x :: skipn (S i) l.
Proof.
  revert i; induction l as [|y l IH]; intros [|i] H; cbn in *; try discriminate.
  - inversion H; reflexivity.
  - apply IH. exact H.
Qed.

(* fold the loop of a function body into a name, so that evaluation stops in front of it *)
Ltac fold_for name :=
  match goal with |- context[SFor ?c ?p ?b] => change (SFor c p b) with name end.

Definition bytes_of (v : val) : bytes := match as_bytes v with Some l => l | None => [] end.
