(* Proofs/ShutdownInvH1.v — one slice of the preservation proof of the Serve/Shutdown invariant (split for parallel compilation). *)
From Radius Require Import Base.Bytes Base.Res Model.Shutdown Proofs.ShutdownInv.
From Coq Require Import ZifyBool ZifyNat ZifyN.
Open Scope nat_scope.
Section Step.
Variable s : state.
Hypothesis Ia : active s = (Z.of_nat (cnt holds (threads s)) - (if sdec s then 1 else 0))%Z.
Hypothesis Ic : closes s = if sdec s && (cnt holds (threads s) =? 0) then 1 else 0.
Hypothesis Im : cnt in_cs (threads s) = if mu s then 1 else 0.
Hypothesis Ir : shut s = true -> cnt at_reg (threads s) = 0.
Hypothesis Il : cnt closing (threads s) = if shut s && negb (sdec s) then 1 else 0.
Hypothesis Isd : sdec s = true -> shut s = true.
Hypothesis Inl : 0 < cnt at_nil (threads s) -> closes s = 1.
Hypothesis Icl : shut s = true -> cnt at_hclose (threads s) = 0 -> incl (regs s) (closedc s).
Hypothesis Icn : shut s = true -> cnt pre_cancel (threads s) = 0 -> cancelled s = true.
Ltac fin := finish s Ir Isd Inl Icl Icn.
Lemma shut_a i e s' pc : (pc = H_start \/ pc = H_locked \/ pc = H_close \/ pc = H_cancel) -> nth_error (threads s) i = Some (TShut pc e) -> step_shut s i pc e ARun = Some s' -> Inv s'.
Proof.
  intros Hpc Hn Hs. destruct Hpc as [-> | [-> | [-> | ->]]]; cbn [step_shut] in Hs.
  - destruct (mu s) eqn:Em; [discriminate|]. inversion Hs; subst s'; clear Hs.
    counts Hn (TShut H_locked e). fin.
  - destruct (in_cs_unique' s i _ Im Hn eq_refl) as [Em Hc1].
    destruct (shut s) eqn:Esh; inversion Hs; subst s'; clear Hs.
    + counts Hn (TShut H_unlock e). fin.
    + assert (Esd : sdec s = false) by (destruct (sdec s); [specialize (Isd eq_refl); congruence|reflexivity]).
      counts Hn (TShut H_close e).
      assert (Hreg0 : cnt at_reg (threads s) = 0).
      { assert (Hsplit : cnt in_cs (threads s) = cnt at_reg (threads s) + cnt (fun t => in_cs t && negb (at_reg t)) (threads s)).
        { clear. induction (threads s) as [|x l IH]; cbn [cnt]; [reflexivity|].
          destruct x as [c0 pc0|pc0|pc0 e0]; try destruct pc0; cbn [in_cs at_reg andb negb]; lia. }
        pose proof (cnt_ge1 (fun t => in_cs t && negb (at_reg t)) _ _ _ Hn eq_refl). lia. }
      fin.
  - inversion Hs; subst s'; clear Hs. counts Hn (TShut H_cancel e). fin.
  - inversion Hs; subst s'; clear Hs. counts Hn (TShut H_dec e). fin.
Qed.
End Step.
