(* Proofs/ShutdownShape.v — the synchronisation skeleton of server-packet.go (Gen/Consts.v, regenerated from the
   working tree on every run) and the step function of Model/Shutdown.v perform the same operations in the same
   order, path by path.  Closed computations: both sides are evaluated by the kernel. *)
From Coq Require Import String.
From Radius Require Import Base.Bytes Base.Res Model.Shutdown Model.ShutdownShape Gen.Consts.
Open Scope nat_scope.
Open Scope string_scope.
Open Scope list_scope.

Notation T := true.
Notation F := false.

(* thread 0: a Serve call about to start; thread 1: a Shutdown call about to start *)
Definition two (s : state) : state := add_thread (add_thread s (TServe 7 S_start)) (TShut H_start false).
(* a Serve call blocked in ReadFrom and a complete Shutdown call waiting in its select *)
Definition serving_shut : state := run false (two init) (repeat (EStep 0 ARun) 5 ++ repeat (EStep 1 ARun) 7).
(* a server that has been shut down completely, with a third thread: a second Shutdown call *)
Definition drained : state :=
  add_thread (run false serving_shut (EStep 0 (ARead_error false) :: repeat (EStep 0 ARun) 3 ++ [EStep 1 AWake_nil]))
             (TShut H_start false).

(* ---- Serve ---- *)
Lemma serve_nil_handler : path [T] Sync_PacketServer_Serve = ["return:errors.New(""radius: nil Handler"")"].
Proof. vm_compute. reflexivity. Qed.
Lemma serve_nil_secret_source : path [F;T] Sync_PacketServer_Serve = ["return:errors.New(""radius: nil SecretSource"")"].
Proof. vm_compute. reflexivity. Qed.

Lemma serve_refused :
  path [F;F;T] Sync_PacketServer_Serve = mtrace (two (set_shut init true)) (runs 0 2 true).
Proof. vm_compute. reflexivity. Qed.

Lemma serve_read_error :
  path [F;F;F;T;F;T;F] Sync_PacketServer_Serve
  = mtrace (two init) (runs 0 5 true ++ [(0, ARead_error false, true)] ++ runs 0 3 true).
Proof. vm_compute. reflexivity. Qed.

(* the listener's last Serve call also deletes the map entry: no operation of the model *)
Lemma serve_read_error_last_user :
  path [F;F;F;T;F;T;T] Sync_PacketServer_Serve = path [F;F;F;T;F;T;F] Sync_PacketServer_Serve.
Proof. vm_compute. reflexivity. Qed.

Lemma serve_temporary_error :
  path [F;F;F;T;F;F] Sync_PacketServer_Serve
  = mtrace (two init) (runs 0 5 true ++ [(0, ARead_error true, true)]).
Proof. vm_compute. reflexivity. Qed.

Lemma serve_after_shutdown :
  path [F;F;F;T;T;F] Sync_PacketServer_Serve
  = mtrace (two init) (runs 0 5 true ++ runs 1 7 false ++ [(0, ARead_error false, true)] ++ runs 0 3 true).
Proof. vm_compute. reflexivity. Qed.

Lemma serve_datagram :
  path [F;F;F;F] Sync_PacketServer_Serve
  = mtrace (two init) (runs 0 5 true ++ [(0, ARead_datagram false, true)]).
Proof. vm_compute. reflexivity. Qed.

(* ---- the goroutine of one datagram (thread 2) ---- *)
Lemma datagram_handled :
  path [F;F;F;F;F] (go_block Sync_PacketServer_Serve)
  = mtrace (two init) (runs 0 5 false ++ [(0, ARead_datagram false, false); (2, ARun, true); (2, AHandler_return, true); (2, ARun, true)]).
Proof. vm_compute. reflexivity. Qed.

Definition dropped_trace : list string :=
  mtrace (two init) (runs 0 5 false ++ [(0, ARead_datagram true, false); (2, ARun, true); (2, ARun, true)]).
Lemma datagram_dropped :
  path [T] (go_block Sync_PacketServer_Serve) = dropped_trace /\
  path [F;T] (go_block Sync_PacketServer_Serve) = dropped_trace /\
  path [F;F;T] (go_block Sync_PacketServer_Serve) = dropped_trace /\
  path [F;F;F;T] (go_block Sync_PacketServer_Serve) = dropped_trace /\
  path [F;F;F;F;T] (go_block Sync_PacketServer_Serve) = dropped_trace.
Proof. vm_compute. repeat split. Qed.

(* ---- Shutdown ---- *)
Lemma shutdown_first_nil :
  path [T;T] Sync_PacketServer_Shutdown
  = mtrace (two init) (runs 0 5 false ++ runs 1 7 true ++ [(0, ARead_error false, false)] ++ runs 0 3 false ++ [(1, AWake_nil, true)]).
Proof. vm_compute. reflexivity. Qed.

Lemma shutdown_first_ctx :
  path [T;F;T] Sync_PacketServer_Shutdown
  = mtrace (two init) (runs 0 5 false ++ runs 1 7 true ++ [(1, AExpire, true); (1, AWake_err, true)]).
Proof. vm_compute. reflexivity. Qed.

Lemma shutdown_second_nil :
  path [F;T] Sync_PacketServer_Shutdown = mtrace drained (runs 2 4 true ++ [(2, AWake_nil, true)]).
Proof. vm_compute. reflexivity. Qed.

Lemma shutdown_second_ctx :
  path [F;F;T] Sync_PacketServer_Shutdown
  = mtrace (add_thread serving_shut (TShut H_start false)) (runs 2 4 true ++ [(2, AExpire, true); (2, AWake_err, true)]).
Proof. vm_compute. reflexivity. Qed.

(* ---- the counter and the initialisation ---- *)
Lemma active_add_shape : Sync_PacketServer_activeAdd = ["atomic.AddInt32(&$r.activeCount,1)"].
Proof. vm_compute. reflexivity. Qed.
Lemma active_done_shape :
  Sync_PacketServer_activeDone
  = ["atomic.AddInt32(&$r.activeCount,-1)"; "if:atomic.AddInt32(&$r.activeCount, -1) == -1"; "{"; "close:$r.lastActive"; "}"].
Proof. vm_compute. reflexivity. Qed.
Lemma init_locked_shape :
  path [F] Sync_PacketServer_initLocked = [] /\
  path [T] Sync_PacketServer_initLocked = ["set:$r.ctx"; "set:$r.ctxDone"; "set:$r.listeners"; "set:$r.lastActive"].
Proof. vm_compute. split; reflexivity. Qed.

(* the traces are not degenerate: the longest one, spelled out *)
Example serve_read_error_trace :
  path [F;F;F;T;F;T;F] Sync_PacketServer_Serve
  = ["lock"; "load"; "reg"; "add"; "unlock"; "hook:serve.registered"; "read"; "load"; "lock"; "unreg"; "unlock"; "done"; "return:err"].
Proof. vm_compute. reflexivity. Qed.
Example shutdown_first_trace :
  path [T;T] Sync_PacketServer_Shutdown
  = ["lock"; "cas"; "close"; "cancel"; "done"; "unlock"; "hook:shutdown.waiting"; "select"; "return:nil"].
Proof. vm_compute. reflexivity. Qed.

Definition code_order : Prop :=
  (path [T] Sync_PacketServer_Serve = ["return:errors.New(""radius: nil Handler"")"]) /\
  (path [F;T] Sync_PacketServer_Serve = ["return:errors.New(""radius: nil SecretSource"")"]) /\
  (path [F;F;T] Sync_PacketServer_Serve = mtrace (two (set_shut init true)) (runs 0 2 true)) /\
  (path [F;F;F;T;F;T;F] Sync_PacketServer_Serve
   = mtrace (two init) (runs 0 5 true ++ [(0, ARead_error false, true)] ++ runs 0 3 true)) /\
  (path [F;F;F;T;F;T;T] Sync_PacketServer_Serve = path [F;F;F;T;F;T;F] Sync_PacketServer_Serve) /\
  (path [F;F;F;T;F;F] Sync_PacketServer_Serve = mtrace (two init) (runs 0 5 true ++ [(0, ARead_error true, true)])) /\
  (path [F;F;F;T;T;F] Sync_PacketServer_Serve
   = mtrace (two init) (runs 0 5 true ++ runs 1 7 false ++ [(0, ARead_error false, true)] ++ runs 0 3 true)) /\
  (path [F;F;F;F] Sync_PacketServer_Serve = mtrace (two init) (runs 0 5 true ++ [(0, ARead_datagram false, true)])) /\
  (path [F;F;F;F;F] (go_block Sync_PacketServer_Serve)
   = mtrace (two init) (runs 0 5 false ++ [(0, ARead_datagram false, false); (2, ARun, true); (2, AHandler_return, true); (2, ARun, true)])) /\
  (forall ds, In ds [[T]; [F;T]; [F;F;T]; [F;F;F;T]; [F;F;F;F;T]] -> path ds (go_block Sync_PacketServer_Serve) = dropped_trace) /\
  (path [T;T] Sync_PacketServer_Shutdown
   = mtrace (two init) (runs 0 5 false ++ runs 1 7 true ++ [(0, ARead_error false, false)] ++ runs 0 3 false ++ [(1, AWake_nil, true)])) /\
  (path [T;F;T] Sync_PacketServer_Shutdown
   = mtrace (two init) (runs 0 5 false ++ runs 1 7 true ++ [(1, AExpire, true); (1, AWake_err, true)])) /\
  (path [F;T] Sync_PacketServer_Shutdown = mtrace drained (runs 2 4 true ++ [(2, AWake_nil, true)])) /\
  (path [F;F;T] Sync_PacketServer_Shutdown
   = mtrace (add_thread serving_shut (TShut H_start false)) (runs 2 4 true ++ [(2, AExpire, true); (2, AWake_err, true)])) /\
  Sync_PacketServer_activeAdd = ["atomic.AddInt32(&$r.activeCount,1)"] /\
  Sync_PacketServer_activeDone
  = ["atomic.AddInt32(&$r.activeCount,-1)"; "if:atomic.AddInt32(&$r.activeCount, -1) == -1"; "{"; "close:$r.lastActive"; "}"] /\
  path [F] Sync_PacketServer_initLocked = [] /\
  path [T] Sync_PacketServer_initLocked = ["set:$r.ctx"; "set:$r.ctxDone"; "set:$r.listeners"; "set:$r.lastActive"].

Lemma code_order_holds : code_order.
Proof.
  unfold code_order.
  repeat match goal with |- _ /\ _ => split end;
    try (vm_compute; reflexivity).
  intros ds Hin; cbn [In] in Hin.
  repeat (destruct Hin as [<- | Hin]; [vm_compute; reflexivity|]). destruct Hin.
Qed.

(* ---- completeness: there is no other path ----
   Every list of decisions long enough to reach the end of any path through the skeleton (8 for Serve, 6 for the
   goroutine, 4 for Shutdown; a path that ran out of decisions would end in a "no-decision-left" token and be in
   none of the lists below) yields one of the model's traces: the paths compared above are all the paths there are. *)
Definition serve_traces : list (list string) :=
  [ ["return:errors.New(""radius: nil Handler"")"];
    ["return:errors.New(""radius: nil SecretSource"")"];
    mtrace (two (set_shut init true)) (runs 0 2 true);
    mtrace (two init) (runs 0 5 true ++ [(0, ARead_error false, true)] ++ runs 0 3 true);
    mtrace (two init) (runs 0 5 true ++ [(0, ARead_error true, true)]);
    mtrace (two init) (runs 0 5 true ++ runs 1 7 false ++ [(0, ARead_error false, true)] ++ runs 0 3 true);
    mtrace (two init) (runs 0 5 true ++ [(0, ARead_datagram false, true)]) ].
Definition dgram_traces : list (list string) :=
  [ mtrace (two init) (runs 0 5 false ++ [(0, ARead_datagram false, false); (2, ARun, true); (2, AHandler_return, true); (2, ARun, true)]);
    dropped_trace ].
Definition shutdown_traces : list (list string) :=
  let first := runs 0 5 false ++ runs 1 7 true in
  [ mtrace (two init) (first ++ [(0, ARead_error false, false)] ++ runs 0 3 false ++ [(1, AWake_nil, true)]);
    mtrace (two init) (first ++ [(1, AExpire, true); (1, AWake_err, true)]);
    mtrace (two init) first;                              (* still waiting in its select *)
    mtrace drained (runs 2 4 true ++ [(2, AWake_nil, true)]);
    mtrace (add_thread serving_shut (TShut H_start false)) (runs 2 4 true ++ [(2, AExpire, true); (2, AWake_err, true)]);
    mtrace drained (runs 2 4 true) ].

Definition code_paths_complete : Prop :=
  (forall ds, List.length ds = 8 -> In (path ds Sync_PacketServer_Serve) serve_traces) /\
  (forall ds, List.length ds = 6 -> In (path ds (go_block Sync_PacketServer_Serve)) dgram_traces) /\
  (forall ds, List.length ds = 4 -> In (path ds Sync_PacketServer_Shutdown) shutdown_traces).

Lemma code_paths_complete_holds : code_paths_complete.
Proof.
  unfold code_paths_complete, path; repeat split; intros ds Hlen;
    (apply paths_within_spec with (n := List.length ds); [rewrite Hlen; vm_compute; reflexivity | apply all_lists_complete; reflexivity]).
Qed.

(* ---- the lockset discipline of the code as written, on every path ---- *)
Definition code_lockset : Prop :=
  (forall ds, List.length ds = 8 -> lockset false false (rawpath ds Sync_PacketServer_Serve) = true) /\
  (forall ds, List.length ds = 6 -> lockset false false (rawpath ds (go_block Sync_PacketServer_Serve)) = true) /\
  (forall ds, List.length ds = 4 -> lockset false false (rawpath ds Sync_PacketServer_Shutdown) = true) /\
  (* activeAdd / activeDone touch nothing but the atomic counter and the channel they close *)
  existsb touches_server (Sync_PacketServer_activeAdd ++ Sync_PacketServer_activeDone) = false /\
  (* the walk does see the operations it is about (the check is not vacuous) *)
  existsb touches_server (rawpath [F;F;F;T;F;T;F] Sync_PacketServer_Serve) = true /\
  existsb touches_table (rawpath [F;F;F;F;F;F] (go_block Sync_PacketServer_Serve)) = true.

Lemma code_lockset_holds : code_lockset.
Proof.
  unfold code_lockset; repeat split;
    try (intros ds Hlen; apply lockset_within_spec with (n := List.length ds); [rewrite Hlen; vm_compute; reflexivity | reflexivity]);
    vm_compute; reflexivity.
Qed.
