(* Proofs/Oracles.v — the executable oracles of Spec/ (literal constants,
   used by the counterexample search) agree with the source-tied models. *)
From Radius Require Import Base.Bytes Base.Guard Base.Res Gen.Consts Model.Attrs Model.Packet
  Spec.C09 Spec.C01 Spec.C03 Proofs.Guards Proofs.AttrsWire Proofs.PacketWire Proofs.Auth.
From Coq Require Import ZifyBool ZifyNat ZifyN.
Open Scope nat_scope.

Lemma parse_attrs_f_eq_spec : forall f b, parse_attrs_f f b = spec_tlv_dec_f f b.
Proof.
  induction f as [|f IH]; intros b; [reflexivity|].
  rewrite parse_attrs_f_unfold. cbn [spec_tlv_dec_f].
  destruct b as [|t [|n r]]; try reflexivity. cbv zeta. rewrite IH. reflexivity.
Qed.

Theorem parse_attrs_eq_spec b : parse_attrs b = spec_tlv_dec b.
Proof. apply parse_attrs_f_eq_spec. Qed.

Definition pkt_of_tuple (t : Z * N * bytes * bytes * attrs) : packet :=
  let '(c, i, au, s, at_) := t in mkpacket c i au s at_.

Theorem parse_eq_spec b s : parse b s = bind (spec_parse b s) (fun t => Ok (pkt_of_tuple t)).
Proof.
  rewrite parse_unfold. unfold spec_parse.
  destruct (Nat.ltb_spec (length b) 20) as [Hs|Hs]; [reflexivity|].
  destruct b as [|c [|i [|l1 [|l2 rest]]]]; cbn [length] in Hs; try lia.
  rewrite length_field_cons. cbv zeta.
  destruct (_ || _ || _); [reflexivity|].
  rewrite firstn_skipn_comm. 
  destruct (Nat.le_gt_cases 20 (hdr_len l1 l2)) as [Hn|Hn].
  - replace (20 + (hdr_len l1 l2 - 20)) with (hdr_len l1 l2) by lia.
    rewrite <- parse_attrs_eq_spec.
    destruct (parse_attrs _); reflexivity.
  - (* unreachable: the guard above excludes it; both sides still agree *)
    replace (hdr_len l1 l2 - 20) with 0 by lia. rewrite Nat.add_0_r.
    rewrite <- parse_attrs_eq_spec.
    assert (E : skipn 20 (firstn (hdr_len l1 l2) (c :: i :: l1 :: l2 :: rest)) =
                skipn 20 (firstn 20 (c :: i :: l1 :: l2 :: rest))).
    { rewrite !skipn_all2; [reflexivity| |]; rewrite firstn_length; lia. }
    rewrite E. destruct (parse_attrs _); reflexivity.
Qed.

Lemma value_fits_eq : value_fits = spec_value_fits. Proof. reflexivity. Qed.

Theorem marshal_eq_spec p : marshal p = spec_marshal (code p) (ident p) (auth p) (pattrs p).
Proof. rewrite marshal_spec. reflexivity. Qed.

Section S.
Variable H : bytes -> bytes.

Theorem encode_eq_spec p : encode H p = spec_encode H (code p) (ident p) (auth p) (secret p) (pattrs p).
Proof.
  unfold encode, spec_encode. rewrite <- marshal_eq_spec.
  destruct (marshal p) as [w| | |]; try reflexivity.
  rewrite sw_Encode_verbatim, sw_Encode_hashed, sw_Encode_zero.
  unfold rfc_verbatim_codes, rfc_reply_codes, rfc_hashed_request_codes.
  cbn [zmem]. unfold covered, put_auth, spec_put_auth.
  repeat match goal with |- context [(code p =? ?k)%Z] => destruct (Z.eqb_spec (code p) k); cbn [orb]; try reflexivity; try lia end.
Qed.

Theorem is_authentic_response_eq_spec r q sec :
  is_authentic_response H r q sec = spec_is_authentic_response H r q sec.
Proof.
  unfold is_authentic_response, spec_is_authentic_response.
  rewrite g_IsAuthResp_0, g_IsAuthResp_1, g_IsAuthResp_2. unfold zlen, covered, auth_field.
  destruct ((Z.of_nat (length r) <? 20)%Z || (Z.of_nat (length q) <? 20)%Z || (Z.of_nat (length sec) =? 0)%Z) eqn:E.
  - replace ((20 <=? length r) && (20 <=? length q) && negb (length sec =? 0)) with false by lia. reflexivity.
  - replace ((20 <=? length r) && (20 <=? length q) && negb (length sec =? 0)) with true by lia.
    cbn [andb]. destruct (beq _ _) eqn:B1.
    + apply beq_spec in B1. symmetry. apply beq_spec. auto.
    + apply beq_false in B1. symmetry. apply beq_false. auto.
Qed.

Theorem is_authentic_request_eq_spec q sec :
  is_authentic_request H q sec = spec_is_authentic_request H q sec.
Proof.
  unfold is_authentic_request, spec_is_authentic_request.
  rewrite g_IsAuthReq_0, g_IsAuthReq_1, sw_IsAuthReq_always, sw_IsAuthReq_hashed. unfold zlen, covered, auth_field.
  destruct ((Z.of_nat (length q) <? 20)%Z || (Z.of_nat (length sec) =? 0)%Z) eqn:E.
  - replace ((20 <=? length q) && negb (length sec =? 0)) with false by lia. reflexivity.
  - replace ((20 <=? length q) && negb (length sec =? 0)) with true by lia. cbn [andb].
    destruct q as [|c rest]; [reflexivity|].
    unfold rfc_verbatim_codes, rfc_hashed_request_codes.
    destruct (zmem (Z.of_N c) [1; 12]%Z); [reflexivity|]. cbn [orb].
    destruct (zmem (Z.of_N c) [4; 40; 43]%Z); [|reflexivity]. cbn [andb].
    destruct (beq _ _) eqn:B1.
    + apply beq_spec in B1. symmetry. apply beq_spec. auto.
    + apply beq_false in B1. symmetry. apply beq_false. auto.
Qed.
End S.
