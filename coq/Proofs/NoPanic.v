(* Proofs/NoPanic.v — untrusted bytes never crash or hang the decode surface (C02).
   The models mark with [Panic] every place where the Go code would index or slice out of
   range and with [OutOfFuel] every loop that could fail to end; the theorems below say that
   neither outcome is reachable from any byte string, for every decoding entry point. *)
From Radius Require Import Base.Bytes Base.Guard Base.Res Gen.Consts Model.Attrs Model.Packet
  Model.Codecs Model.Passwords Model.Vendor Model.Helpers
  Spec.C01 Spec.C04 Spec.C09 Spec.C10 Spec.C11 Proofs.Guards Proofs.AttrsWire Proofs.PacketWire Proofs.Codecs Proofs.Prefix
  Proofs.UserPassword Proofs.TunnelPassword Proofs.Vendor.
From Coq Require Import ZifyBool ZifyNat ZifyN.
Open Scope nat_scope.

Definition fine {A} (r : res A) : Prop := r <> Panic /\ r <> OutOfFuel.
Lemma fine_ok {A} (x : A) : fine (Ok x). Proof. split; discriminate. Qed.
Lemma fine_err {A} e : fine (@Err A e). Proof. split; discriminate. Qed.
Lemma fine_bind {A B} (r : res A) (f : A -> res B) : fine r -> (forall x, r = Ok x -> fine (f x)) -> fine (bind r f).
Proof. intros [H1 H2] Hf. destruct r; cbn [bind]; [apply Hf; reflexivity|apply fine_err|congruence|congruence]. Qed.

(* ---- what Parse hands on is made of bytes ---- *)
Lemma tlvs_bytes_ok b l : bytes_ok b -> tlvs b l -> Forall (fun a => bytes_ok (aval a)) l.
Proof.
  intros Hb Ht. induction Ht as [|t v rest tl Hv Ht IH]; [constructor|].
  inversion Hb as [|? ? _ Hb1]; subst. inversion Hb1 as [|? ? _ Hb2]; subst.
  apply bytes_ok_app in Hb2. destruct Hb2 as [Hvv Hrest]. constructor; [exact Hvv|apply IH, Hrest].
Qed.
Theorem parse_attrs_bytes b s p : bytes_ok b -> parse b s = Ok p -> Forall (fun a => bytes_ok (aval a)) (pattrs p).
Proof.
  intros Hb. rewrite parse_unfold. destruct (length b <? 20); [discriminate|].
  destruct b as [|c [|i [|l1 [|l2 rest]]]]; try discriminate. cbv zeta.
  destruct (_ || _ || _); [discriminate|].
  destruct (parse_attrs (skipn 20 (firstn (hdr_len l1 l2) (c :: i :: l1 :: l2 :: rest)))) as [at_|e| |] eqn:Ea; try discriminate.
  intros H. apply Ok_inj in H. subst p. cbn [pattrs].
  apply parse_attrs_iff in Ea. eapply tlvs_bytes_ok; [|exact Ea]. apply bytes_ok_skipn, bytes_ok_firstn, Hb.
Qed.

Section S.
Variable Hs : bytes -> bytes.
Hypothesis Hs_len : forall x, length (Hs x) = 16.

(* ---- the authenticity predicates with every slice expression checked ---- *)
Definition is_authentic_response_chk (response request sec : bytes) : res bool :=
  if holds (gd G_IsAuthenticResponse 0) (zlen response) || holds (gd G_IsAuthenticResponse 1) (zlen request)
     || holds (gd G_IsAuthenticResponse 2) (zlen sec) then Ok false else
  bind (slice response 0 4) (fun r1 => bind (slice request 4 20) (fun r2 =>
  bind (slice response 20 (length response)) (fun r3 => bind (slice response 4 20) (fun r4 =>
  Ok (beq (Hs (r1 ++ r2 ++ r3 ++ sec)) r4))))).
Definition is_authentic_request_chk (request sec : bytes) : res bool :=
  if holds (gd G_IsAuthenticRequest 0) (zlen request) || holds (gd G_IsAuthenticRequest 1) (zlen sec) then Ok false else
  match request with
  | c :: _ =>
    if zmem (Z.of_N c) (sw SW_IsAuthenticRequest 0 0) then Ok true
    else if zmem (Z.of_N c) (sw SW_IsAuthenticRequest 0 1) then
      bind (slice request 0 4) (fun r1 => bind (slice request 20 (length request)) (fun r3 =>
      bind (slice request 4 20) (fun r4 => Ok (beq (Hs (r1 ++ zeros16 ++ r3 ++ sec)) r4))))
    else Ok false
  | [] => Panic      (* request[0] *)
  end.

Lemma slice_in a lo hi : lo <= hi -> hi <= length a -> slice a lo hi = Ok (firstn (hi - lo) (skipn lo a)).
Proof. intros H1 H2. unfold slice. destruct ((hi <? lo) || (length a <? hi)) eqn:E; [lia|reflexivity]. Qed.

Theorem is_authentic_response_safe response request sec :
  is_authentic_response_chk response request sec = Ok (is_authentic_response Hs response request sec).
Proof.
  unfold is_authentic_response_chk, is_authentic_response. rewrite g_IsAuthResp_0, g_IsAuthResp_1, g_IsAuthResp_2. unfold zlen.
  destruct ((Z.of_nat (length response) <? 20)%Z || (Z.of_nat (length request) <? 20)%Z || (Z.of_nat (length sec) =? 0)%Z) eqn:E;
    [reflexivity|].
  rewrite !slice_in by lia. cbn [bind skipn]. replace (4 - 0) with 4 by lia. replace (20 - 4) with 16 by lia.
  rewrite (firstn_all2 (skipn 20 response)) by (rewrite skipn_length; lia). reflexivity.
Qed.
Theorem is_authentic_request_safe request sec :
  is_authentic_request_chk request sec = Ok (is_authentic_request Hs request sec).
Proof.
  unfold is_authentic_request_chk, is_authentic_request. rewrite g_IsAuthReq_0, g_IsAuthReq_1. unfold zlen.
  destruct ((Z.of_nat (length request) <? 20)%Z || (Z.of_nat (length sec) =? 0)%Z) eqn:E; [reflexivity|].
  destruct request as [|c r]; [cbn [length] in E; lia|].
  destruct (zmem _ _); [reflexivity|]. destruct (zmem _ _); [|reflexivity].
  rewrite !slice_in by lia. cbn [bind]. replace (4 - 0) with 4 by lia. replace (20 - 4) with 16 by lia.
  rewrite (firstn_all2 (skipn 20 (c :: r))) by (rewrite skipn_length; lia). reflexivity.
Qed.

(* ---- typed decoders ---- *)
Theorem typed_decoders_total a sec ra : bytes_ok a ->
  fine (integer a) /\ fine (short a) /\ fine (integer64 a) /\ fine (date a) /\ fine (ipaddr a) /\ fine (ipv6addr a) /\
  fine (ifid a) /\ fine (vendor_specific a) /\ fine (tlv_dec a) /\ fine (ipv6prefix a) /\
  fine (user_password Hs a sec ra) /\ fine (tunnel_password Hs a sec ra).
Proof.
  intros Hb.
  assert (Hg : forall (A : Type) (c : bool) (e : N) (x : A), fine (if c then Err e else Ok x)).
  { intros A c e x. destruct c; [apply fine_err|apply fine_ok]. }
  split; [apply Hg|]. split; [apply Hg|]. split; [apply Hg|]. split; [apply Hg|]. split; [apply Hg|].
  split; [apply Hg|]. split; [apply Hg|]. split; [apply Hg|].
  split. { rewrite tlv_dec_eq. unfold spec_tlv6929. destruct a as [|? [|? ?]]; try apply fine_err. destruct (_ && _ && _); [apply fine_ok|apply fine_err]. }
  split. { apply ipv6prefix_no_panic, Hb. }
  split. { rewrite (user_password_eq_spec Hs Hs_len). unfold spec_user_password. destruct (_ || _ || _ || _ || _); [apply fine_err|apply fine_ok]. }
  apply (tunnel_password_no_panic Hs Hs_len).
Qed.

(* ---- generated getters on any packet ---- *)
Lemma fine_match_bytes {A} (r : res A) : (r <> Panic) -> (r <> OutOfFuel) -> fine r. Proof. split; assumption. Qed.

Theorem h_decode_total d p q a : bytes_ok a -> fine (h_decode Hs d p q a).
Proof.
  intros Hb. destruct (typed_decoders_total a (secret p) (auth p) Hb) as (_ & _ & _ & Hdate & Hip4 & Hip6 & Hifid & _ & _ & Hpre & _ & _).
  assert (Htp : forall x, fine (bind (tunnel_password Hs x (secret p) (auth q)) (fun r => Ok (fst r)))).
  { intros x. apply fine_bind; [apply (tunnel_password_no_panic Hs Hs_len)|intros; apply fine_ok]. }
  assert (Hup : forall x, fine (user_password Hs x (secret p) (auth p))).
  { intros x. rewrite (user_password_eq_spec Hs Hs_len). unfold spec_user_password. destruct (_ || _ || _ || _ || _); split; discriminate. }
  assert (Hstr : forall (tg : N) (x : bytes), fine (bind (if (h_enc d =? 1)%Z then user_password Hs x (secret p) (auth p)
                        else if (h_enc d =? 2)%Z then bind (tunnel_password Hs x (secret p) (auth q)) (fun r => Ok (fst r)) else Ok x)
                  (fun v => match h_size d with
                            | Some n => if negb (zlen v =? n)%Z then Err E_invalid else Ok (tg, gv_b v)
                            | None => Ok (tg, gv_b v) end))).
  { intros tg x. apply fine_bind.
    - destruct (h_enc d =? 1)%Z; [apply Hup|]. destruct (h_enc d =? 2)%Z; [apply Htp|apply fine_ok].
    - intros v _. destruct (h_size d); [destruct (negb _); [apply fine_err|apply fine_ok]|apply fine_ok]. }
  unfold h_decode. destruct (h_kind d) as [| | | | | | |n|].
  - destruct a as [|t r]; [apply Hstr|]. destruct (h_tag d && (t <=? 31)%N); apply Hstr.
  - destruct a as [|t r]; [apply Hstr|]. destruct (h_tag d && (t <=? 31)%N); apply Hstr.
  - apply fine_bind.
    + destruct (h_enc d =? 2)%Z; [apply Htp|apply fine_ok].
    + intros x _. apply fine_bind; [unfold ipaddr; destruct (holds _ _); split; discriminate|intros; apply fine_ok].
  - apply fine_bind.
    + destruct (h_enc d =? 2)%Z; [apply Htp|apply fine_ok].
    + intros x _. apply fine_bind; [unfold ipv6addr; destruct (holds _ _); split; discriminate|intros; apply fine_ok].
  - apply fine_bind; [exact Hifid|intros; apply fine_ok].
  - apply fine_bind; [exact Hpre|intros; apply fine_ok].
  - apply fine_bind; [exact Hdate|intros; apply fine_ok].
  - assert (Hint : forall (tg : N) (x : bytes), fine (bind (if negb (h_tag d) && (h_enc d =? 2)%Z then bind (tunnel_password Hs x (secret p) (auth q)) (fun r => Ok (fst r)) else Ok x)
                       (fun a'' => if negb (length a'' =? n) then Err E_invalid else Ok (tg, gv_u (Z.of_N (be_dec a'')))))).
    { intros tg x. apply fine_bind; [destruct (negb (h_tag d) && (h_enc d =? 2)%Z); [apply Htp|apply fine_ok]|].
      intros y _. destruct (negb _); [apply fine_err|apply fine_ok]. }
    destruct a as [|t r]; [apply Hint|]. destruct (h_tag d && (t <=? 31)%N); apply Hint.
  - destruct a as [|x [|? ?]]; first [apply fine_err|apply fine_ok].
Qed.

Lemma subattrs_bytes_ok payload : bytes_ok payload -> Forall (fun s => bytes_ok (snd s)) (fst (subattrs payload)).
Proof.
  intros Hb. destruct (subattrs_spec payload) as (_ & _ & Hv). rewrite Hv in Hb. apply bytes_ok_app in Hb. destruct Hb as [Hb _].
  clear Hv. induction (fst (subattrs payload)) as [|s l IH]; [constructor|]. cbn [flat_map] in Hb. apply bytes_ok_app in Hb.
  destruct Hb as [H1 H2]. constructor; [exact H1|apply IH, H2].
Qed.

Lemma h_raw_bytes_ok d p : Forall (fun a => bytes_ok (aval a)) (pattrs p) -> Forall bytes_ok (h_raw d p).
Proof.
  intros Ha. unfold h_raw. rewrite Forall_forall in Ha. apply Forall_forall. intros x Hx. destruct (h_vendor d) as [vid|].
  - unfold gets_vendor in Hx. apply in_flat_map in Hx. destruct Hx as (a & Hin & Hx).
    destruct (vsa_payload vid a) as [payload|] eqn:Ep; [|destruct Hx].
    apply vsa_payload_some in Ep. destruct Ep as (_ & _ & _ & Hp).
    assert (Hpb : bytes_ok payload) by (subst payload; apply bytes_ok_skipn, Ha, Hin).
    pose proof (subattrs_bytes_ok payload Hpb) as Hs'. rewrite Forall_forall in Hs'.
    unfold values_of in Hx. apply in_map_iff in Hx. destruct Hx as (s & <- & Hs2). apply filter_In in Hs2.
    apply bytes_ok_skipn, Hs', Hs2.
  - apply in_map_iff in Hx. destruct Hx as (a & <- & Hin). apply filter_In in Hin. apply Ha, Hin.
Qed.

Theorem h_lookup_total d p q : Forall (fun a => bytes_ok (aval a)) (pattrs p) ->
  fine (h_lookup Hs d p q) /\ fine (h_gets Hs d p q).
Proof.
  intros Ha. pose proof (h_raw_bytes_ok d p Ha) as Hr. split.
  - unfold h_lookup. destruct (h_kind d); destruct (h_raw d p) as [|a l];
      first [apply fine_err|apply fine_ok|apply h_decode_total; inversion Hr; assumption].
  - unfold h_gets. induction Hr as [|a l Hb _ IH]; [apply fine_ok|]. cbn [decode_all].
    apply fine_bind; [apply h_decode_total, Hb|]. intros x _. apply fine_bind; [exact IH|intros; apply fine_ok].
Qed.

(* from the wire: whatever parses, every generated getter returns a value or an error *)
Corollary getters_total_on_parsed b s p d q : bytes_ok b -> parse b s = Ok p ->
  fine (h_lookup Hs d p q) /\ fine (h_gets Hs d p q).
Proof. intros Hb Hp. apply h_lookup_total. eapply parse_attrs_bytes; eassumption. Qed.
End S.

(* ---- the server: a datagram the parser rejects is dropped, the table of requests in flight is
   unchanged (it keeps serving), and a handler only ever sees what the parser accepted ---- *)
From Radius Require Import Model.Dispatch.
Section Srv.
Variable H : bytes -> bytes.
Variable skip_verify : bool.
Variable secret_of : N -> secret_res.

Theorem unparsable_is_dropped s from d : (forall sec p, parse d sec <> Ok p) ->
  dstep H skip_verify secret_of s (DArrive from d) = (mkd (inflight s) (gs s ++ [GDropped]), ODropped).
Proof.
  intros Hp. cbn [dstep]. unfold decide. destruct (secret_of from) as [|sec]; [reflexivity|].
  destruct (holds _ _); [reflexivity|]. destruct (negb skip_verify && _); [reflexivity|].
  destruct (parse d sec) as [p|e| |] eqn:E; try reflexivity. destruct (Hp sec p E).
Qed.

Theorem handler_sees_parsed_only s from d r :
  snd (dstep H skip_verify secret_of s (DArrive from d)) = ODispatched r ->
  exists sec, secret_of from = Sec sec /\ parse d sec = Ok (r_packet r).
Proof.
  cbn [dstep]. unfold decide. destruct (secret_of from) as [|sec]; [discriminate|].
  destruct (holds _ _); [discriminate|]. destruct (negb skip_verify && _); [discriminate|].
  destruct (parse d sec) as [p|e| |] eqn:E; try discriminate.
  destruct (mem _ _); [discriminate|]. cbn [snd]. intros Hr. inversion Hr. exists sec. split; [reflexivity|exact E].
Qed.
End Srv.

Theorem predicates_safe (Hs : bytes -> bytes) (Hs_len : forall x, length (Hs x) = 16) response request sec :
  is_authentic_response_chk Hs response request sec = Ok (is_authentic_response Hs response request sec) /\
  is_authentic_request_chk Hs request sec = Ok (is_authentic_request Hs request sec).
Proof. split; [eapply is_authentic_response_safe|eapply is_authentic_request_safe]; eauto. Qed.
