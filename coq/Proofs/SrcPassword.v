(* Proofs/SrcPassword.v — NewUserPassword / UserPassword of attribute.go as
   translated (Gen/Src.v) compute RFC 2865 s5.2 (Spec/C04.v with H = MD5), for
   all plaintexts, secrets and authenticators. *)
From Coq Require Import String.
From Radius Require Import Base.Bytes Base.Res Base.GoLite Gen.Src Crypto.MD5 Proofs.SrcBase Proofs.SrcCtx Model.SrcRun Spec.C04 Proofs.SrcXor.
Open Scope list_scope.
Open Scope nat_scope.

Arguments up_blocks : simpl never.
Arguments rfc_up_encrypt : simpl never.
Arguments rfc_up_decrypt : simpl never.

Section NUP.
Variable cx : ctx.
Variables (p sec ra : bytes).
Hypothesis Hp : bytes_ok p.

Definition nup_body : stmt := f_body (fn src_NewUserPassword).

(* the second (per block) xor loop *)
Definition nup_inner : stmt :=
  match nup_body with
  | SSeq _ (SSeq _ (SSeq _ (SSeq _ (SSeq _ (SSeq _ (SSeq _ (SSeq _ (SSeq _ (SSeq _ (SSeq _ (SSeq (SSeq _ (SFor _ _ body)) _))))))))))) =>
    match body with
    | SSeq _ (SSeq _ (SSeq _ (SSeq _ (SSeq _ f)))) => f
    | _ => SSkip
    end
  | _ => SSkip
  end.

Lemma nup_inner_loop n m (c3 c5 c6 : val) base : forall j enc,
  bytes_ok enc -> length enc = base + 16 -> j <= 16 -> 16 - j < m ->
  exists j',
  loop (fun e => eval cx e (for_cond nup_inner)) (exec cx n (for_body nup_inner)) (exec cx n (for_post nup_inner)) m
     [VBytes p; VBytes sec; VBytes ra; c3; VBytes enc; c5; c6; VInt (Z.of_nat base); VInt (Z.of_nat j)] =
  ONorm [VBytes p; VBytes sec; VBytes ra; c3;
         VBytes (firstn (base + j) enc ++ xor_pad (skipn (base + j) enc) (skipn (base + j) (firstn (base + 16) p)));
         c5; c6; VInt (Z.of_nat base); VInt j'].
Proof.
  induction m as [|m IH]; intros j enc Hok Hlen Hj Hm; [lia|].
  loop_step L. cbn [nup_inner nup_body for_cond for_body for_post fn src_NewUserPassword f_body]. go.
  destruct (Nat.eq_dec j 16) as [->|Hne].
  { golia. go. rewrite skipn_all2 by lia. cbn [xor_pad]. rewrite app_nil_r, firstn_all2 by lia. eexists; reflexivity. }
  golia. go.
  destruct (Nat.ltb_spec (base + j) (length p)) as [Hlt|Hge].
  2:{ golia. go. rewrite (@skipn_all2 _ (base + j) (firstn (base + 16) p)) by (rewrite firstn_length; lia).
      rewrite xor_pad_nil_r, firstn_skipn. eexists; reflexivity. }
  golia. go.
  replace (Z.to_nat (Z.of_nat base + Z.of_nat j)) with (base + j) by lia.
  set (e := nth (base + j) enc 0%N). set (q := nth (base + j) p 0%N).
  assert (He : byte_ok e). { unfold bytes_ok in Hok. rewrite Forall_forall in Hok. apply Hok. apply nth_In. lia. }
  assert (Hq : byte_ok q). { unfold bytes_ok in Hp. rewrite Forall_forall in Hp. apply Hp. apply nth_In. lia. }
  rewrite lxor_Z by assumption. pose proof (lxor_byte e q He Hq) as Hx. unfold byte_ok in Hx. golia. go.
  rewrite N2Z.id.
  replace (Z.of_nat j + 1)%Z with (Z.of_nat (S j)) by lia.
  set (enc' := set_nth (base + j) (N.lxor e q) enc).
  assert (Hok' : bytes_ok enc').
  { unfold enc', set_nth. apply bytes_ok_app. split; [apply bytes_ok_firstn; exact Hok|].
    constructor; [exact Hx|]. apply bytes_ok_skipn. exact Hok. }
  assert (Hlen' : length enc' = base + 16) by (unfold enc'; rewrite set_nth_length; lia).
  subst L. destruct (IH (S j) enc' Hok' Hlen' ltac:(lia) ltac:(lia)) as [j' Hj']. exists j'. rewrite Hj'.
  do 2 f_equal.
  assert (Hpp : skipn (base + j) (firstn (base + 16) p) = q :: skipn (S (base + j)) (firstn (base + 16) p)).
  { rewrite (nth_skipn_cons (firstn (base + 16) p) (base + j)) by (rewrite firstn_length; lia).
    f_equal. unfold q. rewrite <- (firstn_skipn (base + 16) p) at 2. rewrite app_nth1 by (rewrite firstn_length; lia). reflexivity. }
  rewrite Hpp. rewrite (nth_skipn_cons enc (base + j)) by lia. fold e. cbn [xor_pad].
  replace (base + S j) with (S (base + j)) by lia.
  unfold enc', set_nth.
  replace (firstn (S (base + j)) (firstn (base + j) enc ++ N.lxor e q :: skipn (S (base + j)) enc))
    with (firstn (base + j) enc ++ [N.lxor e q]).
  2:{ replace (firstn (base + j) enc ++ N.lxor e q :: skipn (S (base + j)) enc)
        with ((firstn (base + j) enc ++ [N.lxor e q]) ++ skipn (S (base + j)) enc) by (rewrite <- app_assoc; reflexivity).
      symmetry. apply firstn_app_exact. rewrite app_length, firstn_length. cbn [length]. lia. }
  replace (skipn (S (base + j)) (firstn (base + j) enc ++ N.lxor e q :: skipn (S (base + j)) enc))
    with (skipn (S (base + j)) enc).
  2:{ replace (firstn (base + j) enc ++ N.lxor e q :: skipn (S (base + j)) enc)
        with ((firstn (base + j) enc ++ [N.lxor e q]) ++ skipn (S (base + j)) enc) by (rewrite <- app_assoc; reflexivity).
      symmetry. apply skipn_app_exact. rewrite app_length, firstn_length. cbn [length]. lia. }
  rewrite <- app_assoc. reflexivity.
Qed.
Definition nup_first : stmt :=
  match nup_body with
  | SSeq _ (SSeq _ (SSeq _ (SSeq _ (SSeq _ (SSeq _ (SSeq _ (SSeq _ (SSeq _ (SSeq _ (SSeq (SSeq _ f) _)))))))))) => f
  | _ => SSkip
  end.

Lemma nup_first_loop n m (c3 c5 c7 c8 : val) : forall j enc,
  bytes_ok enc -> length enc = 16 -> j <= 16 -> 16 - j < m ->
  exists j',
  loop (fun e => eval cx e (for_cond nup_first)) (exec cx n (for_body nup_first)) (exec cx n (for_post nup_first)) m
     [VBytes p; VBytes sec; VBytes ra; c3; VBytes enc; c5; VInt (Z.of_nat j); c7; c8] =
  ONorm [VBytes p; VBytes sec; VBytes ra; c3;
         VBytes (firstn (j) enc ++ xor_pad (skipn (j) enc) (skipn (j) (firstn (16) p)));
         c5; VInt j'; c7; c8].
Proof.
  induction m as [|m IH]; intros j enc Hok Hlen Hj Hm; [lia|].
  loop_step L. cbn [nup_first nup_body for_cond for_body for_post fn src_NewUserPassword f_body]. go.
  destruct (Nat.eq_dec j 16) as [->|Hne].
  { golia. go. rewrite skipn_all2 by lia. cbn [xor_pad]. rewrite app_nil_r, firstn_all2 by lia. eexists; reflexivity. }
  golia. go.
  destruct (Nat.ltb_spec (j) (length p)) as [Hlt|Hge].
  2:{ golia. go. rewrite (@skipn_all2 _ (j) (firstn (16) p)) by (rewrite firstn_length; lia).
      rewrite xor_pad_nil_r, firstn_skipn. eexists; reflexivity. }
  golia. go.
  set (e := nth (j) enc 0%N). set (q := nth (j) p 0%N).
  assert (He : byte_ok e). { unfold bytes_ok in Hok. rewrite Forall_forall in Hok. apply Hok. apply nth_In. lia. }
  assert (Hq : byte_ok q). { unfold bytes_ok in Hp. rewrite Forall_forall in Hp. apply Hp. apply nth_In. lia. }
  rewrite lxor_Z by assumption. pose proof (lxor_byte e q He Hq) as Hx. unfold byte_ok in Hx. golia. go.
  rewrite N2Z.id.
  replace (Z.of_nat j + 1)%Z with (Z.of_nat (S j)) by lia.
  set (enc' := set_nth (j) (N.lxor e q) enc).
  assert (Hok' : bytes_ok enc').
  { unfold enc', set_nth. apply bytes_ok_app. split; [apply bytes_ok_firstn; exact Hok|].
    constructor; [exact Hx|]. apply bytes_ok_skipn. exact Hok. }
  assert (Hlen' : length enc' = 16) by (unfold enc'; rewrite set_nth_length; lia).
  subst L. destruct (IH (S j) enc' Hok' Hlen' ltac:(lia) ltac:(lia)) as [j' Hj']. exists j'. rewrite Hj'.
  do 2 f_equal.
  assert (Hpp : skipn (j) (firstn (16) p) = q :: skipn (S (j)) (firstn (16) p)).
  { rewrite (nth_skipn_cons (firstn (16) p) (j)) by (rewrite firstn_length; lia).
    f_equal. unfold q. rewrite <- (firstn_skipn (16) p) at 2. rewrite app_nth1 by (rewrite firstn_length; lia). reflexivity. }
  rewrite Hpp. rewrite (nth_skipn_cons enc (j)) by lia. fold e. cbn [xor_pad].
  replace (S j) with (S (j)) by lia.
  unfold enc', set_nth.
  replace (firstn (S (j)) (firstn (j) enc ++ N.lxor e q :: skipn (S (j)) enc))
    with (firstn (j) enc ++ [N.lxor e q]).
  2:{ replace (firstn (j) enc ++ N.lxor e q :: skipn (S (j)) enc)
        with ((firstn (j) enc ++ [N.lxor e q]) ++ skipn (S (j)) enc) by (rewrite <- app_assoc; reflexivity).
      symmetry. apply firstn_app_exact. rewrite app_length, firstn_length. cbn [length]. lia. }
  replace (skipn (S (j)) (firstn (j) enc ++ N.lxor e q :: skipn (S (j)) enc))
    with (skipn (S (j)) enc).
  2:{ replace (firstn (j) enc ++ N.lxor e q :: skipn (S (j)) enc)
        with ((firstn (j) enc ++ [N.lxor e q]) ++ skipn (S (j)) enc) by (rewrite <- app_assoc; reflexivity).
      symmetry. apply skipn_app_exact. rewrite app_length, firstn_length. cbn [length]. lia. }
  rewrite <- app_assoc. reflexivity.
Qed.
Definition nup_outer : stmt :=
  match nup_body with
  | SSeq _ (SSeq _ (SSeq _ (SSeq _ (SSeq _ (SSeq _ (SSeq _ (SSeq _ (SSeq _ (SSeq _ (SSeq _ (SSeq (SSeq _ f) _))))))))))) => f
  | _ => SSkip
  end.

Definition rem_blocks (len i : nat) : nat := (len - i + 15) / 16.
Arguments rem_blocks : simpl never.

Lemma nup_inner_is_for : match nup_inner with SFor _ _ _ => True | _ => False end.
Proof. exact I. Qed.

Lemma nup_outer_loop n m (c3 c6 : val) : 16 < n -> forall i enc c5 c8,
  bytes_ok enc -> length enc = i -> 16 <= i -> length p - i < m ->
  exists c5' i' c8',
  loop (fun e => eval cx e (for_cond nup_outer)) (exec cx n (for_body nup_outer)) (exec cx n (for_post nup_outer)) m
     [VBytes p; VBytes sec; VBytes ra; c3; VBytes enc; c5; c6; VInt (Z.of_nat i); c8] =
  ONorm [VBytes p; VBytes sec; VBytes ra; c3;
         VBytes (enc ++ rfc_up_enc md5 (rem_blocks (length p) i) sec (skipn (i - 16) enc) (skipn i p));
         c5'; c6; VInt i'; c8'].
Proof.
  intros Hn. induction m as [|m IH]; intros i enc c5 c8 Hok Hlen Hi Hm; [lia|].
  loop_step L. cbn [nup_outer nup_body for_cond for_body for_post fn src_NewUserPassword f_body].
  fold_for nup_inner. remember nup_inner as F eqn:HF. go.
  destruct (Nat.ltb_spec i (length p)) as [Hlt|Hge].
  2:{ golia. go. unfold rem_blocks. replace (length p - i + 15) with 15 by lia. cbn [Nat.div Nat.divmod fst rfc_up_enc].
      rewrite app_nil_r. do 3 eexists. reflexivity. }
  golia. go.
  replace (Z.to_nat (Z.of_nat i - 16)) with (i - 16) by lia.
  replace (i - (i - 16)) with 16 by lia.
  set (prev := skipn (i - 16) enc).
  rewrite (@firstn_all2 _ 16 prev) by (unfold prev; rewrite skipn_length; lia).
  set (h := md5 (sec ++ prev)).
  assert (Lh : length h = 16) by apply md5_length.
  assert (Hok2 : bytes_ok (enc ++ h)) by (apply bytes_ok_app; split; [exact Hok|apply md5_ok]).
  subst F. rewrite exec_for by exact nup_inner_is_for.
  destruct (nup_inner_loop n n c3 (VBytes (sec ++ prev)) c6 i 0 (enc ++ h) Hok2 ltac:(rewrite app_length; lia) ltac:(lia) ltac:(lia)) as [j' Hj'].
  change (Z.of_nat 0) with 0%Z in Hj'. rewrite Hj'. rewrite Nat.add_0_r. go.
  (* the new block *)
  rewrite firstn_app_exact by lia. rewrite skipn_app_exact by lia.
  replace (skipn i (firstn (i + 16) p)) with (firstn 16 (skipn i p)) by (rewrite firstn_skipn_comm; reflexivity).
  set (c := xor_pad h (firstn 16 (skipn i p))).
  assert (Lc : length c = 16) by (unfold c; rewrite xor_pad_length; exact Lh).
  assert (Hokc : bytes_ok (enc ++ c)).
  { apply bytes_ok_app; split; [exact Hok|]. unfold c. apply xor_pad_ok; [apply md5_ok|apply bytes_ok_firstn, bytes_ok_skipn, Hp]. }
  replace (Z.of_nat i + 16)%Z with (Z.of_nat (i + 16)) by lia.
  subst L. destruct (IH (i + 16) (enc ++ c) (VBytes (sec ++ prev)) (VInt j') Hokc ltac:(rewrite app_length; lia) ltac:(lia) ltac:(lia)) as [c5' [i' [c8' H]]].
  exists c5', i', c8'. rewrite H. do 5 f_equal.
  (* one more block of the RFC recursion *)
  assert (Hr : rem_blocks (length p) i = S (rem_blocks (length p) (i + 16))).
  { unfold rem_blocks. lia. }
  rewrite Hr. cbn [rfc_up_enc]. fold prev. fold h. fold c.
  replace (i + 16 - 16) with i by lia. rewrite skipn_app_exact by lia.
  replace (skipn (i + 16) p) with (skipn 16 (skipn i p)).
  2:{ apply skipn_skipn_pw. }
  rewrite <- app_assoc. reflexivity.
Qed.
Lemma nup_first_is_for : match nup_first with SFor _ _ _ => True | _ => False end.
Proof. exact I. Qed.
Lemma nup_outer_is_for : match nup_outer with SFor _ _ _ => True | _ => False end.
Proof. exact I. Qed.

Theorem src_NewUserPassword_spec n : 16 < n -> length p < n ->
  run cx n (fn src_NewUserPassword) [VBytes p; VBytes sec; VBytes ra] =
  Some (Some (ret_res (spec_new_user_password md5 p sec ra) VBytes VNil)).
Proof.
  intros Hn Hlp. unfold run, spec_new_user_password, ret_res.
  cbn [fn src_NewUserPassword f_body f_params f_locals].
  (* name the three loops so that evaluation stops in front of them *)
  match goal with |- context[SFor ?c ?q ?b] =>
    match b with context[SFor _ _ _] => change (SFor c q b) with nup_outer end end.
  remember nup_outer as FO eqn:HFO.
  fold_for nup_first. remember nup_first as F1 eqn:HF1.
  go. gocase; go.
  { replace (128 <? length p) with true by lia. reflexivity. }
  replace (128 <? length p) with false by lia. gocase; go.
  { replace (length sec =? 0) with true by lia. reflexivity. }
  replace (length sec =? 0) with false by lia. gocase; go.
  2:{ replace (length ra =? 16) with false by lia. reflexivity. }
  replace (length ra =? 16) with true by lia. cbn [negb orb].
  set (h := md5 (sec ++ ra)).
  assert (Lh : length h = 16) by apply md5_length.
  assert (Hokh : bytes_ok h) by apply md5_ok.
  assert (Hblocks : up_blocks (length p) = S (rem_blocks (length p) 16)).
  { unfold up_blocks, rem_blocks. lia. }
  match goal with |- context[if ?c then _ else _] => destruct c end; go; fold h;
  ( subst F1; rewrite exec_for by exact nup_first_is_for;
    match goal with |- context[loop _ _ _ n [_; _; _; ?c3; _; ?c5; _; ?c7; ?c8]] =>
      destruct (nup_first_loop n n c3 c5 c7 c8 0 h Hokh Lh ltac:(lia) ltac:(lia)) as [j' Hj'] end;
    change (Z.of_nat 0) with 0%Z in Hj'; rewrite Hj'; gonorm; go;
    subst FO; rewrite exec_for by exact nup_outer_is_for;
    set (c1 := xor_pad h (firstn 16 p));
    assert (Lc1 : length c1 = 16) by (unfold c1; rewrite xor_pad_length; exact Lh);
    assert (Hok1 : bytes_ok c1) by (unfold c1; apply xor_pad_ok; [exact Hokh|apply bytes_ok_firstn, Hp]);
    match goal with |- context[loop _ _ _ n [_; _; _; ?c3; _; ?c5; ?c6; _; ?c8]] =>
      destruct (nup_outer_loop n n c3 c6 Hn 16 c1 c5 c8 Hok1 Lc1 ltac:(lia) ltac:(lia)) as [c5' [i' [c8' Ho]]] end;
    change (Z.of_nat 16) with 16%Z in Ho; rewrite Ho; go;
    unfold rfc_up_encrypt; rewrite Hblocks; cbn [rfc_up_enc]; fold h; fold c1;
    rewrite ?Nat.sub_diag; gonorm; reflexivity ).
Qed.
End NUP.

(* ---------- UserPassword (decoder) ---------- *)
Section UP.
Variable cx : ctx.
Variables (a sec ra : bytes).
Hypothesis Ha : bytes_ok a.

Definition up_body : stmt := f_body (fn src_UserPassword).

Definition up_first : stmt :=
  match up_body with
  | SSeq _ (SSeq _ (SSeq _ (SSeq _ (SSeq _ (SSeq _ (SSeq _ (SSeq _ (SSeq (SSeq _ (SSeq _ f)) _)))))))) => f
  | _ => SSkip
  end.
Definition up_outer : stmt :=
  match up_body with
  | SSeq _ (SSeq _ (SSeq _ (SSeq _ (SSeq _ (SSeq _ (SSeq _ (SSeq _ (SSeq _ (SSeq (SSeq _ f) _))))))))) => f
  | _ => SSkip
  end.
Definition up_inner : stmt :=
  match for_body up_outer with
  | SSeq _ (SSeq _ (SSeq _ (SSeq _ (SSeq _ (SSeq _ f))))) => f
  | _ => SSkip
  end.

Lemma up_inner_loop n m (c4 c5 c6 c7 c8 c14 : val) base blk : bytes_ok blk -> length blk = 16 ->
  forall j dec c12 c13,
  bytes_ok dec -> length dec = base + 16 -> j <= 16 -> 16 - j < m ->
  exists j' c12' c13',
  loop (fun e => eval cx e (for_cond up_inner)) (exec cx n (for_body up_inner)) (exec cx n (for_post up_inner)) m
     [VBytes a; VBytes sec; VBytes ra; VBytes dec; c4; c5; c6; c7; c8; VInt (Z.of_nat base); VBytes blk; VInt (Z.of_nat j); c12; c13; c14] =
  ONorm [VBytes a; VBytes sec; VBytes ra;
         VBytes (firstn (base + j) dec ++ xor_pad (skipn (base + j) dec) (skipn j blk));
         c4; c5; c6; c7; c8; VInt (Z.of_nat base); VBytes blk; VInt j'; c12'; c13'; c14].
Proof.
  intros Hokb Lb. induction m as [|m IH]; intros j dec c12 c13 Hok Hlen Hj Hm; [lia|].
  loop_step L. cbn [up_inner up_outer up_body for_cond for_body for_post fn src_UserPassword f_body]. go.
  destruct (Nat.eq_dec j 16) as [->|Hne].
  { golia. go. rewrite skipn_all2 by lia. cbn [xor_pad]. rewrite app_nil_r, firstn_all2 by lia. do 3 eexists; reflexivity. }
  golia. go.
  replace (Z.to_nat (Z.of_nat base + Z.of_nat j)) with (base + j) by lia.
  set (e := nth (base + j) dec 0%N). set (q := nth j blk 0%N).
  assert (He : byte_ok e). { unfold bytes_ok in Hok. rewrite Forall_forall in Hok. apply Hok. apply nth_In. lia. }
  assert (Hq : byte_ok q). { unfold bytes_ok in Hokb. rewrite Forall_forall in Hokb. apply Hokb. apply nth_In. lia. }
  rewrite lxor_Z by assumption. pose proof (lxor_byte e q He Hq) as Hx. unfold byte_ok in Hx. golia. go.
  rewrite N2Z.id.
  replace (Z.of_nat j + 1)%Z with (Z.of_nat (S j)) by lia.
  set (dec' := set_nth (base + j) (N.lxor e q) dec).
  assert (Hok' : bytes_ok dec').
  { unfold dec', set_nth. apply bytes_ok_app. split; [apply bytes_ok_firstn; exact Hok|].
    constructor; [exact Hx|]. apply bytes_ok_skipn. exact Hok. }
  assert (Hlen' : length dec' = base + 16) by (unfold dec'; rewrite set_nth_length; lia).
  subst L. destruct (IH (S j) dec' (VInt (Z.of_nat j)) (VInt (Z.of_N q)) Hok' Hlen' ltac:(lia) ltac:(lia)) as [j' [c12' [c13' Hj']]].
  exists j', c12', c13'. rewrite Hj'. do 2 f_equal.
  rewrite (nth_skipn_cons blk j) by lia. fold q.
  rewrite (nth_skipn_cons dec (base + j)) by lia. fold e. cbn [xor_pad].
  replace (base + S j) with (S (base + j)) by lia.
  unfold dec', set_nth.
  replace (firstn (S (base + j)) (firstn (base + j) dec ++ N.lxor e q :: skipn (S (base + j)) dec))
    with (firstn (base + j) dec ++ [N.lxor e q]).
  2:{ replace (firstn (base + j) dec ++ N.lxor e q :: skipn (S (base + j)) dec)
        with ((firstn (base + j) dec ++ [N.lxor e q]) ++ skipn (S (base + j)) dec) by (rewrite <- app_assoc; reflexivity).
      symmetry. apply firstn_app_exact. rewrite app_length, firstn_length. cbn [length]. lia. }
  replace (skipn (S (base + j)) (firstn (base + j) dec ++ N.lxor e q :: skipn (S (base + j)) dec))
    with (skipn (S (base + j)) dec).
  2:{ replace (firstn (base + j) dec ++ N.lxor e q :: skipn (S (base + j)) dec)
        with ((firstn (base + j) dec ++ [N.lxor e q]) ++ skipn (S (base + j)) dec) by (rewrite <- app_assoc; reflexivity).
      symmetry. apply skipn_app_exact. rewrite app_length, firstn_length. cbn [length]. lia. }
  rewrite <- app_assoc. reflexivity.
Qed.
Lemma up_first_loop n m (c4 c9 c10 c11 c12 c13 c14 : val) blk : bytes_ok blk -> length blk = 16 ->
  forall j dec c7 c8,
  bytes_ok dec -> length dec = 16 -> j <= 16 -> 16 - j < m ->
  exists j' c12' c13',
  loop (fun e => eval cx e (for_cond up_first)) (exec cx n (for_body up_first)) (exec cx n (for_post up_first)) m
     [VBytes a; VBytes sec; VBytes ra; VBytes dec; c4; VBytes blk; VInt (Z.of_nat j); c7; c8; c9; c10; c11; c12; c13; c14] =
  ONorm [VBytes a; VBytes sec; VBytes ra;
         VBytes (firstn (j) dec ++ xor_pad (skipn (j) dec) (skipn j blk));
         c4; VBytes blk; VInt j'; c12'; c13'; c9; c10; c11; c12; c13; c14].
Proof.
  intros Hokb Lb. induction m as [|m IH]; intros j dec c7 c8 Hok Hlen Hj Hm; [lia|].
  loop_step L. cbn [up_first up_body for_cond for_body for_post fn src_UserPassword f_body]. go.
  destruct (Nat.eq_dec j 16) as [->|Hne].
  { golia. go. rewrite skipn_all2 by lia. cbn [xor_pad]. rewrite app_nil_r, firstn_all2 by lia. do 3 eexists; reflexivity. }
  golia. go.
  set (e := nth (j) dec 0%N). set (q := nth j blk 0%N).
  assert (He : byte_ok e). { unfold bytes_ok in Hok. rewrite Forall_forall in Hok. apply Hok. apply nth_In. lia. }
  assert (Hq : byte_ok q). { unfold bytes_ok in Hokb. rewrite Forall_forall in Hokb. apply Hokb. apply nth_In. lia. }
  rewrite lxor_Z by assumption. pose proof (lxor_byte e q He Hq) as Hx. unfold byte_ok in Hx. golia. go.
  rewrite N2Z.id.
  replace (Z.of_nat j + 1)%Z with (Z.of_nat (S j)) by lia.
  set (dec' := set_nth (j) (N.lxor e q) dec).
  assert (Hok' : bytes_ok dec').
  { unfold dec', set_nth. apply bytes_ok_app. split; [apply bytes_ok_firstn; exact Hok|].
    constructor; [exact Hx|]. apply bytes_ok_skipn. exact Hok. }
  assert (Hlen' : length dec' = 16) by (unfold dec'; rewrite set_nth_length; lia).
  subst L. destruct (IH (S j) dec' (VInt (Z.of_nat j)) (VInt (Z.of_N q)) Hok' Hlen' ltac:(lia) ltac:(lia)) as [j' [c12' [c13' Hj']]].
  exists j', c12', c13'. rewrite Hj'. do 2 f_equal.
  rewrite (nth_skipn_cons blk j) by lia. fold q.
  rewrite (nth_skipn_cons dec (j)) by lia. fold e. cbn [xor_pad].
  replace (S j) with (S (j)) by lia.
  unfold dec', set_nth.
  replace (firstn (S (j)) (firstn (j) dec ++ N.lxor e q :: skipn (S (j)) dec))
    with (firstn (j) dec ++ [N.lxor e q]).
  2:{ replace (firstn (j) dec ++ N.lxor e q :: skipn (S (j)) dec)
        with ((firstn (j) dec ++ [N.lxor e q]) ++ skipn (S (j)) dec) by (rewrite <- app_assoc; reflexivity).
      symmetry. apply firstn_app_exact. rewrite app_length, firstn_length. cbn [length]. lia. }
  replace (skipn (S (j)) (firstn (j) dec ++ N.lxor e q :: skipn (S (j)) dec))
    with (skipn (S (j)) dec).
  2:{ replace (firstn (j) dec ++ N.lxor e q :: skipn (S (j)) dec)
        with ((firstn (j) dec ++ [N.lxor e q]) ++ skipn (S (j)) dec) by (rewrite <- app_assoc; reflexivity).
      symmetry. apply skipn_app_exact. rewrite app_length, firstn_length. cbn [length]. lia. }
  rewrite <- app_assoc. reflexivity.
Qed.
Definition dec_blocks (len i : nat) : nat := (len - i) / 16.
Arguments dec_blocks : simpl never.

Lemma up_inner_is_for : match up_inner with SFor _ _ _ => True | _ => False end.
Proof. exact I. Qed.

Lemma up_outer_loop n m (c5 c6 c7 c8 c14 : val) : 16 < n -> length a mod 16 = 0 -> forall i dec c4 c10 c11 c12 c13,
  bytes_ok dec -> length dec = i -> 16 <= i -> i <= length a -> i mod 16 = 0 -> length a - i < m ->
  exists c4' i' c10' c11' c12' c13',
  loop (fun e => eval cx e (for_cond up_outer)) (exec cx n (for_body up_outer)) (exec cx n (for_post up_outer)) m
     [VBytes a; VBytes sec; VBytes ra; VBytes dec; c4; c5; c6; c7; c8; VInt (Z.of_nat i); c10; c11; c12; c13; c14] =
  ONorm [VBytes a; VBytes sec; VBytes ra;
         VBytes (dec ++ rfc_up_dec md5 (dec_blocks (length a) i) sec (firstn 16 (skipn (i - 16) a)) (skipn i a));
         c4'; c5; c6; c7; c8; VInt i'; c10'; c11'; c12'; c13'; c14].
Proof.
  intros Hn Hmod. induction m as [|m IH]; intros i dec c4 c10 c11 c12 c13 Hok Hlen Hi Hia Him Hm; [lia|].
  loop_step L. cbn [up_outer up_body for_cond for_body for_post fn src_UserPassword f_body].
  fold_for up_inner. remember up_inner as F eqn:HF. go.
  destruct (Nat.eq_dec i (length a)) as [->|Hne].
  { golia. go. replace (dec_blocks (length a) (length a)) with 0 by (unfold dec_blocks; lia). cbn [rfc_up_dec]. rewrite app_nil_r. do 6 eexists. reflexivity. }
  assert (Hi16 : i + 16 <= length a) by lia.
  golia. go.
  replace (Z.to_nat (Z.of_nat i - 16)) with (i - 16) by lia.
  replace (i - (i - 16)) with 16 by lia.
  replace (Z.to_nat (Z.of_nat i + 16) - i) with 16 by lia.
  set (prev := firstn 16 (skipn (i - 16) a)).
  set (blk := firstn 16 (skipn i a)).
  set (h := md5 (sec ++ prev)).
  assert (Lh : length h = 16) by apply md5_length.
  assert (Lb : length blk = 16) by (unfold blk; rewrite firstn_length, skipn_length; lia).
  assert (Hokb : bytes_ok blk) by (unfold blk; apply bytes_ok_firstn, bytes_ok_skipn, Ha).
  assert (Hok2 : bytes_ok (dec ++ h)) by (apply bytes_ok_app; split; [exact Hok|apply md5_ok]).
  subst F. rewrite exec_for by exact up_inner_is_for.
  match goal with |- context[loop _ _ _ n [_; _; _; _; ?d4; _; _; _; _; _; _; _; ?d12; ?d13; _]] =>
    destruct (up_inner_loop n n d4 c5 c6 c7 c8 c14 i blk Hokb Lb 0 (dec ++ h) d12 d13 Hok2 ltac:(rewrite app_length; lia) ltac:(lia) ltac:(lia))
      as [j' [c12' [c13' Hj']]] end.
  change (Z.of_nat 0) with 0%Z in Hj'. rewrite Hj'. rewrite Nat.add_0_r. go.
  rewrite firstn_app_exact by lia. rewrite skipn_app_exact by lia. gonorm.
  set (c := xor_pad h blk).
  assert (Lc : length c = 16) by (unfold c; rewrite xor_pad_length; exact Lh).
  assert (Hokc : bytes_ok (dec ++ c)).
  { apply bytes_ok_app; split; [exact Hok|]. unfold c. apply xor_pad_ok; [apply md5_ok|exact Hokb]. }
  replace (Z.of_nat i + 16)%Z with (Z.of_nat (i + 16)) by lia.
  subst L.
  match goal with |- context[loop _ _ _ m [_; _; _; _; ?d4; _; _; _; _; _; ?d10; ?d11; ?d12; ?d13; _]] =>
    destruct (IH (i + 16) (dec ++ c) d4 d10 d11 d12 d13 Hokc ltac:(rewrite app_length; lia) ltac:(lia) ltac:(lia) ltac:(lia) ltac:(lia))
      as [c4' [i' [c10' [c11' [c12'' [c13'' H]]]]]] end.
  exists c4', i', c10', c11', c12'', c13''. rewrite H. do 2 f_equal.
  assert (Hr : dec_blocks (length a) i = S (dec_blocks (length a) (i + 16))) by (unfold dec_blocks; lia).
  rewrite Hr. cbn [rfc_up_dec]. fold prev. fold blk. fold h. fold c.
  replace (i + 16 - 16) with i by lia. fold blk.
  replace (skipn (i + 16) a) with (skipn 16 (skipn i a)) by apply skipn_skipn_pw.
  rewrite <- app_assoc. reflexivity.
Qed.
Lemma index_byte_nul l : forall acc, (0 <= acc)%Z ->
  (index_byte l 0%N acc = (-1)%Z /\ take_until_nul l = l) \/
  (exists k, index_byte l 0%N acc = (acc + Z.of_nat k)%Z /\ k <= length l /\ firstn k l = take_until_nul l).
Proof.
  induction l as [|x l IH]; intros acc Hacc; [left; split; reflexivity|].
  cbn [index_byte take_until_nul]. destruct (x =? 0)%N eqn:E.
  - right. exists 0. repeat split; [lia | cbn [length]; lia].
  - destruct (IH (acc + 1)%Z ltac:(lia)) as [[H1 H2]|[k [H1 [H2 H3]]]].
    + left. split; [exact H1|]. rewrite H2. reflexivity.
    + right. exists (S k). repeat split; [lia | cbn [length]; lia |]. cbn [firstn]. rewrite H3. reflexivity.
Qed.

Lemma up_first_is_for : match up_first with SFor _ _ _ => True | _ => False end.
Proof. exact I. Qed.
Lemma up_outer_is_for : match up_outer with SFor _ _ _ => True | _ => False end.
Proof. exact I. Qed.

Theorem src_UserPassword_spec n : 16 < n -> length a < n ->
  run cx n (fn src_UserPassword) [VBytes a; VBytes sec; VBytes ra] =
  Some (Some (ret_res (spec_user_password md5 a sec ra) VBytes VNil)).
Proof.
  intros Hn Hla. unfold run, spec_user_password, ret_res.
  remember ((length a <? 16) || (128 <? length a) || negb (length a mod 16 =? 0) || (length sec =? 0) || negb (length ra =? 16)) as bad eqn:Hbad.
  cbn [fn src_UserPassword f_body f_params f_locals].
  match goal with |- context[SFor ?c ?q ?b] =>
    match b with context[SFor _ _ _] => change (SFor c q b) with up_outer end end.
  remember up_outer as FO eqn:HFO.
  fold_for up_first. remember up_first as F1 eqn:HF1.
  go.
  destruct (Z.of_nat (length a) <? 16)%Z eqn:E1; go.
  { replace bad with true by (subst bad; lia). reflexivity. }
  destruct (Z.of_nat (length a) >? 128)%Z eqn:E2; go.
  { replace bad with true by (subst bad; lia). reflexivity. }
  rewrite Z.rem_mod_nonneg by lia.
  destruct (Z.of_nat (length a) mod 16 =? 0)%Z eqn:E3; go.
  2:{ replace bad with true by (subst bad; lia). reflexivity. }
  gocase; go.
  { replace bad with true by (subst bad; lia). reflexivity. }
  gocase; go.
  2:{ replace bad with true by (subst bad; lia). reflexivity. }
  replace bad with false by (subst bad; lia).
  assert (Hmod : length a mod 16 = 0) by lia.
  set (h := md5 (sec ++ ra)).
  assert (Lh : length h = 16) by apply md5_length.
  assert (Hokh : bytes_ok h) by apply md5_ok.
  set (blk := firstn 16 a).
  assert (Lb : length blk = 16) by (unfold blk; rewrite firstn_length; lia).
  assert (Hokb : bytes_ok blk) by (unfold blk; apply bytes_ok_firstn, Ha).
  subst F1. rewrite exec_for by exact up_first_is_for.
  destruct (up_first_loop n n (VBytes (sec ++ ra)) VNil VNil VNil VNil VNil VNil blk Hokb Lb 0 h VNil VNil Hokh Lh ltac:(lia) ltac:(lia))
    as [j' [c7' [c8' Hj']]].
  change (Z.of_nat 0) with 0%Z in Hj'. rewrite Hj'. gonorm. go.
  set (c1 := xor_pad h blk).
  assert (Lc1 : length c1 = 16) by (unfold c1; rewrite xor_pad_length; exact Lh).
  assert (Hok1 : bytes_ok c1) by (unfold c1; apply xor_pad_ok; assumption).
  subst FO. rewrite exec_for by exact up_outer_is_for.
  destruct (up_outer_loop n n (VBytes blk) (VInt j') c7' c8' VNil Hn Hmod 16 c1 (VBytes (sec ++ ra)) VNil VNil VNil VNil
              Hok1 Lc1 ltac:(lia) ltac:(lia) ltac:(reflexivity) ltac:(lia))
    as [c4' [i' [c10' [c11' [c12' [c13' Ho]]]]]].
  change (Z.of_nat 16) with 16%Z in Ho. rewrite Ho. go.
  (* the whole plaintext, then the cut at the first NUL *)
  set (full := c1 ++ rfc_up_dec md5 (dec_blocks (length a) 16) sec (firstn 16 a) (skipn 16 a)).
  assert (Hfull : full = rfc_up_dec md5 (length a / 16) sec ra a).
  { unfold full. replace (length a / 16) with (S (dec_blocks (length a) 16)) by (unfold dec_blocks; lia).
    cbn [rfc_up_dec]. fold h. fold blk. fold c1. reflexivity. }
  change (Z.to_N 0) with 0%N.
  unfold rfc_up_decrypt. rewrite <- Hfull.
  destruct (index_byte_nul full 0%Z ltac:(lia)) as [[H1 H2]|[k [H1 [H2 H3]]]].
  - rewrite H1. go. rewrite H2. reflexivity.
  - rewrite H1. rewrite Z.add_0_l. golia. go. rewrite Nat.sub_0_r. rewrite H3. reflexivity.
Qed.
End UP.
