(* Proofs/Helpers.v — laws of the generated helper families (C12). *)
From Radius Require Import Base.Bytes Base.Guard Base.Res Gen.Consts Model.Attrs Model.Packet
  Model.Codecs Model.Passwords Model.Vendor Model.Helpers.
From Coq Require Import ZifyBool ZifyNat ZifyN.
Open Scope nat_scope.

Lemma h_raw_attrs d p p' : pattrs p = pattrs p' -> h_raw d p = h_raw d p'.
Proof. unfold h_raw. intros ->. reflexivity. Qed.
