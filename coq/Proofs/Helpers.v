(* Proofs/Helpers.v — laws of the generated helper families (C12), for every
   descriptor, every packet and every value: a storage layer (what Set/Add/Del do
   to the values a helper sees, and to those every other helper sees) and a codec
   layer (decoding what was encoded gives the value back, with its tag). *)
From Radius Require Import Base.Bytes Base.Guard Base.Res Gen.Consts Model.Attrs Model.Packet
  Model.Codecs Model.Passwords Model.Vendor Model.Helpers
  Spec.C04 Spec.C09 Spec.C10 Spec.C11 Proofs.Guards Proofs.AttrsList Proofs.Codecs Proofs.Prefix
  Proofs.UserPassword Proofs.TunnelPassword Proofs.Vendor Spec.C01 Proofs.AttrsWire Proofs.PacketWire.
From Coq Require Import ZifyBool ZifyNat ZifyN.
Open Scope nat_scope.

Lemma h_raw_attrs d p p' : pattrs p = pattrs p' -> h_raw d p = h_raw d p'.
Proof. unfold h_raw. intros ->. reflexivity. Qed.

(* ---- storage layer, plain attributes ---- *)
Definition vals (k : Z) (l : attrs) : list bytes := map aval (filter (is_key k) l).

Lemma filter_is_key_del k l : filter (is_key k) (spec_del k l) = [].
Proof.
  unfold spec_del. induction l as [|a l IH]; [reflexivity|]. cbn [filter]. unfold not_key at 1.
  destruct (atype a =? k)%Z eqn:E; cbn [negb]; [exact IH|]. cbn [filter]. unfold is_key at 1. rewrite E. exact IH.
Qed.

Lemma vals_set k v l : vals k (spec_set k v l) = [v].
Proof.
  unfold vals. induction l as [|a l IH]; cbn [spec_set].
  - cbn [filter]. unfold is_key. cbn [atype]. rewrite Z.eqb_refl. reflexivity.
  - destruct (is_key k a) eqn:E.
    + cbn [filter]. unfold is_key at 1. cbn [atype]. rewrite Z.eqb_refl, filter_is_key_del. reflexivity.
    + cbn [filter]. rewrite E. exact IH.
Qed.
Lemma vals_add k v l : vals k (spec_add k v l) = vals k l ++ [v].
Proof.
  unfold vals, spec_add. rewrite filter_app, map_app. cbn [filter]. unfold is_key at 2. cbn [atype].
  rewrite Z.eqb_refl. reflexivity.
Qed.
Lemma vals_del k l : vals k (spec_del k l) = [].
Proof. unfold vals. rewrite filter_is_key_del. reflexivity. Qed.

Lemma vals_set_other j k v l : j <> k -> vals j (spec_set k v l) = vals j l.
Proof.
  intros Hne. unfold vals. f_equal.
  rewrite <- (filter_is_key_of_not j k (spec_set k v l) Hne), spec_set_others.
  apply filter_is_key_of_not, Hne.
Qed.
Lemma vals_add_other j k v l : j <> k -> vals j (spec_add k v l) = vals j l.
Proof.
  intros Hne. unfold vals. f_equal.
  rewrite <- (filter_is_key_of_not j k (spec_add k v l) Hne), spec_add_others.
  apply filter_is_key_of_not, Hne.
Qed.
Lemma vals_del_other j k l : j <> k -> vals j (spec_del k l) = vals j l.
Proof. intros Hne. unfold vals, spec_del. f_equal. apply filter_is_key_of_not, Hne. Qed.

(* the vendor helpers only look at Vendor-Specific attributes *)
Lemma gets_vendor_only_vsa vid typ l : gets_vendor vid typ l = gets_vendor vid typ (filter (is_key VSA_TYPE) l).
Proof.
  induction l as [|a l IH]; [reflexivity|]. cbn [filter]. unfold is_key at 1.
  destruct (atype a =? VSA_TYPE)%Z eqn:E.
  - rewrite !gets_vendor_cons, IH. reflexivity.
  - rewrite gets_vendor_cons, IH. unfold gets_one, vsa_payload. rewrite E. reflexivity.
Qed.
Lemma gets_vendor_same_vsa vid typ l l' : filter (is_key VSA_TYPE) l = filter (is_key VSA_TYPE) l' ->
  gets_vendor vid typ l = gets_vendor vid typ l'.
Proof. intros E. rewrite (gets_vendor_only_vsa vid typ l), (gets_vendor_only_vsa vid typ l'), E. reflexivity. Qed.

(* ... and leave every other attribute where it is *)
Lemma view_not_vsa vid typ a : (atype a =? VSA_TYPE)%Z = false -> view vid typ a = [a].
Proof. intros E. unfold view, vsa_payload. rewrite E. reflexivity. Qed.
Lemma view_is_vsa vid typ a x : In x (view vid typ a) -> (atype a =? VSA_TYPE)%Z = true -> (atype x =? VSA_TYPE)%Z = true.
Proof.
  unfold view. destruct (vsa_payload vid a) eqn:E.
  - destruct (snd (strip typ b)); [intros []|]. intros [<-|[]] H. exact H.
  - intros [<-|[]] H. exact H.
Qed.
Lemma vals_view vid typ k l : k <> VSA_TYPE -> vals k (flat_map (view vid typ) l) = vals k l.
Proof.
  intros Hne. unfold vals. f_equal. induction l as [|a l IH]; [reflexivity|].
  cbn [flat_map]. rewrite filter_app, IH. cbn [filter].
  destruct (atype a =? VSA_TYPE)%Z eqn:E.
  - assert (Hk : is_key k a = false) by (unfold is_key; lia). rewrite Hk.
    assert (Hn : filter (is_key k) (view vid typ a) = []).
    { pose proof (view_is_vsa vid typ a) as Hv. induction (view vid typ a) as [|x xs IHx]; [reflexivity|].
      cbn [filter]. assert (Hx : is_key k x = false).
      { specialize (Hv x (or_introl eq_refl) E). unfold is_key. lia. }
      rewrite Hx. apply IHx. intros y Hy. apply Hv. right. exact Hy. }
    rewrite Hn. reflexivity.
  - rewrite (view_not_vsa vid typ a E). cbn [filter]. destruct (is_key k a); reflexivity.
Qed.

(* ---- storage layer, helpers ---- *)
Definition raw_of (d : hdesc) (l : attrs) : list bytes :=
  match h_vendor d with
  | Some vid => gets_vendor vid (Z.to_N (h_type d)) l
  | None => vals (h_type d) l
  end.
Lemma h_raw_eq d p : h_raw d p = raw_of d (pattrs p).
Proof. reflexivity. Qed.

(* two helpers that do not address the same values *)
Definition distinct (d d' : hdesc) : Prop :=
  match h_vendor d, h_vendor d' with
  | None, None => h_type d <> h_type d'
  | Some v, Some v' => (v', Z.to_N (h_type d')) <> (v, Z.to_N (h_type d))
  | None, Some _ => h_type d <> VSA_TYPE
  | Some _, None => h_type d' <> VSA_TYPE
  end.
Definition is_concat (d : hdesc) : bool := match h_kind d with KConcat => true | _ => false end.
(* what the generator guarantees of a descriptor: vendor ids are uint32 constants,
   and it refuses concat for vendor attributes *)
Definition wfd (d : hdesc) : Prop :=
  match h_vendor d with Some vid => (vid < 4294967296)%N /\ is_concat d = false | None => True end.

Definition same_header (p p' : packet) : Prop :=
  code p' = code p /\ ident p' = ident p /\ auth p' = auth p /\ secret p' = secret p.

(* the attribute list after a successful store of the wire value [a] *)
Definition stored_set (d : hdesc) (a : bytes) (l : attrs) : res attrs :=
  if is_concat d then Ok (spec_del (h_type d) l ++ map (mkavp (h_type d)) (chunks (S (length a)) a))
  else match h_vendor d with
       | Some vid => set_vendor vid (Z.to_N (h_type d)) a l
       | None => Ok (spec_set (h_type d) a l)
       end.
Definition stored_add (d : hdesc) (a : bytes) (l : attrs) : res attrs :=
  match h_vendor d with
  | Some vid => add_vendor vid (Z.to_N (h_type d)) a l
  | None => Ok (spec_add (h_type d) a l)
  end.
Definition stored_del (d : hdesc) (l : attrs) : attrs :=
  match h_vendor d with
  | Some vid => del_vendor vid (Z.to_N (h_type d)) l
  | None => spec_del (h_type d) l
  end.

Section Store.
Variable Hs : bytes -> bytes.

Lemma h_set_inv d p salt tag v p' : h_set Hs d p salt tag v = Ok p' ->
  exists a, h_encode Hs d p salt tag v = Ok a /\ stored_set d a (pattrs p) = Ok (pattrs p') /\ same_header p p'.
Proof.
  unfold h_set, stored_set, is_concat. destruct (h_encode Hs d p salt tag v) as [a|e| |]; cbn [bind]; try discriminate.
  intros H. exists a. split; [reflexivity|].
  destruct (h_kind d); destruct (h_vendor d) as [vid|];
    rewrite ?del_spec, ?set_spec in H; cbn [bind] in H;
    try (destruct (set_vendor vid (Z.to_N (h_type d)) a (pattrs p)) as [l'|e| |]; cbn [bind] in H; try discriminate);
    apply Ok_inj in H; subst p'; cbn [pattrs code ident auth secret]; unfold same_header; cbn [code ident auth secret]; auto.
Qed.

Lemma h_add_inv d p salt tag v p' : h_add Hs d p salt tag v = Ok p' ->
  exists a, h_encode Hs d p salt tag v = Ok a /\ stored_add d a (pattrs p) = Ok (pattrs p') /\ same_header p p'.
Proof.
  unfold h_add, stored_add. destruct (h_encode Hs d p salt tag v) as [a|e| |]; cbn [bind]; try discriminate.
  intros H. exists a. split; [reflexivity|].
  destruct (h_vendor d) as [vid|].
  - destruct (add_vendor vid (Z.to_N (h_type d)) a (pattrs p)) as [l'|e| |]; cbn [bind] in H; try discriminate.
    apply Ok_inj in H; subst p'. unfold same_header; cbn [pattrs code ident auth secret]; auto.
  - rewrite add_spec in H. apply Ok_inj in H; subst p'. unfold same_header; cbn [pattrs code ident auth secret]; auto.
Qed.

Lemma h_del_inv d p : exists p', h_del d p = Ok p' /\ pattrs p' = stored_del d (pattrs p) /\ same_header p p'.
Proof.
  unfold h_del, stored_del. destruct (h_vendor d) as [vid|].
  - eexists. split; [reflexivity|]. unfold same_header; cbn [pattrs code ident auth secret]; auto.
  - rewrite del_spec. cbn [bind]. eexists. split; [reflexivity|]. unfold same_header; cbn [pattrs code ident auth secret]; auto.
Qed.
End Store.

Lemma concat_chunks : forall f v, length v <= f -> concat (chunks f v) = v.
Proof.
  induction f as [|f IH]; intros v Hl.
  - destruct v; [reflexivity|cbn [length] in Hl; lia].
  - destruct v as [|x v']; [reflexivity|]. cbn [chunks concat]. rewrite IH.
    + apply firstn_skipn.
    + rewrite skipn_length. cbn [length] in *. lia.
Qed.

Lemma chunks_bounds : forall f v c, In c (chunks f v) -> 1 <= length c <= 253.
Proof.
  induction f as [|f IH]; intros v c Hc; [destruct Hc|].
  destruct v as [|x v']; [destruct Hc|]. cbn [chunks] in Hc. destruct Hc as [<-|Hc]; [|eapply IH; exact Hc].
  rewrite firstn_length. cbn [length]. lia.
Qed.

Lemma filter_is_key_mk k j l : j <> k -> filter (is_key j) (map (mkavp k) l) = [].
Proof.
  intros Hne. induction l as [|c l IH]; [reflexivity|]. cbn [map filter]. unfold is_key at 1. cbn [atype].
  destruct (k =? j)%Z eqn:E; [lia|exact IH].
Qed.
Lemma vals_mk k l : vals k (map (mkavp k) l) = l.
Proof.
  unfold vals. induction l as [|c l IH]; [reflexivity|]. cbn [map filter]. unfold is_key at 1. cbn [atype].
  rewrite Z.eqb_refl. cbn [map aval]. rewrite IH. reflexivity.
Qed.

Lemma filter_key_set_other j k v l : j <> k -> filter (is_key j) (spec_set k v l) = filter (is_key j) l.
Proof.
  intros Hne. rewrite <- (filter_is_key_of_not j k (spec_set k v l) Hne), spec_set_others.
  apply filter_is_key_of_not, Hne.
Qed.
Lemma filter_key_add_other j k v l : j <> k -> filter (is_key j) (spec_add k v l) = filter (is_key j) l.
Proof.
  intros Hne. rewrite <- (filter_is_key_of_not j k (spec_add k v l) Hne), spec_add_others.
  apply filter_is_key_of_not, Hne.
Qed.

(* Set: the helper then sees exactly the stored value (the chunks of it for concat) ... *)
Theorem stored_set_raw d a l l' : wfd d -> stored_set d a l = Ok l' ->
  raw_of d l' = if is_concat d then chunks (S (length a)) a else [a].
Proof.
  unfold stored_set, raw_of, wfd. intros Hw. destruct (h_vendor d) as [vid|] eqn:Ev.
  - destruct Hw as [Hv Hc]. rewrite Hc. intros H.
    rewrite (set_vendor_gets vid _ a l l' Hv vid _ H), !N.eqb_refl. reflexivity.
  - destruct (is_concat d); intros H; apply Ok_inj in H; subst l'.
    + unfold vals. rewrite filter_app, map_app, filter_is_key_del. cbn [map app]. apply vals_mk.
    + apply vals_set.
Qed.

(* ... Add: what it saw before, then the new value ... *)
Theorem stored_add_raw d a l l' : wfd d -> stored_add d a l = Ok l' -> raw_of d l' = raw_of d l ++ [a].
Proof.
  unfold stored_add, raw_of, wfd. intros Hw. destruct (h_vendor d) as [vid|] eqn:Ev.
  - destruct Hw as [Hv Hc]. intros H. rewrite (add_vendor_gets vid _ a l l' Hv vid _ H), !N.eqb_refl. reflexivity.
  - intros H; apply Ok_inj in H; subst l'. apply vals_add.
Qed.

(* ... Del: nothing *)
Theorem stored_del_raw d l : raw_of d (stored_del d l) = [].
Proof.
  unfold stored_del, raw_of. destruct (h_vendor d) as [vid|].
  - apply del_vendor_removes_all.
  - apply vals_del.
Qed.

(* non-interference: a helper addressing other values sees no difference *)
Lemma vals_through_view vid typ k l l' : k <> VSA_TYPE ->
  flat_map (view vid typ) l' = flat_map (view vid typ) l -> vals k l' = vals k l.
Proof. intros Hk E. rewrite <- (vals_view vid typ k l' Hk), E. apply vals_view, Hk. Qed.

Theorem stored_set_other d d' a l l' : wfd d -> distinct d d' -> stored_set d a l = Ok l' -> raw_of d' l' = raw_of d' l.
Proof.
  unfold stored_set, raw_of, wfd, distinct. intros Hw Hd.
  destruct (h_vendor d) as [vid|] eqn:Ev; destruct (h_vendor d') as [vid'|] eqn:Ev'.
  - destruct Hw as [Hv Hc]. rewrite Hc. intros H. rewrite (set_vendor_gets vid _ a l l' Hv vid' _ H).
    destruct ((vid' =? vid)%N && (Z.to_N (h_type d') =? Z.to_N (h_type d))%N) eqn:E; [|reflexivity].
    exfalso. apply Hd. f_equal; lia.
  - destruct Hw as [Hv Hc]. rewrite Hc. intros H.
    apply (vals_through_view vid (Z.to_N (h_type d))); [exact Hd|]. exact (set_vendor_view vid _ a l l' Hv H).
  - destruct (is_concat d); intros H; apply Ok_inj in H; subst l'; apply gets_vendor_same_vsa.
    + rewrite filter_app, (filter_is_key_mk (h_type d) VSA_TYPE) by congruence. rewrite app_nil_r.
      unfold spec_del. apply filter_is_key_of_not. congruence.
    + apply filter_key_set_other. congruence.
  - destruct (is_concat d); intros H; apply Ok_inj in H; subst l'.
    + unfold vals. rewrite filter_app, (filter_is_key_mk (h_type d) (h_type d')) by congruence. rewrite app_nil_r.
      f_equal. unfold spec_del. apply filter_is_key_of_not. congruence.
    + apply vals_set_other. congruence.
Qed.

Theorem stored_add_other d d' a l l' : wfd d -> distinct d d' -> stored_add d a l = Ok l' -> raw_of d' l' = raw_of d' l.
Proof.
  unfold stored_add, raw_of, wfd, distinct. intros Hw Hd.
  destruct (h_vendor d) as [vid|] eqn:Ev; destruct (h_vendor d') as [vid'|] eqn:Ev'.
  - destruct Hw as [Hv Hc]. intros H. rewrite (add_vendor_gets vid _ a l l' Hv vid' _ H).
    destruct ((vid' =? vid)%N && (Z.to_N (h_type d') =? Z.to_N (h_type d))%N) eqn:E; [|apply app_nil_r].
    exfalso. apply Hd. f_equal; lia.
  - destruct Hw as [Hv Hc]. intros H.
    apply (vals_through_view vid (Z.to_N (h_type d))); [exact Hd|]. exact (add_vendor_view vid _ a l l' Hv H).
  - intros H; apply Ok_inj in H; subst l'; apply gets_vendor_same_vsa. apply filter_key_add_other. congruence.
  - intros H; apply Ok_inj in H; subst l'. apply vals_add_other. congruence.
Qed.

Theorem stored_del_other d d' l : distinct d d' -> raw_of d' (stored_del d l) = raw_of d' l.
Proof.
  unfold stored_del, raw_of, distinct. intros Hd.
  destruct (h_vendor d) as [vid|] eqn:Ev; destruct (h_vendor d') as [vid'|] eqn:Ev'.
  - apply del_vendor_others_values. exact Hd.
  - apply (vals_through_view vid (Z.to_N (h_type d))); [exact Hd|]. apply del_vendor_view.
  - apply gets_vendor_same_vsa. unfold spec_del. apply filter_is_key_of_not. congruence.
  - apply vals_del_other. congruence.
Qed.

(* ---- codec layer: decoding what was encoded ---- *)
Lemma apply_mask_ok ip : forall ones, bytes_ok ip -> bytes_ok (apply_mask ip ones).
Proof.
  induction ip as [|b r IH]; intros ones Hb; [constructor|]. inversion Hb as [|? ? Hb0 Hr]; subst.
  cbn [apply_mask]. destruct (8 <=? ones).
  - constructor; [exact Hb0|apply IH, Hr].
  - constructor; [|apply IH, Hr]. unfold clear_low, byte_ok in *. lia.
Qed.

Lemma be_enc4_small u : (u < 16777216)%N -> 0%N :: skipn 1 (be_enc 4 u) = be_enc 4 u.
Proof.
  intros Hu. unfold be_enc. cbn [app skipn]. f_equal.
  assert (E : (u / 256 / 256 / 256 = 0)%N).
  { rewrite !N.div_div by lia. apply N.div_small. lia. }
  rewrite E. reflexivity.
Qed.

Lemma match_same {A B} (l : list A) (b : B) : match l with [] => b | _ :: _ => b end = b.
Proof. destruct l; reflexivity. Qed.

Section Codec.
Variable Hs : bytes -> bytes.
Hypothesis Hs_len : forall x, length (Hs x) = 16.

Lemma forced_salt_ok salt : length salt = 2 -> salt_ok (forced_salt salt) = true.
Proof.
  destruct salt as [|s0 [|s1 [|? ?]]]; try discriminate. intros _. unfold forced_salt, salt_ok.
  assert (H : (128 <= N.lor s0 128 mod 256)%N).
  { assert (Hb : N.testbit (N.lor s0 128 mod 256) 7 = true).
    { change 256%N with (2 ^ 8)%N. rewrite N.mod_pow2_bits_low by lia. rewrite N.lor_spec. 
      change (N.testbit 128 7) with true. apply orb_true_r. }
    destruct (N.lt_ge_cases (N.lor s0 128 mod 256) 128) as [Hlt|Hge]; [|exact Hge].
    exfalso. assert (Hz : N.testbit (N.lor s0 128 mod 256) 7 = false).
    { destruct (N.eq_dec (N.lor s0 128 mod 256) 0) as [->|Hnz]; [reflexivity|].
      apply N.bits_above_log2. apply N.log2_lt_pow2; [lia|]. change (2 ^ 7)%N with 128%N. exact Hlt. }
    congruence. }
  lia.
Qed.

Lemma tp_wrap_roundtrip p p' q salt x a : same_header p p' -> auth q = auth p -> length salt = 2 ->
  tp_wrap Hs p salt x = Ok a ->
  tunnel_password Hs a (secret p') (auth q) = Ok (x, forced_salt salt).
Proof.
  intros (_ & _ & _ & Hsec) Hq Hsalt H. unfold tp_wrap in H. rewrite Hsec, Hq.
  pose proof H as H0. rewrite (new_tunnel_password_eq_spec Hs Hs_len) in H0. unfold spec_new_tunnel_password in H0.
  destruct ((tp_max_password <? length x) || negb (salt_ok (forced_salt salt)) || (length (secret p) =? 0)
            || negb (length (auth p) =? 16)) eqn:E; [discriminate|].
  assert (Hne : secret p <> []) by (intros Hn; rewrite Hn in E; cbn [length] in E; lia).
  destruct (tunnel_password_roundtrip Hs Hs_len x (forced_salt salt) (secret p) (auth p)) as (a' & Ha' & Hd);
    [lia|apply forced_salt_ok, Hsalt|exact Hne|lia|].
  rewrite Ha' in H. apply Ok_inj in H. subst a'. exact Hd.
Qed.

Lemma up_roundtrip p p' x a : same_header p p' -> ~ In 0%N x ->
  new_user_password Hs x (secret p) (auth p) = Ok a ->
  user_password Hs a (secret p') (auth p') = Ok x.
Proof.
  intros (_ & _ & Hau & Hsec) Hn H. rewrite Hsec, Hau.
  pose proof H as H0. rewrite (new_user_password_eq_spec Hs Hs_len) in H0. unfold spec_new_user_password in H0.
  destruct ((128 <? length x) || (length (secret p) =? 0) || negb (length (auth p) =? 16)) eqn:E; [discriminate|].
  assert (Hne : secret p <> []) by (intros Hn'; rewrite Hn' in E; cbn [length] in E; lia).
  destruct (user_password_roundtrip Hs Hs_len x (secret p) (auth p)) as (c & Hc & Hd); [lia|exact Hne|lia|].
  rewrite Hc in H. apply Ok_inj in H. subst c. rewrite Hd, take_until_nul_id by exact Hn. reflexivity.
Qed.

(* octets / string, with or without tag, size, User-Password or Tunnel-Password hiding *)
Lemma dec_enc_bytes d p p' q salt tag v a :
  h_kind d = KBytes -> same_header p p' -> auth q = auth p -> length salt = 2 ->
  (h_tag d = true -> (tag <= 31)%N) ->
  (h_enc d = 1%Z -> ~ In 0%N (g_b v)) ->
  h_encode Hs d p salt tag v = Ok a ->
  h_decode Hs d p' q a = Ok ((if h_tag d then tag else 0%N), gv_b (g_b v)).
Proof.
  intros Hk Hh Hq Hsalt Htag Hnul He. unfold h_encode in He. unfold h_decode. rewrite Hk in *.
  set (size_ok := match h_size d with Some n => (zlen (g_b v) =? n)%Z | None => true end) in *.
  destruct size_ok eqn:Es; cbn [negb] in He; [|discriminate].
  (* the hidden (or plain) value *)
  set (inner := if (h_enc d =? 1)%Z then new_user_password Hs (g_b v) (secret p) (auth p)
                else if (h_enc d =? 2)%Z then tp_wrap Hs p salt (g_b v) else new_bytes (g_b v)) in *.
  destruct inner as [a0|e| |] eqn:Ei; cbn [bind] in He; try discriminate.
  assert (Hin : (if (h_enc d =? 1)%Z then user_password Hs a0 (secret p') (auth p')
                 else if (h_enc d =? 2)%Z then bind (tunnel_password Hs a0 (secret p') (auth q)) (fun r => Ok (fst r))
                 else Ok a0) = Ok (g_b v)).
  { subst inner. destruct (h_enc d =? 1)%Z eqn:E1.
    - apply (up_roundtrip p p' (g_b v) a0 Hh); [apply Hnul; lia|exact Ei].
    - destruct (h_enc d =? 2)%Z eqn:E2.
      + rewrite (tp_wrap_roundtrip p p' q salt (g_b v) a0 Hh Hq Hsalt Ei). reflexivity.
      + unfold new_bytes in Ei. destruct (holds _ _); [discriminate|]. apply Ok_inj in Ei. subst a0. reflexivity. }
  assert (Hsz : match h_size d with
                | Some n => if negb (zlen (g_b v) =? n)%Z then Err E_invalid else Ok ((if h_tag d then tag else 0%N), gv_b (g_b v))
                | None => Ok ((if h_tag d then tag else 0%N), gv_b (g_b v))
                end = Ok ((if h_tag d then tag else 0%N), gv_b (g_b v))).
  { subst size_ok. destruct (h_size d); [rewrite Es|]; reflexivity. }
  destruct (h_tag d) eqn:Et; cbn [andb] in *.
  - specialize (Htag eq_refl). destruct (tag <=? 31)%N eqn:E31; [|lia].
    destruct (252 <? length a0); [discriminate|]. apply Ok_inj in He. subst a. rewrite E31.
    rewrite Hin. cbn [bind]. exact Hsz.
  - apply Ok_inj in He. subst a. destruct a0 as [|t r]; rewrite Hin; cbn [bind]; exact Hsz.
Qed.

Lemma dec_enc_ip4 d p p' q salt tag v a :
  h_kind d = KIP4 -> same_header p p' -> auth q = auth p -> length salt = 2 ->
  h_encode Hs d p salt tag v = Ok a ->
  exists x, h_decode Hs d p' q a = Ok (0%N, gv_b x) /\ ip_equal (g_b v) x /\ length x = 4.
Proof.
  intros Hk Hh Hq Hsalt He. unfold h_encode in He. unfold h_decode. rewrite Hk in *.
  rewrite new_ipaddr_eq in He. destruct (spec_new_ipaddr (g_b v)) as [x|e| |] eqn:Ex; cbn [bind] in He; try discriminate.
  destruct (ipaddr_roundtrip _ _ Ex) as (Hf & Heq & Hl). exists x.
  assert (Hd : bind (ipaddr x) (fun v0 => Ok (0%N, gv_b v0)) = Ok (0%N, gv_b x)) by (rewrite ipaddr_eq, Hf; reflexivity).
  destruct (h_enc d =? 2)%Z.
  - rewrite (tp_wrap_roundtrip p p' q salt x a Hh Hq Hsalt He). cbn [bind fst]. auto.
  - apply Ok_inj in He. subst a. cbn [bind]. auto.
Qed.

Lemma dec_enc_ip6 d p p' q salt tag v a :
  h_kind d = KIP6 -> same_header p p' -> auth q = auth p -> length salt = 2 ->
  h_encode Hs d p salt tag v = Ok a ->
  exists x, h_decode Hs d p' q a = Ok (0%N, gv_b x) /\ ip_equal (g_b v) x /\ length x = 16.
Proof.
  intros Hk Hh Hq Hsalt He. unfold h_encode in He. unfold h_decode. rewrite Hk in *.
  rewrite new_ipv6addr_eq in He. destruct (spec_new_ipv6addr (g_b v)) as [x|e| |] eqn:Ex; cbn [bind] in He; try discriminate.
  destruct (ipv6addr_roundtrip _ _ Ex) as (Hf & Heq & Hl). exists x.
  assert (Hd : bind (ipv6addr x) (fun v0 => Ok (0%N, gv_b v0)) = Ok (0%N, gv_b x)) by (rewrite ipv6addr_eq, Hf; reflexivity).
  destruct (h_enc d =? 2)%Z.
  - rewrite (tp_wrap_roundtrip p p' q salt x a Hh Hq Hsalt He). cbn [bind fst]. auto.
  - apply Ok_inj in He. subst a. cbn [bind]. auto.
Qed.

Lemma dec_enc_ifid d p p' q salt tag v a :
  h_kind d = KIFID -> h_encode Hs d p salt tag v = Ok a ->
  h_decode Hs d p' q a = Ok (0%N, gv_b (g_b v)) /\ length (g_b v) = 8.
Proof.
  intros Hk He. unfold h_encode in He. unfold h_decode. rewrite Hk in *.
  rewrite new_ifid_eq in He. unfold spec_fixed in He. destruct (length (g_b v) =? 8) eqn:E; [|discriminate].
  apply Ok_inj in He. subst a. rewrite ifid_eq. unfold spec_fixed. rewrite E. cbn [bind]. split; [reflexivity|lia].
Qed.

Lemma dec_enc_prefix d p p' q salt tag v a :
  h_kind d = KPrefix -> bytes_ok (g_b v) -> bytes_ok (g_mask v) ->
  h_encode Hs d p salt tag v = Ok a ->
  exists ones, spec_mask_ones (g_mask v) = Some ones /\
    h_decode Hs d p' q a = Ok (0%N, mkgv (apply_mask (g_b v) ones) 0 (mask_of ones 16)).
Proof.
  intros Hk Hb Hm He. unfold h_encode in He. unfold h_decode. rewrite Hk in *.
  rewrite (new_ipv6prefix_eq _ _ Hm) in He.
  destruct (ipv6prefix_roundtrip _ _ _ Hb He) as (ones & Ho & Hli & Hlm & Hla & Hla' & Hd).
  exists ones. split; [exact Ho|].
  assert (Hok : bytes_ok a).
  { unfold spec_new_ipv6prefix in He. rewrite Ho in He. destruct (negb (length (g_b v) =? 16) || negb (length (g_mask v) =? 16)); [discriminate|].
    apply Ok_inj in He. subst a. constructor; [unfold byte_ok; lia|]. constructor.
    - pose proof (mask_ones_bound (g_mask v) ones) as Hbd. rewrite (mask_ones_eq _ Hm) in Hbd. specialize (Hbd Ho).
      unfold byte_ok. lia.
    - apply bytes_ok_firstn, apply_mask_ok, Hb. }
  rewrite (ipv6prefix_eq a Hok), Hd. reflexivity.
Qed.

Lemma dec_enc_date d p p' q salt tag v a :
  h_kind d = KDate -> h_encode Hs d p salt tag v = Ok a ->
  h_decode Hs d p' q a = Ok (0%N, gv_u (g_u v)) /\ (0 <= g_u v <= 4294967295)%Z.
Proof.
  intros Hk He. unfold h_encode in He. unfold h_decode. rewrite Hk in *.
  rewrite new_date_eq in He. rewrite date_eq.
  destruct (Z_le_dec 0 (g_u v)) as [H0|H0]; [destruct (Z_le_dec (g_u v) 4294967295) as [H1|H1]|].
  - destruct (date_roundtrip (g_u v) (conj H0 H1)) as (a' & Ha' & Hd & _). rewrite Ha' in He. apply Ok_inj in He. subst a'.
    rewrite Hd. cbn [bind]. auto.
  - destruct (proj1 (date_refuses (g_u v))) as [e Hr]; [lia|]. rewrite Hr in He. discriminate.
  - destruct (proj1 (date_refuses (g_u v))) as [e Hr]; [lia|]. rewrite Hr in He. discriminate.
Qed.

Lemma dec_enc_byte d p p' q salt tag v a :
  h_kind d = KByte -> (0 <= g_u v)%Z -> h_encode Hs d p salt tag v = Ok a ->
  h_decode Hs d p' q a = Ok (0%N, gv_u (g_u v)).
Proof.
  intros Hk H0 He. unfold h_encode in He. unfold h_decode. rewrite Hk in *. apply Ok_inj in He. subst a.
  rewrite Z2N.id by exact H0. reflexivity.
Qed.

(* integers: plain, salt-encrypted, or tagged (32-bit, value in the low 24 bits) *)
Lemma dec_enc_int d p p' q salt tag v a n :
  h_kind d = KInt n -> same_header p p' -> auth q = auth p -> length salt = 2 ->
  (h_tag d = true -> n = 4 /\ (tag <= 31)%N) ->
  (0 <= g_u v)%Z -> (Z.to_N (g_u v) < 256 ^ N.of_nat n)%N ->
  h_encode Hs d p salt tag v = Ok a ->
  h_decode Hs d p' q a = Ok ((if h_tag d then tag else 0%N), gv_u (g_u v)).
Proof.
  intros Hk Hh Hq Hsalt Htag H0 Hr He. unfold h_encode in He. unfold h_decode. rewrite Hk in *.
  assert (Hv : Z.of_N (be_dec (be_enc n (Z.to_N (g_u v)))) = g_u v) by (rewrite be_dec_enc_small by exact Hr; lia).
  destruct (h_tag d) eqn:Et; cbn [andb negb] in *.
  - destruct (Htag eq_refl) as [-> H31]. destruct (g_u v >? 16777215)%Z eqn:Eg; [discriminate|].
    apply Ok_inj in He. subst a.
    assert (Hs' : ((if (1 <=? tag)%N && (tag <=? 31)%N then tag else 0%N) = tag)).
    { destruct ((1 <=? tag)%N && (tag <=? 31)%N) eqn:E; [reflexivity|lia]. }
    rewrite Hs'. destruct (tag <=? 31)%N eqn:E31; [|lia].
    rewrite be_enc4_small by lia. cbn [bind]. rewrite be_enc_length. cbn [Nat.eqb negb]. rewrite Hv. reflexivity.
  - destruct (h_enc d =? 2)%Z.
    + destruct a as [|t r].
      * exfalso. pose proof (tp_wrap_roundtrip p p' q salt _ [] Hh Hq Hsalt He) as Hd.
        rewrite (tunnel_password_eq_spec Hs Hs_len) in Hd. unfold spec_tunnel_password in Hd. cbn in Hd. discriminate.
      * rewrite (tp_wrap_roundtrip p p' q salt _ _ Hh Hq Hsalt He). cbn [bind fst].
        rewrite be_enc_length, Nat.eqb_refl. cbn [negb]. rewrite Hv. reflexivity.
    + apply Ok_inj in He. subst a.
      rewrite match_same. cbn [bind]. rewrite be_enc_length, Nat.eqb_refl. cbn [negb]. rewrite Hv. reflexivity.
Qed.
End Codec.

(* ---- the laws ---- *)
(* the value Lookup must give back after Set(tag, v) *)
Definition reads_back (d : hdesc) (tag : N) (v : gv) (tv : N * gv) : Prop :=
  fst tv = (if h_tag d then tag else 0%N) /\
  match h_kind d with
  | KBytes | KConcat | KIFID => g_b (snd tv) = g_b v
  | KIP4 | KIP6 => ip_equal (g_b v) (g_b (snd tv))
  | KPrefix => exists ones, spec_mask_ones (g_mask v) = Some ones /\
                            g_b (snd tv) = apply_mask (g_b v) ones /\ g_mask (snd tv) = mask_of ones 16
  | KDate | KInt _ | KByte => g_u (snd tv) = g_u v
  end.

(* the calls the laws speak about: the value lies in the Go type of the parameter
   (unsigned integer of the attribute's width, bytes below 256), tags are RFC 2868
   tags (0..31; see tag_above_31_refuted), only the kinds the generator tags are
   tagged, a User-Password style value holds no NUL (it is NUL-padded on the wire),
   and a concat value is not empty (see concat_empty_refuted) *)
Definition admissible (d : hdesc) (tag : N) (v : gv) : Prop :=
  (h_tag d = true -> (tag <= 31)%N /\ (h_kind d = KBytes \/ h_kind d = KInt 4)) /\
  match h_kind d with
  | KBytes => h_enc d = 1%Z -> ~ In 0%N (g_b v)
  | KConcat => g_b v <> []
  | KPrefix => bytes_ok (g_b v) /\ bytes_ok (g_mask v)
  | KInt n => (0 <= g_u v)%Z /\ (Z.to_N (g_u v) < 256 ^ N.of_nat n)%N
  | KByte => (0 <= g_u v)%Z
  | _ => True
  end.

Section Laws.
Variable Hs : bytes -> bytes.
Hypothesis Hs_len : forall x, length (Hs x) = 16.

Theorem decode_encode d p p' q salt tag v a :
  is_concat d = false -> admissible d tag v -> same_header p p' -> auth q = auth p -> length salt = 2 ->
  h_encode Hs d p salt tag v = Ok a ->
  exists tv, h_decode Hs d p' q a = Ok tv /\ reads_back d tag v tv.
Proof.
  intros Hc [Ht Hv] Hh Hq Hsalt He. unfold reads_back.
  assert (Hnt : forall k, h_kind d = k -> k <> KBytes -> (forall n, k <> KInt n) -> (if h_tag d then tag else 0%N) = 0%N).
  { intros k Hk H1 H2. destruct (h_tag d); [|reflexivity]. destruct (Ht eq_refl) as [_ [E|E]]; rewrite E in Hk; subst k.
    - congruence. - destruct (H2 4 eq_refl). }
  unfold is_concat in Hc. destruct (h_kind d) as [| | | | | | |n|] eqn:Hk; try discriminate.
  - eexists. split; [eapply dec_enc_bytes; eauto; intros Htg; apply Ht, Htg|]. cbn [fst snd g_b gv_b]. auto.
  - destruct (dec_enc_ip4 Hs Hs_len d p p' q salt tag v a Hk Hh Hq Hsalt He) as (x & Hd & Heq & _).
    eexists. split; [exact Hd|]. cbn [fst snd g_b gv_b]. split; [symmetry; eapply Hnt; eauto; congruence|exact Heq].
  - destruct (dec_enc_ip6 Hs Hs_len d p p' q salt tag v a Hk Hh Hq Hsalt He) as (x & Hd & Heq & _).
    eexists. split; [exact Hd|]. cbn [fst snd g_b gv_b]. split; [symmetry; eapply Hnt; eauto; congruence|exact Heq].
  - destruct (dec_enc_ifid Hs Hs_len d p p' q salt tag v a Hk He) as (Hd & _).
    eexists. split; [exact Hd|]. cbn [fst snd g_b gv_b]. split; [symmetry; eapply Hnt; eauto; congruence|reflexivity].
  - destruct Hv as [Hb Hm]. destruct (dec_enc_prefix Hs Hs_len d p p' q salt tag v a Hk Hb Hm He) as (ones & Ho & Hd).
    eexists. split; [exact Hd|]. cbn [fst snd g_b g_mask]. split; [symmetry; eapply Hnt; eauto; congruence|eauto].
  - destruct (dec_enc_date Hs Hs_len d p p' q salt tag v a Hk He) as (Hd & _).
    eexists. split; [exact Hd|]. cbn [fst snd g_u gv_u]. split; [symmetry; eapply Hnt; eauto; congruence|reflexivity].
  - destruct Hv as [H0 Hr]. eexists. split.
    + eapply dec_enc_int; eauto. intros Htg. destruct (Ht Htg) as [H31 [E|E]]; [congruence|]. inversion E. auto.
    + cbn [fst snd g_u gv_u]. auto.
  - eexists. split; [eapply dec_enc_byte; eauto|]. cbn [fst snd g_u gv_u]. split; [symmetry; eapply Hnt; eauto; congruence|reflexivity].
Qed.

Lemma h_lookup_single d p q a : is_concat d = false -> h_raw d p = [a] -> h_lookup Hs d p q = h_decode Hs d p q a.
Proof. unfold is_concat, h_lookup. intros Hc ->. destruct (h_kind d); try discriminate; reflexivity. Qed.
Lemma h_gets_single d p q a : h_raw d p = [a] ->
  h_gets Hs d p q = bind (h_decode Hs d p q a) (fun x => Ok [x]).
Proof. unfold h_gets. intros ->. cbn [decode_all]. destruct (h_decode Hs d p q a); reflexivity. Qed.

(* after a successful Set, Lookup returns the value with its tag and Gets returns exactly that one *)
Theorem set_lookup d p p' q salt tag v :
  wfd d -> is_concat d = false -> admissible d tag v -> auth q = auth p -> length salt = 2 ->
  h_set Hs d p salt tag v = Ok p' ->
  exists tv, h_lookup Hs d p' q = Ok tv /\ h_gets Hs d p' q = Ok [tv] /\ reads_back d tag v tv.
Proof.
  intros Hw Hc Ha Hq Hsalt H. destruct (h_set_inv Hs d p salt tag v p' H) as (a & He & Hst & Hh).
  pose proof (stored_set_raw d a _ _ Hw Hst) as Hr. rewrite Hc in Hr. rewrite <- h_raw_eq in Hr.
  destruct (decode_encode d p p' q salt tag v a Hc Ha Hh Hq Hsalt He) as (tv & Hd & Hrb).
  exists tv. rewrite (h_lookup_single d p' q a Hc Hr), (h_gets_single d p' q a Hr), Hd. auto.
Qed.

(* concat attributes: the value is cut into 253-byte attributes and read back whole *)
Theorem set_lookup_concat d p p' q salt tag v :
  wfd d -> is_concat d = true -> g_b v <> [] ->
  h_set Hs d p salt tag v = Ok p' ->
  h_lookup Hs d p' q = Ok (0%N, gv_b (g_b v)) /\ Forall (fun c => 1 <= length c <= 253) (h_raw d p').
Proof.
  intros Hw Hc Hne H. destruct (h_set_inv Hs d p salt tag v p' H) as (a & He & Hst & Hh).
  pose proof (stored_set_raw d a _ _ Hw Hst) as Hr. rewrite Hc in Hr. rewrite <- h_raw_eq in Hr.
  assert (Ea : a = g_b v).
  { unfold h_encode in He. unfold is_concat in Hc. destruct (h_kind d); try discriminate. apply Ok_inj in He. auto. }
  subst a. split.
  - unfold h_lookup. unfold is_concat in Hc. destruct (h_kind d); try discriminate. rewrite Hr.
    destruct (chunks (S (length (g_b v))) (g_b v)) as [|c cs] eqn:Ech.
    + destruct (g_b v); [congruence|discriminate].
    + rewrite <- Ech, concat_chunks by lia. reflexivity.
  - rewrite Hr. apply Forall_forall. intros c Hin. eapply chunks_bounds, Hin.
Qed.

(* Add appends: Gets returns what it returned before, then the new value *)
Theorem add_gets d p p' q salt tag v xs :
  wfd d -> is_concat d = false -> admissible d tag v -> auth q = auth p -> length salt = 2 ->
  h_add Hs d p salt tag v = Ok p' -> decode_all Hs d p' q (h_raw d p) = Ok xs ->
  exists tv, h_gets Hs d p' q = Ok (xs ++ [tv]) /\ reads_back d tag v tv.
Proof.
  intros Hw Hc Ha Hq Hsalt H Hxs. destruct (h_add_inv Hs d p salt tag v p' H) as (a & He & Hst & Hh).
  pose proof (stored_add_raw d a _ _ Hw Hst) as Hr. rewrite <- !h_raw_eq in Hr.
  destruct (decode_encode d p p' q salt tag v a Hc Ha Hh Hq Hsalt He) as (tv & Hd & Hrb).
  exists tv. split; [|exact Hrb]. unfold h_gets. rewrite Hr. clear Hr.
  revert xs Hxs. induction (h_raw d p) as [|x l IH]; intros xs Hxs.
  - cbn [decode_all] in Hxs. apply Ok_inj in Hxs. subst xs. cbn [app decode_all]. rewrite Hd. reflexivity.
  - cbn [app decode_all] in *. destruct (h_decode Hs d p' q x) as [y|e| |]; cbn [bind] in *; try discriminate.
    destruct (decode_all Hs d p' q l) as [ys|e| |]; cbn [bind] in *; try discriminate.
    apply Ok_inj in Hxs. subst xs. rewrite (IH ys eq_refl). reflexivity.
Qed.

(* Del removes every occurrence: Lookup reports ErrNoAttribute, Gets returns nothing *)
Theorem del_lookup d p q : exists p', h_del d p = Ok p' /\ h_lookup Hs d p' q = Err E_noattr /\ h_gets Hs d p' q = Ok [].
Proof.
  destruct (h_del_inv d p) as (p' & Hd & Hl & _). exists p'. split; [exact Hd|].
  assert (Hr : h_raw d p' = []) by (rewrite h_raw_eq, Hl; apply stored_del_raw).
  unfold h_lookup, h_gets. rewrite Hr. split; [destruct (h_kind d); reflexivity|reflexivity].
Qed.

(* an operation on one attribute never alters what another helper reads *)
Lemma reads_depend_on_raw d p p' q : same_header p p' -> h_raw d p' = h_raw d p ->
  h_lookup Hs d p' q = h_lookup Hs d p q /\ h_gets Hs d p' q = h_gets Hs d p q.
Proof.
  intros (_ & _ & Hau & Hsec) Hr. unfold h_lookup, h_gets. rewrite Hr.
  assert (Hd : forall a, h_decode Hs d p' q a = h_decode Hs d p q a).
  { intros a. unfold h_decode. rewrite Hau, Hsec. reflexivity. }
  split.
  - destruct (h_kind d); destruct (h_raw d p); try reflexivity; apply Hd.
  - clear Hr. induction (h_raw d p) as [|x l IH]; [reflexivity|]. cbn [decode_all]. rewrite Hd, IH. reflexivity.
Qed.

Theorem set_non_interference d d' p p' q salt tag v : wfd d -> distinct d d' ->
  h_set Hs d p salt tag v = Ok p' ->
  h_lookup Hs d' p' q = h_lookup Hs d' p q /\ h_gets Hs d' p' q = h_gets Hs d' p q.
Proof.
  intros Hw Hd H. destruct (h_set_inv Hs d p salt tag v p' H) as (a & _ & Hst & Hh).
  apply reads_depend_on_raw; [exact Hh|]. rewrite !h_raw_eq. eapply stored_set_other; eauto.
Qed.
Theorem add_non_interference d d' p p' q salt tag v : wfd d -> distinct d d' ->
  h_add Hs d p salt tag v = Ok p' ->
  h_lookup Hs d' p' q = h_lookup Hs d' p q /\ h_gets Hs d' p' q = h_gets Hs d' p q.
Proof.
  intros Hw Hd H. destruct (h_add_inv Hs d p salt tag v p' H) as (a & _ & Hst & Hh).
  apply reads_depend_on_raw; [exact Hh|]. rewrite !h_raw_eq. eapply stored_add_other; eauto.
Qed.
Theorem del_non_interference d d' p q : distinct d d' ->
  exists p', h_del d p = Ok p' /\ h_lookup Hs d' p' q = h_lookup Hs d' p q /\ h_gets Hs d' p' q = h_gets Hs d' p q.
Proof.
  intros Hd. destruct (h_del_inv d p) as (p' & Hdel & Hl & Hh). exists p'. split; [exact Hdel|].
  apply reads_depend_on_raw; [exact Hh|]. rewrite !h_raw_eq, Hl. apply stored_del_other, Hd.
Qed.
End Laws.

(* ---- values survive MarshalBinary -> Parse ---- *)
Definition on_wire (d : hdesc) : Prop :=
  match h_vendor d with Some _ => True | None => (0 <= h_type d <= 255)%Z end.

Lemma filter_key_in_range k l : (0 <= k <= 255)%Z -> filter (is_key k) (filter in_range l) = filter (is_key k) l.
Proof.
  intros Hk. induction l as [|a l IH]; [reflexivity|]. cbn [filter]. unfold in_range at 1, is_key at 2.
  destruct (atype a =? k)%Z eqn:E.
  - replace ((0 <=? atype a)%Z && (atype a <=? 255)%Z) with true by lia. cbn [filter]. unfold is_key at 1. rewrite E, IH. reflexivity.
  - destruct ((0 <=? atype a)%Z && (atype a <=? 255)%Z); [cbn [filter]; unfold is_key at 1; rewrite E|]; exact IH.
Qed.

Lemma raw_of_wire d l : on_wire d -> raw_of d (filter in_range l) = raw_of d l.
Proof.
  unfold on_wire, raw_of. destruct (h_vendor d) as [vid|]; intros Hd.
  - apply gets_vendor_same_vsa. apply filter_key_in_range. unfold VSA_TYPE. lia.
  - unfold vals. rewrite filter_key_in_range by exact Hd. reflexivity.
Qed.

Section Wire.
Variable Hs : bytes -> bytes.
Theorem wire_survives d p q w : on_wire d -> (0 <= code p <= 255)%Z -> length (auth p) = 16 -> marshal p = Ok w ->
  exists p', parse w (secret p) = Ok p' /\
    h_lookup Hs d p' q = h_lookup Hs d p q /\ h_gets Hs d p' q = h_gets Hs d p q.
Proof.
  intros Hd Hc Ha Hm. exists (wire_view p (secret p)). split; [apply marshal_parse; assumption|].
  apply reads_depend_on_raw.
  - unfold same_header, wire_view. cbn [code ident auth secret]. auto.
  - rewrite !h_raw_eq. unfold wire_view. cbn [pattrs]. apply raw_of_wire, Hd.
Qed.
End Wire.

(* ---- setters refuse what the attribute cannot carry ---- *)
Section Refuse.
Variable Hs : bytes -> bytes.

(* a refused value never reaches the packet: Set and Add fail exactly when the encoder does,
   or when a vendor attribute cannot hold the encoded value (empty, or more than 247 bytes) *)
Theorem set_fails_iff d p salt tag v : is_concat d = false ->
  (exists e, h_set Hs d p salt tag v = Err e) <->
  (exists e, h_encode Hs d p salt tag v = Err e) \/
  (exists a vid, h_encode Hs d p salt tag v = Ok a /\ h_vendor d = Some vid /\ (length a = 0 \/ 247 < length a)).
Proof.
  intros Hc. unfold h_set. destruct (h_encode Hs d p salt tag v) as [a|e| |]; cbn [bind].
  - unfold is_concat in Hc. destruct (h_vendor d) as [vid|] eqn:Ev.
    + assert (Hs' : (match h_kind d with
                     | KConcat => bind (del (h_type d) (pattrs p)) (fun l => Ok (mkpacket (code p) (ident p) (auth p) (secret p) (l ++ map (fun c => mkavp (h_type d) c) (chunks (S (length a)) a))))
                     | _ => bind (set_vendor vid (Z.to_N (h_type d)) a (pattrs p)) (fun l => Ok (mkpacket (code p) (ident p) (auth p) (secret p) l))
                     end) = bind (set_vendor vid (Z.to_N (h_type d)) a (pattrs p)) (fun l => Ok (mkpacket (code p) (ident p) (auth p) (secret p) l))).
      { destruct (h_kind d); try discriminate; reflexivity. }
      rewrite Hs', set_vendor_ok. destruct ((1 <=? length a) && (length a <=? 247)) eqn:E; cbn [bind]; split.
      * intros [e He]. discriminate.
      * intros [[e He]|(a' & vid' & Ha & _ & Hl)]; [discriminate|]. apply Ok_inj in Ha. subst a'. lia.
      * intros _. right. exists a, vid. split; [reflexivity|]. split; [reflexivity|]. lia.
      * eauto.
    + rewrite set_spec. split.
      * intros [e He]. destruct (h_kind d); discriminate.
      * intros [[e He]|(a' & vid' & _ & Hv & _)]; discriminate.
  - split; eauto.
  - split; [intros [e' He]; discriminate|intros [[e' He]|(a' & vid' & Ha & _)]; discriminate].
  - split; [intros [e' He]; discriminate|intros [[e' He]|(a' & vid' & Ha & _)]; discriminate].
Qed.

(* what the encoders refuse, kind by kind *)
Theorem refuses_wrong_size d p salt tag v n : h_kind d = KBytes -> h_size d = Some n -> zlen (g_b v) <> n ->
  h_encode Hs d p salt tag v = Err E_invalid.
Proof.
  intros Hk Hsz Hl. unfold h_encode. rewrite Hk, Hsz. destruct (zlen (g_b v) =? n)%Z eqn:E; [lia|reflexivity].
Qed.
Theorem refuses_oversize d p salt tag v : h_kind d = KBytes -> h_enc d = 0%Z ->
  (253 < length (g_b v) \/ (h_tag d = true /\ (tag <= 31)%N /\ 252 < length (g_b v))) ->
  exists e, h_encode Hs d p salt tag v = Err e.
Proof.
  intros Hk He Hl. unfold h_encode. rewrite Hk, He. change (0 =? 1)%Z with false. change (0 =? 2)%Z with false. cbv iota.
  destruct (negb match h_size d with Some n => (zlen (g_b v) =? n)%Z | None => true end); [eauto|].
  rewrite new_bytes_eq. unfold spec_new_octets. destruct (length (g_b v) <=? 253) eqn:E; cbn [bind]; [|eauto].
  destruct Hl as [Hl|(Ht & H31 & Hl)]; [lia|]. rewrite Ht. cbn [andb].
  destruct (tag <=? 31)%N eqn:E31; [|lia]. destruct (252 <? length (g_b v)) eqn:E2; [eauto|lia].
Qed.
Theorem refuses_wrong_family4 d p salt tag v : h_kind d = KIP4 -> is_v4 (g_b v) = false ->
  exists e, h_encode Hs d p salt tag v = Err e.
Proof.
  intros Hk Hv. unfold h_encode. rewrite Hk, new_ipaddr_eq.
  destruct (proj1 (ipaddr_refuses (g_b v)) Hv) as [e He]. rewrite He. cbn [bind]. eauto.
Qed.
Theorem refuses_wrong_family6 d p salt tag v : h_kind d = KIP6 -> length (g_b v) <> 4 -> length (g_b v) <> 16 ->
  exists e, h_encode Hs d p salt tag v = Err e.
Proof.
  intros Hk H4 H16. unfold h_encode. rewrite Hk, new_ipv6addr_eq.
  destruct (proj1 (ipv6addr_refuses (g_b v)) (conj H4 H16)) as [e He]. rewrite He. cbn [bind]. eauto.
Qed.
Theorem refuses_wrong_ifid d p salt tag v : h_kind d = KIFID -> length (g_b v) <> 8 ->
  exists e, h_encode Hs d p salt tag v = Err e.
Proof.
  intros Hk Hl. unfold h_encode. rewrite Hk, new_ifid_eq. unfold spec_fixed.
  destruct (length (g_b v) =? 8) eqn:E; [lia|eauto].
Qed.
Theorem refuses_time_out_of_range d p salt tag v : h_kind d = KDate -> (g_u v < 0 \/ 4294967295 < g_u v)%Z ->
  exists e, h_encode Hs d p salt tag v = Err e.
Proof.
  intros Hk Hu. unfold h_encode. rewrite Hk, new_date_eq. apply date_refuses, Hu.
Qed.
Theorem refuses_tagged_int_above_24_bits d p salt tag v n : h_kind d = KInt n -> h_tag d = true ->
  (16777215 < g_u v)%Z -> h_encode Hs d p salt tag v = Err E_invalid.
Proof.
  intros Hk Ht Hu. unfold h_encode. rewrite Hk, Ht. destruct (g_u v >? 16777215)%Z eqn:E; [reflexivity|lia].
Qed.
End Refuse.

(* ---- encrypted attributes are stored obfuscated: what sits in the packet is the
   RFC 2865 5.2 / RFC 2868 3.5 hiding of the value, never the value ---- *)
Section Hidden.
Variable Hs : bytes -> bytes.
Hypothesis Hs_len : forall x, length (Hs x) = 16.

Theorem stored_user_password_hidden d p p' salt tag v : wfd d ->
  h_kind d = KBytes -> h_enc d = 1%Z -> h_tag d = false ->
  h_set Hs d p salt tag v = Ok p' ->
  h_raw d p' = [rfc_up_encrypt Hs (secret p) (auth p) (g_b v)].
Proof.
  intros Hw Hk He Ht H. destruct (h_set_inv Hs d p salt tag v p' H) as (a & Henc & Hst & _).
  pose proof (stored_set_raw d a _ _ Hw Hst) as Hr. unfold is_concat in Hr. rewrite Hk in Hr. rewrite h_raw_eq, Hr.
  unfold h_encode in Henc. rewrite Hk, He, Ht in Henc. change (1 =? 1)%Z with true in Henc. cbn [andb] in Henc. cbv iota in Henc.
  destruct (negb match h_size d with Some n => (zlen (g_b v) =? n)%Z | None => true end); [discriminate|].
  rewrite (new_user_password_eq_spec Hs Hs_len) in Henc. unfold spec_new_user_password in Henc.
  destruct ((128 <? length (g_b v)) || (length (secret p) =? 0) || negb (length (auth p) =? 16)); [discriminate|].
  cbn [bind] in Henc. apply Ok_inj in Henc. subst a. reflexivity.
Qed.

Theorem stored_tunnel_password_hidden d p p' salt tag v : wfd d ->
  h_kind d = KBytes -> h_enc d = 2%Z ->
  h_set Hs d p salt tag v = Ok p' ->
  exists c, h_raw d p' = [if h_tag d && (tag <=? 31)%N then tag :: c else c] /\
            c = rfc_tp_encrypt Hs (secret p) (auth p) (forced_salt salt) (g_b v).
Proof.
  intros Hw Hk He H. destruct (h_set_inv Hs d p salt tag v p' H) as (a & Henc & Hst & _).
  pose proof (stored_set_raw d a _ _ Hw Hst) as Hr. unfold is_concat in Hr. rewrite Hk in Hr. rewrite h_raw_eq, Hr.
  unfold h_encode in Henc. rewrite Hk, He in Henc. change (2 =? 1)%Z with false in Henc. change (2 =? 2)%Z with true in Henc. cbv iota in Henc.
  destruct (negb match h_size d with Some n => (zlen (g_b v) =? n)%Z | None => true end); [discriminate|].
  unfold tp_wrap in Henc. rewrite (new_tunnel_password_eq_spec Hs Hs_len) in Henc. unfold spec_new_tunnel_password in Henc.
  destruct ((tp_max_password <? length (g_b v)) || negb (salt_ok (forced_salt salt)) || (length (secret p) =? 0)
            || negb (length (auth p) =? 16)); [discriminate|].
  cbn [bind] in Henc. eexists. split; [|reflexivity].
  destruct (h_tag d && (tag <=? 31)%N).
  - destruct (252 <? length (rfc_tp_encrypt Hs (secret p) (auth p) (forced_salt salt) (g_b v))); [discriminate|].
    apply Ok_inj in Henc. subst a. reflexivity.
  - apply Ok_inj in Henc. subst a. reflexivity.
Qed.
End Hidden.

(* ---- the two statements that are false of the code (kernel-checked witnesses) ---- *)
Definition ex_tagged_str : hdesc := mkhdesc 81 KBytes true 0 None None.      (* Tunnel-Private-Group-ID *)
Definition ex_tagged_int : hdesc := mkhdesc 64 (KInt 4) true 0 None None.    (* Tunnel-Type *)
Definition ex_concat : hdesc := mkhdesc 79 KConcat false 0 None None.        (* EAP-Message *)
Definition ex_p : packet := mkpacket 2 1 (repeat 0%N 16) [115]%N [].
Definition idH (b : bytes) : bytes := repeat 0%N 16.

(* F9: a tag above 0x1F is not stored; the value comes back with another tag, or cut *)
Theorem tag_above_31_refuted :
  (exists p', h_set idH ex_tagged_str ex_p [] 32 (gv_b [97; 98]%N) = Ok p' /\
              h_lookup idH ex_tagged_str p' ex_p = Ok (0%N, gv_b [97; 98]%N)) /\
  (exists p', h_set idH ex_tagged_str ex_p [] 32 (gv_b [5; 98]%N) = Ok p' /\
              h_lookup idH ex_tagged_str p' ex_p = Ok (5%N, gv_b [98]%N)) /\
  (exists p', h_set idH ex_tagged_int ex_p [] 32 (gv_u 7) = Ok p' /\
              h_lookup idH ex_tagged_int p' ex_p = Ok (0%N, gv_u 7)).
Proof. repeat split; eexists; split; reflexivity. Qed.

(* F20: Set of an empty value on a concat attribute stores nothing, and Lookup reports ErrNoAttribute *)
Theorem concat_empty_refuted :
  exists p', h_set idH ex_concat ex_p [] 0 (gv_b []) = Ok p' /\ h_lookup idH ex_concat p' ex_p = Err E_noattr.
Proof. eexists; split; reflexivity. Qed.

(* non-vacuity of the laws: an admissible tagged call on a packet that already holds values *)
Example law_example :
  let p := mkpacket 2 1 (repeat 0%N 16) [115]%N [mkavp 81 [1; 120]%N; mkavp 6 [0;0;0;1]%N; mkavp 81 [121]%N] in
  wfd ex_tagged_str /\ admissible ex_tagged_str 3 (gv_b [97; 98]%N) /\
  exists p', h_set idH ex_tagged_str p [] 3 (gv_b [97; 98]%N) = Ok p' /\
             pattrs p' = [mkavp 81 [3; 97; 98]%N; mkavp 6 [0;0;0;1]%N] /\
             h_gets idH ex_tagged_str p' p = Ok [(3%N, gv_b [97; 98]%N)].
Proof.
  cbv zeta. split; [exact I|]. split.
  - unfold admissible, ex_tagged_str. cbn. split; [intros _; split; [lia|auto]|discriminate].
  - eexists. repeat split; reflexivity.
Qed.
