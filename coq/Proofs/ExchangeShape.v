(* Proofs/ExchangeShape.v — Client.Exchange as written (Sync_Client_Exchange, regenerated from the working tree on
   every run) performs the operations of Model/Exchange.v in the model's order, path by path: the request is encoded
   before anything is dialled, written once before the helper goroutine exists, the helper writes only on a tick and
   closes the socket when the context ends, and every return after a successful dial runs Stop / cancel / Close. *)
From Coq Require Import String.
From Radius Require Import Base.Bytes Base.Guard Base.Res Crypto.MD5 Gen.Consts Model.Attrs Model.Packet Model.Client Model.Exchange
  Model.ShutdownShape Model.ExchangeShape.
Open Scope nat_scope.
Open Scope string_scope.
Open Scope list_scope.

Notation T := true.
Notation F := false.

Definition sec : bytes := [115; 51]%N.
Definition rq : packet := mkpacket 1 9 (repeat 5%N 16) sec [].
Definition unencodable : packet := mkpacket 1 9 (repeat 5%N 16) sec [mkavp 1 (repeat 0%N 300)].
Definition good : bytes :=
  match encode md5 (mkpacket 2 9 (repeat 5%N 16) sec [mkavp 18 [104; 105]%N]) with Ok w => w | _ => [] end.
Definition forged : bytes := firstn 22 good ++ [200%N] ++ skipn 23 good.
Definition garbage : bytes := [1; 2; 3]%N.

Definition tr (retry maxe : Z) (p : packet) (es : list (xevent * bool)) : list string :=
  xtrace md5 retry maxe false p xinit es.
Definition sk := Sync_Client_Exchange.
Definition on (e : xevent) := (e, true).
Definition off (e : xevent) := (e, false).

Definition exchange_order : Prop :=
  (* the request cannot be encoded: nothing is dialled *)
  cpath [F;T] sk = tr 5 0 unencodable [on XStep] /\
  (* dial fails; the context is live / has ended; c.Net empty or not *)
  cpath [F;F;T;T;F] sk = tr 5 0 rq [on XStep; on XDialFail] /\
  cpath [F;F;F;T;F] sk = tr 5 0 rq [on XStep; on XDialFail] /\
  cpath [F;F;T;T;T] sk = tr 5 0 rq [off XCtxDone; on XStep; on XDialFail] /\
  (* an authentic reply, with and without a retry ticker *)
  cpath [F;F;T;F;T;F;F;F] sk = tr 5 0 rq [on XStep; on XStep; on (XDatagram good)] /\
  cpath [F;F;T;F;F;F;F;F] sk = tr 0 0 rq [on XStep; on XStep; on (XDatagram good)] /\
  (* the read fails: network error / context ended *)
  cpath [F;F;T;F;T;T;F] sk = tr 5 0 rq [on XStep; on XStep; on XReadErr] /\
  cpath [F;F;T;F;T;T;T] sk = tr 5 0 rq [on XStep; on XStep; off XCtxDone; on XReadErr] /\
  (* a datagram that does not parse: counted, under the budget / at the budget *)
  cpath [F;F;T;F;T;F;T;F] sk = tr 5 3 rq [on XStep; on XStep; on (XDatagram garbage)] /\
  cpath [F;F;T;F;T;F;T;T] sk = tr 5 1 rq [on XStep; on XStep; on (XDatagram garbage)] /\
  (* a reply that parses and is not authentic *)
  cpath [F;F;T;F;T;F;F;T;F] sk = tr 5 3 rq [on XStep; on XStep; on (XDatagram forged)] /\
  cpath [F;F;T;F;T;F;F;T;T] sk = tr 5 1 rq [on XStep; on XStep; on (XDatagram forged)] /\
  (* the helper goroutine: a tick resends, the end of the context closes the socket *)
  cpath [T;F] (go_block sk) = tr 5 0 rq [off XStep; off XStep; on XTick] /\
  cpath [F;T] (go_block sk) = tr 5 0 rq [off XStep; off XStep; off XCtxDone; on XHelper] /\
  (* a nil context is refused before anything else happens *)
  cpath [T] sk = ["panic"].

Example authentic_reply_trace :
  cpath [F;F;T;F;T;F;F;F] sk = ["encode"; "dial"; "write"; "go"; "read"; "stop"; "cancel"; "close"; "return:(Parse#0),nil"].
Proof. vm_compute. reflexivity. Qed.

Lemma exchange_order_holds : exchange_order.
Proof.
  unfold exchange_order.
  repeat match goal with |- _ /\ _ => split end; vm_compute; reflexivity.
Qed.

(* ---- completeness: there is no other path (cf. Proofs/ShutdownShape.v) ---- *)
Definition after_dial (retry : Z) : list (list string) :=
  [ tr retry 0 rq [on XStep; on XStep; on XReadErr];
    tr retry 0 rq [on XStep; on XStep; off XCtxDone; on XReadErr];
    tr retry 3 rq [on XStep; on XStep; on (XDatagram garbage)];
    tr retry 1 rq [on XStep; on XStep; on (XDatagram garbage)];
    tr retry 1 rq [on XStep; on XStep; on (XDatagram forged)];
    tr retry 0 rq [on XStep; on XStep; on (XDatagram good)] ].
Definition exchange_traces : list (list string) :=
  [ ["panic"];
    tr 5 0 unencodable [on XStep];
    tr 5 0 rq [on XStep; on XDialFail];
    tr 5 0 rq [off XCtxDone; on XStep; on XDialFail] ] ++ after_dial 5 ++ after_dial 0.
Definition helper_traces : list (list string) :=
  [ tr 5 0 rq [off XStep; off XStep; on XTick];
    tr 5 0 rq [off XStep; off XStep; off XCtxDone; on XHelper];
    tr 5 0 rq [off XStep; off XStep; on XTick; off XCtxDone; on XHelper];
    [] ].                                                  (* still waiting in its select *)

Definition exchange_paths_complete : Prop :=
  (forall ds, List.length ds = 9 -> In (cpath ds sk) exchange_traces) /\
  (forall ds, List.length ds = 2 -> In (cpath ds (go_block sk)) helper_traces).

Lemma exchange_paths_complete_holds : exchange_paths_complete.
Proof.
  unfold exchange_paths_complete, cpath; split; intros ds Hlen;
    (apply paths_within_spec with (n := List.length ds); [rewrite Hlen; vm_compute; reflexivity | apply all_lists_complete; reflexivity]).
Qed.
