(* Proofs/ExchangeShape.v — Client.Exchange as written (Sync_Client_Exchange, regenerated from the working tree on
   every run) performs the operations of Model/Exchange.v in the model's order, path by path: the request is encoded
   before anything is dialled, written once before the helper goroutine exists, the helper writes only on a tick and
   closes the socket when the context ends, and every return after a successful dial runs Stop / cancel / Close. *)
From Coq Require Import String.
From Radius Require Import Base.Bytes Base.Guard Base.Res Crypto.MD5 Gen.Consts Model.Attrs Model.Packet Model.Client Model.Exchange
  Model.ShutdownShape Model.ExchangeShape.
Open Scope nat_scope.
Open Scope string_scope.
Open Scope list_scope.

Notation T := true.
Notation F := false.

Definition sec : bytes := [115; 51]%N.
Definition rq : packet := mkpacket 1 9 (repeat 5%N 16) sec [].
Definition unencodable : packet := mkpacket 1 9 (repeat 5%N 16) sec [mkavp 1 (repeat 0%N 300)].
Definition good : bytes :=
  match encode md5 (mkpacket 2 9 (repeat 5%N 16) sec [mkavp 18 [104; 105]%N]) with Ok w => w | _ => [] end.
Definition forged : bytes := firstn 22 good ++ [200%N] ++ skipn 23 good.
Definition garbage : bytes := [1; 2; 3]%N.

Definition tr (retry maxe : Z) (p : packet) (es : list (xevent * bool)) : list string :=
  xtrace md5 retry maxe false p xinit es.
Definition sk := Sync_Client_Exchange.
Definition on (e : xevent) := (e, true).
Definition off (e : xevent) := (e, false).

Definition exchange_order : Prop :=
  (* the request cannot be encoded: nothing is dialled *)
  cpath [F;T] sk = tr 5 0 unencodable [on XStep] /\
  (* dial fails; the context is live / has ended; c.Net empty or not *)
  cpath [F;F;T;T;F] sk = tr 5 0 rq [on XStep; on XDialFail] /\
  cpath [F;F;F;T;F] sk = tr 5 0 rq [on XStep; on XDialFail] /\
  cpath [F;F;T;T;T] sk = tr 5 0 rq [off XCtxDone; on XStep; on XDialFail] /\
  (* an authentic reply, with and without a retry ticker *)
  cpath [F;F;T;F;T;F;F;F] sk = tr 5 0 rq [on XStep; on XStep; on (XDatagram good)] /\
  cpath [F;F;T;F;F;F;F;F] sk = tr 0 0 rq [on XStep; on XStep; on (XDatagram good)] /\
  (* the read fails: network error / context ended *)
  cpath [F;F;T;F;T;T;F] sk = tr 5 0 rq [on XStep; on XStep; on XReadErr] /\
  cpath [F;F;T;F;T;T;T] sk = tr 5 0 rq [on XStep; on XStep; off XCtxDone; on XReadErr] /\
  (* a datagram that does not parse: counted, under the budget / at the budget *)
  cpath [F;F;T;F;T;F;T;F] sk = tr 5 3 rq [on XStep; on XStep; on (XDatagram garbage)] /\
  cpath [F;F;T;F;T;F;T;T] sk = tr 5 1 rq [on XStep; on XStep; on (XDatagram garbage)] /\
  (* a reply that parses and is not authentic *)
  cpath [F;F;T;F;T;F;F;T;F] sk = tr 5 3 rq [on XStep; on XStep; on (XDatagram forged)] /\
  cpath [F;F;T;F;T;F;F;T;T] sk = tr 5 1 rq [on XStep; on XStep; on (XDatagram forged)] /\
  (* the helper goroutine: a tick resends, the end of the context closes the socket *)
  cpath [T;F] (go_block sk) = tr 5 0 rq [off XStep; off XStep; on XTick] /\
  cpath [F;T] (go_block sk) = tr 5 0 rq [off XStep; off XStep; off XCtxDone; on XHelper] /\
  (* a nil context is refused before anything else happens *)
  hd "" (cpath [T] sk) = "panic".

Example authentic_reply_trace :
  cpath [F;F;T;F;T;F;F;F] sk = ["encode"; "dial"; "write"; "go"; "read"; "stop"; "cancel"; "close"; "return:received,nil"].
Proof. vm_compute. reflexivity. Qed.

Lemma exchange_order_holds : exchange_order.
Proof.
  unfold exchange_order.
  repeat match goal with |- _ /\ _ => split end; vm_compute; reflexivity.
Qed.
