(* Proofs/AttrsList.v — the Go loops of Add/Del/Lookup/Set equal the abstract
   multimap operations (C09), for every list and every key. *)
From Radius Require Import Base.Bytes Base.Res Model.Attrs Spec.C09.
From Coq Require Import ZifyBool ZifyNat ZifyN.
Open Scope nat_scope.

Lemma spec_del_cons_eq k a r : (atype a =? k)%Z = true -> spec_del k (a :: r) = spec_del k r.
Proof. intros E. unfold spec_del. cbn [filter]. unfold not_key at 1. rewrite E. reflexivity. Qed.
Lemma spec_del_cons_ne k a r : (atype a =? k)%Z = false -> spec_del k (a :: r) = a :: spec_del k r.
Proof. intros E. unfold spec_del. cbn [filter]. unfold not_key at 1. rewrite E. reflexivity. Qed.
Lemma spec_set_cons_eq k v a r : (atype a =? k)%Z = true -> spec_set k v (a :: r) = mkavp k v :: spec_del k r.
Proof. intros E. cbn [spec_set]. unfold is_key. rewrite E. reflexivity. Qed.
Lemma spec_set_cons_ne k v a r : (atype a =? k)%Z = false -> spec_set k v (a :: r) = a :: spec_set k v r.
Proof. intros E. cbn [spec_set]. unfold is_key. rewrite E. reflexivity. Qed.

Lemma del_loop_spec key : forall fuel i l,
  i <= length l -> length l - i < fuel ->
  del_loop fuel key i l = Ok (firstn i l ++ spec_del key (skipn i l)).
Proof.
  induction fuel as [|f IH]; intros i l Hi Hf; [lia|].
  cbn [del_loop]. destruct (Nat.ltb_spec i (length l)) as [Hlt|Hge].
  - destruct (nth_error_lt_Some l i Hlt) as [a Ha]. rewrite Ha.
    rewrite (nth_error_skipn_cons l i a Ha).
    destruct (atype a =? key)%Z eqn:E.
    + rewrite spec_del_cons_eq by exact E. rewrite IH.
      * rewrite remove_at_firstn, remove_at_skipn by lia. reflexivity.
      * rewrite remove_at_length by lia. lia.
      * rewrite remove_at_length by lia. lia.
    + rewrite spec_del_cons_ne by exact E. rewrite IH by lia.
      rewrite (firstn_S_snoc l i a Ha), <- app_assoc. reflexivity.
  - rewrite skipn_length_le by lia. rewrite firstn_all2 by lia.
    cbn. rewrite app_nil_r. reflexivity.
Qed.

Theorem del_spec key l : del key l = Ok (spec_del key l).
Proof. unfold del. rewrite del_loop_spec by lia. reflexivity. Qed.

Theorem lookup_spec key l : lookup key l = spec_lookup key l.
Proof.
  unfold spec_lookup. induction l as [|a l IH]; cbn; [reflexivity|].
  unfold is_key at 1. destruct (atype a =? key)%Z; [reflexivity|exact IH].
Qed.

Lemma set_loop_spec key v : forall fuel i found l,
  i <= length l -> length l - i < fuel ->
  set_loop fuel key v i found l =
  Ok (firstn i l ++ (if found then spec_del key (skipn i l)
                     else spec_set key v (skipn i l))).
Proof.
  induction fuel as [|f IH]; intros i found l Hi Hf; [lia|].
  cbn [set_loop]. destruct (Nat.ltb_spec i (length l)) as [Hlt|Hge].
  - destruct (nth_error_lt_Some l i Hlt) as [a Ha]. rewrite Ha.
    rewrite (nth_error_skipn_cons l i a Ha).
    destruct (atype a =? key)%Z eqn:E.
    + destruct found.
      * rewrite spec_del_cons_eq by exact E. rewrite IH.
        -- rewrite remove_at_firstn, remove_at_skipn by lia. reflexivity.
        -- rewrite remove_at_length by lia. lia.
        -- rewrite remove_at_length by lia. lia.
      * rewrite spec_set_cons_eq by exact E. rewrite IH.
        -- rewrite update_at_firstn_S, update_at_skipn_S by lia.
           rewrite <- app_assoc. reflexivity.
        -- rewrite update_at_length by lia. lia.
        -- rewrite update_at_length by lia. lia.
    + rewrite IH by lia. rewrite (firstn_S_snoc l i a Ha), <- app_assoc.
      destruct found.
      * rewrite spec_del_cons_ne by exact E. reflexivity.
      * rewrite spec_set_cons_ne by exact E. reflexivity.
  - rewrite skipn_length_le by lia. rewrite firstn_all2 by lia.
    destruct found; cbn; [rewrite app_nil_r|]; reflexivity.
Qed.

Theorem set_spec key v l : set key v l = Ok (spec_set key v l).
Proof. unfold set. rewrite set_loop_spec by lia. reflexivity. Qed.

Theorem add_spec key v l : add key v l = spec_add key v l.
Proof. reflexivity. Qed.

(* ---- the laws of the statement, on the abstract side ---- *)
Local Ltac key_cases a k E :=
  unfold is_key, not_key; cbn [atype aval]; destruct (Z.eqb_spec (atype a) k) as [E|E]; cbn [negb].

Lemma spec_del_no_key k l : spec_lookup k (spec_del k l) = None.
Proof.
  unfold spec_lookup, spec_del. induction l as [|a l IH]; cbn [filter find]; [reflexivity|].
  unfold not_key at 1. destruct (atype a =? k)%Z eqn:E; cbn [negb find]; [exact IH|].
  unfold is_key at 1. rewrite E. exact IH.
Qed.

Lemma spec_del_count k l : count_occ Z.eq_dec (map atype (spec_del k l)) k = 0.
Proof.
  unfold spec_del. induction l as [|a l IH]; cbn [filter map count_occ]; [reflexivity|].
  unfold not_key at 1. destruct (Z.eqb_spec (atype a) k) as [E|E]; cbn [negb map count_occ]; [exact IH|].
  destruct (Z.eq_dec (atype a) k); [contradiction|exact IH].
Qed.

Lemma spec_set_count k v l : count_occ Z.eq_dec (map atype (spec_set k v l)) k = 1.
Proof.
  induction l as [|a l IH]; cbn [spec_set map count_occ atype].
  - destruct (Z.eq_dec k k); [reflexivity|contradiction].
  - unfold is_key. destruct (Z.eqb_spec (atype a) k) as [E|E]; cbn [map count_occ atype].
    + destruct (Z.eq_dec k k); [|contradiction]. rewrite spec_del_count. reflexivity.
    + destruct (Z.eq_dec (atype a) k); [contradiction|exact IH].
Qed.

Lemma find_is_key_hit k v r : find (is_key k) (mkavp k v :: r) = Some (mkavp k v).
Proof. cbn [find]. unfold is_key; cbn [atype]. rewrite Z.eqb_refl. reflexivity. Qed.
Lemma find_is_key_miss k a r : (atype a =? k)%Z = false -> find (is_key k) (a :: r) = find (is_key k) r.
Proof. intros E. cbn [find]. unfold is_key at 1. rewrite E. reflexivity. Qed.

Lemma spec_set_lookup k v l : spec_lookup k (spec_set k v l) = Some v.
Proof.
  unfold spec_lookup. induction l as [|a l IH].
  - cbn [spec_set]. rewrite find_is_key_hit. reflexivity.
  - destruct (atype a =? k)%Z eqn:E.
    + rewrite spec_set_cons_eq by exact E. rewrite find_is_key_hit. reflexivity.
    + rewrite spec_set_cons_ne by exact E. rewrite find_is_key_miss by exact E. exact IH.
Qed.

(* values and relative order of the other attributes never change *)
Lemma spec_del_others k l : filter (not_key k) (spec_del k l) = filter (not_key k) l.
Proof.
  unfold spec_del. induction l as [|a l IH]; cbn [filter]; [reflexivity|].
  destruct (not_key k a) eqn:E; cbn [filter]; rewrite ?E, IH; reflexivity.
Qed.

Lemma filter_not_key_hit k a r : (atype a =? k)%Z = true -> filter (not_key k) (a :: r) = filter (not_key k) r.
Proof. intros E. cbn [filter]. unfold not_key at 1. rewrite E. reflexivity. Qed.
Lemma filter_not_key_miss k a r : (atype a =? k)%Z = false -> filter (not_key k) (a :: r) = a :: filter (not_key k) r.
Proof. intros E. cbn [filter]. unfold not_key at 1. rewrite E. reflexivity. Qed.

Lemma spec_set_others k v l : filter (not_key k) (spec_set k v l) = filter (not_key k) l.
Proof.
  induction l as [|a l IH].
  - cbn [spec_set]. apply filter_not_key_hit. cbn [atype]. apply Z.eqb_refl.
  - destruct (atype a =? k)%Z eqn:E.
    + rewrite spec_set_cons_eq by exact E.
      rewrite filter_not_key_hit by (cbn [atype]; apply Z.eqb_refl).
      rewrite filter_not_key_hit by exact E. apply spec_del_others.
    + rewrite spec_set_cons_ne by exact E.
      rewrite !filter_not_key_miss by exact E. rewrite IH. reflexivity.
Qed.

Lemma spec_add_others k v l : filter (not_key k) (spec_add k v l) = filter (not_key k) l.
Proof.
  unfold spec_add. rewrite filter_app. cbn [filter]. unfold not_key at 2; cbn [atype].
  rewrite Z.eqb_refl. cbn [negb]. apply app_nil_r.
Qed.

(* a key different from the one operated on sees exactly what it saw before *)
Lemma filter_is_key_of_not j k l : j <> k ->
  filter (is_key j) (filter (not_key k) l) = filter (is_key j) l.
Proof.
  intros H. induction l as [|a l IH]; cbn [filter]; [reflexivity|].
  unfold not_key at 1, is_key at 2.
  destruct (Z.eqb_spec (atype a) k) as [Ek|Ek]; cbn [negb filter].
  - destruct (Z.eqb_spec (atype a) j) as [Ej|Ej]; [congruence|exact IH].
  - unfold is_key at 1. destruct (atype a =? j)%Z; rewrite IH; reflexivity.
Qed.

Lemma others_same_occurrences j k l l' : j <> k ->
  filter (not_key k) l' = filter (not_key k) l ->
  filter (is_key j) l' = filter (is_key j) l.
Proof.
  intros H E. rewrite <- (filter_is_key_of_not j k l' H), <- (filter_is_key_of_not j k l H), E.
  reflexivity.
Qed.

(* ---- every operation sequence: the Go loops refine the multimap ---- *)
Definition model_step (l : attrs) (o : op) : res (attrs * option (option bytes)) :=
  match o with
  | OAdd k v => Ok (add k v l, None)
  | OSet k v => bind (set k v l) (fun l' => Ok (l', None))
  | ODel k => bind (del k l) (fun l' => Ok (l', None))
  | OGet k => Ok (l, Some (lookup k l))
  | OLookup k => Ok (l, Some (lookup k l))
  end.

Fixpoint model_run (l : attrs) (os : list op) : res (attrs * list (option (option bytes))) :=
  match os with
  | [] => Ok (l, [])
  | o :: r => bind (model_step l o) (fun p =>
              bind (model_run (fst p) r) (fun q => Ok (fst q, snd p :: snd q)))
  end.

Fixpoint spec_run (l : attrs) (os : list op) : attrs * list (option (option bytes)) :=
  match os with
  | [] => (l, [])
  | o :: r => let p := spec_step l o in let q := spec_run (fst p) r in (fst q, snd p :: snd q)
  end.

Lemma model_step_spec l o : model_step l o = Ok (spec_step l o).
Proof.
  destruct o; cbn [model_step spec_step]; rewrite ?set_spec, ?del_spec, ?lookup_spec; reflexivity.
Qed.

Theorem run_ops_refines os : forall l, model_run l os = Ok (spec_run l os).
Proof.
  induction os as [|o os IH]; intros l; cbn [model_run spec_run]; [reflexivity|].
  rewrite model_step_spec. cbn [bind]. rewrite IH. cbn [bind].
  destruct (spec_run (fst (spec_step l o)) os). reflexivity.
Qed.
