(* Proofs/ShutdownInvH3.v — one slice of the preservation proof of the Serve/Shutdown invariant (split for parallel compilation). *)
From Radius Require Import Base.Bytes Base.Res Model.Shutdown Proofs.ShutdownInv.
From Coq Require Import ZifyBool ZifyNat ZifyN.
Open Scope nat_scope.
Section Step.
Variable s : state.
Hypothesis Ia : active s = (Z.of_nat (cnt holds (threads s)) - (if sdec s then 1 else 0))%Z.
Hypothesis Ic : closes s = if sdec s && (cnt holds (threads s) =? 0) then 1 else 0.
Hypothesis Im : cnt in_cs (threads s) = if mu s then 1 else 0.
Hypothesis Ir : shut s = true -> cnt at_reg (threads s) = 0.
Hypothesis Il : cnt closing (threads s) = if shut s && negb (sdec s) then 1 else 0.
Hypothesis Isd : sdec s = true -> shut s = true.
Hypothesis Inl : 0 < cnt at_nil (threads s) -> closes s = 1.
Hypothesis Icl : shut s = true -> cnt at_hclose (threads s) = 0 -> incl (regs s) (closedc s).
Hypothesis Icn : shut s = true -> cnt pre_cancel (threads s) = 0 -> cancelled s = true.
Ltac fin := finish s Ir Isd Inl Icl Icn.
Lemma shut_c i e s' pc a : a <> ARun -> nth_error (threads s) i = Some (TShut pc e) -> step_shut s i pc e a = Some s' -> Inv s'.
Proof.
  intros Ha Hn Hs. destruct a; try contradiction.
  - destruct pc; cbn [step_shut] in Hs; discriminate.
  - destruct pc; cbn [step_shut] in Hs; discriminate.
  - destruct pc; cbn [step_shut] in Hs; discriminate.
  - destruct pc; cbn [step_shut] in Hs; try discriminate.
    destruct (Nat.ltb_spec 0 (closes s)) as [Hc|Hc]; [|discriminate]. inversion Hs; subst s'; clear Hs.
    counts Hn (TShut H_ret_nil e). fin.
  - destruct pc; cbn [step_shut] in Hs; try discriminate.
    destruct e; [|discriminate]. inversion Hs; subst s'; clear Hs.
    counts Hn (TShut H_ret_err true). fin.
  - assert (Hs' : s' = set_thread s i (TShut pc true)) by (destruct pc; cbn [step_shut] in Hs; inversion Hs; reflexivity).
    subst s'. clear Hs.
    destruct pc;
      match type of Hn with nth_error _ _ = Some (TShut ?p _) => counts Hn (TShut p true) end; fin.
Qed.
End Step.
