(* Proofs/MSCHAP.v — the Go compositions equal the RFC definitions (C19), for
   every choice of the primitives with the right output sizes. *)
From Coq Require Import String Ascii.
From Radius Require Import Base.Bytes Base.Guard Base.Res Gen.Consts Model.MSCHAP Spec.C19.
From Coq Require Import ZifyBool ZifyNat ZifyN.
Open Scope list_scope.
Open Scope nat_scope.

(* the byte arrays in the Go source are the RFC's text constants *)
Theorem consts_are_rfc :
  B_rfc2759_magic1 = rfc_magic1 /\ B_rfc2759_magic2 = rfc_magic2 /\
  B_rfc3079_magic1 = rfc_mppe_magic1 /\ B_rfc3079_magic2 = rfc_mppe_magic2 /\ B_rfc3079_magic3 = rfc_mppe_magic3 /\
  B_rfc3079_shaPad1 = rfc_shspad1 /\ B_rfc3079_shaPad2 = rfc_shspad2 /\
  K_rfc3079_KeyLength128Bit = 16%Z /\ K_rfc3079_KeyLength40Bit = 8%Z.
Proof. repeat split; vm_compute; reflexivity. Qed.

Lemma g_DESCrypt_0 x : holds (gd G_rfc2759_DESCrypt 0) x = (x =? 7)%Z. Proof. reflexivity. Qed.
Lemma g_StartKey_0 x : holds (gd G_rfc3079_GetAsymmetricStartKey 0) x = negb (x =? 16)%Z. Proof. reflexivity. Qed.
Lemma g_MakeKey_0 x : holds (gd G_rfc3079_MakeKey 0) x = negb (x =? 24)%Z. Proof. reflexivity. Qed.

(* the shift loop of parityPadDESKey is "seven bits per octet plus odd parity", for all 2^56 keys *)
Theorem parity_pad_is_rfc key : parity_pad key = rfc_des_key key.
Proof.
  unfold parity_pad, rfc_des_key. apply map_ext_in. intros i Hi. apply in_seq in Hi.
  unfold with_odd_parity, digit128, popcount, ones.
  set (x := be_dec key).
  assert (E : (((x / 2 ^ N.of_nat (7 * (7 - i))) mod 256 * 2) mod 256 = ((x / 128 ^ N.of_nat (7 - i)) mod 128 * 2))%N).
  { replace (2 ^ N.of_nat (7 * (7 - i)))%N with (128 ^ N.of_nat (7 - i))%N.
    - set (y := (x / 128 ^ N.of_nat (7 - i))%N). 
      pose proof (N.mod_lt y 128 ltac:(lia)). pose proof (N.mod_lt y 256 ltac:(lia)).
      assert (y mod 256 mod 128 = y mod 128)%N.
      { change 256%N with (128 * 2)%N. rewrite N.mod_mul_r by lia. 
        rewrite N.mul_comm, N.mod_add by lia. apply N.mod_mod. lia. }
      lia.
    - change 128%N with (2 ^ 7)%N. rewrite <- N.pow_mul_r. f_equal. lia. }
  rewrite E. set (o := ((x / 128 ^ N.of_nat (7 - i)) mod 128 * 2)%N).
  destruct (Nat.even _); [|reflexivity].
  (* o is even, so setting bit 0 is adding one *)
  assert (Ho : (o mod 2 = 0)%N) by (unfold o; rewrite N.mod_mul by lia; reflexivity).
  assert (Hl : N.land o 1 = 0%N).
  { change 1%N with (N.ones 1). rewrite N.land_ones. change (2 ^ 1)%N with 2%N. exact Ho. }
  rewrite <- N.lxor_lor by exact Hl. symmetry. apply N.add_nocarry_lxor. exact Hl.
Qed.

Section P.
Variable SHA1 MD4 UTF16 : bytes -> bytes.
Variable DES : bytes -> bytes -> bytes.
Hypothesis SHA1_len : forall x, length (SHA1 x) = 20.
Hypothesis MD4_len : forall x, length (MD4 x) = 16.

Theorem challenge_hash_is_rfc peer auth user :
  challenge_hash SHA1 peer auth user = rfc_challenge_hash SHA1 peer auth user.
Proof. reflexivity. Qed.

Lemma challenge_hash_length peer auth user : length (challenge_hash SHA1 peer auth user) = 8.
Proof. unfold challenge_hash. rewrite firstn_length, SHA1_len. reflexivity. Qed.

Lemma des_crypt_7 key clear : length key = 7 -> length clear = 8 ->
  des_crypt DES key clear = rfc_des_encrypt DES clear key.
Proof.
  intros Hk Hc. unfold des_crypt, rfc_des_encrypt. rewrite g_DESCrypt_0, Hk. cbn [Z.of_nat Z.eqb Pos.eqb Pos.of_succ_nat Pos.succ].
  rewrite parity_pad_is_rfc. rewrite firstn_all2 by lia. reflexivity.
Qed.

Theorem challenge_response_is_rfc challenge hash : length challenge = 8 -> length hash = 16 ->
  challenge_response DES challenge hash = rfc_challenge_response DES challenge hash.
Proof.
  intros Hc Hh. unfold challenge_response, rfc_challenge_response.
  assert (Ez : firstn 21 (hash ++ repeat 0%N 21) = hash ++ repeat 0%N 5).
  { rewrite firstn_app, Hh. rewrite firstn_all2 by lia. reflexivity. }
  rewrite Ez. set (z := hash ++ repeat 0%N 5).
  assert (Hz : length z = 21) by (unfold z; rewrite app_length, Hh; reflexivity).
  rewrite !des_crypt_7; try exact Hc; try reflexivity;
    rewrite firstn_length, ?skipn_length, Hz; reflexivity.
Qed.

Theorem generate_nt_response_is_rfc auth peer user pw :
  generate_nt_response SHA1 MD4 UTF16 DES auth peer user pw = rfc_generate_nt_response SHA1 MD4 UTF16 DES auth peer user pw.
Proof.
  unfold generate_nt_response, rfc_generate_nt_response.
  apply challenge_response_is_rfc; [apply challenge_hash_length|apply MD4_len].
Qed.

Lemma hex_digit_sweep n : (n < 16)%N -> hex_upper_digit n = up_hex n.
Proof.
  intros Hn.
  assert (Hs : forallb (fun k => (hex_upper_digit k =? up_hex k)%N) (map N.of_nat (seq 0 16)) = true) by (vm_compute; reflexivity).
  rewrite forallb_forall in Hs. apply N.eqb_eq. apply Hs.
  apply in_map_iff. exists (N.to_nat n). split; [lia|]. apply in_seq. lia.
Qed.

Lemma hex_upper_is_rfc b : bytes_ok b -> hex_upper b = rfc_hex b.
Proof.
  induction 1 as [|x b Hx _ IH]; [reflexivity|]. unfold hex_upper, rfc_hex in *. cbn [flat_map]. rewrite IH.
  unfold byte_ok in Hx. rewrite !hex_digit_sweep by lia. reflexivity.
Qed.

Hypothesis SHA1_ok : forall x, bytes_ok (SHA1 x).

Theorem generate_authenticator_response_is_rfc auth peer ntresp user pw :
  generate_authenticator_response SHA1 MD4 UTF16 auth peer ntresp user pw =
  rfc_generate_authenticator_response SHA1 MD4 UTF16 auth peer ntresp user pw.
Proof.
  unfold generate_authenticator_response, rfc_generate_authenticator_response.
  destruct consts_are_rfc as (E1 & E2 & _). rewrite E1, E2. rewrite hex_upper_is_rfc by apply SHA1_ok. reflexivity.
Qed.

(* "S=" followed by 40 upper-case hexadecimal digits *)
Theorem authenticator_response_format auth peer ntresp user pw :
  let r := rfc_generate_authenticator_response SHA1 MD4 UTF16 auth peer ntresp user pw in
  length r = 42 /\ firstn 2 r = txt "S=" /\
  Forall (fun c => In c (txt "0123456789ABCDEF")) (skipn 2 r).
Proof.
  cbv zeta. unfold rfc_generate_authenticator_response. set (d := SHA1 _).
  assert (Hl : forall b, length (rfc_hex b) = 2 * length b).
  { induction b as [|x b IH]; [reflexivity|]. unfold rfc_hex in *. cbn [flat_map app length]. rewrite IH. lia. }
  split; [|split].
  - rewrite app_length, Hl. unfold d. rewrite SHA1_len. reflexivity.
  - reflexivity.
  - change (skipn 2 (txt "S=" ++ rfc_hex d)) with (rfc_hex d).
    assert (Hd : bytes_ok d) by apply SHA1_ok.
    induction Hd as [|x b Hx _ IH]; [constructor|]. unfold rfc_hex in *. cbn [flat_map app].
    assert (Hin : forall n, (n < 16)%N -> In (up_hex n) (txt "0123456789ABCDEF")).
    { intros n Hn. unfold up_hex. apply nth_In. change (length (txt "0123456789ABCDEF")) with 16. lia. }
    unfold byte_ok in Hx. constructor; [apply Hin; lia|]. constructor; [apply Hin; lia|]. exact IH.
Qed.

Theorem get_master_key_is_rfc hh ntresp : get_master_key SHA1 hh ntresp = rfc_get_master_key SHA1 hh ntresp.
Proof. unfold get_master_key, rfc_get_master_key. destruct consts_are_rfc as (_ & _ & E & _). rewrite E. reflexivity. Qed.

Theorem get_asymmetric_start_key_is_rfc master keylen is_send : keylen <= 20 ->
  get_asymmetric_start_key SHA1 master keylen is_send = spec_get_asymmetric_start_key SHA1 master keylen is_send.
Proof.
  intros Hk. unfold get_asymmetric_start_key, spec_get_asymmetric_start_key, rfc_get_asymmetric_start_key.
  rewrite g_StartKey_0. destruct consts_are_rfc as (_ & _ & _ & E2 & E3 & P1 & P2 & _). rewrite E2, E3, P1, P2.
  destruct (Nat.eqb_spec (length master) 16) as [El|El].
  - rewrite El. cbn [negb Z.of_nat Z.eqb Pos.eqb Pos.of_succ_nat Pos.succ]. rewrite SHA1_len.
    replace (20 <? keylen) with false by lia. reflexivity.
  - replace (negb (Z.of_nat (length master) =? 16)%Z) with true by lia. reflexivity.
Qed.

Theorem make_key_is_rfc ntresp pw is_send :
  make_key SHA1 MD4 UTF16 ntresp pw is_send = spec_make_key SHA1 MD4 UTF16 ntresp pw is_send.
Proof.
  unfold make_key, spec_make_key, rfc_make_key. rewrite g_MakeKey_0.
  destruct (Nat.eqb_spec (length ntresp) 24) as [El|El].
  - rewrite El. cbn [negb Z.of_nat Z.eqb Pos.eqb Pos.of_succ_nat Pos.succ].
    destruct consts_are_rfc as (_ & _ & _ & _ & _ & _ & _ & K & _). rewrite K. change (Z.to_nat 16) with 16.
    rewrite get_asymmetric_start_key_is_rfc by lia. rewrite get_master_key_is_rfc.
    unfold spec_get_asymmetric_start_key. unfold rfc_get_master_key at 1. rewrite firstn_length, SHA1_len. reflexivity.
  - replace (negb (Z.of_nat (length ntresp) =? 24)%Z) with true by lia. reflexivity.
Qed.

(* wrong-sized master keys and NT responses are refused with an error *)
Theorem wrong_size_refused master keylen is_send ntresp pw :
  (length master <> 16 -> get_asymmetric_start_key SHA1 master keylen is_send = Err E_invalid) /\
  (length ntresp <> 24 -> make_key SHA1 MD4 UTF16 ntresp pw is_send = Err E_invalid).
Proof.
  split; intros Hl.
  - unfold get_asymmetric_start_key. rewrite g_StartKey_0.
    replace (negb (Z.of_nat (length master) =? 16)%Z) with true by lia. reflexivity.
  - unfold make_key. rewrite g_MakeKey_0.
    replace (negb (Z.of_nat (length ntresp) =? 24)%Z) with true by lia. reflexivity.
Qed.
End P.
