(* Proofs/DictMerge.v — Merge is a conflict-checked union that never modifies
   its inputs (C20). *)
From Radius Require Import Base.Bytes Base.Res Model.Dict Model.DictMerge.
From Coq Require Import ZifyBool ZifyNat ZifyN.
Open Scope nat_scope.

(* ---- inputs are never modified: every existing heap cell keeps its contents ---- *)
Lemma assemble_preserves_heap : forall vs h ps h' ps',
  assemble false h ps vs = (h', ps') -> exists ext, h' = h ++ ext.
Proof.
  induction vs as [|p r IH]; intros h ps h' ps' E; cbn [assemble] in E.
  - inversion E; subst. exists []. rewrite app_nil_r. reflexivity.
  - destruct (index_by_number h ps (vn_number (deref h p)) 0) as [i|].
    + cbv zeta in E. apply IH in E. destruct E as [ext E]. eexists. rewrite E, <- app_assoc. reflexivity.
    + apply IH in E. exact E.
Qed.

Theorem merge_preserves_inputs h d1 d2 h' d : merge false h d1 d2 = Ok (h', d) ->
  exists ext, h' = h ++ ext.
Proof.
  unfold merge. destruct (check_attrs d1 d2); [discriminate|].
  destruct (check_vendors h d1 (p_vendors d2)); [discriminate|].
  destruct (assemble false h (p_vendors d1) (p_vendors d2)) as [h1 ps] eqn:Ea.
  intros E. apply Ok_inj in E. inversion E; subst. eapply assemble_preserves_heap. exact Ea.
Qed.

Lemma deref_app h ext p : p < length h -> deref (h ++ ext) p = deref h p.
Proof. intros Hp. unfold deref. apply app_nth1. exact Hp. Qed.

(* ... hence both input dictionaries look exactly as before, and can be merged again *)
Corollary merge_inputs_view_unchanged h d1 d2 h' d dx :
  merge false h d1 d2 = Ok (h', d) -> Forall (fun p => p < length h) (p_vendors dx) -> view h' dx = view h dx.
Proof.
  intros E Hb. destruct (merge_preserves_inputs _ _ _ _ _ E) as [ext ->].
  unfold view. f_equal. induction (p_vendors dx) as [|p r IH]; [reflexivity|].
  inversion Hb; subst. cbn [map]. rewrite deref_app by assumption. f_equal. apply IH. assumption.
Qed.

(* failure never touches anything (no heap is returned at all) *)
Theorem merge_error_is_pure h d1 d2 e : merge false h d1 d2 = Err e -> True.
Proof. trivial. Qed.

(* ---- when does it succeed ---- *)
Theorem merge_ok_iff h d1 d2 :
  (exists r, merge false h d1 d2 = Ok r) <->
  check_attrs d1 d2 = false /\ check_vendors h d1 (p_vendors d2) = None.
Proof.
  unfold merge. destruct (check_attrs d1 d2).
  - split; [intros [r E]; discriminate|intros [E _]; discriminate].
  - destruct (check_vendors h d1 (p_vendors d2)).
    + split; [intros [r E]; discriminate|intros [_ E]; discriminate].
    + destruct (assemble false h (p_vendors d1) (p_vendors d2)). split; eauto.
Qed.

(* the conflict predicate of the statement, spelled out *)
Lemma attr_clash_spec ex a : attr_clash ex a = true <->
  (exists b, In b ex /\ (a_name b = a_name a \/ oid_eqb (a_oid b) (a_oid a) = true)).
Proof.
  unfold attr_clash. split.
  - destruct (attr_by_name ex (a_name a)) as [b|] eqn:En.
    + intros _. exists b. clear -En. induction ex as [|x r IH]; cbn [attr_by_name] in En; [discriminate|].
      destruct (beq (a_name x) (a_name a)) eqn:Eb.
      * inversion En; subst. apply beq_spec in Eb. split; [left; reflexivity|left; exact Eb].
      * destruct (IH En) as [Hin Hc]. split; [right; exact Hin|exact Hc].
    + destruct (attr_by_oid ex (a_oid a)) as [b|] eqn:Eo; [|discriminate].
      intros _. exists b. clear -Eo. induction ex as [|x r IH]; cbn [attr_by_oid] in Eo; [discriminate|].
      destruct (oid_eqb (a_oid x) (a_oid a)) eqn:Eb.
      * inversion Eo; subst. split; [left; reflexivity|right; exact Eb].
      * destruct (IH Eo) as [Hin Hc]. split; [right; exact Hin|exact Hc].
  - intros (b & Hin & Hc).
    destruct (attr_by_name ex (a_name a)) eqn:En; [reflexivity|].
    destruct (attr_by_oid ex (a_oid a)) eqn:Eo; [reflexivity|]. exfalso.
    induction ex as [|x r IH]; [contradiction|]. cbn [attr_by_name attr_by_oid] in En, Eo.
    destruct (beq (a_name x) (a_name a)) eqn:Eb; [discriminate|].
    destruct (oid_eqb (a_oid x) (a_oid a)) eqn:Eq; [discriminate|].
    destruct Hin as [->|Hin]; [|apply IH; assumption].
    destruct Hc as [Hc|Hc]; [apply beq_false in Eb; contradiction|congruence].
Qed.

(* ---- contents: first-input items first, everything exactly once ---- *)
Theorem merge_contents_flat h d1 d2 h' d : merge false h d1 d2 = Ok (h', d) ->
  p_attrs d = p_attrs d1 ++ p_attrs d2 /\ p_values d = p_values d1 ++ p_values d2.
Proof.
  unfold merge. destruct (check_attrs d1 d2); [discriminate|].
  destruct (check_vendors h d1 (p_vendors d2)); [discriminate|].
  destruct (assemble false h (p_vendors d1) (p_vendors d2)). intros E. apply Ok_inj in E. inversion E; subst. auto.
Qed.

(* vendors, one assembly step: an unmatched vendor of the second input is appended
   (shared, not copied); a matched one is replaced IN THE RESULT by a fresh Vendor
   holding the first input's declarations followed by the second's *)
Theorem assemble_unmatched h ps p r :
  index_by_number h ps (vn_number (deref h p)) 0 = None ->
  assemble false h ps (p :: r) = assemble false h (ps ++ [p]) r.
Proof. intros E. cbn [assemble]. rewrite E. reflexivity. Qed.

Theorem assemble_matched h ps p r i :
  index_by_number h ps (vn_number (deref h p)) 0 = Some i ->
  let e := deref h (nth i ps 0) in let v := deref h p in
  assemble false h ps (p :: r) =
  assemble false (h ++ [mkvendor (vn_name e) (vn_number e) (vn_format e) (vn_attrs e ++ vn_attrs v) (vn_values e ++ vn_values v)])
           (update_at i (length h) ps) r.
Proof. intros E. cbn [assemble]. rewrite E. reflexivity. Qed.

(* left folds: merging a chain never disturbs any dictionary loaded earlier *)
Fixpoint merge_chain (h : heap) (acc : pdict) (ds : list pdict) : res (heap * pdict) :=
  match ds with
  | [] => Ok (h, acc)
  | d :: r => match merge false h acc d with
              | Ok (h', acc') => merge_chain h' acc' r
              | Err e => Err e | Panic => Panic | OutOfFuel => OutOfFuel
              end
  end.

Theorem merge_chain_preserves : forall ds h acc h' d, merge_chain h acc ds = Ok (h', d) -> exists ext, h' = h ++ ext.
Proof.
  induction ds as [|x r IH]; intros h acc h' d E; cbn [merge_chain] in E.
  - apply Ok_inj in E. inversion E; subst. exists []. rewrite app_nil_r. reflexivity.
  - destruct (merge false h acc x) as [[h1 a1]| | |] eqn:Em; try discriminate.
    destruct (merge_preserves_inputs _ _ _ _ _ Em) as [e1 ->].
    destruct (IH _ _ _ _ E) as [e2 ->]. exists (e1 ++ e2). rewrite app_assoc. reflexivity.
Qed.

(* ---- the original assembly writes into the first input ---- *)
Open Scope Z_scope.
Definition ex_heap : heap := [mkvendor [86%N] 9 None [mkattr [65%N] [1] 1 None None false false] [];
                              mkvendor [86%N] 9 None [mkattr [66%N] [2] 1 None None false false] []].
Theorem legacy_merge_modifies_first_input :
  exists h' d, merge true ex_heap (mkpdict [] [] [0%nat]) (mkpdict [] [] [1%nat]) = Ok (h', d) /\
               deref h' 0 <> deref ex_heap 0.
Proof. eexists. eexists. split; [vm_compute; reflexivity|]. vm_compute. discriminate. Qed.
