(* Proofs/Codecs.v — typed value codecs (C10): model = wire-format oracle,
   round trips, refusal, bounds, decoder exactness. *)
From Radius Require Import Base.Bytes Base.Guard Base.Res Gen.Consts Model.Attrs Model.Codecs
  Spec.C10 Proofs.Guards.
From Coq Require Import ZifyBool ZifyNat ZifyN.
Open Scope nat_scope.

(* ---------------- model = oracle ---------------- *)
Lemma integer_eq a : integer a = spec_dec_uint 4 a.
Proof. unfold integer, dec_uint, spec_dec_uint, zlen. rewrite g_Integer_0.
  destruct (Nat.eqb_spec (length a) 4) as [E|E]; [rewrite E; reflexivity|].
  replace (negb (Z.of_nat (length a) =? 4)%Z) with true by lia. reflexivity. Qed.
Lemma short_eq a : short a = spec_dec_uint 2 a.
Proof. unfold short, dec_uint, spec_dec_uint, zlen. rewrite g_Short_0.
  destruct (Nat.eqb_spec (length a) 2) as [E|E]; [rewrite E; reflexivity|].
  replace (negb (Z.of_nat (length a) =? 2)%Z) with true by lia. reflexivity. Qed.
Lemma integer64_eq a : integer64 a = spec_dec_uint 8 a.
Proof. unfold integer64, dec_uint, spec_dec_uint, zlen. rewrite g_Integer64_0.
  destruct (Nat.eqb_spec (length a) 8) as [E|E]; [rewrite E; reflexivity|].
  replace (negb (Z.of_nat (length a) =? 8)%Z) with true by lia. reflexivity. Qed.

Lemma new_string_eq s : new_string s = spec_new_octets s.
Proof. unfold new_string, spec_new_octets, zlen. rewrite g_NewString_0.
  destruct (Nat.leb_spec (length s) 253).
  - replace (Z.of_nat (length s) >? 253)%Z with false by lia. reflexivity.
  - replace (Z.of_nat (length s) >? 253)%Z with true by lia. reflexivity. Qed.
Lemma new_bytes_eq s : new_bytes s = spec_new_octets s.
Proof. unfold new_bytes, spec_new_octets, zlen. rewrite g_NewBytes_0.
  destruct (Nat.leb_spec (length s) 253).
  - replace (Z.of_nat (length s) >? 253)%Z with false by lia. reflexivity.
  - replace (Z.of_nat (length s) >? 253)%Z with true by lia. reflexivity. Qed.

Local Ltac fixed_len k g :=
  unfold spec_fixed, zlen; rewrite g;
  match goal with |- context [length ?a =? k] =>
    destruct (Nat.eqb_spec (length a) k) as [E|E];
    [rewrite E; reflexivity |
     match goal with |- context [negb (?z =? ?c)%Z] => replace (negb (z =? c)%Z) with true by lia end; reflexivity]
  end.
Lemma ipaddr_eq a : ipaddr a = spec_fixed 4 a.
Proof. unfold ipaddr. fixed_len 4 g_IPAddr_0. Qed.
Lemma ipv6addr_eq a : ipv6addr a = spec_fixed 16 a.
Proof. unfold ipv6addr. fixed_len 16 g_IPv6Addr_0. Qed.
Lemma ifid_eq a : ifid a = spec_fixed 8 a.
Proof. unfold ifid. fixed_len 8 g_IFID_0. Qed.
Lemma new_ifid_eq a : new_ifid a = spec_fixed 8 a.
Proof. unfold new_ifid. fixed_len 8 g_NewIFID_0. Qed.

Lemma all_zero_10 l : length l = 10 -> all_zero l = beq l (repeat 0%N 10).
Proof.
  intros Hl. do 10 (destruct l as [|? l]; [discriminate|]). destruct l; [|discriminate].
  unfold all_zero. cbn [forallb repeat beq]. reflexivity.
Qed.

Lemma new_ipaddr_eq ip : new_ipaddr ip = spec_new_ipaddr ip.
Proof.
  unfold new_ipaddr, spec_new_ipaddr, to4.
  destruct (length ip =? 4) eqn:E4; [reflexivity|].
  destruct (Nat.eqb_spec (length ip) 16) as [E16|E16]; cbn [andb]; [|reflexivity].
  do 16 (destruct ip as [|? ip]; [discriminate|]). destruct ip; [|discriminate].
  cbn [firstn skipn]. unfold all_zero, v4_mapped_prefix. cbn [forallb beq].
  repeat match goal with |- context [(?x =? ?y)%N] => destruct (N.eqb_spec x y); cbn [andb] end; reflexivity.
Qed.

Lemma new_ipv6addr_eq ip : new_ipv6addr ip = spec_new_ipv6addr ip.
Proof.
  unfold new_ipv6addr, spec_new_ipv6addr, to16, ip_canon.
  destruct (length ip =? 4); [reflexivity|]. destruct (length ip =? 16); reflexivity.
Qed.

Lemma date_eq a : date a = spec_date a.
Proof. unfold date, spec_date, zlen. rewrite g_Date_0.
  destruct (Nat.eqb_spec (length a) 4) as [E|E]; [rewrite E; reflexivity|].
  replace (negb (Z.of_nat (length a) =? 4)%Z) with true by lia. reflexivity. Qed.
Lemma new_date_eq u : new_date u = spec_new_date u.
Proof. unfold new_date, spec_new_date. rewrite g_NewDate_0, g_NewDate_1.
  destruct ((0 <=? u)%Z && (u <=? 4294967295)%Z) eqn:E.
  - replace ((u <? 0)%Z || (u >? 4294967295)%Z) with false by lia.
    replace (u mod 4294967296)%Z with u by lia. reflexivity.
  - replace ((u <? 0)%Z || (u >? 4294967295)%Z) with true by lia. reflexivity. Qed.

Lemma vendor_specific_eq a : vendor_specific a = spec_vsa a.
Proof. unfold vendor_specific, spec_vsa, zlen. rewrite g_VendorSpecific_0.
  destruct (Nat.leb_spec 5 (length a)).
  - replace (Z.of_nat (length a) <? 5)%Z with false by lia. reflexivity.
  - replace (Z.of_nat (length a) <? 5)%Z with true by lia. reflexivity. Qed.
Lemma new_vendor_specific_eq id v : new_vendor_specific id v = spec_new_vsa id v.
Proof. unfold new_vendor_specific, spec_new_vsa, zlen. rewrite g_NewVendorSpecific_0, g_NewVendorSpecific_1.
  destruct ((1 <=? length v) && (length v <=? 249)) eqn:E.
  - replace ((Z.of_nat (length v) <? 1)%Z || (Z.of_nat (length v) >? 249)%Z) with false by lia. reflexivity.
  - replace ((Z.of_nat (length v) <? 1)%Z || (Z.of_nat (length v) >? 249)%Z) with true by lia. reflexivity. Qed.

Lemma tlv_dec_eq a : tlv_dec a = spec_tlv6929 a.
Proof. unfold tlv_dec, spec_tlv6929, zlen. rewrite g_TLV_0, g_TLV_1.
  destruct a as [|t [|l v]].
  - reflexivity.
  - reflexivity.
  - cbn [length].
    destruct ((3 <=? S (S (length v))) && (S (S (length v)) <=? 255)) eqn:E.
    + replace ((Z.of_nat (S (S (length v))) <? 3)%Z || (Z.of_nat (S (S (length v))) >? 255)%Z) with false by lia.
      cbn [andb]. destruct (Nat.eqb_spec (N.to_nat l) (S (S (length v)))).
      * replace (negb (Z.of_N l =? Z.of_nat (S (S (length v))))%Z) with false by lia. reflexivity.
      * replace (negb (Z.of_N l =? Z.of_nat (S (S (length v))))%Z) with true by lia. reflexivity.
    + replace ((Z.of_nat (S (S (length v))) <? 3)%Z || (Z.of_nat (S (S (length v))) >? 255)%Z) with true by lia.
      reflexivity.
Qed.
Lemma new_tlv_eq t v : new_tlv t v = spec_new_tlv t v.
Proof. unfold new_tlv, spec_new_tlv, zlen, zbyte. rewrite g_NewTLV_0, g_NewTLV_1.
  destruct ((1 <=? length v) && (length v <=? 253)) eqn:E.
  - replace ((Z.of_nat (length v) <? 1)%Z || (Z.of_nat (length v) >? 253)%Z) with false by lia.
    do 3 f_equal. lia.
  - replace ((Z.of_nat (length v) <? 1)%Z || (Z.of_nat (length v) >? 253)%Z) with true by lia. reflexivity. Qed.

(* ---------------- round trips, refusal, bounds ---------------- *)
Theorem uint_roundtrip k i : (i < 256 ^ N.of_nat k)%N ->
  spec_dec_uint k (spec_enc_uint k i) = Ok i /\ length (spec_enc_uint k i) = k /\ bytes_ok (spec_enc_uint k i).
Proof.
  intros Hi. unfold spec_dec_uint, spec_enc_uint. rewrite be_enc_length, Nat.eqb_refl.
  rewrite be_dec_enc_small by exact Hi. repeat split. apply be_enc_ok.
Qed.
Theorem uint_decode_exact k a : (exists i, spec_dec_uint k a = Ok i) <-> length a = k.
Proof.
  unfold spec_dec_uint. destruct (Nat.eqb_spec (length a) k); split; intros H; eauto; try lia.
  destruct H; discriminate.
Qed.
Theorem uint_decode_encode k a i : bytes_ok a -> spec_dec_uint k a = Ok i -> spec_enc_uint k i = a.
Proof.
  unfold spec_dec_uint, spec_enc_uint. intros Hb. destruct (Nat.eqb_spec (length a) k) as [E|E]; [|discriminate].
  intros H; apply Ok_inj in H; subst i k. apply be_enc_dec. exact Hb.
Qed.

Theorem octets_roundtrip s : length s <= 253 -> spec_new_octets s = Ok s.
Proof. intros H. unfold spec_new_octets. replace (length s <=? 253) with true by lia. reflexivity. Qed.
Theorem octets_refuses s : 253 < length s <-> exists e, spec_new_octets s = Err e.
Proof.
  unfold spec_new_octets. destruct (Nat.leb_spec (length s) 253); split; intros H0; eauto; try lia.
  destruct H0; discriminate.
Qed.

Theorem ipaddr_roundtrip ip a : spec_new_ipaddr ip = Ok a ->
  spec_fixed 4 a = Ok a /\ ip_equal ip a /\ length a = 4.
Proof.
  unfold spec_new_ipaddr. destruct (Nat.eqb_spec (length ip) 4) as [E4|E4].
  - intros H; apply Ok_inj in H; subst a. unfold spec_fixed. rewrite E4. repeat split.
    exists (v4_mapped_prefix ++ ip). unfold ip_canon. rewrite E4. cbn. auto.
  - destruct (Nat.eqb_spec (length ip) 16) as [E16|E16]; cbn [andb]; [|discriminate].
    destruct (beq (firstn 12 ip) v4_mapped_prefix) eqn:Eb; [|discriminate].
    apply beq_spec in Eb. intros H; apply Ok_inj in H; subst a.
    assert (Hl : length (skipn 12 ip) = 4) by (rewrite skipn_length; lia).
    unfold spec_fixed. rewrite Hl. repeat split.
    exists ip. split.
    + unfold ip_canon. rewrite E16. reflexivity.
    + unfold ip_canon. rewrite Hl. change (4 =? 4) with true. cbv iota.
      rewrite <- Eb, firstn_skipn. reflexivity.
Qed.
Theorem ipaddr_refuses ip : is_v4 ip = false <-> exists e, spec_new_ipaddr ip = Err e.
Proof.
  unfold is_v4, spec_new_ipaddr. destruct (length ip =? 4); cbn [orb].
  - split; [discriminate|intros [e H]; discriminate].
  - destruct ((length ip =? 16) && beq (firstn 12 ip) v4_mapped_prefix); split; intros H; eauto; try discriminate.
    destruct H; discriminate.
Qed.
Theorem ipv6addr_roundtrip ip a : spec_new_ipv6addr ip = Ok a ->
  spec_fixed 16 a = Ok a /\ ip_equal ip a /\ length a = 16.
Proof.
  unfold spec_new_ipv6addr. destruct (ip_canon ip) as [c|] eqn:Ec; [|discriminate].
  intros H; apply Ok_inj in H; subst a.
  assert (Hl : length c = 16).
  { unfold ip_canon in Ec. destruct (Nat.eqb_spec (length ip) 4) as [E|E].
    - assert (Hc : c = v4_mapped_prefix ++ ip) by congruence. rewrite Hc, app_length.
      change (length v4_mapped_prefix) with 12. lia.
    - destruct (Nat.eqb_spec (length ip) 16); inversion Ec; subst; auto. }
  unfold spec_fixed. rewrite Hl. repeat split. exists c. split; [exact Ec|].
  unfold ip_canon. rewrite Hl. reflexivity.
Qed.
Theorem ipv6addr_refuses ip : (length ip <> 4 /\ length ip <> 16) <-> exists e, spec_new_ipv6addr ip = Err e.
Proof.
  unfold spec_new_ipv6addr, ip_canon.
  destruct (Nat.eqb_spec (length ip) 4) as [E4|E4]; [split; [lia|intros [x H]; discriminate]|].
  destruct (Nat.eqb_spec (length ip) 16) as [E16|E16]; split; intros H; eauto; try lia. destruct H; discriminate.
Qed.
Theorem fixed_exact k a : (exists b, spec_fixed k a = Ok b) <-> length a = k.
Proof.
  unfold spec_fixed. destruct (Nat.eqb_spec (length a) k); split; intros H; eauto; try lia. destruct H; discriminate.
Qed.

Theorem date_roundtrip u : (0 <= u <= 4294967295)%Z ->
  exists a, spec_new_date u = Ok a /\ spec_date a = Ok u /\ length a = 4.
Proof.
  intros Hu. exists (be_enc 4 (Z.to_N u)). unfold spec_new_date, spec_date.
  replace ((0 <=? u)%Z && (u <=? 4294967295)%Z) with true by lia.
  rewrite be_enc_length. cbn [Nat.eqb]. rewrite be_dec_enc_small.
  - repeat split. f_equal. lia.
  - change (256 ^ N.of_nat 4)%N with 4294967296%N. lia.
Qed.
Theorem date_refuses u : (u < 0 \/ 4294967295 < u)%Z <-> exists e, spec_new_date u = Err e.
Proof.
  unfold spec_new_date. destruct ((0 <=? u)%Z && (u <=? 4294967295)%Z) eqn:E; split; intros H; eauto; try lia.
  destruct H; discriminate.
Qed.

Theorem vsa_roundtrip id v : (id < 4294967296)%N -> 1 <= length v <= 249 ->
  exists a, spec_new_vsa id v = Ok a /\ spec_vsa a = Ok (id, v) /\ length a <= 253.
Proof.
  intros Hid Hv. exists (be_enc 4 id ++ v). unfold spec_new_vsa, spec_vsa.
  replace ((1 <=? length v) && (length v <=? 249)) with true by lia.
  rewrite app_length, be_enc_length. replace (5 <=? 4 + length v) with true by lia.
  assert (Hf : firstn 4 (be_enc 4 id ++ v) = be_enc 4 id)
    by (rewrite <- (be_enc_length 4 id) at 1; apply firstn_app_exact).
  assert (Hs : skipn 4 (be_enc 4 id ++ v) = v)
    by (rewrite <- (be_enc_length 4 id) at 1; apply skipn_app_exact).
  rewrite Hf, Hs. rewrite be_dec_enc_small by exact Hid.
  repeat split. lia.
Qed.
Theorem vsa_refuses id v : (length v = 0 \/ 249 < length v) <-> exists e, spec_new_vsa id v = Err e.
Proof.
  unfold spec_new_vsa. destruct ((1 <=? length v) && (length v <=? 249)) eqn:E; split; intros H; eauto; try lia.
  destruct H; discriminate.
Qed.
Theorem vsa_decode_exact a : (exists r, spec_vsa a = Ok r) <-> 5 <= length a.
Proof.
  unfold spec_vsa. destruct (Nat.leb_spec 5 (length a)); split; intros H0; eauto; try lia. destruct H0; discriminate.
Qed.
Theorem vsa_decode_encode a id v : bytes_ok a -> spec_vsa a = Ok (id, v) -> length a <= 253 -> spec_new_vsa id v = Ok a.
Proof.
  unfold spec_vsa, spec_new_vsa. intros Hb. destruct (Nat.leb_spec 5 (length a)) as [H5|H5]; [|discriminate].
  intros H Hl. apply Ok_inj in H.
  assert (Hid : id = be_dec (firstn 4 a)) by congruence.
  assert (Hv : v = skipn 4 a) by congruence. subst id v.
  rewrite skipn_length. replace ((1 <=? length a - 4) && (length a - 4 <=? 249)) with true by lia.
  f_equal. replace 4 with (length (firstn 4 a)) at 1 by (rewrite firstn_length; lia).
  rewrite be_enc_dec by (apply bytes_ok_firstn; exact Hb). apply firstn_skipn.
Qed.

Theorem tlv_roundtrip t v : 1 <= length v <= 253 ->
  exists a, spec_new_tlv t v = Ok a /\ spec_tlv6929 a = Ok (t, v) /\ length a <= 255.
Proof.
  intros Hv. exists (t :: N.of_nat (length v + 2) :: v). unfold spec_new_tlv, spec_tlv6929.
  replace ((1 <=? length v) && (length v <=? 253)) with true by lia. cbn [length].
  replace ((3 <=? S (S (length v))) && (S (S (length v)) <=? 255) && (N.to_nat (N.of_nat (length v + 2)) =? S (S (length v))))
    with true by lia.
  repeat split. lia.
Qed.
Theorem tlv_refuses t v : (length v = 0 \/ 253 < length v) <-> exists e, spec_new_tlv t v = Err e.
Proof.
  unfold spec_new_tlv. destruct ((1 <=? length v) && (length v <=? 253)) eqn:E; split; intros H; eauto; try lia.
  destruct H; discriminate.
Qed.
Theorem tlv_decode_exact a : (exists r, spec_tlv6929 a = Ok r) <->
  3 <= length a <= 255 /\ exists t l v, a = t :: l :: v /\ N.to_nat l = length a.
Proof.
  unfold spec_tlv6929. destruct a as [|t [|l v]].
  - split; [intros [r H]; discriminate|intros [H _]; cbn [length] in H; lia].
  - split; [intros [r H]; discriminate|intros [H _]; cbn [length] in H; lia].
  - destruct ((3 <=? length (t :: l :: v)) && (length (t :: l :: v) <=? 255) && (N.to_nat l =? length (t :: l :: v))) eqn:E.
    + split; [|eauto]. intros _. split; [lia|]. exists t, l, v. split; [reflexivity|lia].
    + split; [intros [r H]; discriminate|]. intros (H1 & t' & l' & v' & Heq & Hl). inversion Heq; subst. lia.
Qed.
Theorem tlv_decode_encode a t v : spec_tlv6929 a = Ok (t, v) -> spec_new_tlv t v = Ok a.
Proof.
  unfold spec_tlv6929, spec_new_tlv. destruct a as [|t' [|l v']]; try discriminate.
  destruct ((3 <=? length (t' :: l :: v')) && (length (t' :: l :: v') <=? 255) && (N.to_nat l =? length (t' :: l :: v'))) eqn:E;
    [|discriminate].
  intros H; apply Ok_inj in H.
  assert (Ht : t = t') by congruence. assert (Hv : v = v') by congruence. subst t v. cbn [length] in E.
  replace ((1 <=? length v') && (length v' <=? 253)) with true by lia.
  do 3 f_equal. lia.
Qed.
